/-
  Consequences of `RecvEffect` in the form used by the property files (growth clauses of C06),
  and the reward-history invariants of C04.
-/
import PyXABProofs.Lemmas.TBA_Loop

set_option linter.unusedSectionVars false

namespace PyXAB
namespace TBA
open Tree

variable {α σ R S : Type}

theorem stOf_eq [Inhabited σ] {P : Part α σ} {i : Nat} {nd : Node α σ}
    (h : P.nodes[i]? = some nd) : P.stOf i = nd.st := by
  simp only [Part.stOf, h]

theorem DownChain.child_getElem {P : Part α σ} :
    ∀ {l : List Nat}, DownChain P l → ∀ (k a b : Nat), l[k]? = some a → l[k + 1]? = some b →
      Child P a b
  | [], h, _, _, _, _, _ => h.elim
  | [_], _, k, _, _, _, hb => by simp at hb
  | x :: y :: rest, h, 0, a, b, ha, hb => by
    simp only [List.getElem?_cons_zero, List.getElem?_cons_succ, Option.some.injEq] at ha hb
    subst ha hb; exact h.1
  | x :: y :: rest, h, k + 1, a, b, ha, hb => by
    rw [List.getElem?_cons_succ] at ha hb
    exact DownChain.child_getElem h.2 k a b ha hb

/-- A stored path in index form: it starts at the root, its elements are valid ids, and
consecutive elements are parent → child. -/
theorem IsPath.spec {P : Part α σ} {path : List Nat} (h : IsPath P path) :
    path.head? = some 0 ∧ (∀ v ∈ path, v < P.nodes.length) ∧
    ∀ (k a b : Nat), path[k]? = some a → path[k + 1]? = some b → Child P a b :=
  ⟨h.1, h.2.all_valid, DownChain.child_getElem h.2⟩

/-- If every cell's count is the number of history entries naming it (and all entries name
valid cells), the counts sum to the length of the history. -/
theorem sumCounts_eq {P : Part α (TBSt R S)} {H : List (Nat × R)}
    (hval : ∀ e ∈ H, e.1 < P.nodes.length)
    (hc : ∀ (i : Nat) (nd : Node α (TBSt R S)), P.nodes[i]? = some nd →
      nd.st.count = (H.filter (fun e => decide (e.1 = i))).length) :
    sumCounts P = H.length := by
  have : P.nodes.map (fun nd => nd.st.count) =
      (List.range P.nodes.length).map (fun i => (H.filter (fun e => decide (e.1 = i))).length) := by
    apply List.ext_getElem
    · simp
    · intro i h1 h2
      simp only [List.getElem_map, List.getElem_range]
      exact hc i _ (List.getElem?_eq_getElem _)
  unfold sumCounts
  rw [this]
  exact sum_filter_length P.nodes.length H hval

namespace RecvEffect
variable {mo : List R → Nat → S} {vo : Option (List R → S)} {r : R} {s0 : TBSt R S}
  {hit : Nat → Prop} {P P' : Part α (TBSt R S)} {last : Nat} {grew : Bool}

theorem len_cases (E : RecvEffect mo vo r s0 hit P P' last grew) :
    P'.nodes.length = P.nodes.length ∨ P'.nodes.length = P.nodes.length + K P := by
  rw [E.len]; cases grew <;> simp

theorem grew_iff (E : RecvEffect mo vo r s0 hit P P' last grew) (hK : 1 ≤ K P) :
    P.nodes.length < P'.nodes.length ↔ grew = true := by
  rw [E.len]; cases grew <;> simp <;> omega

theorem frame (E : RecvEffect mo vo r s0 hit P P' last grew) (i : Nat)
    (nd : Node α (TBSt R S)) (hi : P.nodes[i]? = some nd) :
    ∃ nd', P'.nodes[i]? = some nd' ∧ nd'.depth = nd.depth ∧ nd'.index = nd.index ∧
      nd'.parent = nd.parent ∧ nd'.box = nd.box ∧ (i ≠ last → nd'.children = nd.children) := by
  obtain ⟨x, x1, x2, x3, x4, x5, x6, _⟩ := E.old i nd hi
  exact ⟨x, x1, x2, x3, x4, x5, fun h => x6 (fun c => h c.1)⟩

/-- Without growth every child list is kept. -/
theorem frame_nogrow (E : RecvEffect mo vo r s0 hit P P' last grew) (hg : grew = false) (i : Nat)
    (nd : Node α (TBSt R S)) (hi : P.nodes[i]? = some nd) :
    ∃ nd', P'.nodes[i]? = some nd' ∧ nd'.children = nd.children := by
  obtain ⟨x, x1, _, _, _, _, x6, _⟩ := E.old i nd hi
  exact ⟨x, x1, x6 (fun c => by rw [hg] at c; cases c.2)⟩

theorem shape (E : RecvEffect mo vo r s0 hit P P' last grew) (hg : grew = true) :
    P.isLeaf last = true ∧ P'.nodes.length = P.nodes.length + K P ∧
    ∃ ln ln' cs, P.nodes[last]? = some ln ∧ P'.nodes[last]? = some ln' ∧
      ln'.children = some cs ∧ (∀ i, i ∈ cs ↔ P.nodes.length ≤ i ∧ i < P'.nodes.length) ∧
      ∀ i, i ∈ cs → ∃ cn, P'.nodes[i]? = some cn ∧ cn.parent = some last ∧
        cn.children = none ∧ cn.depth = ln.depth + 1 ∧ cn.st = s0 := by
  obtain ⟨ln, l1, l2⟩ := E.new hg
  obtain ⟨ln', k1, _, _, _, _, _, k7, _⟩ := E.old last ln l1
  obtain ⟨k8, k9⟩ := k7 rfl hg
  have hlen : P'.nodes.length = P.nodes.length + K P := by rw [E.len, hg]; simp
  refine ⟨isLeaf_iff.2 ⟨ln, l1, k8⟩, hlen, ln, ln', _, l1, k1, k9, fun i => ?_, fun i hi => ?_⟩
  · rw [List.mem_range'_1, hlen]
  · rw [List.mem_range'_1] at hi
    obtain ⟨cn, c1, c2, c3, c4, c5⟩ := l2 (i - P.nodes.length) (by omega)
    have e : P.nodes.length + (i - P.nodes.length) = i := by omega
    rw [e] at c1
    exact ⟨cn, c1, c3, c4, c2, c5⟩

/-- Every cell of the new tree is an old cell or one of the fresh leaves under `last`. -/
theorem cases_node (E : RecvEffect mo vo r s0 hit P P' last grew) {i : Nat}
    {nd' : Node α (TBSt R S)} (hi : P'.nodes[i]? = some nd') :
    (∃ nd, P.nodes[i]? = some nd ∧ nd'.depth = nd.depth ∧ nd'.parent = nd.parent) ∨
    (grew = true ∧ P.nodes.length ≤ i ∧ ∃ ln, P.nodes[last]? = some ln ∧
      nd'.depth = ln.depth + 1 ∧ nd'.parent = some last ∧ nd'.children = none ∧ nd'.st = s0) := by
  by_cases hlt : i < P.nodes.length
  · left
    obtain ⟨nd, hnd⟩ : ∃ nd, P.nodes[i]? = some nd := ⟨_, List.getElem?_eq_getElem hlt⟩
    obtain ⟨x, x1, x2, _, x4, _⟩ := E.old i nd hnd
    obtain rfl := getElem?_inj x1 hi
    exact ⟨nd, hnd, x2, x4⟩
  · right
    have hl := lt_length_of_getElem? hi
    rw [E.len] at hl
    cases grew with
    | false => simp at hl; omega
    | true =>
      simp only [if_true] at hl
      obtain ⟨ln, l1, h2⟩ := E.new rfl
      obtain ⟨cn, c1, c2, c3, c4, c5⟩ := h2 (i - P.nodes.length) (by omega)
      have e : P.nodes.length + (i - P.nodes.length) = i := by omega
      rw [e] at c1
      obtain rfl := getElem?_inj c1 hi
      exact ⟨rfl, by omega, ln, l1, c2, c3, c4, c5⟩

/-- A cell that is internal after the `receive` but was a leaf before is the pulled cell, and
the tree grew. -/
theorem new_internal (E : RecvEffect mo vo r s0 hit P P' last grew) {i : Nat}
    (h1 : P.isLeaf i = true) (h2 : P'.isLeaf i = false) : i = last ∧ grew = true := by
  obtain ⟨nd, n1, n2⟩ := isLeaf_iff.1 h1
  obtain ⟨x, x1, _, _, _, _, x6, _⟩ := E.old i nd n1
  apply Classical.byContradiction
  intro hn
  have := x6 hn
  rw [n2] at this
  simp [Part.isLeaf, x1, this] at h2

end RecvEffect

end TBA

/-! ## The reward-history invariants -/

namespace TBA.HCT
open Tree TBA PyXAB.HCT
variable {α R S : Type} [Add α] [Sub α] [Mul α] [Div α] [OfNat α 2] [NatCast α]
variable [LE S] [DecidableLE S] [Max S] [Min S] [Inhabited S] [Inhabited R]

/-- The history invariant of HCT/VHCT: pulled ids are valid, and the reward list of cell `i` is
the sub-list of the rewards of the rounds which pulled `i`. -/
def Hist (s : HCT α R S) (H : List (Nat × R)) : Prop :=
  (∀ e ∈ H, e.1 < s.P.nodes.length) ∧
  ∀ (i : Nat) (nd : Node α (TBSt R S)), s.P.nodes[i]? = some nd →
    nd.st.rewards = (H.filter (fun e => decide (e.1 = i))).map (·.2)

theorem hist_step (cfg : HCTCfg R S) (s s1 s' : HCT α R S) (H : List (Nat × R)) (r : R)
    (path : List Nat) (v : Nat) (nd : Node α (TBSt R S)) (thr : S)
    (_ : Inv cfg s) (hJ : Hist s H) (hT : PRel TauR s.P s1.P) (hR : Ready cfg s1 path v)
    (_ : s1.P.nodes[v]? = some nd) (_ : Inv cfg s')
    (E : RecvEffect cfg.meanOf (voOf cfg) r (st0 cfg) (· = v) s1.P s'.P v
      (nd.children.isNone && cfg.countGE (nd.st.count + 1) thr)) :
    Hist s' (H ++ [(v, r)]) := by
  have hv : v < s1.P.nodes.length := hR.isPath.2.getLast_valid hR.lastEq
  have hle : s1.P.nodes.length ≤ s'.P.nodes.length := by rw [E.len]; omega
  have hval : ∀ e ∈ H, e.1 < s1.P.nodes.length := by rw [hT.len]; exact hJ.1
  constructor
  · intro e he
    rcases List.mem_append.1 he with h | h
    · exact Nat.lt_of_lt_of_le (hval e h) hle
    · have : e = (v, r) := by simpa using h
      subst this; exact Nat.lt_of_lt_of_le hv hle
  · refine E.hist rfl (fun i j => decide (j = i)) H hval hv ?_ ?_ ?_
    · intro i nd1 hi
      obtain ⟨nd0, n1, _, n3⟩ := hT.bwd hi
      rw [n3.2.1]; exact hJ.2 i nd0 n1
    · intro i _; simp [eq_comm]
    · intro i j hj hi; simp; omega

end TBA.HCT

namespace TBA.HOO
open Tree TBA PyXAB.HOO
variable {α R S : Type} [Add α] [Sub α] [Mul α] [Div α] [OfNat α 2] [NatCast α]
variable [LE S] [DecidableLE S] [Max S] [Min S] [Inhabited S] [Inhabited R]

/-- The history invariant of T-HOO: pulled ids are valid, and the reward list of cell `i` is
the sub-list of the rewards of the rounds which pulled a descendant-or-self of `i`. -/
def Hist (s : HOO α R S) (H : List (Nat × R)) : Prop :=
  (∀ e ∈ H, e.1 < s.P.nodes.length) ∧
  ∀ (i : Nat) (nd : Node α (TBSt R S)), s.P.nodes[i]? = some nd →
    nd.st.rewards = (H.filter (fun e => isAnc s.P i e.1)).map (·.2)

theorem hist_step (cfg : HOOCfg R S) (s s' : HOO α R S) (H : List (Nat × R)) (r : R)
    (path : List Nat) (v : Nat) (nd : Node α (TBSt R S))
    (hI : Inv cfg s) (hJ : Hist s H) (hR : Ready cfg { s with path := some path } path v)
    (_ : s.P.nodes[v]? = some nd) (hI' : Inv cfg s')
    (E : RecvEffect cfg.meanOf none r (st0 cfg) (· ∈ path) s.P s'.P v (cfg.expandOK nd.depth)) :
    Hist s' (H ++ [(v, r)]) := by
  have W : WF s.P := hI.wf
  have W' : WF s'.P := hI'.wf
  have hv : v < s.P.nodes.length := hR.isPath.2.getLast_valid hR.lastEq
  have hle : s.P.nodes.length ≤ s'.P.nodes.length := by rw [E.len]; omega
  have hval' : ∀ e ∈ H ++ [(v, r)], e.1 < s.P.nodes.length := by
    intro e he
    rcases List.mem_append.1 he with h | h
    · exact hJ.1 e h
    · have : e = (v, r) := by simpa using h
      subst this; exact hv
  refine ⟨fun e he => Nat.lt_of_lt_of_le (hval' e he) hle, fun i nd' hi => ?_⟩
  have key := E.hist rfl (fun i j => isAnc s.P i j) H hJ.1 hv hJ.2
    (fun i _ => by
      show i ∈ path ↔ _
      rw [isAnc_iff W, IsPath.mem_iff_anc W hR.isPath hR.lastEq])
    (fun i j hj hi => by
      cases h : isAnc s.P i j with
      | false => rfl
      | true =>
        have := ((isAnc_iff W i j).1 h).le W
        omega)
    i nd' hi
  rw [key]
  congr 1
  apply List.filter_congr
  intro e he
  have hj := hval' e he
  have hpar : ∀ (j : Nat) (x : Node α (TBSt R S)), s.P.nodes[j]? = some x →
      ∃ x', s'.P.nodes[j]? = some x' ∧ x'.parent = x.parent := by
    intro j x hx
    obtain ⟨x', x1, _, _, x4, _⟩ := E.old j x hx
    exact ⟨x', x1, x4⟩
  have h1 := isAnc_iff W i e.1
  have h2 := isAnc_iff W' i e.1
  have h3 := anc_ext (i := i) W hpar hj
  cases a : isAnc s.P i e.1 <;> cases b : isAnc s'.P i e.1 <;> simp_all

end TBA.HOO
end PyXAB
