/-
  Tree-level helpers for SequOOL: consequences of `WF` about layers, the counter `expCount`
  of expanded cells per depth and how it changes under one expansion / payload updates.
-/
import PyXABProofs.Lemmas.SQ_Scan

set_option linter.unusedSectionVars false

namespace PyXAB
namespace SQ
open Tree TBA

variable {α σ S : Type}

/-! ### Lists -/

theorem countP_flip : ∀ {l : List Nat}, l.Nodup → ∀ {t : Nat}, t ∈ l → ∀ {p q : Nat → Bool},
    (∀ x ∈ l, x ≠ t → q x = p x) → p t = false → q t = true →
    l.countP q = l.countP p + 1
  | [], _, _, ht, _, _, _, _, _ => nomatch ht
  | x :: l, hn, t, ht, p, q, hpq, hp, hq => by
    rw [List.nodup_cons] at hn
    by_cases hx : x = t
    · subst hx
      have : l.countP q = l.countP p := by
        apply List.countP_congr
        intro y hy
        have hne : y ≠ x := fun e => hn.1 (e ▸ hy)
        rw [hpq y (List.mem_cons_of_mem _ hy) hne]
      rw [List.countP_cons_of_pos hq, List.countP_cons_of_neg (by simp [hp]), this]
    · have ht' : t ∈ l := by
        rcases List.mem_cons.1 ht with e | e
        · exact absurd e.symm hx
        · exact e
      have ih := countP_flip hn.2 ht' (p := p) (q := q)
        (fun y hy hne => hpq y (List.mem_cons_of_mem _ hy) hne) hp hq
      have hqx := hpq x (List.mem_cons_self ..) hx
      simp only [List.countP_cons, ih, hqx]
      omega

theorem range'_concat_one (a n : Nat) : List.range' a n ++ [a + n] = List.range' a (n + 1) := by
  rw [List.range'_concat]
  simp

theorem chosen_snoc {l : List Nat} (h : l = List.range' 1 l.length) :
    l ++ [l.length + 1] = List.range' 1 (l.length + 1) := by
  generalize l.length = n at h
  subst h
  rw [Nat.add_comm n 1, range'_concat_one, Nat.add_comm]

theorem nodup_of_pairwise_lt {l : List Nat} (h : l.Pairwise (· < ·)) : l.Nodup :=
  h.imp (fun h => Nat.ne_of_lt h)

/-- a list with at least two unopened positions and no duplicates has an unopened element
different from `t` -/
theorem exists_ne_of_countP {l : List Nat} (hn : l.Nodup) {p : Nat → Bool} {t : Nat}
    (h : 2 ≤ l.countP p) : ∃ x ∈ l, x ≠ t ∧ p x = true := by
  induction l with
  | nil => simp at h
  | cons y l ih =>
    rw [List.nodup_cons] at hn
    by_cases hy : p y = true
    · by_cases hyt : y = t
      · subst hyt
        rw [List.countP_cons_of_pos hy] at h
        have : 0 < l.countP p := by omega
        obtain ⟨x, hx, hpx⟩ := List.countP_pos_iff.1 this
        exact ⟨x, List.mem_cons_of_mem _ hx, fun e => hn.1 (e ▸ hx), hpx⟩
      · exact ⟨y, List.mem_cons_self .., hyt, hy⟩
    · rw [List.countP_cons_of_neg hy] at h
      obtain ⟨x, hx, h1, h2⟩ := ih hn.2 h
      exact ⟨x, List.mem_cons_of_mem _ hx, h1, h2⟩

/-! ### Layers under `WF` -/

theorem layer_exists {P : Part α σ} (W : WF P) {h : Nat} (hh : h ≤ P.depth) :
    ∃ l, P.layers[h]? = some l := by
  have : h < P.layers.length := by rw [W.layers_len]; omega
  exact ⟨_, List.getElem?_eq_getElem this⟩

theorem mem_layer {P : Part α σ} (W : WF P) {h : Nat} {l : List Nat}
    (hl : P.layers[h]? = some l) (i : Nat) :
    i ∈ l ↔ ∃ nd, P.nodes[i]? = some nd ∧ nd.depth = h := (W.layers_mem h l hl).2.2 i

theorem layer_nodup {P : Part α σ} (W : WF P) {h : Nat} {l : List Nat}
    (hl : P.layers[h]? = some l) : l.Nodup := nodup_of_pairwise_lt (W.layers_mem h l hl).1

theorem eq_zero_of_depth0 {P : Part α σ} (W : WF P) {i : Nat} {nd : Node α σ}
    (hi : P.nodes[i]? = some nd) (hd : nd.depth = 0) : i = 0 := by
  by_cases h : i = 0
  · exact h
  · have := W.depth_pos_of_pos (Nat.pos_of_ne_zero h) hi
    omega

/-- `node_list[0][0]` is the root. -/
theorem layer0 {P : Part α σ} (W : WF P) : ∃ rest, P.layers[0]? = some (0 :: rest) := by
  obtain ⟨l, hl⟩ := layer_exists W (Nat.zero_le _)
  obtain ⟨_, h2, h3⟩ := W.layers_mem 0 l hl
  cases l with
  | nil => exact absurd rfl h2
  | cons r rest =>
    obtain ⟨nd, n1, n2⟩ := (h3 r).1 (List.mem_cons_self ..)
    obtain rfl := eq_zero_of_depth0 W n1 n2
    exact ⟨rest, hl⟩

/-- a cell of depth `h` makes layer `h` exist -/
theorem layer_of_node {P : Part α σ} (W : WF P) {i : Nat} {nd : Node α σ}
    (hi : P.nodes[i]? = some nd) : ∃ l, P.layers[nd.depth]? = some l ∧ i ∈ l := by
  obtain ⟨l, hl⟩ := layer_exists W (W.depth_le i nd hi)
  exact ⟨l, hl, (mem_layer W hl i).2 ⟨nd, hi, rfl⟩⟩

/-! ### `expCount` -/

theorem isExp_eq_true {P : Part α σ} {i : Nat} :
    isExp P i = true ↔ ∃ nd cs, P.nodes[i]? = some nd ∧ nd.children = some cs := by
  unfold isExp
  cases h : P.nodes[i]? with
  | none => simp
  | some nd =>
    cases hc : nd.children with
    | none => simp [hc]
    | some cs => simp [hc]

theorem isExp_of_children_eq {P P' : Part α σ} {i : Nat}
    (h : (P'.nodes[i]?).map (·.children) = (P.nodes[i]?).map (·.children)) :
    isExp P' i = isExp P i := by
  unfold isExp
  cases h1 : P.nodes[i]? <;> cases h2 : P'.nodes[i]? <;> simp_all

theorem expCount_congr {P P' : Part α σ} {h : Nat} (hl : P'.layers[h]? = P.layers[h]?)
    (hc : ∀ id ∈ (P.layers[h]?).getD [], isExp P' id = isExp P id) :
    expCount P' h = expCount P h := by
  unfold expCount
  rw [hl]
  exact List.countP_congr (fun x hx => by rw [hc x hx])

theorem expCount_eq_zero {P : Part α σ} (W : WF P) (h : Nat)
    (hno : ∀ (i : Nat) (nd : Node α σ) (cs : List Nat), P.nodes[i]? = some nd →
      nd.children = some cs → nd.depth ≠ h) : expCount P h = 0 := by
  unfold expCount
  cases hl : P.layers[h]? with
  | none => rfl
  | some l =>
    simp only [Option.getD_some]
    rw [List.countP_eq_zero]
    intro i hi hexp
    obtain ⟨nd, n1, n2⟩ := (mem_layer W hl i).1 hi
    obtain ⟨nd', cs, e1, e2⟩ := isExp_eq_true.1 hexp
    obtain rfl := getElem?_inj n1 e1
    exact hno i nd cs n1 e2 n2

theorem expCount_prel {ρ : Nat → Node α σ → Node α σ → Prop} {P P' : Part α σ}
    (R : PRel ρ P P') (h : Nat) : expCount P' h = expCount P h := by
  apply expCount_congr (by rw [R.layers])
  intro id _
  apply isExp_of_children_eq
  cases h1 : P.nodes[id]? with
  | none =>
    have : P'.nodes[id]? = none := by
      rw [List.getElem?_eq_none_iff] at h1 ⊢; rw [R.len]; exact h1
    rw [this]
  | some nd =>
    obtain ⟨nd', e1, e2, _⟩ := R.node id nd h1
    rw [e1]; simp [e2.children]

section step
variable {P P' : Part α σ} {s0 : σ} {t : Nat} {tn : Node α σ}

/-- the layers up to the depth of the split cell are kept by an expansion -/
theorem step_layer_keep (S : Step P P' s0 t tn) (W : WF P) (ht : P.nodes[t]? = some tn)
    {h : Nat} (hh : h ≤ tn.depth) : P'.layers[h]? = P.layers[h]? := by
  apply S.layers_keep hh
  rw [W.layers_len]
  have := W.depth_le t tn ht
  omega

theorem step_isExp_old (S : Step P P' s0 t tn) {i : Nat}
    (hi : i < P.nodes.length) (hne : i ≠ t) : isExp P' i = isExp P i := by
  apply isExp_of_children_eq
  rw [S.old i hne hi]

theorem expCount_step_lt (S : Step P P' s0 t tn) (W : WF P) (ht : P.nodes[t]? = some tn)
    {h : Nat} (hh : h < tn.depth) : expCount P' h = expCount P h := by
  apply expCount_congr (step_layer_keep S W ht (Nat.le_of_lt hh))
  intro id hid
  cases hl : P.layers[h]? with
  | none => simp [hl] at hid
  | some l =>
    simp only [hl, Option.getD_some] at hid
    obtain ⟨nd, n1, n2⟩ := (mem_layer W hl id).1 hid
    apply step_isExp_old S (lt_length_of_getElem? n1)
    rintro rfl
    obtain rfl := getElem?_inj n1 ht
    omega

theorem expCount_step_eq (S : Step P P' s0 t tn) (W : WF P) (ht : P.nodes[t]? = some tn)
    (hleaf : tn.children = none) : expCount P' tn.depth = expCount P tn.depth + 1 := by
  obtain ⟨l, hl, htl⟩ := layer_of_node W ht
  unfold expCount
  rw [step_layer_keep S W ht (Nat.le_refl _), hl]
  simp only [Option.getD_some]
  apply countP_flip (layer_nodup W hl) htl
  · intro x hx hne
    obtain ⟨nd, n1, _⟩ := (mem_layer W hl x).1 hx
    exact step_isExp_old S (lt_length_of_getElem? n1) hne
  · simp [isExp, ht, hleaf]
  · simp [isExp, S.atp]

end step

end SQ
end PyXAB
