/-
  Rounds and runs of SequOOL: `receive`, the exhausted phase, one round, the loop, the history
  of handed-out cells and the recommendation `lastPoint`.
-/
import PyXABProofs.Lemmas.SQ_Pull

set_option linter.unusedSectionVars false
set_option linter.unusedVariables false

namespace PyXAB
namespace SQ
open Tree TBA

variable {α S : Type} [Add α] [Sub α] [Mul α] [Div α] [OfNat α 2] [NatCast α]
variable [LinearOrder S] [Inhabited S] {negInf : S}

/-! ### `receive` -/

theorem receive_eq {s : SequOOL α S} {c : Nat} (h : s.curr = some c) (r : S) :
    SequOOL.receive s r = .ok (credit s c r) := by
  simp only [SequOOL.receive, h, credit]

/-- `receive` after a `pull` of the search phase re-establishes the invariant. -/
theorem receive_mid {s1 : SequOOL α S} (M : Mid negInf s1) (r : S) :
    SequOOL.receive s1 r = .ok (credit s1 s1.chosen.length r) ∧
      Inv negInf (credit s1 s1.chosen.length r) := by
  refine ⟨receive_eq M.curr r, ?_⟩
  have C := M.core
  have hpos := M.pos
  show Core negInf (decide (0 < s1.loc)) s1.chosen.length (credit s1 s1.chosen.length r)
  refine core_payload (s' := credit s1 s1.chosen.length r) (c := s1.chosen.length)
    (f := fun st => { st with rewards := st.rewards ++ [r] }) C (fun _ => rfl)
    (Nat.le_refl _) ?_ ?_ rfl rfl rfl rfl rfl rfl
  · intro i nd hi
    obtain ⟨a1, a2⟩ := C.rew i nd hi
    constructor
    · intro h1 h2
      by_cases hic : i = s1.chosen.length
      · have := a2 (by omega)
        simp [hic, this]
      · simp only [hic, if_false]
        exact a1 h1 (by omega)
    · intro h
      have hic : ¬ i = s1.chosen.length := by omega
      simp only [hic, if_false]
      exact a2 (by omega)
  · intro hop _ nd hnd
    obtain ⟨t, tn, t1, t2, t3, t4, t5, _⟩ := C.opening hop
    have hlp : 0 < s1.loc := by simpa using hop
    have hK := C.loc_lt
    have hmem : s1.chosen.length ∈ List.range' (1 + s1.chosen.length - s1.loc) (K s1.P) := by
      rw [List.mem_range'_1]; omega
    obtain ⟨_, cn, _, _, _, _, c1, _, _, c2⟩ := C.wf.child_facts t1 t5 hmem
    obtain rfl := getElem?_inj c1 hnd
    omega

/-! ### The exhausted phase -/

theorem pull_exhausted {s : SequOOL α S} (W : WF s.P) (hex : Exhausted s) (t : Nat)
    (ds : List (Draw α)) :
    SequOOL.pull negInf s t ds = .ok ({ s with iteration := t, curr := some 0 }, ds, 0) := by
  obtain ⟨rest, hl⟩ := layer0 W
  have : ¬ s.currDepth ≤ s.hmax := Nat.not_le.2 hex
  unfold SequOOL.pull
  simp only [bind, Except.bind, this, if_false, hl]

/-- crediting the root keeps the invariant -/
theorem inv_credit_root {s s1 : SequOOL α S} (I : Inv negInf s) (r : S)
    (eP : s1.P = s.P) (eh : s1.hmax = s.hmax) (ed : s1.currDepth = s.currDepth)
    (el : s1.loc = s.loc) (eb : s1.budget = s.budget) (ec : s1.chosen = s.chosen) :
    Inv negInf (credit s1 0 r) := by
  unfold Inv at I ⊢
  have : (credit s1 0 r).loc = s.loc := el
  rw [this]
  have : (credit s1 0 r).chosen = s.chosen := ec
  rw [this]
  refine core_payload (c := 0) (f := fun st => { st with rewards := st.rewards ++ [r] }) I
    (fun _ => rfl) (Nat.le_refl _) ?_ ?_ (by simp only [credit, eP]) eh ed el eb ec
  · intro i nd hi
    obtain ⟨a1, a2⟩ := I.rew i nd hi
    constructor
    · intro h1 h2
      have : ¬ i = 0 := by omega
      simp only [this, if_false]
      exact a1 h1 h2
    · intro h
      have : ¬ i = 0 := by omega
      simp only [this, if_false]
      exact a2 h
  · intro _ h1 nd hnd
    obtain ⟨r0, r1, r2, _⟩ := I.wf.root
    obtain rfl := getElem?_inj r1 hnd
    omega

/-! ### One round -/

/-- One round of the exhausted phase: the root is handed out and credited; nothing else
changes. -/
theorem round_exhausted {s : SequOOL α S} (I : Inv negInf s) (hex : Exhausted s) (t : Nat)
    (r : S) (ds : List (Draw α)) :
    round negInf s t r ds = .ok (credit { s with iteration := t, curr := some 0 } 0 r, 0) ∧
      Inv negInf (credit { s with iteration := t, curr := some 0 } 0 r) := by
  constructor
  · unfold round
    rw [pull_exhausted I.wf hex]
    simp only [receive_eq (s := { s with iteration := t, curr := some 0 }) rfl r]
  · exact inv_credit_root I r rfl rfl rfl rfl rfl rfl

/-- One round of the search phase. -/
theorem round_search (hbot : ∀ x : S, negInf ≤ x) {s : SequOOL α S} (I : Inv negInf s)
    (hcd : s.currDepth ≤ s.hmax) (t : Nat) (r : S) {ds : List (Draw α)}
    (hds : HeadOK s.P.kind (dimn s.P) ds) :
    ∃ s1, round negInf s t r ds = .ok (credit s1 (s.chosen.length + 1) r, s.chosen.length + 1) ∧
      SearchPull s s1 (s.chosen.length + 1) ∧ Mid negInf s1 ∧
      Inv negInf (credit s1 (s.chosen.length + 1) r) := by
  obtain ⟨s1, ds1, hp, M, SP⟩ := pull_search hbot (t := t) I hcd hds
  have hlen : s1.chosen.length = s.chosen.length + 1 := by rw [SP.chosen]; simp
  obtain ⟨h1, h2⟩ := receive_mid M r
  rw [hlen] at h1 h2
  refine ⟨s1, ?_, SP, M, h2⟩
  unfold round
  rw [hp]
  simp only [h1]

theorem kind_credit (s : SequOOL α S) (c : Nat) (r : S) : (credit s c r).P.kind = s.P.kind := rfl

theorem dimn_credit (s : SequOOL α S) (c : Nat) (r : S) : dimn (credit s c r).P = dimn s.P :=
  (PRel_modifySt s.P c _).dimn_eq

/-- **Totality of one round** and preservation of the invariant. -/
theorem round_inv (hbot : ∀ x : S, negInf ≤ x) {s : SequOOL α S} (I : Inv negInf s) (t : Nat)
    (r : S) {ds : List (Draw α)} (hds : HeadOK s.P.kind (dimn s.P) ds) :
    ∃ s2 v, round negInf s t r ds = .ok (s2, v) ∧ Inv negInf s2 ∧ s2.hmax = s.hmax ∧
      s2.P.kind = s.P.kind ∧ dimn s2.P = dimn s.P ∧
      (Exhausted s → v = 0 ∧ s2.chosen = s.chosen ∧ s2.currDepth = s.currDepth) ∧
      (¬ Exhausted s → v = s.chosen.length + 1 ∧ s2.chosen = s.chosen ++ [v] ∧
        s.currDepth ≤ s2.currDepth) := by
  by_cases hex : Exhausted s
  · obtain ⟨h1, h2⟩ := round_exhausted I hex t r ds
    exact ⟨_, 0, h1, h2, rfl, rfl, dimn_credit _ _ _, fun _ => ⟨rfl, rfl, rfl⟩,
      fun h => absurd hex h⟩
  · have hcd : s.currDepth ≤ s.hmax := Nat.le_of_not_lt hex
    obtain ⟨s1, h1, SP, M, h2⟩ := round_search hbot I hcd t r hds
    refine ⟨_, _, h1, h2, SP.hmax, SP.kind, (dimn_credit _ _ _).trans SP.dimn,
      fun h => absurd h hex, fun _ => ⟨rfl, SP.chosen, ?_⟩⟩
    show s.currDepth ≤ s1.currDepth
    have hK := I.loc_lt
    by_cases hl : s.loc + 1 = K s.P
    · by_cases h0 : s.currDepth = 0
      · omega
      · obtain ⟨_, b, layer, _, _, h⟩ := SP.last hl (by omega)
        split at h <;> omega
    · have := (SP.next (by omega)).2.1
      omega

/-! ### The loop -/

theorem Exhausted.of_le {s s' : SequOOL α S} (h : Exhausted s) (hh : s'.hmax = s.hmax)
    (hd : s.currDepth ≤ s'.currDepth) : Exhausted s' := by
  unfold Exhausted at *; omega

/-- **Totality of the loop**, preservation of the invariant, and the history: the search phase
hands out the next `j` cells in creation order, afterwards every `pull` returns the root. -/
theorem runRounds_inv (hbot : ∀ x : S, negInf ≤ x) :
    ∀ (inputs : List (S × List (Draw α))) (s : SequOOL α S) (t : Nat), Inv negInf s →
      InputsOK s.P.kind (dimn s.P) inputs →
      ∃ s' H, runRounds negInf s t inputs = .ok (s', H) ∧ Inv negInf s' ∧ s'.hmax = s.hmax ∧
        s'.P.kind = s.P.kind ∧ dimn s'.P = dimn s.P ∧ H.map (·.2) = inputs.map (·.1) ∧
        s.currDepth ≤ s'.currDepth ∧
        ∃ j, j ≤ inputs.length ∧ (Exhausted s → j = 0) ∧ (j < inputs.length → Exhausted s') ∧
          s'.chosen = s.chosen ++ List.range' (s.chosen.length + 1) j ∧
          H.map (·.1) = List.range' (s.chosen.length + 1) j ++
            List.replicate (inputs.length - j) 0
  | [], s, t, I, _ =>
    ⟨s, [], rfl, I, rfl, rfl, rfl, rfl, Nat.le_refl _, 0, Nat.le_refl _, fun _ => rfl,
      fun h => by simp at h, by simp, by simp⟩
  | (r, ds) :: rest, s, t, I, hin => by
    have hds : HeadOK s.P.kind (dimn s.P) ds := hin (r, ds) (List.mem_cons_self ..)
    obtain ⟨s2, v, h1, I2, e1, e2, e3, hexh, hsrch⟩ := round_inv hbot I t r hds
    have hin2 : InputsOK s2.P.kind (dimn s2.P) rest := by
      rw [e2, e3]; exact fun x hx => hin x (List.mem_cons_of_mem _ hx)
    obtain ⟨s', H, g1, I', g2, g3, g4, g5, g6, j, j1, j2, j3, j4, j5⟩ :=
      runRounds_inv hbot rest s2 (t + 1) I2 hin2
    have hrun : runRounds negInf s t ((r, ds) :: rest) = .ok (s', (v, r) :: H) := by
      simp only [runRounds, h1, g1]
    by_cases hex : Exhausted s
    · obtain ⟨rfl, c1, c2⟩ := hexh hex
      have hex2 : Exhausted s2 := hex.of_le e1 (by omega)
      obtain rfl := j2 hex2
      refine ⟨s', _, hrun, I', g2.trans e1, g3.trans e2, g4.trans e3, by simp [g5], by omega, 0,
        Nat.zero_le _, fun _ => rfl, fun _ => hex2.of_le g2 g6, by simpa [c1] using j4, ?_⟩
      simp only [List.map_cons, j5, List.range'_zero, List.nil_append, Nat.sub_zero,
        List.length_cons, List.replicate_succ]
    · obtain ⟨rfl, c1, c2⟩ := hsrch hex
      have hl2 : s2.chosen.length = s.chosen.length + 1 := by rw [c1]; simp
      refine ⟨s', _, hrun, I', g2.trans e1, g3.trans e2, g4.trans e3, by simp [g5], by omega,
        j + 1, by simp; omega, fun h => absurd h hex, fun h => j3 (by simpa using h), ?_, ?_⟩
      · rw [j4, hl2, c1, List.range'_succ, List.append_assoc]; rfl
      · simp only [List.map_cons, j5, hl2, List.range'_succ, List.length_cons,
          Nat.add_sub_add_right, List.cons_append]

/-! ### The recommendation -/

theorem lastPoint_eq {s : SequOOL α S} {res : Option Nat}
    (h : SequOOL.lastScan s.P s.chosen negInf none = .ok res) :
    SequOOL.lastPoint negInf s =
      match res with
      | some id => .ok id
      | none => .error .noneDeref := by
  simp only [SequOOL.lastPoint, bind, Except.bind, h]
  cases res <;> rfl

/-- every handed-out cell whose reward arrived has a first reward -/
theorem Inv.chosen_rew {s : SequOOL α S} (I : Inv negInf s) :
    ∀ id ∈ s.chosen, ∃ nd r, s.P.nodes[id]? = some nd ∧ nd.st.rewards = [r] ∧
      firstRew s.P id = some r := by
  intro id hid
  rw [I.chosen_eq, List.mem_range'_1] at hid
  have hlt : id < s.P.nodes.length := by rw [I.len]; omega
  obtain ⟨nd, hnd⟩ : ∃ nd, s.P.nodes[id]? = some nd := ⟨_, List.getElem?_eq_getElem hlt⟩
  have := (I.rew id nd hnd).1 hid.1 (by omega)
  match hr : nd.st.rewards, this with
  | [r], _ => exact ⟨nd, r, hnd, hr, by simp [firstRew, hnd, hr]⟩

/-- **The recommendation** after at least one complete round: a handed-out cell whose observed
reward is maximal among the handed-out cells (the last such). -/
theorem lastPoint_inv (hbot : ∀ x : S, negInf ≤ x) {s : SequOOL α S} (I : Inv negInf s)
    (hne : s.chosen ≠ []) :
    ∃ v, SequOOL.lastPoint negInf s = .ok v ∧ IsMaxLast s.P s.chosen v := by
  obtain ⟨v, h1, h2⟩ := lastScan_top s.P negInf hbot s.chosen
    (fun id hid => by
      obtain ⟨_, r, _, _, h⟩ := I.chosen_rew id hid
      exact ⟨r, h⟩) hne
  exact ⟨v, by rw [lastPoint_eq h1], h2⟩

theorem lastPoint_nil {s : SequOOL α S} (h : s.chosen = []) :
    SequOOL.lastPoint negInf s = .error .noneDeref := by
  have : SequOOL.lastScan s.P s.chosen negInf none = .ok none := by rw [h]; rfl
  rw [lastPoint_eq this]

/-- crediting a cell outside `chosen` does not alter the recommendation -/
theorem lastPoint_credit {s s1 : SequOOL α S} {c : Nat} (r : S) (hc : c ∉ s.chosen)
    (eP : s1.P = s.P) (ec : s1.chosen = s.chosen) :
    SequOOL.lastPoint negInf (credit s1 c r) = SequOOL.lastPoint negInf s := by
  have : SequOOL.lastScan (credit s1 c r).P (credit s1 c r).chosen negInf none =
      SequOOL.lastScan s.P s.chosen negInf none := by
    simp only [credit]
    rw [ec, eP]
    apply lastScan_congr
    intro id hid
    have hne : ¬ c = id := fun e => hc (e ▸ hid)
    simp only [view, getElem?_modifySt]
    cases s.P.nodes[id]? with
    | none => rfl
    | some nd => simp [hne]
  simp only [SequOOL.lastPoint, this]

end SQ
end PyXAB
