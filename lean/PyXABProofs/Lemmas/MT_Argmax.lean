/-
  `argmaxFirst` (the model of `np.argmax`) over a linear order: it returns the first index of a
  maximal element, and fails exactly on the empty list.
-/
import Mathlib.Order.Defs.LinearOrder
import PyXABProofs.Lemmas.MT_ArgmaxCore

namespace PyXAB.MT
open PyXAB

variable {S : Type}

section
variable [LinearOrder S]

/-- invariant of the loop: `(pre.length - 1, bi, bv)` where `bi` is the first maximiser of `pre` -/
theorem amLoop_spec (xs : List S) : ∀ (pre : List S) (bi : Nat) (bv : S), pre[bi]? = some bv →
    (∀ (j : Nat) w, pre[j]? = some w → w ≤ bv) → (∀ (j : Nat) w, j < bi → pre[j]? = some w → w < bv) →
    IsFirstMax (pre ++ xs) (xs.foldl amStep (pre.length - 1, bi, bv)).2.1 := by
  induction xs with
  | nil =>
    intro pre bi bv h1 h2 h3
    simp only [List.append_nil, List.foldl_nil]
    exact ⟨bv, h1, h2, h3⟩
  | cons y ys ih =>
    intro pre bi bv h1 h2 h3
    have hpos : 0 < pre.length := by
      have := (List.getElem?_eq_some_iff.mp h1).1; omega
    have hlen : (pre ++ [y]).length - 1 = pre.length - 1 + 1 := by simp; omega
    rw [List.foldl_cons, show pre ++ y :: ys = (pre ++ [y]) ++ ys by simp]
    unfold amStep
    dsimp only
    by_cases hlt : bv < y
    · simp only [hlt, if_true]
      rw [← hlen]
      apply ih
      · simp
      · intro j w hj
        rw [List.getElem?_append] at hj
        split at hj
        · exact le_of_lt (lt_of_le_of_lt (h2 j w hj) hlt)
        · rw [List.getElem?_singleton] at hj
          split at hj
          · cases hj; exact le_refl _
          · cases hj
      · intro j w hjl hj
        rw [List.getElem?_append] at hj
        split at hj
        · exact lt_of_le_of_lt (h2 j w hj) hlt
        · rename_i hnl
          simp at hjl
          omega
    · simp only [hlt, if_false]
      rw [← hlen]
      have hbi : bi < pre.length := (List.getElem?_eq_some_iff.mp h1).1
      apply ih
      · rw [List.getElem?_append_left hbi]; exact h1
      · intro j w hj
        rw [List.getElem?_append] at hj
        split at hj
        · exact h2 j w hj
        · rw [List.getElem?_singleton] at hj
          split at hj
          · cases hj; exact not_lt.mp hlt
          · cases hj
      · intro j w hjl hj
        rw [List.getElem?_append_left (by omega)] at hj
        exact h3 j w hjl hj

/-- `argmaxFirst` returns the first index of a maximal element -/
theorem argmaxFirst_spec {V : List S} {i : Nat} (h : argmaxFirst V = some i) : IsFirstMax V i := by
  cases V with
  | nil => cases h
  | cons x xs =>
    rw [argmaxFirst_cons] at h
    cases h
    have := amLoop_spec xs [x] 0 x (by simp) (by
      intro j w hj
      rw [List.getElem?_singleton] at hj
      split at hj
      · cases hj; exact le_refl _
      · cases hj) (by intro j w hj; omega)
    simpa using this

theorem isFirstMax_lt_length {V : List S} {i : Nat} (h : IsFirstMax V i) : i < V.length := by
  obtain ⟨v, hv, -⟩ := h
  exact (List.getElem?_eq_some_iff.mp hv).1

/-- the first maximiser is unique -/
theorem isFirstMax_unique {V : List S} {i j : Nat} (hi : IsFirstMax V i) (hj : IsFirstMax V j) : i = j := by
  obtain ⟨v, hv, hv1, hv2⟩ := hi
  obtain ⟨w, hw, hw1, hw2⟩ := hj
  rcases Nat.lt_trichotomy i j with h | h | h
  · exact absurd (hw2 i v h hv) (not_lt.mpr (hv1 j w hw))
  · exact h
  · exact absurd (hv2 j w h hw) (not_lt.mpr (hw1 i v hv))

end
end PyXAB.MT
