/-
  HCT / VHCT:
  * C15.2: `pull` is idempotent (it recomputes `tau_h` / the nodes' `tau` from `iteration` and
    `var` only);
  * C16.3: `pull` / `receive` / `init` commute with mapping the boxes of the tree.
-/
import PyXABProofs.Lemmas.RL_HOO

namespace PyXAB
namespace RL
open Rel
set_option linter.unusedSectionVars false

section refresh
variable {α R S : Type}

/-- the node update performed by VHCT's `optTraverse` prologue -/
def tauUpd (cfg : HCTCfg R S) (dt : S) (nd : Node α (TBSt R S)) : Node α (TBSt R S) :=
  { nd with st := { nd.st with tau := cfg.tauNode dt nd.depth nd.st.var } }

theorem tauUpd_idem (cfg : HCTCfg R S) (dt : S) (nd : Node α (TBSt R S)) :
    tauUpd cfg dt (tauUpd cfg dt nd) = tauUpd cfg dt nd := rfl

/-- apply `T` at the positions `ids`, in order -/
def applyAt {β : Type} (T : β → β) (ids : List Nat) (ns : List β) : List β :=
  ids.foldl (fun ns id => ns.modify id T) ns

theorem applyAt_append {β : Type} (T : β → β) (l₁ l₂ : List Nat) (ns : List β) :
    applyAt T (l₁ ++ l₂) ns = applyAt T l₂ (applyAt T l₁ ns) := by
  simp only [applyAt, List.foldl_append]

theorem applyAt_getElem? {β : Type} (T : β → β) (hT : ∀ x, T (T x) = T x) :
    ∀ (ids : List Nat) (ns : List β) (j : Nat),
      (applyAt T ids ns)[j]? = (ns[j]?).map (fun x => if j ∈ ids then T x else x)
  | [], ns, j => by simp [applyAt]
  | i :: rest, ns, j => by
    have ih := applyAt_getElem? T hT rest (ns.modify i T) j
    simp only [applyAt, List.foldl_cons] at ih ⊢
    rw [ih, List.getElem?_modify]
    cases ns[j]? with
    | none => rfl
    | some x =>
      simp only [Option.map_some, List.mem_cons]
      by_cases hij : i = j
      · subst hij
        by_cases hr : i ∈ rest <;> simp [hr, hT]
      · have hji : ¬ j = i := fun e => hij e.symm
        by_cases hr : j ∈ rest <;> simp [hr, hij, hji]

theorem applyAt_idem {β : Type} (T : β → β) (hT : ∀ x, T (T x) = T x) (ids : List Nat)
    (ns : List β) : applyAt T ids (applyAt T ids ns) = applyAt T ids ns := by
  apply List.ext_getElem?
  intro j
  rw [applyAt_getElem? T hT, applyAt_getElem? T hT]
  cases ns[j]? with
  | none => rfl
  | some x =>
    simp only [Option.map_some]
    by_cases hr : j ∈ ids <;> simp [hr, hT]

/-- the inner loop of `refreshTau` (one layer) -/
def refreshLayer (cfg : HCTCfg R S) (dt : S) (P : Part α (TBSt R S)) (layer : List Nat) :
    Part α (TBSt R S) :=
  layer.foldl (fun (P : Part α (TBSt R S)) id =>
    match P.nodes[id]? with
    | none => P
    | some nd => P.modifySt id (fun st => { st with tau := cfg.tauNode dt nd.depth st.var })) P

/-- one iteration of the outer loop of `refreshTau` -/
def refreshStep (cfg : HCTCfg R S) (dt : S) (P : Part α (TBSt R S)) (h : Nat) :
    Except Err (Part α (TBSt R S)) :=
  match P.layers[h]? with
  | none => .error .indexError
  | some layer => .ok (refreshLayer cfg dt P layer)

theorem refreshTau_def (cfg : HCTCfg R S) (dt : S) (P : Part α (TBSt R S)) :
    HCT.refreshTau cfg dt P = (List.range' 1 P.depth).foldlM (refreshStep cfg dt) P := rfl

theorem refreshOne_eq (cfg : HCTCfg R S) (dt : S) (P : Part α (TBSt R S)) (id : Nat) :
    (match P.nodes[id]? with
      | none => P
      | some nd => P.modifySt id (fun st => { st with tau := cfg.tauNode dt nd.depth st.var })) =
      { P with nodes := P.nodes.modify id (tauUpd cfg dt) } := by
  cases h : P.nodes[id]? with
  | none =>
    have : P.nodes.modify id (tauUpd cfg dt) = P.nodes := by
      apply List.ext_getElem?
      intro j
      rw [List.getElem?_modify]
      by_cases hj : id = j
      · subst hj; simp [h]
      · simp [hj]
    rw [this]
  | some nd =>
    simp only [Part.modifySt, Part.modifyNode]
    congr 1
    apply List.ext_getElem?
    intro j
    rw [List.getElem?_modify, List.getElem?_modify]
    by_cases hj : id = j
    · subst hj
      simp only [h, if_true]
      rfl
    · simp only [hj, if_false]

theorem refreshLayer_eq (cfg : HCTCfg R S) (dt : S) :
    ∀ (layer : List Nat) (P : Part α (TBSt R S)),
      refreshLayer cfg dt P layer = { P with nodes := applyAt (tauUpd cfg dt) layer P.nodes }
  | [], P => rfl
  | id :: rest, P => by
    unfold refreshLayer
    rw [List.foldl_cons, refreshOne_eq]
    exact refreshLayer_eq cfg dt rest _

/-- Closed form of `refreshTau`: it applies `tauUpd` at a list of positions which only depends
on `layers` and `depth`. -/
theorem refreshTau_loop (cfg : HCTCfg R S) (dt : S) :
    ∀ (hs : List Nat) (P P1 : Part α (TBSt R S)),
      hs.foldlM (refreshStep cfg dt) P = .ok P1 →
      ∃ ids, P1 = { P with nodes := applyAt (tauUpd cfg dt) ids P.nodes } ∧
        ∀ Q : Part α (TBSt R S), Q.layers = P.layers →
          hs.foldlM (refreshStep cfg dt) Q = .ok { Q with nodes := applyAt (tauUpd cfg dt) ids Q.nodes }
  | [], P, P1, h => by
    obtain rfl := Except.ok.inj h
    exact ⟨[], rfl, fun Q _ => rfl⟩
  | h0 :: hs, P, P1, h => by
    rw [List.foldlM_cons] at h
    cases hl : P.layers[h0]? with
    | none => simp [refreshStep, hl, bind, Except.bind] at h
    | some layer =>
      simp only [refreshStep, hl, bind, Except.bind, refreshLayer_eq] at h
      obtain ⟨ids, e1, e2⟩ := refreshTau_loop cfg dt hs _ P1 h
      refine ⟨layer ++ ids, ?_, ?_⟩
      · rw [e1, applyAt_append]
      · intro Q hQ
        rw [List.foldlM_cons]
        simp only [refreshStep, hQ, hl, bind, Except.bind, refreshLayer_eq]
        rw [applyAt_append]
        exact e2 _ rfl

theorem refreshTau_idem (cfg : HCTCfg R S) (dt : S) {P P1 : Part α (TBSt R S)}
    (h : HCT.refreshTau cfg dt P = .ok P1) : HCT.refreshTau cfg dt P1 = .ok P1 ∧ P1.depth = P.depth := by
  rw [refreshTau_def] at h
  obtain ⟨ids, e1, e2⟩ := refreshTau_loop cfg dt _ P P1 h
  have hd : P1.depth = P.depth := by rw [e1]
  refine ⟨?_, hd⟩
  rw [refreshTau_def, hd, e2 P1 (by rw [e1])]
  rw [e1]
  simp only [applyAt_idem _ (tauUpd_idem cfg dt)]

end refresh

section hct
variable {α R S : Type} [Add α] [Sub α] [Mul α] [Div α] [OfNat α 2] [NatCast α]
variable [LE S] [DecidableLE S] [Max S] [Min S] [Inhabited S] [Inhabited R]

/-- C15.2 (HCT / VHCT): a second `pull` right after a `pull` returns the same cell and leaves
the state unchanged. -/
theorem hct_pull_idem (cfg : HCTCfg R S) {s s1 : HCT α R S} {v : Nat}
    (h : HCT.pull cfg s = .ok (s1, v)) : HCT.pull cfg s1 = .ok (s1, v) := by
  unfold HCT.pull at h ⊢
  cases hv : cfg.variance with
  | true =>
    simp only [hv, if_true, bind, Except.bind, pure, Except.pure] at h ⊢
    cases h1 : HCT.refreshTau cfg (cfg.dtHalf (tPlus s.iteration)) s.P with
    | error e => simp [h1] at h
    | ok P1 =>
      simp only [h1] at h
      cases h2 : descend P1 (fun nd => Except.ok (cfg.countGE nd.st.count nd.st.tau))
          (P1.nodes.length + 1) 0 [0] with
      | error e => simp [h2] at h
      | ok path =>
        simp only [h2] at h
        cases h3 : path.getLast? with
        | none => simp [h3] at h
        | some w =>
          simp only [h3, Except.ok.injEq, Prod.mk.injEq] at h
          obtain ⟨rfl, rfl⟩ := h
          simp only [(refreshTau_idem cfg _ h1).1, h2, h3]
  | false =>
    simp only [hv, Bool.false_eq_true, if_false, bind, Except.bind, pure, Except.pure] at h ⊢
    split at h
    · cases h
    · rename_i path h2
      split at h
      · cases h
      · rename_i w h3
        simp only [Except.ok.injEq, Prod.mk.injEq] at h
        obtain ⟨rfl, rfl⟩ := h
        simp only [h2, h3]

theorem hct_pullN_idem (cfg : HCTCfg R S) {s s1 : HCT α R S} {v : Nat}
    (h : HCT.pull cfg s = .ok (s1, v)) : ∀ q, hctPullN cfg q s1 = .ok s1
  | 0 => rfl
  | q + 1 => by
    simp only [hctPullN, hct_pull_idem cfg h]
    exact hct_pullN_idem cfg h q

/-- `pull^q ; pull` = `pull`, on every state (also on failing ones). -/
theorem hct_pullN_pull (cfg : HCTCfg R S) (s : HCT α R S) :
    ∀ q, (match hctPullN cfg q s with
          | .error e => .error e
          | .ok s0 => HCT.pull cfg s0) = HCT.pull cfg s
  | 0 => rfl
  | q + 1 => by
    cases h : HCT.pull cfg s with
    | error e => simp only [hctPullN, h]
    | ok r =>
      obtain ⟨s1, v⟩ := r
      simp only [hctPullN, h, hct_pullN_idem cfg h q]
      exact hct_pull_idem cfg h

/-! ### C16.3 for HCT / VHCT -/

theorem refreshTau_map (g : Box α → Box α) (cfg : HCTCfg R S) (dt : S) (P : Part α (TBSt R S)) :
    HCT.refreshTau cfg dt (partMapBox g P) = mapRes1 (partMapBox g) (HCT.refreshTau cfg dt P) := by
  unfold HCT.refreshTau
  rw [partMapBox_depth]
  apply foldlM_comm (partMapBox g)
  intro Q h
  simp only [partMapBox_layers]
  cases Q.layers[h]? with
  | none => rfl
  | some layer =>
    simp only [mapRes1]
    congr 1
    apply foldl_comm (partMapBox g)
    intro Q' id
    simp only [partMapBox_getElem?]
    cases Q'.nodes[id]? with
    | none => rfl
    | some nd => simp only [Option.map_some, nodeMapBox_depth, partMapBox_modifySt]

theorem hct_pull_map (g : Box α → Box α) (cfg : HCTCfg R S) (s : HCT α R S) :
    HCT.pull cfg (hctMapBox g s) = mapRes (hctMapBox g) id (HCT.pull cfg s) := by
  unfold HCT.pull
  cases hv : cfg.variance with
  | true =>
    simp only [hctMapBox, if_true, bind, Except.bind, pure, Except.pure, refreshTau_map]
    cases HCT.refreshTau cfg (cfg.dtHalf (tPlus s.iteration)) s.P with
    | error e => rfl
    | ok P1 =>
      simp only [mapRes1, partMapBox_length]
      rw [descend_map g P1 (fun nd => Except.ok (cfg.countGE nd.st.count nd.st.tau))
        (fun nd => Except.ok (cfg.countGE nd.st.count nd.st.tau)) (fun _ => rfl)]
      cases descend P1 (fun nd => Except.ok (cfg.countGE nd.st.count nd.st.tau))
          (P1.nodes.length + 1) 0 [0] with
      | error e => rfl
      | ok path =>
        simp only []
        cases path.getLast? with
        | none => rfl
        | some w => rfl
  | false =>
    simp only [hctMapBox, Bool.false_eq_true, if_false, bind, Except.bind, pure, Except.pure,
      partMapBox_length, partMapBox_depth]
    rw [descend_map g s.P _ _ (fun _ => rfl)]
    simp only [nodeMapBox_depth, nodeMapBox_st]
    split_both
    all_goals rfl

variable {g : Box α → Box α} {gd : Draw α → Draw α}

theorem hct_updateReward_map (g : Box α → Box α) (cfg : HCTCfg R S) (P : Part α (TBSt R S))
    (id : Nat) (r : R) :
    HCT.updateReward cfg (partMapBox g P) id r = partMapBox g (HCT.updateReward cfg P id r) :=
  partMapBox_modifySt g P id _

/-- the part of `receive_reward` after the periodic refresh (`P1` = tree after the refresh) -/
def hctRecvTail (cfg : HCTCfg R S) (s : HCT α R S) (path : List Nat) (r : R) (ds : List (Draw α))
    (P1 : Part α (TBSt R S)) : Except Err (HCT α R S × List (Draw α)) :=
  let dt := cfg.dtOne (tPlus s.iteration)
  match path.getLast? with
  | none => .error .indexError
  | some last =>
    let P2 := HCT.updateReward cfg P1 last r
    let P3 := match P2.nodes[last]? with
      | none => P2
      | some nd => P2.modifySt last (fun _ => HCT.computeU cfg dt nd)
    do
    let P4 ← backward cfg.negInf P3
    match P4.nodes[last]? with
    | none => .error .badId
    | some nd =>
      let thr ← (if cfg.variance then .ok nd.st.tau
                 else match s.tauH[nd.depth]? with
                   | none => .error .indexError
                   | some t => .ok t)
      let (P5, ds') ← (if nd.children.isNone && cfg.countGE nd.st.count thr
                       then P4.expand (HCT.st0 cfg) last ds else .ok (P4, ds))
      return ({ s with P := P5, iteration := s.iteration + 1 }, ds')

theorem hct_receive_eq (cfg : HCTCfg R S) (s : HCT α R S) (r : R) (ds : List (Draw α)) :
    HCT.receive cfg s r ds =
      (match s.path with
      | none => .error .noneDeref
      | some path => (do
        let P1 ← (if s.iteration = tPlus s.iteration then
            backward cfg.negInf (forListed s.P (HCT.computeU cfg (cfg.dtOne (tPlus s.iteration))))
          else .ok s.P)
        hctRecvTail cfg s path r ds P1)) := by
  obtain ⟨P, it, tauH, path⟩ := s
  unfold HCT.receive
  cases path with
  | none => rfl
  | some path => rfl

theorem hctRecvTail_map (hg : BoxEquivariant g gd) (cfg : HCTCfg R S) (s : HCT α R S)
    (path : List Nat) (r : R) (ds : List (Draw α)) (P1 : Part α (TBSt R S)) :
    hctRecvTail cfg (hctMapBox g s) path r (ds.map gd) (partMapBox g P1) =
      mapRes (hctMapBox g) (List.map gd) (hctRecvTail cfg s path r ds P1) := by
  unfold hctRecvTail
  simp only [hctMapBox, bind, Except.bind]
  cases path.getLast? with
  | none => rfl
  | some last =>
    simp only [hct_updateReward_map, partMapBox_getElem?]
    have e2 : (match Option.map (nodeMapBox g) (HCT.updateReward cfg P1 last r).nodes[last]? with
        | none => partMapBox g (HCT.updateReward cfg P1 last r)
        | some nd => (partMapBox g (HCT.updateReward cfg P1 last r)).modifySt last
            (fun _ => HCT.computeU cfg (cfg.dtOne (tPlus s.iteration)) nd)) =
        partMapBox g (match (HCT.updateReward cfg P1 last r).nodes[last]? with
        | none => HCT.updateReward cfg P1 last r
        | some nd => (HCT.updateReward cfg P1 last r).modifySt last
            (fun _ => HCT.computeU cfg (cfg.dtOne (tPlus s.iteration)) nd)) := by
      cases (HCT.updateReward cfg P1 last r).nodes[last]? with
      | none => rfl
      | some nd => exact partMapBox_modifySt g _ last _
    rw [e2, backward_map]
    cases backward cfg.negInf (match (HCT.updateReward cfg P1 last r).nodes[last]? with
        | none => HCT.updateReward cfg P1 last r
        | some nd => (HCT.updateReward cfg P1 last r).modifySt last
            (fun _ => HCT.computeU cfg (cfg.dtOne (tPlus s.iteration)) nd)) with
    | error e => rfl
    | ok P4 =>
      simp only [mapRes1, partMapBox_getElem?]
      cases P4.nodes[last]? with
      | none => rfl
      | some nd =>
        simp only [Option.map_some, nodeMapBox_st, nodeMapBox_depth, nodeMapBox_children]
        cases (if cfg.variance = true then (Except.ok nd.st.tau : Except Err S)
            else match s.tauH[nd.depth]? with
              | none => Except.error Err.indexError
              | some t => Except.ok t) with
        | error e => rfl
        | ok thr =>
          simp only []
          by_cases hx : (nd.children.isNone && cfg.countGE nd.st.count thr) = true
          · simp only [hx, if_true, expand_map hg]
            cases Part.expand P4 (HCT.st0 cfg) last ds with
            | error e => rfl
            | ok x => rfl
          · simp only [hx, if_false, Bool.false_eq_true]
            rfl

theorem hct_receive_map (hg : BoxEquivariant g gd) (cfg : HCTCfg R S) (s : HCT α R S) (r : R)
    (ds : List (Draw α)) :
    HCT.receive cfg (hctMapBox g s) r (ds.map gd) =
      mapRes (hctMapBox g) (List.map gd) (HCT.receive cfg s r ds) := by
  rw [hct_receive_eq, hct_receive_eq]
  have e0 : (hctMapBox g s).path = s.path := rfl
  have e1 : (hctMapBox g s).iteration = s.iteration := rfl
  have e2 : (hctMapBox g s).P = partMapBox g s.P := rfl
  rw [e0, e1, e2]
  cases s.path with
  | none => rfl
  | some path =>
    simp only [bind, Except.bind]
    by_cases hi : s.iteration = tPlus s.iteration
    · rw [if_pos hi, if_pos hi,
        forListed_map g _ (HCT.computeU cfg _) (HCT.computeU cfg _) (fun _ => rfl), backward_map]
      cases backward cfg.negInf (forListed s.P (HCT.computeU cfg (cfg.dtOne (tPlus s.iteration)))) with
      | error e => rfl
      | ok P1 => exact hctRecvTail_map hg cfg s path r ds P1
    · rw [if_neg hi, if_neg hi]
      exact hctRecvTail_map hg cfg s path r ds s.P

theorem hct_init_map (hg : BoxEquivariant g gd) (cfg : HCTCfg R S) (k : Kind) (domain : Box α)
    (ds : List (Draw α)) :
    HCT.init cfg k (g domain) (ds.map gd) =
      mapRes (hctMapBox g) (List.map gd) (HCT.init cfg k domain ds) := by
  unfold HCT.init
  simp only [bind, Except.bind, ← partMapBox_init g, expand_map hg]
  cases Part.expand (Part.init k domain (HCT.st0 cfg)) (HCT.st0 cfg) 0 ds with
  | error e => rfl
  | ok x => rfl

end hct

end RL
end PyXAB
