/-
  C15.2 for POO, protocol-aware version (`RoundHarmless`): covers base learners such as T-HOO
  whose `receive` reads what the preceding `pull` of the same round has stored.
-/
import PyXABProofs.Lemmas.RL_POO
import PyXABProofs.Lemmas.RL_HOO

namespace PyXAB
namespace RL
open Rel
set_option linter.unusedSectionVars false

theorem getLast?_set_last {A : Type} (l : List A) (a : A) (h : l ≠ []) :
    (l.set (l.length - 1) a).getLast? = some a := by
  rw [List.getLast?_eq_getElem?, List.length_set, List.getElem?_set_self]
  have := List.length_pos_iff.2 h
  omega

section poo
variable {L α R S Pt ρ : Type} {ops : LearnerOps L α R Pt ρ} {E F : L → L → Prop}

/-- forget the refinement -/
theorem RoundHarmless.toEquiv (hq : RoundHarmless ops E F) :
    (∀ l, E l l) ∧ (∀ l l', E l l' → E l' l) ∧ (∀ l l' l'', E l l' → E l' l'' → E l l'') :=
  ⟨hq.refl, hq.symm, hq.trans⟩

theorem pooEquiv_refl2 (hq : RoundHarmless ops E F) (s : POO L S) : POOEquiv E s s :=
  ⟨rfl, rfl, rfl, rfl, rfl, forall₂_refl_of hq.refl _, rfl, rfl⟩

theorem pooEquiv_symm2 (hq : RoundHarmless ops E F) {s s' : POO L S} (h : POOEquiv E s s') :
    POOEquiv E s' s :=
  ⟨h.N.symm, h.n.symm, h.phase.symm, h.counter.symm, h.algoCounter.symm,
    forall₂_symm_of hq.symm h.learners, h.V.symm, h.times.symm⟩

theorem pooEquiv_trans2 (hq : RoundHarmless ops E F) {s s' s'' : POO L S} (h : POOEquiv E s s')
    (h' : POOEquiv E s' s'') : POOEquiv E s s'' :=
  ⟨h'.N.trans h.N, h'.n.trans h.n, h'.phase.trans h.phase, h'.counter.trans h.counter,
    h'.algoCounter.trans h.algoCounter, forall₂_trans_of hq.trans h.learners h'.learners,
    h'.V.trans h.V, h'.times.trans h.times⟩

theorem poo_lastPoint_equiv2 [LT S] [DecidableLT S] (hq : RoundHarmless ops E F) {s s1 : POO L S}
    {v : Nat × Pt} (h : POO.lastPoint ops s = .ok (s1, v)) : POOEquiv E s s1 := by
  unfold POO.lastPoint at h
  cases ha : argmaxFirst s.V with
  | none => simp [ha] at h
  | some i =>
    simp only [ha] at h
    cases hl : s.learners[i]? with
    | none => simp [hl] at h
    | some l =>
      simp only [hl, bind, Except.bind] at h
      cases hp : ops.pull l 0 with
      | error e => simp [hp] at h
      | ok x =>
        obtain ⟨l', pt⟩ := x
        simp only [hp, pure, Except.pure, Except.ok.injEq, Prod.mk.injEq] at h
        obtain ⟨rfl, _⟩ := h
        refine ⟨rfl, rfl, rfl, rfl, rfl, ?_, rfl, rfl⟩
        have e : s.learners = s.learners.set i l := by
          rw [← (List.getElem?_eq_some_iff.1 hl).2, List.set_getElem_self]
        have := forall₂_set (forall₂_refl_of hq.refl s.learners) i
          (hq.symm _ _ (hq.pull_stay l 0 l' pt hp))
        rw [← e] at this
        exact this

theorem poo_queryN_equiv2 [LT S] [DecidableLT S] (hq : RoundHarmless ops E F) :
    ∀ (q : Nat) {s s0 : POO L S}, pooQueryN ops q s = .ok s0 → POOEquiv E s s0
  | 0, s, s0, h => by
    obtain rfl := Except.ok.inj h
    exact pooEquiv_refl2 hq _
  | q + 1, s, s0, h => by
    simp only [pooQueryN] at h
    cases h1 : POO.lastPoint ops s with
    | error e => simp [h1] at h
    | ok x =>
      obtain ⟨s1, v⟩ := x
      simp only [h1] at h
      exact pooEquiv_trans2 hq (poo_lastPoint_equiv2 hq h1) (poo_queryN_equiv2 hq q h)

theorem relRes_cases2 {σ ο : Type} {Rs : σ → σ → Prop} {x y : Except Err (σ × ο)}
    (h : RelRes Rs Eq x y) :
    (∃ e, x = .error e ∧ y = .error e) ∨
      ∃ a b o, x = .ok (a, o) ∧ y = .ok (b, o) ∧ Rs a b := relRes_cases h

/-- `pull` on `E`-equivalent states: same exception, or same outputs, `E`-equivalent states in
which the learner to be credited next is `F`-related. -/
theorem poo_pull_resp2 (hq : RoundHarmless ops E F) (cfg : POOCfg R S ρ) {s s' : POO L S}
    (h : POOEquiv E s s') (t : Nat) (ds : List (Draw α)) :
    RelRes (fun s1 s1' => POOEquiv E s1 s1' ∧
        ∃ a b, pooRecvLearner cfg s1 = some a ∧ pooRecvLearner cfg s1' = some b ∧ F a b) Eq
      (POO.pull ops cfg s t ds) (POO.pull ops cfg s' t ds) := by
  obtain ⟨N, n, phase, counter, ac, Ls, V, times⟩ := s
  obtain ⟨N', n', phase', counter', ac', Ls', V', times'⟩ := s'
  obtain ⟨h1, h2, h3, h4, h5, hL, h6, h7⟩ := h
  simp only at h1 h2 h3 h4 h5 hL h6 h7
  subst h1 h2 h3 h4 h5 h6 h7
  have hlen := hL.length_eq
  unfold POO.pull
  simp only [bind, Except.bind, pure, Except.pure]
  by_cases hc : cfg.cond N' n' = true
  · simp only [hc, if_true]
    by_cases h0 : counter' = 0
    · simp only [h0, if_true]
      cases ops.create (cfg.rhoOf N' phase') ds with
      | error e => exact rfl
      | ok x =>
        obtain ⟨l, ds'⟩ := x
        simp only [List.getLast?_concat]
        rcases relRes_cases2 (hq.pull_resp l l t (hq.refl l)) with ⟨e, r1, r2⟩ | ⟨a', b', pt, r1, r2, hab'⟩
        · simp only [r1]; exact rfl
        · have hb : b' = a' := by
            rw [r1] at r2
            simp only [Except.ok.injEq, Prod.mk.injEq] at r2
            exact r2.1.symm
          subst hb
          simp only [r1]
          refine ⟨⟨⟨rfl, rfl, rfl, rfl, rfl, ?_, rfl, rfl⟩, b', b', ?_, ?_, hab'⟩, ?_⟩
          · simp only [List.length_append, List.length_cons, List.length_nil, hlen]
            exact forall₂_set (forall₂_concat hL (hq.refl l)) _ (hq.refl b')
          · simp only [pooRecvLearner, hc, if_true]
            exact getLast?_set_last _ _ (by simp)
          · simp only [pooRecvLearner, hc, if_true]
            exact getLast?_set_last _ _ (by simp)
          · simp only [List.length_append, List.length_cons, List.length_nil, hlen]
    · simp only [h0, if_false]
      rcases forall₂_getLast? hL with ⟨e1, e2⟩ | ⟨a, b, e1, e2, hab⟩
      · simp only [e1, e2]; exact rfl
      · simp only [e1, e2]
        rcases relRes_cases2 (hq.pull_resp a b t hab) with ⟨e, r1, r2⟩ | ⟨a', b', pt, r1, r2, hab'⟩
        · simp only [r1, r2]; exact rfl
        · simp only [r1, r2]
          have hne : Ls ≠ [] := by intro h; simp [h] at e1
          have hne' : Ls' ≠ [] := by intro h; simp [h] at e2
          refine ⟨⟨⟨rfl, rfl, rfl, rfl, rfl, ?_, rfl, rfl⟩, a', b', ?_, ?_, hab'⟩, by rw [hlen]⟩
          · simp only [hlen]
            exact forall₂_set hL _ (hq.sub _ _ hab')
          · simp only [pooRecvLearner, hc, if_true]
            exact getLast?_set_last _ _ hne
          · simp only [pooRecvLearner, hc, if_true]
            exact getLast?_set_last _ _ hne'
  · simp only [hc, if_false, Bool.false_eq_true]
    cases ac' with
    | none => exact rfl
    | some ac =>
      simp only []
      rcases forall₂_getElem? hL ac with ⟨e1, e2⟩ | ⟨a, b, e1, e2, hab⟩
      · simp only [e1, e2]; exact rfl
      · simp only [e1, e2]
        rcases relRes_cases2 (hq.pull_resp a b t hab) with ⟨e, r1, r2⟩ | ⟨a', b', pt, r1, r2, hab'⟩
        · simp only [r1, r2]; exact rfl
        · simp only [r1, r2]
          have hlt : ac < Ls.length := (List.getElem?_eq_some_iff.1 e1).1
          have hlt' : ac < Ls'.length := (List.getElem?_eq_some_iff.1 e2).1
          refine ⟨⟨⟨rfl, rfl, rfl, rfl, rfl, forall₂_set hL _ (hq.sub _ _ hab'), rfl, rfl⟩,
            a', b', ?_, ?_, hab'⟩, rfl⟩
          · simp only [pooRecvLearner, hc, if_false, Bool.false_eq_true]
            rw [List.getElem?_set_self hlt]
          · simp only [pooRecvLearner, hc, if_false, Bool.false_eq_true]
            rw [List.getElem?_set_self hlt']

/-- `receive` on `E`-equivalent states whose learner to be credited is `F`-related. -/
theorem poo_receive_resp2 (hq : RoundHarmless ops E F) (cfg : POOCfg R S ρ) {s s' : POO L S}
    (h : POOEquiv E s s') {a b : L} (ha : pooRecvLearner cfg s = some a)
    (hb : pooRecvLearner cfg s' = some b) (hab : F a b) (t : Nat) (r : R) (ds : List (Draw α)) :
    RelRes (POOEquiv E) Eq (POO.receive ops cfg s t r ds) (POO.receive ops cfg s' t r ds) := by
  obtain ⟨N, n, phase, counter, ac, Ls, V, times⟩ := s
  obtain ⟨N', n', phase', counter', ac', Ls', V', times'⟩ := s'
  obtain ⟨h1, h2, h3, h4, h5, hL, h6, h7⟩ := h
  simp only at h1 h2 h3 h4 h5 hL h6 h7
  subst h1 h2 h3 h4 h5 h6 h7
  have hlen := hL.length_eq
  unfold POO.receive
  simp only [bind, Except.bind, pure, Except.pure]
  by_cases hc : cfg.cond N' n' = true
  · simp only [pooRecvLearner, hc, if_true] at ha hb
    simp only [hc, if_true, ha, hb]
    cases V'.getLast? with
    | none => exact rfl
    | some v =>
      cases times'.getLast? with
      | none => exact rfl
      | some tm =>
        simp only []
        rcases relRes_cases2 (hq.recv_resp a b t r ds hab) with ⟨e, r1, r2⟩ | ⟨a', b', ds', r1, r2, hab'⟩
        · simp only [r1, r2]; exact rfl
        · simp only [r1, r2, hlen]
          have hL' := forall₂_set hL (Ls'.length - 1) hab'
          split_both
          all_goals exact ⟨⟨rfl, rfl, rfl, rfl, rfl, hL', rfl, rfl⟩, rfl⟩
  · simp only [pooRecvLearner, hc, if_false, Bool.false_eq_true] at ha hb
    simp only [hc, if_false, Bool.false_eq_true]
    cases ac' with
    | none => exact rfl
    | some ac =>
      simp only [] at ha hb
      simp only [ha, hb]
      cases V'[ac]? with
      | none => exact rfl
      | some v =>
        cases times'[ac]? with
        | none => exact rfl
        | some tm =>
          simp only []
          rcases relRes_cases2 (hq.recv_resp a b t r ds hab) with ⟨e, r1, r2⟩ | ⟨a', b', ds', r1, r2, hab'⟩
          · simp only [r1, r2]; exact rfl
          · simp only [r1, r2, List.length_set, hlen]
            have hL' := forall₂_set hL ac hab'
            split_both
            all_goals exact ⟨⟨rfl, rfl, rfl, rfl, rfl, hL', rfl, rfl⟩, rfl⟩

theorem poo_roundQ_sim2 [LT S] [DecidableLT S] (hq : RoundHarmless ops E F) (cfg : POOCfg R S ρ)
    {s s' : POO L S} (h : POOEquiv E s s') (x : PIn α R) {s2 : POO L S} {v : Nat × Pt}
    (hr : pooRoundQ ops cfg s x = .ok (s2, v)) :
    ∃ s2', pooRoundQ ops cfg s' { x with queries := 0 } = .ok (s2', v) ∧ POOEquiv E s2 s2' := by
  unfold pooRoundQ at hr ⊢
  cases h0 : pooQueryN ops x.queries s with
  | error e => simp [h0] at hr
  | ok s0 =>
    simp only [h0] at hr
    have hs0 : POOEquiv E s0 s' := pooEquiv_trans2 hq (pooEquiv_symm2 hq (poo_queryN_equiv2 hq _ h0)) h
    have hp := poo_pull_resp2 hq cfg hs0 x.time x.pullDraws
    cases h1 : POO.pull ops cfg s0 x.time x.pullDraws with
    | error e => simp [h1] at hr
    | ok y =>
      obtain ⟨s1, ds1, w⟩ := y
      simp only [h1] at hr
      rw [h1] at hp
      obtain ⟨s1', o', hp1, ⟨hp2, a, b, ha, hb, hab⟩, hp3⟩ := RelRes.ok_left hp
      subst hp3
      have hv := poo_receive_resp2 hq cfg hp2 ha hb hab x.time x.reward x.recvDraws
      cases h2 : POO.receive ops cfg s1 x.time x.reward x.recvDraws with
      | error e => simp [h2] at hr
      | ok z =>
        obtain ⟨s3, ds3⟩ := z
        simp only [h2, Except.ok.injEq, Prod.mk.injEq] at hr
        obtain ⟨rfl, rfl⟩ := hr
        rw [h2] at hv
        obtain ⟨s3', o'', hv1, hv2, _⟩ := RelRes.ok_left hv
        refine ⟨s3', ?_, hv2⟩
        simp only [pooQueryN, hp1, hv1]

theorem poo_runQ_sim2 [LT S] [DecidableLT S] (hq : RoundHarmless ops E F) (cfg : POOCfg R S ρ) :
    ∀ (inputs : List (PIn α R)) {s s' : POO L S}, POOEquiv E s s' →
      ∀ {sf : POO L S} {os : List (Nat × Pt)}, runM (pooRoundQ ops cfg) s inputs = .ok (sf, os) →
        ∃ sf', runM (pooRoundQ ops cfg) s' (inputs.map (fun x => { x with queries := 0 })) = .ok (sf', os) ∧
          POOEquiv E sf sf'
  | [], s, s', h, sf, os, hr => by
    simp only [runM, Except.ok.injEq, Prod.mk.injEq] at hr
    obtain ⟨rfl, rfl⟩ := hr
    exact ⟨s', rfl, h⟩
  | x :: rest, s, s', h, sf, os, hr => by
    cases h1 : pooRoundQ ops cfg s x with
    | error e => simp [runM, h1] at hr
    | ok y =>
      obtain ⟨s2, v⟩ := y
      rw [runM_cons_ok h1] at hr
      cases h2 : runM (pooRoundQ ops cfg) s2 rest with
      | error e => simp [h2] at hr
      | ok z =>
        obtain ⟨s3, os'⟩ := z
        simp only [h2, Except.ok.injEq, Prod.mk.injEq] at hr
        obtain ⟨rfl, rfl⟩ := hr
        obtain ⟨s2', a1, a2⟩ := poo_roundQ_sim2 hq cfg h x h1
        obtain ⟨s3', b1, b2⟩ := poo_runQ_sim2 hq cfg rest a2 h2
        refine ⟨s3', ?_, b2⟩
        rw [List.map_cons, runM_cons_ok a1, b1]

/-- the simpler hypothesis is the special case `F = E` -/
theorem QueryHarmless.toRound (hq : QueryHarmless ops E) : RoundHarmless ops E E :=
  ⟨hq.refl, hq.symm, hq.trans, fun _ _ h => h, hq.pull_stay, hq.pull_resp, hq.recv_resp⟩

end poo

/-! ### T-HOO is a `RoundHarmless` base learner -/
section hooLearner
variable {α R S ρ : Type} [Add α] [Sub α] [Mul α] [Div α] [OfNat α 2] [NatCast α]
variable [LE S] [DecidableLE S] [Max S] [Min S] [Inhabited S] [Inhabited R]

theorem hooLearner_roundHarmless (mk : ρ → HOOCfg R S × Kind × Box α) :
    RoundHarmless (hooLearner (α := α) mk) HOOSameTree Eq where
  refl := fun _ => ⟨rfl, rfl, rfl⟩
  symm := fun _ _ h => ⟨h.1.symm, h.2.1.symm, h.2.2.symm⟩
  trans := fun _ _ _ h h' => ⟨h'.1.trans h.1, h'.2.1.trans h.2.1, h'.2.2.trans h.2.2⟩
  sub := by
    rintro l l' rfl
    exact ⟨rfl, rfl, rfl⟩
  pull_stay := by
    intro l t l' p h
    simp only [hooLearner] at h
    cases hp : HOO.pull l.2 with
    | error e => simp [hp] at h
    | ok x =>
      obtain ⟨s1, v⟩ := x
      simp only [hp, Except.ok.injEq, Prod.mk.injEq] at h
      obtain ⟨rfl, rfl⟩ := h
      obtain ⟨path, e, _⟩ := hoo_pull_frame hp
      exact ⟨rfl, by rw [e], by rw [e]⟩
  pull_resp := by
    rintro ⟨c, P, it, path⟩ ⟨c', P', it', path'⟩ t ⟨h1, h2, h3⟩
    simp only at h1 h2 h3
    subst h1 h2 h3
    simp only [hooLearner, HOO.pull, bind, Except.bind, pure, Except.pure]
    split_both
    all_goals first | exact rfl | exact ⟨rfl, rfl⟩
  recv_resp := by
    rintro l₁ l₂ t r ds rfl
    cases (hooLearner mk).receive l₁ t r ds with
    | error e => exact rfl
    | ok x => exact ⟨⟨rfl, rfl, rfl⟩, rfl⟩

end hooLearner

end RL
end PyXAB
