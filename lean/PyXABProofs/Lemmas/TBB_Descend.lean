/-
  The descent loop `descend` shared by the three `optTraverse`s: what a successful run returns
  (`GreedyFrom`, then the index form `GreedyPath`), and that it never raises on a well-formed
  tree when the loop test never raises.
-/
import PyXABProofs.Lemmas.TBB_Skel
import PyXABProofs.Lemmas.TBB_Order

set_option linter.unusedSectionVars false

namespace PyXAB
namespace TBB

open Tree

variable {α R S : Type} [LinearOrder S] [Inhabited S] [Inhabited R]

/-- `GreedyFrom P cont cur rest`: starting at `cur` the loop appends exactly `rest`. -/
inductive GreedyFrom (P : Part α (TBSt R S)) (cont : Node α (TBSt R S) → Except Err Bool) :
    Nat → List Nat → Prop
  | stop {cur : Nat} {nd : Node α (TBSt R S)} {go : Bool} :
      P.nodes[cur]? = some nd → cont nd = .ok go → (go = false ∨ nd.children = none) →
      GreedyFrom P cont cur []
  | step {cur m : Nat} {nd : Node α (TBSt R S)} {cs rest : List Nat} :
      P.nodes[cur]? = some nd → cont nd = .ok true → nd.children = some cs →
      pickChild (fun i => (P.stOf i).b) cs = some m → GreedyFrom P cont m rest →
      GreedyFrom P cont cur (m :: rest)

theorem descend_spec (P : Part α (TBSt R S)) (cont : Node α (TBSt R S) → Except Err Bool) :
    ∀ (fuel cur : Nat) (acc path : List Nat), descend P cont fuel cur acc = .ok path →
      ∃ rest, path = acc ++ rest ∧ GreedyFrom P cont cur rest
  | 0, _, _, _, h => by simp [descend] at h
  | fuel + 1, cur, acc, path, h => by
    unfold descend at h
    split at h
    · cases h
    · next nd hnd =>
      cases hc : cont nd with
      | error e => simp [hc, bind, Except.bind] at h
      | ok go =>
        simp only [hc, bind, Except.bind] at h
        split at h
        · next cs hgo hcs =>
          split at h
          · cases h
          · next m hm =>
            obtain ⟨rest, h1, h2⟩ := descend_spec P cont fuel m _ path h
            refine ⟨m :: rest, by rw [h1]; simp, ?_⟩
            exact GreedyFrom.step hnd hc hcs hm h2
        · next hno =>
          obtain rfl : acc = path := by simpa using h
          refine ⟨[], by simp, GreedyFrom.stop hnd hc ?_⟩
          cases hch : nd.children with
          | none => exact Or.inr rfl
          | some cs => exact Or.inl (Bool.eq_false_iff.2 (fun hg => hno cs hg hch))

/-- `descend` never raises: fuel `≥ length − cur + 1` suffices since ids grow along child
links. -/
theorem descend_ok {P : Part α (TBSt R S)} (W : WF P)
    (cont : Node α (TBSt R S) → Except Err Bool)
    (hcont : ∀ (i : Nat) (nd : Node α (TBSt R S)), P.nodes[i]? = some nd → ∃ go, cont nd = .ok go) :
    ∀ (fuel cur : Nat) (acc : List Nat), cur < P.nodes.length → P.nodes.length < fuel + cur →
      ∃ path, descend P cont fuel cur acc = .ok path
  | 0, cur, _, h1, h2 => by omega
  | fuel + 1, cur, acc, h1, h2 => by
    obtain ⟨nd, hnd⟩ : ∃ nd, P.nodes[cur]? = some nd := ⟨_, List.getElem?_eq_getElem h1⟩
    obtain ⟨go, hgo⟩ := hcont cur nd hnd
    unfold descend
    simp only [hnd, hgo, bind, Except.bind]
    cases go with
    | false => exact ⟨_, rfl⟩
    | true =>
      cases hcs : nd.children with
      | none => exact ⟨_, rfl⟩
      | some cs =>
        obtain ⟨hK, a, a1, a2, a3, _⟩ := W.children cur nd cs hnd hcs
        have hne : cs ≠ [] := by
          rw [a2]; intro e
          have := congrArg List.length e
          simp at this; omega
        obtain ⟨m, hm⟩ := pickChild_isSome (fun i => (P.stOf i).b) hne
        have hmem := (pickChild_lastMax _ hm).mem
        rw [a2, List.mem_range'_1] at hmem
        simp only [hm]
        exact descend_ok W cont hcont fuel m _ (by omega) (by omega)

/-! ### From `GreedyFrom` to the index form -/

/-- index form of the facts about a greedy run starting at `cur` -/
structure GreedyIdx (P : Part α (TBSt R S)) (cont : Node α (TBSt R S) → Except Err Bool)
    (l : List Nat) : Prop where
  step : ∀ i p c, l[i]? = some p → l[i + 1]? = some c →
    ∃ nd cs, P.nodes[p]? = some nd ∧ nd.children = some cs ∧
      LastMax (fun j => (P.stOf j).b) cs c
  go : ∀ i p, l[i]? = some p → i + 1 < l.length →
    ∃ nd, P.nodes[p]? = some nd ∧ cont nd = .ok true ∧ nd.children ≠ none
  stop : ∀ v, l.getLast? = some v →
    ∃ nd go, P.nodes[v]? = some nd ∧ cont nd = .ok go ∧ (go = false ∨ nd.children = none)

theorem GreedyFrom.idx {P : Part α (TBSt R S)} {cont : Node α (TBSt R S) → Except Err Bool}
    {cur : Nat} {rest : List Nat} (h : GreedyFrom P cont cur rest) :
    GreedyIdx P cont (cur :: rest) := by
  induction h with
  | stop hnd hc hgo =>
    refine ⟨?_, ?_, ?_⟩
    · intro i p c _ h2; simp at h2
    · intro i p _ h2; simp at h2
    · intro v hv
      obtain rfl : _ = v := by simpa using hv
      exact ⟨_, _, hnd, hc, hgo⟩
  | @step cur m nd cs rest hnd hc hcs hm _ ih =>
    refine ⟨?_, ?_, ?_⟩
    · intro i p c h1 h2
      cases i with
      | zero =>
        obtain rfl : cur = p := by simpa using h1
        obtain rfl : m = c := by simpa using h2
        exact ⟨nd, cs, hnd, hcs, pickChild_lastMax _ hm⟩
      | succ i =>
        exact ih.step i p c (by simpa using h1) (by simpa using h2)
    · intro i p h1 h2
      cases i with
      | zero =>
        obtain rfl : cur = p := by simpa using h1
        exact ⟨nd, hnd, hc, by simp [hcs]⟩
      | succ i =>
        exact ih.go i p (by simpa using h1) (by simpa using h2)
    · intro v hv
      exact ih.stop v (by simpa [List.getLast?_cons_cons] using hv)

/-- ids strictly increase along a greedy run (under `WF`), and are valid -/
theorem GreedyIdx.increasing {P : Part α (TBSt R S)} (W : WF P)
    {cont : Node α (TBSt R S) → Except Err Bool} {l : List Nat} (h : GreedyIdx P cont l) :
    ∀ i p c, l[i]? = some p → l[i + 1]? = some c → p < c := by
  intro i p c h1 h2
  obtain ⟨nd, cs, a1, a2, a3⟩ := h.step i p c h1 h2
  obtain ⟨_, _, _, _, _, lt, _⟩ := W.child_facts a1 a2 a3.mem
  exact lt

theorem pairwise_of_consecutive : ∀ (l : List Nat),
    (∀ i p c, l[i]? = some p → l[i + 1]? = some c → p < c) → l.Pairwise (· < ·)
  | [], _ => List.Pairwise.nil
  | [a], _ => by simp
  | a :: b :: l, h => by
    have ih := pairwise_of_consecutive (b :: l) (fun i p c h1 h2 => h (i + 1) p c h1 h2)
    refine List.Pairwise.cons ?_ ih
    have hab : a < b := h 0 a b rfl rfl
    intro x hx
    rcases List.mem_cons.1 hx with rfl | hx
    · exact hab
    · have := (List.pairwise_cons.1 ih).1 x hx
      omega

end TBB
end PyXAB
