/-
  StroquOOL: the blocks of `pull`, one lemma per block.
-/
import PyXABProofs.Lemmas.SK_Pull

set_option linter.unusedSectionVars false

namespace PyXAB
namespace SK
open Tree TBA StroquOOL

variable {α R S : Type}
variable [Add α] [Sub α] [Mul α] [Div α] [OfNat α 2] [NatCast α]
variable [LE S] [DecidableLE S] [Inhabited S] [Inhabited R]

theorem expandAt_fields (cfg : SkCfg R S) {s s1 : StroquOOL α R S} {m : Nat} {nl : Bool}
    {ds ds1 : List (Draw α)} (h : expandAt cfg s m nl ds = .ok (s1, ds1)) :
    s1 = { s with P := s1.P, chosen := s1.chosen } := by
  unfold expandAt at h
  rw [bind_ok] at h
  obtain ⟨⟨P', ds'⟩, _, h⟩ := h
  rw [bind_ok] at h
  obtain ⟨⟨a, b⟩, _, h⟩ := h
  simp only [pure, Except.pure, Except.ok.injEq, Prod.mk.injEq] at h
  obtain ⟨rfl, rfl⟩ := h
  rfl

/-- the conditional expansion of the root at depth 0 -/
theorem rootExpand_spec (cfg : SkCfg R S) {s s2 : StroquOOL α R S} {ds ds2 : List (Draw α)}
    (h : (if s.P.isLeaf 0 then expandAt cfg s 0 (decide (0 ≥ s.P.depth)) ds else pure (s, ds)) =
      .ok (s2, ds2)) :
    s2 = { s with P := s2.P, chosen := s2.chosen } ∧
    (Inv s → DrawsOK s.P ds → Blk s s2 ds2) := by
  by_cases hl : s.P.isLeaf 0 = true
  · rw [if_pos hl] at h
    have hf := expandAt_fields cfg h
    refine ⟨hf, fun hI hd => ?_⟩
    obtain ⟨nd, h1, h2⟩ := isLeaf_iff.1 hl
    obtain ⟨r, r1, r2, _⟩ := hI.wf.root
    obtain rfl := getElem?_inj h1 r1
    obtain ⟨_, W', hK', hch', hext, _, hd', _, _⟩ := expandAt_spec cfg hI.wf hI.ar hI.ch hd h1 h2
      (by rw [r2]) h
    refine ⟨⟨W', hK', fun m hm => hext.exp m (hI.mx m (by rw [hf] at hm; exact hm)), hch', ?_, ?_⟩,
      hd', hext, by rw [hf], by rw [hf]⟩
    · intro c hc
      rw [hch']
      have := hI.cd c (by rw [hf] at hc; exact hc)
      rw [hI.ch] at this
      exact chosen_mono hext.len this
    · have : s2.curr = s.curr := by rw [hf]
      rw [this]; exact Nat.lt_of_lt_of_le hI.cur hext.len
  · rw [if_neg hl, pure_ok] at h
    obtain ⟨rfl, rfl⟩ := Prod.mk.inj h
    exact ⟨rfl, fun hI hd => ⟨hI, hd, Ext.rfl' _, rfl, rfl⟩⟩

/-- The depth-0 block. -/
theorem rootPart_spec (cfg : SkCfg R S) {s s1 : StroquOOL α R S} {t : Nat}
    {ds ds1 : List (Draw α)} {ret : Option Nat}
    (h : rootPart cfg s t ds = .ok (s1, ds1, ret)) :
    (s1.ended = s.ended ∧ s1.candidate = s.candidate ∧ ∀ v, ret = some v → s1.curr = v) ∧
    (Inv s → DrawsOK s.P ds → Blk s s1 ds1 ∧ ∀ v, ret = some v → v ∈ s1.chosen) := by
  unfold rootPart at h
  by_cases h0 : s.currDepth = 0
  · rw [if_pos h0, bind_ok] at h
    obtain ⟨⟨s2, ds2⟩, hx, h⟩ := h
    obtain ⟨hf, hB⟩ := rootExpand_spec cfg hx
    rw [bind_ok] at h
    obtain ⟨⟨a, b⟩, htk, h⟩ := h
    have hkids : Inv s → DrawsOK s.P ds → a ∈ s2.chosen ∧ b ∈ s2.chosen ∧
        a < s2.P.nodes.length ∧ b < s2.P.nodes.length := by
      intro hI hd
      have B := hB hI hd
      obtain ⟨_, a1, a2, b1, b2⟩ := twoKids_valid B.inv.wf B.inv.ar htk
      exact ⟨B.inv.mem_chosen.2 ⟨a1, a2⟩, B.inv.mem_chosen.2 ⟨b1, b2⟩, a2, b2⟩
    have he : s2.ended = s.ended := by rw [hf]
    have hc : s2.candidate = s.candidate := by rw [hf]
    by_cases h1 : t ≤ cfg.hmax
    · simp only [h1, if_true, pure_ok, Prod.mk.injEq] at h
      obtain ⟨rfl, rfl, rfl⟩ := h
      refine ⟨⟨he, hc, fun v hv => (Option.some.inj hv)⟩, fun hI hd => ?_⟩
      have B := hB hI hd
      obtain ⟨k1, _, k3, _⟩ := hkids hI hd
      refine ⟨⟨B.inv.same rfl rfl rfl rfl k3, B.dok, B.ext, hc, he⟩, fun v hv => ?_⟩
      obtain rfl := Option.some.inj hv
      exact k1
    · by_cases h2 : t ≤ 2 * cfg.hmax
      · simp only [h1, h2, if_true, if_false, pure_ok, Prod.mk.injEq] at h
        obtain ⟨rfl, rfl, rfl⟩ := h
        by_cases h3 : t = 2 * cfg.hmax
        · simp only [h3, if_true]
          refine ⟨⟨he, hc, fun v hv => (Option.some.inj hv)⟩, fun hI hd => ?_⟩
          have B := hB hI hd
          obtain ⟨_, k2, _, k4⟩ := hkids hI hd
          refine ⟨⟨B.inv.same rfl rfl rfl rfl k4, B.dok, B.ext, hc, he⟩, fun v hv => ?_⟩
          obtain rfl := Option.some.inj hv
          exact k2
        · simp only [h3, if_false]
          refine ⟨⟨he, hc, fun v hv => (Option.some.inj hv)⟩, fun hI hd => ?_⟩
          have B := hB hI hd
          obtain ⟨_, k2, _, k4⟩ := hkids hI hd
          refine ⟨⟨B.inv.same rfl rfl rfl rfl k4, B.dok, B.ext, hc, he⟩, fun v hv => ?_⟩
          obtain rfl := Option.some.inj hv
          exact k2
      · simp only [h1, h2, if_false, pure_ok, Prod.mk.injEq] at h
        obtain ⟨rfl, rfl, rfl⟩ := h
        exact ⟨⟨he, hc, fun v hv => nomatch hv⟩, fun hI hd => ⟨hB hI hd, fun v hv => nomatch hv⟩⟩
  · rw [if_neg h0, pure_ok] at h
    simp only [Prod.mk.injEq] at h
    obtain ⟨rfl, rfl, rfl⟩ := h
    exact ⟨⟨rfl, rfl, fun v hv => nomatch hv⟩,
      fun hI hd => ⟨⟨hI, hd, Ext.rfl' _, rfl, rfl⟩, fun v hv => nomatch hv⟩⟩

/-- The scan-and-expand block: only `P`, `chosen`, `maxNode`, `eval` may change. -/
theorem evalPart_spec (cfg : SkCfg R S) {s s1 : StroquOOL α R S} {p : Nat}
    {ds ds1 : List (Draw α)} (h : evalPart cfg s p ds = .ok (s1, ds1)) :
    s1 = { s with P := s1.P, chosen := s1.chosen, maxNode := s1.maxNode, eval := s1.eval } ∧
    (Inv s → DrawsOK s.P ds → Blk s s1 ds1) := by
  unfold evalPart at h
  by_cases he : s.eval = true
  · rw [if_pos he] at h
    cases hl : s.P.layers[s.currDepth]? with
    | none => simp [hl] at h
    | some layer =>
      simp only [hl] at h
      obtain ⟨hq, hmx⟩ := scanLayer_spec cfg (2 ^ p) layer s.P cfg.negInf s.maxNode
      generalize scanLayer cfg (2 ^ p) layer s.P cfg.negInf s.maxNode = res at h hq hmx
      obtain ⟨P1, mx⟩ := res
      simp only at h hq hmx
      cases mx with
      | none => simp at h
      | some m =>
        simp only at h
        by_cases hleaf : P1.isLeaf m = true
        · rw [if_pos hleaf] at h
          have hf := expandAt_fields cfg h
          refine ⟨by rw [hf], fun hI hd => ?_⟩
          obtain ⟨nd, n1, n2⟩ := isLeaf_iff.1 hleaf
          have W1 : WF P1 := hq.wf hI.wf
          have hdep : nd.depth = s.currDepth := by
            rcases hmx with hmx | ⟨m', hm', e, _⟩
            · have := (hq.ext.exp m (hI.mx m hmx.symm)).not_leaf
              rw [hleaf] at this; cases this
            · obtain rfl := Option.some.inj e
              obtain ⟨nd0, a1, a2⟩ := ((hI.wf.layers_mem _ _ hl).2.2 m).1 hm'
              obtain ⟨nd', b1, b2, _⟩ := hq.node m nd0 a1
              obtain rfl := getElem?_inj b1 n1
              rw [b2.depth, a2]
          obtain ⟨_, W', hK', hch', hext, hexp, hd', _, _⟩ :=
            expandAt_spec cfg (s := { s with P := P1, maxNode := some m, eval := false })
              W1 (hq.K_eq.trans hI.ar) (by show s.chosen = _; rw [hI.ch, hq.len])
              (hq.ext.drawsOK hd) n1 n2 (by rw [hdep, hq.depth]) h
          have hext' : Ext s.P s1.P := hq.ext.trans hext
          refine ⟨⟨W', hK', fun m' hm' => ?_, hch', ?_, ?_⟩, hd', hext', by rw [hf], by rw [hf]⟩
          · rw [hf] at hm'
            obtain rfl : m = m' := Option.some.inj hm'
            exact hexp
          · intro c hc
            rw [hch']
            have := hI.cd c (by rw [hf] at hc; exact hc)
            rw [hI.ch] at this
            exact chosen_mono hext'.len this
          · have : s1.curr = s.curr := by rw [hf]
            rw [this]; exact Nat.lt_of_lt_of_le hI.cur hext'.len
        · rw [if_neg hleaf, pure_ok] at h
          obtain ⟨rfl, rfl⟩ := Prod.mk.inj h
          refine ⟨rfl, fun hI hd => ?_⟩
          have hexp : Expd P1 m := by
            rcases hmx with hmx | ⟨m', _, e, hv⟩
            · exact hq.ext.exp m (hI.mx m hmx.symm)
            · obtain rfl := Option.some.inj e
              have hv' : m < P1.nodes.length := by rw [hq.len]; exact hv
              exact expd_of_not_leaf (List.getElem?_eq_getElem hv') (by simpa using hleaf)
          refine ⟨⟨hq.wf hI.wf, hq.K_eq.trans hI.ar, fun m' hm' => ?_, ?_, hI.cd, ?_⟩,
            hq.ext.drawsOK hd, hq.ext, rfl, rfl⟩
          · obtain rfl : m = m' := Option.some.inj hm'
            exact hexp
          · show s.chosen = _; rw [hI.ch, hq.len]
          · show s.curr < P1.nodes.length; rw [hq.len]; exact hI.cur
  · rw [if_neg he, pure_ok] at h
    obtain ⟨rfl, rfl⟩ := Prod.mk.inj h
    exact ⟨rfl, fun hI hd => ⟨hI, hd, Ext.rfl' _, rfl, rfl⟩⟩

/-! ### `advance` -/

theorem advance_P (cfg : SkCfg R S) (s : StroquOOL α R S) (m p : Nat) :
    (advance cfg s m p).P = s.P.modifySt m (fun st => { st with opened := true }) := by
  unfold advance; dsimp only; split <;> rfl

theorem advance_fields (cfg : SkCfg R S) (s : StroquOOL α R S) (m p : Nat) :
    (advance cfg s m p).maxNode = s.maxNode ∧ (advance cfg s m p).chosen = s.chosen ∧
    (advance cfg s m p).candidate = s.candidate ∧ (advance cfg s m p).curr = s.curr ∧
    (advance cfg s m p).ended = s.ended ∧ (advance cfg s m p).currLoc = s.currLoc := by
  unfold advance; dsimp only; split <;> exact ⟨rfl, rfl, rfl, rfl, rfl, rfl⟩

theorem advance_quiet (cfg : SkCfg R S) (s : StroquOOL α R S) (m p : Nat) :
    Quiet s.P (advance cfg s m p).P := by
  rw [advance_P]
  exact Quiet.modifySt _ _ _ (fun _ => rfl) (fun _ => rfl)

/-- hand out a child of `maxNode`, or end -/
theorem handOut_spec (cfg : SkCfg R S) {s s' : StroquOOL α R S} {p t : Nat}
    {ds ds' : List (Draw α)} {v : Nat} (h : handOut cfg s p t ds = .ok (s', ds', v)) :
    finish cfg s ds = .ok (s', ds', v) ∨
    (s'.ended = s.ended ∧ s'.candidate = s.candidate ∧ s'.curr = v ∧ ds' = ds ∧
      (Inv s → Quiet s.P s'.P ∧ Inv s' ∧ v ∈ s'.chosen)) := by
  unfold handOut at h
  cases hm : s.maxNode with
  | none => simp [hm] at h
  | some m =>
    simp only [hm] at h
    by_cases h1 : t ≤ s.timeStamp + 2 ^ p
    · right
      rw [if_pos h1, bind_ok] at h
      obtain ⟨⟨a, b⟩, htk, h⟩ := h
      simp only [pure, Except.pure, Except.ok.injEq, Prod.mk.injEq] at h
      obtain ⟨rfl, rfl, rfl⟩ := h
      refine ⟨rfl, rfl, rfl, rfl, fun hI => ?_⟩
      obtain ⟨_, a1, a2, _⟩ := twoKids_valid hI.wf hI.ar htk
      have hI' := hI.same (s' := { s with curr := a, maxNode := some m }) rfl hm.symm rfl rfl a2
      exact ⟨Quiet.refl _, hI', hI'.mem_chosen.2 ⟨a1, a2⟩⟩
    · rw [if_neg h1] at h
      by_cases h2 : t ≤ s.timeStamp + 2 ^ (p + 1)
      · right
        rw [if_pos h2, bind_ok] at h
        obtain ⟨⟨a, b⟩, htk, h⟩ := h
        simp only [pure, Except.pure, Except.ok.injEq, Prod.mk.injEq] at h
        obtain ⟨rfl, rfl, rfl⟩ := h
        by_cases h3 : t = s.timeStamp + 2 ^ (p + 1)
        · rw [if_pos h3] at htk ⊢
          obtain ⟨f1, f2, f3, f4, f5, _⟩ := advance_fields cfg s m p
          refine ⟨f5, f3, rfl, rfl, fun hI => ?_⟩
          have hq := advance_quiet cfg s m p
          have hIa : Inv (advance cfg s m p) :=
            hI.prel hq f1 f2 (fun c hc => hI.cd c (f3 ▸ hc)) (f4 ▸ hI.cur)
          obtain ⟨_, _, _, b1, b2⟩ := twoKids_valid hIa.wf hIa.ar htk
          have hI' : Inv { advance cfg s m p with curr := b } := hIa.same rfl rfl rfl rfl b2
          exact ⟨hq, hI', hI'.mem_chosen.2 ⟨b1, b2⟩⟩
        · rw [if_neg h3] at htk ⊢
          refine ⟨rfl, rfl, rfl, rfl, fun hI => ?_⟩
          obtain ⟨_, _, _, b1, b2⟩ := twoKids_valid hI.wf hI.ar htk
          have hI' := hI.same (s' := { s with curr := b }) rfl rfl rfl rfl b2
          exact ⟨Quiet.refl _, hI', hI'.mem_chosen.2 ⟨b1, b2⟩⟩
      · left
        rw [if_neg h2] at h
        exact h

/-! ### assembling the stages -/

/-- the result of a stage under the invariant -/
structure SGood (s s' : StroquOOL α R S) (ds' : List (Draw α)) (v : Nat) : Prop where
  inv : Inv s'
  dok : DrawsOK s'.P ds'
  ext : Ext s.P s'.P
  cand : s'.candidate = s.candidate
  mem : v ∈ s'.chosen

theorem fin_good {cfg : SkCfg R S} {s sX s' : StroquOOL α R S} {dsX : List (Draw α)} {v : Nat}
    (B : Blk s sX dsX) (F : Fin cfg sX s' v) : SGood s s' dsX v :=
  have hI' := F.inv B.inv
  ⟨hI', F.quiet.ext.drawsOK B.dok, B.ext.trans F.quiet.ext, F.cand.trans B.cand,
    hI'.cd v F.mem⟩

theorem Blk.rfl' {s : StroquOOL α R S} {ds : List (Draw α)} (hI : Inv s) (hd : DrawsOK s.P ds) :
    Blk s s ds := ⟨hI, hd, Ext.rfl' _, rfl, rfl⟩

/-- The exploration stage. -/
theorem searchPart_spec (cfg : SkCfg R S) {s s' : StroquOOL α R S} {t : Nat}
    {ds ds' : List (Draw α)} {v : Nat} (h : searchPart cfg s t ds = .ok (s', ds', v)) :
    Out cfg s s' v ∧ (Inv s → DrawsOK s.P ds → SGood s s' ds' v) := by
  unfold searchPart at h
  rw [bind_ok] at h
  obtain ⟨⟨s1, ds1, ret⟩, hr, h⟩ := h
  obtain ⟨⟨r1, r2, r3⟩, hR⟩ := rootPart_spec cfg hr
  cases ret with
  | some id =>
    simp only [pure, Except.pure, Except.ok.injEq, Prod.mk.injEq] at h
    obtain ⟨rfl, rfl, rfl⟩ := h
    refine ⟨.eval r1 (r3 _ rfl), fun hI hd => ?_⟩
    obtain ⟨B, hm⟩ := hR hI hd
    exact ⟨B.inv, B.dok, B.ext, B.cand, hm _ rfl⟩
  | none =>
    simp only at h
    by_cases hp : s1.currP ≥ 0
    · rw [if_pos hp, bind_ok] at h
      obtain ⟨⟨s2, ds2⟩, he, h⟩ := h
      obtain ⟨e1, hE⟩ := evalPart_spec cfg he
      have e2 : s2.ended = s.ended := by rw [e1]; exact r1
      rcases handOut_spec cfg h with hf | ⟨o1, o2, o3, rfl, hO⟩
      · obtain ⟨rfl, F⟩ := finish_spec cfg hf
        refine ⟨.fin s2 e2 F, fun hI hd => ?_⟩
        obtain ⟨B, _⟩ := hR hI hd
        exact fin_good (B.trans (hE B.inv B.dok)) F
      · refine ⟨.eval (o1.trans e2) o3, fun hI hd => ?_⟩
        obtain ⟨B, _⟩ := hR hI hd
        have B2 := B.trans (hE B.inv B.dok)
        obtain ⟨q, hI', hm⟩ := hO B2.inv
        exact ⟨hI', q.ext.drawsOK B2.dok, B2.ext.trans q.ext, o2.trans B2.cand, hm⟩
    · rw [if_neg hp] at h
      obtain ⟨rfl, F⟩ := finish_spec cfg h
      refine ⟨.fin s1 r1 F, fun hI hd => ?_⟩
      obtain ⟨B, _⟩ := hR hI hd
      exact fin_good B F

/-- The cross-validation stage once the candidates exist. -/
theorem crossOut_spec (cfg : SkCfg R S) {s s' : StroquOOL α R S} {t : Nat}
    {ds ds' : List (Draw α)} {v : Nat} (h : crossOut cfg s t ds = .ok (s', ds', v)) :
    Out cfg s s' v ∧ (Inv s → DrawsOK s.P ds → SGood s s' ds' v) := by
  have hfin : finish cfg s ds = .ok (s', ds', v) →
      Out cfg s s' v ∧ (Inv s → DrawsOK s.P ds → SGood s s' ds' v) := by
    intro hf
    obtain ⟨rfl, F⟩ := finish_spec cfg hf
    exact ⟨.fin s rfl F, fun hI hd => fin_good (Blk.rfl' hI hd) F⟩
  unfold crossOut at h
  by_cases h1 : s.currLoc < s.candidate.length
  · rw [if_pos h1] at h
    by_cases h2 : t ≤ s.timeStamp + cfg.hmax
    · rw [if_pos h2] at h
      cases hc : s.candidate[s.currLoc]? with
      | none => simp [hc] at h
      | some oc =>
        cases oc with
        | none => simp [hc] at h
        | some c =>
          simp only [hc, pure, Except.pure, Except.ok.injEq, Prod.mk.injEq] at h
          obtain ⟨rfl, rfl, rfl⟩ := h
          have hmem : some c ∈ s.candidate := List.mem_of_getElem? hc
          by_cases h3 : t = s.timeStamp + cfg.hmax
          · rw [if_pos h3]
            refine ⟨.eval rfl rfl, fun hI hd => ?_⟩
            have hcv := hI.cd c hmem
            exact ⟨hI.same rfl rfl rfl rfl (hI.mem_chosen.1 hcv).2, hd, Ext.rfl' _, rfl, hcv⟩
          · rw [if_neg h3]
            refine ⟨.eval rfl rfl, fun hI hd => ?_⟩
            have hcv := hI.cd c hmem
            exact ⟨hI.same rfl rfl rfl rfl (hI.mem_chosen.1 hcv).2, hd, Ext.rfl' _, rfl, hcv⟩
    · rw [if_neg h2] at h
      exact hfin h
  · rw [if_neg h1] at h
    exact hfin h

theorem PullFrame.of_ext {s s' : StroquOOL α R S} (hext : Ext s.P s'.P)
    (hc : s'.candidate = s.candidate) : PullFrame s s' where
  kind := hext.kind
  dimn := hext.dimn
  len := hext.len
  old := by
    intro i nd hi
    obtain ⟨nd', a1, a2, a3⟩ := hext.old i nd hi
    refine ⟨nd', a1, a2, ?_⟩
    rw [a3, hc]
    by_cases h : s.candidate = []
    · simp [h]
    · simp [h]
  new := hext.new
  cand := fun _ => hc

/-- the overall result of a `pull` under the invariant -/
structure Good (s s' : StroquOOL α R S) (ds' : List (Draw α)) (v : Nat) : Prop where
  inv : Inv s'
  dok : DrawsOK s'.P ds'
  frame : PullFrame s s'
  mem : v ∈ s'.chosen

theorem SGood.good {s s' : StroquOOL α R S} {ds' : List (Draw α)} {v : Nat}
    (h : SGood s s' ds' v) : Good s s' ds' v :=
  ⟨h.inv, h.dok, PullFrame.of_ext h.ext h.cand, h.mem⟩

/-- The cross-validation stage. -/
theorem crossPart_spec (cfg : SkCfg R S) {s s' : StroquOOL α R S} {t : Nat}
    {ds ds' : List (Draw α)} {v : Nat} (h : crossPart cfg s t ds = .ok (s', ds', v)) :
    Out cfg s s' v ∧ (Inv s → DrawsOK s.P ds → Good s s' ds' v) := by
  unfold crossPart at h
  rw [bind_ok] at h
  obtain ⟨sb, hb, h⟩ := h
  obtain ⟨hO, hG⟩ := crossOut_spec cfg h
  by_cases he : s.candidate.isEmpty = true
  · rw [if_pos he] at hb
    have hnil : s.candidate = [] := List.isEmpty_iff.1 he
    obtain ⟨hsome, rfl⟩ := (buildCandidates_ok_iff cfg s sb).1 hb
    constructor
    · cases hO with
      | eval a b => exact .eval a b
      | fin s1 a b => exact .fin s1 a b
    · intro hI hd
      have hq := prel_clearP s.P (candList cfg s)
      have hIb : Inv { s with candidate := candList cfg s, P := clearP s.P (candList cfg s) } :=
        hI.prel hq rfl rfl (fun c hc => (candList_mem cfg s hc).1) hI.cur
      have hdb : DrawsOK (clearP s.P (candList cfg s)) ds := by
        intro d hdm
        rw [hq.dimn_eq]
        exact hd d hdm
      have G := hG hIb hdb
      refine ⟨G.inv, G.dok, ⟨G.ext.kind, G.ext.dimn.trans hq.dimn_eq, ?_, ?_, ?_, ?_⟩, G.mem⟩
      · have := G.ext.len
        simpa using this
      · intro i nd hi
        obtain ⟨nb, b1, _, b3, b4⟩ := hq.node i nd hi
        obtain ⟨nd', c1, c2, c3⟩ := G.ext.old i nb b1
        refine ⟨nd', c1, c2.trans b3, ?_⟩
        rw [c3, b4, G.cand]
        simp [hnil]
      · intro i nd' hi hnd
        exact G.ext.new i nd' (by simpa using hi) hnd
      · intro hne; exact absurd hnil hne
  · rw [if_neg he, pure_ok] at hb
    subst hb
    exact ⟨hO, fun hI hd => (hG hI hd).good⟩

/-- **Master lemma for `pull`.** -/
theorem pull_spec (cfg : SkCfg R S) {s s' : StroquOOL α R S} {t : Nat}
    {ds ds' : List (Draw α)} {v : Nat} (h : pull cfg s t ds = .ok (s', ds', v)) :
    Out cfg s s' v ∧ (Inv s → DrawsOK s.P ds → Good s s' ds' v) := by
  rw [pull_eq] at h
  have key : ∀ {X : Prop}, (Out cfg { s with iteration := t } s' v ∧
      (Inv { s with iteration := t } → DrawsOK s.P ds → Good { s with iteration := t } s' ds' v)) →
      Out cfg s s' v ∧ (Inv s → DrawsOK s.P ds → Good s s' ds' v) := by
    rintro - ⟨hO, hG⟩
    constructor
    · cases hO with
      | eval a b => exact .eval a b
      | fin s1 a b => exact .fin s1 a b
    · intro hI hd
      have G := hG (hI.same rfl rfl rfl rfl hI.cur) hd
      exact ⟨G.inv, G.dok, ⟨G.frame.kind, G.frame.dimn, G.frame.len, G.frame.old, G.frame.new,
        G.frame.cand⟩, G.mem⟩
  by_cases hd : s.currDepth ≤ cfg.hmax
  · rw [if_pos hd] at h
    obtain ⟨hO, hG⟩ := searchPart_spec cfg h
    exact key (X := True) ⟨hO, fun hI hd => (hG hI hd).good⟩
  · rw [if_neg hd] at h
    exact key (X := True) (crossPart_spec cfg h)

end SK
end PyXAB
