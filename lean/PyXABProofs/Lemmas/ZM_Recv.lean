/-
  Symbolic evaluation of `Zooming.receive` (both branches) and of `Zooming.init`.
-/
import PyXABProofs.Lemmas.ZM_Tree
import PyXABProofs.Lemmas.ZM_Assign

set_option linter.unusedSectionVars false

namespace PyXAB
namespace ZM
open Zooming _root_.PyXAB.Tree

variable {α R S : Type} [Add α] [Sub α] [Mul α] [Div α] [OfNat α 2] [NatCast α]
variable [LE α] [DecidableLE α]

omit [Add α] [Sub α] [Mul α] [Div α] [OfNat α 2] [NatCast α] [LE α] [DecidableLE α] in
theorem refined_P (cfg : ZoomCfg R S) (s : Zooming α S) (i : Nat) (a : Arm α S) (r : R)
    (P2 : Part α Unit) (c : Nat) (fresh : List (Arm α S)) :
    (refined cfg s i a r P2 c fresh).P = P2 := rfl

theorem receive_noref (cfg : ZoomCfg R S) {s : Zooming α S} {i : Nat} {a : Arm α S}
    {nd : Node α Unit} (r : R) (ds : List (Draw α))
    (hb : s.best = some i) (ha : s.arms[i]? = some a) (hn : s.P.nodes[a.cell]? = some nd)
    (hc : refineCond cfg s a nd = false) :
    receive cfg s r ds = .ok (credited cfg s i a r, ds) := by
  unfold receive
  simp only [hb, ha]
  unfold refineCond phaseAfter at hc
  by_cases ht : s.time + 1 ≥ s.nextEnd
  · simp only [ht, if_true] at hc ⊢
    simp only [hn, hc]
    simp [credited, phaseAfter, nextEndAfter, ht, credit, pure, Except.pure, hb]
  · simp only [ht, if_false] at hc ⊢
    simp only [hn, hc]
    simp [credited, phaseAfter, nextEndAfter, ht, credit, pure, Except.pure, hb]

theorem receive_ref (cfg : ZoomCfg R S) {s : Zooming α S} {i : Nat} {a : Arm α S}
    {nd nd2 : Node α Unit} (r : R) (d : Draw α) (ds' : List (Draw α)) {P2 : Part α Unit}
    {cs : List Nat} {c : Nat} {fresh : List (Arm α S)}
    (hb : s.best = some i) (ha : s.arms[i]? = some a) (hn : s.P.nodes[a.cell]? = some nd)
    (hc : refineCond cfg s a nd = true)
    (hm : s.P.makeChildren () a.cell (decide (nd.depth ≥ s.P.depth)) d = .ok P2)
    (hn2 : P2.nodes[a.cell]? = some nd2) (hcs : nd2.children = some cs)
    (has : assign cfg P2 a.pt cs false none [] = (some c, fresh)) :
    receive cfg s r (d :: ds') = .ok (refined cfg s i a r P2 c fresh, ds') := by
  unfold receive
  simp only [hb, ha]
  unfold refineCond phaseAfter at hc
  by_cases ht : s.time + 1 ≥ s.nextEnd
  · simp only [ht, if_true] at hc ⊢
    simp only [hn, hc, if_true, makeChildrenD_cons hm, bind, Except.bind, hn2, hcs, has]
    simp [refined, credited, phaseAfter, nextEndAfter, ht, credit, pure, Except.pure, hb]
  · simp only [ht, if_false] at hc ⊢
    simp only [hn, hc, if_true, makeChildrenD_cons hm, bind, Except.bind, hn2, hcs, has]
    simp [refined, credited, phaseAfter, nextEndAfter, ht, credit, pure, Except.pure, hb]

/-- `Zooming.__init__` when the single `make_children(root)` of `deepen()` succeeds. -/
theorem init_eq (cfg : ZoomCfg R S) (k : Kind) (domain : Box α) (d : Draw α)
    (ds : List (Draw α)) {P1 : Part α Unit} {layer : List Nat}
    (hm : (Part.init k domain ()).makeChildren () 0 true d = .ok P1)
    (hl : P1.layers[1]? = some layer) :
    Zooming.init cfg k domain (d :: ds) =
      .ok ({ P := P1, arms := layer.map (newArm cfg P1), phase := 1, nextEnd := 2, time := 0,
             best := none }, ds) := by
  have hd : (Part.init k domain ()).deepen () (d :: ds) = .ok (P1, ds) := by
    simp [Part.deepen, Part.init, Part.deepenLoop]
    have := makeChildrenD_cons (ds := ds) hm
    simp only [Part.init] at this
    simp [this, bind, Except.bind]
  simp only [Zooming.init, hd, bind, Except.bind, hl, pure, Except.pure]

end ZM
end PyXAB
