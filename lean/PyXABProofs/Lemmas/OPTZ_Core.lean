/-
  Lemmas for the optimism lemma of Zooming (`Props/ZoomingOptimism.lean`), at the level of a
  single state satisfying the invariant `Cover` of C11:
  * `cover_exists`: some active arm is responsible for `xstar` (the active cells tile the domain);
  * `pull_dominates`: `pull` returns an arm whose index dominates the index of every active arm,
    in particular of an arm responsible for `xstar`;
  * `pull_optimistic`: hence its index is `≥ fstar` in an optimistic state;
  * `optimistic_of_check` / `not_optimistic_of_witness`: an executable test for `Optimistic`
    (used by the non-vacuity section only).
-/
import PyXABProofs.Lemmas.ZM_Run
import PyXABProofs.Spec.OptZSpec

set_option linter.unusedSectionVars false

namespace PyXAB
namespace OPTZ
open Zooming ZM _root_.PyXAB.Tree

section state
variable {α R S : Type} [Field α] [LinearOrder α] [IsStrictOrderedRing α]

omit [Field α] [IsStrictOrderedRing α] in
/-- In a `Cover` state every point of the domain lies in the (closed) cell of some active arm;
that cell is a leaf of depth `≥ 1` of the arena and also contains the arm's own point. -/
theorem cover_exists {root : Box α} {s : Zooming α S} (hC : Cover root s) {xstar : List α}
    (hx : Box.Mem root xstar) :
    ∃ a, CoversAt s xstar a ∧ ∃ nd, LeafAt s.P a.cell nd ∧ 1 ≤ nd.depth ∧
      Box.Mem nd.box xstar ∧ Box.Mem nd.box a.pt := by
  obtain ⟨c, hc, hcx⟩ := (hC.arm_cells_tile.2.1 xstar).1 hx
  obtain ⟨a, ha, rfl⟩ := List.mem_map.1 hc
  obtain ⟨nd, hl, hd, hp⟩ := hC.arm_leaf a ha
  refine ⟨a, ⟨ha, hcx⟩, nd, hl, hd, ?_, hp⟩
  simpa [cellBox, hl.1] using hcx

variable [LinearOrder S]

omit [Field α] [IsStrictOrderedRing α] in
/-- `pull` from a `Cover` state: it succeeds, returns a position `i` of `arms` and the point of
the arm `a` stored there, `a` maximises the index over all active arms, and some active arm
responsible for `xstar` exists — so the index of `a` dominates the index of that arm. -/
theorem pull_dominates (cfg : ZoomCfg R S) {root : Box α} {s : Zooming α S} (hC : Cover root s)
    (hbot : NegInfLe cfg s) {xstar : List α} (hx : Box.Mem root xstar) :
    ∃ i a, s.arms[i]? = some a ∧ pull cfg s = .ok ({ s with best := some i }, i, a.pt) ∧
      (∀ b ∈ s.arms, idx cfg s.phase b ≤ idx cfg s.phase a) ∧
      ∃ c, CoversAt s xstar c ∧ idx cfg s.phase c ≤ idx cfg s.phase a := by
  obtain ⟨i, a, h1, h2, h3, _⟩ := pull_spec cfg s hC.arms_ne_nil hbot
  obtain ⟨c, hc, _⟩ := cover_exists hC hx
  exact ⟨i, a, h1, h2, h3, c, hc, h3 c hc.1⟩

omit [Field α] [IsStrictOrderedRing α] in
/-- In an optimistic `Cover` state the arm which `pull` returns has index `≥ fstar`. -/
theorem pull_optimistic (cfg : ZoomCfg R S) {root : Box α} {s : Zooming α S} (hC : Cover root s)
    (hbot : NegInfLe cfg s) {xstar : List α} (hx : Box.Mem root xstar) {fstar : S}
    (hO : Optimistic cfg s s.phase xstar fstar) :
    ∃ i a, s.arms[i]? = some a ∧ pull cfg s = .ok ({ s with best := some i }, i, a.pt) ∧
      fstar ≤ idx cfg s.phase a ∧ ∀ b ∈ s.arms, idx cfg s.phase b ≤ idx cfg s.phase a := by
  obtain ⟨i, a, h1, h2, h3, c, hc, hca⟩ := pull_dominates cfg hC hbot hx
  exact ⟨i, a, h1, h2, le_trans (hO c hc.1 hc.2) hca, h3⟩

omit [Field α] [IsStrictOrderedRing α] in
/-- The same for a given successful `pull` (the model is deterministic). -/
theorem pull_optimistic_of_ok (cfg : ZoomCfg R S) {root : Box α} {s : Zooming α S}
    (hC : Cover root s) (hbot : NegInfLe cfg s) {xstar : List α} (hx : Box.Mem root xstar)
    {fstar : S} (hO : Optimistic cfg s s.phase xstar fstar) {s1 : Zooming α S} {i : Nat}
    {pt : List α} (hp : pull cfg s = .ok (s1, i, pt)) :
    ∃ a, s.arms[i]? = some a ∧ pt = a.pt ∧ s1 = { s with best := some i } ∧
      fstar ≤ idx cfg s.phase a ∧ ∀ b ∈ s.arms, idx cfg s.phase b ≤ idx cfg s.phase a := by
  obtain ⟨i', a, h1, h2, h3, h4⟩ := pull_optimistic cfg hC hbot hx hO
  rw [h2] at hp
  simp only [Except.ok.injEq, Prod.mk.injEq] at hp
  obtain ⟨rfl, rfl, rfl⟩ := hp
  exact ⟨a, h1, rfl, rfl, h3, h4⟩

end state

/-! ### An executable test for `Optimistic` -/
section check
variable {α R S : Type} [LinearOrder α] [LinearOrder S]

/-- executable version of `Optimistic` for points of the right dimension -/
def optCheck (cfg : ZoomCfg R S) (s : Zooming α S) (ph : Nat) (x : List α) (f : S) : Bool :=
  s.arms.all (fun a => !(contains (cellBox s.P a.cell) x) || decide (f ≤ idx cfg ph a))

theorem optimistic_of_check {cfg : ZoomCfg R S} {s : Zooming α S} {ph : Nat} {x : List α} {f : S}
    (h : optCheck cfg s ph x f = true) : Optimistic cfg s ph x f := by
  intro a ha hm
  have h1 := List.all_eq_true.1 h a ha
  have h2 : contains (cellBox s.P a.cell) x = true :=
    (contains_iff (Box.Mem.length_eq hm).symm).2 hm
  simpa [h2] using h1

/-- a witness against `Optimistic`: an arm (given by its position `j`) whose cell has the
dimension of `x` and contains `x`, and whose index is below `f` -/
theorem not_optimistic_of_witness {cfg : ZoomCfg R S} {s : Zooming α S} {ph : Nat} {x : List α}
    {f : S} (j : Nat)
    (h : (s.arms[j]?.map fun a => decide ((cellBox s.P a.cell).length = x.length) &&
      contains (cellBox s.P a.cell) x && decide (idx cfg ph a < f)) = some true) :
    ¬ Optimistic cfg s ph x f := by
  intro hO
  cases ha : s.arms[j]? with
  | none => rw [ha] at h; cases h
  | some a =>
    rw [ha] at h
    simp only [Option.map_some, Option.some.injEq, Bool.and_eq_true, decide_eq_true_eq] at h
    have hm := List.mem_of_getElem? ha
    exact absurd (hO a hm ((contains_iff h.1.1).1 h.1.2)) (not_le_of_gt h.2)

end check

end OPTZ
end PyXAB
