/-
  Counting the opened cells of a SequOOL tree over all depths, and the created cells against
  the opened ones (every non-root cell is one of the `K` children of an opened cell).
-/
import Mathlib.Algebra.BigOperators.Group.Finset.Basic
import Mathlib.Algebra.BigOperators.Intervals
import Mathlib.Algebra.Order.BigOperators.Group.Finset
import Mathlib.Order.Interval.Finset.Nat
import Mathlib.Data.Finset.Card
import Mathlib.Algebra.Group.Action.Defs
import Mathlib.Data.List.Range
import PyXABProofs.Lemmas.SQ_Sched

set_option linter.unusedSectionVars false
set_option linter.unusedVariables false

namespace PyXAB
namespace SQ
namespace Budget
open Tree Finset

variable {α σ : Type}

/-! ### Vocabulary -/

/-- the cell `id` exists and is not the root level: its depth is `≥ 1` -/
def isDeep (P : Part α σ) (id : Nat) : Bool :=
  match P.nodes[id]? with
  | some nd => decide (1 ≤ nd.depth)
  | none => false

/-- number of opened cells of depth `≥ 1` in the whole tree: cells of depth `≥ 1` which have a
child list (their opening has at least started) -/
def openedCount (P : Part α σ) : Nat :=
  (List.range P.nodes.length).countP (fun i => isDeep P i && isExp P i)

/-- number of opened cells in the whole tree, the root included -/
def expTotal (P : Part α σ) : Nat := (List.range P.nodes.length).countP (isExp P)

/-! ### Summing a count over the depths -/

theorem sum_countP_depth {ι : Type} (l : List ι) (d : ι → Option Nat) (e : ι → Bool) (m : Nat) :
    ∑ h ∈ Icc 1 m, l.countP (fun i => d i == some h && e i) =
      l.countP (fun i => (match d i with
        | some k => decide (1 ≤ k ∧ k ≤ m)
        | none => false) && e i) := by
  induction l with
  | nil => simp
  | cons a l ih =>
    simp only [List.countP_cons, Finset.sum_add_distrib, ih]
    congr 1
    cases hd : d a with
    | none => simp
    | some k =>
      cases e a
      · simp
      · by_cases hk : 1 ≤ k ∧ k ≤ m
        · have : k ∈ Icc 1 m := Finset.mem_Icc.2 hk
          simp [hk, this]
        · have : k ∉ Icc 1 m := fun h => hk (Finset.mem_Icc.1 h)
          simp [hk, this]

/-- `expCount` as a count over the arena -/
theorem expCount_countP {P : Part α σ} (W : WF P) (h : Nat) :
    expCount P h = (List.range P.nodes.length).countP (fun i =>
      (P.nodes[i]?.map (·.depth)) == some h && isExp P i) := by
  unfold expCount
  cases hl : P.layers[h]? with
  | some l =>
    simp only [Option.getD_some]
    rw [W.layers_eq_filter hl, List.countP_filter]
    apply List.countP_congr
    intro i _
    rw [Bool.and_comm]
  | none =>
    simp only [Option.getD_none, List.countP_nil]
    symm
    rw [List.countP_eq_zero]
    intro i hi
    rw [List.mem_range] at hi
    have hd := W.depth_le i _ (List.getElem?_eq_getElem hi)
    have hlen := W.layers_len
    rw [List.getElem?_eq_none_iff] at hl
    have : ¬ (P.nodes[i]).depth = h := by omega
    simp [List.getElem?_eq_getElem hi, this]

/-- if no cell deeper than `m` has been opened, the opened cells of depth `≥ 1` are those of
the depths `1 … m` -/
theorem openedCount_eq_sum {P : Part α σ} (W : WF P) (m : Nat)
    (hm : ∀ (i : Nat) (nd : Node α σ), P.nodes[i]? = some nd → nd.children ≠ none →
      nd.depth ≤ m) :
    openedCount P = ∑ h ∈ Icc 1 m, expCount P h := by
  simp only [expCount_countP W]
  rw [sum_countP_depth, openedCount]
  apply List.countP_congr
  intro i _
  unfold isDeep isExp
  cases hi : P.nodes[i]? with
  | none => simp
  | some nd =>
    cases hc : nd.children with
    | none => simp [hc]
    | some cs =>
      have := hm i nd hi (by simp [hc])
      simp [hc, this]

/-! ### Created cells against opened cells -/

/-- the children of the cell `p`, as a finite set -/
def childSet (P : Part α σ) (p : Nat) : Finset Nat :=
  match P.nodes[p]? with
  | some nd => (nd.children.getD []).toFinset
  | none => ∅

theorem childSet_card_le {P : Part α σ} (W : WF P) (p : Nat) : (childSet P p).card ≤ K P := by
  unfold childSet
  cases hp : P.nodes[p]? with
  | none => simp
  | some nd =>
    cases hc : nd.children with
    | none => simp [hc]
    | some cs =>
      obtain ⟨_, a, _, rfl, _⟩ := W.children p nd cs hp hc
      simpa [hc] using List.toFinset_card_le (List.range' a (K P))

/-- **every cell but the root is a child of an opened cell**, and an opened cell has `K`
children: the arena has at most `1 + K * (number of opened cells)` cells -/
theorem nodes_le_expTotal {P : Part α σ} (W : WF P) :
    P.nodes.length ≤ 1 + K P * expTotal P := by
  set N := P.nodes.length with hN
  let E : Finset Nat := (Finset.range N).filter (fun i => isExp P i = true)
  have hE : E.card = expTotal P := by
    unfold expTotal
    rw [List.countP_eq_length_filter, ← List.toFinset_card_of_nodup
      (List.nodup_range.filter _)]
    congr 1
    ext i
    simp [E, hN]
  have hsub : Finset.Ico 1 N ⊆ E.biUnion (childSet P) := by
    intro c hc
    rw [Finset.mem_Ico] at hc
    obtain ⟨p, pn, cs, _, p2, p3, p4, p5, _⟩ :=
      W.parent c _ hc.1 (List.getElem?_eq_getElem hc.2)
    rw [Finset.mem_biUnion]
    refine ⟨p, ?_, ?_⟩
    · simp only [E, Finset.mem_filter, Finset.mem_range]
      exact ⟨by omega, isExp_eq_true.2 ⟨pn, cs, p3, p4⟩⟩
    · simp [childSet, p3, p4, p5]
  have h1 : (Finset.Ico 1 N).card ≤ (E.biUnion (childSet P)).card := Finset.card_le_card hsub
  have h2 : (E.biUnion (childSet P)).card ≤ ∑ p ∈ E, (childSet P p).card :=
    Finset.card_biUnion_le
  have h3 : ∑ p ∈ E, (childSet P p).card ≤ E.card • K P :=
    Finset.sum_le_card_nsmul _ _ _ (fun p _ => childSet_card_le W p)
  rw [Nat.card_Ico] at h1
  rw [hE, smul_eq_mul, Nat.mul_comm] at h3
  omega

/-- the root is the only opened cell of depth `0` -/
theorem expTotal_le {P : Part α σ} (W : WF P) : expTotal P ≤ 1 + openedCount P := by
  unfold expTotal openedCount
  have hpos := W.length_pos
  obtain ⟨n, hn⟩ : ∃ n, P.nodes.length = n + 1 := ⟨P.nodes.length - 1, by omega⟩
  rw [hn, List.range_succ_eq_map, List.countP_cons, List.countP_cons]
  have : List.countP (isExp P) (List.map Nat.succ (List.range n)) ≤
      List.countP (fun i => isDeep P i && isExp P i) (List.map Nat.succ (List.range n)) := by
    apply Nat.le_of_eq
    apply List.countP_congr
    intro i hi
    rw [List.mem_map] at hi
    obtain ⟨j, hj, rfl⟩ := hi
    rw [List.mem_range] at hj
    have hlt : j + 1 < P.nodes.length := by omega
    have hd := W.depth_pos_of_pos (Nat.succ_pos j) (List.getElem?_eq_getElem hlt)
    have : isDeep P (j + 1) = true := by
      unfold isDeep
      rw [List.getElem?_eq_getElem hlt]
      simpa using Nat.succ_le_of_lt hd
    simp [this]
  split <;> split <;> omega

end Budget
end SQ
end PyXAB
