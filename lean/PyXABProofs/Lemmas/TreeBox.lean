/-
  Length facts about the child-box computations (number of children, dimension of each child)
  and the closed form of every class's `childIndex`.
-/
import PyXABProofs.Spec.Tree

set_option linter.unusedSectionVars false

namespace PyXAB
namespace Tree

section
variable {α : Type}

theorem length_chainIvs : ∀ l : List α, (chainIvs l).length = l.length - 1
  | [] => rfl
  | [_] => rfl
  | a :: b :: rest => by
    simp only [chainIvs, List.length_cons, length_chainIvs (b :: rest)]
    omega

variable [Add α] [Sub α] [Mul α] [Div α] [OfNat α 2] [NatCast α]

theorem length_splitChain (b : Box α) (dim : Nat) (pts : List α) (h : dim < b.length) :
    (splitChain b dim pts).length = pts.length + 1 := by
  unfold splitChain
  rw [List.getElem?_eq_getElem h]
  simp [length_chainIvs]

theorem length_of_mem_splitChain (b : Box α) (dim : Nat) (pts : List α) (c : Box α)
    (hc : c ∈ splitChain b dim pts) : c.length = b.length := by
  unfold splitChain at hc
  split at hc
  · simp at hc
  · simp only [List.mem_map] at hc
    obtain ⟨i, _, rfl⟩ := hc
    simp

theorem length_linspacePts (lo hi : α) (K : Nat) : (linspacePts lo hi K).length = K - 1 := by
  simp [linspacePts]

theorem length_flatMap_two {β γ : Type} (f : β → List γ) (hf : ∀ x, (f x).length = 2) :
    ∀ l : List β, (l.flatMap f).length = 2 * l.length
  | [] => rfl
  | x :: l => by
    simp only [List.flatMap_cons, List.length_append, hf, length_flatMap_two f hf l,
      List.length_cons]
    omega

theorem length_splitAll : ∀ b : Box α, (splitAll b).length = 2 ^ b.length
  | [] => rfl
  | iv :: rest => by
    simp only [splitAll, List.length_cons]
    rw [length_flatMap_two _ (fun _ => rfl), length_splitAll rest, Nat.pow_succ]
    omega

theorem length_of_mem_splitAll : ∀ (b c : Box α), c ∈ splitAll b → c.length = b.length
  | [], c, h => by simp [splitAll] at h; simp [h]
  | iv :: rest, c, h => by
    simp only [splitAll, List.mem_flatMap, List.mem_cons, List.not_mem_nil, or_false] at h
    obtain ⟨r, hr, hc⟩ := h
    have := length_of_mem_splitAll rest r hr
    rcases hc with rfl | rfl <;> simp [this]

/-- Under a well-formed draw every class produces exactly `arity` children. -/
theorem length_childBoxes (k : Kind) (b : Box α) (d : Draw α) (h : DrawOKLen k b.length d) :
    (childBoxes k b d).length = k.arity b.length := by
  cases k with
  | binary =>
    simp only [DrawOKLen] at h
    simp only [childBoxes, List.getElem?_eq_getElem h, Kind.arity]
    rw [length_splitChain _ _ _ h]; rfl
  | randBinary =>
    simp only [DrawOKLen] at h
    simp only [childBoxes, Kind.arity]
    rw [length_splitChain _ _ _ h.1, List.length_take]; omega
  | dimBinary => simp only [childBoxes, Kind.arity, length_splitAll]
  | kary K =>
    simp only [DrawOKLen] at h
    simp only [childBoxes, List.getElem?_eq_getElem h.1, Kind.arity]
    rw [length_splitChain _ _ _ h.1, length_linspacePts]; omega
  | randKary K =>
    simp only [DrawOKLen] at h
    simp only [childBoxes, Kind.arity]
    rw [length_splitChain _ _ _ h.1, List.length_take]; omega

/-- Every child box has the dimension of its parent (no hypothesis on the draw needed). -/
theorem length_of_mem_childBoxes (k : Kind) (b : Box α) (d : Draw α) (c : Box α)
    (hc : c ∈ childBoxes k b d) : c.length = b.length := by
  cases k with
  | binary =>
    simp only [childBoxes] at hc
    split at hc
    · simp at hc
    · exact length_of_mem_splitChain _ _ _ _ hc
  | randBinary => exact length_of_mem_splitChain _ _ _ _ hc
  | dimBinary => exact length_of_mem_splitAll _ _ hc
  | kary K =>
    simp only [childBoxes] at hc
    split at hc
    · simp at hc
    · exact length_of_mem_splitChain _ _ _ _ hc
  | randKary K => exact length_of_mem_splitChain _ _ _ _ hc

end

/-- Each class's own index formula is `K(i-1) + j + 1` for the `j`-th child (0-based) of a
cell with 1-based index `i`. -/
theorem childIndex_eq (k : Kind) (dimn i j : Nat) (hi : 1 ≤ i) (hj : j < k.arity dimn) :
    childIndex k dimn i j = k.arity dimn * (i - 1) + j + 1 := by
  obtain ⟨i, rfl⟩ : ∃ i', i = i' + 1 := ⟨i - 1, by omega⟩
  cases k with
  | binary => simp only [childIndex, Kind.arity] at *; split <;> omega
  | randBinary => simp only [childIndex, Kind.arity] at *; split <;> omega
  | dimBinary => simp only [childIndex, Kind.arity, Nat.add_sub_cancel]
  | kary K =>
    simp only [childIndex, Kind.arity, Nat.add_sub_cancel, Nat.mul_succ] at *; omega
  | randKary K =>
    simp only [childIndex, Kind.arity, Nat.add_sub_cancel, Nat.mul_succ] at *; omega

end Tree
end PyXAB
