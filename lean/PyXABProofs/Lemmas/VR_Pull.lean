/-
  `VROOM.pull`: ranking stage, draw of a cell, descent.
-/
import PyXABProofs.Lemmas.VR_Descent
import PyXABProofs.Lemmas.VR_Recv

set_option linter.unusedSectionVars false

namespace PyXAB
namespace VR
open _root_.PyXAB.Tree TBA VROOM

section pull
variable {α R S : Type} [Field α] [LinearOrder α] [IsStrictOrderedRing α] [LinearOrder S]

/-- the ranking stage keeps the tree invariant -/
theorem Ranked.tinv {cfg : VrCfg R S} {hs : List Nat} {sd : Nat} {P P' : Part α (VrSt R S)}
    (h : Ranked cfg hs P P') (T : TInv sd P) : TInv sd P' where
  wf := h.toPRel.wf T.wf
  deep := by rw [h.depth]; exact T.deep
  internal := by
    intro i nd' hi hd
    obtain ⟨nd, h1, h2, _⟩ := h.toPRel.bwd hi
    rw [h2.children]
    exact T.internal i nd h1 (by rw [← h2.depth]; exact hd)
  geo := Geo.of_PRel h.toPRel T.geo

/-- **`pull`**, core statement.  From a state satisfying the tree invariant, if the weights are
accepted by `np.random.choice`, the drawn index is an index of the weight list and the random
choices of the descent satisfy `DescOK`, `pull` succeeds; the result is described by the ranked
arena `P1`, the drawn entry `(h, l)` of the index list, the drawn cell `node`, the final arena
`P2` and the descent path. -/
theorem pull_spec (cfg : VrCfg R S) (s : VROOM α R S) (time : Nat) (dr : VDraw α)
    (T : TInv cfg.sd s.P)
    (hOK : ∀ P1, Ranked cfg (List.range' 1 cfg.sd) s.P P1 →
      cfg.probOK (probList cfg s.P P1) = true)
    (hch : dr.choice < (idxList cfg.sd s.P).length)
    (hdesc : ∀ P1 h l node, Ranked cfg (List.range' 1 cfg.sd) s.P P1 →
      (idxList cfg.sd s.P)[dr.choice]? = some (h, l) → (layerAt s.P h)[l]? = some node →
      DescOK cfg.hmax dr.steps h node P1) :
    ∃ P1 h l node P2 last path,
      pull cfg s time dr = .ok
        ({ s with P := P2, iteration := time, prob := probList cfg s.P P1, curr := some node,
                  updateList := node :: path }, last, dr.pt) ∧
      Ranked cfg (List.range' 1 cfg.sd) s.P P1 ∧
      (idxList cfg.sd s.P)[dr.choice]? = some (h, l) ∧ (layerAt s.P h)[l]? = some node ∧
      (1 ≤ h ∧ h ≤ cfg.sd) ∧
      (∃ nd, P1.nodes[node]? = some nd ∧ nd.depth = h) ∧
      TInv cfg.sd P1 ∧ TInv cfg.sd P2 ∧ Grow st0 cfg.sd P1 P2 ∧ IsPath P2 node path last ∧
      path.length = cfg.hmax - h := by
  obtain ⟨P1, m1, Rk⟩ := rankAll_spec cfg s.P T.wf T.deep
  have T1 : TInv cfg.sd P1 := Rk.tinv T
  obtain ⟨⟨h, l⟩, hidx⟩ : ∃ x, (idxList cfg.sd s.P)[dr.choice]? = some x :=
    ⟨_, List.getElem?_eq_getElem hch⟩
  obtain ⟨hh1, hh2, node, hnode, _⟩ := weight_at (P' := P1) hidx
  have hlay : P1.layers[h]? = some (layerAt s.P h) := by
    rw [Rk.layers]
    have : h < s.P.layers.length := by rw [T.wf.layers_len]; have := T.deep; omega
    simp [layerAt, List.getElem?_eq_getElem this]
  obtain ⟨nd, n1, n2⟩ := ((T1.wf.layers_mem h _ hlay).2.2 node).1 (List.mem_of_getElem? hnode)
  obtain ⟨P2, last, path, m2, T2, Gr, hp, hl⟩ := descentLoop_spec cfg.hmax cfg.sd dr.steps h node
    [node] P1 nd T1 n1 n2 (hdesc P1 h l node Rk hidx hnode)
  refine ⟨P1, h, l, node, P2, last, path, ?_, Rk, hidx, hnode, ⟨hh1, hh2⟩, ⟨nd, n1, n2⟩, T1, T2,
    Gr, hp, hl⟩
  rw [pull, m1]
  have hok := hOK P1 Rk
  simp only [bind, Except.bind, pure, Except.pure]
  simp only [probList, idxList] at hok hidx
  simp only [hok, hidx, hlay, hnode, m2]
  rfl

end pull

/-! ### a simple sufficient condition for `DescOK` -/
section simple
variable {α R S : Type} [Field α] [LinearOrder α] [IsStrictOrderedRing α]

/-- Sufficient condition for `DescOK` when the guarantees `DrawOK` do not depend on the box
beyond its dimension (`.binary`, `.kary K`, `.dimBinary`): enough steps, each with a valid
child sign and a well-formed draw. -/
theorem descOK_of_simple (hmax : Nat) : ∀ (steps : List (Option (Draw α) × Nat)) (h node : Nat)
    (P : Part α (VrSt R S)) (nd : Node α (VrSt R S)), WF P → P.nodes[node]? = some nd →
    nd.depth = h → hmax - h ≤ steps.length →
    (∀ x ∈ steps, x.2 < K P ∧ ∃ d, x.1 = some d ∧ DrawOKLen P.kind (dimn P) d ∧
      ∀ b : Box α, b.length = dimn P → DrawOK P.kind b d) →
    DescOK hmax steps h node P
  | [], h, node, P, nd, _, _, _, hlen, _ => by
    show ¬ h < hmax
    simp at hlen; omega
  | (od, sign) :: rest, h, node, P, nd, W, hnd, hdep, hlen, hall => by
    intro hh
    obtain ⟨hsign, d, hd0, hdl, hdk⟩ := hall (od, sign) (List.mem_cons_self ..)
    have hrest : ∀ x ∈ rest, x.2 < K P ∧ ∃ d, x.1 = some d ∧ DrawOKLen P.kind (dimn P) d ∧
        ∀ b : Box α, b.length = dimn P → DrawOK P.kind b d :=
      fun x hx => hall x (List.mem_cons_of_mem _ hx)
    refine ⟨hsign, fun nd' hnd' => ?_⟩
    obtain rfl := getElem?_inj hnd hnd'
    cases hcs : nd.children with
    | some cs =>
      intro c hc
      obtain ⟨_, cn, _, _, _, _, g1, _, _, g4⟩ :=
        W.child_facts hnd hcs (List.mem_of_getElem? hc)
      exact descOK_of_simple hmax rest (h + 1) c P cn W g1 (by omega)
        (by simp at hlen; omega) hrest
    | none =>
      refine ⟨d, hd0, hdl, hdk _ (W.boxlen node nd hnd), ?_⟩
      intro P1 c m1 hc
      obtain ⟨P1', m1', W1, St⟩ := makeChildren_WF_step W st0 hnd hcs
        (show decide (h ≥ P.depth) = decide (nd.depth ≥ P.depth) by rw [hdep]) hdl
      rw [m1] at m1'
      obtain rfl : P1 = P1' := by injection m1'
      have hK : K P1 = K P := St.K_eq W hnd
      have hc' : (List.range' P.nodes.length (K P))[sign]? = some c := by
        simpa [St.atp] using hc
      rw [List.getElem?_range' hsign] at hc'
      obtain rfl : P.nodes.length + sign = c := by simpa using hc'
      obtain ⟨cn, c1, c2, _⟩ := St.new sign hsign
      refine descOK_of_simple hmax rest (h + 1) _ P1 cn W1 c1 (by omega)
        (by simp at hlen; omega) ?_
      intro x hx
      rw [hK, St.kind_eq, St.dimn_eq W hnd]
      exact hrest x hx

end simple

end VR
end PyXAB
