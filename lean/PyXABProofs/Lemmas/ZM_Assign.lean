/-
  The containment test `Zooming.contains` and the distribution `Zooming.assign` of the children
  of a refined cell.
-/
import PyXABProofs.Spec.ZoomSpec
import Mathlib.Order.Defs.LinearOrder

set_option linter.unusedSectionVars false

namespace PyXAB
namespace ZM
open Zooming

section contains
variable {α : Type} [LinearOrder α]

/-- For a point with the right number of coordinates the executable test is closed membership. -/
theorem contains_iff {b : Box α} {x : List α} (hl : b.length = x.length) :
    contains b x = true ↔ Box.Mem b x := by
  induction b generalizing x with
  | nil =>
    cases x with
    | nil => exact ⟨fun _ => List.Forall₂.nil, fun _ => rfl⟩
    | cons _ _ => simp at hl
  | cons iv b ih =>
    cases x with
    | nil => simp at hl
    | cons c xs =>
      have hl' : b.length = xs.length := by simpa using hl
      have e : contains (iv :: b) (c :: xs) =
          ((decide (iv.lo ≤ c) && decide (c ≤ iv.hi)) && contains b xs) := by
        simp [contains]
      rw [e, Box.Mem, List.forall₂_cons, ← Box.Mem, ← ih hl']
      simp [Iv.Mem, and_assoc]

end contains

section assign
variable {α R S : Type} [Add α] [Div α] [OfNat α 2] [LE α] [DecidableLE α]

/-- the executable test "child `c` contains `pt`" -/
def inCell (P : Part α Unit) (pt : List α) (c : Nat) : Bool :=
  match P.nodes[c]? with
  | some nd => contains nd.box pt
  | none => false

variable (cfg : ZoomCfg R S) (P : Part α Unit) (pt : List α)

theorem assign_true {cs : List Nat} (hv : ∀ c ∈ cs, ∃ nd, P.nodes[c]? = some nd)
    (cell : Option Nat) (fresh : List (Arm α S)) :
    assign cfg P pt cs true cell fresh = (cell, fresh ++ cs.map (newArm cfg P)) := by
  induction cs generalizing fresh with
  | nil => simp [assign]
  | cons c cs ih =>
    obtain ⟨nd, hnd⟩ := hv c (List.mem_cons_self ..)
    rw [assign, hnd]
    simp only [Bool.not_true, Bool.and_false, Bool.false_eq_true, if_false]
    rw [ih (fun x hx => hv x (List.mem_cons_of_mem _ hx))]
    simp

theorem assign_false_none {cs : List Nat} (hv : ∀ c ∈ cs, ∃ nd, P.nodes[c]? = some nd)
    (hn : ∀ c ∈ cs, inCell P pt c = false) (cell : Option Nat) (fresh : List (Arm α S)) :
    assign cfg P pt cs false cell fresh = (cell, fresh ++ cs.map (newArm cfg P)) := by
  induction cs generalizing fresh with
  | nil => simp [assign]
  | cons c cs ih =>
    obtain ⟨nd, hnd⟩ := hv c (List.mem_cons_self ..)
    have hc := hn c (List.mem_cons_self ..)
    simp only [inCell, hnd] at hc
    rw [assign, hnd]
    simp only [hc, Bool.false_and, Bool.false_eq_true, if_false]
    rw [ih (fun x hx => hv x (List.mem_cons_of_mem _ hx))
      (fun x hx => hn x (List.mem_cons_of_mem _ hx))]
    simp

/-- **The fixed rule.**  The FIRST child containing the point keeps the arm; every other child
(before or after it, containing the point or not) gets a fresh arm. -/
theorem assign_false_some {l₁ l₂ : List Nat} {c : Nat}
    (hv : ∀ x ∈ l₁ ++ c :: l₂, ∃ nd, P.nodes[x]? = some nd)
    (h1 : ∀ x ∈ l₁, inCell P pt x = false) (hc : inCell P pt c = true)
    (cell : Option Nat) (fresh : List (Arm α S)) :
    assign cfg P pt (l₁ ++ c :: l₂) false cell fresh =
      (some c, fresh ++ (l₁ ++ l₂).map (newArm cfg P)) := by
  induction l₁ generalizing fresh with
  | nil =>
    obtain ⟨nd, hnd⟩ := hv c (by simp)
    simp only [inCell, hnd] at hc
    rw [List.nil_append, assign, hnd]
    simp only [hc, Bool.not_false, Bool.and_self, if_true]
    rw [assign_true cfg P pt (fun x hx => hv x (by simp [hx]))]
    simp
  | cons a l₁ ih =>
    obtain ⟨nd, hnd⟩ := hv a (by simp)
    have ha := h1 a (List.mem_cons_self ..)
    simp only [inCell, hnd] at ha
    rw [List.cons_append, assign, hnd]
    simp only [ha, Bool.false_and, Bool.false_eq_true, if_false]
    rw [ih (fun x hx => hv x (by simp at hx ⊢; tauto))
      (fun x hx => h1 x (List.mem_cons_of_mem _ hx))]
    simp

end assign

/-- first element of a list satisfying a Boolean test -/
theorem first_split {β : Type} (f : β → Bool) : ∀ l : List β,
    (∀ x ∈ l, f x = false) ∨
    ∃ l₁ c l₂, l = l₁ ++ c :: l₂ ∧ (∀ x ∈ l₁, f x = false) ∧ f c = true
  | [] => Or.inl (by simp)
  | a :: l => by
    cases ha : f a with
    | true => exact Or.inr ⟨[], a, l, rfl, by simp, ha⟩
    | false =>
      rcases first_split f l with h | ⟨l₁, c, l₂, rfl, h1, h2⟩
      · left; intro x hx
        rcases List.mem_cons.1 hx with rfl | hx
        · exact ha
        · exact h x hx
      · right
        refine ⟨a :: l₁, c, l₂, rfl, ?_, h2⟩
        intro x hx
        rcases List.mem_cons.1 hx with rfl | hx
        · exact ha
        · exact h1 x hx

end ZM
end PyXAB
