/-
  Zooming:
  * C15.2: `pull` only sets `best`; it is idempotent;
  * C16.3: `pull` / `receive` / `init` commute with mapping the boxes of the tree and the points
    of the arms, for maps which commute with the geometry the algorithm reads (child boxes,
    centres, containment test).
-/
import PyXABProofs.Lemmas.RL_Tree
import PyXABProofs.Lemmas.RL_Machine

namespace PyXAB
namespace RL
open Rel
set_option linter.unusedSectionVars false

section zoom
variable {α R S : Type} [Add α] [Sub α] [Mul α] [Div α] [OfNat α 2] [NatCast α]
variable [LE α] [DecidableLE α] [LE S] [DecidableLE S] [Inhabited S]

/-! ### C15.2 -/

theorem zoom_pull_frame (cfg : ZoomCfg R S) {s s1 : Zooming α S} {v : Nat × List α}
    (h : Zooming.pull cfg s = .ok (s1, v)) : s1 = { s with best := some v.1 } := by
  unfold Zooming.pull at h
  split at h
  · cases h
  · split at h
    · cases h
    · simp only [Except.ok.injEq, Prod.mk.injEq] at h
      obtain ⟨rfl, rfl⟩ := h
      rfl

/-- a second `pull` right after a `pull` returns the same arm and leaves the state unchanged -/
theorem zoom_pull_idem (cfg : ZoomCfg R S) {s s1 : Zooming α S} {v : Nat × List α}
    (h : Zooming.pull cfg s = .ok (s1, v)) : Zooming.pull cfg s1 = .ok (s1, v) := by
  unfold Zooming.pull at h ⊢
  split at h
  · cases h
  · rename_i i h1
    split at h
    · cases h
    · rename_i a h2
      simp only [Except.ok.injEq, Prod.mk.injEq] at h
      obtain ⟨rfl, rfl⟩ := h
      simp only [h1, h2]

theorem zoom_pullN_idem (cfg : ZoomCfg R S) {s s1 : Zooming α S} {v : Nat × List α}
    (h : Zooming.pull cfg s = .ok (s1, v)) : ∀ q, zoomPullN cfg q s1 = .ok s1
  | 0 => rfl
  | q + 1 => by
    simp only [zoomPullN, zoom_pull_idem cfg h]
    exact zoom_pullN_idem cfg h q

theorem zoom_pullN_pull (cfg : ZoomCfg R S) (s : Zooming α S) :
    ∀ q, (match zoomPullN cfg q s with
          | .error e => .error e
          | .ok s0 => Zooming.pull cfg s0) = Zooming.pull cfg s
  | 0 => rfl
  | q + 1 => by
    cases h : Zooming.pull cfg s with
    | error e => simp only [zoomPullN, h]
    | ok r =>
      obtain ⟨s1, v⟩ := r
      simp only [zoomPullN, h, zoom_pullN_idem cfg h q]
      exact zoom_pull_idem cfg h

/-! ### C16.3 -/

/-- the maps commute with everything Zooming reads from the geometry -/
structure ZoomEquivariant (g : Box α → Box α) (gd : Draw α → Draw α) (f : List α → List α) :
    Prop where
  box : BoxEquivariant g gd
  cpoint : ∀ b, Box.cpoint (g b) = f (Box.cpoint b)
  contains : ∀ b x, Zooming.contains (g b) (f x) = Zooming.contains b x
  nil : f [] = []

variable {g : Box α → Box α} {gd : Draw α → Draw α} {f : List α → List α}

theorem argmaxArm_map (cfg : ZoomCfg R S) (phase : Nat) (f : List α → List α) (arms : List (Arm α S)) :
    Zooming.argmaxArm cfg phase (arms.map (armMapPt f)) = Zooming.argmaxArm cfg phase arms := by
  unfold Zooming.argmaxArm
  rw [List.foldl_map]
  rfl

theorem zoom_pull_map (cfg : ZoomCfg R S) (g : Box α → Box α) (f : List α → List α)
    (s : Zooming α S) :
    Zooming.pull cfg (zoomMap g f s) =
      mapRes (zoomMap g f) (fun v => (v.1, f v.2)) (Zooming.pull cfg s) := by
  unfold Zooming.pull
  simp only [zoomMap, argmaxArm_map]
  cases Zooming.argmaxArm cfg s.phase s.arms with
  | none => rfl
  | some i =>
    simp only [List.getElem?_map]
    cases s.arms[i]? with
    | none => rfl
    | some a => rfl

theorem newArm_map (hz : ZoomEquivariant g gd f) (cfg : ZoomCfg R S) (P : Part α Unit) (c : Nat) :
    Zooming.newArm (α := α) cfg (partMapBox g P) c = armMapPt f (Zooming.newArm cfg P c) := by
  unfold Zooming.newArm
  rw [partMapBox_getElem?]
  cases P.nodes[c]? with
  | none => simp only [Option.map_none, armMapPt, hz.nil]
  | some nd => simp only [Option.map_some, armMapPt, nodeMapBox_box, hz.cpoint]

theorem assign_map (hz : ZoomEquivariant g gd f) (cfg : ZoomCfg R S) (P : Part α Unit)
    (pt : List α) :
    ∀ (cs : List Nat) (assigned : Bool) (cell : Option Nat) (fresh : List (Arm α S)),
      Zooming.assign cfg (partMapBox g P) (f pt) cs assigned cell (fresh.map (armMapPt f)) =
        ((Zooming.assign cfg P pt cs assigned cell fresh).1,
         (Zooming.assign cfg P pt cs assigned cell fresh).2.map (armMapPt f))
  | [], _, _, _ => rfl
  | c :: cs, assigned, cell, fresh => by
    simp only [Zooming.assign, partMapBox_getElem?]
    cases P.nodes[c]? with
    | none => exact assign_map hz cfg P pt cs assigned cell fresh
    | some nd =>
      simp only [Option.map_some, nodeMapBox_box, hz.contains]
      by_cases hc : (Zooming.contains nd.box pt && !assigned) = true
      · simp only [hc, if_true]
        exact assign_map hz cfg P pt cs true (some c) fresh
      · simp only [hc, if_false, Bool.false_eq_true]
        have := assign_map hz cfg P pt cs assigned cell (fresh ++ [Zooming.newArm cfg P c])
        simp only [List.map_append, List.map_cons, List.map_nil, ← newArm_map hz] at this
        exact this

/-- state after the bookkeeping part of `receive_reward` (`b` = a new phase starts) -/
def zoomBook (s : Zooming α S) (i : Nat) (a1 : Arm α S) (b : Bool) : Zooming α S :=
  { s with arms := s.arms.set i a1, time := s.time + 1,
           phase := if b then s.phase + 1 else s.phase,
           nextEnd := if b then s.nextEnd + 2 ^ (s.phase + 1) else s.nextEnd }

/-- the refinement part of `receive_reward`, with the two tests as parameters -/
def zoomRecvCore (cfg : ZoomCfg R S) (s1 : Zooming α S) (i : Nat) (a1 : Arm α S) (refine nl : Bool)
    (ds : List (Draw α)) : Except Err (Zooming α S × List (Draw α)) := do
  if refine then
    let (P2, ds') ← s1.P.makeChildrenD () a1.cell nl ds
    match P2.nodes[a1.cell]? with
    | none => .error .badId
    | some nd2 =>
      match nd2.children with
      | none => .error .noneDeref
      | some cs =>
        let (cell, fresh) := Zooming.assign cfg P2 a1.pt cs false none []
        let a2 := match cell with | some c => { a1 with cell := c } | none => a1
        return ({ s1 with P := P2, arms := s1.arms.set i a2 ++ fresh }, ds')
  else return (s1, ds)

theorem zoom_receive_eq (cfg : ZoomCfg R S) (s : Zooming α S) (r : R) (ds : List (Draw α)) :
    Zooming.receive cfg s r ds =
      match s.best with
      | none => .error .noneDeref
      | some i =>
        match s.arms[i]? with
        | none => .error .badId
        | some a =>
          match s.P.nodes[a.cell]? with
          | none => .error .badId
          | some nd =>
            zoomRecvCore cfg
              (zoomBook s i { a with avg := cfg.upd a.avg a.pulls r, pulls := a.pulls + 1 }
                (decide (s.time + 1 ≥ s.nextEnd)))
              i { a with avg := cfg.upd a.avg a.pulls r, pulls := a.pulls + 1 }
              (cfg.refine (if s.time + 1 ≥ s.nextEnd then s.phase + 1 else s.phase) (a.pulls + 1) nd.depth)
              (decide (nd.depth ≥ s.P.depth)) ds := by
  obtain ⟨P, arms, phase, nextEnd, time, best⟩ := s
  unfold Zooming.receive
  simp only []
  cases best with
  | none => rfl
  | some i =>
    simp only []
    cases arms[i]? with
    | none => rfl
    | some a =>
      simp only []
      cases P.nodes[a.cell]? with
      | none => rfl
      | some nd =>
        simp only []
        by_cases ht : time + 1 ≥ nextEnd
        · simp only [ht, if_true, decide_true, zoomBook, zoomRecvCore]
          by_cases hr : cfg.refine (phase + 1) (a.pulls + 1) nd.depth = true
          · simp only [hr, if_true]; rfl
          · simp only [hr, if_false, Bool.false_eq_true]
        · simp only [ht, if_false, decide_false, zoomBook, zoomRecvCore, Bool.false_eq_true]
          by_cases hr : cfg.refine phase (a.pulls + 1) nd.depth = true
          · simp only [hr, if_true]; rfl
          · simp only [hr, if_false, Bool.false_eq_true]

theorem zoomBook_map (g : Box α → Box α) (f : List α → List α) (s : Zooming α S) (i : Nat)
    (a1 : Arm α S) (b : Bool) :
    zoomBook (zoomMap g f s) i (armMapPt f a1) b = zoomMap g f (zoomBook s i a1 b) := by
  simp only [zoomBook, zoomMap, List.map_set]

theorem zoomRecvCore_map (hz : ZoomEquivariant g gd f) (cfg : ZoomCfg R S) (s1 : Zooming α S) (i : Nat)
    (a1 : Arm α S) (refine nl : Bool) (ds : List (Draw α)) :
    zoomRecvCore cfg (zoomMap g f s1) i (armMapPt f a1) refine nl (ds.map gd) =
      mapRes (zoomMap g f) (List.map gd) (zoomRecvCore cfg s1 i a1 refine nl ds) := by
  unfold zoomRecvCore
  cases refine with
  | false => rfl
  | true =>
    simp only [if_true, bind, Except.bind, pure, Except.pure]
    have e0 : (zoomMap g f s1).P = partMapBox g s1.P := rfl
    have e1 : (armMapPt f a1).cell = a1.cell := rfl
    have e2 : (armMapPt f a1).pt = f a1.pt := rfl
    rw [e0, e1, e2, makeChildrenD_map hz.box]
    cases Part.makeChildrenD s1.P () a1.cell nl ds with
    | error e => rfl
    | ok x =>
      obtain ⟨P2, ds'⟩ := x
      simp only [mapRes, partMapBox_getElem?]
      cases P2.nodes[a1.cell]? with
      | none => rfl
      | some nd2 =>
        simp only [Option.map_some, nodeMapBox_children]
        cases nd2.children with
        | none => rfl
        | some cs =>
          have ha := assign_map hz cfg P2 a1.pt cs false none ([] : List (Arm α S))
          simp only [List.map_nil] at ha
          simp only [ha, zoomMap]
          congr 2
          cases (Zooming.assign cfg P2 a1.pt cs false none ([] : List (Arm α S))).1 with
          | none => simp [List.map_set, armMapPt]
          | some c => simp [List.map_set, armMapPt]

theorem zoom_receive_map (hz : ZoomEquivariant g gd f) (cfg : ZoomCfg R S) (s : Zooming α S)
    (r : R) (ds : List (Draw α)) :
    Zooming.receive cfg (zoomMap g f s) r (ds.map gd) =
      mapRes (zoomMap g f) (List.map gd) (Zooming.receive cfg s r ds) := by
  rw [zoom_receive_eq, zoom_receive_eq]
  have e0 : (zoomMap g f s).best = s.best := rfl
  have e1 : (zoomMap g f s).arms = s.arms.map (armMapPt f) := rfl
  have e2 : (zoomMap g f s).P = partMapBox g s.P := rfl
  rw [e0]
  cases s.best with
  | none => rfl
  | some i =>
    simp only [e1, List.getElem?_map]
    cases s.arms[i]? with
    | none => rfl
    | some a =>
      simp only [Option.map_some, e2, partMapBox_getElem?]
      have e3 : (armMapPt f a).cell = a.cell := rfl
      rw [e3]
      cases s.P.nodes[a.cell]? with
      | none => rfl
      | some nd =>
        simp only [Option.map_some]
        have key := zoomRecvCore_map hz cfg
          (zoomBook s i { a with avg := cfg.upd a.avg a.pulls r, pulls := a.pulls + 1 }
            (decide (s.time + 1 ≥ s.nextEnd)))
          i { a with avg := cfg.upd a.avg a.pulls r, pulls := a.pulls + 1 }
          (cfg.refine (if s.time + 1 ≥ s.nextEnd then s.phase + 1 else s.phase) (a.pulls + 1) nd.depth)
          (decide (nd.depth ≥ s.P.depth)) ds
        rw [← zoomBook_map] at key
        exact key

theorem zoom_init_map (hz : ZoomEquivariant g gd f) (cfg : ZoomCfg R S) (k : Kind) (domain : Box α)
    (ds : List (Draw α)) :
    Zooming.init (S := S) cfg k (g domain) (ds.map gd) =
      mapRes (zoomMap g f) (List.map gd) (Zooming.init cfg k domain ds) := by
  unfold Zooming.init
  simp only [bind, Except.bind, ← partMapBox_init g, deepen_map hz.box]
  cases Part.deepen (Part.init k domain ()) () ds with
  | error e => rfl
  | ok x =>
    obtain ⟨P1, ds'⟩ := x
    simp only [mapRes, partMapBox_layers]
    cases P1.layers[1]? with
    | none => rfl
    | some layer =>
      simp only [pure, Except.pure, zoomMap, List.map_map]
      congr 3
      apply List.map_congr_left
      intro c _
      exact newArm_map hz cfg P1 c

end zoom

/-- affine maps with positive factors commute with everything Zooming reads -/
theorem aff_zoomEquivariant {α : Type} [Field α] [LinearOrder α] [IsStrictOrderedRing α]
    (φ : Aff α) (h : φ.Pos) : ZoomEquivariant φ.box φ.draw φ.pt :=
  ⟨aff_boxEquivariant φ, aff_cpoint_box φ, pos_contains h, rfl⟩

end RL
end PyXAB
