/-
  DOO: the passes of one `pull` (ok-result spec of the instrumented loop).
-/
import PyXABProofs.Lemmas.SW_DOO

set_option linter.unusedSectionVars false

namespace PyXAB
namespace DOO
open Tree TBA SW

variable {α S : Type} [Add α] [Sub α] [Mul α] [Div α] [OfNat α 2] [NatCast α]
variable [LinearOrder S] [Inhabited S]

/-- payload-only update which keeps `visited` and `reward` -/
abbrev VRRel (P P' : Part α (SwSt S)) : Prop := PRel (fun _ a b => SameVR a.st b.st) P P'

theorem VRRel.of_scan {cfg : DOOCfg α S} {δ : S} {l : List Nat} {P P1 : Part α (SwSt S)}
    (h : PRel (BRef cfg δ l) P P1) : VRRel P P1 :=
  h.mono (fun _ _ _ _ hb => ⟨hb.1, hb.2.1⟩)

theorem VRRel.trans {P P' P'' : Part α (SwSt S)} (h1 : VRRel P P') (h2 : VRRel P' P'') :
    VRRel P P'' :=
  h1.trans' h2 (fun _ _ _ _ _ _ a b => SameVR.trans' _ _ _ a b)

theorem VRRel.ext {P P' : Part α (SwSt S)} (h : VRRel P P') (s0 : SwSt S) :
    Ext SameVR s0 P P' :=
  Ext.of_prel h (fun _ _ _ hb => hb)

theorem VRRel.bonly {P P' : Part α (SwSt S)} (h : VRRel P P') : BOnly P P' :=
  BOnly.of_prel h (fun _ _ _ hb => hb)

theorem VRRel.pinv {P P' : Part α (SwSt S)} (h : VRRel P P') {r0 : S} (hI : PInv r0 P) :
    PInv r0 P' :=
  hI.of_prel h (fun _ _ _ hb => ⟨fun hv => by rw [hb.1]; exact hv, fun _ => hb.2⟩)

theorem VRRel.unv {P P' : Part α (SwSt S)} (h : VRRel P P') (w : Nat) :
    unvisitedLeaf P' w = unvisitedLeaf P w :=
  unvisitedLeaf_prel h (fun _ _ _ hb => hb.1) w

theorem VRRel.low {P P' : Part α (SwSt S)} (h : VRRel P P') {k : Nat} (hl : LowVisited P k) :
    LowVisited P' k :=
  hl.prel h (fun _ _ _ hb => hb.1)

theorem VRRel.find {P P' : Part α (SwSt S)} (h : VRRel P P') (l : List Nat) :
    l.find? (unvisitedLeaf P') = l.find? (unvisitedLeaf P) := by
  congr 1; funext w; exact h.unv w

theorem node_of_firstUnvisited {P : Part α (SwSt S)} {v : Nat} (h : firstUnvisited P = some v) :
    ∃ nd, P.nodes[v]? = some nd ∧ nd.children = none ∧ nd.st.visited = false :=
  unvisitedLeaf_eq_true_iff.1 (List.find?_some h)

/-- there is an unevaluated leaf in a layer `≥ h` -/
def HasUnv (P : Part α (SwSt S)) (h : Nat) : Prop :=
  ∃ hq l w, h ≤ hq ∧ P.layers[hq]? = some l ∧ w ∈ l ∧ unvisitedLeaf P w = true

/-! ### A pass which meets an unevaluated leaf -/

theorem loopT_found (cfg : DOOCfg α S) : ∀ (fuel h : Nat) (maxv : S) (maxn : Option Nat)
    (P : Part α (SwSt S)) (ds : List (Draw α)) (P' : Part α (SwSt S)) (ds' : List (Draw α))
    (v : Nat) (tr : List (Ev α (SwSt S) S)),
    WF P → LowVisited P h → HasUnv P h →
    loopT cfg fuel h maxv maxn P ds = .ok (P', ds', v, tr) →
    tr = [] ∧ ds' = ds ∧ ∃ Pb, VRRel P Pb ∧ P' = mark Pb v ∧ firstUnvisited Pb = some v
  | 0, _, _, _, _, _, _, _, _, _, _, _, _, hrun => by simp [loopT] at hrun
  | fuel + 1, h, maxv, maxn, P, ds, P', ds', v, tr, W, hlow, hun, hrun => by
    unfold loopT at hrun
    split at hrun
    case isFalse => simp at hrun
    case isTrue hh =>
      cases hdl : cfg.delta P h with
      | error e => simp [hdl] at hrun
      | ok δ =>
        cases hlay : P.layers[h]? with
        | none => simp [hdl, hlay] at hrun
        | some l =>
          cases hsc : scan cfg δ l P maxv maxn with
          | mk P1 res =>
            have sp := scan_spec cfg δ l P maxv maxn P1 res hsc
            have hR : VRRel P P1 := VRRel.of_scan sp.rel
            have hlay1 : P1.layers[h]? = some l := by rw [hR.layers]; exact hlay
            simp only [hdl, hlay, hsc] at hrun
            cases hf : l.find? (unvisitedLeaf P) with
            | some id =>
              have := sp.found id hf
              subst this
              simp only [Except.ok.injEq, Prod.mk.injEq] at hrun
              obtain ⟨rfl, rfl, rfl, rfl⟩ := hrun
              exact ⟨rfl, rfl, P1, hR, rfl,
                firstUnvisited_of_layer (hR.low hlow) hlay1 (by rw [hR.find]; exact hf)⟩
            | none =>
              obtain ⟨hres, _⟩ := sp.best hf
              subst hres
              have hall : ∀ w ∈ l, unvisitedLeaf P w = false := by
                intro w hw
                simpa using List.find?_eq_none.1 hf w hw
              obtain ⟨hq, lq, w, q1, q2, q3, q4⟩ := hun
              have hne : hq ≠ h := by
                rintro rfl
                rw [hlay] at q2; cases q2
                rw [hall w q3] at q4; cases q4
              have hqd : hq ≤ P.depth := by
                have := lt_length_of_getElem? q2
                rw [W.layers_len] at this; omega
              have hnot : ¬ (h + 1 > P1.depth) := by rw [hR.depth]; omega
              simp only [hnot, if_false] at hrun
              obtain ⟨e1, e2, Pb, e3, e4, e5⟩ := loopT_found cfg fuel (h + 1) _ _ P1 ds P' ds' v tr
                (hR.wf W) (hR.low (hlow.succ hlay hall))
                ⟨hq, lq, w, by omega, by rw [hR.layers]; exact q2, q3, by rw [hR.unv]; exact q4⟩
                hrun
              exact ⟨e1, e2, Pb, hR.trans e3, e4, e5⟩

/-! ### The invariant of a pass -/

/-- Invariant of a pass at layer `h` with running maximum `(maxv, maxn)`. -/
structure PassInv (cfg : DOOCfg α S) (h : Nat) (maxv : S) (maxn : Option Nat)
    (P : Part α (SwSt S)) : Prop where
  low : LowVisited P h
  acc : amFold (leafScore P (·.b)) (P.layers.take h).flatten (cfg.negInf, none) = (maxv, maxn)
  deltas : ∀ h', h' < h → ∃ Ph δ, BOnly Ph P ∧ cfg.delta Ph h' = .ok δ ∧
    ∀ (w : Nat) (nd : Node α (SwSt S)), P.nodes[w]? = some nd → nd.children = none →
      nd.depth = h' → nd.st.b = cfg.bOf nd.st.reward δ

theorem PassInv.zero (cfg : DOOCfg α S) (P : Part α (SwSt S)) :
    PassInv cfg 0 cfg.negInf none P :=
  ⟨LowVisited.zero P, by simp, fun h' hh => absurd hh (by omega)⟩

theorem mem_take_flatten {L : List (List Nat)} {h w : Nat} (hw : w ∈ (L.take h).flatten) :
    ∃ h' l', h' < h ∧ L[h']? = some l' ∧ w ∈ l' := by
  obtain ⟨l', h1, h2⟩ := List.mem_flatten.1 hw
  obtain ⟨i, hi, e⟩ := List.getElem_of_mem h1
  have hi' : i < h ∧ i < L.length := by
    simp only [List.length_take] at hi; omega
  refine ⟨i, l', hi'.1, ?_, h2⟩
  rw [← e, List.getElem_take, List.getElem?_eq_getElem hi'.2]

theorem PassInv.next {cfg : DOOCfg α S} {h : Nat} {maxv : S} {maxn : Option Nat}
    {P P1 : Part α (SwSt S)} {δ : S} {l : List Nat} {res : Scan S} (W : WF P)
    (hp : PassInv cfg h maxv maxn P) (hd : cfg.delta P h = .ok δ)
    (hl : P.layers[h]? = some l) (sp : ScanPost cfg δ l P maxv maxn P1 res)
    (hf : l.find? (unvisitedLeaf P) = none) :
    ∃ maxv' maxn', res = .best maxv' maxn' ∧ PassInv cfg (h + 1) maxv' maxn' P1 := by
  obtain ⟨hres, href⟩ := sp.best hf
  have hR : VRRel P P1 := VRRel.of_scan sp.rel
  have hall : ∀ w ∈ l, unvisitedLeaf P w = false := by
    intro w hw
    simpa using List.find?_eq_none.1 hf w hw
  -- cells of other layers are untouched
  have hkeep : ∀ (w : Nat) (nd nd1 : Node α (SwSt S)), P.nodes[w]? = some nd →
      P1.nodes[w]? = some nd1 → nd.depth ≠ h → nd1.st = nd.st := by
    intro w nd nd1 h1 h2 hne
    obtain ⟨x, a1, _, a3⟩ := sp.rel.node w nd h1
    obtain rfl := getElem?_inj a1 h2
    rcases a3.2.2 with e | ⟨e, _⟩
    · exact e
    · obtain ⟨y, b1, b2⟩ := WF_node_of_mem_layer W hl e
      obtain rfl := getElem?_inj h1 b1
      exact absurd b2 hne
  refine ⟨_, _, hres, hR.low (hp.low.succ hl hall), ?_, ?_⟩
  · -- the running maximum
    have htake : P1.layers.take (h + 1) = P.layers.take h ++ [l] := by
      rw [hR.layers, List.take_add_one, hl]; rfl
    rw [htake, List.flatten_append, amFold_append]
    have e1 : amFold (leafScore P1 (·.b)) (P.layers.take h).flatten (cfg.negInf, none) =
        (maxv, maxn) := by
      rw [← hp.acc]
      apply amFold_congr
      intro w hw
      obtain ⟨h', l', q1, q2, q3⟩ := mem_take_flatten hw
      obtain ⟨nd, n1, n2⟩ := WF_node_of_mem_layer W q2 q3
      obtain ⟨nd1, m1, m2, _⟩ := sp.rel.node w nd n1
      have := hkeep w nd nd1 n1 m1 (by omega)
      simp [leafScore, n1, m1, m2.children, this]
    rw [e1]
    simp only [List.flatten_cons, List.flatten_nil, List.append_nil]
    apply amFold_congr
    intro w hw
    unfold leafScore
    cases h0 : P.nodes[w]? with
    | none =>
      have : P1.nodes[w]? = none := by
        rw [List.getElem?_eq_none_iff] at h0 ⊢; rw [hR.len]; exact h0
      simp [this]
    | some nd =>
      obtain ⟨nd1, m1, m2, _⟩ := sp.rel.node w nd h0
      cases hc : nd.children with
      | some cs => simp [m1, m2.children, hc]
      | none =>
        obtain ⟨nd1', m1', m3⟩ := href w hw nd h0 hc
        obtain rfl := getElem?_inj m1 m1'
        simp [m1, m2.children, hc, m3]
  · intro h' hh'
    by_cases hlt : h' < h
    · obtain ⟨Ph, δ', a1, a2, a3⟩ := hp.deltas h' hlt
      refine ⟨Ph, δ', a1.trans hR.bonly, a2, ?_⟩
      intro w nd1 m1 mc md
      obtain ⟨nd, n1, n2, _⟩ := hR.bwd m1
      have := hkeep w nd nd1 n1 m1 (by rw [← n2.depth]; omega)
      rw [this]
      exact a3 w nd n1 (by rw [← n2.children]; exact mc) (by rw [← n2.depth]; exact md)
    · obtain rfl : h' = h := by omega
      refine ⟨P, δ, hR.bonly, hd, ?_⟩
      intro w nd1 m1 mc md
      obtain ⟨nd, n1, n2, n3⟩ := hR.bwd m1
      have hw : w ∈ l := ((W.layers_mem _ l hl).2.2 w).2 ⟨nd, n1, by rw [← n2.depth]; exact md⟩
      obtain ⟨nd1', m1', m3⟩ := href w hw nd n1 (by rw [← n2.children]; exact mc)
      obtain rfl := getElem?_inj m1 m1'
      rw [m3, n3.2]

/-! ### The ok-result spec of a `pull` -/

/-- What a successful `pull` of DOO guarantees (`Pb` = the tree before the handed-out cell `v`
is marked, `tr` = the expansion events). -/
structure LoopPost (cfg : DOOCfg α S) (P : Part α (SwSt S)) (ds : List (Draw α))
    (P' : Part α (SwSt S)) (ds' : List (Draw α)) (v : Nat) (tr : List (Ev α (SwSt S) S))
    (Pb : Part α (SwSt S)) : Prop where
  ext : Ext SameVR (st0 cfg) P Pb
  pinv : PInv cfg.reward0 Pb
  len : tr.length ≤ ds.length
  le1 : tr.length ≤ 1
  drop : ds' = ds.drop tr.length
  evs : ∀ ev ∈ tr, EvOK cfg ev ∧ Ext SameVR (st0 cfg) P ev.before
  marked : P' = mark Pb v
  first : firstUnvisited Pb = some v
  node : ∃ nd, Pb.nodes[v]? = some nd ∧ nd.children = none ∧ nd.st.visited = false

theorem extVR_trans {s0 : SwSt S} {P P' P'' : Part α (SwSt S)} (h1 : Ext SameVR s0 P P')
    (h2 : Ext SameVR s0 P' P'') : Ext SameVR s0 P P'' :=
  Ext.trans SameVR.trans' h1 h2

theorem loopT_spec (cfg : DOOCfg α S) (hbot : ∀ x, cfg.negInf ≤ x) :
    ∀ (fuel h : Nat) (maxv : S) (maxn : Option Nat)
      (P : Part α (SwSt S)) (ds : List (Draw α)) (P' : Part α (SwSt S)) (ds' : List (Draw α))
      (v : Nat) (tr : List (Ev α (SwSt S) S)),
      PInv cfg.reward0 P → PassInv cfg h maxv maxn P →
      (∀ d ∈ ds, DrawOKLen P.kind (dimn P) d) →
      loopT cfg fuel h maxv maxn P ds = .ok (P', ds', v, tr) →
      ∃ Pb, LoopPost cfg P ds P' ds' v tr Pb
  | 0, _, _, _, _, _, _, _, _, _, _, _, _, hrun => by simp [loopT] at hrun
  | fuel + 1, h, maxv, maxn, P, ds, P', ds', v, tr, hI, hpass, hds, hrun => by
    unfold loopT at hrun
    split at hrun
    case isFalse => simp at hrun
    case isTrue hh =>
      cases hdl : cfg.delta P h with
      | error e => simp [hdl] at hrun
      | ok δ =>
        cases hlay : P.layers[h]? with
        | none => simp [hdl, hlay] at hrun
        | some l =>
          cases hsc : scan cfg δ l P maxv maxn with
          | mk P1 res =>
            have sp := scan_spec cfg δ l P maxv maxn P1 res hsc
            have hR : VRRel P P1 := VRRel.of_scan sp.rel
            have hlay1 : P1.layers[h]? = some l := by rw [hR.layers]; exact hlay
            have hI1 : PInv cfg.reward0 P1 := hR.pinv hI
            simp only [hdl, hlay, hsc] at hrun
            cases hf : l.find? (unvisitedLeaf P) with
            | some id =>
              have := sp.found id hf
              subst this
              simp only [Except.ok.injEq, Prod.mk.injEq] at hrun
              obtain ⟨rfl, rfl, rfl, rfl⟩ := hrun
              have hfirst : firstUnvisited P1 = some id :=
                firstUnvisited_of_layer (hR.low hpass.low) hlay1 (by rw [hR.find]; exact hf)
              exact ⟨P1, hR.ext _, hI1, Nat.zero_le _, Nat.zero_le _, rfl, by simp, rfl, hfirst,
                node_of_firstUnvisited hfirst⟩
            | none =>
              obtain ⟨maxv', maxn', hres, hpass1⟩ := hpass.next hI.wf hdl hlay sp hf
              subst hres
              simp only at hrun
              split at hrun
              case isFalse hnot =>
                obtain ⟨Pb, hp⟩ := loopT_spec cfg hbot fuel (h + 1) maxv' maxn' P1 ds P' ds' v tr
                  hI1 hpass1 (by rw [hR.kind, hR.dimn_eq]; exact hds) hrun
                exact ⟨Pb, extVR_trans (hR.ext _) hp.ext, hp.pinv, hp.len, hp.le1, hp.drop,
                  fun ev hev => ⟨(hp.evs ev hev).1, extVR_trans (hR.ext _) (hp.evs ev hev).2⟩,
                  hp.marked, hp.first, hp.node⟩
              case isTrue hlast =>
                cases maxn' with
                | none => simp at hrun
                | some m =>
                  simp only at hrun
                  cases hm : P1.nodes[m]? with
                  | none => simp [hm] at hrun
                  | some nd =>
                    simp only [hm] at hrun
                    cases hmk : P1.makeChildrenD (st0 cfg) m (decide (nd.depth ≥ P1.depth)) ds with
                    | error e => simp [hmk] at hrun
                    | ok r2 =>
                      obtain ⟨P2, ds1⟩ := r2
                      simp only [hmk] at hrun
                      cases hrec : loopT cfg fuel 0 maxv' (some m) P2 ds1 with
                      | error e => simp [hrec] at hrun
                      | ok r3 =>
                        obtain ⟨P3, ds2, id, tr2⟩ := r3
                        simp only [hrec, Except.ok.injEq, Prod.mk.injEq] at hrun
                        obtain ⟨rfl, rfl, rfl, rfl⟩ := hrun
                        -- the running maximum is the last maximum over all leaves
                        have hlen : P1.layers.length ≤ h + 1 := by
                          rw [hI1.wf.layers_len]; omega
                        have hacc := hpass1.acc
                        rw [List.take_of_length_le hlen] at hacc
                        have hbest : IsLastMax (leafScore P1 (·.b)) P1.layers.flatten m maxv' := by
                          rcases amFold_bot (leafScore P1 (·.b)) P1.layers.flatten cfg.negInf hbot
                            with ⟨e1, _⟩ | ⟨m', x', e1, e2⟩
                          · rw [e1] at hacc; simp at hacc
                          · rw [e1] at hacc
                            simp only [Prod.mk.injEq, Option.some.injEq] at hacc
                            obtain ⟨rfl, rfl⟩ := hacc
                            exact e2
                        obtain ⟨nd', hm', hleaf, hb⟩ := leafScore_eq_some_iff.1 hbest.score
                        obtain rfl := getElem?_inj hm hm'
                        have hlowAll : LowVisited P1 (P1.depth + 1) :=
                          hpass1.low.mono (by omega)
                        have hvis : nd.st.visited = true := by
                          obtain ⟨lm, q1, q2⟩ := WF_mem_layer hI1.wf hm
                          have := hlowAll nd.depth lm m
                            (by have := hI1.wf.depth_le m nd hm; omega) q1 q2
                          exact unvisitedLeaf_eq_false_iff.1 this nd hm hleaf
                        obtain ⟨⟨d, rfl⟩, St, W2, hK⟩ := expand_ok hI1.wf hm hleaf rfl
                          (by rw [hR.kind, hR.dimn_eq]; exact hds) hmk
                        have hE12 : Ext SameVR (st0 cfg) P1 P2 :=
                          Ext.of_step SameVR.rfl' St hI1.wf hm hleaf
                        have hI2 : PInv cfg.reward0 P2 :=
                          hI1.step St hm hleaf hvis (fun _ => rfl) hK
                        -- the second pass meets a new child
                        obtain ⟨l2, q1, q2, _⟩ := Step_new_layer St hI1.wf hK
                        obtain ⟨cn, c1, _, _, _, c5, _, c7⟩ := St.new 0 (by omega)
                        have hun : unvisitedLeaf P2 P1.nodes.length = true := by
                          rw [unvisitedLeaf_eq_true_iff]
                          exact ⟨cn, by simpa using c1, c5, by rw [c7]; rfl⟩
                        obtain ⟨e1, e2, Pb, e3, e4, e5⟩ := loopT_found cfg fuel 0 _ _ P2 ds1 P3 ds2
                          id tr2 W2 (LowVisited.zero P2)
                          ⟨nd.depth + 1, l2, _, Nat.zero_le _, q1, q2, hun⟩ hrec
                        subst e1 e2
                        have hE : Ext SameVR (st0 cfg) P Pb :=
                          extVR_trans (hR.ext _) (extVR_trans hE12 (e3.ext _))
                        refine ⟨Pb, hE, e3.pinv hI2, by simp, by simp, by simp, ?_, e4, e5,
                          node_of_firstUnvisited e5⟩
                        intro ev hev
                        obtain rfl : ev = ⟨nd.depth, m, maxv', P1⟩ := by simpa using hev
                        exact ⟨⟨hI1, hlowAll, hbest,
                          fun h' hh' => hpass1.deltas h' (by have : h' ≤ P1.depth := hh'; omega),
                          ⟨nd, hm, hleaf, hvis, hb, rfl⟩⟩, hR.ext _⟩

end DOO
end PyXAB
