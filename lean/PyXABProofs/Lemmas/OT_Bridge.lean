/-
  Order-type tie, bridge: the rule `OT.amaxArm` (Zooming's arm choice, the model's `Zooming.argmaxArm` on plain
  values) is exactly the "last maximal element" predicate `SW.IsLastMax` the sweep-algorithm theorems are stated with.
-/
import PyXABProofs.Spec.OrderType
import PyXABProofs.Spec.SweepSpec
import Mathlib.Data.List.Induction

namespace PyXAB.OT
open PyXAB

section
variable {S : Type} [LinearOrder S]

/-- the loop body of `Zooming.argmaxArm` on plain values -/
def armStep (acc : Nat × S × Option Nat) (y : S) : Nat × S × Option Nat :=
  if acc.2.1 ≤ y then (acc.1 + 1, y, some acc.1) else (acc.1 + 1, acc.2.1, acc.2.2)

theorem amaxArm_cons (bot : S) (xs : List S) :
    amaxArm (bot :: xs) = (xs.foldl armStep (0, bot, none)).2.2.toList := by
  unfold amaxArm
  simp only [Zooming.argmaxArm, List.foldl_map]
  rfl

theorem amaxArm_bot (bot : S) : amaxArm (bot :: []) = [] := rfl

/-- what the loop has established after the values `xs` -/
structure ArmInv (bot : S) (xs : List S) (r : Nat × S × Option Nat) : Prop where
  cnt : r.1 = xs.length
  ub : ∀ x ∈ xs, x ≤ r.2.1
  nil : xs = [] → r.2.1 = bot ∧ r.2.2 = none
  cons : xs ≠ [] → ∃ i, r.2.2 = some i ∧ xs[i]? = some r.2.1 ∧
    ∀ j z, xs[j]? = some z → i < j → z < r.2.1

theorem armInv (bot : S) (xs : List S) (hbot : ∀ x ∈ xs, bot ≤ x) :
    ArmInv bot xs (xs.foldl armStep (0, bot, none)) := by
  induction xs using List.reverseRecOn with
  | nil => exact ⟨rfl, by simp, fun _ => ⟨rfl, rfl⟩, fun h => absurd rfl h⟩
  | append_singleton pre y ih =>
    have ih := ih (fun x hx => hbot x (by simp [hx]))
    rw [List.foldl_append, List.foldl_cons, List.foldl_nil]
    generalize pre.foldl armStep (0, bot, none) = r at ih
    obtain ⟨n, mx, bi⟩ := r
    obtain ⟨cnt, ub, hnil, hcons⟩ := ih
    simp only at cnt ub hnil hcons
    subst cnt
    unfold armStep
    simp only
    by_cases hle : mx ≤ y
    · rw [if_pos hle]
      refine ⟨by simp, ?_, by simp, fun _ => ⟨pre.length, rfl, by simp, ?_⟩⟩
      · intro x hx
        rcases List.mem_append.mp hx with hx | hx
        · exact le_trans (ub x hx) hle
        · simp at hx; simp [hx]
      · intro j z hj hlt
        have : (pre ++ [y]).length ≤ j := by simp; omega
        rw [List.getElem?_eq_none this] at hj
        simp at hj
    · rw [if_neg hle]
      have hlt : y < mx := not_le.mp hle
      have hne : pre ≠ [] := by
        intro h
        rw [(hnil h).1] at hle
        exact hle (hbot y (by simp))
      obtain ⟨i, hbi, hi, hafter⟩ := hcons hne
      have hil : i < pre.length := by
        by_contra hc
        rw [List.getElem?_eq_none (by omega)] at hi
        simp at hi
      refine ⟨by simp, ?_, by simp, fun _ => ⟨i, hbi, ?_, ?_⟩⟩
      · intro x hx
        rcases List.mem_append.mp hx with hx | hx
        · exact ub x hx
        · simp at hx; simp [hx, le_of_lt hlt]
      · simp only
        rw [List.getElem?_append_left hil]; exact hi
      · intro j z hj hij
        simp only
        by_cases hjl : j < pre.length
        · rw [List.getElem?_append_left hjl] at hj
          exact hafter j z hj hij
        · rw [List.getElem?_append_right (by omega)] at hj
          have : j - pre.length = 0 := by
            by_contra hc
            rw [List.getElem?_eq_none (by simp; omega)] at hj
            simp at hj
          rw [this] at hj
          simp at hj
          rw [← hj]; exact hlt

/-- `amaxArm` returns the position of the last maximal value: everything before it is `≤`, everything after it
is strictly `<` -/
theorem amaxArm_spec (bot : S) (xs : List S) (hbot : ∀ x ∈ xs, bot ≤ x) (hne : xs ≠ []) :
    ∃ i, amaxArm (bot :: xs) = [i] ∧ ∃ h : i < xs.length,
      (∀ j (hj : j < xs.length), j < i → xs[j] ≤ xs[i]) ∧ (∀ j (hj : j < xs.length), i < j → xs[j] < xs[i]) := by
  have inv := armInv bot xs hbot
  obtain ⟨i, hbi, hi, hafter⟩ := inv.cons hne
  have hil : i < xs.length := by
    by_contra hc
    rw [List.getElem?_eq_none (by omega)] at hi
    simp at hi
  have hxi : xs[i] = (xs.foldl armStep (0, bot, none)).2.1 := by
    rw [List.getElem?_eq_getElem hil] at hi
    exact Option.some.inj hi
  refine ⟨i, by rw [amaxArm_cons, hbi]; rfl, hil, ?_, ?_⟩
  · intro j hj _
    rw [hxi]; exact inv.ub _ (List.getElem_mem hj)
  · intro j hj hij
    rw [hxi]; exact hafter j xs[j] (List.getElem?_eq_getElem hj) hij

end

/-! ## the bridge to `SW.IsLastMax` -/

section bridge
variable {S : Type} [LinearOrder S]
open PyXAB.SW

/-- what `amaxArm` returns on the scores of the candidates `l` is a last maximum in the sense of the sweep
theorems -/
theorem amaxArm_isLastMax (bot : S) (f : Nat → Option S) (l : List Nat)
    (hdef : ∀ w ∈ l, ∃ y, f w = some y) (hbot : ∀ w ∈ l, ∀ y, f w = some y → bot ≤ y) (i : Nat)
    (h : amaxArm (bot :: l.map (fun w => (f w).getD bot)) = [i]) :
    ∃ m x, l[i]? = some m ∧ IsLastMax f l m x := by
  have hne : l ≠ [] := by
    rintro rfl
    simp [amaxArm_bot] at h
  have hbot' : ∀ x ∈ l.map (fun w => (f w).getD bot), bot ≤ x := by
    intro x hx
    obtain ⟨w, hw, rfl⟩ := List.mem_map.mp hx
    obtain ⟨y, hy⟩ := hdef w hw
    simpa [hy] using hbot w hw y hy
  obtain ⟨i', hi', hil, hbefore, hafter⟩ := amaxArm_spec bot _ hbot' (by simpa using hne)
  rw [hi'] at h
  obtain rfl : i' = i := by simpa using h
  rw [List.length_map] at hil
  obtain ⟨x, hx⟩ := hdef l[i'] (List.getElem_mem hil)
  refine ⟨l[i'], x, List.getElem?_eq_getElem hil, l.take i', l.drop (i' + 1), ?_, hx, ?_, ?_⟩
  · rw [List.getElem_cons_drop, List.take_append_drop]
  · intro w hw y hy
    obtain ⟨j, hj, rfl⟩ := List.mem_take_iff_getElem.mp hw
    have := hbefore j (by simp; omega) (by omega)
    simpa [hy, hx] using this
  · intro w hw y hy
    obtain ⟨j, hj, rfl⟩ := List.mem_drop_iff_getElem.mp hw
    have := hafter (i' + 1 + j) (by simp; omega) (by omega)
    simpa [hy, hx] using this

/-- conversely, a last maximum in the sense of the sweep theorems is what `amaxArm` returns (no `Nodup` needed:
`IsLastMax` fixes the position, not only the element) -/
theorem isLastMax_amaxArm (bot : S) (f : Nat → Option S) (l : List Nat)
    (hdef : ∀ w ∈ l, ∃ y, f w = some y) (hbot : ∀ w ∈ l, ∀ y, f w = some y → bot ≤ y) (m : Nat) (x : S)
    (h : IsLastMax f l m x) :
    ∃ i, l[i]? = some m ∧ amaxArm (bot :: l.map (fun w => (f w).getD bot)) = [i] := by
  obtain ⟨pre, post, rfl, hfm, hpre, hpost⟩ := h
  have hbot' : ∀ x ∈ (pre ++ m :: post).map (fun w => (f w).getD bot), bot ≤ x := by
    intro x hx
    obtain ⟨w, hw, rfl⟩ := List.mem_map.mp hx
    obtain ⟨y, hy⟩ := hdef w hw
    simpa [hy] using hbot w hw y hy
  obtain ⟨i, hi, hil, hbefore, hafter⟩ := amaxArm_spec bot _ hbot' (by simp)
  rw [List.length_map] at hil
  have hm : (pre ++ m :: post)[pre.length] = m := by simp
  obtain ⟨y, hy⟩ := hdef _ (List.getElem_mem hil)
  have key : i = pre.length := by
    rcases Nat.lt_trichotomy i pre.length with hlt | heq | hgt
    · exfalso
      have h1 := hafter pre.length (by simp) hlt
      simp only [List.getElem_map, hm, hfm, hy, Option.getD_some] at h1
      have hmem : (pre ++ m :: post)[i] ∈ pre := by
        rw [List.getElem_append_left hlt]; exact List.getElem_mem hlt
      exact absurd (hpre _ hmem y hy) (not_le.mpr h1)
    · exact heq
    · exfalso
      have h1 := hbefore pre.length (by simp) hgt
      simp only [List.getElem_map, hm, hfm, hy, Option.getD_some] at h1
      have hmem : (pre ++ m :: post)[i] ∈ post := by
        rw [List.getElem_append_right (by omega)]
        obtain ⟨k, hk⟩ : ∃ k, i - pre.length = k + 1 := ⟨i - pre.length - 1, by omega⟩
        simp only [hk, List.getElem_cons_succ]
        exact List.getElem_mem _
      exact absurd (hpost _ hmem y hy) (not_lt.mpr h1)
  subst key
  exact ⟨pre.length, by simp, hi⟩

end bridge

end PyXAB.OT
