/-
  StroquOOL: the frame relation `Ext`, payload-only updates (`Quiet`), the scan of a layer,
  and one expansion (`expandAt`).
-/
import PyXABProofs.Lemmas.SK_Last

set_option linter.unusedSectionVars false

namespace PyXAB
namespace SK
open Tree TBA StroquOOL

variable {α R S : Type}

/-! ### `Expd`, `Ext` -/

theorem Expd.lt {σ : Type} {P : Part α σ} {m : Nat} (h : Expd P m) : m < P.nodes.length := by
  obtain ⟨nd, _, h1, _⟩ := h
  exact lt_length_of_getElem? h1

theorem Expd.not_leaf {σ : Type} {P : Part α σ} {m : Nat} (h : Expd P m) :
    P.isLeaf m = false := by
  obtain ⟨nd, cs, h1, h2⟩ := h
  simp [Part.isLeaf, h1, h2]

theorem expd_of_not_leaf {σ : Type} {P : Part α σ} {m : Nat} {nd : Node α σ}
    (h1 : P.nodes[m]? = some nd) (h : P.isLeaf m = false) : Expd P m := by
  cases hc : nd.children with
  | none => simp [Part.isLeaf, h1, hc] at h
  | some cs => exact ⟨nd, cs, h1, hc⟩

namespace Ext
variable {P P' P'' : Part α (SkSt R S)}

theorem rfl' (P : Part α (SkSt R S)) : Ext P P :=
  ⟨rfl, rfl, Nat.le_refl _, fun _ nd h => ⟨nd, h, rfl, rfl⟩,
    fun i _ h1 h2 => absurd (lt_length_of_getElem? h2) (by omega), fun _ h => h⟩

theorem trans (h1 : Ext P P') (h2 : Ext P' P'') : Ext P P'' where
  kind := h2.kind.trans h1.kind
  dimn := h2.dimn.trans h1.dimn
  len := Nat.le_trans h1.len h2.len
  old := by
    intro i nd hi
    obtain ⟨x, a1, a2, a3⟩ := h1.old i nd hi
    obtain ⟨y, b1, b2, b3⟩ := h2.old i x a1
    exact ⟨y, b1, b2.trans a2, b3.trans a3⟩
  new := by
    intro i nd'' hi hnd
    by_cases hlt : i < P'.nodes.length
    · obtain ⟨y, b1, b2, b3⟩ := h2.old i _ (List.getElem?_eq_getElem hlt)
      obtain rfl := getElem?_inj b1 hnd
      obtain ⟨c1, c2⟩ := h1.new i _ hi (List.getElem?_eq_getElem hlt)
      exact ⟨b2.trans c1, b3.trans c2⟩
    · exact h2.new i nd'' (by omega) hnd
  exp := fun m h => h2.exp m (h1.exp m h)

theorem drawsOK (h : Ext P P') {ds : List (Draw α)} (hd : DrawsOK P ds) : DrawsOK P' ds := by
  intro d hdm
  rw [h.kind, h.dimn]
  exact hd d hdm

theorem K_eq (h : Ext P P') : K P' = K P := by
  simp only [K, h.dimn, h.kind]

end Ext

/-! ### payload-only updates -/

/-- payload-only update keeping `visited` and `rewards` -/
def Quiet (P P' : Part α (SkSt R S)) : Prop :=
  PRel (fun _ nd nd' => nd'.st.visited = nd.st.visited ∧ nd'.st.rewards = nd.st.rewards) P P'

theorem prel_expd {σ : Type} {ρ : Nat → Node α σ → Node α σ → Prop} {P P' : Part α σ}
    (h : PRel ρ P P') {m : Nat} (hm : Expd P m) : Expd P' m := by
  obtain ⟨nd, cs, h1, h2⟩ := hm
  obtain ⟨nd', a1, a2, _⟩ := h.node m nd h1
  exact ⟨nd', cs, a1, a2.children.trans h2⟩

namespace Quiet
variable {P P' P'' : Part α (SkSt R S)}

theorem refl (P : Part α (SkSt R S)) : Quiet P P := PRel.refl (fun _ _ => ⟨rfl, rfl⟩) P

theorem trans (h1 : Quiet P P') (h2 : Quiet P' P'') : Quiet P P'' :=
  PRel.trans' h1 h2 (fun _ _ _ _ _ _ a b => ⟨b.1.trans a.1, b.2.trans a.2⟩)

theorem ext (h : Quiet P P') : Ext P P' where
  kind := h.kind
  dimn := h.dimn_eq
  len := Nat.le_of_eq h.len.symm
  old := by
    intro i nd hi
    obtain ⟨nd', a1, _, a3⟩ := h.node i nd hi
    exact ⟨nd', a1, a3.1, a3.2⟩
  new := by
    intro i nd' hi hnd
    have := lt_length_of_getElem? hnd
    rw [h.len] at this
    omega
  exp := fun _ hm => prel_expd h hm

theorem modifySt (P : Part α (SkSt R S)) (i : Nat) (f : SkSt R S → SkSt R S)
    (hv : ∀ st, (f st).visited = st.visited) (hr : ∀ st, (f st).rewards = st.rewards) :
    Quiet P (P.modifySt i f) :=
  (PRel_modifySt P i f).mono (fun j a b _ hb => by
    rw [hb]
    by_cases h : j = i <;> simp [h, hv, hr])

end Quiet

section model
variable [LE S] [DecidableLE S]

theorem quiet_refreshP (cfg : SkCfg R S) (P : Part α (SkSt R S)) (cands : List (Option Nat)) :
    Quiet P (refreshP cfg P cands) where
  kind := rfl
  layers := rfl
  depth := rfl
  len := by simp
  node := by
    intro j nd hj
    refine ⟨_, by rw [getElem?_refreshP, hj]; rfl, ?_, ?_⟩
    · by_cases h : some j ∈ cands <;> simp only [h, if_true, if_false] <;>
        exact ⟨rfl, rfl, rfl, rfl, rfl⟩
    · by_cases h : some j ∈ cands <;>
        simp [h, compMean_visited, compMean_rewards]

/-- `clearP` is a payload-only update which keeps `visited` -/
theorem prel_clearP (P : Part α (SkSt R S)) (cands : List (Option Nat)) :
    PRel (fun j nd nd' => nd'.st.visited = nd.st.visited ∧
      nd'.st.rewards = if some j ∈ cands then [] else nd.st.rewards) P (clearP P cands) where
  kind := rfl
  layers := rfl
  depth := rfl
  len := by simp
  node := by
    intro j nd hj
    refine ⟨_, by rw [getElem?_clearP, hj]; rfl, ?_, ?_⟩
    · by_cases h : some j ∈ cands <;> simp only [h, if_true, if_false] <;>
        exact ⟨rfl, rfl, rfl, rfl, rfl⟩
    · by_cases h : some j ∈ cands <;> simp [h]

/-! ### `scanLayer` -/

theorem modifySt_const {P : Part α (SkSt R S)} {id : Nat} {nd : Node α (SkSt R S)}
    (hnd : P.nodes[id]? = some nd) (f : SkSt R S → SkSt R S) :
    P.modifySt id (fun _ => f nd.st) = P.modifySt id f := by
  refine part_ext rfl rfl rfl ?_
  intro j
  rw [getElem?_modifySt, getElem?_modifySt]
  cases hj : P.nodes[j]? with
  | none => rfl
  | some x =>
    by_cases h : id = j
    · subst h
      obtain rfl := getElem?_inj hnd hj
      simp
    · simp [h]

theorem scanLayer_spec (cfg : SkCfg R S) (thr : Nat) : ∀ (l : List Nat) (P : Part α (SkSt R S))
    (best : S) (mx : Option Nat),
    Quiet P (scanLayer cfg thr l P best mx).1 ∧
      ((scanLayer cfg thr l P best mx).2 = mx ∨
        ∃ m ∈ l, (scanLayer cfg thr l P best mx).2 = some m ∧ m < P.nodes.length)
  | [], P, best, mx => ⟨Quiet.refl P, Or.inl rfl⟩
  | id :: rest, P, best, mx => by
    cases hnd : P.nodes[id]? with
    | none =>
      have e : scanLayer cfg thr (id :: rest) P best mx = scanLayer cfg thr rest P best mx := by
        simp only [scanLayer, hnd]
      rw [e]
      obtain ⟨h1, h2⟩ := scanLayer_spec cfg thr rest P best mx
      refine ⟨h1, h2.imp (fun x => x) ?_⟩
      rintro ⟨m, a, b⟩
      exact ⟨m, List.mem_cons_of_mem _ a, b⟩
    | some nd =>
      have hid : id < P.nodes.length := lt_length_of_getElem? hnd
      by_cases hc : (!nd.st.opened && decide (nd.st.visited ≥ thr)) = true
      · have hq : Quiet P (P.modifySt id (fun _ => compMean cfg nd.st)) := by
          rw [modifySt_const hnd]
          exact Quiet.modifySt P id _ (compMean_visited cfg) (compMean_rewards cfg)
        have hlen : (P.modifySt id (fun _ => compMean cfg nd.st)).nodes.length = P.nodes.length :=
          hq.len
        by_cases hb : best ≤ (compMean cfg nd.st).mean
        · have e : scanLayer cfg thr (id :: rest) P best mx =
              scanLayer cfg thr rest (P.modifySt id (fun _ => compMean cfg nd.st))
                (compMean cfg nd.st).mean (some id) := by
            simp only [scanLayer, hnd, hc, hb, if_true]
          rw [e]
          obtain ⟨h1, h2⟩ := scanLayer_spec cfg thr rest
            (P.modifySt id (fun _ => compMean cfg nd.st)) (compMean cfg nd.st).mean (some id)
          refine ⟨hq.trans h1, Or.inr ?_⟩
          rcases h2 with h2 | ⟨m, a, b, c⟩
          · exact ⟨id, List.mem_cons_self .., h2, hid⟩
          · exact ⟨m, List.mem_cons_of_mem _ a, b, by rw [← hlen]; exact c⟩
        · have e : scanLayer cfg thr (id :: rest) P best mx =
              scanLayer cfg thr rest (P.modifySt id (fun _ => compMean cfg nd.st)) best mx := by
            simp only [scanLayer, hnd, hc, hb, if_true, if_false]
          rw [e]
          obtain ⟨h1, h2⟩ := scanLayer_spec cfg thr rest
            (P.modifySt id (fun _ => compMean cfg nd.st)) best mx
          refine ⟨hq.trans h1, h2.imp (fun x => x) ?_⟩
          rintro ⟨m, a, b, c⟩
          exact ⟨m, List.mem_cons_of_mem _ a, b, by rw [← hlen]; exact c⟩
      · have e : scanLayer cfg thr (id :: rest) P best mx = scanLayer cfg thr rest P best mx := by
          simp only [scanLayer, hnd, hc]
          rfl
        rw [e]
        obtain ⟨h1, h2⟩ := scanLayer_spec cfg thr rest P best mx
        refine ⟨h1, h2.imp (fun x => x) ?_⟩
        rintro ⟨m, a, b⟩
        exact ⟨m, List.mem_cons_of_mem _ a, b⟩

end model

/-! ### one expansion -/

section blocks
variable [Add α] [Sub α] [Mul α] [Div α] [OfNat α 2] [NatCast α]
variable [LE S] [DecidableLE S] [Inhabited S] [Inhabited R]

theorem step_ext {P P' : Part α (SkSt R S)} {s0 : SkSt R S} {p : Nat} {nd : Node α (SkSt R S)}
    (St : Step P P' s0 p nd) (W : WF P) (hp : P.nodes[p]? = some nd)
    (h0 : s0.visited = 0 ∧ s0.rewards = []) : Ext P P' where
  kind := St.kind_eq
  dimn := St.dimn_eq W hp
  len := by rw [St.len]; omega
  old := by
    intro i x hx
    obtain ⟨x', a1, _, _, _, _, a6, _⟩ := St.pres hp hx
    exact ⟨x', a1, by rw [a6], by rw [a6]⟩
  new := by
    intro i x' hi hx
    rcases St.inv hp hx with ⟨x, a1, _⟩ | ⟨j, _, _, _, _, _, _, _, a⟩
    · have := lt_length_of_getElem? a1; omega
    · rw [a]; exact h0
  exp := by
    rintro m ⟨x, cs, a1, a2⟩
    obtain ⟨x', b1, _, _, _, _, _, b7, b8⟩ := St.pres hp a1
    by_cases hm : m = p
    · exact ⟨x', _, b1, b8 hm⟩
    · exact ⟨x', cs, b1, (b7 hm).trans a2⟩

theorem twoKids_of {P : Part α (SkSt R S)} {m : Nat} {nd : Node α (SkSt R S)} {a : Nat}
    (h : P.nodes[m]? = some nd) (hc : nd.children = some (List.range' a 2)) :
    twoKids P m = .ok (a, a + 1) := by
  simp [twoKids, h, hc, List.range']

/-- under `WF` with arity 2, `twoKids` returns two valid non-root ids -/
theorem twoKids_valid {P : Part α (SkSt R S)} (W : WF P) (hK : K P = 2) {m a b : Nat}
    (h : twoKids P m = .ok (a, b)) :
    Expd P m ∧ 1 ≤ a ∧ a < P.nodes.length ∧ 1 ≤ b ∧ b < P.nodes.length := by
  unfold twoKids at h
  cases hnd : P.nodes[m]? with
  | none => simp [hnd] at h
  | some nd =>
    simp only [hnd] at h
    cases hc : nd.children with
    | none => simp [hc] at h
    | some cs =>
      obtain ⟨_, x, x1, rfl, x3, _⟩ := W.children m nd cs hnd hc
      rw [hK] at x3
      simp only [hc, hK, List.range', Except.ok.injEq, Prod.mk.injEq] at h
      obtain ⟨rfl, rfl⟩ := h
      exact ⟨⟨nd, _, hnd, hc⟩, by omega, by omega, by omega, by omega⟩

theorem mem_range'_chosen {n c : Nat} : c ∈ List.range' 1 (n - 1) ↔ 1 ≤ c ∧ c < n := by
  rw [List.mem_range'_1]; omega

/-- One expansion of a leaf with the right `newlayer` flag, arity 2: the tree stays well-formed,
both children (the two new ids) are filed in `chosen`, nothing else changes. -/
theorem expandAt_spec (cfg : SkCfg R S) {s s1 : StroquOOL α R S} {m : Nat} {nl : Bool}
    {ds ds1 : List (Draw α)} {nd : Node α (SkSt R S)}
    (W : WF s.P) (hK : K s.P = 2) (hch : s.chosen = List.range' 1 (s.P.nodes.length - 1))
    (hd : DrawsOK s.P ds) (hm : s.P.nodes[m]? = some nd) (hleaf : nd.children = none)
    (hnl : nl = decide (nd.depth ≥ s.P.depth))
    (h : expandAt cfg s m nl ds = .ok (s1, ds1)) :
    s1 = { s with P := s1.P, chosen := s1.chosen } ∧ WF s1.P ∧ K s1.P = 2 ∧
      s1.chosen = List.range' 1 (s1.P.nodes.length - 1) ∧ Ext s.P s1.P ∧ Expd s1.P m ∧
      DrawsOK s1.P ds1 ∧ s1.P.nodes.length = s.P.nodes.length + 2 ∧
      twoKids s1.P m = .ok (s.P.nodes.length, s.P.nodes.length + 1) := by
  cases ds with
  | nil => simp [expandAt, Part.makeChildrenD, Part.popDraw, bind, Except.bind] at h
  | cons d ds' =>
    obtain ⟨P', e1, W', St⟩ := makeChildren_WF_step W (st0 cfg) hm hleaf hnl
      (hd d (List.mem_cons_self ..))
    have hatp := St.atp
    rw [hK] at hatp
    have htk := twoKids_of hatp rfl
    have hlen := St.len
    rw [hK] at hlen
    have hpos := W.length_pos
    simp only [expandAt, makeChildrenD_cons e1, bind, Except.bind, htk, pure, Except.pure,
      Except.ok.injEq, Prod.mk.injEq] at h
    obtain ⟨rfl, rfl⟩ := h
    have hext : Ext s.P P' := step_ext St W hm ⟨rfl, rfl⟩
    refine ⟨rfl, W', (St.K_eq W hm).trans hK, ?_, hext, ⟨_, _, hatp, rfl⟩, ?_, hlen, htk⟩
    · show s.chosen ++ [s.P.nodes.length, s.P.nodes.length + 1] = _
      rw [hch, hlen]
      have e : [s.P.nodes.length, s.P.nodes.length + 1] =
          List.range' (1 + (s.P.nodes.length - 1)) 2 := by
        have : 1 + (s.P.nodes.length - 1) = s.P.nodes.length := by omega
        rw [this]; rfl
      rw [e, List.range'_append_1]
      congr 1
      omega
    · exact hext.drawsOK (fun d hdm => hd d (List.mem_cons_of_mem _ hdm))

end blocks

end SK
end PyXAB
