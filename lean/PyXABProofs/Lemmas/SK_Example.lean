/-
  StroquOOL: a concrete run used by the non-vacuity examples of `Props/StroquOOL.lean`.
  `α := Nat`, rewards and scores `Nat` with `negInf := 0` (a bottom element), integer mean,
  binary partition of `[0, 64]`, `hmax := 2`, `pmax := 1`, rounds numbered `1, 2, 3, …`.

  Schedule (`hmax = 2`): rounds 1–2 evaluate cell 1, rounds 3–4 cell 2 (depth 0); rounds 5–12
  explore depths 1 and 2 (cells 3 … 8); the `pull` of round 13 builds the candidates
  `[some 5, some 4]` (best cell with `≥ 1`, resp. `≥ 2` evaluations) and empties their reward
  lists; rounds 13–14 re-evaluate cell 5, rounds 15–16 cell 4; the `pull` of round 17 ends the
  run and recommends cell 4 (mean `8` against `7`).
-/
import PyXABProofs.Spec.SkSpec

namespace PyXAB
namespace SK
namespace Ex
open Tree StroquOOL

def cfg : SkCfg Nat Nat :=
  { negInf := 0, hmax := 2, pmax := 1, meanOf := fun rs => rs.sum / rs.length }

def dom : Box Nat := [⟨0, 64⟩]

def rewards : List Nat := [3, 5, 6, 8, 2, 4, 9, 9, 10, 1, 20, 4, 6, 8, 8, 8, 0, 0]

/-- round `i+1` is `pull(i+1)` with one (well-formed) draw on offer, then `receive(rewards[i])` -/
def inputs : List (Nat × Nat × List (Draw Nat)) :=
  rewards.zipIdx.map (fun (r, i) => (i + 1, r, [⟨0, []⟩]))

/-- the result of the first `n` rounds -/
def after (n : Nat) : Option (StroquOOL Nat Nat Nat × List (Nat × Nat) × Option Nat) :=
  match run cfg .binary dom (inputs.take n) with
  | .ok x => some x
  | .error _ => none

/-- statistics `(visited, rewards, mean)` of cell `id` after `n` rounds -/
def stats (n id : Nat) : Option (Nat × List Nat × Nat) :=
  (after n).bind fun x => (x.1.P.nodes[id]?).map fun nd => (nd.st.visited, nd.st.rewards, nd.st.mean)

/-- the `pull` of round `n + 1` alone (no `receive`): returned id, `ended` flag, candidates -/
def nextPull (n : Nat) : Option (Nat × Bool × List (Option Nat)) :=
  (after n).bind fun x =>
    match pull cfg x.1 (n + 1) [⟨0, []⟩] with
    | .ok (s', _, v) => some (v, s'.ended, s'.candidate)
    | .error _ => none

/-- statistics of cell `id` right after the `pull` of round `n + 1` -/
def statsNextPull (n id : Nat) : Option (Nat × List Nat × Nat) :=
  (after n).bind fun x =>
    match pull cfg x.1 (n + 1) [⟨0, []⟩] with
    | .ok (s', _, _) => (s'.P.nodes[id]?).map fun nd => (nd.st.visited, nd.st.rewards, nd.st.mean)
    | .error _ => none

/-- `lastPoint` on the state after `n` rounds: the recommended id -/
def recommend (n : Nat) : Option Nat :=
  (after n).bind fun x =>
    match lastPoint cfg x.1 with
    | .ok (_, v) => some v
    | .error _ => none

/-! ### why `Inv` and not just `Tree.WF`: a well-formed state with a stale `maxNode` -/

/-- cells `0; 1 2; 3 4` (root and cell 1 expanded), depth 2 -/
def badP : Part Nat (SkSt Nat Nat) :=
  getOk (Tree.run (st0 cfg) (Part.init .binary dom (st0 cfg)) [.mk 0 ⟨0, []⟩, .mk 1 ⟨0, []⟩])

/-- an (unreachable) state at depth 2 whose `maxNode` is the LEAF 2 of depth 1 and in which no
cell of depth 2 qualifies for selection -/
def badS : StroquOOL Nat Nat Nat :=
  { P := badP, iteration := 0, currDepth := 2, currP := 0, chosen := [1, 2, 3, 4], timeStamp := 0,
    candidate := [], currLoc := 0, curr := 1, eval := true, maxNode := some 2, ended := false }

def badNext : Option (StroquOOL Nat Nat Nat) :=
  match pull cfg badS 1 [⟨0, []⟩] with
  | .ok (s', _, _) => some s'
  | .error _ => none

end Ex
end SK
end PyXAB
