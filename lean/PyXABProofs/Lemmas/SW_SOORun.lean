/-
  SOO: rounds (`pull` + `receive`) and the whole loop.
-/
import PyXABProofs.Lemmas.SW_SOO
import PyXABProofs.Lemmas.SW_Hist

set_option linter.unusedSectionVars false

namespace PyXAB
namespace SOO
open Tree TBA SW

variable {α S : Type} [Add α] [Sub α] [Mul α] [Div α] [OfNat α 2] [NatCast α]
variable [LinearOrder S] [Inhabited S]

theorem dimn_setReward (P : Part α (SwSt S)) (v : Nat) (r : S) :
    dimn (setReward P v r) = dimn P := (PRel_modifySt P v _).dimn_eq

theorem dimn_mark (P : Part α (SwSt S)) (v : Nat) : dimn (mark P v) = dimn P :=
  (PRel_modifySt P v _).dimn_eq

theorem init_inv (negInf : S) (k : Kind) (domain : Box α) (hmax : Nat) :
    Inv negInf (init negInf k domain hmax) ∧ (init negInf k domain hmax).P.kind = k ∧
      dimn (init negInf k domain hmax).P = domain.length ∧
      (init negInf k domain hmax).P.depth = 0 ∧ (init negInf k domain hmax).hmax = hmax ∧
      HistOK (init negInf k domain hmax).P [] := by
  refine ⟨⟨⟨init_WF' k domain _, ?_, ?_⟩, ?_⟩, rfl, rfl, rfl, rfl, HistOK.init k domain _ rfl⟩
  · intro i nd hi hne
    cases i with
    | zero =>
      simp only [init, Part.init, List.getElem?_cons_zero, Option.some.injEq] at hi
      subst hi; exact absurd rfl hne
    | succ i => simp [init, Part.init] at hi
  · intro i nd hi _
    cases i with
    | zero =>
      simp only [init, Part.init, List.getElem?_cons_zero, Option.some.injEq] at hi
      subst hi; rfl
    | succ i => simp [init, Part.init] at hi
  · intro c hc; simp [init] at hc

theorem receive_eq {s : SOO α S} {c : Nat} (hc : s.curr = some c) (r : S) :
    receive s r = .ok { s with P := setReward s.P c r } := by
  simp [receive, hc, setReward]

/-- Everything a successful round guarantees. -/
structure RoundPost (negInf : S) (s : SOO α S) (x : Input α S) (s2 : SOO α S) (v : Nat)
    (s1 : SOO α S) (ds' : List (Draw α)) (trs : List (List (Ev α (SwSt S) S)))
    (Pb : Part α (SwSt S)) : Prop where
  pullT : pullT negInf s x.1 x.2.1 = .ok (s1, ds', v, trs)
  pull : pull negInf s x.1 x.2.1 = .ok (s1, ds', v)
  recv : receive s1 x.2.2 = .ok s2
  post : PullPost negInf s.hmax s.P x.2.1 s1.P ds' v trs Pb
  inv1 : Inv negInf s1
  curr1 : s1.curr = some v
  eq2 : s2 = { s1 with P := setReward s1.P v x.2.2 }
  P2 : s2.P = setReward (mark Pb v) v x.2.2
  inv2 : Inv negInf s2
  hmax : s2.hmax = s.hmax
  kind : s2.P.kind = s.P.kind
  dimn : dimn s2.P = dimn s.P

theorem round_spec (negInf : S) (hbot : ∀ x, negInf ≤ x) {s s2 : SOO α S} {x : Input α S}
    {v : Nat} (hI : Inv negInf s) (hds : ∀ d ∈ x.2.1, DrawOKLen s.P.kind (dimn s.P) d)
    (hrun : round negInf s x = .ok (s2, v)) :
    ∃ s1 ds' trs Pb, RoundPost negInf s x s2 v s1 ds' trs Pb := by
  unfold round at hrun
  cases hp : pull negInf s x.1 x.2.1 with
  | error e => simp [hp] at hrun
  | ok res =>
    obtain ⟨s1, ds', v'⟩ := res
    simp only [hp] at hrun
    obtain ⟨trs, hpT⟩ := (pull_ok_iff negInf s x.1 x.2.1 s1 ds' v').1 hp
    obtain ⟨⟨Pb, hpost⟩, hI1, hc1, hm1, _⟩ := pullT_spec negInf hbot hI hds hpT
    rw [receive_eq hc1] at hrun
    simp only [Except.ok.injEq, Prod.mk.injEq] at hrun
    obtain ⟨rfl, rfl⟩ := hrun
    obtain ⟨nd, n1, _⟩ := hpost.node
    have hP2 : setReward s1.P v' x.2.2 = setReward (mark Pb v') v' x.2.2 := by rw [hpost.marked]
    refine ⟨s1, ds', trs, Pb, hpT, hp, receive_eq hc1 _, hpost, hI1, hc1, rfl, hP2, ⟨?_, ?_⟩,
      hm1, ?_, ?_⟩
    · show PInv negInf (setReward s1.P v' x.2.2)
      rw [hP2]; exact hpost.pinv.round _ ⟨nd, n1⟩
    · intro c hc
      have hc' : s1.curr = some c := hc
      obtain ⟨cn, c1, c2⟩ := hI1.curr c hc'
      show ∃ nd, (setReward s1.P v' x.2.2).nodes[c]? = some nd ∧ nd.st.visited = true
      simp only [setReward, getElem?_modifySt, c1, Option.map_some]
      by_cases hvc : v' = c <;> simp [hvc, c2]
    · show (setReward s1.P v' x.2.2).kind = s.P.kind
      rw [hP2]; exact hpost.ext.kind
    · show Tree.dimn (setReward s1.P v' x.2.2) = Tree.dimn s.P
      rw [hP2, dimn_setReward, dimn_mark]; exact hpost.ext.dimn

theorem round_total (negInf : S) (hbot : ∀ x, negInf ≤ x) {s : SOO α S} (x : Input α S)
    (hI : Inv negInf s) (hcap : s.P.depth < s.hmax) (hlen : 1 ≤ x.2.1.length)
    (hds : ∀ d ∈ x.2.1, DrawOKLen s.P.kind (dimn s.P) d) :
    ∃ s2 v, round negInf s x = .ok (s2, v) ∧ s2.P.depth ≤ s.P.depth + 1 := by
  obtain ⟨s1, ds', v, trs, e, hd⟩ := pullT_total negInf hbot x.1 hI hcap hlen hds
  have hp := (pull_ok_iff negInf s x.1 x.2.1 s1 ds' v).2 ⟨trs, e⟩
  obtain ⟨_, _, hc1, _, _⟩ := pullT_spec negInf hbot hI hds e
  refine ⟨{ s1 with P := setReward s1.P v x.2.2 }, v, ?_, hd⟩
  unfold round
  simp only [hp, receive_eq hc1]

/-- Induction principle over the rounds of a run, with the history accumulated forwards. -/
theorem runRounds_induct (negInf : S) (hbot : ∀ x, negInf ≤ x)
    (J : SOO α S → List (Nat × S) → Prop)
    (hstep : ∀ (s : SOO α S) (H : List (Nat × S)) (x : Input α S) (s2 : SOO α S) (v : Nat)
      (s1 : SOO α S) (ds' : List (Draw α)) (trs : List (List (Ev α (SwSt S) S)))
      (Pb : Part α (SwSt S)), Inv negInf s → J s H → RoundPost negInf s x s2 v s1 ds' trs Pb →
      J s2 (H ++ [(v, x.2.2)])) :
    ∀ (inputs : List (Input α S)) (s : SOO α S) (H0 : List (Nat × S)) (s' : SOO α S)
      (H : List (Nat × S)), Inv negInf s →
      (∀ x ∈ inputs, ∀ d ∈ x.2.1, DrawOKLen s.P.kind (dimn s.P) d) → J s H0 →
      runRounds negInf s inputs = .ok (s', H) →
      J s' (H0 ++ H) ∧ Inv negInf s' ∧ s'.hmax = s.hmax ∧ s'.P.kind = s.P.kind ∧
        dimn s'.P = dimn s.P ∧ H.map (·.2) = inputs.map (·.2.2)
  | [], s, H0, s', H, hI, _, hJ, hrun => by
    simp only [runRounds, Except.ok.injEq, Prod.mk.injEq] at hrun
    obtain ⟨rfl, rfl⟩ := hrun
    simpa using ⟨hJ, hI⟩
  | x :: rest, s, H0, s', H, hI, hds, hJ, hrun => by
    unfold runRounds at hrun
    cases hr : round negInf s x with
    | error e => simp [hr] at hrun
    | ok res =>
      obtain ⟨s2, v⟩ := res
      simp only [hr] at hrun
      cases hrec : runRounds negInf s2 rest with
      | error e => simp [hrec] at hrun
      | ok res =>
        obtain ⟨s3, H3⟩ := res
        simp only [hrec, Except.ok.injEq, Prod.mk.injEq] at hrun
        obtain ⟨rfl, rfl⟩ := hrun
        obtain ⟨s1, ds', trs, Pb, hp⟩ := round_spec negInf hbot hI
          (hds x (List.mem_cons_self ..)) hr
        have hJ2 := hstep s H0 x s2 v s1 ds' trs Pb hI hJ hp
        have hds2 : ∀ y ∈ rest, ∀ d ∈ y.2.1, DrawOKLen s2.P.kind (dimn s2.P) d := by
          intro y hy d hd
          rw [hp.kind, hp.dimn]
          exact hds y (List.mem_cons_of_mem _ hy) d hd
        obtain ⟨a1, a2, a3, a4, a5, a6⟩ := runRounds_induct negInf hbot J hstep rest s2 _ s3 H3
          hp.inv2 hds2 hJ2 hrec
        refine ⟨by simpa using a1, a2, a3.trans hp.hmax, a4.trans hp.kind, a5.trans hp.dimn, ?_⟩
        simp [a6]

/-- The loop never fails as long as the depth cap is not reached: `T` rounds from a state of
depth `d` with `d + T ≤ hmax`. -/
theorem runRounds_total (negInf : S) (hbot : ∀ x, negInf ≤ x) :
    ∀ (inputs : List (Input α S)) (s : SOO α S), Inv negInf s →
      InputsOK s.P.kind (dimn s.P) inputs → s.P.depth + inputs.length ≤ s.hmax →
      ∃ s' H, runRounds negInf s inputs = .ok (s', H) ∧
        s'.P.depth ≤ s.P.depth + inputs.length
  | [], s, _, _, _ => ⟨s, [], rfl, Nat.le_refl _⟩
  | x :: rest, s, hI, hin, hcap => by
    obtain ⟨hl, hds⟩ := hin x (List.mem_cons_self ..)
    simp only [List.length_cons] at hcap
    obtain ⟨s2, v, hr, hd⟩ := round_total negInf hbot x hI (by omega) hl hds
    obtain ⟨s1, ds', trs, Pb, hp⟩ := round_spec negInf hbot hI hds hr
    have hin2 : InputsOK s2.P.kind (dimn s2.P) rest := by
      intro y hy
      rw [hp.kind, hp.dimn]
      exact hin y (List.mem_cons_of_mem _ hy)
    obtain ⟨s3, H3, hrec, hd3⟩ := runRounds_total negInf hbot rest s2 hp.inv2 hin2
      (by rw [hp.hmax]; omega)
    refine ⟨s3, (v, x.2.2) :: H3, ?_, by simp only [List.length_cons]; omega⟩
    unfold runRounds
    simp only [hr, hrec]

/-- The history invariant over a run. -/
theorem runRounds_hist (negInf : S) (hbot : ∀ x, negInf ≤ x) (inputs : List (Input α S))
    (s : SOO α S) (H0 : List (Nat × S)) (s' : SOO α S) (H : List (Nat × S))
    (hI : Inv negInf s) (hds : ∀ x ∈ inputs, ∀ d ∈ x.2.1, DrawOKLen s.P.kind (dimn s.P) d)
    (hH : HistOK s.P H0) (hrun : runRounds negInf s inputs = .ok (s', H)) :
    HistOK s'.P (H0 ++ H) ∧ Inv negInf s' ∧ H.map (·.2) = inputs.map (·.2.2) := by
  obtain ⟨a1, a2, _, _, _, a6⟩ := runRounds_induct negInf hbot (fun s H => HistOK s.P H)
    (fun s H x s2 v s1 ds' trs Pb _ hJ hp => by
      show HistOK s2.P _
      rw [hp.P2]
      obtain ⟨nd, n1, _, n3, _⟩ := hp.post.node
      exact HistOK.round x.2.2 hJ (hp.post.ext.mono (fun a b h => by rw [h]; exact SameVR.rfl' _))
        rfl ⟨nd, n1, n3⟩)
    inputs s H0 s' H hI hds hH hrun
  exact ⟨a1, a2, a6⟩

end SOO
end PyXAB
