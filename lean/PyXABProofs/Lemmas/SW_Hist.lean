/-
  SOO / DOO: the history invariant `HistOK` over one round, and `argmaxListed` (the
  recommendation `get_last_point`).
-/
import PyXABProofs.Lemmas.SW_Vis

set_option linter.unusedSectionVars false

namespace PyXAB
namespace SW
open Tree TBA

variable {α S : Type}

/-- payloads with the same `visited` flag and stored reward -/
def SameVR (a b : SwSt S) : Prop := b.visited = a.visited ∧ b.reward = a.reward

theorem SameVR.rfl' (a : SwSt S) : SameVR a a := ⟨rfl, rfl⟩

theorem SameVR.trans' (a b c : SwSt S) (h1 : SameVR a b) (h2 : SameVR b c) : SameVR a c :=
  ⟨h2.1.trans h1.1, h2.2.trans h1.2⟩

/-- `receive_reward(r)` for the cell `v` -/
def setReward (P : Part α (SwSt S)) (v : Nat) (r : S) : Part α (SwSt S) :=
  P.modifySt v (fun st => { st with reward := r })

theorem getElem?_round (Pb : Part α (SwSt S)) (v : Nat) (r : S) (i : Nat) :
    (setReward (mark Pb v) v r).nodes[i]? = (Pb.nodes[i]?).map (fun nd =>
      if v = i then { nd with st := { visited := true, reward := r, b := nd.st.b } } else nd) := by
  simp only [setReward, mark, getElem?_modifySt, Option.map_map]
  congr 1
  funext nd
  by_cases h : v = i <;> simp [h]

theorem HistOK.init (k : Kind) (domain : Box α) (s0 : SwSt S) (h0 : s0.visited = false) :
    HistOK (Part.init k domain s0) [] where
  nodup := List.nodup_nil
  valid := by simp
  visited := by
    intro i nd hi hv
    exfalso
    cases i with
    | zero =>
      simp only [Part.init, List.getElem?_cons_zero, Option.some.injEq] at hi
      subst hi
      rw [h0] at hv; cases hv
    | succ i => simp [Part.init] at hi

/-- One complete round (`pull` which extends the tree and hands out the unevaluated cell `v`,
then `receive_reward(r)`) keeps the history invariant. -/
theorem HistOK.round {P Pb : Part α (SwSt S)} {s0 : SwSt S} {H : List (Nat × S)} {v : Nat}
    (r : S) (hH : HistOK P H) (hext : Ext SameVR s0 P Pb) (h0 : s0.visited = false)
    (hv : ∃ nd, Pb.nodes[v]? = some nd ∧ nd.st.visited = false) :
    HistOK (setReward (mark Pb v) v r) (H ++ [(v, r)]) := by
  obtain ⟨vn, hvn, hvv⟩ := hv
  have hnot : v ∉ H.map (·.1) := by
    intro hmem
    obtain ⟨e, he, rfl⟩ := List.mem_map.1 hmem
    obtain ⟨nd, a1, a2, _⟩ := hH.valid e he
    obtain ⟨nd', b1, _, _, _, _, _, b7⟩ := hext.old _ nd a1
    obtain rfl := getElem?_inj b1 hvn
    rw [b7.1, a2] at hvv; cases hvv
  refine ⟨?_, ?_, ?_⟩
  · rw [List.map_append, List.nodup_append]
    refine ⟨hH.nodup, by simp, ?_⟩
    intro a ha b hb
    simp only [List.map_cons, List.map_nil, List.mem_singleton] at hb
    subst hb
    intro hab; subst hab
    exact hnot ha
  · intro e he
    rcases List.mem_append.1 he with he | he
    · obtain ⟨nd, a1, a2, a3⟩ := hH.valid e he
      obtain ⟨nd', b1, _, _, _, _, _, b7⟩ := hext.old _ nd a1
      have hne : ¬ v = e.1 := fun h => hnot (h ▸ List.mem_map.2 ⟨e, he, rfl⟩)
      refine ⟨nd', ?_, by rw [b7.1, a2], by rw [b7.2, a3]⟩
      rw [getElem?_round, b1]; simp [hne]
    · simp only [List.mem_singleton] at he
      subst he
      refine ⟨{ vn with st := { visited := true, reward := r, b := vn.st.b } }, ?_, rfl, rfl⟩
      rw [getElem?_round, hvn]; simp
  · intro i nd hi hvis
    rw [getElem?_round] at hi
    rw [List.map_append, List.mem_append]
    by_cases hvi : v = i
    · right; simp [hvi]
    · left
      cases hb : Pb.nodes[i]? with
      | none => rw [hb] at hi; simp at hi
      | some x =>
        rw [hb] at hi
        simp only [Option.map_some, hvi, if_false, Option.some.injEq] at hi
        subst hi
        by_cases hlt : i < P.nodes.length
        · obtain ⟨y, hy⟩ : ∃ y, P.nodes[i]? = some y := ⟨_, List.getElem?_eq_getElem hlt⟩
          obtain ⟨y', b1, _, _, _, _, _, b7⟩ := hext.old _ y hy
          obtain rfl := getElem?_inj b1 hb
          exact hH.visited i y hy (by rw [← b7.1]; exact hvis)
        · have := hext.new i x (by omega) hb
          rw [this.1, h0] at hvis; cases hvis

/-- the skeleton and everything except the handed-out cell is untouched by `receive` -/
theorem PInv.round {r0 : S} {Pb : Part α (SwSt S)} (h : PInv r0 Pb) {v : Nat} (r : S)
    (hv : ∃ nd, Pb.nodes[v]? = some nd) : PInv r0 (SW.setReward (SW.mark Pb v) v r) := by
  obtain ⟨nd, hnd⟩ := hv
  have : (SW.mark Pb v).nodes[v]? = some { nd with st := { nd.st with visited := true } } := by
    simp [SW.mark, getElem?_modifySt, hnd]
  exact (h.mark v).setReward this rfl r

/-! ### The recommendation -/

section argmax
variable [LinearOrder S]

theorem argmaxListed_eq (P : Part α (SwSt S)) (negInf : S) :
    SOO.argmaxListed P negInf =
      (amFold (nodeScore P (·.reward)) P.layers.flatten (negInf, none)).2 := by
  unfold SOO.argmaxListed amFold
  congr 2
  funext acc id
  unfold amStep nodeScore
  cases P.nodes[id]? <;> rfl

/-- `get_last_point` of SOO / DOO returns an evaluated cell whose received reward is maximal
among all received rewards, provided at least one reward was received, every received reward is
above `negInf`, and unevaluated cells store `negInf`. -/
theorem argmaxListed_spec {P : Part α (SwSt S)} {negInf : S} (hbot : ∀ x, negInf ≤ x)
    (hI : PInv negInf P) {H : List (Nat × S)} (hH : HistOK P H) (hne : H ≠ [])
    (hpos : ∀ e ∈ H, negInf < e.2) :
    ∃ v rv, SOO.argmaxListed P negInf = some v ∧ (v, rv) ∈ H ∧ (∀ e ∈ H, e.2 ≤ rv) ∧
      IsLastMax (nodeScore P (·.reward)) P.layers.flatten v rv := by
  rw [argmaxListed_eq]
  have hsc : ∀ e ∈ H, e.1 ∈ P.layers.flatten ∧ nodeScore P (·.reward) e.1 = some e.2 := by
    intro e he
    obtain ⟨nd, a1, _, a3⟩ := hH.valid e he
    exact ⟨WF_mem_flatten hI.wf a1, by simp [nodeScore, a1, a3]⟩
  obtain ⟨e0, he0⟩ := List.exists_mem_of_ne_nil H hne
  rcases amFold_bot (nodeScore P (·.reward)) P.layers.flatten negInf hbot with
    ⟨_, h2⟩ | ⟨m, x, h1, hmax⟩
  · obtain ⟨a, b⟩ := hsc e0 he0
    rw [h2 _ a] at b; cases b
  · have hle : ∀ e ∈ H, e.2 ≤ x := fun e he => hmax.le (hsc e he).1 (hsc e he).2
    have hx : negInf < x := lt_of_lt_of_le (hpos e0 he0) (hle e0 he0)
    have hm := hmax.score
    unfold nodeScore at hm
    cases hn : P.nodes[m]? with
    | none => rw [hn] at hm; cases hm
    | some nd =>
      rw [hn] at hm
      simp only [Option.some.injEq] at hm
      have hvis : nd.st.visited = true := by
        cases hq : nd.st.visited with
        | true => rfl
        | false =>
          have := hI.fresh m nd hn hq
          rw [this] at hm
          exact absurd hx (by rw [hm]; exact lt_irrefl _)
      obtain ⟨e, he, rfl⟩ := List.mem_map.1 (hH.visited m nd hn hvis)
      obtain ⟨nd', a1, _, a3⟩ := hH.valid e he
      obtain rfl := getElem?_inj hn a1
      refine ⟨e.1, x, by rw [h1], ?_, hle, hmax⟩
      have : e = (e.1, x) := by rw [← hm, a3]
      rw [← this]; exact he

end argmax

end SW
end PyXAB
