/-
  C16.1: the geometry of the partitions commutes with per-dimension positive affine maps.
-/
import PyXABProofs.Spec.RelSpec
import PyXABProofs.Spec.Geometry
import Mathlib.Tactic.Ring
import Mathlib.Tactic.Linarith

namespace PyXAB
namespace RL
open Rel

/-! ### list plumbing (no algebra) -/
section plumbing
variable {α β : Type}

/-- apply `f` to both end points -/
def ivMap (f : α → β) (i : Iv α) : Iv β := ⟨f i.lo, f i.hi⟩

theorem chainIvs_map (f : α → β) : ∀ l : List α, chainIvs (l.map f) = (chainIvs l).map (ivMap f)
  | [] => rfl
  | [_] => rfl
  | a :: b :: rest => by
    have ih := chainIvs_map f (b :: rest)
    simp only [List.map_cons] at ih ⊢
    simp only [chainIvs, List.map_cons, ih]
    rfl

/-- `splitChain` commutes with any index-wise map of the intervals whose action on axis `dim`
is `ivMap f`, when the split points are mapped by `f`. -/
theorem splitChain_mapIdx (g : Nat → Iv α → Iv α) (f : α → α) (dim : Nat)
    (hg : ∀ i, g dim i = ivMap f i) (b : Box α) (pts : List α) :
    splitChain (b.mapIdx g) dim (pts.map f) = (splitChain b dim pts).map (List.mapIdx g) := by
  unfold splitChain
  rw [List.getElem?_mapIdx]
  cases h : b[dim]? with
  | none => rfl
  | some iv =>
    simp only [Option.map_some, hg]
    have e : (ivMap f iv).lo :: (pts.map f ++ [(ivMap f iv).hi]) = (iv.lo :: (pts ++ [iv.hi])).map f := by
      simp [ivMap]
    rw [e, chainIvs_map, List.map_map, List.map_map]
    apply List.map_congr_left
    intro i _
    simp only [Function.comp_apply, List.mapIdx_set, hg]

/-- `splitAll` commutes with any index-wise map which commutes with taking halves. -/
theorem splitAll_mapIdx [Add α] [Sub α] [Mul α] [Div α] [OfNat α 2] [NatCast α] :
    ∀ (b : Box α) (g : Nat → Iv α → Iv α),
      (∀ j i, g j i.lower = (g j i).lower ∧ g j i.upper = (g j i).upper) →
      splitAll (b.mapIdx g) = (splitAll b).map (List.mapIdx g)
  | [], _, _ => rfl
  | iv :: rest, g, hg => by
    rw [List.mapIdx_cons]
    simp only [splitAll]
    rw [splitAll_mapIdx rest (fun i => g (i + 1)) (fun j i => hg (j + 1) i)]
    simp only [List.flatMap_map, List.map_flatMap, List.map_cons, List.map_nil, List.mapIdx_cons,
      (hg 0 _).1, (hg 0 _).2]

end plumbing

/-! ### algebra -/
section field
variable {α : Type} [Field α] [LinearOrder α] [IsStrictOrderedRing α]

omit [LinearOrder α] [IsStrictOrderedRing α] in
theorem aff_iv_eq_ivMap (φ : Aff α) (j : Nat) (i : Iv α) : φ.iv j i = ivMap (φ.ap j) i := rfl

theorem aff_ap_mid (φ : Aff α) (j : Nat) (x y : α) :
    φ.ap j (mid x y) = mid (φ.ap j x) (φ.ap j y) := by
  unfold mid Aff.ap
  ring

theorem aff_iv_mid (φ : Aff α) (j : Nat) (i : Iv α) : (φ.iv j i).mid = φ.ap j i.mid := by
  unfold Iv.mid Aff.iv
  exact (aff_ap_mid φ j i.lo i.hi).symm

theorem aff_iv_lower (φ : Aff α) (j : Nat) (i : Iv α) : φ.iv j i.lower = (φ.iv j i).lower := by
  unfold Iv.lower
  rw [aff_iv_mid]; rfl

theorem aff_iv_upper (φ : Aff α) (j : Nat) (i : Iv α) : φ.iv j i.upper = (φ.iv j i).upper := by
  unfold Iv.upper
  rw [aff_iv_mid]; rfl

omit [LinearOrder α] [IsStrictOrderedRing α] in
theorem aff_box_length (φ : Aff α) (b : Box α) : (φ.box b).length = b.length := by
  simp only [Aff.box, List.length_mapIdx]

omit [LinearOrder α] [IsStrictOrderedRing α] in
theorem aff_pt_length (φ : Aff α) (x : List α) : (φ.pt x).length = x.length := by
  simp only [Aff.pt, List.length_mapIdx]

omit [LinearOrder α] [IsStrictOrderedRing α] in
theorem aff_box_getElem? (φ : Aff α) (b : Box α) (j : Nat) :
    (φ.box b)[j]? = (b[j]?).map (φ.iv j) := by
  simp only [Aff.box, List.getElem?_mapIdx]

/-- the centre of the mapped cell is the mapped centre -/
theorem aff_cpoint_box (φ : Aff α) (b : Box α) : Box.cpoint (φ.box b) = φ.pt (Box.cpoint b) := by
  apply List.ext_getElem?
  intro j
  simp only [Box.cpoint, Aff.box, Aff.pt, List.getElem?_map, List.getElem?_mapIdx, Option.map_map]
  cases b[j]? with
  | none => rfl
  | some i => simp only [Option.map_some, Function.comp_apply, aff_iv_mid]

theorem aff_cpoint_box_length (φ : Aff α) (b : Box α) :
    (Box.cpoint (φ.box b)).length = (Box.cpoint b).length := by
  rw [aff_cpoint_box, aff_pt_length]

omit [LinearOrder α] [IsStrictOrderedRing α] in
/-- `np.linspace` boundaries of the mapped range are the mapped boundaries -/
theorem aff_linspacePts (φ : Aff α) (j : Nat) (lo hi : α) (K : Nat) :
    linspacePts (φ.ap j lo) (φ.ap j hi) K = (linspacePts lo hi K).map (φ.ap j) := by
  unfold PyXAB.linspacePts
  rw [List.map_map]
  apply List.map_congr_left
  intro i _
  simp only [Function.comp_apply, Aff.ap]
  ring

/-- `make_children` geometry commutes with `φ`, for all five partition classes. -/
theorem aff_childBoxes (φ : Aff α) (k : Kind) (b : Box α) (d : Draw α) :
    childBoxes k (φ.box b) (φ.draw d) = (childBoxes k b d).map φ.box := by
  have hsc : ∀ pts, splitChain (φ.box b) d.dim (pts.map (φ.ap d.dim)) =
      (splitChain b d.dim pts).map φ.box := fun pts =>
    splitChain_mapIdx φ.iv (φ.ap d.dim) d.dim (fun i => aff_iv_eq_ivMap φ _ i) b pts
  cases k with
  | binary =>
    simp only [PyXAB.childBoxes, Aff.draw, aff_box_getElem?]
    cases h : b[d.dim]? with
    | none => rfl
    | some iv =>
      simp only [Option.map_some, aff_iv_mid]
      exact hsc [iv.mid]
  | randBinary =>
    simp only [PyXAB.childBoxes, Aff.draw, ← List.map_take]
    exact hsc _
  | dimBinary =>
    simp only [PyXAB.childBoxes]
    exact splitAll_mapIdx b φ.iv (fun j i => ⟨aff_iv_lower φ j i, aff_iv_upper φ j i⟩)
  | kary K =>
    simp only [PyXAB.childBoxes, Aff.draw, aff_box_getElem?]
    cases h : b[d.dim]? with
    | none => rfl
    | some iv =>
      simp only [Option.map_some]
      have : (φ.iv d.dim iv).lo = φ.ap d.dim iv.lo ∧ (φ.iv d.dim iv).hi = φ.ap d.dim iv.hi :=
        ⟨rfl, rfl⟩
      rw [this.1, this.2, aff_linspacePts]
      exact hsc _
  | randKary K =>
    simp only [PyXAB.childBoxes, Aff.draw, ← List.map_take]
    exact hsc _

theorem aff_childBoxes_length (φ : Aff α) (k : Kind) (b : Box α) (d : Draw α) :
    (PyXAB.childBoxes k (φ.box b) (φ.draw d)).length = (PyXAB.childBoxes k b d).length := by
  rw [aff_childBoxes, List.length_map]

/-! ### order -/

omit [LinearOrder α] [IsStrictOrderedRing α] in
theorem aff_co_mem_or (φ : Aff α) (j : Nat) : φ.co j ∈ φ.a ∨ φ.co j = 1 := by
  unfold Aff.co
  by_cases h : j < φ.a.length
  · left
    rw [List.getD_eq_getElem?_getD, List.getElem?_eq_getElem h]
    exact List.getElem_mem h
  · right
    rw [List.getD_eq_getElem?_getD, List.getElem?_eq_none (Nat.le_of_not_lt h)]
    rfl

theorem pos_co_pos {φ : Aff α} (h : φ.Pos) (j : Nat) : 0 < φ.co j := by
  rcases aff_co_mem_or φ j with h1 | h1
  · exact h _ h1
  · rw [h1]; exact one_pos

omit [LinearOrder α] [IsStrictOrderedRing α] in
theorem transl_co_eq {φ : Aff α} (h : φ.IsTranslation) (j : Nat) : φ.co j = 1 := by
  rcases aff_co_mem_or φ j with h1 | h1
  · exact h _ h1
  · exact h1

theorem transl_pos {φ : Aff α} (h : φ.IsTranslation) : φ.Pos := by
  intro x hx
  rw [h x hx]; exact one_pos

theorem pos_ap_le_iff {φ : Aff α} (h : φ.Pos) (j : Nat) (x y : α) :
    φ.ap j x ≤ φ.ap j y ↔ x ≤ y := by
  unfold Aff.ap
  have hp := pos_co_pos h j
  constructor
  · intro h1
    have : φ.co j * x ≤ φ.co j * y := by linarith
    exact le_of_mul_le_mul_left this hp
  · intro h1
    have := mul_le_mul_of_nonneg_left h1 (le_of_lt hp)
    linarith

theorem pos_ap_lt_iff {φ : Aff α} (h : φ.Pos) (j : Nat) (x y : α) :
    φ.ap j x < φ.ap j y ↔ x < y := by
  rw [← not_le, ← not_le, pos_ap_le_iff h]

/-- the closed containment test of `Zooming.receive_reward` is invariant (no length hypothesis
is needed: both sides look at the common prefix of the coordinates) -/
theorem pos_contains {φ : Aff α} (h : φ.Pos) (b : Box α) (x : List α) :
    Zooming.contains (φ.box b) (φ.pt x) = Zooming.contains b x := by
  unfold Zooming.contains Aff.box Aff.pt
  suffices H : ∀ (b : Box α) (x : List α) (g : Nat → Iv α → Iv α) (f : Nat → α → α),
      (∀ j i c, (decide ((g j i).lo ≤ f j c) && decide (f j c ≤ (g j i).hi)) =
        (decide (i.lo ≤ c) && decide (c ≤ i.hi))) →
      ((b.mapIdx g).zip (x.mapIdx f)).all (fun p => decide (p.1.lo ≤ p.2) && decide (p.2 ≤ p.1.hi)) =
      (b.zip x).all (fun p => decide (p.1.lo ≤ p.2) && decide (p.2 ≤ p.1.hi)) by
    apply H
    intro j i c
    show (decide (φ.ap j i.lo ≤ φ.ap j c) && decide (φ.ap j c ≤ φ.ap j i.hi)) = _
    simp only [pos_ap_le_iff h]
  intro b
  induction b with
  | nil => intro x g f _; rfl
  | cons i b ih =>
    intro x g f hgf
    cases x with
    | nil => simp only [List.mapIdx_nil, List.zip_nil_right]
    | cons c x =>
      simp only [List.mapIdx_cons, List.zip_cons_cons, List.all_cons, hgf]
      rw [ih x (fun j => g (j + 1)) (fun j => f (j + 1)) (fun j i c => hgf (j + 1) i c)]

omit [Field α] [IsStrictOrderedRing α] in
theorem Mono_map {f : α → α} (hf : ∀ x y, x ≤ y → f x ≤ f y) : ∀ l : List α, Mono l → Mono (l.map f)
  | [], _ => trivial
  | [_], _ => trivial
  | a :: b :: rest, h => by
    have ih := Mono_map hf (b :: rest) h.2
    simp only [List.map_cons] at ih ⊢
    exact ⟨hf _ _ h.1, ih⟩

/-- what NumPy guarantees about the random choices is preserved: the mapped split points lie
in the mapped interval (in the same order) -/
theorem pos_drawOK {φ : Aff α} (h : φ.Pos) (k : Kind) (b : Box α) (d : Draw α)
    (hd : DrawOK k b d) : DrawOK k (φ.box b) (φ.draw d) := by
  obtain ⟨dim, pts⟩ := d
  show DrawOK k (φ.box b) ⟨dim, pts.map (φ.ap dim)⟩
  have hget : ∀ (hl : dim < b.length) (hl' : dim < (φ.box b).length),
      (φ.box b)[dim] = φ.iv dim b[dim] := by
    intro hl hl'
    simp only [Aff.box, List.getElem_mapIdx]
  cases k with
  | binary => simpa only [DrawOK, aff_box_length] using hd
  | dimBinary => trivial
  | randBinary =>
    obtain ⟨hl, s, hs, h1, h2⟩ := hd
    have hl' : dim < (φ.box b).length := by rw [aff_box_length]; exact hl
    refine ⟨hl', φ.ap dim s, ?_, ?_, ?_⟩
    · simp only [List.head?_map]
      simp only at hs
      rw [hs]; rfl
    · show (φ.box b)[dim].lo ≤ _
      rw [hget hl hl']; exact (pos_ap_le_iff h _ _ _).2 h1
    · show _ ≤ (φ.box b)[dim].hi
      rw [hget hl hl']; exact (pos_ap_le_iff h _ _ _).2 h2
  | kary K =>
    obtain ⟨h1, h2⟩ := hd
    exact ⟨h1, by rw [aff_box_length]; exact h2⟩
  | randKary K =>
    obtain ⟨h1, hl, h2, h3⟩ := hd
    have hl' : dim < (φ.box b).length := by rw [aff_box_length]; exact hl
    refine ⟨h1, hl', ?_, ?_⟩
    · simp only [List.length_map]; exact h2
    · show Mono ((φ.box b)[dim].lo :: (pts.map (φ.ap dim) ++ [(φ.box b)[dim].hi]))
      rw [hget hl hl']
      have := Mono_map (fun x y hxy => (pos_ap_le_iff h dim x y).2 hxy) _ h3
      simpa only [Aff.iv, List.map_cons, List.map_append, List.map_nil] using this

/-! ### C16.4: DOO's default diameter -/

/-- scaling law: the squared half-width is multiplied by the square of the factor -/
theorem halfWidthSq_aff (φ : Aff α) (j : Nat) (iv : Iv α) :
    halfWidthSq (φ.iv j iv) = φ.co j ^ 2 * halfWidthSq iv := by
  unfold halfWidthSq
  rw [aff_iv_mid]
  have e1 : ((φ.iv j iv).lo - φ.ap j iv.mid) ^ 2 = φ.co j ^ 2 * (iv.lo - iv.mid) ^ 2 := by
    simp only [Aff.iv, Aff.ap]; ring
  have e2 : ((φ.iv j iv).hi - φ.ap j iv.mid) ^ 2 = φ.co j ^ 2 * (iv.hi - iv.mid) ^ 2 := by
    simp only [Aff.iv, Aff.ap]; ring
  rw [e1, e2, mul_max_of_nonneg _ _ (sq_nonneg _)]

end field

end RL
end PyXAB
