/-
  POO: rounds and runs (the ghost-instrumented loop of `Spec/MetaSpec.lean`).
  Core Lean only.
-/
import PyXABProofs.Lemmas.MT_POOStep

namespace PyXAB.MT
open PyXAB POO
variable {L α R S Pt ρ : Type}

/-! ### One round -/

theorem round_ok_iff (ops : LearnerOps L α R Pt ρ) (cfg : POOCfg R S ρ) (s s2 : POO L S)
    (x : RoundIn α R) (e : Entry R) (pt : Pt) :
    round ops cfg s x = .ok (s2, e, pt) ↔
      ∃ s1 ds1 ds2, pull ops cfg s x.time x.ds = .ok (s1, ds1, e.served, pt) ∧
        receive ops cfg s1 x.time x.r ds1 = .ok (s2, ds2) ∧
        e = { served := e.served, received := recvIdx cfg s1, r := x.r, created := creates cfg s } := by
  unfold round
  cases hp : pull ops cfg s x.time x.ds with
  | error err => simp
  | ok o =>
    obtain ⟨s1, ds1, i, pt'⟩ := o
    cases hr : receive ops cfg s1 x.time x.r ds1 with
    | error err =>
      simp only [hr, reduceCtorEq, Except.ok.injEq, Prod.mk.injEq, false_iff, not_exists, not_and]
      rintro s1' ds1' ds2 ⟨rfl, rfl, -, -⟩
      simp [hr]
    | ok o2 =>
      obtain ⟨s2', ds2'⟩ := o2
      simp only [hr, Except.ok.injEq, Prod.mk.injEq]
      constructor
      · rintro ⟨rfl, rfl, rfl⟩
        exact ⟨s1, ds1, ds2', ⟨rfl, rfl, rfl, rfl⟩, by simp [hr], rfl⟩
      · rintro ⟨s1', ds1', ds2, ⟨rfl, rfl, hi, rfl⟩, h2, he⟩
        rw [hr] at h2
        simp only [Except.ok.injEq, Prod.mk.injEq] at h2
        refine ⟨h2.1, ?_, rfl⟩
        rw [he, hi]

/-- One round from an invariant state: the invariant is re-established, the reward goes to the
learner which served the round, and the effects of `pull` and `receive` are as specified. -/
theorem round_spec {ops : LearnerOps L α R Pt ρ} {cfg : POOCfg R S ρ} {s s2 : POO L S}
    {x : RoundIn α R} {e : Entry R} {pt : Pt} (hI : Inv cfg s)
    (h : round ops cfg s x = .ok (s2, e, pt)) :
    Inv cfg s2 ∧ e.received = e.served ∧ e.r = x.r ∧ e.created = creates cfg s ∧
    ∃ s1 ds1 ds2, Ready cfg s1 ∧ pull ops cfg s x.time x.ds = .ok (s1, ds1, e.served, pt) ∧
      receive ops cfg s1 x.time x.r ds1 = .ok (s2, ds2) ∧
      PullEffect ops cfg s x.time x.ds s1 ds1 e.served pt ∧
      RecvEffect ops cfg s1 x.time x.r ds1 s2 ds2 e.served := by
  obtain ⟨a, m, hI⟩ := hI
  obtain ⟨s1, ds1, ds2, hp, hr, he⟩ := (round_ok_iff ..).mp h
  obtain ⟨hR, hidx, hpe⟩ := pull_ready hI hp
  obtain ⟨hI2, hre⟩ := receive_inv hR hr
  rw [hidx] at hre
  refine ⟨hI2, ?_, ?_, ?_, s1, ds1, ds2, ⟨a, m, hR⟩, hp, hr, hpe, hre⟩
  · rw [he]; exact hidx
  · rw [he]
  · rw [he]

theorem round_total {ops : LearnerOps L α R Pt ρ} {cfg : POOCfg R S ρ} {s : POO L S}
    (hI : Inv cfg s) (hops : OpsTotal ops) (x : RoundIn α R) :
    ∃ s2 e pt, round ops cfg s x = .ok (s2, e, pt) := by
  obtain ⟨a, m, hI⟩ := hI
  obtain ⟨s1, ds1, i, pt, hp⟩ := pull_total hI hops x.time x.ds
  obtain ⟨hR, -, -⟩ := pull_ready hI hp
  obtain ⟨s2, ds2, hr⟩ := receive_total hR hops x.time x.r ds1
  exact ⟨s2, { served := i, received := recvIdx cfg s1, r := x.r, created := creates cfg s }, pt,
    (round_ok_iff ..).mpr ⟨s1, ds1, ds2, hp, hr, rfl⟩⟩

/-! ### Runs -/

theorem run_nil (ops : LearnerOps L α R Pt ρ) (cfg : POOCfg R S ρ) (s : POO L S) :
    run ops cfg s [] = .ok (s, []) := rfl

theorem run_cons_ok_iff (ops : LearnerOps L α R Pt ρ) (cfg : POOCfg R S ρ) (s s' : POO L S)
    (x : RoundIn α R) (xs : List (RoundIn α R)) (log : List (Entry R)) :
    run ops cfg s (x :: xs) = .ok (s', log) ↔
      ∃ s1 e pt log', round ops cfg s x = .ok (s1, e, pt) ∧ run ops cfg s1 xs = .ok (s', log') ∧
        log = e :: log' := by
  rw [run]
  cases hr : round ops cfg s x with
  | error err => simp
  | ok o =>
    obtain ⟨s1, e, pt⟩ := o
    cases hrun : run ops cfg s1 xs with
    | error err =>
      simp only [hrun, reduceCtorEq, Except.ok.injEq, Prod.mk.injEq, false_iff, not_exists, not_and]
      rintro s1' e' pt' log' ⟨rfl, rfl, rfl⟩
      simp [hrun]
    | ok o2 =>
      obtain ⟨s2, log2⟩ := o2
      simp only [hrun, Except.ok.injEq, Prod.mk.injEq]
      constructor
      · rintro ⟨rfl, rfl⟩
        exact ⟨s1, e, pt, log2, ⟨rfl, rfl, rfl⟩, by simp [hrun], rfl⟩
      · rintro ⟨s1', e', pt', log', ⟨rfl, rfl, rfl⟩, h2, rfl⟩
        rw [hrun] at h2
        simp only [Except.ok.injEq, Prod.mk.injEq] at h2
        exact ⟨h2.1, by rw [h2.2]⟩

/-- Induction principle for runs: a relation between the state and the log so far which is
preserved by every successful round holds after every successful run. -/
theorem run_induction {ops : LearnerOps L α R Pt ρ} {cfg : POOCfg R S ρ}
    {J : POO L S → List (Entry R) → Prop}
    (step : ∀ s log x s' e pt, J s log → round ops cfg s x = .ok (s', e, pt) → J s' (log ++ [e])) :
    ∀ (xs : List (RoundIn α R)) (s : POO L S) (log0 : List (Entry R)) (s' : POO L S)
      (log : List (Entry R)), J s log0 → run ops cfg s xs = .ok (s', log) → J s' (log0 ++ log) := by
  intro xs
  induction xs with
  | nil =>
    intro s log0 s' log hJ h
    rw [run_nil] at h
    cases h
    simpa using hJ
  | cons x xs ih =>
    intro s log0 s' log hJ h
    obtain ⟨s1, e, pt, log', hr, hrun, rfl⟩ := (run_cons_ok_iff ..).mp h
    have := ih s1 (log0 ++ [e]) s' log' (step s log0 x s1 e pt hJ hr) hrun
    simpa using this

/-- A run over `xs ++ ys` is a run over `xs` followed by a run over `ys` ("at every moment"). -/
theorem run_append_ok_iff (ops : LearnerOps L α R Pt ρ) (cfg : POOCfg R S ρ)
    (xs ys : List (RoundIn α R)) (s s' : POO L S) (log : List (Entry R)) :
    run ops cfg s (xs ++ ys) = .ok (s', log) ↔
      ∃ s1 log1 log2, run ops cfg s xs = .ok (s1, log1) ∧ run ops cfg s1 ys = .ok (s', log2) ∧
        log = log1 ++ log2 := by
  induction xs generalizing s log with
  | nil =>
    simp only [List.nil_append, run_nil, Except.ok.injEq, Prod.mk.injEq]
    constructor
    · intro h; exact ⟨s, [], log, ⟨rfl, rfl⟩, h, rfl⟩
    · rintro ⟨s1, log1, log2, ⟨rfl, rfl⟩, h, rfl⟩; exact h
  | cons x xs ih =>
    rw [List.cons_append, run_cons_ok_iff]
    constructor
    · rintro ⟨s1, e, pt, log', hr, hrun, rfl⟩
      obtain ⟨s2, log1, log2, h1, h2, rfl⟩ := (ih ..).mp hrun
      exact ⟨s2, e :: log1, log2, (run_cons_ok_iff ..).mpr ⟨s1, e, pt, log1, hr, h1, rfl⟩, h2, rfl⟩
    · rintro ⟨s2, log1, log2, h1, h2, rfl⟩
      obtain ⟨s1, e, pt, log1', hr, h1', rfl⟩ := (run_cons_ok_iff ..).mp h1
      exact ⟨s1, e, pt, log1' ++ log2, hr, (ih ..).mpr ⟨s2, log1', log2, h1', h2, rfl⟩, rfl⟩

theorem inv_init' (cfg : POOCfg R S ρ) (hc : cfg.cond 2 2 = true) : Inv cfg (POO.init : POO L S) :=
  ⟨1, 1, inv_init cfg hc⟩

/-- the invariant holds after every successful run from an invariant state -/
theorem run_inv {ops : LearnerOps L α R Pt ρ} {cfg : POOCfg R S ρ} {s s' : POO L S}
    {xs : List (RoundIn α R)} {log : List (Entry R)} (hI : Inv cfg s)
    (h : run ops cfg s xs = .ok (s', log)) : Inv cfg s' :=
  run_induction (J := fun s _ => Inv cfg s) (fun _ _ _ _ _ _ hJ hr => (round_spec hJ hr).1)
    xs s [] s' log hI h

theorem reach_inv {ops : LearnerOps L α R Pt ρ} {cfg : POOCfg R S ρ} {s : POO L S}
    (hc : cfg.cond 2 2 = true) (h : Reach ops cfg s) : Inv cfg s := by
  obtain ⟨xs, log, h⟩ := h
  exact run_inv (inv_init' cfg hc) h

/-- totality of runs from an invariant state -/
theorem run_total {ops : LearnerOps L α R Pt ρ} {cfg : POOCfg R S ρ} (hops : OpsTotal ops)
    (xs : List (RoundIn α R)) : ∀ {s : POO L S}, Inv cfg s → ∃ s' log, run ops cfg s xs = .ok (s', log) := by
  induction xs with
  | nil => intro s _; exact ⟨s, [], rfl⟩
  | cons x xs ih =>
    intro s hI
    obtain ⟨s1, e, pt, hr⟩ := round_total hI hops x
    obtain ⟨s', log, hrun⟩ := ih (round_spec hI hr).1
    exact ⟨s', e :: log, (run_cons_ok_iff ..).mpr ⟨s1, e, pt, log, hr, hrun, rfl⟩⟩

/-- The effect of one round on the scores and counts, in `getD` form (a learner which does not
exist yet has count `0` and score `zero`): only the serving learner `i` changes; its score is
updated with `k =` its count before the round, and its count is incremented. -/
theorem round_lists {ops : LearnerOps L α R Pt ρ} {cfg : POOCfg R S ρ} {s s2 : POO L S}
    {x : RoundIn α R} {e : Entry R} {pt : Pt} (hI : Inv cfg s)
    (h : round ops cfg s x = .ok (s2, e, pt)) :
    (∀ j, (s2.times[j]?).getD 0 = (s.times[j]?).getD 0 + if j = e.served then 1 else 0) ∧
    (∀ j, j ≠ e.served → (s2.V[j]?).getD cfg.zero = (s.V[j]?).getD cfg.zero) ∧
    s2.V[e.served]? = some (cfg.upd ((s.V[e.served]?).getD cfg.zero) ((s.times[e.served]?).getD 0) x.r) ∧
    s2.learners.length = s.learners.length + (if creates cfg s = none then 0 else 1) ∧
    e.served < s2.learners.length := by
  obtain ⟨hI2, -, -, -, s1, ds1, ds2, -, -, -, hpe, hre⟩ := round_spec hI h
  obtain ⟨a, m, hI⟩ := hI
  have hV := hI.hV
  have hT := hI.hT
  obtain ⟨-, -, -, -, -, pre, l, l1, hcase, hpre, -, hl1⟩ := hpe
  obtain ⟨l', l2, v, t, hl', hv, ht, -, hl2, hv2, ht2⟩ := hre
  generalize e.served = i at *
  rcases hcase with ⟨hcr, rfl, hV1, hT1, -⟩ | ⟨hcr, lnew, -, rfl, hV1, hT1⟩
  · rw [hV1] at hv hv2
    rw [hT1] at ht ht2
    rw [hl1] at hl2
    have hi : i < s.learners.length := by
      have := (List.getElem?_eq_some_iff.mp hpre).1; exact this
    refine ⟨?_, ?_, ?_, ?_, ?_⟩
    · intro j; rw [ht2]; grind
    · intro j hj; rw [hv2]; grind
    · rw [hv2]; grind
    · rw [hl2, hcr]; simp
    · rw [hl2]; simpa using hi
  · rw [hV1] at hv hv2
    rw [hT1] at ht ht2
    rw [hl1] at hl2
    have hi : i < s.learners.length + 1 := by
      have := (List.getElem?_eq_some_iff.mp hpre).1; simpa using this
    refine ⟨?_, ?_, ?_, ?_, ?_⟩
    · intro j; rw [ht2]; grind
    · intro j hj; rw [hv2]; grind
    · rw [hv2]; grind
    · rw [hl2, hcr]; simp
    · rw [hl2]; simpa using hi

/-! ### Counts -/

theorem recvCount_snoc (log : List (Entry R)) (e : Entry R) (j : Nat) :
    recvCount (log ++ [e]) j = recvCount log j + if j = e.received then 1 else 0 := by
  unfold recvCount
  rw [List.countP_append, List.countP_singleton]
  simp only [beq_iff_eq]
  grind

/-- `times[j]` grows by the number of log entries whose receiver is `j`. -/
theorem run_counts {ops : LearnerOps L α R Pt ρ} {cfg : POOCfg R S ρ} {s s' : POO L S}
    {xs : List (RoundIn α R)} {log : List (Entry R)} (hI : Inv cfg s)
    (h : run ops cfg s xs = .ok (s', log)) :
    ∀ j, (s'.times[j]?).getD 0 = (s.times[j]?).getD 0 + recvCount log j := by
  have := run_induction (ops := ops) (cfg := cfg)
    (J := fun s1 log1 => Inv cfg s1 ∧
      ∀ j, (s1.times[j]?).getD 0 = (s.times[j]?).getD 0 + recvCount log1 j)
    (by
      intro s1 log1 x s2 e pt ⟨hI1, hJ⟩ hr
      obtain ⟨hI2, hsame, -⟩ := round_spec hI1 hr
      obtain ⟨ht, -⟩ := round_lists hI1 hr
      refine ⟨hI2, fun j => ?_⟩
      rw [ht j, hJ j, recvCount_snoc, hsame]
      omega)
    xs s [] s' log ⟨hI, fun j => by simp [recvCount]⟩ h
  simpa using this.2

/-! ### The grid pairs of the learners constructed -/

theorem createdPairs_snoc (log : List (Entry R)) (e : Entry R) :
    createdPairs (log ++ [e]) = createdPairs log ++ e.created.toList := by
  unfold createdPairs
  rw [List.filterMap_append]
  cases h : e.created <;> simp [h]

theorem round_nextKey {ops : LearnerOps L α R Pt ρ} {cfg : POOCfg R S ρ} {s s2 : POO L S}
    {x : RoundIn α R} {e : Entry R} {pt : Pt} (hI : Inv cfg s)
    (h : round ops cfg s x = .ok (s2, e, pt)) :
    nextKey s ≤ nextKey s2 ∧
    ∀ p, creates cfg s = some p → p = (s.N, s.phase) ∧ nextKey s = p.1 + p.2 ∧ p.1 + p.2 < nextKey s2 ∧
      (∃ a, 1 ≤ a ∧ p.1 = 2 ^ a) ∧ p.2 < p.1 := by
  obtain ⟨-, -, -, -, s1, ds1, ds2, ⟨a1, m1, hR⟩, -, hr, hpe, -⟩ := round_spec hI h
  obtain ⟨a, m, hI⟩ := hI
  obtain ⟨hN, hn, hph, hcn, -⟩ := hpe
  obtain ⟨hk1, hk2⟩ := receive_nextKey hR hr
  rw [hN, hn, hph] at hk1
  rw [hN, hn] at hk2
  have hk : nextKey s1 = nextKey s := by simp [nextKey, hN, hph, hcn]
  constructor
  · cases hc : cfg.cond s.N s.n with
    | true => have := hk1 hc; unfold nextKey at *; split <;> omega
    | false => rw [hk2 hc, hk]; exact Nat.le_refl _
  · intro p hp
    unfold creates at hp
    split at hp
    · rename_i hcc
      cases hp
      obtain ⟨hphN, -⟩ := hI.create hcc.1
      have := hk1 hcc.1
      refine ⟨rfl, by simp [nextKey, hcc.2], this, ⟨a, hI.ha, hI.hN⟩, hphN⟩
    · cases hp

/-- The grid pairs `(N, phase)` handed to `create` along a run are strictly increasing in the
key `N + phase` (hence pairwise distinct), `N` is a power of two `≥ 2`, and `phase < N`; and
exactly one learner is appended per pair. -/
theorem run_created {ops : LearnerOps L α R Pt ρ} {cfg : POOCfg R S ρ} {s s' : POO L S}
    {xs : List (RoundIn α R)} {log : List (Entry R)} (hI : Inv cfg s)
    (h : run ops cfg s xs = .ok (s', log)) :
    s'.learners.length = s.learners.length + (createdPairs log).length ∧
    (createdPairs log).Pairwise (fun p q => p.1 + p.2 < q.1 + q.2) ∧
    ∀ p ∈ createdPairs log, nextKey s ≤ p.1 + p.2 ∧ p.1 + p.2 < nextKey s' ∧
      (∃ a, 1 ≤ a ∧ p.1 = 2 ^ a) ∧ p.2 < p.1 := by
  have := run_induction (ops := ops) (cfg := cfg)
    (J := fun s1 log1 => Inv cfg s1 ∧ nextKey s ≤ nextKey s1 ∧
      s1.learners.length = s.learners.length + (createdPairs log1).length ∧
      (createdPairs log1).Pairwise (fun p q => p.1 + p.2 < q.1 + q.2) ∧
      ∀ p ∈ createdPairs log1, nextKey s ≤ p.1 + p.2 ∧ p.1 + p.2 < nextKey s1 ∧
        (∃ a, 1 ≤ a ∧ p.1 = 2 ^ a) ∧ p.2 < p.1)
    (by
      intro s1 log1 x s2 e pt ⟨hI1, hmono, hlen, hpw, hall⟩ hr
      obtain ⟨hI2, -, -, hcr, -⟩ := round_spec hI1 hr
      obtain ⟨-, -, -, hlen2, -⟩ := round_lists hI1 hr
      obtain ⟨hk, hkc⟩ := round_nextKey hI1 hr
      rw [createdPairs_snoc, hcr]
      cases hc : creates cfg s1 with
      | none =>
        rw [hc] at hlen2
        simp only [Option.toList_none, List.append_nil]
        refine ⟨hI2, by omega, by simpa using hlen2.trans hlen, hpw, fun p hp => ?_⟩
        obtain ⟨h1, h2, h3⟩ := hall p hp
        exact ⟨h1, by omega, h3⟩
      | some p =>
        rw [hc] at hlen2
        obtain ⟨-, hp1, hp2, hp3⟩ := hkc p hc
        simp only [Option.toList_some]
        refine ⟨hI2, by omega, ?_, ?_, ?_⟩
        · simp only [List.length_append, List.length_singleton]
          simp at hlen2
          omega
        · rw [List.pairwise_append]
          refine ⟨hpw, List.pairwise_singleton _ _, fun q hq r hr => ?_⟩
          simp only [List.mem_singleton] at hr
          subst hr
          have := (hall q hq).2.1
          omega
        · intro q hq
          rw [List.mem_append, List.mem_singleton] at hq
          rcases hq with hq | rfl
          · obtain ⟨h1, h2, h3⟩ := hall q hq
            exact ⟨h1, by omega, h3⟩
          · exact ⟨by omega, hp2, hp3⟩)
    xs s [] s' log ⟨hI, Nat.le_refl _, by simp [createdPairs], by simp [createdPairs],
      by simp [createdPairs]⟩ h
  simp only [List.nil_append] at this
  exact ⟨this.2.2.1, this.2.2.2.1, this.2.2.2.2⟩

end PyXAB.MT
