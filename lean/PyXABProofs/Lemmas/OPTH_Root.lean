/-
  The B-value of the root.  `updateBackwardTree` never writes the root (`TBB.backward_spec`) and no
  other operation of T-HOO / HCT / VHCT lowers a B-value equal to `inf`, so in every state
  reachable by rounds `pull; receive` (`TBB.HOORun`, `TBB.HCTRun`) the root still carries its
  initial B-value `cfg.inf` (`HOORun.rootB`, `HCTRun.rootB`).  With `inf` a top element this gives
  `B ≥ fstar` at the root as well, whatever `fstar`.
-/
import PyXABProofs.Lemmas.OPTH_Run

set_option linter.unusedSectionVars false
set_option linter.unusedVariables false

namespace PyXAB
namespace OPTH
open _root_.PyXAB.Tree TBA TT TBB

section generic
variable {α R S : Type}

/-- the root cell carries the B-value `inf` -/
def RootB (inf : S) (P : Part α (TBSt R S)) : Prop :=
  ∃ r, P.nodes[0]? = some r ∧ r.st.b = inf

/-- payload relation: a B-value equal to `inf` stays `inf` -/
def KeepInf (inf : S) : Nat → Node α (TBSt R S) → Node α (TBSt R S) → Prop :=
  fun _ a b => a.st.b = inf → b.st.b = inf

theorem closed_KeepInf (inf : S) : Closed (KeepInf (α := α) (R := R) inf) :=
  ⟨fun _ _ h => h, fun _ _ _ _ _ _ h1 h2 h => h2 (h1 h)⟩

theorem RootB.of_prel {inf : S} {P P' : Part α (TBSt R S)} (hR : RootB inf P)
    (h : PRel (KeepInf inf) P P') : RootB inf P' := by
  obtain ⟨r, hr, hb⟩ := hR
  obtain ⟨r', hr', _, hk⟩ := h.node 0 r hr
  exact ⟨r', hr', hk hb⟩

theorem RootB.of_root_eq {inf : S} {P Q : Part α (TBSt R S)} (hR : RootB inf P)
    (h : Q.nodes[0]? = P.nodes[0]?) : RootB inf Q := by
  obtain ⟨r, hr, hb⟩ := hR
  exact ⟨r, h.trans hr, hb⟩

/-- a `modifySt` whose function keeps the B-value -/
theorem keepInf_modifySt (inf : S) (P : Part α (TBSt R S)) (i : Nat) (g : TBSt R S → TBSt R S)
    (hg : ∀ st, (g st).b = st.b) : PRel (KeepInf inf) P (P.modifySt i g) :=
  PRel_modifySt_closed (closed_KeepInf inf) P i g (fun nd nd' _ _ hst hb => by
    rw [hst, hg]; exact hb)

section mk
variable [Add α] [Sub α] [Mul α] [Div α] [OfNat α 2] [NatCast α]

theorem RootB.makeChildren {inf : S} {P P' : Part α (TBSt R S)} {s0 : TBSt R S} {p : Nat}
    {nl : Bool} {d : Draw α} (hR : RootB inf P) (h : P.makeChildren s0 p nl d = .ok P') :
    RootB inf P' := by
  cases hp : P.nodes[p]? with
  | none => simp [Part.makeChildren, hp] at h
  | some nd =>
    obtain ⟨hn, _⟩ := ZM.makeChildren_nodes hp h
    obtain ⟨r, hr, hb⟩ := hR
    have hlt := lt_length_of_getElem? hr
    by_cases e : p = 0
    · subst e
      obtain rfl := getElem?_inj hp hr
      have h0 : P'.nodes[0]? = some { nd with children := some (List.range' P.nodes.length
          (Part.newKids P.kind 0 nd s0 d).length) } := by
        rw [hn, List.getElem?_append_left (by simpa using hlt), List.getElem?_set]
        simp [hlt]
      exact ⟨_, h0, hb⟩
    · refine ⟨r, ?_, hb⟩
      rw [hn, List.getElem?_append_left (by simpa using hlt), List.getElem?_set]
      simp [e, hr]

theorem RootB.expand {inf : S} {P P' : Part α (TBSt R S)} {s0 : TBSt R S} {p : Nat}
    {ds ds' : List (Draw α)} (hR : RootB inf P) (h : P.expand s0 p ds = .ok (P', ds')) :
    RootB inf P' := by
  unfold Part.expand at h
  cases hp : P.nodes[p]? with
  | none => simp [hp] at h
  | some nd =>
    simp only [hp] at h
    obtain ⟨d, rfl, hm⟩ := makeChildrenD_ok h
    exact hR.makeChildren hm

theorem RootB.expand_if {inf : S} {P P' : Part α (TBSt R S)} {s0 : TBSt R S} {p : Nat} {c : Bool}
    {ds ds' : List (Draw α)} (hR : RootB inf P)
    (h : (if c = true then P.expand s0 p ds else .ok (P, ds)) = .ok (P', ds')) :
    RootB inf P' := by
  cases c with
  | true => exact hR.expand (by simpa using h)
  | false =>
    simp only [Bool.false_eq_true, if_false, Except.ok.injEq, Prod.mk.injEq] at h
    obtain ⟨rfl, _⟩ := h
    exact hR

end mk
end generic

variable {α R S : Type} [Add α] [Sub α] [Mul α] [Div α] [OfNat α 2] [NatCast α]
variable [LinearOrder S] [Inhabited S] [Inhabited R]

/-- `updateBackwardTree` does not touch the root of a well-formed tree -/
theorem RootB.backward {inf negInf : S} (hbot : ∀ x, negInf ≤ x) {P Q : Part α (TBSt R S)}
    (W : WF P) (hR : RootB inf P) (h : backward negInf P = .ok Q) : RootB inf Q := by
  obtain ⟨Q', h1, _, h3, _⟩ := backward_spec hbot W
  rw [h] at h1
  obtain rfl : Q = Q' := by simpa using h1
  exact hR.of_root_eq h3

/-! ## T-HOO -/

theorem HOO.init_rootB (cfg : HOOCfg R S) {k : Kind} {root : Box α} {ds ds' : List (Draw α)}
    {s0 : HOO α R S} (h : PyXAB.HOO.init cfg k root ds = .ok (s0, ds')) :
    RootB cfg.inf s0.P := by
  unfold PyXAB.HOO.init at h
  obtain ⟨⟨P1, ds1⟩, he, h⟩ := bind_ok h
  simp only [pure, Except.pure, Except.ok.injEq, Prod.mk.injEq] at h
  obtain ⟨rfl, _⟩ := h
  exact RootB.expand ⟨_, rfl, rfl⟩ he

theorem HOO.receive_rootB (cfg : HOOCfg R S) (hbot : ∀ x, cfg.negInf ≤ x) {s s' : HOO α R S}
    {v : Nat} {r : R} {d : Draw α} {ds ds' : List (Draw α)} (Rd : HOOReady cfg s v)
    (hd : DrawOKLen s.P.kind (dimn s.P) d) (hR : RootB cfg.inf s.P)
    (h : PyXAB.HOO.receive cfg s r (d :: ds) = .ok (s', ds')) : RootB cfg.inf s'.P := by
  obtain ⟨I, path0, hpath0, G⟩ := Rd
  unfold PyXAB.HOO.receive at h
  simp only [hpath0, G.last] at h
  have g12 : PRel (KeepInf cfg.inf) s.P
      (forListed (path0.foldl (fun P id => PyXAB.HOO.updateReward cfg P id r) s.P)
        (PyXAB.HOO.computeU cfg)) := by
    refine PRel.comp (closed_KeepInf _)
      (PRel_foldl (closed_KeepInf _) (fun P id => PyXAB.HOO.updateReward cfg P id r)
        (fun Q x => keepInf_modifySt cfg.inf Q x _ (fun _ => rfl)) path0 s.P)
      (forListed_rel (closed_KeepInf _) _ (fun i nd nd' _ hst hb => ?_) _)
    rw [hst]
    unfold PyXAB.HOO.computeU
    split
    · rfl
    · exact hb
  generalize forListed (path0.foldl (fun P id => PyXAB.HOO.updateReward cfg P id r) s.P)
    (PyXAB.HOO.computeU cfg) = P2 at g12 h
  have W2 : WF P2 := g12.wf I.wf
  cases hn : P2.nodes[v]? with
  | none => simp [hn] at h
  | some nd =>
    simp only [hn] at h
    obtain ⟨⟨P3, ds3⟩, he, h⟩ := bind_ok h
    obtain ⟨P4, hb, h⟩ := bind_ok h
    simp only [pure, Except.pure, Except.ok.injEq, Prod.mk.injEq] at h
    obtain ⟨rfl, rfl⟩ := h
    have hR3 : RootB cfg.inf P3 := (hR.of_prel g12).expand_if he
    have W3 : WF P3 := by
      by_cases hex : cfg.expandOK nd.depth = true
      · rw [if_pos hex] at he
        have hleaf : nd.children = none := by
          obtain ⟨x, a1, a2, _⟩ := g12.bwd hn
          obtain ⟨y, b1, b2⟩ := G.stop
          obtain rfl := getElem?_inj a1 b1
          rw [a2.children]; exact b2
        have hd' : DrawOKLen P2.kind (dimn P2) d := by rw [g12.kind, g12.dimn_eq]; exact hd
        obtain ⟨P', e1, W', _⟩ := TBA.expand_ok W2 (PyXAB.HOO.st0 cfg) hn hleaf ds hd'
        rw [e1] at he
        simp only [Except.ok.injEq, Prod.mk.injEq] at he
        exact he.1 ▸ W'
      · rw [if_neg hex] at he
        simp only [Except.ok.injEq, Prod.mk.injEq] at he
        exact he.1 ▸ W2
    exact hR3.backward hbot W3 hb

/-- **The root keeps `B = inf` along every run of T-HOO.** -/
theorem HOORun.rootB {cfg : HOOCfg R S} (hbot : ∀ x, cfg.negInf ≤ x) {k : Kind} {root : Box α}
    {s : HOO α R S} (h : HOORun cfg k root s) : RootB cfg.inf s.P := by
  induction h with
  | init _ h => exact HOO.init_rootB cfg h
  | @round s s1 s2 v r d ds ds' hrun hp hd hr ih =>
    have I := C05.HOO_run_inv hbot hrun
    obtain ⟨e1, _⟩ := C05.HOO_pull_greedy hp
    exact HOO.receive_rootB cfg hbot (C05.HOO_pull_ready I hp) hd (e1 ▸ ih) hr

/-! ## HCT / VHCT -/

theorem HCT.init_rootB (cfg : HCTCfg R S) {k : Kind} {root : Box α} {ds ds' : List (Draw α)}
    {s0 : HCT α R S} (h : PyXAB.HCT.init cfg k root ds = .ok (s0, ds')) :
    RootB cfg.inf s0.P := by
  unfold PyXAB.HCT.init at h
  obtain ⟨⟨P1, ds1⟩, he, h⟩ := bind_ok h
  simp only [pure, Except.pure, Except.ok.injEq, Prod.mk.injEq] at h
  obtain ⟨rfl, _⟩ := h
  exact RootB.expand ⟨_, rfl, rfl⟩ he

theorem HCT.sameButTau_rootB {inf : S} {P Q : Part α (TBSt R S)} (hR : RootB inf P)
    (h : SameButTau P Q) : RootB inf Q := by
  obtain ⟨r, hr, hb⟩ := hR
  obtain ⟨t, ht⟩ := h.node 0 r hr
  exact ⟨_, ht, hb⟩

theorem HCT.computeU_keeps_b (cfg : HCTCfg R S) (dt : S) (nd : Node α (TBSt R S)) :
    (PyXAB.HCT.computeU cfg dt nd).b = nd.st.b := by
  unfold PyXAB.HCT.computeU
  split <;> rfl

theorem HCT.receive_rootB (cfg : HCTCfg R S) (hbot : ∀ x, cfg.negInf ≤ x) {s s' : HCT α R S}
    {r : R} {ds ds' : List (Draw α)} (W : WF s.P) (hR : RootB cfg.inf s.P)
    (h : PyXAB.HCT.receive cfg s r ds = .ok (s', ds')) : RootB cfg.inf s'.P := by
  unfold PyXAB.HCT.receive at h
  cases hp : s.path with
  | none => simp [hp] at h
  | some path =>
    simp only [hp] at h
    obtain ⟨P1, h1, h⟩ := bind_ok h
    have g1 : WF P1 ∧ RootB cfg.inf P1 := by
      split at h1
      · have g := forListed_rel (closed_KeepInf cfg.inf)
          (PyXAB.HCT.computeU cfg (cfg.dtOne (tPlus s.iteration)))
          (fun i nd nd' _ hst hb => by rw [hst, HCT.computeU_keeps_b]; exact hb) s.P
        have Wf := g.wf W
        refine ⟨?_, (hR.of_prel g).backward hbot Wf h1⟩
        obtain ⟨Q', q1, q2, _⟩ := backward_spec hbot Wf
        rw [h1] at q1
        obtain rfl : P1 = Q' := by simpa using q1
        exact q2.skel.wf Wf
      · simp only [Except.ok.injEq] at h1
        exact h1 ▸ ⟨W, hR⟩
    obtain ⟨W1, hR1⟩ := g1
    cases hl : path.getLast? with
    | none => simp [hl] at h
    | some last =>
      simp only [hl] at h
      have g2 : PRel (KeepInf cfg.inf) P1 (PyXAB.HCT.updateReward cfg P1 last r) :=
        keepInf_modifySt _ P1 last _ (fun st => by
          show (hctUpd cfg r st).b = st.b
          unfold hctUpd
          cases cfg.variance <;> rfl)
      generalize PyXAB.HCT.updateReward cfg P1 last r = P2 at g2 h
      obtain ⟨P4, hb, h⟩ := bind_ok h
      have g3 : ∀ P3, P3 = (match P2.nodes[last]? with
            | none => P2
            | some nd => P2.modifySt last
                (fun _ => PyXAB.HCT.computeU cfg (cfg.dtOne (tPlus s.iteration)) nd)) →
          PRel (KeepInf cfg.inf) P2 P3 := by
        intro P3 e
        subst e
        cases hq : P2.nodes[last]? with
        | none => exact PRel.refl' (closed_KeepInf _) P2
        | some nd =>
          refine PRel_modifySt_closed (closed_KeepInf _) P2 last _ (fun a a' ha _ hst hb' => ?_)
          obtain rfl := getElem?_inj hq ha
          rw [hst, HCT.computeU_keeps_b]
          exact hb'
      have g13 := PRel.comp (closed_KeepInf _) g2 (g3 _ rfl)
      have W3 := g13.wf W1
      have hR4 : RootB cfg.inf P4 := (hR1.of_prel g13).backward hbot W3 hb
      cases hn : P4.nodes[last]? with
      | none => simp [hn] at h
      | some nd =>
        simp only [hn] at h
        obtain ⟨thr, _, h⟩ := bind_ok h
        obtain ⟨⟨P5, ds5⟩, he, h⟩ := bind_ok h
        simp only [pure, Except.pure, Except.ok.injEq, Prod.mk.injEq] at h
        obtain ⟨rfl, rfl⟩ := h
        exact hR4.expand_if he

/-- **The root keeps `B = inf` along every run of HCT / VHCT.** -/
theorem HCTRun.rootB {cfg : HCTCfg R S} (hbot : ∀ x, cfg.negInf ≤ x) (htop : ∀ x, x ≤ cfg.inf)
    {k : Kind} {root : Box α} {s : HCT α R S} {ts : Nat → Nat} (h : HCTRun cfg k root s ts) :
    RootB cfg.inf s.P := by
  induction h with
  | init _ _ h => exact HCT.init_rootB cfg h
  | @round s s1 s2 ts v r d ds ds' hrun hp hd hr ih =>
    have I := (C05.HCT_run_inv hbot htop hrun).1
    have hpl := C05.HCT_pull_greedy I hp
    have I1 := (C05.HCT_pull_ready I hp).inv
    exact HCT.receive_rootB cfg hbot I1.wf (HCT.sameButTau_rootB ih hpl.same) hr

end OPTH
end PyXAB
