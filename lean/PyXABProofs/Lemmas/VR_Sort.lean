/-
  Pure list lemmas about the stable descending insertion sort `VROOM.sortDesc` used by the
  ranking stage of VROOM (`sorted(nodes, key=rank_fun, reverse=True)`).
-/
import PyXABModel.Model.VROOM
import Mathlib.Order.Defs.LinearOrder
import Mathlib.Data.List.Perm.Basic
import Mathlib.Data.List.Induction

namespace PyXAB
namespace VR
open VROOM

variable {S : Type} [LinearOrder S]

/-- the order in which `sortDesc` leaves the list: non-increasing keys -/
abbrev Desc (key : Nat → S) (l : List Nat) : Prop := l.Pairwise (fun a b => key b ≤ key a)

theorem insertDesc_perm (key : Nat → S) (x : Nat) :
    ∀ l : List Nat, (insertDesc key x l).Perm (x :: l)
  | [] => List.Perm.refl _
  | y :: ys => by
    unfold insertDesc
    split
    · exact ((insertDesc_perm key x ys).cons y).trans (List.Perm.swap x y ys)
    · exact List.Perm.refl _

theorem mem_insertDesc {key : Nat → S} {x a : Nat} {l : List Nat} :
    a ∈ insertDesc key x l ↔ a = x ∨ a ∈ l := by
  rw [(insertDesc_perm key x l).mem_iff, List.mem_cons]

theorem insertDesc_sorted (key : Nat → S) (x : Nat) :
    ∀ l : List Nat, Desc key l → Desc key (insertDesc key x l)
  | [], _ => List.pairwise_singleton _ _
  | y :: ys, h => by
    have h' := List.pairwise_cons.1 h
    unfold insertDesc
    split
    · rename_i hxy
      refine List.pairwise_cons.2 ⟨fun a ha => ?_, insertDesc_sorted key x ys h'.2⟩
      rcases mem_insertDesc.1 ha with rfl | ha
      · exact hxy
      · exact h'.1 a ha
    · rename_i hxy
      have hlt : key y < key x := lt_of_not_ge hxy
      refine List.pairwise_cons.2 ⟨fun a ha => ?_, h⟩
      rcases List.mem_cons.1 ha with rfl | ha
      · exact le_of_lt hlt
      · exact le_trans (h'.1 a ha) (le_of_lt hlt)

/-- In a sorted list the new element is placed behind every element of the same key, and the
elements of the other keys keep their places. -/
theorem insertDesc_filter (key : Nat → S) (x : Nat) (k : S) :
    ∀ l : List Nat, Desc key l →
      (insertDesc key x l).filter (fun a => decide (key a = k)) =
        l.filter (fun a => decide (key a = k)) ++ (if key x = k then [x] else [])
  | [], _ => by
    by_cases hx : key x = k <;> simp [insertDesc, hx]
  | y :: ys, h => by
    have h' := List.pairwise_cons.1 h
    unfold insertDesc
    split
    · rw [List.filter_cons, List.filter_cons, insertDesc_filter key x k ys h'.2]
      split <;> simp
    · rename_i hxy
      have hlt : key y < key x := lt_of_not_ge hxy
      by_cases hx : key x = k
      · have hnone : (y :: ys).filter (fun a => decide (key a = k)) = [] := by
          rw [List.filter_eq_nil_iff]
          intro a ha
          have hle : key a ≤ key y := by
            rcases List.mem_cons.1 ha with rfl | ha
            · exact le_refl _
            · exact h'.1 a ha
          have : key a ≠ k := by
            rw [← hx]; exact ne_of_lt (lt_of_le_of_lt hle hlt)
          simpa using this
        rw [List.filter_cons, hnone]
        simp [hx]
      · rw [List.filter_cons]
        simp [hx]

theorem sortDesc_append_singleton (key : Nat → S) (l : List Nat) (x : Nat) :
    sortDesc key (l ++ [x]) = insertDesc key x (sortDesc key l) := by
  simp [sortDesc, List.foldl_append]

theorem sortDesc_nil (key : Nat → S) : sortDesc key [] = [] := rfl

/-- `sortDesc` permutes its input. -/
theorem sortDesc_perm (key : Nat → S) (l : List Nat) : (sortDesc key l).Perm l := by
  induction l using List.reverseRecOn with
  | nil => exact List.Perm.refl _
  | append_singleton l x ih =>
    rw [sortDesc_append_singleton]
    refine (insertDesc_perm key x _).trans ?_
    refine ((ih.cons x)).trans ?_
    exact (List.perm_append_singleton x l).symm

/-- `sortDesc` sorts by non-increasing key. -/
theorem sortDesc_sorted (key : Nat → S) (l : List Nat) : Desc key (sortDesc key l) := by
  induction l using List.reverseRecOn with
  | nil => exact List.Pairwise.nil
  | append_singleton l x ih =>
    rw [sortDesc_append_singleton]
    exact insertDesc_sorted key x _ ih

/-- `sortDesc` is stable (standard formulation): for every key value `k`, the elements of key
`k` appear in the output in exactly the order of the input. -/
theorem sortDesc_stable_filter (key : Nat → S) (l : List Nat) (k : S) :
    (sortDesc key l).filter (fun a => decide (key a = k)) =
      l.filter (fun a => decide (key a = k)) := by
  induction l using List.reverseRecOn with
  | nil => rfl
  | append_singleton l x ih =>
    rw [sortDesc_append_singleton, insertDesc_filter key x k _ (sortDesc_sorted key l), ih,
      List.filter_append]
    by_cases hx : key x = k <;> simp [hx]

/-- Stability, "occurs before" formulation: if `a` occurs before `b` in `l` (`[a, b]` is a
sublist of `l`) and they have the same key, then `a` occurs before `b` in the sorted list. -/
theorem sortDesc_stable (key : Nat → S) (l : List Nat) {a b : Nat}
    (hab : List.Sublist [a, b] l) (hk : key a = key b) :
    List.Sublist [a, b] (sortDesc key l) := by
  have h1 : List.Sublist ([a, b].filter (fun c => decide (key c = key b)))
      (l.filter (fun c => decide (key c = key b))) := hab.filter _
  rw [← sortDesc_stable_filter key l (key b)] at h1
  have h2 : [a, b].filter (fun c => decide (key c = key b)) = [a, b] := by
    simp [hk]
  rw [h2] at h1
  exact h1.trans List.filter_sublist

theorem sortDesc_length (key : Nat → S) (l : List Nat) : (sortDesc key l).length = l.length :=
  (sortDesc_perm key l).length_eq

theorem sortDesc_nodup (key : Nat → S) {l : List Nat} (h : l.Nodup) : (sortDesc key l).Nodup :=
  (sortDesc_perm key l).nodup_iff.2 h

end VR
end PyXAB
