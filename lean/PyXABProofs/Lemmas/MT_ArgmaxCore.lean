/-
  `argmaxFirst` (the model of `np.argmax`) for an arbitrary decidable `<`: it fails exactly on
  the empty list, and otherwise returns a valid index.  Core Lean only.
-/
import PyXABProofs.Spec.MetaSpec

namespace PyXAB.MT
open PyXAB

variable {S : Type}

theorem argmaxFirst_nil [LT S] [DecidableLT S] : argmaxFirst ([] : List S) = none := rfl

theorem argmaxFirst_eq_none_iff [LT S] [DecidableLT S] (V : List S) : argmaxFirst V = none ↔ V = [] := by
  cases V <;> simp [argmaxFirst]

theorem argmaxFirst_isSome [LT S] [DecidableLT S] {V : List S} (h : V ≠ []) :
    ∃ i, argmaxFirst V = some i := by
  cases V with
  | nil => exact absurd rfl h
  | cons x xs => exact ⟨_, rfl⟩

/-- the loop of `argmaxFirst` -/
def amStep [LT S] [DecidableLT S] (acc : Nat × Nat × S) (y : S) : Nat × Nat × S :=
  if acc.2.2 < y then (acc.1 + 1, acc.1 + 1, y) else (acc.1 + 1, acc.2.1, acc.2.2)

theorem argmaxFirst_cons [LT S] [DecidableLT S] (x : S) (xs : List S) :
    argmaxFirst (x :: xs) = some (xs.foldl amStep (0, 0, x)).2.1 := rfl


theorem amLoop_bound [LT S] [DecidableLT S] (xs : List S) : ∀ (acc : Nat × Nat × S), acc.2.1 ≤ acc.1 →
    (xs.foldl amStep acc).2.1 ≤ acc.1 + xs.length := by
  induction xs with
  | nil => intro acc h; simpa using h
  | cons y ys ih =>
    intro acc h
    rw [List.foldl_cons]
    have h1 : (amStep acc y).2.1 ≤ (amStep acc y).1 := by
      unfold amStep; split <;> simp <;> omega
    have h2 : (amStep acc y).1 = acc.1 + 1 := by
      unfold amStep; split <;> rfl
    have := ih (amStep acc y) h1
    rw [h2] at this
    simp only [List.length_cons]
    omega

/-- `argmaxFirst` returns a valid index -/
theorem argmaxFirst_lt_length [LT S] [DecidableLT S] {V : List S} {i : Nat}
    (h : argmaxFirst V = some i) : i < V.length := by
  cases V with
  | nil => cases h
  | cons x xs =>
    rw [argmaxFirst_cons] at h
    cases h
    have := amLoop_bound xs (0, 0, x) (Nat.le_refl _)
    simp only [List.length_cons]
    simp only [Nat.zero_add] at this
    omega

end PyXAB.MT
