/-
  T-HOO: `init` establishes `HOOInv`, `pull` never raises and stores a greedy path
  (`HOOReady`), `receive` after `pull` never raises and re-establishes `HOOInv`.
-/
import PyXABProofs.Lemmas.TBB_Expand

set_option linter.unusedSectionVars false

namespace PyXAB
namespace TBB

open Tree

variable {α R S : Type} [Add α] [Sub α] [Mul α] [Div α] [OfNat α 2] [NatCast α]
variable [LinearOrder S] [Inhabited S] [Inhabited R]

/-! ### `init` -/

/-- The arena right after the root has been split: every payload is `s0`, only the root is
an inner node. -/
theorem init_expand {s0 : TBSt R S} {k : Kind} {domain : Box α} {ds ds' : List (Draw α)}
    {P1 : Part α (TBSt R S)}
    (hds : ∀ d ∈ ds, DrawOKLen k domain.length d)
    (h : (Part.init k domain s0).expand s0 0 ds = .ok (P1, ds')) :
    WF P1 ∧ (∃ r cs, P1.nodes[0]? = some r ∧ r.children = some cs) ∧
      ∀ (i : Nat) (nd : Node α (TBSt R S)), P1.nodes[i]? = some nd →
        nd.st = s0 ∧ (0 < i → nd.children = none) := by
  have W0 := init_WF' k domain s0
  cases ds with
  | nil => simp [Part.expand, Part.init, Part.makeChildrenD, Part.popDraw, bind, Except.bind] at h
  | cons d ds =>
    have hp : (Part.init k domain s0).nodes[0]? = some
        { depth := 0, index := 1, parent := none, children := none, box := domain, st := s0 } := rfl
    obtain ⟨P', e1, W', S⟩ := expand_ok W0 s0 hp rfl ds
      (show DrawOKLen (Part.init k domain s0).kind (dimn (Part.init k domain s0)) d from
        hds d (List.mem_cons_self ..))
    rw [e1] at h
    obtain rfl : P' = P1 := by
      simp only [Except.ok.injEq, Prod.mk.injEq] at h; exact h.1
    refine ⟨W', ⟨_, _, S.atp, rfl⟩, fun i nd hnd => ?_⟩
    rcases S.inv hp hnd with ⟨x, h0, _, _, _, _, hst, hne, _⟩ | ⟨j, _, hi, _, _, _, hc, _, hst⟩
    · have hi0 : i = 0 := by
        have := lt_length_of_getElem? h0
        simp [Part.init] at this; exact this
      subst hi0
      obtain rfl := getElem?_inj hp h0
      exact ⟨hst, fun h => absurd h (Nat.lt_irrefl 0)⟩
    · exact ⟨hst, fun _ => hc⟩

theorem HOO_init_inv {cfg : HOOCfg R S} {k : Kind} {domain : Box α} {ds ds' : List (Draw α)}
    {s : HOO α R S} (hds : ∀ d ∈ ds, DrawOKLen k domain.length d)
    (h : HOO.init cfg k domain ds = .ok (s, ds')) :
    HOOInv cfg s ∧ s.iteration = 0 ∧ s.path = none := by
  unfold HOO.init at h
  simp only [bind, Except.bind, pure, Except.pure] at h
  split at h
  · cases h
  · next x hx =>
    obtain ⟨P1, ds1⟩ := x
    simp only [Except.ok.injEq, Prod.mk.injEq] at h
    obtain ⟨rfl, rfl⟩ := h
    obtain ⟨W, hroot, hall⟩ := init_expand hds hx
    refine ⟨⟨W, hroot, ?_, ?_, ?_, ?_⟩, rfl, rfl⟩
    · intro v nd hnd _
      rw [(hall v nd hnd).1]; exact ⟨rfl, rfl⟩
    · intro v nd hnd hc
      rw [(hall v nd hnd).1] at hc; simp [HOO.st0] at hc
    · intro v nd hnd hv hc
      exact absurd ((hall v nd hnd).2 hv) hc
    · intro v hv nd hnd
      obtain ⟨h1, h2⟩ := hall v nd hnd
      refine ⟨fun _ => by rw [h1]; rfl, fun cs hcs => ?_⟩
      rw [h2 hv] at hcs; cases hcs

theorem HOO_init_ok (cfg : HOOCfg R S) (k : Kind) (domain : Box α) (d : Draw α)
    (ds : List (Draw α)) (hd : DrawOKLen k domain.length d) :
    ∃ s, HOO.init cfg k domain (d :: ds) = .ok (s, ds) := by
  have W0 := init_WF' k domain (HOO.st0 cfg)
  have hp : (Part.init k domain (HOO.st0 cfg)).nodes[0]? = some
      { depth := 0, index := 1, parent := none, children := none, box := domain,
        st := HOO.st0 cfg } := rfl
  obtain ⟨P', e1, _, _⟩ := expand_ok W0 (HOO.st0 cfg) hp rfl ds
    (show DrawOKLen (Part.init k domain (HOO.st0 cfg)).kind
      (dimn (Part.init k domain (HOO.st0 cfg))) d from hd)
  exact ⟨_, by simp only [HOO.init, e1, bind, Except.bind, pure, Except.pure]; rfl⟩

/-! ### `pull` -/

theorem HOO_pull_spec {s s' : HOO α R S} {v : Nat}
    (h : HOO.pull s = .ok (s', v)) :
    s'.P = s.P ∧ s'.iteration = s.iteration ∧
      ∃ path, s'.path = some path ∧ GreedyPath s.P stopHOO path v := by
  unfold HOO.pull at h
  simp only [bind, Except.bind, pure, Except.pure] at h
  split at h
  · cases h
  · next path hpath =>
    split at h
    · cases h
    · next v' hv' =>
      simp only [Except.ok.injEq, Prod.mk.injEq] at h
      obtain ⟨rfl, rfl⟩ := h
      refine ⟨rfl, rfl, path, rfl, ?_⟩
      obtain ⟨rest, h1, h2⟩ := descend_spec _ _ _ _ _ _ hpath
      subst h1
      refine h2.idx.toPath hv' (fun nd _ hc => hc) (fun nd go hgo hor => ?_)
      rcases hor with rfl | hc
      · cases hgo
      · exact hc

theorem HOO_pull_ok {cfg : HOOCfg R S} {s : HOO α R S} (I : HOOInv cfg s) :
    ∃ s' v, HOO.pull s = .ok (s', v) := by
  obtain ⟨path, hpath⟩ := descend_ok I.wf (fun _ => .ok true) (fun _ _ _ => ⟨true, rfl⟩)
    (s.P.nodes.length + 1) 0 [0] I.wf.length_pos (by omega)
  obtain ⟨rest, h1, _⟩ := descend_spec _ _ _ _ _ _ hpath
  have hlast : ∃ v, path.getLast? = some v := by
    rw [h1]
    cases hr : ([0] ++ rest).getLast? with
    | none => simp at hr
    | some v => exact ⟨v, rfl⟩
  obtain ⟨v, hv⟩ := hlast
  exact ⟨_, v, by simp only [HOO.pull, hpath, hv, bind, Except.bind, pure, Except.pure]; rfl⟩

theorem HOO_pull_ready {cfg : HOOCfg R S} {s s' : HOO α R S} {v : Nat} (I : HOOInv cfg s)
    (h : HOO.pull s = .ok (s', v)) : HOOReady cfg s' v := by
  obtain ⟨h1, _, path, h3, h4⟩ := HOO_pull_spec h
  refine ⟨?_, path, h3, by rw [h1]; exact h4⟩
  exact ⟨by rw [h1]; exact I.wf, by rw [h1]; exact I.root_split, by rw [h1]; exact I.unvisited,
    by rw [h1]; exact I.visited, by rw [h1]; exact I.inner_visited, by rw [h1]; exact I.brec⟩

/-! ### `receive` -/

/-- the payload update of `updateReward` -/
def hooUpd (cfg : HOOCfg R S) (r : R) (st : TBSt R S) : TBSt R S :=
  { st with count := st.count + 1, rewards := st.rewards ++ [r],
            mean := cfg.meanOf (st.rewards ++ [r]) (st.count + 1) }

/-- payload of node `j` after the first two phases of `receive` -/
def hooF (cfg : HOOCfg R S) (r : R) (path : List Nat) (j : Nat) (nd : Node α (TBSt R S)) :
    TBSt R S :=
  HOO.computeU cfg { nd with st := if j ∈ path then hooUpd cfg r nd.st else nd.st }

theorem HOO_phase12 {cfg : HOOCfg R S} {P : Part α (TBSt R S)} (W : WF P) (r : R)
    {path : List Nat} (hnd : path.Nodup) :
    Upd P (forListed (path.foldl (fun P id => HOO.updateReward cfg P id r) P) (HOO.computeU cfg))
      (hooF cfg r path) := by
  have U1 := foldl_upd (fun (P : Part α (TBSt R S)) id => HOO.updateReward cfg P id r)
    (fun nd => hooUpd cfg r nd.st)
    (fun P id => modifySt_upd P id (hooUpd cfg r)) path hnd P
  have U2 := forListed_upd (U1.skel.wf W) (HOO.computeU cfg)
  exact U1.comp U2

theorem HOO_receive_eq {cfg : HOOCfg R S} {s : HOO α R S} {r : R} {ds ds' : List (Draw α)}
    {path : List Nat} {last : Nat} {nd : Node α (TBSt R S)} {P3 P4 : Part α (TBSt R S)}
    (hpath : s.path = some path) (hlast : path.getLast? = some last)
    (hnd : (forListed (path.foldl (fun P id => HOO.updateReward cfg P id r) s.P)
      (HOO.computeU cfg)).nodes[last]? = some nd)
    (hexp : (if cfg.expandOK nd.depth then
        (forListed (path.foldl (fun P id => HOO.updateReward cfg P id r) s.P)
          (HOO.computeU cfg)).expand (HOO.st0 cfg) last ds
      else .ok (forListed (path.foldl (fun P id => HOO.updateReward cfg P id r) s.P)
          (HOO.computeU cfg), ds)) = .ok (P3, ds'))
    (hback : backward cfg.negInf P3 = .ok P4) :
    HOO.receive cfg s r ds = .ok ({ s with P := P4, iteration := s.iteration + 1 }, ds') := by
  unfold HOO.receive
  simp only [hpath, hlast, hnd, hexp, hback, bind, Except.bind, pure, Except.pure]

theorem hooF_count (cfg : HOOCfg R S) (r : R) (path : List Nat) (j : Nat)
    (nd : Node α (TBSt R S)) :
    (hooF cfg r path j nd).count = if j ∈ path then nd.st.count + 1 else nd.st.count := by
  unfold hooF HOO.computeU hooUpd
  by_cases hj : j ∈ path <;> simp only [hj, if_true, if_false] <;> split <;> rfl

/-- after phases 1–2 visited nodes carry the formulas, unvisited ones keep `u` and get
`b = inf` -/
theorem hooF_spec (cfg : HOOCfg R S) (r : R) (path : List Nat) (j : Nat)
    (nd : Node α (TBSt R S)) :
    let st := hooF cfg r path j nd
    (0 < st.count → st.mean = cfg.meanOf st.rewards st.count ∧
        st.u = cfg.uOf (cfg.meanOf st.rewards st.count) st.count nd.depth) ∧
    (st.count = 0 → st.u = nd.st.u ∧ st.b = cfg.inf ∧ j ∉ path) := by
  unfold hooF HOO.computeU hooUpd
  by_cases hj : j ∈ path
  · simp [hj]
  · simp only [hj, if_false]
    split
    · next h0 => simp [h0]
    · next h0 => simp; omega

/-- **`receive` after `pull`**: never raises (given a well-formed draw), re-establishes the
invariant, increments the round counter. -/
theorem HOO_receive_inv {cfg : HOOCfg R S} (hbot : ∀ x, cfg.negInf ≤ x) {s : HOO α R S} {v : Nat}
    (Rd : HOOReady cfg s v) (r : R) (d : Draw α) (ds : List (Draw α))
    (hd : DrawOKLen s.P.kind (dimn s.P) d) :
    ∃ s' ds', HOO.receive cfg s r (d :: ds) = .ok (s', ds') ∧ HOOInv cfg s' ∧
      s'.iteration = s.iteration + 1 := by
  obtain ⟨I, path, hpath, G⟩ := Rd
  have W := I.wf
  obtain ⟨hpw, h0mem, hvmem, hvalid⟩ := G.facts W
  have hnodup : path.Nodup := hpw.imp (fun h => Nat.ne_of_lt h)
  have U := HOO_phase12 (cfg := cfg) W r hnodup
  have W2 := U.skel.wf W
  -- the pulled node
  obtain ⟨ndv, hv1, hv2⟩ := G.stop
  have hv2 : ndv.children = none := hv2
  have hnd2 := U.get hv1
  -- expansion (or not)
  obtain ⟨P3, ds', hexp, W3, Gr⟩ : ∃ P3 ds',
      (if cfg.expandOK ndv.depth then
        (forListed (path.foldl (fun P id => HOO.updateReward cfg P id r) s.P)
          (HOO.computeU cfg)).expand (HOO.st0 cfg) v (d :: ds)
      else .ok (forListed (path.foldl (fun P id => HOO.updateReward cfg P id r) s.P)
          (HOO.computeU cfg), d :: ds)) = .ok (P3, ds') ∧ WF P3 ∧
      Grow (forListed (path.foldl (fun P id => HOO.updateReward cfg P id r) s.P)
          (HOO.computeU cfg)) P3 (HOO.st0 cfg) v := by
    by_cases hex : cfg.expandOK ndv.depth = true
    · have hd' : DrawOKLen (forListed (path.foldl (fun P id => HOO.updateReward cfg P id r) s.P)
          (HOO.computeU cfg)).kind (dimn (forListed (path.foldl
            (fun P id => HOO.updateReward cfg P id r) s.P) (HOO.computeU cfg))) d := by
        rw [U.skel.kind, U.skel.dimn_eq]; exact hd
      obtain ⟨P3, e1, W3, St⟩ := expand_ok W2 (HOO.st0 cfg) hnd2 hv2 ds hd'
      exact ⟨P3, ds, by rw [if_pos hex]; exact e1, W3, Step.grow St W2 hnd2 hv2⟩
    · exact ⟨_, _, by rw [if_neg hex], W2, Grow.refl _ _ _⟩
  obtain ⟨P4, hback, OB, hroot4, hbrec⟩ := backward_spec hbot W3
  refine ⟨_, ds', HOO_receive_eq hpath G.last hnd2 hexp hback, ?_, rfl⟩
  -- description of every node of the final arena
  have hdesc : ∀ (i : Nat) (nd4 : Node α (TBSt R S)), P4.nodes[i]? = some nd4 →
      ∃ nd3, P3.nodes[i]? = some nd3 ∧ nd4.children = nd3.children ∧ nd4.depth = nd3.depth ∧
        nd4.st.count = nd3.st.count ∧ nd4.st.rewards = nd3.st.rewards ∧
        nd4.st.mean = nd3.st.mean ∧ nd4.st.u = nd3.st.u ∧
        ((∃ x0, s.P.nodes[i]? = some x0 ∧ nd3.depth = x0.depth ∧
            nd3.st = hooF cfg r path i x0 ∧ (i ≠ v → nd3.children = x0.children)) ∨
          (nd3.st = HOO.st0 cfg ∧ nd3.children = none ∧ 0 < i)) := by
    intro i nd4 h4
    obtain ⟨nd3, h3, e⟩ := OB.inv h4
    refine ⟨nd3, h3, by rw [e], by rw [e], by rw [e], by rw [e], by rw [e], by rw [e], ?_⟩
    rcases Gr.cases h3 with ⟨x2, g1, g2, g3, g4⟩ | ⟨_, g2, g3, g4⟩
    · left
      obtain ⟨x0, u1, u2⟩ := U.get_inv g1
      refine ⟨x0, u1, by rw [g2, u2], by rw [g3, u2], fun hi => ?_⟩
      rw [g4 (Or.inl hi), u2]
    · exact Or.inr ⟨g2, g3, g4⟩
  have hinner : ∀ (i : Nat) (nd4 : Node α (TBSt R S)), P4.nodes[i]? = some nd4 → 0 < i →
      nd4.children ≠ none → 0 < nd4.st.count := by
    intro i nd4 h4 hi hc
    obtain ⟨nd3, _, e1, _, e3, _, _, _, hor⟩ := hdesc i nd4 h4
    rcases hor with ⟨x0, a1, _, a3, a4⟩ | ⟨_, a2, _⟩
    · rw [e3, a3, hooF_count]
      by_cases hiv : i = v
      · subst hiv; simp [hvmem]
      · have : 0 < x0.st.count := I.inner_visited i x0 a1 hi (by rw [← a4 hiv, ← e1]; exact hc)
        split <;> omega
    · rw [e1, a2] at hc; exact absurd rfl hc
  refine ⟨W3 |> OB.skel.wf, ?_, ?_, ?_, hinner, hbrec⟩
  · -- the root stays split
    obtain ⟨r0, cs, q1, q2⟩ := I.root_split
    have h0v : (0 : Nat) ≠ v := by
      rintro rfl
      obtain rfl := getElem?_inj q1 hv1
      rw [hv2] at q2; cases q2
    obtain ⟨x2, g1, _, _, g4⟩ := Gr.old 0 _ (U.get q1)
    obtain ⟨b, hb⟩ := OB.node 0 x2 g1
    exact ⟨_, cs, hb, by simpa [g4 (Or.inl h0v)] using q2⟩
  · -- unvisited
    intro i nd4 h4 hc
    obtain ⟨nd3, h3, e1, _, e3, _, _, e6, hor⟩ := hdesc i nd4 h4
    have hu3 : nd3.st.u = cfg.inf ∧ nd3.st.b = cfg.inf := by
      rcases hor with ⟨x0, a1, _, a3, _⟩ | ⟨a1, _⟩
      · have hs := (hooF_spec cfg r path i x0).2 (by rw [← a3, ← e3]; exact hc)
        have hx0 : x0.st.count = 0 := by
          have := hooF_count cfg r path i x0
          rw [← a3, ← e3, hc, if_neg hs.2.2] at this
          exact this.symm
        rw [a3]
        exact ⟨hs.1.trans (I.unvisited i x0 a1 hx0).1, hs.2.1⟩
      · rw [a1]; exact ⟨rfl, rfl⟩
    refine ⟨e6.trans hu3.1, ?_⟩
    by_cases hi : 0 < i
    · obtain ⟨l1, l2⟩ := hbrec i hi nd4 h4
      cases hch : nd4.children with
      | none => rw [l1 hch, e6]; exact hu3.1
      | some cs =>
        have := hinner i nd4 h4 hi (by rw [hch]; simp)
        omega
    · have hi0 : i = 0 := by omega
      subst hi0
      rw [hroot4, h3] at h4
      obtain rfl := Option.some.inj h4
      exact hu3.2
  · -- visited
    intro i nd4 h4 hc
    obtain ⟨nd3, _, _, e2, e3, e4, e5, e6, hor⟩ := hdesc i nd4 h4
    rcases hor with ⟨x0, a1, a2, a3, _⟩ | ⟨a1, _⟩
    · have hs := (hooF_spec cfg r path i x0).1 (by rw [← a3, ← e3]; exact hc)
      rw [e5, e6, e4, e3, e2, a2, a3]
      exact hs
    · rw [e3, a1] at hc; simp [HOO.st0] at hc

end TBB
end PyXAB
