/-
  C01, geometry backbone: the invariant `BoxInv` / `DomInv` ("every cell of the arena is a valid
  sub-box of the domain") is established by `Part.init`, kept by every payload-only update
  (`PRel`) and by every `make_children` whose draw fits the box being split.
-/
import PyXABProofs.Spec.TotalSpec
import PyXABProofs.Lemmas.ZM_Tree
import PyXABProofs.Lemmas.TBA_Ops

set_option linter.unusedSectionVars false
set_option linter.unusedVariables false

namespace PyXAB
namespace TT
open _root_.PyXAB.Tree TBA

/-! ### Generic facts (no order structure) -/
section plain
variable {α σ : Type}

theorem Keeps.refl (P : Part α σ) : Keeps P P := fun _ nd h => ⟨nd, h, rfl⟩

theorem Keeps.trans {P P' P'' : Part α σ} (h1 : Keeps P P') (h2 : Keeps P' P'') : Keeps P P'' := by
  intro i nd hi
  obtain ⟨nd', a1, a2⟩ := h1 i nd hi
  obtain ⟨nd'', b1, b2⟩ := h2 i nd' a1
  exact ⟨nd'', b1, b2.trans a2⟩

theorem Keeps.of_prel {ρ : Nat → Node α σ → Node α σ → Prop} {P P' : Part α σ}
    (h : PRel ρ P P') : Keeps P P' := by
  intro i nd hi
  obtain ⟨nd', a1, a2, _⟩ := h.node i nd hi
  exact ⟨nd', a1, a2.box⟩

theorem Keeps.of_eq {P P' : Part α σ} (h : P' = P) : Keeps P P' := h ▸ Keeps.refl P

theorem Keeps.len_le {P P' : Part α σ} (h : Keeps P P') : P.nodes.length ≤ P'.nodes.length := by
  by_cases h0 : P.nodes.length = 0
  · omega
  · have hlt : P.nodes.length - 1 < P.nodes.length := by omega
    obtain ⟨nd', a1, _⟩ := h _ _ (List.getElem?_eq_getElem hlt)
    have := lt_length_of_getElem? a1
    omega

theorem Keeps.valid {P P' : Part α σ} (h : Keeps P P') {v : Nat} (hv : v < P.nodes.length) :
    v < P'.nodes.length := Nat.lt_of_lt_of_le hv h.len_le

theorem Keeps.boxOf {P P' : Part α σ} (h : Keeps P P') {v : Nat} (hv : v < P.nodes.length) :
    boxOf P' v = boxOf P v := by
  obtain ⟨nd', a1, a2⟩ := h v _ (List.getElem?_eq_getElem hv)
  simp only [TT.boxOf, a1, List.getElem?_eq_getElem hv, a2]

/-- The point handed out for the cell `v` never changes afterwards. -/
theorem Keeps.ptOf [Add α] [Div α] [OfNat α 2] {P P' : Part α σ} (h : Keeps P P') {v : Nat}
    (hv : v < P.nodes.length) : ptOf P' v = ptOf P v := by
  unfold TT.ptOf
  rw [h.boxOf hv]

/-- the trivial payload relation -/
def AnyR : Nat → Node α σ → Node α σ → Prop := fun _ _ _ => True

theorem closed_AnyR : Closed (AnyR (α := α) (σ := σ)) :=
  ⟨fun _ _ => trivial, fun _ _ _ _ _ _ _ _ => trivial⟩

/-- `Geo P P'`: `P'` is `P` up to payloads. -/
abbrev Geo (P P' : Part α σ) : Prop := PRel AnyR P P'

theorem Geo.of_prel {ρ : Nat → Node α σ → Node α σ → Prop} {P P' : Part α σ} (h : PRel ρ P P') :
    Geo P P' := h.mono (fun _ _ _ _ _ => trivial)

theorem Geo.refl (P : Part α σ) : Geo P P := PRel.refl' closed_AnyR P

theorem Geo.trans {P P' P'' : Part α σ} (h1 : Geo P P') (h2 : Geo P' P'') : Geo P P'' :=
  PRel.comp closed_AnyR h1 h2

theorem Geo.modifySt (P : Part α σ) (i : Nat) (f : σ → σ) : Geo P (P.modifySt i f) :=
  Geo.of_prel (PRel_modifySt P i f)

theorem Geo.foldl {γ : Type} (step : Part α σ → γ → Part α σ) (hstep : ∀ Q x, Geo Q (step Q x))
    (l : List γ) (P : Part α σ) : Geo P (l.foldl step P) :=
  PRel_foldl closed_AnyR step hstep l P

/-- A monadic fold which returned kept every invariant its steps keep. -/
theorem foldlM_ok_inv {β γ : Type} (I : β → Prop) (f : β → γ → Except Err β) :
    ∀ (l : List γ) (b b' : β), I b → (∀ b x b', I b → f b x = .ok b' → I b') →
      l.foldlM f b = .ok b' → I b'
  | [], b, b', hb, _, h => by
    simp only [List.foldlM_nil, pure, Except.pure, Except.ok.injEq] at h
    exact h ▸ hb
  | x :: l, b, b', hb, hf, h => by
    rw [List.foldlM_cons] at h
    cases hx : f b x with
    | error e => simp [hx, bind, Except.bind] at h
    | ok b1 =>
      simp only [hx, bind, Except.bind] at h
      exact foldlM_ok_inv I f l b1 b' (hf b x b1 hb hx) hf h

/-- inversion of a successful `bind` in `Except` -/
theorem bind_ok {ε β γ : Type} {x : Except ε β} {f : β → Except ε γ} {c : γ}
    (h : (x >>= f) = .ok c) : ∃ b, x = .ok b ∧ f b = .ok c := by
  cases x with
  | error e => cases h
  | ok b => exact ⟨b, rfl, h⟩

theorem dimn_of_boxInv [LE α] {root : Box α} {P : Part α σ} (W : WF P) (hB : BoxInv root P) :
    dimn P = root.length := by
  obtain ⟨r, hr, _⟩ := W.root
  simp only [dimn, hr]
  exact (hB 0 r hr).2.2

theorem forListed_geo (f : Node α σ → σ) (P : Part α σ) : Geo P (forListed P f) :=
  forListed_rel closed_AnyR f (fun _ _ _ _ _ => trivial) P

section backward
variable {R S : Type} [Max S] [Min S] [Inhabited S] [Inhabited R]

theorem backward_geo (negInf : S) {P P' : Part α (TBSt R S)} (h : backward negInf P = .ok P') :
    Geo P P' := by
  unfold backward at h
  refine foldlM_ok_inv (fun Q => Geo P Q) _ _ P P' (Geo.refl P) ?_ h
  intro Q i Q' hQ hstep
  split at hstep
  · split at hstep
    · simp only [Except.ok.injEq] at hstep
      subst hstep
      exact hQ.trans (Geo.of_prel (backwardLayer_rel negInf Q _))
    · cases hstep
  · cases hstep

end backward

section mk
variable [Add α] [Sub α] [Mul α] [Div α] [OfNat α 2] [NatCast α]

theorem makeChildrenD_ok {P P' : Part α σ} {s0 : σ} {p : Nat} {nl : Bool} {ds ds' : List (Draw α)}
    (h : P.makeChildrenD s0 p nl ds = .ok (P', ds')) :
    ∃ d, ds = d :: ds' ∧ P.makeChildren s0 p nl d = .ok P' := by
  unfold Part.makeChildrenD at h
  cases ds with
  | nil => simp [Part.popDraw, bind, Except.bind] at h
  | cons d rest =>
    simp only [Part.popDraw, bind, Except.bind] at h
    cases hm : P.makeChildren s0 p nl d with
    | error e => simp [hm] at h
    | ok P1 =>
      simp only [hm, pure, Except.pure, Except.ok.injEq, Prod.mk.injEq] at h
      obtain ⟨h1, h2⟩ := h
      subst h1 h2
      exact ⟨d, rfl, hm⟩

/-- `make_children` keeps the old cells and their boxes. -/
theorem makeChildren_keeps {P P' : Part α σ} {s0 : σ} {p : Nat} {nl : Bool} {d : Draw α}
    (h : P.makeChildren s0 p nl d = .ok P') : Keeps P P' := by
  cases hp : P.nodes[p]? with
  | none => simp [Part.makeChildren, hp] at h
  | some nd =>
    obtain ⟨hn, _⟩ := ZM.makeChildren_nodes hp h
    intro i x hi
    have hlt := lt_length_of_getElem? hi
    rw [hn, List.getElem?_append_left (by simpa using hlt), List.getElem?_set]
    by_cases e : p = i
    · subst e
      obtain rfl := getElem?_inj hp hi
      simp [hlt]
    · simp [e, hi]

end mk
end plain

/-! ### Facts which need the order of the coordinates -/
section order
variable {α σ : Type} [LinearOrder α]

theorem DomInv.of_prel {ρ : Nat → Node α σ → Node α σ → Prop} {k : Kind} {root : Box α}
    {P P' : Part α σ} (h : PRel ρ P P') (hD : DomInv k root P) : DomInv k root P' := by
  refine ⟨h.kind.trans hD.kind, fun i nd' hi => ?_⟩
  obtain ⟨nd, a1, a2, _⟩ := h.bwd hi
  rw [a2.box]
  exact hD.box i nd a1

theorem SplitFits.of_prel {ρ : Nat → Node α σ → Node α σ → Prop} {k : Kind} {root : Box α}
    {P P' : Part α σ} {p : Nat} {ds : List (Draw α)} (h : PRel ρ P P')
    (hS : SplitFits k root P p ds) : SplitFits k root P' p ds := by
  intro nd' hi
  obtain ⟨nd, a1, a2, _⟩ := h.bwd hi
  rw [a2.box]
  exact hS nd a1

theorem SplitFits.of_prel_back {ρ : Nat → Node α σ → Node α σ → Prop} {k : Kind} {root : Box α}
    {P P' : Part α σ} {p : Nat} {ds : List (Draw α)} (h : PRel ρ P P')
    (hS : SplitFits k root P' p ds) : SplitFits k root P p ds := by
  intro nd hi
  obtain ⟨nd', a1, a2, _⟩ := h.node p nd hi
  rw [← a2.box]
  exact hS nd' a1

theorem DomInv.init {k : Kind} {root : Box α} (hv : Box.Valid root) (s0 : σ) :
    DomInv k root (Part.init k root s0) := by
  refine ⟨rfl, fun i nd hi => ?_⟩
  have hlt := lt_length_of_getElem? hi
  simp only [Part.init, List.length_cons, List.length_nil] at hlt
  obtain rfl : i = 0 := by omega
  simp only [Part.init, List.getElem?_cons_zero, Option.some.injEq] at hi
  subst hi
  exact ⟨Box.Subset.refl root, hv, rfl⟩

/-- For the deterministic partition classes the NumPy guarantee is the well-formedness of the
draw. -/
theorem drawFits_of_det {k : Kind} (hk : Kind.Deterministic k) {root b : Box α} {d : Draw α}
    (hd : DrawOKLen k root.length d) : DrawFits k root b d := by
  intro _ hs
  have hl : b.length = root.length := Box.Subset.length_eq hs
  cases k with
  | binary => simpa [DrawOK, DrawOKLen, hl] using hd
  | dimBinary => trivial
  | kary K =>
    simp only [DrawOKLen] at hd
    simp only [DrawOK, hl]
    exact ⟨hd.2, hd.1⟩
  | randBinary => exact absurd hk (by simp [Kind.Deterministic])
  | randKary K => exact absurd hk (by simp [Kind.Deterministic])

theorem headFits_of_det {k : Kind} (hk : Kind.Deterministic k) {root b : Box α}
    {ds : List (Draw α)} (hd : ∀ d ∈ ds, DrawOKLen k root.length d) : HeadFits k root b ds := by
  cases ds with
  | nil => trivial
  | cons d rest => exact drawFits_of_det hk (hd d (List.mem_cons_self ..))

theorem splitFits_of_det {k : Kind} (hk : Kind.Deterministic k) {root : Box α} {P : Part α σ}
    {p : Nat} {ds : List (Draw α)} (hd : ∀ d ∈ ds, DrawOKLen k root.length d) :
    SplitFits k root P p ds := fun _ _ => headFits_of_det hk hd

theorem evDraws_of_det {S : Type} {k : Kind} (hk : Kind.Deterministic k) {root : Box α} :
    ∀ (ds : List (Draw α)) (evs : List (SW.Ev α σ S)), (∀ d ∈ ds, DrawOKLen k root.length d) →
      EvDraws k root ds evs
  | _, [], _ => by simp [EvDraws]
  | [], _ :: _, _ => by simp [EvDraws]
  | d :: ds, ev :: evs, h => by
    simp only [EvDraws]
    exact ⟨fun _ _ => drawFits_of_det hk (h d (List.mem_cons_self ..)),
      evDraws_of_det hk ds evs (fun d' hd' => h d' (List.mem_cons_of_mem _ hd'))⟩

end order

/-! ### `make_children` -/
section field
variable {α σ : Type} [Field α] [LinearOrder α] [IsStrictOrderedRing α]

/-- **`make_children` with a fitting draw keeps the invariant**: the children are valid
sub-boxes of the split cell (`C02.childBoxes_tiles`), hence of the domain. -/
theorem makeChildren_dom {k : Kind} {root : Box α} {P P' : Part α σ} {s0 : σ} {p : Nat}
    {nd : Node α σ} {nl : Bool} {d : Draw α} (hD : DomInv k root P) (hp : P.nodes[p]? = some nd)
    (hd : DrawFits k root nd.box d) (h : P.makeChildren s0 p nl d = .ok P') :
    DomInv k root P' ∧ Keeps P P' := by
  refine ⟨?_, makeChildren_keeps h⟩
  obtain ⟨hn, hk⟩ := ZM.makeChildren_nodes hp h
  obtain ⟨ps, pv, pl⟩ := hD.box p nd hp
  have hok : DrawOK P.kind nd.box d := by rw [hD.kind]; exact hd pv ps
  have hT := (C02.childBoxes_tiles P.kind nd.box d pv hok).1
  refine ⟨hk.trans hD.kind, fun i x hi => ?_⟩
  rw [hn] at hi
  by_cases hlt : i < P.nodes.length
  · rw [List.getElem?_append_left (by simpa using hlt), List.getElem?_set] at hi
    by_cases e : p = i
    · subst e
      simp only [hlt, if_true, Option.some.injEq] at hi
      subst hi
      exact ⟨ps, pv, pl⟩
    · simp only [e, if_false] at hi
      exact hD.box i x hi
  · rw [List.getElem?_append_right (by simpa using Nat.le_of_not_lt hlt)] at hi
    have hb := ZM.newKids_getElem?_box hi
    obtain ⟨c1, c2⟩ := hT.1 x.box (List.mem_of_getElem? hb)
    exact ⟨c1.trans ps, c2, (Box.Subset.length_eq c1).trans pl⟩

theorem makeChildrenD_dom {k : Kind} {root : Box α} {P P' : Part α σ} {s0 : σ} {p : Nat}
    {nl : Bool} {ds ds' : List (Draw α)} (hD : DomInv k root P) (hS : SplitFits k root P p ds)
    (h : P.makeChildrenD s0 p nl ds = .ok (P', ds')) : DomInv k root P' ∧ Keeps P P' := by
  obtain ⟨d, rfl, hm⟩ := makeChildrenD_ok h
  cases hp : P.nodes[p]? with
  | none => simp [Part.makeChildren, hp] at hm
  | some nd => exact makeChildren_dom hD hp (hS nd hp) hm

theorem expand_dom {k : Kind} {root : Box α} {P P' : Part α σ} {s0 : σ} {p : Nat}
    {ds ds' : List (Draw α)} (hD : DomInv k root P) (hS : SplitFits k root P p ds)
    (h : P.expand s0 p ds = .ok (P', ds')) : DomInv k root P' ∧ Keeps P P' := by
  unfold Part.expand at h
  cases hp : P.nodes[p]? with
  | none => simp [hp] at h
  | some nd =>
    simp only [hp] at h
    exact makeChildrenD_dom hD hS h

/-- conditional expansion, as in the three `receive_reward`s -/
theorem expand_if_dom {k : Kind} {root : Box α} {P P' : Part α σ} {s0 : σ} {p : Nat} {c : Bool}
    {ds ds' : List (Draw α)} (hD : DomInv k root P) (hS : SplitFits k root P p ds)
    (h : (if c = true then P.expand s0 p ds else .ok (P, ds)) = .ok (P', ds')) :
    DomInv k root P' ∧ Keeps P P' := by
  cases c with
  | true => exact expand_dom hD hS (by simpa using h)
  | false =>
    simp only [Bool.false_eq_true, if_false, Except.ok.injEq, Prod.mk.injEq] at h
    obtain ⟨rfl, _⟩ := h
    exact ⟨hD, Keeps.refl _⟩

/-- A cell of a tree satisfying the invariant: its representative point is a `d`-vector inside
the domain. -/
theorem BoxInv.cpoint {root : Box α} {P : Part α σ} (hB : BoxInv root P) {i : Nat}
    {nd : Node α σ} (hi : P.nodes[i]? = some nd) :
    Box.Mem root (Box.cpoint nd.box) ∧ (Box.cpoint nd.box).length = root.length := by
  obtain ⟨ps, pv, pl⟩ := hB i nd hi
  exact ⟨Box.mem_of_subset ps (C02.cpoint_mem nd.box pv), (cpoint_length nd.box).trans pl⟩

theorem DomInv.pointOK {k : Kind} {root : Box α} {P : Part α σ} (hD : DomInv k root P) {v : Nat}
    (hv : v < P.nodes.length) : PointOK root P v := by
  have hi : P.nodes[v]? = some P.nodes[v] := List.getElem?_eq_getElem hv
  have := hD.box.cpoint hi
  refine ⟨hv, ?_, ?_⟩ <;> simp only [ptOf, boxOf, hi]
  · exact this.1
  · exact this.2

theorem PointOK.keeps {root : Box α} {P P' : Part α σ} {v : Nat} (h : PointOK root P v)
    (hK : Keeps P P') : PointOK root P' v := by
  obtain ⟨h1, h2, h3⟩ := h
  exact ⟨hK.valid h1, by rw [hK.ptOf h1]; exact h2, by rw [hK.ptOf h1]; exact h3⟩

/-! ### Trees grown from the root (`ZM.Grown`) -/

/-- **node_box_subset_root**: in a tree grown from a `Valid` root box, EVERY cell (leaf or not)
is a valid sub-box of the root box, of the same dimension. -/
theorem grown_domInv {k : Kind} {root : Box α} {s0 : σ} {P : Part α σ} (hroot : Box.Valid root)
    (hG : ZM.Grown k root s0 P) : DomInv k root P := by
  induction hG with
  | init => exact DomInv.init hroot s0
  | mk _ hp _ _ hd hm ih =>
    exact (makeChildren_dom ih hp (fun _ _ => by rw [← ih.kind]; exact hd) hm).1

end field
end TT
end PyXAB
