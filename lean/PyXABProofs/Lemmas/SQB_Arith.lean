/-
  Arithmetic of the opening schedule of SequOOL: the schedule `⌊hmax / h⌋`, `h = 1 … hmax`,
  sums to at most `hmax * H_hmax` (`H` the harmonic numbers), hence to at most `n` when
  `hmax = ⌊n / H_n⌋`.
-/
import Mathlib.NumberTheory.Harmonic.Defs
import Mathlib.Data.Rat.Floor
import Mathlib.Data.Nat.Cast.Order.Field
import Mathlib.Algebra.Order.BigOperators.Group.Finset
import Mathlib.Algebra.BigOperators.Intervals
import Mathlib.Algebra.BigOperators.Field
import Mathlib.Order.Interval.Finset.Nat
import Mathlib.Order.Monotone.Basic
import Mathlib.Tactic.Positivity
import Mathlib.Tactic.Linarith
import Mathlib.Tactic.NormNum
import Mathlib.Tactic.FieldSimp

namespace PyXAB
namespace SQ
namespace Budget

open Finset

/-- the harmonic number as a sum over `1 … n` -/
theorem harmonic_eq_sum_Icc (n : ℕ) : harmonic n = ∑ i ∈ Icc 1 n, ((i : ℚ))⁻¹ := by
  induction n with
  | zero => simp
  | succ n ih => rw [harmonic_succ, Finset.sum_Icc_succ_top (by omega), ih]

theorem harmonic_mono : Monotone harmonic := by
  apply monotone_nat_of_le_succ
  intro n
  rw [harmonic_succ]
  have : (0 : ℚ) ≤ ((n + 1 : ℕ) : ℚ)⁻¹ := by positivity
  linarith

theorem harmonic_nonneg (n : ℕ) : 0 ≤ harmonic n := by
  have := harmonic_mono (Nat.zero_le n)
  simpa using this

theorem one_le_harmonic {n : ℕ} (hn : 1 ≤ n) : 1 ≤ harmonic n := by
  have := harmonic_mono hn
  simpa [harmonic] using this

/-- the schedule sums to at most `hmax * H_hmax` -/
theorem sum_div_le_mul_harmonic (hmax : ℕ) :
    ((∑ h ∈ Icc 1 hmax, hmax / h : ℕ) : ℚ) ≤ hmax * harmonic hmax := by
  rw [harmonic_eq_sum_Icc, Finset.mul_sum]
  push_cast
  apply Finset.sum_le_sum
  intro h _
  rw [← div_eq_mul_inv]
  exact Nat.cast_div_le

theorem floor_le_self {n hmax : ℕ} (hn : 1 ≤ n) (hh : hmax = ⌊(n : ℚ) / harmonic n⌋₊) :
    hmax ≤ n := by
  have h1 := one_le_harmonic hn
  have h0 : (0 : ℚ) ≤ (n : ℚ) / harmonic n := by positivity
  have h2 : (hmax : ℚ) ≤ (n : ℚ) / harmonic n := by rw [hh]; exact Nat.floor_le h0
  have h3 : (n : ℚ) / harmonic n ≤ n := div_le_self (by positivity) h1
  exact_mod_cast h2.trans h3

theorem mul_harmonic_le {n hmax : ℕ} (hn : 1 ≤ n) (hh : hmax = ⌊(n : ℚ) / harmonic n⌋₊) :
    (hmax : ℚ) * harmonic hmax ≤ n := by
  have h1 := one_le_harmonic hn
  have hpos : (0 : ℚ) < harmonic n := by linarith
  have h0 : (0 : ℚ) ≤ (n : ℚ) / harmonic n := by positivity
  have h2 : (hmax : ℚ) ≤ (n : ℚ) / harmonic n := by rw [hh]; exact Nat.floor_le h0
  have h3 : harmonic hmax ≤ harmonic n := harmonic_mono (floor_le_self hn hh)
  calc (hmax : ℚ) * harmonic hmax ≤ (hmax : ℚ) * harmonic n :=
        mul_le_mul_of_nonneg_left h3 (by positivity)
    _ ≤ ((n : ℚ) / harmonic n) * harmonic n := mul_le_mul_of_nonneg_right h2 hpos.le
    _ = n := div_mul_cancel₀ _ hpos.ne'

theorem sum_div_le_budget_rat {n hmax : ℕ} (hn : 1 ≤ n)
    (hh : hmax = ⌊(n : ℚ) / harmonic n⌋₊) :
    ((∑ h ∈ Icc 1 hmax, hmax / h : ℕ) : ℚ) ≤ n :=
  (sum_div_le_mul_harmonic hmax).trans (mul_harmonic_le hn hh)

theorem sum_div_le_budget {n hmax : ℕ} (hn : 1 ≤ n) (hh : hmax = ⌊(n : ℚ) / harmonic n⌋₊) :
    ∑ h ∈ Icc 1 hmax, hmax / h ≤ n := by
  exact_mod_cast sum_div_le_budget_rat hn hh

/-! ### Values -/

theorem harmonic_10 : harmonic 10 = 7381 / 2520 := by
  simp only [harmonic, Finset.sum_range_succ, Finset.sum_range_zero]
  norm_num

theorem floor_10 : ⌊(10 : ℚ) / harmonic 10⌋₊ = 3 := by
  rw [harmonic_10, Nat.floor_eq_iff (by positivity)]
  norm_num

end Budget
end SQ
end PyXAB
