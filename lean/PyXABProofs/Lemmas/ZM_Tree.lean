/-
  Tree-level geometry: the effect of one `make_children` on the list of leaf boxes, and the
  theorem `leaves_tile_root`.
-/
import PyXABProofs.Spec.ZoomSpec
import PyXABProofs.Props.C02
import PyXABProofs.Props.C03

set_option linter.unusedSectionVars false

namespace PyXAB
namespace ZM
open _root_.PyXAB.Tree

section nodes
variable {α σ : Type} [Add α] [Sub α] [Mul α] [Div α] [OfNat α 2] [NatCast α]

/-- The arena after a successful `make_children`, whatever the flag. -/
theorem makeChildren_nodes {P P' : Part α σ} {s0 : σ} {p : Nat} {nd : Node α σ} {nl : Bool}
    {d : Draw α} (hp : P.nodes[p]? = some nd) (h : P.makeChildren s0 p nl d = .ok P') :
    P'.nodes = P.nodes.set p
        { nd with
          children := some (List.range' P.nodes.length (Part.newKids P.kind p nd s0 d).length) } ++
      Part.newKids P.kind p nd s0 d ∧ P'.kind = P.kind := by
  unfold Part.makeChildren at h
  simp only [hp] at h
  split at h
  · cases h; exact ⟨rfl, rfl⟩
  · split at h
    · cases h; exact ⟨rfl, rfl⟩
    · cases h

theorem newKids_boxes (k : Kind) (p : Nat) (nd : Node α σ) (s0 : σ) (d : Draw α) :
    (Part.newKids k p nd s0 d).map (·.box) = childBoxes k nd.box d := by
  apply List.ext_getElem?
  intro i
  simp only [Part.newKids, List.getElem?_map, List.getElem?_mapIdx]
  cases (childBoxes k nd.box d)[i]? <;> rfl

theorem newKids_leaves (k : Kind) (p : Nat) (nd : Node α σ) (s0 : σ) (d : Draw α) :
    (Part.newKids k p nd s0 d).filter isLeafNode = Part.newKids k p nd s0 d := by
  rw [List.filter_eq_self]
  intro x hx
  simp only [Part.newKids, List.mem_mapIdx] at hx
  obtain ⟨i, _, rfl⟩ := hx
  rfl

/-- box of the `j`-th new node -/
theorem newKids_getElem?_box {k : Kind} {p : Nat} {nd : Node α σ} {s0 : σ} {d : Draw α}
    {j : Nat} {cn : Node α σ} (h : (Part.newKids k p nd s0 d)[j]? = some cn) :
    (childBoxes k nd.box d)[j]? = some cn.box := by
  rw [← newKids_boxes k p nd s0 d, List.getElem?_map, h]; rfl

omit [Add α] [Sub α] [Mul α] [Div α] [OfNat α 2] [NatCast α] in
theorem split_at {β : Type} {l : List β} {p : Nat} {x : β} (h : l[p]? = some x) :
    l = l.take p ++ x :: l.drop (p + 1) ∧
      ∀ y, l.set p y = l.take p ++ y :: l.drop (p + 1) := by
  obtain ⟨hp, rfl⟩ := List.getElem?_eq_some_iff.1 h
  refine ⟨by simp, fun y => ?_⟩
  rw [List.set_eq_take_append_cons_drop]
  simp [hp]

/-- One expansion of a leaf replaces its box by the boxes of its children in the list of
leaf boxes (new boxes at the end). -/
theorem leafBoxes_step {P P' : Part α σ} {s0 : σ} {p : Nat} {nd : Node α σ} {nl : Bool}
    {d : Draw α} (hp : P.nodes[p]? = some nd) (hleaf : nd.children = none)
    (h : P.makeChildren s0 p nl d = .ok P') :
    ∃ l₁ l₂, leafBoxes P = l₁ ++ nd.box :: l₂ ∧
      leafBoxes P' = l₁ ++ l₂ ++ childBoxes P.kind nd.box d := by
  obtain ⟨hn, _⟩ := makeChildren_nodes hp h
  obtain ⟨e1, e2⟩ := split_at hp
  refine ⟨((P.nodes.take p).filter isLeafNode).map (·.box),
    ((P.nodes.drop (p + 1)).filter isLeafNode).map (·.box), ?_, ?_⟩
  · have hl : isLeafNode nd = true := by simp [isLeafNode, hleaf]
    unfold leafBoxes
    conv => lhs; rw [e1]
    simp [List.filter_append, hl]
  · unfold leafBoxes
    rw [hn, e2, List.filter_append, List.filter_append, newKids_leaves, List.map_append,
      newKids_boxes]
    simp [isLeafNode]

end nodes

section tiles
variable {α σ : Type} [Field α] [LinearOrder α] [IsStrictOrderedRing α]

/-- One legal geometric expansion keeps "the leaf boxes tile the root". -/
theorem tiles_step {root : Box α} {P P' : Part α σ} {s0 : σ} {p : Nat} {nd : Node α σ}
    {nl : Bool} {d : Draw α} (hT : Tiles (leafBoxes P) root)
    (hp : P.nodes[p]? = some nd) (hleaf : nd.children = none)
    (hd : DrawOK P.kind nd.box d) (h : P.makeChildren s0 p nl d = .ok P') :
    Tiles (leafBoxes P') root ∧ Tiles (childBoxes P.kind nd.box d) nd.box := by
  obtain ⟨l₁, l₂, e1, e2⟩ := leafBoxes_step hp hleaf h
  rw [e1] at hT
  have hv : Box.Valid nd.box := (hT.1 nd.box (by simp)).2
  have hk := (C02.childBoxes_tiles P.kind nd.box d hv hd).1
  rw [e2]
  exact ⟨C02.tiles_refine l₁ l₂ _ nd.box root hT hk, hk⟩

omit [Field α] [IsStrictOrderedRing α] in
theorem leafBoxes_init (k : Kind) (root : Box α) (s0 : σ) :
    leafBoxes (Part.init k root s0) = [root] := rfl

/-- **leaves_tile_root**: in a tree grown from a `Valid` root box by `make_children` on leaves
with `DrawOK` draws, the tree invariant holds and the boxes of the leaves tile the root box. -/
theorem leaves_tile_root' {k : Kind} {root : Box α} {s0 : σ} {P : Part α σ}
    (hroot : Box.Valid root) (hG : Grown k root s0 P) :
    WF P ∧ P.kind = k ∧ Tiles (leafBoxes P) root := by
  induction hG with
  | init => exact ⟨init_WF k root s0, rfl, Tiles.self hroot⟩
  | mk _ hp hleaf hdl hd hm ih =>
    obtain ⟨W, hk, hT⟩ := ih
    obtain ⟨P'', m, W', S⟩ := makeChildren_WF_step W s0 hp hleaf rfl hdl
    rw [hm] at m
    cases m
    exact ⟨W', S.kind_eq.trans hk, (tiles_step hT hp hleaf hd hm).1⟩

end tiles
end ZM
end PyXAB
