/-
  Optimism of T-HOO / HCT, geometry part: the invariant `OPTH.TInv` ("every cell is a valid
  sub-box of the domain, the root cell is the domain, the children boxes of every split cell tile
  the box of the cell") is established by `Part.init`, kept by every update which keeps boxes and
  child lists, and by every `make_children` on a leaf whose draw fits (C02 `childBoxes_tiles`).
  Consequence used by the optimism theorem: a point of a split cell lies in one of its children.
-/
import PyXABProofs.Spec.OptHSpec
import PyXABProofs.Lemmas.TT_TB

set_option linter.unusedSectionVars false
set_option linter.unusedVariables false

namespace PyXAB
namespace OPTH
open _root_.PyXAB.Tree TBA TT

section plain
variable {α σ : Type}

theorem exists_node {P : Part α σ} {i : Nat} (h : i < P.nodes.length) :
    ∃ nd, P.nodes[i]? = some nd := ⟨_, List.getElem?_eq_getElem h⟩

theorem boxOf_eq {P : Part α σ} {i : Nat} {nd : Node α σ} (h : P.nodes[i]? = some nd) :
    TT.boxOf P i = nd.box := by
  simp only [TT.boxOf, h]

end plain

section order
variable {α σ : Type} [LinearOrder α]

theorem TInv.init {k : Kind} {root : Box α} (hroot : Box.Valid root) (s0 : σ) :
    TInv k root (Part.init k root s0) := by
  refine ⟨DomInv.init hroot s0, ⟨_, rfl, rfl⟩, ?_⟩
  intro p nd cs hp hcs
  have hlt := lt_length_of_getElem? hp
  simp only [Part.init, List.length_cons, List.length_nil] at hlt
  obtain rfl : p = 0 := by omega
  simp only [Part.init, List.getElem?_cons_zero, Option.some.injEq] at hp
  subst hp
  cases hcs

/-- `TInv` only depends on the partition class and on the boxes and child lists of the cells. -/
theorem TInv.of_same {k : Kind} {root : Box α} {P Q : Part α σ} (hT : TInv k root P)
    (hkind : Q.kind = P.kind) (hlen : Q.nodes.length = P.nodes.length)
    (hnode : ∀ (i : Nat) (nd' : Node α σ), Q.nodes[i]? = some nd' →
      ∃ nd, P.nodes[i]? = some nd ∧ nd'.box = nd.box ∧ nd'.children = nd.children) :
    TInv k root Q := by
  have hbox : ∀ c, c < P.nodes.length → TT.boxOf Q c = TT.boxOf P c := by
    intro c hc
    obtain ⟨nq, hq⟩ := exists_node (P := Q) (i := c) (by omega)
    obtain ⟨nd, a1, a2, _⟩ := hnode c _ hq
    rw [boxOf_eq hq, boxOf_eq a1, a2]
  refine ⟨⟨hkind.trans hT.dom.kind, fun i nd' hi => ?_⟩, ?_, ?_⟩
  · obtain ⟨nd, a1, a2, _⟩ := hnode i nd' hi
    rw [a2]
    exact hT.dom.box i nd a1
  · obtain ⟨r, hr, hb⟩ := hT.root_box
    obtain ⟨nq, hq⟩ := exists_node (P := Q) (i := 0)
      (by rw [hlen]; exact lt_length_of_getElem? hr)
    obtain ⟨nd, a1, a2, _⟩ := hnode 0 _ hq
    obtain rfl := getElem?_inj a1 hr
    exact ⟨_, hq, a2.trans hb⟩
  · intro p nd' cs hp hcs
    obtain ⟨nd, a1, a2, a3⟩ := hnode p nd' hp
    obtain ⟨b1, b2⟩ := hT.kids p nd cs a1 (a3 ▸ hcs)
    refine ⟨fun c hc => by rw [hlen]; exact b1 c hc, ?_⟩
    rw [a2, List.map_congr_left (fun c hc => hbox c (b1 c hc))]
    exact b2

theorem TInv.of_prel {ρ : Nat → Node α σ → Node α σ → Prop} {k : Kind} {root : Box α}
    {P P' : Part α σ} (hT : TInv k root P) (h : PRel ρ P P') : TInv k root P' :=
  hT.of_same h.kind h.len (fun i nd' hi => by
    obtain ⟨nd, a1, a2, _⟩ := h.bwd hi
    exact ⟨nd, a1, a2.box, a2.children⟩)

/-- **A point of a split cell lies in one of its children.** -/
theorem TInv.child_mem {k : Kind} {root : Box α} {P : Part α σ} (hT : TInv k root P) {p : Nat}
    {nd : Node α σ} {cs : List Nat} (hp : P.nodes[p]? = some nd) (hcs : nd.children = some cs)
    {x : List α} (hx : Box.Mem nd.box x) :
    ∃ c ∈ cs, ∃ cn, P.nodes[c]? = some cn ∧ Box.Mem cn.box x := by
  obtain ⟨h1, h2⟩ := hT.kids p nd cs hp hcs
  obtain ⟨bx, hb, hm⟩ := (h2.2.1 x).1 hx
  obtain ⟨c, hc, rfl⟩ := List.mem_map.1 hb
  obtain ⟨cn, hq⟩ := exists_node (h1 c hc)
  exact ⟨c, hc, cn, hq, by rw [← boxOf_eq hq]; exact hm⟩

/-- the root cell contains every point of the domain -/
theorem TInv.root_mem {k : Kind} {root : Box α} {P : Part α σ} (hT : TInv k root P)
    {x : List α} (hx : Box.Mem root x) : ∃ r, P.nodes[0]? = some r ∧ Box.Mem r.box x := by
  obtain ⟨r, hr, hb⟩ := hT.root_box
  exact ⟨r, hr, hb ▸ hx⟩

end order

/-! ### `make_children` -/
section field
variable {α σ : Type} [Field α] [LinearOrder α] [IsStrictOrderedRing α]

/-- Splitting a leaf with a fitting draw keeps the invariant. -/
theorem TInv.makeChildren {k : Kind} {root : Box α} {P P' : Part α σ} {s0 : σ} {p : Nat}
    {nd : Node α σ} {nl : Bool} {d : Draw α} (hT : TInv k root P)
    (hp : P.nodes[p]? = some nd) (hleaf : nd.children = none)
    (hd : DrawFits k root nd.box d) (h : P.makeChildren s0 p nl d = .ok P') :
    TInv k root P' := by
  obtain ⟨hD', hK⟩ := makeChildren_dom hT.dom hp hd h
  obtain ⟨ps, pv, pl⟩ := hT.dom.box p nd hp
  have hok : DrawOK P.kind nd.box d := by rw [hT.dom.kind]; exact hd pv ps
  have htile := (C02.childBoxes_tiles P.kind nd.box d pv hok).1
  obtain ⟨hn, _⟩ := ZM.makeChildren_nodes hp h
  have hplt := lt_length_of_getElem? hp
  have hlen : P'.nodes.length = P.nodes.length + (Part.newKids P.kind p nd s0 d).length := by
    rw [hn, List.length_append, List.length_set]
  refine ⟨hD', ?_, ?_⟩
  · obtain ⟨r, hr, hb⟩ := hT.root_box
    obtain ⟨r', hr', hb'⟩ := hK 0 r hr
    exact ⟨r', hr', hb'.trans hb⟩
  · intro q x cs hq hcs
    rw [hn] at hq
    by_cases hlt : q < P.nodes.length
    · rw [List.getElem?_append_left (by simpa using hlt), List.getElem?_set] at hq
      by_cases e : p = q
      · subst e
        simp only [hlt, if_true, Option.some.injEq] at hq
        subst hq
        simp only [Option.some.injEq] at hcs
        subst hcs
        refine ⟨fun c hc => ?_, ?_⟩
        · rw [List.mem_range'_1] at hc
          omega
        · have e2 : (List.range' P.nodes.length (Part.newKids P.kind p nd s0 d).length).map
              (TT.boxOf P') = childBoxes P.kind nd.box d := by
            rw [← ZM.newKids_boxes P.kind p nd s0 d]
            apply List.ext_getElem?
            intro j
            simp only [List.getElem?_map]
            by_cases hj : j < (Part.newKids P.kind p nd s0 d).length
            · rw [List.getElem?_range' hj, List.getElem?_eq_getElem hj]
              simp only [Option.map_some, Option.some.injEq, Nat.one_mul]
              apply boxOf_eq
              rw [hn, List.getElem?_append_right (by simp),
                List.length_set, Nat.add_sub_cancel_left, List.getElem?_eq_getElem hj]
            · rw [List.getElem?_eq_none (by simpa using Nat.le_of_not_lt hj),
                List.getElem?_eq_none (Nat.le_of_not_lt hj)]
              rfl
          show Tiles _ nd.box
          rw [e2]
          exact htile
      · simp only [e, if_false] at hq
        obtain ⟨b1, b2⟩ := hT.kids q x cs hq hcs
        refine ⟨fun c hc => by have := b1 c hc; omega, ?_⟩
        rw [List.map_congr_left (fun c hc => hK.boxOf (b1 c hc))]
        exact b2
    · rw [List.getElem?_append_right (by simpa using Nat.le_of_not_lt hlt)] at hq
      simp only [Part.newKids, List.getElem?_mapIdx, Option.map_eq_some_iff] at hq
      obtain ⟨a, _, rfl⟩ := hq
      cases hcs

/-- `expand` (as used by the tree bandits) of a leaf keeps the invariant when the first draw
fits. -/
theorem TInv.expand {k : Kind} {root : Box α} {P P' : Part α σ} {s0 : σ} {p : Nat}
    {ds ds' : List (Draw α)} (hT : TInv k root P) (hS : SplitFits k root P p ds)
    (hleaf : ∀ nd, P.nodes[p]? = some nd → nd.children = none)
    (h : P.expand s0 p ds = .ok (P', ds')) : TInv k root P' := by
  unfold Part.expand at h
  cases hp : P.nodes[p]? with
  | none => simp [hp] at h
  | some nd =>
    simp only [hp] at h
    obtain ⟨d, rfl, hm⟩ := makeChildrenD_ok h
    exact hT.makeChildren hp (hleaf nd hp) (hS nd hp) hm

/-- conditional expansion, as in the three `receive_reward`s -/
theorem TInv.expand_if {k : Kind} {root : Box α} {P P' : Part α σ} {s0 : σ} {p : Nat} {c : Bool}
    {ds ds' : List (Draw α)} (hT : TInv k root P) (hS : SplitFits k root P p ds)
    (hleaf : c = true → ∀ nd, P.nodes[p]? = some nd → nd.children = none)
    (h : (if c = true then P.expand s0 p ds else .ok (P, ds)) = .ok (P', ds')) :
    TInv k root P' := by
  cases c with
  | true => exact hT.expand hS (hleaf rfl) (by simpa using h)
  | false =>
    simp only [Bool.false_eq_true, if_false, Except.ok.injEq, Prod.mk.injEq] at h
    obtain ⟨rfl, _⟩ := h
    exact hT

end field
end OPTH
end PyXAB
