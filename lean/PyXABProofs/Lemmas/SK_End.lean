/-
  StroquOOL: behaviour after the end — the configurations `Stuck` from which every later `pull`
  (non-decreasing time) goes to `finish`, and the stability of the recommendation.
-/
import PyXABProofs.Lemmas.SK_Blocks

set_option linter.unusedSectionVars false

namespace PyXAB
namespace SK
open Tree TBA StroquOOL

variable {α R S : Type}
variable [Add α] [Sub α] [Mul α] [Div α] [OfNat α 2] [NatCast α]
variable [LE S] [DecidableLE S] [Inhabited S] [Inhabited R]

theorem Stuck.mono {cfg : SkCfg R S} {s : StroquOOL α R S} {t t' : Nat} (h : Stuck cfg s t)
    (ht : t ≤ t') : Stuck cfg s t' := by
  rcases h with ⟨a, b, c⟩ | ⟨a, b, c⟩
  · refine Or.inl ⟨a, b, c.imp (fun x => x) ?_⟩
    rintro ⟨c1, c2, c3⟩
    exact ⟨c1, c2, by omega⟩
  · exact Or.inr ⟨a, b, c.imp (fun x => x) (fun x => by omega)⟩

/-- from a `Stuck` configuration `pull` is `finish` -/
theorem stuck_pull (cfg : SkCfg R S) {s : StroquOOL α R S} {t t' : Nat} (h : Stuck cfg s t)
    (ht : t ≤ t') (ds : List (Draw α)) :
    pull cfg s t' ds = finish cfg { s with iteration := t' } ds := by
  rw [pull_eq]
  rcases h with ⟨a, b, c⟩ | ⟨a, b, c⟩
  · rw [if_pos b]
    have h0 : ¬ s.currDepth = 0 := by omega
    unfold searchPart rootPart
    simp only [h0, if_false, bind, Except.bind, pure, Except.pure]
    by_cases hp : s.currP ≥ 0
    · rcases c with c | ⟨c1, c2, c3⟩
      · omega
      · rw [if_pos hp]
        unfold evalPart
        simp only [c1, Bool.false_eq_true, if_false, pure, Except.pure]
        unfold handOut
        cases hm : s.maxNode with
        | none => rw [hm] at c2; cases c2
        | some m =>
          have e : 2 ^ (s.currP.toNat + 1) = 2 ^ s.currP.toNat * 2 := by rw [Nat.pow_succ]
          have h1 : ¬ t' ≤ s.timeStamp + 2 ^ s.currP.toNat := by omega
          have h2 : ¬ t' ≤ s.timeStamp + 2 ^ (s.currP.toNat + 1) := by omega
          simp only [h1, h2, if_false]
    · rw [if_neg hp]
  · have hb : ¬ s.currDepth ≤ cfg.hmax := by omega
    rw [if_neg hb]
    unfold crossPart
    have he : s.candidate.isEmpty = false := by
      cases hc : s.candidate with
      | nil => exact absurd hc b
      | cons _ _ => rfl
    simp only [he, Bool.false_eq_true, if_false, bind, Except.bind, pure, Except.pure]
    unfold crossOut
    rcases c with c | c
    · have : ¬ s.currLoc < s.candidate.length := by omega
      simp only [this, if_false]
    · have : ¬ t' ≤ s.timeStamp + cfg.hmax := by omega
      simp only [this, if_false, ite_self]

theorem evalPart_eval (cfg : SkCfg R S) {s s1 : StroquOOL α R S} {p : Nat}
    {ds ds1 : List (Draw α)} (h : evalPart cfg s p ds = .ok (s1, ds1)) : s1.eval = false := by
  unfold evalPart at h
  by_cases he : s.eval = true
  · rw [if_pos he] at h
    cases hl : s.P.layers[s.currDepth]? with
    | none => simp [hl] at h
    | some layer =>
      simp only [hl] at h
      generalize scanLayer cfg (2 ^ p) layer s.P cfg.negInf s.maxNode = res at h
      obtain ⟨P1, mx⟩ := res
      simp only at h
      cases mx with
      | none => simp at h
      | some m =>
        simp only at h
        by_cases hleaf : P1.isLeaf m = true
        · rw [if_pos hleaf] at h
          rw [expandAt_fields cfg h]
        · rw [if_neg hleaf, pure_ok] at h
          obtain ⟨rfl, rfl⟩ := Prod.mk.inj h
          rfl
  · rw [if_neg he, pure_ok] at h
    obtain ⟨rfl, rfl⟩ := Prod.mk.inj h
    simpa using he

/-- `handOut` either keeps `ended` or is `finish`, after both children of `maxNode` have had
their evaluations -/
theorem handOut_cases (cfg : SkCfg R S) {s s' : StroquOOL α R S} {p t : Nat}
    {ds ds' : List (Draw α)} {v : Nat} (h : handOut cfg s p t ds = .ok (s', ds', v)) :
    s'.ended = s.ended ∨ (s.maxNode.isSome = true ∧ s.timeStamp + 2 ^ (p + 1) < t ∧
      finish cfg s ds = .ok (s', ds', v)) := by
  unfold handOut at h
  cases hm : s.maxNode with
  | none => simp [hm] at h
  | some m =>
    simp only [hm] at h
    by_cases h1 : t ≤ s.timeStamp + 2 ^ p
    · left
      rw [if_pos h1, bind_ok] at h
      obtain ⟨⟨a, b⟩, _, h⟩ := h
      simp only [pure, Except.pure, Except.ok.injEq, Prod.mk.injEq] at h
      obtain ⟨rfl, _⟩ := h
      rfl
    · rw [if_neg h1] at h
      by_cases h2 : t ≤ s.timeStamp + 2 ^ (p + 1)
      · left
        rw [if_pos h2, bind_ok] at h
        obtain ⟨⟨a, b⟩, _, h⟩ := h
        simp only [pure, Except.pure, Except.ok.injEq, Prod.mk.injEq] at h
        obtain ⟨rfl, _⟩ := h
        by_cases h3 : t = s.timeStamp + 2 ^ (p + 1)
        · rw [if_pos h3]
          exact (advance_fields cfg s m p).2.2.2.2.1
        · rw [if_neg h3]
      · right
        rw [if_neg h2] at h
        exact ⟨rfl, by omega, h⟩

theorem Fin.stuck {cfg : SkCfg R S} {s s' : StroquOOL α R S} {v t : Nat} (F : Fin cfg s s' v)
    (h : Stuck cfg s t) : Stuck cfg s' t := by
  rw [F.eq]; exact h

/-- the `pull` that ends the run (entered at depth `≥ 1`) leaves a `Stuck` configuration -/
theorem pull_stuck (cfg : SkCfg R S) {s s' : StroquOOL α R S} {t : Nat}
    {ds ds' : List (Draw α)} {v : Nat} (h : pull cfg s t ds = .ok (s', ds', v))
    (hd : s.currDepth ≠ 0) (h0 : s.ended = false) (he : s'.ended = true) : Stuck cfg s' t := by
  rw [pull_eq] at h
  by_cases hb : s.currDepth ≤ cfg.hmax
  · rw [if_pos hb] at h
    unfold searchPart rootPart at h
    simp only [hd, if_false, bind, Except.bind, pure, Except.pure] at h
    by_cases hp : s.currP ≥ 0
    · rw [if_pos hp] at h
      cases hev : evalPart cfg { s with iteration := t } s.currP.toNat ds with
      | error e => simp [hev] at h
      | ok x =>
        obtain ⟨s2, ds2⟩ := x
        simp only [hev] at h
        obtain ⟨e1, _⟩ := evalPart_spec cfg hev
        have e2 := evalPart_eval cfg hev
        have hs2 : s2.ended = false := by rw [e1]; exact h0
        rcases handOut_cases cfg h with o1 | ⟨c1, c2, hf⟩
        · exfalso
          rw [o1, hs2] at he; cases he
        · obtain ⟨_, F⟩ := finish_spec cfg hf
          have e3 : s2.timeStamp = s.timeStamp := by rw [e1]
          have e4 : s2.currP = s.currP := by rw [e1]
          refine F.stuck (Or.inl ⟨?_, ?_, Or.inr ⟨e2, c1, ?_⟩⟩)
          · rw [e1]; exact Nat.pos_of_ne_zero hd
          · rw [e1]; exact hb
          · rw [e4]; exact c2
    · rw [if_neg hp] at h
      obtain ⟨_, F⟩ := finish_spec cfg h
      exact F.stuck (Or.inl ⟨Nat.pos_of_ne_zero hd, hb, Or.inl (by show s.currP < 0; omega)⟩)
  · rw [if_neg hb] at h
    unfold crossPart at h
    rw [bind_ok] at h
    obtain ⟨sb, hbld, h⟩ := h
    have hsb : sb.currDepth = s.currDepth ∧ sb.candidate ≠ [] ∧ sb.ended = false := by
      by_cases hemp : s.candidate.isEmpty = true
      · rw [if_pos hemp] at hbld
        obtain ⟨_, rfl⟩ := (buildCandidates_ok_iff cfg _ sb).1 hbld
        exact ⟨rfl, candList_ne_nil cfg _, h0⟩
      · rw [if_neg hemp, pure_ok] at hbld
        subst hbld
        refine ⟨rfl, fun e => hemp ?_, h0⟩
        show s.candidate.isEmpty = true
        have e' : s.candidate = [] := e
        rw [e']; rfl
    unfold crossOut at h
    by_cases h1 : sb.currLoc < sb.candidate.length
    · rw [if_pos h1] at h
      by_cases h2 : t ≤ sb.timeStamp + cfg.hmax
      · exfalso
        rw [if_pos h2] at h
        cases hc : sb.candidate[sb.currLoc]? with
        | none => simp [hc] at h
        | some oc =>
          cases oc with
          | none => simp [hc] at h
          | some c =>
            simp only [hc, pure, Except.pure, Except.ok.injEq, Prod.mk.injEq] at h
            obtain ⟨rfl, _⟩ := h
            have := hsb.2.2
            split at he <;> simp [this] at he
      · rw [if_neg h2] at h
        obtain ⟨_, F⟩ := finish_spec cfg h
        exact F.stuck (Or.inr ⟨by rw [hsb.1]; omega, hsb.2.1, Or.inr (by omega)⟩)
    · rw [if_neg h1] at h
      obtain ⟨_, F⟩ := finish_spec cfg h
      exact F.stuck (Or.inr ⟨by rw [hsb.1]; omega, hsb.2.1, Or.inl (by omega)⟩)

/-- on an ended `Stuck` state whose recommendation is up to date, every later `pull` returns the
same id and only records the time -/
theorem stuck_stable (cfg : SkCfg R S) {s : StroquOOL α R S} {t t' v : Nat}
    (h : Stuck cfg s t) (he : s.ended = true) (hl : lastPoint cfg s = .ok (s, v)) (ht : t ≤ t')
    (ds : List (Draw α)) :
    pull cfg s t' ds = .ok ({ s with iteration := t' }, ds, v) := by
  rw [stuck_pull cfg h ht, finish_ok_iff]
  refine ⟨rfl, ?_⟩
  obtain ⟨hv, hp, e⟩ := (lastPoint_ok_iff cfg s s v).1 hl
  rw [lastPoint_ok_iff]
  refine ⟨hv, hp, ?_⟩
  have eP : s.P = refreshP cfg s.P s.candidate := congrArg StroquOOL.P e
  show _ = { s with iteration := t', ended := true, P := refreshP cfg s.P s.candidate }
  rw [← eP, ← he]

end SK
end PyXAB
