/-
  The parameter grid `rhomax ^ (2N / (2i+1))` of POO and GPO (pure arithmetic over ℝ).
-/
import Mathlib.Analysis.SpecialFunctions.Pow.Real

namespace PyXAB.MT

/-- the exponent `2N / (2i+1)` -/
noncomputable def gridExp (N i : ℕ) : ℝ := (2 * (N : ℝ)) / (2 * (i : ℝ) + 1)

/-- the grid value `rhomax ^ (2N / (2i+1))` (`Real.rpow`) -/
noncomputable def gridRho (rhomax : ℝ) (N i : ℕ) : ℝ := rhomax ^ gridExp N i

/-- odd × power of two is a unique factorisation -/
theorem pow2_odd_unique : ∀ (a b i j : ℕ), 2 ^ a * (2 * j + 1) = 2 ^ b * (2 * i + 1) → a = b ∧ i = j := by
  intro a
  induction a with
  | zero =>
    intro b i j h
    cases b with
    | zero => simp at h; omega
    | succ b =>
      rw [Nat.pow_succ, Nat.mul_comm (2 ^ b) 2, Nat.mul_assoc] at h
      generalize 2 ^ b * (2 * i + 1) = Y at h
      omega
  | succ a ih =>
    intro b i j h
    cases b with
    | zero =>
      rw [Nat.pow_succ, Nat.mul_comm (2 ^ a) 2, Nat.mul_assoc] at h
      generalize 2 ^ a * (2 * j + 1) = Y at h
      omega
    | succ b =>
      rw [Nat.pow_succ, Nat.pow_succ, Nat.mul_comm (2 ^ a) 2, Nat.mul_comm (2 ^ b) 2, Nat.mul_assoc,
        Nat.mul_assoc] at h
      have := ih b i j (Nat.eq_of_mul_eq_mul_left (by omega) h)
      omega

theorem gridExp_eq_iff (N N' i j : ℕ) :
    gridExp N i = gridExp N' j ↔ N * (2 * j + 1) = N' * (2 * i + 1) := by
  unfold gridExp
  have hi : (2 * (i : ℝ) + 1) ≠ 0 := by positivity
  have hj : (2 * (j : ℝ) + 1) ≠ 0 := by positivity
  rw [div_eq_div_iff hi hj]
  constructor
  · intro h
    have h' : ((N * (2 * j + 1) : ℕ) : ℝ) = ((N' * (2 * i + 1) : ℕ) : ℝ) := by
      push_cast; linarith
    exact_mod_cast h'
  · intro h
    have h' : ((N * (2 * j + 1) : ℕ) : ℝ) = ((N' * (2 * i + 1) : ℕ) : ℝ) := by rw [h]
    push_cast at h'
    linarith

/-- POO: the exponents are pairwise distinct across all doublings. -/
theorem gridExp_inj_pow2 {a b i j : ℕ} (h : gridExp (2 ^ a) i = gridExp (2 ^ b) j) : a = b ∧ i = j :=
  pow2_odd_unique a b i j ((gridExp_eq_iff ..).mp h)

/-- GPO: for a fixed `N ≥ 1` the exponents are pairwise distinct. -/
theorem gridExp_inj_fixed {N i j : ℕ} (hN : 1 ≤ N) (h : gridExp N i = gridExp N j) : i = j := by
  have := (gridExp_eq_iff ..).mp h
  have := Nat.eq_of_mul_eq_mul_left (by omega : 0 < N) this
  omega

theorem gridExp_pos {N i : ℕ} (hN : 1 ≤ N) : 0 < gridExp N i := by
  unfold gridExp
  have : (0 : ℝ) < N := by exact_mod_cast hN
  positivity

/-- the exponent exceeds `1` iff `2i+1 < 2N`, i.e. iff `i < N` -/
theorem one_lt_gridExp_iff {N i : ℕ} : 1 < gridExp N i ↔ i < N := by
  unfold gridExp
  have hi : (0 : ℝ) < 2 * (i : ℝ) + 1 := by positivity
  rw [one_lt_div hi]
  constructor
  · intro h
    have : ((2 * i + 1 : ℕ) : ℝ) < ((2 * N : ℕ) : ℝ) := by push_cast; linarith
    have : 2 * i + 1 < 2 * N := by exact_mod_cast this
    omega
  · intro h
    have : 2 * i + 1 < 2 * N := by omega
    have : ((2 * i + 1 : ℕ) : ℝ) < ((2 * N : ℕ) : ℝ) := by exact_mod_cast this
    push_cast at this
    linarith

/-- the exponent is never `1` (odd ≠ even); it is below `1` iff `N ≤ i` -/
theorem gridExp_lt_one_iff {N i : ℕ} : gridExp N i < 1 ↔ N ≤ i := by
  unfold gridExp
  have hi : (0 : ℝ) < 2 * (i : ℝ) + 1 := by positivity
  rw [div_lt_one hi]
  constructor
  · intro h
    have : ((2 * N : ℕ) : ℝ) < ((2 * i + 1 : ℕ) : ℝ) := by push_cast; linarith
    have : 2 * N < 2 * i + 1 := by exact_mod_cast this
    omega
  · intro h
    have : 2 * N < 2 * i + 1 := by omega
    have : ((2 * N : ℕ) : ℝ) < ((2 * i + 1 : ℕ) : ℝ) := by exact_mod_cast this
    push_cast at this
    linarith

section
variable {rhomax : ℝ}

theorem gridRho_pos (h0 : 0 < rhomax) (N i : ℕ) : 0 < gridRho rhomax N i :=
  Real.rpow_pos_of_pos h0 _

theorem gridRho_lt_one (h0 : 0 < rhomax) (h1 : rhomax < 1) {N : ℕ} (hN : 1 ≤ N) (i : ℕ) :
    gridRho rhomax N i < 1 :=
  Real.rpow_lt_one (le_of_lt h0) h1 (gridExp_pos hN)

/-- for a base in `(0,1)` the grid value determines the exponent -/
theorem gridRho_eq_iff (h0 : 0 < rhomax) (h1 : rhomax < 1) (N N' i j : ℕ) :
    gridRho rhomax N i = gridRho rhomax N' j ↔ gridExp N i = gridExp N' j := by
  unfold gridRho
  constructor
  · intro h
    rcases lt_trichotomy (gridExp N i) (gridExp N' j) with hlt | heq | hgt
    · exact absurd h (ne_of_gt (Real.rpow_lt_rpow_of_exponent_gt h0 h1 hlt))
    · exact heq
    · exact absurd h (ne_of_lt (Real.rpow_lt_rpow_of_exponent_gt h0 h1 hgt))
  · intro h; rw [h]

/-- the grid value is below `rhomax` iff `i < N` -/
theorem gridRho_lt_rhomax_iff (h0 : 0 < rhomax) (h1 : rhomax < 1) (N i : ℕ) :
    gridRho rhomax N i < rhomax ↔ i < N := by
  unfold gridRho
  conv_lhs => rhs; rw [← Real.rpow_one rhomax]
  rw [Real.rpow_lt_rpow_left_iff_of_base_lt_one h0 h1]
  exact one_lt_gridExp_iff

/-- the grid value exceeds `rhomax` iff `N ≤ i` -/
theorem rhomax_lt_gridRho_iff (h0 : 0 < rhomax) (h1 : rhomax < 1) (N i : ℕ) :
    rhomax < gridRho rhomax N i ↔ N ≤ i := by
  unfold gridRho
  conv_lhs => lhs; rw [← Real.rpow_one rhomax]
  rw [Real.rpow_lt_rpow_left_iff_of_base_lt_one h0 h1]
  exact gridExp_lt_one_iff

end
end PyXAB.MT
