/-
  Optimism of T-HOO / HCT, order part (no runs): in a well-formed tree whose B-values satisfy the
  recursion at every non-root cell and in which the children of every split cell cover the cell,
  an optimistic state (`U ≥ fstar` on the cells containing `xstar`) has

  (1) `B ≥ fstar` on every non-root cell containing `xstar`   (`bOptimistic`),
  (2) `U ≥ fstar`, and `B ≥ fstar` below the root, on every cell of every greedy path
      (`pathOptimistic`) — whatever the stop condition of the descent.
-/
import PyXABProofs.Lemmas.OPTH_Geo
import PyXABProofs.Lemmas.TBB_Expand

set_option linter.unusedSectionVars false
set_option linter.unusedVariables false

namespace PyXAB
namespace OPTH
open _root_.PyXAB.Tree TBB

variable {α R S : Type} [LinearOrder α] [LinearOrder S] [Inhabited S] [Inhabited R]

/-- `B ≤ U` at every cell where the B-recursion holds. -/
theorem b_le_u {P : Part α (TBSt R S)} {v : Nat} (hB : BRec P v) {nd : Node α (TBSt R S)}
    (hnd : P.nodes[v]? = some nd) : nd.st.b ≤ nd.st.u := by
  obtain ⟨h1, h2⟩ := hB nd hnd
  cases hc : nd.children with
  | none => exact le_of_eq (h1 hc)
  | some cs =>
    obtain ⟨M, hM, _⟩ := h2 cs hc
    rw [hM]
    exact min_le_left _ _

/-- **(1)** by induction over the tree (children have larger ids than their parent). -/
theorem bOptimistic {k : Kind} {root : Box α} {P : Part α (TBSt R S)} (W : WF P)
    (hB : ∀ v, 0 < v → BRec P v) (hT : TInv k root P) {xstar : List α} {fstar : S}
    (hO : Optimistic P xstar fstar) : BOptimistic P xstar fstar := by
  have key : ∀ (n v : Nat) (nd : Node α (TBSt R S)), P.nodes.length - v ≤ n → 0 < v →
      P.nodes[v]? = some nd → Box.Mem nd.box xstar → fstar ≤ nd.st.b := by
    intro n
    induction n with
    | zero =>
      intro v nd hn _ hnd _
      have := lt_length_of_getElem? hnd
      omega
    | succ n ih =>
      intro v nd hn hv hnd hm
      obtain ⟨h1, h2⟩ := hB v hv nd hnd
      cases hc : nd.children with
      | none =>
        rw [h1 hc]
        exact hO v nd hnd hm
      | some cs =>
        obtain ⟨M, hM, hle, _⟩ := h2 cs hc
        obtain ⟨c, hcm, cn, hcn, hcx⟩ := hT.child_mem hnd hc hm
        obtain ⟨_, _, _, _, _, hlt, _⟩ := W.child_facts hnd hc hcm
        have hcb : fstar ≤ cn.st.b :=
          ih c cn (by have := lt_length_of_getElem? hcn; omega) (by omega) hcn hcx
        have hcM : cn.st.b ≤ M := by
          have := hle c hcm
          rwa [stOf_eq hcn] at this
        rw [hM]
        exact le_min (hO v nd hnd hm) (le_trans hcb hcM)
  intro v nd hv hnd hm
  exact key _ v nd (Nat.le_refl _) hv hnd hm

/-- One greedy step: if the parent contains `xstar` or (is not the root and) has `B ≥ fstar`, the
selected child has `B ≥ fstar`. -/
theorem step_b_ge {k : Kind} {root : Box α} {P : Part α (TBSt R S)} (W : WF P)
    (hB : ∀ v, 0 < v → BRec P v) (hT : TInv k root P) {xstar : List α} {fstar : S}
    (hO : Optimistic P xstar fstar) {p c : Nat} {nd : Node α (TBSt R S)} {cs : List Nat}
    (hnd : P.nodes[p]? = some nd) (hcs : nd.children = some cs)
    (hmax : LastMax (fun j => (P.stOf j).b) cs c)
    (hp : Box.Mem nd.box xstar ∨ (0 < p ∧ fstar ≤ nd.st.b)) :
    fstar ≤ (P.stOf c).b := by
  have hex : ∃ c' ∈ cs, fstar ≤ (P.stOf c').b := by
    rcases hp with hm | ⟨hp0, hb⟩
    · obtain ⟨c', hcm, cn, hcn, hcx⟩ := hT.child_mem hnd hcs hm
      obtain ⟨_, _, _, _, _, hlt, _⟩ := W.child_facts hnd hcs hcm
      refine ⟨c', hcm, ?_⟩
      rw [stOf_eq hcn]
      exact bOptimistic W hB hT hO c' cn (by omega) hcn hcx
    · obtain ⟨_, h2⟩ := hB p hp0 nd hnd
      obtain ⟨M, hM, _, c', hcm, hcM⟩ := h2 cs hcs
      refine ⟨c', hcm, ?_⟩
      rw [hcM]
      exact le_trans (hM ▸ hb) (min_le_right _ _)
  obtain ⟨c', hcm, hc'⟩ := hex
  exact le_trans hc' (hmax.max c' hcm)

/-- **(2)** along a greedy path, whatever its stop condition. -/
theorem pathOptimistic {k : Kind} {root : Box α} {P : Part α (TBSt R S)} (W : WF P)
    (hB : ∀ v, 0 < v → BRec P v) (hT : TInv k root P) {xstar : List α} {fstar : S}
    (hx : Box.Mem root xstar) (hO : Optimistic P xstar fstar)
    {stop : Node α (TBSt R S) → Prop} {path : List Nat} {v : Nat}
    (G : GreedyPath P stop path v) : PathOptimistic P path fstar := by
  have key : ∀ (i p : Nat), path[i]? = some p → ∃ nd, P.nodes[p]? = some nd ∧
      (Box.Mem nd.box xstar ∨ (0 < p ∧ fstar ≤ nd.st.b)) := by
    intro i
    induction i with
    | zero =>
      intro p hp
      have h0 := G.head
      rw [List.head?_eq_getElem?, hp] at h0
      obtain rfl : p = 0 := Option.some.inj h0
      obtain ⟨r, hr, hm⟩ := hT.root_mem hx
      exact ⟨r, hr, Or.inl hm⟩
    | succ i ih =>
      intro c hc
      have hi : i < path.length := by have := lt_length_of_getElem? hc; omega
      obtain ⟨nd, hnd, hor⟩ := ih _ (List.getElem?_eq_getElem hi)
      obtain ⟨nd', cs, a1, a2, a3⟩ := G.step i _ c (List.getElem?_eq_getElem hi) hc
      obtain rfl := getElem?_inj a1 hnd
      obtain ⟨_, cn, _, _, _, hlt, hcn, _⟩ := W.child_facts hnd a2 a3.mem
      have := step_b_ge W hB hT hO hnd a2 a3 hor
      rw [stOf_eq hcn] at this
      exact ⟨cn, hcn, Or.inr ⟨by omega, this⟩⟩
  intro p hp
  obtain ⟨i, hi⟩ := List.mem_iff_getElem?.1 hp
  obtain ⟨nd, hnd, hor⟩ := key i p hi
  refine ⟨nd, hnd, ?_, ?_⟩
  · rcases hor with hm | ⟨hp0, hb⟩
    · exact hO p nd hnd hm
    · exact le_trans hb (b_le_u (hB p hp0) hnd)
  · intro hp0
    rcases hor with hm | ⟨_, hb⟩
    · exact bOptimistic W hB hT hO p nd hp0 hnd hm
    · exact hb

end OPTH
end PyXAB
