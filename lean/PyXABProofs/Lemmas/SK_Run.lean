/-
  StroquOOL: the invariants along runs — `Inv` and the credit invariant `Credit` for every
  reachable state, and the documented loop `runRounds`.
-/
import PyXABProofs.Lemmas.SK_Blocks
import PyXABProofs.Props.C03

set_option linter.unusedSectionVars false

namespace PyXAB
namespace SK
open Tree TBA StroquOOL

variable {α R S : Type}

/-! ### histories -/

theorem hist_append (H1 H2 : List (Nat × R)) (id : Nat) :
    hist (H1 ++ H2) id = hist H1 id ++ hist H2 id := by
  simp [hist, List.filter_append]

theorem hist_single (c : Nat) (r : R) (id : Nat) :
    hist [(c, r)] id = if c = id then [r] else [] := by
  by_cases h : c = id <;> simp [hist, h]

theorem hist_nil_of_lt {H : List (Nat × R)} {n id : Nat} (hv : ∀ e ∈ H, e.1 < n) (h : n ≤ id) :
    hist H id = [] := by
  unfold hist
  rw [List.map_eq_nil_iff, List.filter_eq_nil_iff]
  intro e he
  have := hv e he
  simp only [decide_eq_true_eq]
  omega

theorem hist_drop_nil_of_lt {H : List (Nat × R)} {n id : Nat} (hv : ∀ e ∈ H, e.1 < n)
    (h : n ≤ id) (k : Nat) : hist (H.drop k) id = [] :=
  hist_nil_of_lt (fun e he => hv e (List.mem_of_mem_drop he)) h

section blocks
variable [Add α] [Sub α] [Mul α] [Div α] [OfNat α 2] [NatCast α]
variable [LE S] [DecidableLE S] [Inhabited S] [Inhabited R]

/-! ### `Inv` -/

theorem init_inv (cfg : SkCfg R S) (k : Kind) (domain : Box α) (hK : k.arity domain.length = 2) :
    Inv (init cfg k domain) where
  wf := init_WF k domain (st0 cfg)
  ar := hK
  mx := fun _ h => nomatch h
  ch := rfl
  cd := fun _ h => nomatch h
  cur := Nat.zero_lt_one

theorem receive_prel (s : StroquOOL α R S) (r : R) :
    PRel (fun _ _ _ => True) s.P (receive s r).P := by
  by_cases he : s.ended = true
  · rw [receive_ended s r he]
    exact PRel.refl (fun _ _ => trivial) _
  · rw [receive_open s r (by simpa using he)]
    dsimp only
    exact (PRel_modifySt s.P s.curr _).mono (fun _ _ _ _ _ => trivial)

theorem receive_fields (s : StroquOOL α R S) (r : R) :
    receive s r = { s with P := (receive s r).P } := by
  unfold receive
  split <;> rfl

theorem receive_inv {s : StroquOOL α R S} (r : R) (hI : Inv s) : Inv (receive s r) := by
  have hf := receive_fields s r
  exact hI.prel (receive_prel s r) (by rw [hf]) (by rw [hf])
    (fun c hc => hI.cd c (by rw [hf] at hc; exact hc)) (by rw [hf]; exact hI.cur)

/-! ### `Credit` -/

theorem init_credit (cfg : SkCfg R S) (k : Kind) (domain : Box α) :
    Credit (init cfg k domain) ([] : List (Nat × R)) none where
  valid := fun _ h => nomatch h
  ra_none := fun _ => rfl
  ra_le := fun _ h => nomatch h
  visited := by
    intro id nd h
    cases id with
    | zero =>
      obtain rfl : _ = nd := Option.some.inj h
      rfl
    | succ n => simp [init, Part.init] at h
  rewards := by
    intro id nd h
    cases id with
    | zero =>
      obtain rfl : _ = nd := Option.some.inj h
      simp [init, hist, st0]
    | succ n => simp [init, Part.init] at h

/-- `pull` keeps the credit invariant; the ghost `resetAt` is set when the candidates are
built. -/
theorem pull_credit {s s' : StroquOOL α R S} {H : List (Nat × R)} {ra : Option Nat}
    (F : PullFrame s s') (C : Credit s H ra) : Credit s' H (resetAt' s s' H.length ra) where
  valid := fun e he => Nat.lt_of_lt_of_le (C.valid e he) F.len
  ra_none := by
    intro h
    unfold resetAt' at h
    by_cases hc : s.candidate = [] ∧ s'.candidate ≠ []
    · rw [if_pos hc] at h; cases h
    · rw [if_neg hc] at h
      have h0 := C.ra_none h
      apply Classical.byContradiction
      intro hne
      exact hc ⟨h0, hne⟩
  ra_le := by
    intro k h
    unfold resetAt' at h
    by_cases hc : s.candidate = [] ∧ s'.candidate ≠ []
    · rw [if_pos hc] at h
      obtain rfl := Option.some.inj h
      exact Nat.le_refl _
    · rw [if_neg hc] at h
      exact C.ra_le k h
  visited := by
    intro id nd' h
    by_cases hlt : id < s.P.nodes.length
    · obtain ⟨x, a1, a2, _⟩ := F.old id _ (List.getElem?_eq_getElem hlt)
      obtain rfl := getElem?_inj a1 h
      rw [a2]
      exact C.visited id _ (List.getElem?_eq_getElem hlt)
    · rw [(F.new id nd' (by omega) h).1, hist_nil_of_lt C.valid (by omega)]
      rfl
  rewards := by
    intro id nd' h
    by_cases hlt : id < s.P.nodes.length
    · obtain ⟨x, a1, _, a3⟩ := F.old id _ (List.getElem?_eq_getElem hlt)
      obtain rfl := getElem?_inj a1 h
      rw [a3, C.rewards id _ (List.getElem?_eq_getElem hlt)]
      unfold resetAt'
      by_cases h0 : s.candidate = []
      · by_cases hm : some id ∈ s'.candidate
        · have hne : s'.candidate ≠ [] := fun e => by rw [e] at hm; cases hm
          simp [h0, hm, hne, hist]
        · simp [h0, hm]
      · have := F.cand h0
        simp [h0, this]
    · rw [(F.new id nd' (by omega) h).2]
      split
      · exact (hist_drop_nil_of_lt C.valid (by omega) _).symm
      · exact (hist_nil_of_lt C.valid (by omega)).symm

/-- `receive` (before the end) extends the history by `(curr, r)`. -/
theorem receive_credit {s : StroquOOL α R S} {H : List (Nat × R)} {ra : Option Nat} (r : R)
    (hcur : s.curr < s.P.nodes.length) (C : Credit s H ra) :
    Credit (receive s r) (if s.ended then H else H ++ [(s.curr, r)]) ra := by
  by_cases he : s.ended = true
  · rw [receive_ended s r he, if_pos he]; exact C
  · have he' : s.ended = false := by simpa using he
    rw [receive_open s r he', if_neg he]
    have hk : ra.getD 0 ≤ H.length := by
      cases hra : ra with
      | none => simp
      | some k => simpa using C.ra_le k hra
    have hlen : (s.P.modifySt s.curr (fun st =>
        { st with visited := st.visited + 1, rewards := st.rewards ++ [r] })).nodes.length =
        s.P.nodes.length := by simp [Part.modifySt, Part.modifyNode]
    refine ⟨?_, C.ra_none, fun k hk => ?_, ?_, ?_⟩
    · intro e hem
      show e.1 < (s.P.modifySt _ _).nodes.length
      rw [hlen]
      rcases List.mem_append.1 hem with hem | hem
      · exact C.valid e hem
      · obtain rfl : e = (s.curr, r) := by simpa using hem
        exact hcur
    · have := C.ra_le k hk
      simp; omega
    · intro id nd' h
      change (s.P.modifySt _ _).nodes[id]? = some nd' at h
      rw [getElem?_modifySt] at h
      cases hx : s.P.nodes[id]? with
      | none => simp [hx] at h
      | some x =>
        simp only [hx, Option.map_some, Option.some.injEq] at h
        subst h
        rw [hist_append, hist_single, List.length_append]
        by_cases hc : s.curr = id
        · simp only [hc, if_true, List.length_singleton]
          rw [C.visited id x hx]
        · simp only [hc, if_false, List.length_nil, Nat.add_zero]
          exact C.visited id x hx
    · intro id nd' h
      change (s.P.modifySt _ _).nodes[id]? = some nd' at h
      rw [getElem?_modifySt] at h
      cases hx : s.P.nodes[id]? with
      | none => simp [hx] at h
      | some x =>
        simp only [hx, Option.map_some, Option.some.injEq] at h
        subst h
        show _ = if some id ∈ s.candidate then _ else _
        rw [List.drop_append_of_le_length hk, hist_append, hist_append, hist_single]
        have hr := C.rewards id x hx
        by_cases hc : s.curr = id
        · simp only [hc, if_true]
          rw [hr]
          split <;> rfl
        · simp only [hc, if_false, List.append_nil]
          exact hr

/-! ### reachable states -/

/-- **Every reachable state satisfies the invariant and the credit invariant.** -/
theorem reach_inv (cfg : SkCfg R S) (k : Kind) (domain : Box α)
    (hK : k.arity domain.length = 2) {s : StroquOOL α R S} {H : List (Nat × R)}
    {ra : Option Nat} (h : Reach cfg k domain s H ra) :
    Inv s ∧ Credit s H ra ∧ s.P.kind = k ∧ dimn s.P = domain.length := by
  induction h with
  | init => exact ⟨init_inv cfg k domain hK, init_credit cfg k domain, rfl, rfl⟩
  | pull _ hd hp ih =>
    obtain ⟨hI, hC, h1, h2⟩ := ih
    obtain ⟨_, hG⟩ := pull_spec cfg hp
    have G := hG hI hd
    exact ⟨G.inv, pull_credit G.frame hC, G.frame.kind.trans h1, G.frame.dimn.trans h2⟩
  | @recv s0 _ _ r _ ih =>
    obtain ⟨hI, hC, h1, h2⟩ := ih
    have hq := receive_prel s0 r
    exact ⟨receive_inv r hI, receive_credit r hI.cur hC, hq.kind.trans h1, hq.dimn_eq.trans h2⟩

/-- the documented loop only visits reachable states, with the ghost history it builds -/
theorem runRounds_reach (cfg : SkCfg R S) (k : Kind) (domain : Box α)
    (hK : k.arity domain.length = 2) :
    ∀ (inputs : List (Nat × R × List (Draw α))) {s s' : StroquOOL α R S}
      {H H' : List (Nat × R)} {ra ra' : Option Nat},
      Reach cfg k domain s H ra → InputsOK k domain.length inputs →
      runRounds cfg s H ra inputs = .ok (s', H', ra') → Reach cfg k domain s' H' ra'
  | [], s, s', H, H', ra, ra', hR, _, h => by
    simp only [runRounds, Except.ok.injEq, Prod.mk.injEq] at h
    obtain ⟨rfl, rfl, rfl⟩ := h
    exact hR
  | (t, r, ds) :: rest, s, s', H, H', ra, ra', hR, hin, h => by
    obtain ⟨_, _, h1, h2⟩ := reach_inv cfg k domain hK hR
    have hd : DrawsOK s.P ds := by
      intro d hdm
      rw [h1, h2]
      exact hin _ (List.mem_cons_self ..) d hdm
    simp only [runRounds] at h
    cases hp : pull cfg s t ds with
    | error e => simp [hp] at h
    | ok x =>
      obtain ⟨s1, ds1, v⟩ := x
      simp only [hp] at h
      have hR1 := Reach.pull hR hd hp
      have hR2 := Reach.recv r hR1
      have hv : (if s1.ended then H else H ++ [(s1.curr, r)]) =
          (if s1.ended then H else H ++ [(v, r)]) := by
        by_cases he : s1.ended = true
        · simp [he]
        · obtain ⟨hO, _⟩ := pull_spec cfg hp
          cases hO with
          | eval _ b => rw [b]
          | fin s1 _ F => exact absurd F.ended he
      rw [hv] at hR2
      exact runRounds_reach cfg k domain hK rest hR2
        (fun x hx => hin x (List.mem_cons_of_mem _ hx)) h

/-- in the documented loop every recorded id was returned by a `pull`, hence is not the root -/
theorem runRounds_pos (cfg : SkCfg R S) (k : Kind) (domain : Box α)
    (hK : k.arity domain.length = 2) :
    ∀ (inputs : List (Nat × R × List (Draw α))) {s s' : StroquOOL α R S}
      {H H' : List (Nat × R)} {ra ra' : Option Nat},
      Reach cfg k domain s H ra → InputsOK k domain.length inputs → (∀ e ∈ H, 1 ≤ e.1) →
      runRounds cfg s H ra inputs = .ok (s', H', ra') → ∀ e ∈ H', 1 ≤ e.1
  | [], s, s', H, H', ra, ra', _, _, hpos, h => by
    simp only [runRounds, Except.ok.injEq, Prod.mk.injEq] at h
    obtain ⟨rfl, rfl, rfl⟩ := h
    exact hpos
  | (t, r, ds) :: rest, s, s', H, H', ra, ra', hR, hin, hpos, h => by
    obtain ⟨hI, _, h1, h2⟩ := reach_inv cfg k domain hK hR
    have hd : DrawsOK s.P ds := by
      intro d hdm
      rw [h1, h2]
      exact hin _ (List.mem_cons_self ..) d hdm
    simp only [runRounds] at h
    cases hp : pull cfg s t ds with
    | error e => simp [hp] at h
    | ok x =>
      obtain ⟨s1, ds1, v⟩ := x
      simp only [hp] at h
      obtain ⟨hO, hG⟩ := pull_spec cfg hp
      have G := hG hI hd
      have hR1 := Reach.pull hR hd hp
      have hR2 := Reach.recv r hR1
      have hv : (if s1.ended then H else H ++ [(s1.curr, r)]) =
          (if s1.ended then H else H ++ [(v, r)]) := by
        by_cases he : s1.ended = true
        · simp [he]
        · cases hO with
          | eval _ b => rw [b]
          | fin s1 _ F => exact absurd F.ended he
      rw [hv] at hR2
      refine runRounds_pos cfg k domain hK rest hR2
        (fun x hx => hin x (List.mem_cons_of_mem _ hx)) ?_ h
      intro e he
      split at he
      · exact hpos e he
      · rcases List.mem_append.1 he with he | he
        · exact hpos e he
        · obtain rfl : e = (v, r) := by simpa using he
          exact (G.inv.mem_chosen.1 G.mem).1

end blocks

end SK
end PyXAB
