/-
  Payload-only updates of the partition arena: `PRel ρ P P'` says that `P'` has the skeleton of
  `P` (kind, layers, depth, and every node's depth/index/parent/children/box) and that the
  nodes are related pointwise by `ρ`.  The tree invariant `WF` only depends on the skeleton.
-/
import PyXABProofs.Spec.TBRun
import PyXABProofs.Lemmas.TreeOps

namespace PyXAB
namespace TBA
open Tree

variable {α σ : Type}

/-- Same node up to the payload. -/
structure Skel (nd nd' : Node α σ) : Prop where
  depth : nd'.depth = nd.depth
  index : nd'.index = nd.index
  parent : nd'.parent = nd.parent
  children : nd'.children = nd.children
  box : nd'.box = nd.box

theorem Skel.rfl' (nd : Node α σ) : Skel nd nd := ⟨rfl, rfl, rfl, rfl, rfl⟩

theorem Skel.trans {a b c : Node α σ} (h1 : Skel a b) (h2 : Skel b c) : Skel a c :=
  ⟨h2.depth.trans h1.depth, h2.index.trans h1.index, h2.parent.trans h1.parent,
    h2.children.trans h1.children, h2.box.trans h1.box⟩

theorem Skel.symm {a b : Node α σ} (h : Skel a b) : Skel b a :=
  ⟨h.depth.symm, h.index.symm, h.parent.symm, h.children.symm, h.box.symm⟩

structure PRel (ρ : Nat → Node α σ → Node α σ → Prop) (P P' : Part α σ) : Prop where
  kind : P'.kind = P.kind
  layers : P'.layers = P.layers
  depth : P'.depth = P.depth
  len : P'.nodes.length = P.nodes.length
  node : ∀ (i : Nat) (nd : Node α σ), P.nodes[i]? = some nd →
    ∃ nd', P'.nodes[i]? = some nd' ∧ Skel nd nd' ∧ ρ i nd nd'

namespace PRel
variable {ρ ρ' : Nat → Node α σ → Node α σ → Prop} {P P' P'' : Part α σ}

theorem refl (h : ∀ i nd, ρ i nd nd) (P : Part α σ) : PRel ρ P P :=
  ⟨rfl, rfl, rfl, rfl, fun i nd hi => ⟨nd, hi, Skel.rfl' nd, h i nd⟩⟩

theorem mono (h : PRel ρ P P') (hm : ∀ i a b, Skel a b → ρ i a b → ρ' i a b) : PRel ρ' P P' :=
  ⟨h.kind, h.layers, h.depth, h.len, fun i nd hi => by
    obtain ⟨nd', h1, h2, h3⟩ := h.node i nd hi
    exact ⟨nd', h1, h2, hm i nd nd' h2 h3⟩⟩

theorem trans (h1 : PRel ρ P P') (h2 : PRel ρ' P' P'') :
    PRel (fun i a c => ∃ b, Skel a b ∧ Skel b c ∧ ρ i a b ∧ ρ' i b c) P P'' :=
  ⟨h2.kind.trans h1.kind, h2.layers.trans h1.layers, h2.depth.trans h1.depth,
    h2.len.trans h1.len, fun i nd hi => by
      obtain ⟨b, b1, b2, b3⟩ := h1.node i nd hi
      obtain ⟨c, c1, c2, c3⟩ := h2.node i b b1
      exact ⟨c, c1, b2.trans c2, b, b2, c2, b3, c3⟩⟩

/-- Composition when the target relation is closed under composition. -/
theorem trans' (h1 : PRel ρ P P') (h2 : PRel ρ' P' P'')
    {τ : Nat → Node α σ → Node α σ → Prop}
    (ht : ∀ i a b c, Skel a b → Skel b c → ρ i a b → ρ' i b c → τ i a c) : PRel τ P P'' :=
  (h1.trans h2).mono (fun i a c _ ⟨b, s1, s2, r1, r2⟩ => ht i a b c s1 s2 r1 r2)

theorem bwd (h : PRel ρ P P') {i : Nat} {nd' : Node α σ} (hi : P'.nodes[i]? = some nd') :
    ∃ nd, P.nodes[i]? = some nd ∧ Skel nd nd' ∧ ρ i nd nd' := by
  have hlt : i < P.nodes.length := by rw [← h.len]; exact lt_length_of_getElem? hi
  obtain ⟨x, h1, h2, h3⟩ := h.node i _ (List.getElem?_eq_getElem hlt)
  obtain rfl := getElem?_inj h1 hi
  exact ⟨_, List.getElem?_eq_getElem hlt, h2, h3⟩

theorem dimn_eq (h : PRel ρ P P') : dimn P' = dimn P := by
  unfold dimn
  cases h0 : P.nodes[0]? with
  | none =>
    have : P'.nodes[0]? = none := by
      rw [List.getElem?_eq_none_iff] at h0 ⊢; rw [h.len]; exact h0
    simp [this]
  | some r =>
    obtain ⟨r', h1, h2, _⟩ := h.node 0 r h0
    simp [h1, h2.box]

theorem K_eq (h : PRel ρ P P') : K P' = K P := by
  simp only [K, h.dimn_eq, h.kind]

theorem isLeaf_eq (h : PRel ρ P P') (i : Nat) : P'.isLeaf i = P.isLeaf i := by
  unfold Part.isLeaf
  cases h0 : P.nodes[i]? with
  | none =>
    have : P'.nodes[i]? = none := by
      rw [List.getElem?_eq_none_iff] at h0 ⊢; rw [h.len]; exact h0
    simp [this]
  | some r =>
    obtain ⟨r', h1, h2, _⟩ := h.node i r h0
    simp [h1, h2.children]

/-- The tree invariant only depends on the skeleton. -/
theorem wf (h : PRel ρ P P') (W : WF P) : WF P' where
  root := by
    obtain ⟨r, r0, r1, r2, r3⟩ := W.root
    obtain ⟨r', h1, h2, _⟩ := h.node 0 r r0
    exact ⟨r', h1, h2.depth.trans r1, h2.index.trans r2, h2.parent.trans r3⟩
  boxlen := by
    intro i nd' hi
    obtain ⟨nd, h1, h2, _⟩ := h.bwd hi
    rw [h.dimn_eq, h2.box]; exact W.boxlen i nd h1
  parent := by
    intro c nd' hc hi
    obtain ⟨nd, h1, h2, _⟩ := h.bwd hi
    obtain ⟨p, pn, cs, a1, a2, a3, a4, a5, a6⟩ := W.parent c nd hc h1
    obtain ⟨pn', b1, b2, _⟩ := h.node p pn a3
    exact ⟨p, pn', cs, h2.parent.trans a1, a2, b1, b2.children.trans a4, a5,
      by rw [h2.depth, b2.depth]; exact a6⟩
  children := by
    intro p pn' cs hi hcs
    obtain ⟨pn, h1, h2, _⟩ := h.bwd hi
    obtain ⟨a1, a, a2, a3, a4, a5⟩ := W.children p pn cs h1 (h2.children.symm.trans hcs)
    rw [h.K_eq, h.len]
    refine ⟨a1, a, a2, a3, a4, fun j hj => ?_⟩
    obtain ⟨cn, c1, c2, c3⟩ := a5 j hj
    obtain ⟨cn', d1, d2, _⟩ := h.node _ cn c1
    exact ⟨cn', d1, d2.parent.trans c2, by rw [d2.index, h2.index]; exact c3⟩
  index_pos := by
    intro i nd' hi
    obtain ⟨nd, h1, h2, _⟩ := h.bwd hi
    rw [h2.index]; exact W.index_pos i nd h1
  layers_len := by rw [h.layers, h.depth]; exact W.layers_len
  layers_mem := by
    intro d l hl
    rw [h.layers] at hl
    obtain ⟨a1, a2, a3⟩ := W.layers_mem d l hl
    refine ⟨a1, a2, fun i => ?_⟩
    rw [a3 i]
    constructor
    · rintro ⟨nd, b1, b2⟩
      obtain ⟨nd', c1, c2, _⟩ := h.node i nd b1
      exact ⟨nd', c1, c2.depth.trans b2⟩
    · rintro ⟨nd', b1, b2⟩
      obtain ⟨nd, c1, c2, _⟩ := h.bwd b1
      exact ⟨nd, c1, c2.depth.symm.trans b2⟩
  depth_le := by
    intro i nd' hi
    obtain ⟨nd, h1, h2, _⟩ := h.bwd hi
    rw [h2.depth, h.depth]; exact W.depth_le i nd h1

end PRel

/-! ### Elementary payload updates -/

theorem getElem?_modifySt (P : Part α σ) (i : Nat) (f : σ → σ) (j : Nat) :
    (P.modifySt i f).nodes[j]? =
      (P.nodes[j]?).map (fun nd => if i = j then { nd with st := f nd.st } else nd) := by
  simp only [Part.modifySt, Part.modifyNode, List.getElem?_modify]
  rfl

/-- `modifySt i f` relates every node to itself except node `i`, whose payload becomes `f st`. -/
theorem PRel_modifySt (P : Part α σ) (i : Nat) (f : σ → σ) :
    PRel (fun j nd nd' => nd'.st = if j = i then f nd.st else nd.st) P (P.modifySt i f) where
  kind := rfl
  layers := rfl
  depth := rfl
  len := by simp [Part.modifySt, Part.modifyNode]
  node := by
    intro j nd hj
    rw [getElem?_modifySt, hj]
    by_cases h : i = j
    · subst h
      exact ⟨{ nd with st := f nd.st }, by simp, ⟨rfl, rfl, rfl, rfl, rfl⟩, by simp⟩
    · have h' : ¬ j = i := fun e => h e.symm
      exact ⟨nd, by simp [h], Skel.rfl' nd, by simp [h']⟩

/-! ### Folds -/

theorem foldl_inv {β γ : Type} (I : β → Prop) (f : β → γ → β) :
    ∀ (l : List γ) (b : β), I b → (∀ b x, x ∈ l → I b → I (f b x)) → I (l.foldl f b)
  | [], _, hb, _ => hb
  | x :: l, b, hb, hf => by
    rw [List.foldl_cons]
    exact foldl_inv I f l (f b x) (hf b x (List.mem_cons_self ..) hb)
      (fun b y hy => hf b y (List.mem_cons_of_mem _ hy))

theorem foldlM_inv {β γ : Type} (I : β → Prop) (f : β → γ → Except Err β) :
    ∀ (l : List γ) (b : β), I b → (∀ b x, x ∈ l → I b → ∃ b', f b x = .ok b' ∧ I b') →
      ∃ b', l.foldlM f b = .ok b' ∧ I b'
  | [], b, hb, _ => ⟨b, rfl, hb⟩
  | x :: l, b, hb, hf => by
    obtain ⟨b1, h1, h2⟩ := hf b x (List.mem_cons_self ..) hb
    obtain ⟨b2, h3, h4⟩ := foldlM_inv I f l b1 h2 (fun b y hy => hf b y (List.mem_cons_of_mem _ hy))
    refine ⟨b2, ?_, h4⟩
    rw [List.foldlM_cons, h1]
    exact h3

end TBA
end PyXAB
