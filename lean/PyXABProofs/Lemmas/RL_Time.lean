/-
  C15.1: the `time` argument of `pull` is only stored (in `iteration`), never read.
-/
import PyXABProofs.Lemmas.RL_Machine

namespace PyXAB
namespace RL
open Rel
set_option linter.unusedSectionVars false

theorem forall₂_of_map_eq {A B C : Type} (f : A → C) (f' : B → C) :
    ∀ (l : List A) (l' : List B), l.map f = l'.map f' → List.Forall₂ (fun a b => f a = f' b) l l'
  | [], [], _ => List.Forall₂.nil
  | [], _ :: _, h => by simp at h
  | _ :: _, [], h => by simp at h
  | a :: l, b :: l', h => by
    simp only [List.map_cons, List.cons.injEq] at h
    exact List.Forall₂.cons h.1 (forall₂_of_map_eq f f' l l' h.2)

theorem RelRes1.ok_left {σ σ' ε : Type} {Rs : σ → σ' → Prop} {s : σ} {y : Except ε σ'}
    (h : RelRes1 Rs (.ok s) y) : ∃ s', y = .ok s' ∧ Rs s s' := by
  cases y with
  | error e => exact h.elim
  | ok s' => exact ⟨s', rfl, h⟩

theorem RelRes1.error_left {σ σ' ε : Type} {Rs : σ → σ' → Prop} {e : ε} {y : Except ε σ'}
    (h : RelRes1 Rs (.error e : Except ε σ) y) : y = .error e := by
  cases y with
  | error e' => exact congrArg _ (Eq.symm h)
  | ok s' => exact h.elim

/-! ## SOO -/
section soo
variable {α S : Type} [Add α] [Sub α] [Mul α] [Div α] [OfNat α 2] [NatCast α]
variable [LE S] [DecidableLE S] [Inhabited S]

theorem soo_eqExceptIter_refl (s : SOO α S) : SOOEqExceptIter s s := ⟨rfl, rfl, rfl⟩

/-- `pull` with two different time labels on states that differ in `iteration` only: same
exception, or same cell, same remaining draws, and states that differ in `iteration` only. -/
theorem soo_pull_time (negInf : S) {s s' : SOO α S} (h : SOOEqExceptIter s s') (t t' : Nat)
    (ds : List (Draw α)) :
    RelRes SOOEqExceptIter Eq (SOO.pull negInf s t ds) (SOO.pull negInf s' t' ds) := by
  obtain ⟨P, it, hmax, curr⟩ := s
  obtain ⟨P', it', hmax', curr'⟩ := s'
  obtain ⟨h1, h2, h3⟩ := h
  simp only at h1 h2 h3
  subst h1 h2 h3
  unfold SOO.pull
  simp only [bind, Except.bind, pure, Except.pure]
  split_both
  · exact rfl
  · exact ⟨⟨rfl, rfl, rfl⟩, rfl⟩

theorem soo_receive_time {s s' : SOO α S} (h : SOOEqExceptIter s s') (r : S) :
    RelRes1 SOOEqExceptIter (SOO.receive s r) (SOO.receive s' r) := by
  obtain ⟨P, it, hmax, curr⟩ := s
  obtain ⟨P', it', hmax', curr'⟩ := s'
  obtain ⟨h1, h2, h3⟩ := h
  simp only at h1 h2 h3
  subst h1 h2 h3
  unfold SOO.receive
  dsimp only
  split_both
  · exact rfl
  · exact ⟨rfl, rfl, rfl⟩

theorem soo_round_time (negInf : S) {s s' : SOO α S} (h : SOOEqExceptIter s s') (x x' : TIn α S)
    (hx : x.2 = x'.2) :
    RelRes SOOEqExceptIter Eq (sooRound negInf s x) (sooRound negInf s' x') := by
  obtain ⟨t, ds, r⟩ := x
  obtain ⟨t', ds', r'⟩ := x'
  simp only [Prod.mk.injEq] at hx
  obtain ⟨rfl, rfl⟩ := hx
  unfold sooRound
  have h1 := soo_pull_time negInf h t t' ds
  simp only []
  cases hp : SOO.pull negInf s t ds with
  | error e =>
    rw [hp] at h1
    rw [RelRes.error_left h1]
    exact rfl
  | ok v =>
    obtain ⟨s1, ds1, c⟩ := v
    rw [hp] at h1
    obtain ⟨s1', o', h2, h3, h4⟩ := RelRes.ok_left h1
    subst h4
    rw [h2]
    simp only []
    have h5 := soo_receive_time h3 r
    cases hr : SOO.receive s1 r with
    | error e =>
      rw [hr] at h5
      rw [RelRes1.error_left h5]
      exact rfl
    | ok s2 =>
      rw [hr] at h5
      obtain ⟨s2', h6, h7⟩ := RelRes1.ok_left h5
      rw [h6]
      exact ⟨h7, rfl⟩

end soo

/-! ## DOO -/
section doo
variable {α S : Type} [Add α] [Sub α] [Mul α] [Div α] [OfNat α 2] [NatCast α]
variable [LE S] [DecidableLE S] [Inhabited S]

theorem doo_pull_time (cfg : DOOCfg α S) {s s' : DOO α S} (h : DOOEqExceptIter s s') (t t' : Nat)
    (ds : List (Draw α)) :
    RelRes DOOEqExceptIter Eq (DOO.pull cfg s t ds) (DOO.pull cfg s' t' ds) := by
  obtain ⟨P, it, curr⟩ := s
  obtain ⟨P', it', curr'⟩ := s'
  obtain ⟨h1, h2⟩ := h
  simp only at h1 h2
  subst h1 h2
  unfold DOO.pull
  simp only [bind, Except.bind, pure, Except.pure]
  split_both
  · exact rfl
  · exact ⟨⟨rfl, rfl⟩, rfl⟩

theorem doo_receive_time {s s' : DOO α S} (h : DOOEqExceptIter s s') (r : S) :
    RelRes1 DOOEqExceptIter (DOO.receive s r) (DOO.receive s' r) := by
  obtain ⟨P, it, curr⟩ := s
  obtain ⟨P', it', curr'⟩ := s'
  obtain ⟨h1, h2⟩ := h
  simp only at h1 h2
  subst h1 h2
  unfold DOO.receive
  dsimp only
  split_both
  · exact rfl
  · exact ⟨rfl, rfl⟩

theorem doo_round_time (cfg : DOOCfg α S) {s s' : DOO α S} (h : DOOEqExceptIter s s') (x x' : TIn α S)
    (hx : x.2 = x'.2) :
    RelRes DOOEqExceptIter Eq (dooRound cfg s x) (dooRound cfg s' x') := by
  obtain ⟨t, ds, r⟩ := x
  obtain ⟨t', ds', r'⟩ := x'
  simp only [Prod.mk.injEq] at hx
  obtain ⟨rfl, rfl⟩ := hx
  unfold dooRound
  have h1 := doo_pull_time cfg h t t' ds
  simp only []
  cases hp : DOO.pull cfg s t ds with
  | error e =>
    rw [hp] at h1
    rw [RelRes.error_left h1]
    exact rfl
  | ok v =>
    obtain ⟨s1, ds1, c⟩ := v
    rw [hp] at h1
    obtain ⟨s1', o', h2, h3, h4⟩ := RelRes.ok_left h1
    subst h4
    rw [h2]
    simp only []
    have h5 := doo_receive_time h3 r
    cases hr : DOO.receive s1 r with
    | error e =>
      rw [hr] at h5
      rw [RelRes1.error_left h5]
      exact rfl
    | ok s2 =>
      rw [hr] at h5
      obtain ⟨s2', h6, h7⟩ := RelRes1.ok_left h5
      rw [h6]
      exact ⟨h7, rfl⟩

end doo

/-! ## SequOOL -/
section seq
variable {α S : Type} [Add α] [Sub α] [Mul α] [Div α] [OfNat α 2] [NatCast α]
variable [LE S] [DecidableLE S] [Inhabited S]

theorem seq_pull_time (negInf : S) {s s' : SequOOL α S} (h : SeqEqExceptIter s s') (t t' : Nat)
    (ds : List (Draw α)) :
    RelRes SeqEqExceptIter Eq (SequOOL.pull negInf s t ds) (SequOOL.pull negInf s' t' ds) := by
  obtain ⟨P, it, hmax, cd, loc, budget, chosen, curr⟩ := s
  obtain ⟨P', it', hmax', cd', loc', budget', chosen', curr'⟩ := s'
  obtain ⟨h1, h2, h3, h4, h5, h6, h7⟩ := h
  simp only at h1 h2 h3 h4 h5 h6 h7
  subst h1 h2 h3 h4 h5 h6 h7
  unfold SequOOL.pull
  simp only [bind, Except.bind]
  split_both
  all_goals first | exact rfl | exact ⟨⟨rfl, rfl, rfl, rfl, rfl, rfl, rfl⟩, rfl⟩

theorem seq_receive_time {s s' : SequOOL α S} (h : SeqEqExceptIter s s') (r : S) :
    RelRes1 SeqEqExceptIter (SequOOL.receive s r) (SequOOL.receive s' r) := by
  obtain ⟨P, it, hmax, cd, loc, budget, chosen, curr⟩ := s
  obtain ⟨P', it', hmax', cd', loc', budget', chosen', curr'⟩ := s'
  obtain ⟨h1, h2, h3, h4, h5, h6, h7⟩ := h
  simp only at h1 h2 h3 h4 h5 h6 h7
  subst h1 h2 h3 h4 h5 h6 h7
  unfold SequOOL.receive
  dsimp only
  split_both
  · exact rfl
  · exact ⟨rfl, rfl, rfl, rfl, rfl, rfl, rfl⟩

theorem seq_round_time (negInf : S) {s s' : SequOOL α S} (h : SeqEqExceptIter s s') (x x' : TIn α S)
    (hx : x.2 = x'.2) :
    RelRes SeqEqExceptIter Eq (seqRound negInf s x) (seqRound negInf s' x') := by
  obtain ⟨t, ds, r⟩ := x
  obtain ⟨t', ds', r'⟩ := x'
  simp only [Prod.mk.injEq] at hx
  obtain ⟨rfl, rfl⟩ := hx
  unfold seqRound
  have h1 := seq_pull_time negInf h t t' ds
  simp only []
  cases hp : SequOOL.pull negInf s t ds with
  | error e =>
    rw [hp] at h1
    rw [RelRes.error_left h1]
    exact rfl
  | ok v =>
    obtain ⟨s1, ds1, c⟩ := v
    rw [hp] at h1
    obtain ⟨s1', o', h2, h3, h4⟩ := RelRes.ok_left h1
    subst h4
    rw [h2]
    simp only []
    have h5 := seq_receive_time h3 r
    cases hr : SequOOL.receive s1 r with
    | error e =>
      rw [hr] at h5
      rw [RelRes1.error_left h5]
      exact rfl
    | ok s2 =>
      rw [hr] at h5
      obtain ⟨s2', h6, h7⟩ := RelRes1.ok_left h5
      rw [h6]
      exact ⟨h7, rfl⟩

end seq

/-! ## VROOM -/
section vroom
variable {α R S : Type} [Add α] [Sub α] [Mul α] [Div α] [OfNat α 2] [NatCast α]
variable [LE S] [DecidableLE S] [Inhabited S] [Inhabited R]

theorem vroom_pull_time (cfg : VrCfg R S) {s s' : VROOM α R S} (h : VrEqExceptIter s s') (t t' : Nat)
    (dr : VDraw α) :
    RelRes VrEqExceptIter Eq (VROOM.pull cfg s t dr) (VROOM.pull cfg s' t' dr) := by
  obtain ⟨P, it, prob, curr, ul⟩ := s
  obtain ⟨P', it', prob', curr', ul'⟩ := s'
  obtain ⟨h1, h2, h3, h4⟩ := h
  simp only at h1 h2 h3 h4
  subst h1 h2 h3 h4
  unfold VROOM.pull
  simp only [bind, Except.bind, pure, Except.pure]
  split_both
  all_goals first | exact rfl | exact ⟨⟨rfl, rfl, rfl, rfl⟩, rfl⟩

theorem vroom_receive_time (cfg : VrCfg R S) {s s' : VROOM α R S} (h : VrEqExceptIter s s') (r : R) :
    RelRes1 VrEqExceptIter (VROOM.receive cfg s r) (VROOM.receive cfg s' r) := by
  obtain ⟨P, it, prob, curr, ul⟩ := s
  obtain ⟨P', it', prob', curr', ul'⟩ := s'
  obtain ⟨h1, h2, h3, h4⟩ := h
  simp only at h1 h2 h3 h4
  subst h1 h2 h3 h4
  unfold VROOM.receive
  simp only [bind, Except.bind, pure, Except.pure]
  split_both
  · exact rfl
  · exact ⟨rfl, rfl, rfl, rfl⟩

theorem vroom_round_time (cfg : VrCfg R S) {s s' : VROOM α R S} (h : VrEqExceptIter s s')
    (x x' : Nat × VDraw α × R) (hx : x.2 = x'.2) :
    RelRes VrEqExceptIter Eq (vroomRound cfg s x) (vroomRound cfg s' x') := by
  obtain ⟨t, dr, r⟩ := x
  obtain ⟨t', dr', r'⟩ := x'
  simp only [Prod.mk.injEq] at hx
  obtain ⟨rfl, rfl⟩ := hx
  unfold vroomRound
  have h1 := vroom_pull_time cfg h t t' dr
  simp only []
  cases hp : VROOM.pull cfg s t dr with
  | error e =>
    rw [hp] at h1
    rw [RelRes.error_left h1]
    exact rfl
  | ok v =>
    obtain ⟨s1, c⟩ := v
    rw [hp] at h1
    obtain ⟨s1', o', h2, h3, h4⟩ := RelRes.ok_left h1
    subst h4
    rw [h2]
    simp only []
    have h5 := vroom_receive_time cfg h3 r
    cases hr : VROOM.receive cfg s1 r with
    | error e =>
      rw [hr] at h5
      rw [RelRes1.error_left h5]
      exact rfl
    | ok s2 =>
      rw [hr] at h5
      obtain ⟨s2', h6, h7⟩ := RelRes1.ok_left h5
      rw [h6]
      exact ⟨h7, rfl⟩

end vroom

/-! ## POO / GPO over a base learner which ignores `time` -/
section metaAlg
variable {L α R S Pt ρ : Type}

theorem poo_pull_time (ops : LearnerOps L α R Pt ρ) (h : OpsIgnoreTime ops) (cfg : POOCfg R S ρ)
    (s : POO L S) (t t' : Nat) (ds : List (Draw α)) :
    POO.pull ops cfg s t ds = POO.pull ops cfg s t' ds := by
  unfold POO.pull
  simp only [h.pull _ t t']

theorem poo_receive_time (ops : LearnerOps L α R Pt ρ) (h : OpsIgnoreTime ops) (cfg : POOCfg R S ρ)
    (s : POO L S) (t t' : Nat) (r : R) (ds : List (Draw α)) :
    POO.receive ops cfg s t r ds = POO.receive ops cfg s t' r ds := by
  unfold POO.receive
  simp only [h.receive _ t t']

theorem gpo_pull_time (ops : LearnerOps L α R Pt ρ) (h : OpsIgnoreTime ops) (cfg : GPOCfg R S ρ)
    (s : GPO L S Pt) (t t' : Nat) (ds : List (Draw α)) :
    GPO.pull ops cfg s t ds = GPO.pull ops cfg s t' ds := by
  unfold GPO.pull
  simp only [h.pull _ t t']

theorem gpo_receive_time [LT S] [DecidableLT S] (ops : LearnerOps L α R Pt ρ) (h : OpsIgnoreTime ops)
    (cfg : GPOCfg R S ρ) (s : GPO L S Pt) (t t' : Nat) (r : R) (ds : List (Draw α)) :
    GPO.receive ops cfg s t r ds = GPO.receive ops cfg s t' r ds := by
  unfold GPO.receive
  simp only [h.receive _ t t']

end metaAlg

/-! ## StoSOO reads `time` -/
section sto
variable {α R S : Type} [Add α] [Sub α] [Mul α] [Div α] [OfNat α 2] [NatCast α]
variable [LE S] [DecidableLE S] [Inhabited S] [Inhabited R]

/-- `StoSOO.pull` with a time label beyond the budget never returns (the Python loop spins):
the result of `pull` does depend on `time`. -/
theorem sto_pull_late (cfg : StoCfg S R) (s : StoSOO α R S) (time : Nat) (ds : List (Draw α))
    (h : cfg.n < time) : StoSOO.pull cfg s time ds = .error .outOfFuel := by
  unfold StoSOO.pull
  have hl : StoSOO.loop cfg time (s.P.depth + 4) 0 cfg.negInf s.P ds = .error .outOfFuel := by
    show StoSOO.loop cfg time (s.P.depth + 3 + 1) 0 cfg.negInf s.P ds = .error .outOfFuel
    unfold StoSOO.loop
    have h0 : 0 ≤ min (s.P.depth + 1) cfg.hmax := Nat.zero_le _
    have h1 : ¬ time ≤ cfg.n := Nat.not_le.2 h
    simp only [h0, h1, if_true, if_false]
  simp only [hl, bind, Except.bind]

end sto

end RL
end PyXAB
