/-
  Whole-run corollaries of the step lemmas (rounds with extra queries, runs under mapped boxes,
  boxes kept along runs).
-/
import PyXABProofs.Lemmas.RL_HCT
import PyXABProofs.Lemmas.RL_Zoom
import PyXABProofs.Spec.TBRun

namespace PyXAB
namespace RL
open Rel
set_option linter.unusedSectionVars false

/-! ## T-HOO -/
section hoo
variable {α R S : Type} [Add α] [Sub α] [Mul α] [Div α] [OfNat α 2] [NatCast α]
variable [LE S] [DecidableLE S] [Max S] [Min S] [Inhabited S] [Inhabited R]

/-- a round with `q` extra queries is the plain round -/
theorem hooRoundQ_eq_round (cfg : HOOCfg R S) (s : HOO α R S) (q : Nat) (r : R) (ds : List (Draw α)) :
    hooRoundQ cfg s (q, r, ds) = HOO.round cfg s r ds := by
  unfold hooRoundQ HOO.round
  have h := hoo_pullN_pull s q
  simp only [] at h ⊢
  cases hq : hooPullN q s with
  | error e =>
    rw [hq] at h
    simp only [← h]
  | ok s0 =>
    rw [hq] at h
    simp only [] at h
    simp only [h]
    rfl

variable {g : Box α → Box α} {gd : Draw α → Draw α}

theorem hoo_round_map (hg : BoxEquivariant g gd) (cfg : HOOCfg R S) (s : HOO α R S) (r : R)
    (ds : List (Draw α)) :
    HOO.round cfg (hooMapBox g s) r (ds.map gd) = mapRes (hooMapBox g) id (HOO.round cfg s r ds) := by
  unfold HOO.round
  rw [hoo_pull_map]
  cases HOO.pull s with
  | error e => rfl
  | ok x =>
    obtain ⟨s1, v⟩ := x
    simp only [mapRes, hoo_receive_map hg]
    cases HOO.receive cfg s1 r ds with
    | error e => rfl
    | ok y => rfl

theorem hoo_runRounds_map (hg : BoxEquivariant g gd) (cfg : HOOCfg R S) :
    ∀ (inputs : List (R × List (Draw α))) (s : HOO α R S),
      HOO.runRounds cfg (hooMapBox g s) (inputs.map (fun x => (x.1, x.2.map gd))) =
        mapRes (hooMapBox g) id (HOO.runRounds cfg s inputs)
  | [], _ => rfl
  | (r, ds) :: rest, s => by
    simp only [List.map_cons, HOO.runRounds, hoo_round_map hg]
    cases HOO.round cfg s r ds with
    | error e => rfl
    | ok x =>
      obtain ⟨s1, v⟩ := x
      simp only [mapRes, hoo_runRounds_map hg cfg rest s1]
      cases HOO.runRounds cfg s1 rest with
      | error e => rfl
      | ok y => rfl

theorem hoo_run_map (hg : BoxEquivariant g gd) (cfg : HOOCfg R S) (k : Kind) (domain : Box α)
    (ds0 : List (Draw α)) (inputs : List (R × List (Draw α))) :
    HOO.run cfg k (g domain) (ds0.map gd) (inputs.map (fun x => (x.1, x.2.map gd))) =
      mapRes (hooMapBox g) id (HOO.run cfg k domain ds0 inputs) := by
  unfold HOO.run
  rw [hoo_init_map hg]
  cases HOO.init cfg k domain ds0 with
  | error e => rfl
  | ok x =>
    obtain ⟨s0, ds'⟩ := x
    simp only [mapRes]
    exact hoo_runRounds_map hg cfg inputs s0

/-! boxes kept -/

theorem hooOp_boxesKept (cfg : HOOCfg R S) {s s1 : HOO α R S} {op : TBOp α R} {o : Option Nat}
    (h : hooOp cfg s op = .ok (s1, o)) : BoxesKept s.P s1.P := by
  cases op with
  | pull =>
    unfold hooOp at h
    cases hp : HOO.pull s with
    | error e => simp [hp] at h
    | ok x =>
      obtain ⟨s2, v⟩ := x
      simp only [hp, Except.ok.injEq, Prod.mk.injEq] at h
      obtain ⟨rfl, _⟩ := h
      rw [hoo_pull_P hp]
      exact boxesKept_refl _
  | receive r ds =>
    unfold hooOp at h
    cases hp : HOO.receive cfg s r ds with
    | error e => simp [hp] at h
    | ok x =>
      obtain ⟨s2, ds'⟩ := x
      simp only [hp, Except.ok.injEq, Prod.mk.injEq] at h
      obtain ⟨rfl, _⟩ := h
      exact hoo_receive_boxesKept cfg hp

theorem hoo_ops_boxesKept (cfg : HOOCfg R S) :
    ∀ (ops : List (TBOp α R)) (s s1 : HOO α R S) (os : List (Option Nat)),
      runM (hooOp cfg) s ops = .ok (s1, os) → BoxesKept s.P s1.P
  | [], s, s1, os, h => by
    simp only [runM, Except.ok.injEq, Prod.mk.injEq] at h
    obtain ⟨rfl, _⟩ := h
    exact boxesKept_refl _
  | op :: ops, s, s1, os, h => by
    cases h1 : hooOp cfg s op with
    | error e => simp [runM, h1] at h
    | ok x =>
      obtain ⟨s2, o⟩ := x
      rw [runM_cons_ok h1] at h
      cases h2 : runM (hooOp cfg) s2 ops with
      | error e => simp [h2] at h
      | ok y =>
        obtain ⟨s3, os'⟩ := y
        simp only [h2, Except.ok.injEq, Prod.mk.injEq] at h
        obtain ⟨rfl, _⟩ := h
        exact boxesKept_trans (hooOp_boxesKept cfg h1) (hoo_ops_boxesKept cfg ops s2 s3 os' h2)

theorem hoo_round_boxesKept (cfg : HOOCfg R S) {s s1 : HOO α R S} {r : R} {ds : List (Draw α)} {v : Nat}
    (h : HOO.round cfg s r ds = .ok (s1, v)) : BoxesKept s.P s1.P := by
  unfold HOO.round at h
  cases hp : HOO.pull s with
  | error e => simp [hp] at h
  | ok x =>
    obtain ⟨s2, w⟩ := x
    simp only [hp] at h
    cases hr : HOO.receive cfg s2 r ds with
    | error e => simp [hr] at h
    | ok y =>
      obtain ⟨s3, ds'⟩ := y
      simp only [hr, Except.ok.injEq, Prod.mk.injEq] at h
      obtain ⟨rfl, _⟩ := h
      have := hoo_receive_boxesKept cfg hr
      rw [hoo_pull_P hp] at this
      exact this

theorem hoo_runRounds_boxesKept (cfg : HOOCfg R S) :
    ∀ (inputs : List (R × List (Draw α))) (s s1 : HOO α R S) (H : List (Nat × R)),
      HOO.runRounds cfg s inputs = .ok (s1, H) → BoxesKept s.P s1.P
  | [], s, s1, H, h => by
    simp only [HOO.runRounds, Except.ok.injEq, Prod.mk.injEq] at h
    obtain ⟨rfl, _⟩ := h
    exact boxesKept_refl _
  | (r, ds) :: rest, s, s1, H, h => by
    simp only [HOO.runRounds] at h
    cases h1 : HOO.round cfg s r ds with
    | error e => simp [h1] at h
    | ok x =>
      obtain ⟨s2, v⟩ := x
      simp only [h1] at h
      cases h2 : HOO.runRounds cfg s2 rest with
      | error e => simp [h2] at h
      | ok y =>
        obtain ⟨s3, H'⟩ := y
        simp only [h2, Except.ok.injEq, Prod.mk.injEq] at h
        obtain ⟨rfl, _⟩ := h
        exact boxesKept_trans (hoo_round_boxesKept cfg h1) (hoo_runRounds_boxesKept cfg rest s2 s3 H' h2)

theorem hoo_run_rootBox (cfg : HOOCfg R S) (k : Kind) (domain : Box α) (ds0 : List (Draw α))
    (inputs : List (R × List (Draw α))) {s : HOO α R S} {H : List (Nat × R)}
    (h : HOO.run cfg k domain ds0 inputs = .ok (s, H)) : rootBox s.P = some domain := by
  unfold HOO.run at h
  cases h0 : HOO.init cfg k domain ds0 with
  | error e => simp [h0] at h
  | ok x =>
    obtain ⟨s0, ds'⟩ := x
    simp only [h0] at h
    exact boxesKept_rootBox (hoo_runRounds_boxesKept cfg inputs s0 s H h) (hoo_init_rootBox cfg k domain h0)

end hoo

/-! ## HCT / VHCT -/
section hct
variable {α R S : Type} [Add α] [Sub α] [Mul α] [Div α] [OfNat α 2] [NatCast α]
variable [LE S] [DecidableLE S] [Max S] [Min S] [Inhabited S] [Inhabited R]

theorem hctRoundQ_eq_round (cfg : HCTCfg R S) (s : HCT α R S) (q : Nat) (r : R) (ds : List (Draw α)) :
    hctRoundQ cfg s (q, r, ds) = HCT.round cfg s r ds := by
  unfold hctRoundQ HCT.round
  have h := hct_pullN_pull cfg s q
  simp only [] at h ⊢
  cases hq : hctPullN cfg q s with
  | error e =>
    rw [hq] at h
    simp only [← h]
  | ok s0 =>
    rw [hq] at h
    simp only [] at h
    simp only [h]
    rfl

variable {g : Box α → Box α} {gd : Draw α → Draw α}

theorem hct_round_map (hg : BoxEquivariant g gd) (cfg : HCTCfg R S) (s : HCT α R S) (r : R)
    (ds : List (Draw α)) :
    HCT.round cfg (hctMapBox g s) r (ds.map gd) = mapRes (hctMapBox g) id (HCT.round cfg s r ds) := by
  unfold HCT.round
  rw [hct_pull_map]
  cases HCT.pull cfg s with
  | error e => rfl
  | ok x =>
    obtain ⟨s1, v⟩ := x
    simp only [mapRes, hct_receive_map hg]
    cases HCT.receive cfg s1 r ds with
    | error e => rfl
    | ok y => rfl

theorem hct_runRounds_map (hg : BoxEquivariant g gd) (cfg : HCTCfg R S) :
    ∀ (inputs : List (R × List (Draw α))) (s : HCT α R S),
      HCT.runRounds cfg (hctMapBox g s) (inputs.map (fun x => (x.1, x.2.map gd))) =
        mapRes (hctMapBox g) id (HCT.runRounds cfg s inputs)
  | [], _ => rfl
  | (r, ds) :: rest, s => by
    simp only [List.map_cons, HCT.runRounds, hct_round_map hg]
    cases HCT.round cfg s r ds with
    | error e => rfl
    | ok x =>
      obtain ⟨s1, v⟩ := x
      simp only [mapRes, hct_runRounds_map hg cfg rest s1]
      cases HCT.runRounds cfg s1 rest with
      | error e => rfl
      | ok y => rfl

theorem hct_run_map (hg : BoxEquivariant g gd) (cfg : HCTCfg R S) (k : Kind) (domain : Box α)
    (ds0 : List (Draw α)) (inputs : List (R × List (Draw α))) :
    HCT.run cfg k (g domain) (ds0.map gd) (inputs.map (fun x => (x.1, x.2.map gd))) =
      mapRes (hctMapBox g) id (HCT.run cfg k domain ds0 inputs) := by
  unfold HCT.run
  rw [hct_init_map hg]
  cases HCT.init cfg k domain ds0 with
  | error e => rfl
  | ok x =>
    obtain ⟨s0, ds'⟩ := x
    simp only [mapRes]
    exact hct_runRounds_map hg cfg inputs s0

end hct

/-! ## Zooming -/
section zoom
variable {α R S : Type} [Add α] [Sub α] [Mul α] [Div α] [OfNat α 2] [NatCast α]
variable [LE α] [DecidableLE α] [LE S] [DecidableLE S] [Inhabited S]

/-- the plain round (`pull; receive`) -/
theorem zoomRoundQ_eq (cfg : ZoomCfg R S) (s : Zooming α S) (q : Nat) (r : R) (ds : List (Draw α)) :
    zoomRoundQ cfg s (q, r, ds) = zoomRoundQ cfg s (0, r, ds) := by
  unfold zoomRoundQ
  have h := zoom_pullN_pull cfg s q
  simp only [zoomPullN] at h ⊢
  cases hq : zoomPullN cfg q s with
  | error e =>
    rw [hq] at h
    simp only [← h]
  | ok s0 =>
    rw [hq] at h
    simp only [] at h
    simp only [h]

variable {g : Box α → Box α} {gd : Draw α → Draw α} {f : List α → List α}

theorem zoomPullN_map (cfg : ZoomCfg R S) (g : Box α → Box α) (f : List α → List α) :
    ∀ (q : Nat) (s : Zooming α S),
      zoomPullN cfg q (zoomMap g f s) = mapRes1 (zoomMap g f) (zoomPullN cfg q s)
  | 0, _ => rfl
  | q + 1, s => by
    simp only [zoomPullN, zoom_pull_map]
    cases Zooming.pull cfg s with
    | error e => rfl
    | ok x =>
      obtain ⟨s1, v⟩ := x
      exact zoomPullN_map cfg g f q s1

theorem zoomRoundQ_map (hz : ZoomEquivariant g gd f) (cfg : ZoomCfg R S) (s : Zooming α S)
    (x : Nat × R × List (Draw α)) :
    zoomRoundQ cfg (zoomMap g f s) (x.1, x.2.1, x.2.2.map gd) =
      mapRes (zoomMap g f) (fun v => (v.1, f v.2)) (zoomRoundQ cfg s x) := by
  obtain ⟨q, r, ds⟩ := x
  unfold zoomRoundQ
  simp only [zoomPullN_map]
  cases zoomPullN cfg q s with
  | error e => rfl
  | ok s0 =>
    simp only [mapRes1, zoom_pull_map]
    cases Zooming.pull cfg s0 with
    | error e => rfl
    | ok y =>
      obtain ⟨s1, v⟩ := y
      simp only [mapRes, zoom_receive_map hz]
      cases Zooming.receive cfg s1 r ds with
      | error e => rfl
      | ok z => rfl

end zoom

end RL
end PyXAB
