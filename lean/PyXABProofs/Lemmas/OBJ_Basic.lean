/-
  Helper lemmas for property C17 (synthetic objectives): pure real-analysis inequalities, stated
  over arbitrary reals (no reference to the generated definitions, except for the two generated
  auxiliary functions `mysin2` and `threshold`, whose ranges are established here), plus two
  generic facts on `List.foldl`.
-/
import PyXABProofs.Generated.ObjectivesReal
import Mathlib.Analysis.Real.Pi.Bounds
import Mathlib.Tactic.Linarith
import Mathlib.Tactic.Positivity
import Mathlib.Tactic.NormNum
import Mathlib.Tactic.Ring

namespace PyXAB.OBJ
open PyXAB PyXAB.Obj

/-! ### Garland -/

/-- `p (4 - q) ≤ 1` as soon as `0 ≤ p ≤ 1/4` and `0 ≤ q`. -/
theorem garland_core {x q : ℝ} (hx0 : 0 ≤ x) (hx1 : x ≤ 1) (hq0 : 0 ≤ q) :
    x * (1 - x) * (4 - q) ≤ 1 := by
  have hp0 : 0 ≤ x * (1 - x) := mul_nonneg hx0 (by linarith)
  have hp1 : x * (1 - x) ≤ 1 / 4 := by nlinarith [sq_nonneg (x - 1 / 2)]
  nlinarith [mul_nonneg hp0 hq0]

/-- Strict version: equality would force `x = 1/2` and `q = 0`. -/
theorem garland_core_lt {x q : ℝ} (hx0 : 0 ≤ x) (hx1 : x ≤ 1) (hq0 : 0 ≤ q)
    (hq : x = 1 / 2 → 0 < q) : x * (1 - x) * (4 - q) < 1 := by
  have hp0 : 0 ≤ x * (1 - x) := mul_nonneg hx0 (by linarith)
  by_cases hx : x = 1 / 2
  · have := hq hx
    subst hx
    nlinarith
  · have hne : x - 1 / 2 ≠ 0 := sub_ne_zero.mpr hx
    have hpos : 0 < (x - 1 / 2) ^ 2 := by positivity
    nlinarith [mul_nonneg hp0 hq0]

theorem sqrt_abs_sin_nonneg (t : ℝ) : 0 ≤ Real.sqrt |Real.sin t| := Real.sqrt_nonneg _

theorem sqrt_abs_sin_le_one (t : ℝ) : Real.sqrt |Real.sin t| ≤ 1 :=
  (Real.sqrt_le_sqrt (Real.abs_sin_le_one t)).trans_eq Real.sqrt_one

/-- `sin (60 · π/6) = sin (10 π) = 0`. -/
theorem sin_sixty_mul_pi_div_six : Real.sin (60 * (Real.pi / 6)) = 0 := by
  have h : (60 : ℝ) * (Real.pi / 6) = ((10 : ℕ) : ℝ) * Real.pi := by push_cast; ring
  rw [h]; exact Real.sin_nat_mul_pi 10

/-- `sin 30 ≠ 0` because `9 π < 30 < 10 π`. -/
theorem sin_thirty_ne_zero : Real.sin 30 ≠ 0 := by
  intro h
  obtain ⟨n, hn⟩ := Real.sin_eq_zero_iff.mp h
  have h1 := Real.pi_gt_d2
  have h2 := Real.pi_lt_d2
  have hpos := Real.pi_pos
  have hn9 : (9 : ℝ) < n := by
    by_contra hc
    have hc := not_lt.mp hc
    nlinarith
  have hn10 : (n : ℝ) < 10 := by
    by_contra hc
    have hc := not_lt.mp hc
    nlinarith
  have a : (9 : ℤ) < n := by exact_mod_cast hn9
  have b : n < (10 : ℤ) := by exact_mod_cast hn10
  omega

/-- at `x = 1/2` the Garland oscillation term `√|sin (60 x)|` is strictly positive. -/
theorem sqrt_abs_sin_sixty_pos_of_eq_half {x : ℝ} (hx : x = 1 / 2) :
    0 < Real.sqrt |Real.sin (60 * x)| := by
  have h : (60 : ℝ) * x = 30 := by rw [hx]; norm_num
  rw [h]
  exact Real.sqrt_pos.mpr (abs_pos.mpr sin_thirty_ne_zero)

theorem pi_div_six_mem : 0 ≤ Real.pi / 6 ∧ Real.pi / 6 ≤ 1 := by
  have h1 := Real.pi_gt_d2
  have h2 := Real.pi_lt_d2
  constructor
  · linarith
  · linarith

/-- `4 (π/6)(1 - π/6) > 0.997` from `3.14 < π < 3.15`. -/
theorem garland_value_pi_div_six : (0.997 : ℝ) < Real.pi / 6 * (1 - Real.pi / 6) * 4 := by
  have h1 := Real.pi_gt_d2
  have h2 := Real.pi_lt_d2
  nlinarith

/-! ### DoubleSine -/

theorem mysin2_nonneg (t : ℝ) : 0 ≤ mysin2 t := by
  simp only [mysin2]
  have := Real.neg_one_le_sin (t * 2 * Real.pi)
  apply div_nonneg <;> [linarith; norm_num]

theorem mysin2_le_one (t : ℝ) : mysin2 t ≤ 1 := by
  simp only [mysin2]
  have := Real.sin_le_one (t * 2 * Real.pi)
  rw [div_le_one (by norm_num)]
  linarith

/-- `s (A - B) - A = -(1 - s) A - s B ≤ 0` for `s ∈ [0,1]`, `A, B ≥ 0`. -/
theorem dsine_core {s A B : ℝ} (hs0 : 0 ≤ s) (hs1 : s ≤ 1) (hA : 0 ≤ A) (hB : 0 ≤ B) :
    s * (A - B) - A ≤ 0 := by
  nlinarith [mul_nonneg hs0 hB, mul_nonneg (sub_nonneg.mpr hs1) hA]

theorem two_abs_nonneg (t : ℝ) : 0 ≤ 2 * |t| := by positivity

/-- the exponent `-log ρ / log 2` is non-negative for `ρ ∈ (0,1]`. -/
theorem neg_log_div_log_two_nonneg {rho : ℝ} (h0 : 0 < rho) (h1 : rho ≤ 1) :
    0 ≤ -(Real.log rho / Real.log 2) := by
  have hl : Real.log rho ≤ 0 := Real.log_nonpos h0.le h1
  have h2 : 0 < Real.log 2 := Real.log_pos (by norm_num)
  have : Real.log rho / Real.log 2 ≤ 0 := div_nonpos_of_nonpos_of_nonneg hl h2.le
  linarith

/-! ### DifficultFunc -/

theorem threshold_cases (t : ℝ) : threshold t = 0 ∨ threshold t = 1 := by
  simp only [threshold]
  split_ifs
  · exact Or.inl rfl
  · exact Or.inr rfl

/-- `t (√y - y²) - √y ≤ 0` for `t ∈ {0,1}` (any real `y`). -/
theorem difficult_core {t y : ℝ} (ht : t = 0 ∨ t = 1) :
    t * (Real.sqrt y - y ^ 2) - Real.sqrt y ≤ 0 := by
  rcases ht with h | h
  · rw [h]; have := Real.sqrt_nonneg y; linarith
  · rw [h]; have := sq_nonneg y; linarith

/-- the comparison `y² ≤ y ≤ √y` on `[0,1]` (not needed for the bound, recorded for reference). -/
theorem sq_le_sqrt_of_mem {y : ℝ} (h0 : 0 ≤ y) (h1 : y ≤ 1) : y ^ 2 ≤ Real.sqrt y := by
  have h : y ≤ Real.sqrt y := by
    apply Real.le_sqrt_of_sq_le
    nlinarith
  nlinarith

/-! ### Ackley -/

theorem ackley_core {a b c : ℝ} (hb : b ≤ 1) (hc : c ≤ 1) :
    20 * Real.exp (-0.2 * Real.sqrt a) + Real.exp (0.5 * (b + c)) - Real.exp 1 - 20 ≤ 0 := by
  have h1 : Real.exp (-0.2 * Real.sqrt a) ≤ 1 := by
    rw [Real.exp_le_one_iff]
    have := Real.sqrt_nonneg a
    nlinarith
  have h2 : Real.exp (0.5 * (b + c)) ≤ Real.exp 1 := by
    apply Real.exp_le_exp.mpr
    linarith
  linarith

/-! ### Cexample -/

theorem log_le_neg_one_of_le_exp {x : ℝ} (h0 : 0 < x) (h1 : x ≤ Real.exp (-1)) :
    Real.log x ≤ -1 := by
  have := Real.log_le_log h0 h1
  rwa [Real.log_exp] at this

/-- `1/4 ≤ 1/e` (from `exp (-1/2) ≥ 1/2`), used to exhibit an interior point of `[0, 1/e]`. -/
theorem quarter_le_exp_neg_one : (0.25 : ℝ) ≤ Real.exp (-1) := by
  have h : (1 / 2 : ℝ) ≤ Real.exp (-(1 / 2)) := by
    have := Real.add_one_le_exp (-(1 / 2) : ℝ)
    linarith
  have e : Real.exp (-1) = Real.exp (-(1 / 2)) * Real.exp (-(1 / 2)) := by
    rw [← Real.exp_add]; norm_num
  rw [e]
  nlinarith

theorem cexample_core_le {x : ℝ} (h0 : 0 < x) (h1 : x ≤ Real.exp (-1)) :
    1 + 1 / Real.log x ≤ 1 := by
  have hl := log_le_neg_one_of_le_exp h0 h1
  have : 1 / Real.log x ≤ 0 := one_div_nonpos.mpr (by linarith)
  linarith

theorem cexample_core_ge {x : ℝ} (h0 : 0 < x) (h1 : x ≤ Real.exp (-1)) :
    0 ≤ 1 + 1 / Real.log x := by
  have hl := log_le_neg_one_of_le_exp h0 h1
  have hneg : Real.log x < 0 := by linarith
  have : -1 ≤ 1 / Real.log x := by
    rw [le_div_iff_of_neg hneg]
    linarith
  linarith

/-! ### Rastrigin: generic fold facts -/

theorem foldl_nonpos (g : ℝ → ℝ → ℝ) (hg : ∀ acc x, acc ≤ 0 → g acc x ≤ 0) :
    ∀ (xs : List ℝ) (a : ℝ), a ≤ 0 → xs.foldl g a ≤ 0 := by
  intro xs
  induction xs with
  | nil => intro a ha; simpa using ha
  | cons x xs ih => intro a ha; simpa using ih _ (hg a x ha)

theorem foldl_replicate_fix (g : ℝ → ℝ → ℝ) (a c : ℝ) (h : g a c = a) :
    ∀ d : ℕ, (List.replicate d c).foldl g a = a := by
  intro d
  induction d with
  | zero => rfl
  | succ d ih => rw [List.replicate_succ, List.foldl_cons, h, ih]

/-- one Rastrigin summand keeps a non-positive accumulator non-positive. -/
theorem rastrigin_step {acc x c : ℝ} (hacc : acc ≤ 0) (hc : c ≤ 1) :
    acc - 10 - (x ^ 2 - 10 * c) ≤ 0 := by
  nlinarith [sq_nonneg x]

end PyXAB.OBJ
