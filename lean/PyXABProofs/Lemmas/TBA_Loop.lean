/-
  The ask/tell loop: one round succeeds from an invariant state, induction principles over
  `runRounds` (threading the history), the reward-history step lemma and the counting lemma.
-/
import PyXABProofs.Lemmas.TBA_HCT

set_option linter.unusedSectionVars false

namespace PyXAB
namespace TBA
open Tree

variable {α σ R S : Type}

/-! ### Counting -/

theorem sum_map_add (l : List Nat) (f g : Nat → Nat) :
    (l.map (fun i => f i + g i)).sum = (l.map f).sum + (l.map g).sum := by
  induction l with
  | nil => rfl
  | cons x l ih => simp only [List.map_cons, List.sum_cons, ih]; omega

theorem sum_indicator_of_not_mem (l : List Nat) (a : Nat) (h : a ∉ l) :
    (l.map (fun i => if a = i then 1 else 0)).sum = 0 := by
  induction l with
  | nil => rfl
  | cons x l ih =>
    rw [List.mem_cons, not_or] at h
    simp only [List.map_cons, List.sum_cons, ih h.2, h.1, if_false]

theorem sum_indicator (l : List Nat) (hn : l.Nodup) (a : Nat) (h : a ∈ l) :
    (l.map (fun i => if a = i then 1 else 0)).sum = 1 := by
  induction l with
  | nil => cases h
  | cons x l ih =>
    rw [List.nodup_cons] at hn
    by_cases e : a = x
    · subst e
      simp only [List.map_cons, List.sum_cons, if_true, sum_indicator_of_not_mem l a hn.1]
    · have : a ∈ l := by
        rcases List.mem_cons.1 h with h | h
        · exact absurd h e
        · exact h
      simp only [List.map_cons, List.sum_cons, e, if_false, ih hn.2 this]

/-- Every entry of the history is counted at exactly one id. -/
theorem sum_filter_length {β : Type} (n : Nat) :
    ∀ (H : List (Nat × β)), (∀ e ∈ H, e.1 < n) →
      ((List.range n).map (fun i => (H.filter (fun e => decide (e.1 = i))).length)).sum = H.length
  | [], _ => by
    induction n with
    | zero => rfl
    | succ n ih => simp [List.range_succ, List.sum_append] at ih ⊢; exact ih
  | e :: H, h => by
    have ih := sum_filter_length n H (fun e he => h e (List.mem_cons_of_mem _ he))
    have he : e.1 ∈ List.range n := List.mem_range.2 (h e (List.mem_cons_self ..))
    have : (fun i => ((e :: H).filter (fun e => decide (e.1 = i))).length) =
        (fun i => (if e.1 = i then 1 else 0) + (H.filter (fun e => decide (e.1 = i))).length) := by
      funext i
      by_cases c : e.1 = i
      · simp [c]; omega
      · simp [c]
    rw [this, sum_map_add, ih, sum_indicator _ List.nodup_range _ he, List.length_cons]
    omega

/-! ### One step of the reward history -/

/-- If the reward lists of `P` are the `sel`-filtered history, and `receive` credits exactly
the cells `i` with `sel i last`, then the reward lists of `P'` are the filtered extended
history. -/
theorem RecvEffect.hist {mo : List R → Nat → S} {vo : Option (List R → S)} {r : R}
    {s0 : TBSt R S} {hit : Nat → Prop} {P P' : Part α (TBSt R S)} {last : Nat} {grew : Bool}
    (E : RecvEffect mo vo r s0 hit P P' last grew) (hs0 : s0.rewards = [])
    (sel : Nat → Nat → Bool) (H : List (Nat × R))
    (hvalid : ∀ e ∈ H, e.1 < P.nodes.length) (hlast : last < P.nodes.length)
    (hP : ∀ (i : Nat) (nd : Node α (TBSt R S)), P.nodes[i]? = some nd →
      nd.st.rewards = (H.filter (fun e => sel i e.1)).map (·.2))
    (hsel_hit : ∀ i, i < P.nodes.length → (hit i ↔ sel i last = true))
    (hsel_new : ∀ i j, j < P.nodes.length → P.nodes.length ≤ i → sel i j = false)
    (i : Nat) (nd' : Node α (TBSt R S)) (hi : P'.nodes[i]? = some nd') :
    nd'.st.rewards = ((H ++ [(last, r)]).filter (fun e => sel i e.1)).map (·.2) := by
  rw [List.filter_append, List.map_append]
  by_cases hlt : i < P.nodes.length
  · obtain ⟨nd, hnd⟩ : ∃ nd, P.nodes[i]? = some nd := ⟨_, List.getElem?_eq_getElem hlt⟩
    obtain ⟨x, x1, _, _, _, _, _, _, x8, x9⟩ := E.old i nd hnd
    obtain rfl := getElem?_inj x1 hi
    by_cases hh : sel i last = true
    · rw [(x8 ((hsel_hit i hlt).2 hh)).2.1, hP i nd hnd]
      simp [hh]
    · have hn : ¬ hit i := fun h => hh ((hsel_hit i hlt).1 h)
      rw [(x9 hn).2.1, hP i nd hnd]
      simp [hh]
  · have hge : P.nodes.length ≤ i := Nat.le_of_not_lt hlt
    have hl := lt_length_of_getElem? hi
    rw [E.len] at hl
    cases grew with
    | false => simp at hl; omega
    | true =>
      simp only [if_true] at hl
      obtain ⟨_, _, h2⟩ := E.new rfl
      obtain ⟨cn, c1, _, _, _, c5⟩ := h2 (i - P.nodes.length) (by omega)
      have e : P.nodes.length + (i - P.nodes.length) = i := by omega
      rw [e] at c1
      obtain rfl := getElem?_inj c1 hi
      rw [c5, hs0]
      have f1 : H.filter (fun e => sel i e.1) = [] := by
        rw [List.filter_eq_nil_iff]
        intro e he
        simp [hsel_new i e.1 (hvalid e he) hge]
      simp [f1, hsel_new i last hlast hge]

end TBA

/-! ## T-HOO -/

namespace TBA.HOO
open Tree TBA PyXAB.HOO
variable {α R S : Type} [Add α] [Sub α] [Mul α] [Div α] [OfNat α 2] [NatCast α]
variable [LE S] [DecidableLE S] [Max S] [Min S] [Inhabited S] [Inhabited R]

/-- One round from an invariant state succeeds. -/
theorem round_ok (cfg : HOOCfg R S) {s : HOO α R S} (hI : Inv cfg s) (r : R)
    {ds : List (Draw α)} (hds : DrawsOK s.P.kind (dimn s.P) ds) :
    ∃ path v nd s', Ready cfg { s with path := some path } path v ∧
      pull s = .ok ({ s with path := some path }, v) ∧ s.P.nodes[v]? = some nd ∧
      round cfg s r ds = .ok (s', v) ∧ Inv cfg s' ∧ s'.iteration = s.iteration + 1 ∧
      RecvEffect cfg.meanOf none r (st0 cfg) (· ∈ path) s.P s'.P v (cfg.expandOK nd.depth) := by
  obtain ⟨path, v, e1, hR⟩ := pull_ok cfg hI
  obtain ⟨s', ds', nd, h1, e2, h2, _, h4, E⟩ := receive_ok cfg hR r hds
  exact ⟨path, v, nd, s', hR, e1, h1, by simp only [round, e1, e2], h2, h4, E⟩

/-- Induction over the loop: an invariant `J` of (state, history so far) which is kept by every
round (described by its `RecvEffect`) holds at the end; the loop never raises. -/
theorem runRounds_induct (cfg : HOOCfg R S) (J : HOO α R S → List (Nat × R) → Prop)
    (hstep : ∀ (s s' : HOO α R S) (H : List (Nat × R)) (r : R) (path : List Nat) (v : Nat)
      (nd : Node α (TBSt R S)), Inv cfg s → J s H → Ready cfg { s with path := some path } path v →
      s.P.nodes[v]? = some nd → Inv cfg s' →
      RecvEffect cfg.meanOf none r (st0 cfg) (· ∈ path) s.P s'.P v (cfg.expandOK nd.depth) →
      J s' (H ++ [(v, r)])) :
    ∀ (inputs : List (R × List (Draw α))) (s : HOO α R S) (H0 : List (Nat × R)),
      Inv cfg s → J s H0 → InputsOK s.P.kind (dimn s.P) inputs →
      ∃ s' H, runRounds cfg s inputs = .ok (s', H) ∧ Inv cfg s' ∧ J s' (H0 ++ H) ∧
        H.map (·.2) = inputs.map (·.1) ∧ s'.P.kind = s.P.kind ∧ dimn s'.P = dimn s.P
  | [], s, H0, hI, hJ, _ => ⟨s, [], rfl, hI, by simpa using hJ, rfl, rfl, rfl⟩
  | (r, ds) :: rest, s, H0, hI, hJ, hin => by
    obtain ⟨path, v, nd, s1, hR, _, h1, e1, hI1, _, E⟩ :=
      round_ok cfg hI r (hin (r, ds) (List.mem_cons_self ..))
    have hJ1 := hstep s s1 H0 r path v nd hI hJ hR h1 hI1 E
    have hin1 : InputsOK s1.P.kind (dimn s1.P) rest := by
      rw [E.kind, E.dimn]; exact fun x hx => hin x (List.mem_cons_of_mem _ hx)
    obtain ⟨s2, H, e2, hI2, hJ2, hl, hk, hd⟩ := runRounds_induct cfg J hstep rest s1 _ hI1 hJ1 hin1
    refine ⟨s2, (v, r) :: H, by simp only [runRounds, e1, e2], hI2, ?_, by simp [hl],
      hk.trans E.kind, hd.trans E.dimn⟩
    rw [List.append_assoc] at hJ2; exact hJ2

end TBA.HOO

/-! ## HCT / VHCT -/

namespace TBA.HCT
open Tree TBA PyXAB.HCT
variable {α R S : Type} [Add α] [Sub α] [Mul α] [Div α] [OfNat α 2] [NatCast α]
variable [LE S] [DecidableLE S] [Max S] [Min S] [Inhabited S] [Inhabited R]

/-- One round from an invariant state succeeds: `pull` rewrites thresholds only (`TauR`),
`receive` has the effect `RecvEffect` on the pulled cell. -/
theorem round_ok (cfg : HCTCfg R S) {s : HCT α R S} (hI : Inv cfg s) (r : R)
    {ds : List (Draw α)} (hds : DrawsOK s.P.kind (dimn s.P) ds) :
    ∃ s1 path v nd thr s', pull cfg s = .ok (s1, v) ∧ Ready cfg s1 path v ∧
      PRel TauR s.P s1.P ∧ s1.P.nodes[v]? = some nd ∧
      round cfg s r ds = .ok (s', v) ∧ Inv cfg s' ∧ s'.iteration = s.iteration + 1 ∧
      RecvEffect cfg.meanOf (voOf cfg) r (st0 cfg) (· = v) s1.P s'.P v
        (nd.children.isNone && cfg.countGE (nd.st.count + 1) thr) := by
  obtain ⟨s1, path, v, e1, hR, hT, hit, _, _⟩ := pull_ok cfg hI
  have hds1 : DrawsOK s1.P.kind (dimn s1.P) ds := by rw [hT.kind, hT.dimn_eq]; exact hds
  obtain ⟨s', ds', nd, thr, h1, _, _, e2, h2, _, h4, _, E⟩ := receive_ok cfg hR r hds1
  exact ⟨s1, path, v, nd, thr, s', e1, hR, hT, h1, by simp only [round, e1, e2], h2,
    by rw [h4, hit], E⟩

theorem runRounds_induct (cfg : HCTCfg R S) (J : HCT α R S → List (Nat × R) → Prop)
    (hstep : ∀ (s s1 s' : HCT α R S) (H : List (Nat × R)) (r : R) (path : List Nat) (v : Nat)
      (nd : Node α (TBSt R S)) (thr : S), Inv cfg s → J s H → PRel TauR s.P s1.P →
      Ready cfg s1 path v → s1.P.nodes[v]? = some nd → Inv cfg s' →
      RecvEffect cfg.meanOf (voOf cfg) r (st0 cfg) (· = v) s1.P s'.P v
        (nd.children.isNone && cfg.countGE (nd.st.count + 1) thr) →
      J s' (H ++ [(v, r)])) :
    ∀ (inputs : List (R × List (Draw α))) (s : HCT α R S) (H0 : List (Nat × R)),
      Inv cfg s → J s H0 → InputsOK s.P.kind (dimn s.P) inputs →
      ∃ s' H, runRounds cfg s inputs = .ok (s', H) ∧ Inv cfg s' ∧ J s' (H0 ++ H) ∧
        H.map (·.2) = inputs.map (·.1) ∧ s'.P.kind = s.P.kind ∧ dimn s'.P = dimn s.P
  | [], s, H0, hI, hJ, _ => ⟨s, [], rfl, hI, by simpa using hJ, rfl, rfl, rfl⟩
  | (r, ds) :: rest, s, H0, hI, hJ, hin => by
    obtain ⟨s0, path, v, nd, thr, s1, _, hR, hT, h1, e1, hI1, _, E⟩ :=
      round_ok cfg hI r (hin (r, ds) (List.mem_cons_self ..))
    have hJ1 := hstep s s0 s1 H0 r path v nd thr hI hJ hT hR h1 hI1 E
    have hk1 : s1.P.kind = s.P.kind := E.kind.trans hT.kind
    have hd1 : dimn s1.P = dimn s.P := E.dimn.trans hT.dimn_eq
    have hin1 : InputsOK s1.P.kind (dimn s1.P) rest := by
      rw [hk1, hd1]; exact fun x hx => hin x (List.mem_cons_of_mem _ hx)
    obtain ⟨s2, H, e2, hI2, hJ2, hl, hk, hd⟩ := runRounds_induct cfg J hstep rest s1 _ hI1 hJ1 hin1
    refine ⟨s2, (v, r) :: H, by simp only [runRounds, e1, e2], hI2, ?_, by simp [hl],
      hk.trans hk1, hd.trans hd1⟩
    rw [List.append_assoc] at hJ2; exact hJ2

end TBA.HCT
end PyXAB
