/-
  One-dimensional lemmas: `Mono`, `chainIvs` and `linspacePts`.
-/
import PyXABProofs.Spec.Geometry
import PyXABProofs.Lemmas.ListAux
import Mathlib.Algebra.Order.Field.Basic
import Mathlib.Tactic.Linarith
import Mathlib.Tactic.Ring
import Mathlib.Tactic.FieldSimp
import Mathlib.Tactic.Positivity

namespace PyXAB
open List

/-! ### `Mono` -/
section mono
variable {α : Type} [Preorder α]

@[simp] theorem mono_nil : Mono ([] : List α) := trivial
@[simp] theorem mono_singleton (a : α) : Mono [a] := trivial
@[simp] theorem mono_cons_cons {a b : α} {l : List α} :
    Mono (a :: b :: l) ↔ a ≤ b ∧ Mono (b :: l) := Iff.rfl

theorem Mono.tail {a : α} {l : List α} (h : Mono (a :: l)) : Mono l := by
  cases l with
  | nil => trivial
  | cons b t => exact h.2

/-- `Mono` is Mathlib's `List.Pairwise (· ≤ ·)` (i.e. `List.Sorted`/`SortedLE`). -/
theorem mono_iff_pairwise : ∀ {l : List α}, Mono l ↔ l.Pairwise (· ≤ ·)
  | [] => by simp
  | [a] => by simp
  | a :: b :: l => by
    rw [mono_cons_cons, mono_iff_pairwise (l := b :: l), pairwise_cons (a := a)]
    constructor
    · rintro ⟨hab, hp⟩
      refine ⟨fun y hy => ?_, hp⟩
      rcases mem_cons.1 hy with rfl | hy
      · exact hab
      · exact hab.trans ((pairwise_cons.1 hp).1 y hy)
    · rintro ⟨h, hp⟩
      exact ⟨h b mem_cons_self, hp⟩

/-- index characterisation of `Mono` -/
theorem mono_iff_getElem? : ∀ {l : List α},
    Mono l ↔ ∀ j x y, l[j]? = some x → l[j + 1]? = some y → x ≤ y
  | [] => by simp
  | [a] => by simp
  | a :: b :: l => by
    rw [mono_cons_cons, mono_iff_getElem? (l := b :: l)]
    constructor
    · rintro ⟨hab, h⟩ j x y hx hy
      match j with
      | 0 =>
        simp only [getElem?_cons_zero, getElem?_cons_succ, Option.some.injEq, Nat.zero_add] at hx hy
        subst hx; subst hy; exact hab
      | j + 1 =>
        exact h j x y (by simpa using hx) (by simpa using hy)
    · intro h
      refine ⟨h 0 a b rfl rfl, fun j x y hx hy => h (j + 1) x y ?_ ?_⟩
      · simpa using hx
      · simpa using hy

theorem mono_head_le_last {a z : α} {pts : List α} (h : Mono (a :: (pts ++ [z]))) : a ≤ z := by
  induction pts generalizing a with
  | nil => exact h.1
  | cons p ps ih => exact h.1.trans (ih h.2)

end mono

/-! ### `chainIvs` -/
section chain
variable {α : Type}

theorem chainIvs_cons_cons (a b : α) (l : List α) :
    chainIvs (a :: b :: l) = ⟨a, b⟩ :: chainIvs (b :: l) := rfl

theorem chainIvs_snoc_nil (a z : α) : chainIvs (a :: ([] ++ [z])) = [⟨a, z⟩] := rfl

theorem chainIvs_cons_snoc (a p : α) (ps : List α) (z : α) :
    chainIvs (a :: ((p :: ps) ++ [z])) = ⟨a, p⟩ :: chainIvs (p :: (ps ++ [z])) := rfl

theorem length_chainIvs : ∀ l : List α, (chainIvs l).length = l.length - 1
  | [] => rfl
  | [_] => rfl
  | a :: b :: rest => by
    rw [chainIvs_cons_cons, length_cons, length_chainIvs (b :: rest)]
    simp

theorem length_chainIvs_snoc (a z : α) (pts : List α) :
    (chainIvs (a :: (pts ++ [z]))).length = pts.length + 1 := by
  rw [length_chainIvs]; simp

/-- element `j` of the chain is the interval between boundaries `j` and `j+1` -/
theorem getElem?_chainIvs : ∀ (l : List α) (j : Nat) (x y : α),
    l[j]? = some x → l[j + 1]? = some y → (chainIvs l)[j]? = some ⟨x, y⟩
  | [], _, _, _, h, _ => by simp at h
  | [_], _, _, _, _, h => by simp at h
  | a :: b :: rest, 0, x, y, hx, hy => by
    simp only [getElem?_cons_zero, getElem?_cons_succ, Option.some.injEq, Nat.zero_add] at hx hy
    subst hx; subst hy; rfl
  | a :: b :: rest, j + 1, x, y, hx, hy => by
    rw [chainIvs_cons_cons, getElem?_cons_succ]
    exact getElem?_chainIvs (b :: rest) j x y (by simpa using hx) (by simpa using hy)

/-- conversely every element of the chain is of that form -/
theorem getElem?_chainIvs_inv : ∀ (l : List α) (j : Nat) (iv : Iv α),
    (chainIvs l)[j]? = some iv → l[j]? = some iv.lo ∧ l[j + 1]? = some iv.hi
  | [], _, _, h => by simp [chainIvs] at h
  | [_], _, _, h => by simp [chainIvs] at h
  | a :: b :: rest, 0, iv, h => by
    rw [chainIvs_cons_cons, getElem?_cons_zero, Option.some.injEq] at h
    subst h; exact ⟨rfl, rfl⟩
  | a :: b :: rest, j + 1, iv, h => by
    rw [chainIvs_cons_cons, getElem?_cons_succ] at h
    have := getElem?_chainIvs_inv (b :: rest) j iv h
    simpa using this

end chain

section chainOrder
variable {α : Type} [LinearOrder α]

theorem chain_bounds {a z : α} {pts : List α} (h : Mono (a :: (pts ++ [z]))) :
    ∀ iv ∈ chainIvs (a :: (pts ++ [z])), a ≤ iv.lo ∧ iv.lo ≤ iv.hi ∧ iv.hi ≤ z := by
  induction pts generalizing a with
  | nil =>
    intro iv hiv
    rw [chainIvs_snoc_nil, mem_singleton] at hiv
    subst hiv
    exact ⟨le_rfl, h.1, le_rfl⟩
  | cons p ps ih =>
    intro iv hiv
    rw [chainIvs_cons_snoc, mem_cons] at hiv
    obtain ⟨hap, hm⟩ := h
    rcases hiv with rfl | hiv
    · exact ⟨le_rfl, hap, mono_head_le_last hm⟩
    · obtain ⟨h1, h2, h3⟩ := ih hm iv hiv
      exact ⟨hap.trans h1, h2, h3⟩

theorem chain_cover {a z : α} {pts : List α} (h : Mono (a :: (pts ++ [z]))) {x : α}
    (hax : a ≤ x) (hxz : x ≤ z) :
    ∃ iv ∈ chainIvs (a :: (pts ++ [z])), iv.lo ≤ x ∧ x ≤ iv.hi := by
  induction pts generalizing a with
  | nil => exact ⟨⟨a, z⟩, by rw [chainIvs_snoc_nil]; exact mem_singleton.2 rfl, hax, hxz⟩
  | cons p ps ih =>
    rw [chainIvs_cons_snoc]
    rcases le_total x p with hxp | hpx
    · exact ⟨⟨a, p⟩, mem_cons_self, hax, hxp⟩
    · obtain ⟨iv, hiv, h1, h2⟩ := ih h.2 hpx
      exact ⟨iv, mem_cons_of_mem _ hiv, h1, h2⟩

theorem chain_pairwise {a z : α} {pts : List α} (h : Mono (a :: (pts ++ [z]))) :
    (chainIvs (a :: (pts ++ [z]))).Pairwise (fun i i' => i.hi ≤ i'.lo) := by
  induction pts generalizing a with
  | nil => rw [chainIvs_snoc_nil]; exact pairwise_singleton _ _
  | cons p ps ih =>
    rw [chainIvs_cons_snoc, pairwise_cons]
    exact ⟨fun iv hiv => (chain_bounds h.2 iv hiv).1, ih h.2⟩

end chainOrder

/-! ### `linspacePts` -/
section linspace
variable {α : Type} [Field α] [LinearOrder α] [IsStrictOrderedRing α]

omit [LinearOrder α] [IsStrictOrderedRing α] in
theorem length_linspacePts (lo hi : α) (K : Nat) : (linspacePts lo hi K).length = K - 1 := by
  simp [linspacePts]

/-- Boundary `j` (for `0 ≤ j ≤ K`) of `np.linspace(lo, hi, K+1)` is `j * ((hi - lo) / K) + lo`
(over a field; the two end points are stored literally as `lo` and `hi`). -/
theorem linspace_bd_getElem? (lo hi : α) {K : Nat} (hK : 1 ≤ K) {j : Nat} (hj : j ≤ K) :
    (lo :: (linspacePts lo hi K ++ [hi]))[j]? = some ((j : α) * ((hi - lo) / (K : α)) + lo) := by
  have hK0 : (K : α) ≠ 0 := Nat.cast_ne_zero.2 (by omega)
  match j with
  | 0 => simp
  | i + 1 =>
    rw [getElem?_cons_succ]
    by_cases hi' : i < K - 1
    · rw [getElem?_append_left (by rw [length_linspacePts]; exact hi')]
      simp only [linspacePts, getElem?_map, getElem?_range' hi', Option.map_some, Option.some.injEq]
      push_cast
      ring
    · have hiK : i = K - 1 := by omega
      have hlen : (linspacePts lo hi K).length ≤ i := by rw [length_linspacePts]; omega
      rw [getElem?_append_right hlen, length_linspacePts, hiK]
      simp only [Nat.sub_self, getElem?_cons_zero, Option.some.injEq]
      have : ((K - 1 + 1 : ℕ) : α) = (K : α) := by congr 1; omega
      rw [this]
      field_simp
      ring

omit [LinearOrder α] [IsStrictOrderedRing α] in
theorem linspace_bd_length (lo hi : α) {K : Nat} (hK : 1 ≤ K) :
    (lo :: (linspacePts lo hi K ++ [hi])).length = K + 1 := by
  simp [length_linspacePts]; omega

theorem linspace_mono' {lo hi : α} (h : lo ≤ hi) {K : Nat} (hK : 1 ≤ K) :
    Mono (lo :: (linspacePts lo hi K ++ [hi])) := by
  rw [mono_iff_getElem?]
  intro j x y hx hy
  have hjK : j + 1 ≤ K := by
    have := (List.getElem?_eq_some_iff.1 hy).1
    rw [linspace_bd_length lo hi hK] at this
    omega
  rw [linspace_bd_getElem? lo hi hK (by omega : j ≤ K), Option.some.injEq] at hx
  rw [linspace_bd_getElem? lo hi hK hjK, Option.some.injEq] at hy
  subst hx; subst hy
  have hKpos : (0 : α) < (K : α) := Nat.cast_pos.2 (by omega)
  have hw : 0 ≤ (hi - lo) / (K : α) := div_nonneg (sub_nonneg.2 h) hKpos.le
  push_cast
  nlinarith

end linspace
end PyXAB
