/-
  The ranking stage of VROOM: `rankLayer` appends to every cell of a layer its position (1-based)
  in the stable descending order of the lower confidence keys.
-/
import PyXABProofs.Spec.VroomSpec
import PyXABProofs.Lemmas.VR_Sort
import PyXABProofs.Lemmas.TBA_Rel

namespace PyXAB
namespace VR
open Tree TBA VROOM

section generic
variable {α σ : Type}

/-- `a` before `b` in `l`, by positions. -/
theorem pair_sublist_iff {a b : Nat} : ∀ {l : List Nat},
    List.Sublist [a, b] l ↔ ∃ i j : Nat, i < j ∧ l[i]? = some a ∧ l[j]? = some b
  | [] => by simp
  | x :: l => by
    constructor
    · intro h
      cases h with
      | cons _ h =>
        obtain ⟨i, j, hij, h1, h2⟩ := pair_sublist_iff.1 h
        exact ⟨i + 1, j + 1, by omega, by simpa using h1, by simpa using h2⟩
      | cons_cons _ h =>
        have hb : b ∈ l := by simpa using h
        obtain ⟨j, hj⟩ := List.mem_iff_getElem?.1 hb
        exact ⟨0, j + 1, by omega, by simp, by simpa using hj⟩
    · rintro ⟨i, j, hij, h1, h2⟩
      match i, j with
      | 0, j + 1 =>
        obtain rfl : x = a := by simpa using h1
        have hb : b ∈ l := List.mem_of_getElem? (by simpa using h2)
        exact List.Sublist.cons_cons _ (by simpa using hb)
      | i + 1, j + 1 =>
        exact List.Sublist.cons _ (pair_sublist_iff.2 ⟨i, j, by omega, by simpa using h1,
          by simpa using h2⟩)

/-- A fold of payload updates over a list of `(id, i)` pairs with distinct ids: node `id` gets
`f i`, the other nodes are untouched. -/
theorem foldl_modifySt_rel (f : Nat → σ → σ) (g : Part α σ → Nat × Nat → Part α σ)
    (hg : ∀ P id i, g P (id, i) = P.modifySt id (f i)) :
    ∀ (l : List (Nat × Nat)) (P : Part α σ), (l.map (·.1)).Nodup →
      PRel (fun j nd nd' => (∀ i, (j, i) ∈ l → nd'.st = f i nd.st) ∧
        (j ∉ l.map (·.1) → nd'.st = nd.st)) P (l.foldl g P)
  | [], P, _ => PRel.refl (fun _ _ => ⟨fun _ h => by simp at h, fun _ => rfl⟩) P
  | (id, i) :: rest, P, hnd => by
    rw [List.map_cons, List.nodup_cons] at hnd
    rw [List.foldl_cons, hg]
    refine (PRel_modifySt P id (f i)).trans' (foldl_modifySt_rel f g hg rest _ hnd.2) ?_
    intro j a b c _ _ h1 h2
    constructor
    · intro i' hmem
      rcases List.mem_cons.1 hmem with e | hmem
      · obtain ⟨rfl, rfl⟩ : j = id ∧ i' = i := by simpa using e
        rw [h2.2 hnd.1, h1]; simp
      · have hj : j ∈ rest.map (·.1) := List.mem_map.2 ⟨_, hmem, rfl⟩
        have hne : j ≠ id := fun e => hnd.1 (e ▸ hj)
        rw [h2.1 i' hmem, h1]; simp [hne]
    · intro hj
      rw [List.map_cons, List.mem_cons, not_or] at hj
      rw [h2.2 hj.2, h1]; simp [hj.1]

end generic

section rank
variable {α R S : Type} [LinearOrder S]

/-- the payload update of the ranking stage -/
def addRank (i : Nat) (st : VrSt R S) : VrSt R S := { st with ranks := st.ranks ++ [i + 1] }

omit [LinearOrder S] in
theorem stOf_eq {P : Part α (VrSt R S)} {id : Nat} {nd : Node α (VrSt R S)}
    (h : P.nodes[id]? = some nd) : P.stOf id = nd.st := by
  simp [Part.stOf, h]

/-- What one call of `self.rank(node_list[h])` does. `P` is the arena before, `P'` after. -/
structure RankedLayerRel (cfg : VrCfg R S) (P P' : Part α (VrSt R S)) (layer : List Nat) : Prop where
  /-- the tree skeleton, every node outside the layer, and `rewards`/`tilde` of every node are
  unchanged; every cell of the layer got exactly one new rank appended -/
  rel : PRel (fun j nd nd' => nd'.st.rewards = nd.st.rewards ∧ nd'.st.tilde = nd.st.tilde ∧
      (j ∉ layer → nd'.st = nd.st) ∧
      (j ∈ layer → nd'.st.ranks = nd.st.ranks ++ [lastRank P' j])) P P'
  /-- the new rank of a cell is its (1-based) position in the stable descending order -/
  rank_eq : ∀ i id, (sortDesc (key cfg P) layer)[i]? = some id → lastRank P' id = i + 1
  /-- the new ranks of the layer are a permutation of `1..layer.length` -/
  perm : (layer.map (lastRank P')).Perm (List.range' 1 layer.length)
  /-- the ranks are non-increasing in the key -/
  mono : ∀ a b, a ∈ layer → b ∈ layer → lastRank P' a < lastRank P' b →
    key cfg P b ≤ key cfg P a
  /-- ties are broken by the position in the layer (Python's `sorted` is stable) -/
  stable : ∀ a b, Before a b layer → key cfg P a = key cfg P b → lastRank P' a < lastRank P' b

theorem rankLayer_eq (cfg : VrCfg R S) (P : Part α (VrSt R S)) (layer : List Nat) :
    rankLayer cfg P layer = ((sortDesc (key cfg P) layer).zipIdx).foldl
      (fun P (x : Nat × Nat) => P.modifySt x.1 (addRank x.2)) P := rfl

/-- `rankLayer_spec`, payload-relation form -/
theorem rankLayer_rel (cfg : VrCfg R S) (P : Part α (VrSt R S)) (layer : List Nat)
    (hnd : layer.Nodup) (hvalid : ∀ id ∈ layer, id < P.nodes.length) :
    RankedLayerRel cfg P (rankLayer cfg P layer) layer := by
  have hsn : (sortDesc (key cfg P) layer).Nodup := sortDesc_nodup _ hnd
  have hmem : ∀ a, a ∈ sortDesc (key cfg P) layer ↔ a ∈ layer :=
    fun a => (sortDesc_perm (key cfg P) layer).mem_iff
  have hrel := foldl_modifySt_rel (α := α) (addRank (R := R) (S := S))
    (fun P (x : Nat × Nat) => P.modifySt x.1 (addRank x.2)) (fun _ _ _ => rfl)
    ((sortDesc (key cfg P) layer).zipIdx) P (by rw [List.zipIdx_map_fst]; exact hsn)
  rw [← rankLayer_eq] at hrel
  -- the exact new rank
  have hrank : ∀ i id, (sortDesc (key cfg P) layer)[i]? = some id →
      ∃ nd nd', P.nodes[id]? = some nd ∧ (rankLayer cfg P layer).nodes[id]? = some nd' ∧
        nd'.st = addRank i nd.st ∧ lastRank (rankLayer cfg P layer) id = i + 1 := by
    intro i id hi
    have hin : id ∈ layer := (hmem id).1 (List.mem_of_getElem? hi)
    have hlt := hvalid id hin
    obtain ⟨nd', h1, _, h3⟩ := hrel.node id _ (List.getElem?_eq_getElem hlt)
    have h4 := h3.1 i (List.mem_zipIdx_iff_getElem?.2 hi)
    refine ⟨_, nd', List.getElem?_eq_getElem hlt, h1, h4, ?_⟩
    simp [lastRank, stOf_eq h1, h4, addRank]
  have hlr : ∀ i id, (sortDesc (key cfg P) layer)[i]? = some id →
      lastRank (rankLayer cfg P layer) id = i + 1 := by
    intro i id hi
    obtain ⟨_, _, _, _, _, h⟩ := hrank i id hi
    exact h
  have hpos : ∀ a, a ∈ layer → ∃ i, (sortDesc (key cfg P) layer)[i]? = some a := fun a ha =>
    List.mem_iff_getElem?.1 ((hmem a).2 ha)
  refine ⟨?_, hlr, ?_, ?_, ?_⟩
  · refine hrel.mono ?_
    intro j a b _ ⟨h1, h2⟩
    by_cases hj : j ∈ layer
    · obtain ⟨i, hi⟩ := hpos j hj
      have e := h1 i (List.mem_zipIdx_iff_getElem?.2 hi)
      refine ⟨by rw [e]; rfl, by rw [e]; rfl, fun h => absurd hj h, fun _ => ?_⟩
      rw [hlr i j hi, e]; rfl
    · have e := h2 (by rw [List.zipIdx_map_fst, hmem]; exact hj)
      exact ⟨by rw [e], by rw [e], fun _ => e, fun h => absurd h hj⟩
  · have e : (sortDesc (key cfg P) layer).map (lastRank (rankLayer cfg P layer)) =
        List.range' 1 layer.length := by
      apply List.ext_getElem?
      intro i
      rw [List.getElem?_map]
      by_cases hi : i < (sortDesc (key cfg P) layer).length
      · rw [List.getElem?_eq_getElem hi, Option.map_some,
          hlr i _ (List.getElem?_eq_getElem hi),
          List.getElem?_range' (by rw [← sortDesc_length (key cfg P)]; exact hi)]
        simp [Nat.add_comm]
      · have h1 : (sortDesc (key cfg P) layer)[i]? = none := by
          rw [List.getElem?_eq_none_iff]; omega
        have h2 : (List.range' 1 layer.length)[i]? = none := by
          rw [List.getElem?_eq_none_iff, List.length_range', ← sortDesc_length (key cfg P)]
          omega
        rw [h1, h2]; rfl
    rw [← e]
    exact ((sortDesc_perm (key cfg P) layer).map _).symm
  · intro a b ha hb hlt
    obtain ⟨i, hi⟩ := hpos a ha
    obtain ⟨j, hj⟩ := hpos b hb
    rw [hlr i a hi, hlr j b hj] at hlt
    obtain ⟨hi', rfl⟩ := List.getElem?_eq_some_iff.1 hi
    obtain ⟨hj', rfl⟩ := List.getElem?_eq_some_iff.1 hj
    exact List.pairwise_iff_getElem.1 (sortDesc_sorted (key cfg P) layer) i j hi' hj' (by omega)
  · intro a b hab hk
    obtain ⟨i, j, hij, hi, hj⟩ := pair_sublist_iff.1 (sortDesc_stable (key cfg P) layer hab hk)
    rw [hlr i a hi, hlr j b hj]
    omega

/-- **`rankLayer_spec`** -/
theorem rankLayer_spec (cfg : VrCfg R S) (P : Part α (VrSt R S)) (layer : List Nat)
    (hnd : layer.Nodup) (hvalid : ∀ id ∈ layer, id < P.nodes.length) :
    RankedLayer cfg P (rankLayer cfg P layer) layer := by
  have h := rankLayer_rel cfg P layer hnd hvalid
  refine ⟨h.rel.kind, h.rel.layers, h.rel.depth, h.rel.len, ?_, h.rank_eq, h.perm, h.mono,
    h.stable⟩
  intro i nd hi
  obtain ⟨nd', h0, h1, h2, h3, h4, h5⟩ := h.rel.node i nd hi
  exact ⟨nd', h0, h1.depth, h1.index, h1.parent, h1.children, h1.box, h2, h3, h4, h5⟩

end rank
end VR
end PyXAB
