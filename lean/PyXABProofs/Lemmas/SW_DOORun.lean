/-
  DOO: `pull` (spec and totality), rounds and the whole loop.
-/
import PyXABProofs.Lemmas.SW_DOOLoop

set_option linter.unusedSectionVars false

namespace PyXAB
namespace DOO
open Tree TBA SW

variable {α S : Type} [Add α] [Sub α] [Mul α] [Div α] [OfNat α 2] [NatCast α]
variable [LinearOrder S] [Inhabited S]

theorem mark_node_self {P : Part α (SwSt S)} {v : Nat} {nd : Node α (SwSt S)}
    (h : P.nodes[v]? = some nd) :
    (mark P v).nodes[v]? = some { nd with st := { nd.st with visited := true } } := by
  simp [mark, getElem?_modifySt, h]

theorem pullT_spec (cfg : DOOCfg α S) (hbot : ∀ x, cfg.negInf ≤ x) {s s' : DOO α S} {time : Nat}
    {ds ds' : List (Draw α)} {v : Nat} {tr : List (Ev α (SwSt S) S)}
    (hI : Inv cfg s) (hds : ∀ d ∈ ds, DrawOKLen s.P.kind (dimn s.P) d)
    (hrun : pullT cfg s time ds = .ok (s', ds', v, tr)) :
    (∃ Pb, LoopPost cfg s.P ds s'.P ds' v tr Pb) ∧ Inv cfg s' ∧ s'.curr = some v ∧
      s'.iteration = time := by
  unfold pullT at hrun
  cases hl : loopT cfg (2 * s.P.depth + 8) 0 cfg.negInf none s.P ds with
  | error e => simp [hl] at hrun
  | ok res =>
    obtain ⟨P1, ds1, id, tr1⟩ := res
    simp only [hl, Except.ok.injEq, Prod.mk.injEq] at hrun
    obtain ⟨rfl, rfl, rfl, rfl⟩ := hrun
    obtain ⟨Pb, hp⟩ := loopT_spec cfg hbot _ 0 _ _ s.P ds P1 ds1 id tr1 hI.pinv
      (PassInv.zero cfg s.P) hds hl
    refine ⟨⟨Pb, hp⟩, ⟨?_, ?_⟩, rfl, rfl⟩
    · show PInv cfg.reward0 P1
      rw [hp.marked]; exact hp.pinv.mark id
    · intro c hc
      obtain rfl : id = c := by simpa using hc
      obtain ⟨nd, n1, _⟩ := hp.node
      show ∃ nd, P1.nodes[id]? = some nd ∧ nd.st.visited = true
      rw [hp.marked]
      exact ⟨_, mark_node_self n1, rfl⟩

/-! ### Totality -/

theorem loopT_found_total (cfg : DOOCfg α S) (hδ : DeltaOK cfg) :
    ∀ (fuel h : Nat) (maxv : S) (maxn : Option Nat) (P : Part α (SwSt S)) (ds : List (Draw α))
      (hq : Nat) (lq : List Nat) (w : Nat),
      WF P → LowVisited P h → h ≤ hq → P.layers[hq]? = some lq → w ∈ lq →
      unvisitedLeaf P w = true → hq - h + 1 ≤ fuel →
      ∃ P' v, loopT cfg fuel h maxv maxn P ds = .ok (P', ds, v, []) ∧ P'.depth = P.depth
  | 0, _, _, _, _, _, _, _, _, _, _, _, _, _, _, hf => by omega
  | fuel + 1, h, maxv, maxn, P, ds, hq, lq, w, W, hlow, hhq, q2, q3, q4, hf => by
    have hqd : hq ≤ P.depth := by
      have := lt_length_of_getElem? q2
      rw [W.layers_len] at this; omega
    have hh : h ≤ P.depth := by omega
    obtain ⟨δ, hdl⟩ := hδ P h W hh
    obtain ⟨l, hlay⟩ := WF_layer_exists W hh
    cases hsc : scan cfg δ l P maxv maxn with
    | mk P1 res =>
      have sp := scan_spec cfg δ l P maxv maxn P1 res hsc
      have hR : VRRel P P1 := VRRel.of_scan sp.rel
      unfold loopT
      simp only [hh, if_true, hdl, hlay, hsc]
      cases hfd : l.find? (unvisitedLeaf P) with
      | some id =>
        have := sp.found id hfd
        subst this
        exact ⟨_, id, rfl, hR.depth⟩
      | none =>
        obtain ⟨hres, _⟩ := sp.best hfd
        subst hres
        have hall : ∀ w ∈ l, unvisitedLeaf P w = false := by
          intro w hw
          simpa using List.find?_eq_none.1 hfd w hw
        have hne : hq ≠ h := by
          rintro rfl
          rw [hlay] at q2; cases q2
          rw [hall w q3] at q4; cases q4
        have hnot : ¬ (h + 1 > P1.depth) := by rw [hR.depth]; omega
        simp only [hnot, if_false]
        obtain ⟨P', v, e1, e2⟩ := loopT_found_total cfg hδ fuel (h + 1) _ _ P1 ds hq lq w
          (hR.wf W) (hR.low (hlow.succ hlay hall)) (by omega) (by rw [hR.layers]; exact q2) q3
          (by rw [hR.unv]; exact q4) (by omega)
        exact ⟨P', v, e1, e2.trans hR.depth⟩

theorem loopT_total (cfg : DOOCfg α S) (hbot : ∀ x, cfg.negInf ≤ x) (hδ : DeltaOK cfg) :
    ∀ (fuel h : Nat) (maxv : S) (maxn : Option Nat) (P : Part α (SwSt S)) (d : Draw α)
      (ds : List (Draw α)),
      PInv cfg.reward0 P → PassInv cfg h maxv maxn P → h ≤ P.depth →
      (P.depth - h + 1) + (P.depth + 3) ≤ fuel → DrawOKLen P.kind (dimn P) d →
      ∃ P' ds' v tr, loopT cfg fuel h maxv maxn P (d :: ds) = .ok (P', ds', v, tr) ∧
        P'.depth ≤ P.depth + 1
  | 0, _, _, _, _, _, _, _, _, _, hf, _ => by omega
  | fuel + 1, h, maxv, maxn, P, d, ds, hI, hpass, hh, hf, hd => by
    have W := hI.wf
    obtain ⟨δ, hdl⟩ := hδ P h W hh
    obtain ⟨l, hlay⟩ := WF_layer_exists W hh
    cases hsc : scan cfg δ l P maxv maxn with
    | mk P1 res =>
      have sp := scan_spec cfg δ l P maxv maxn P1 res hsc
      have hR : VRRel P P1 := VRRel.of_scan sp.rel
      have hI1 : PInv cfg.reward0 P1 := hR.pinv hI
      unfold loopT
      simp only [hh, if_true, hdl, hlay, hsc]
      cases hfd : l.find? (unvisitedLeaf P) with
      | some id =>
        have := sp.found id hfd
        subst this
        exact ⟨_, _, id, [], rfl, by show P1.depth ≤ _; rw [hR.depth]; omega⟩
      | none =>
        obtain ⟨maxv', maxn', hres, hpass1⟩ := hpass.next W hdl hlay sp hfd
        subst hres
        simp only
        by_cases hlast : h + 1 > P1.depth
        · simp only [hlast, if_true]
          have hlen : P1.layers.length ≤ h + 1 := by rw [hI1.wf.layers_len]; omega
          have hacc := hpass1.acc
          rw [List.take_of_length_le hlen] at hacc
          rcases amFold_bot (leafScore P1 (·.b)) P1.layers.flatten cfg.negInf hbot
            with ⟨_, e2⟩ | ⟨m, x, e1, hbest⟩
          · exfalso
            obtain ⟨_, w, nd, _, _, a3, a4, _⟩ := WF_deepest_leaf hI1.wf
            exact leafScore_eq_none_iff.1 (e2 w (WF_mem_flatten hI1.wf a3)) nd a3 a4
          · rw [e1] at hacc
            simp only [Prod.mk.injEq] at hacc
            obtain ⟨rfl, rfl⟩ := hacc
            obtain ⟨nd, hm, hleaf, _⟩ := leafScore_eq_some_iff.1 hbest.score
            simp only [hm]
            obtain ⟨P2, hmk, St, W2, hK⟩ := expand_total hI1.wf (st0 cfg) ds hm hleaf
              (fl := decide (nd.depth ≥ P1.depth)) rfl (by rw [hR.kind, hR.dimn_eq]; exact hd)
            simp only [hmk]
            obtain ⟨l2, q1, q2, _⟩ := Step_new_layer St hI1.wf hK
            obtain ⟨cn, c1, _, _, _, c5, _, c7⟩ := St.new 0 (by omega)
            have hun : unvisitedLeaf P2 P1.nodes.length = true := by
              rw [unvisitedLeaf_eq_true_iff]
              exact ⟨cn, by simpa using c1, c5, by rw [c7]; rfl⟩
            have hdn := hI1.wf.depth_le m nd hm
            have hd1 := hR.depth
            obtain ⟨P3, v, e3, e4⟩ := loopT_found_total cfg hδ fuel 0 x (some m) P2 ds
              (nd.depth + 1) l2 _ W2 (LowVisited.zero P2) (Nat.zero_le _) q1 q2 hun (by omega)
            rw [e3]
            refine ⟨P3, ds, v, _, rfl, ?_⟩
            rw [e4]
            rcases St.layers with ⟨_, _, e⟩ | ⟨_, _, e⟩ <;> omega
        · simp only [hlast, if_false]
          have hd1 := hR.depth
          obtain ⟨P', ds', v, tr, e1, e2⟩ := loopT_total cfg hbot hδ fuel (h + 1) maxv' maxn' P1 d ds
            hI1 hpass1 (by omega) (by omega) (by rw [hR.kind, hR.dimn_eq]; exact hd)
          exact ⟨P', ds', v, tr, e1, by omega⟩

theorem pullT_total (cfg : DOOCfg α S) (hbot : ∀ x, cfg.negInf ≤ x) (hδ : DeltaOK cfg)
    {s : DOO α S} (time : Nat) {ds : List (Draw α)} (hI : Inv cfg s) (hlen : 1 ≤ ds.length)
    (hds : ∀ d ∈ ds, DrawOKLen s.P.kind (dimn s.P) d) :
    ∃ s' ds' v tr, pullT cfg s time ds = .ok (s', ds', v, tr) ∧
      s'.P.depth ≤ s.P.depth + 1 := by
  cases ds with
  | nil => simp at hlen
  | cons d ds =>
    obtain ⟨P', ds', v, tr, e, hd⟩ := loopT_total cfg hbot hδ (2 * s.P.depth + 8) 0 cfg.negInf none
      s.P d ds hI.pinv (PassInv.zero cfg s.P) (Nat.zero_le _) (by omega)
      (hds d (List.mem_cons_self ..))
    refine ⟨{ s with P := P', iteration := time, curr := some v }, ds', v, tr, ?_, hd⟩
    unfold pullT
    simp only [e]

/-! ### Rounds -/

theorem init_inv (cfg : DOOCfg α S) (k : Kind) (domain : Box α) :
    Inv cfg (init cfg k domain) ∧ (init cfg k domain).P.kind = k ∧
      dimn (init cfg k domain).P = domain.length ∧ (init cfg k domain).P.depth = 0 ∧
      HistOK (init cfg k domain).P [] := by
  refine ⟨⟨⟨init_WF' k domain _, ?_, ?_⟩, ?_⟩, rfl, rfl, rfl, HistOK.init k domain _ rfl⟩
  · intro i nd hi hne
    cases i with
    | zero =>
      simp only [init, Part.init, List.getElem?_cons_zero, Option.some.injEq] at hi
      subst hi; exact absurd rfl hne
    | succ i => simp [init, Part.init] at hi
  · intro i nd hi _
    cases i with
    | zero =>
      simp only [init, Part.init, List.getElem?_cons_zero, Option.some.injEq] at hi
      subst hi; rfl
    | succ i => simp [init, Part.init] at hi
  · intro c hc; simp [init] at hc

theorem receive_eq {s : DOO α S} {c : Nat} (hc : s.curr = some c) (r : S) :
    receive s r = .ok { s with P := setReward s.P c r } := by
  simp [receive, hc, setReward]

/-- Everything a successful round guarantees. -/
structure RoundPost (cfg : DOOCfg α S) (s : DOO α S) (x : Input α S) (s2 : DOO α S) (v : Nat)
    (s1 : DOO α S) (ds' : List (Draw α)) (tr : List (Ev α (SwSt S) S))
    (Pb : Part α (SwSt S)) : Prop where
  pullT : pullT cfg s x.1 x.2.1 = .ok (s1, ds', v, tr)
  pull : pull cfg s x.1 x.2.1 = .ok (s1, ds', v)
  recv : receive s1 x.2.2 = .ok s2
  post : LoopPost cfg s.P x.2.1 s1.P ds' v tr Pb
  inv1 : Inv cfg s1
  curr1 : s1.curr = some v
  eq2 : s2 = { s1 with P := setReward s1.P v x.2.2 }
  P2 : s2.P = setReward (mark Pb v) v x.2.2
  inv2 : Inv cfg s2
  kind : s2.P.kind = s.P.kind
  dimn : dimn s2.P = dimn s.P

theorem round_spec (cfg : DOOCfg α S) (hbot : ∀ x, cfg.negInf ≤ x) {s s2 : DOO α S}
    {x : Input α S} {v : Nat} (hI : Inv cfg s)
    (hds : ∀ d ∈ x.2.1, DrawOKLen s.P.kind (dimn s.P) d)
    (hrun : round cfg s x = .ok (s2, v)) :
    ∃ s1 ds' tr Pb, RoundPost cfg s x s2 v s1 ds' tr Pb := by
  unfold round at hrun
  cases hp : pull cfg s x.1 x.2.1 with
  | error e => simp [hp] at hrun
  | ok res =>
    obtain ⟨s1, ds', v'⟩ := res
    simp only [hp] at hrun
    obtain ⟨tr, hpT⟩ := (pull_ok_iff cfg s x.1 x.2.1 s1 ds' v').1 hp
    obtain ⟨⟨Pb, hpost⟩, hI1, hc1, _⟩ := pullT_spec cfg hbot hI hds hpT
    rw [receive_eq hc1] at hrun
    simp only [Except.ok.injEq, Prod.mk.injEq] at hrun
    obtain ⟨rfl, rfl⟩ := hrun
    obtain ⟨nd, n1, _⟩ := hpost.node
    have hP2 : setReward s1.P v' x.2.2 = setReward (mark Pb v') v' x.2.2 := by rw [hpost.marked]
    refine ⟨s1, ds', tr, Pb, hpT, hp, receive_eq hc1 _, hpost, hI1, hc1, rfl, hP2, ⟨?_, ?_⟩,
      ?_, ?_⟩
    · show PInv cfg.reward0 (setReward s1.P v' x.2.2)
      rw [hP2]; exact hpost.pinv.round _ ⟨nd, n1⟩
    · intro c hc
      have hc' : s1.curr = some c := hc
      obtain ⟨cn, c1, c2⟩ := hI1.curr c hc'
      show ∃ nd, (setReward s1.P v' x.2.2).nodes[c]? = some nd ∧ nd.st.visited = true
      simp only [setReward, getElem?_modifySt, c1, Option.map_some]
      by_cases hvc : v' = c <;> simp [hvc, c2]
    · show (setReward s1.P v' x.2.2).kind = s.P.kind
      rw [hP2]; exact hpost.ext.kind
    · show Tree.dimn (setReward s1.P v' x.2.2) = Tree.dimn s.P
      rw [hP2]
      exact ((PRel_modifySt _ v' _).dimn_eq.trans (PRel_modifySt Pb v' _).dimn_eq).trans
        hpost.ext.dimn

theorem round_total (cfg : DOOCfg α S) (hbot : ∀ x, cfg.negInf ≤ x) (hδ : DeltaOK cfg)
    {s : DOO α S} (x : Input α S) (hI : Inv cfg s) (hlen : 1 ≤ x.2.1.length)
    (hds : ∀ d ∈ x.2.1, DrawOKLen s.P.kind (dimn s.P) d) :
    ∃ s2 v, round cfg s x = .ok (s2, v) ∧ s2.P.depth ≤ s.P.depth + 1 := by
  obtain ⟨s1, ds', v, tr, e, hd⟩ := pullT_total cfg hbot hδ x.1 hI hlen hds
  have hp := (pull_ok_iff cfg s x.1 x.2.1 s1 ds' v).2 ⟨tr, e⟩
  obtain ⟨_, _, hc1, _⟩ := pullT_spec cfg hbot hI hds e
  refine ⟨{ s1 with P := setReward s1.P v x.2.2 }, v, ?_, hd⟩
  unfold round
  simp only [hp, receive_eq hc1]

/-- Induction principle over the rounds of a run, with the history accumulated forwards. -/
theorem runRounds_induct (cfg : DOOCfg α S) (hbot : ∀ x, cfg.negInf ≤ x)
    (J : DOO α S → List (Nat × S) → Prop)
    (hstep : ∀ (s : DOO α S) (H : List (Nat × S)) (x : Input α S) (s2 : DOO α S) (v : Nat)
      (s1 : DOO α S) (ds' : List (Draw α)) (tr : List (Ev α (SwSt S) S))
      (Pb : Part α (SwSt S)), Inv cfg s → J s H → RoundPost cfg s x s2 v s1 ds' tr Pb →
      J s2 (H ++ [(v, x.2.2)])) :
    ∀ (inputs : List (Input α S)) (s : DOO α S) (H0 : List (Nat × S)) (s' : DOO α S)
      (H : List (Nat × S)), Inv cfg s →
      (∀ x ∈ inputs, ∀ d ∈ x.2.1, DrawOKLen s.P.kind (dimn s.P) d) → J s H0 →
      runRounds cfg s inputs = .ok (s', H) →
      J s' (H0 ++ H) ∧ Inv cfg s' ∧ s'.P.kind = s.P.kind ∧
        dimn s'.P = dimn s.P ∧ H.map (·.2) = inputs.map (·.2.2)
  | [], s, H0, s', H, hI, _, hJ, hrun => by
    simp only [runRounds, Except.ok.injEq, Prod.mk.injEq] at hrun
    obtain ⟨rfl, rfl⟩ := hrun
    simpa using ⟨hJ, hI⟩
  | x :: rest, s, H0, s', H, hI, hds, hJ, hrun => by
    unfold runRounds at hrun
    cases hr : round cfg s x with
    | error e => simp [hr] at hrun
    | ok res =>
      obtain ⟨s2, v⟩ := res
      simp only [hr] at hrun
      cases hrec : runRounds cfg s2 rest with
      | error e => simp [hrec] at hrun
      | ok res =>
        obtain ⟨s3, H3⟩ := res
        simp only [hrec, Except.ok.injEq, Prod.mk.injEq] at hrun
        obtain ⟨rfl, rfl⟩ := hrun
        obtain ⟨s1, ds', tr, Pb, hp⟩ := round_spec cfg hbot hI
          (hds x (List.mem_cons_self ..)) hr
        have hJ2 := hstep s H0 x s2 v s1 ds' tr Pb hI hJ hp
        have hds2 : ∀ y ∈ rest, ∀ d ∈ y.2.1, DrawOKLen s2.P.kind (dimn s2.P) d := by
          intro y hy d hd
          rw [hp.kind, hp.dimn]
          exact hds y (List.mem_cons_of_mem _ hy) d hd
        obtain ⟨a1, a2, a4, a5, a6⟩ := runRounds_induct cfg hbot J hstep rest s2 _ s3 H3
          hp.inv2 hds2 hJ2 hrec
        refine ⟨by simpa using a1, a2, a4.trans hp.kind, a5.trans hp.dimn, ?_⟩
        simp [a6]

/-- The loop of DOO never fails (there is no depth cap). -/
theorem runRounds_total (cfg : DOOCfg α S) (hbot : ∀ x, cfg.negInf ≤ x) (hδ : DeltaOK cfg) :
    ∀ (inputs : List (Input α S)) (s : DOO α S), Inv cfg s →
      InputsOK s.P.kind (dimn s.P) inputs →
      ∃ s' H, runRounds cfg s inputs = .ok (s', H) ∧
        s'.P.depth ≤ s.P.depth + inputs.length
  | [], s, _, _ => ⟨s, [], rfl, Nat.le_refl _⟩
  | x :: rest, s, hI, hin => by
    obtain ⟨hl, hds⟩ := hin x (List.mem_cons_self ..)
    obtain ⟨s2, v, hr, hd⟩ := round_total cfg hbot hδ x hI hl hds
    obtain ⟨s1, ds', tr, Pb, hp⟩ := round_spec cfg hbot hI hds hr
    have hin2 : InputsOK s2.P.kind (dimn s2.P) rest := by
      intro y hy
      rw [hp.kind, hp.dimn]
      exact hin y (List.mem_cons_of_mem _ hy)
    obtain ⟨s3, H3, hrec, hd3⟩ := runRounds_total cfg hbot hδ rest s2 hp.inv2 hin2
    refine ⟨s3, (v, x.2.2) :: H3, ?_, by simp only [List.length_cons]; omega⟩
    unfold runRounds
    simp only [hr, hrec]

/-- The history invariant over a run. -/
theorem runRounds_hist (cfg : DOOCfg α S) (hbot : ∀ x, cfg.negInf ≤ x)
    (inputs : List (Input α S))
    (s : DOO α S) (H0 : List (Nat × S)) (s' : DOO α S) (H : List (Nat × S))
    (hI : Inv cfg s) (hds : ∀ x ∈ inputs, ∀ d ∈ x.2.1, DrawOKLen s.P.kind (dimn s.P) d)
    (hH : HistOK s.P H0) (hrun : runRounds cfg s inputs = .ok (s', H)) :
    HistOK s'.P (H0 ++ H) ∧ Inv cfg s' ∧ H.map (·.2) = inputs.map (·.2.2) := by
  obtain ⟨a1, a2, _, _, a6⟩ := runRounds_induct cfg hbot (fun s H => HistOK s.P H)
    (fun s H x s2 v s1 ds' tr Pb _ hJ hp => by
      show HistOK s2.P _
      rw [hp.P2]
      obtain ⟨nd, n1, _, n3⟩ := hp.post.node
      exact HistOK.round x.2.2 hJ hp.post.ext rfl ⟨nd, n1, n3⟩)
    inputs s H0 s' H hI hds hH hrun
  exact ⟨a1, a2, a6⟩

end DOO
end PyXAB
