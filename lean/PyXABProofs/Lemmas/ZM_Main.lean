/-
  `init` establishes `Cover`; the complete case analysis of `receive` from a `Cover` state.
-/
import PyXABProofs.Lemmas.ZM_Cover

set_option linter.unusedSectionVars false

namespace PyXAB
namespace ZM
open Zooming _root_.PyXAB.Tree

variable {α R S : Type} [Field α] [LinearOrder α] [IsStrictOrderedRing α]

theorem init_cover (cfg : ZoomCfg R S) (k : Kind) (domain : Box α) (d : Draw α)
    (ds : List (Draw α)) (hv : Box.Valid domain) (hdl : DrawOKLen k domain.length d)
    (hd : DrawOK k domain d) :
    ∃ s, Zooming.init cfg k domain (d :: ds) = .ok (s, ds) ∧ Cover domain s ∧ s.P.kind = k ∧
      dimn s.P = domain.length ∧
      s.arms = (List.range' 1 (k.arity domain.length)).map (newArm cfg s.P) ∧
      s.phase = 1 ∧ s.nextEnd = 2 ∧ s.time = 0 ∧ s.best = none := by
  have W0 := init_WF k domain ()
  have hT0 : Tiles (leafBoxes (Part.init k domain ())) domain := Tiles.self hv
  have hp0 : (Part.init k domain ()).nodes[0]? =
      some { depth := 0, index := 1, parent := none, children := none, box := domain, st := () } :=
    rfl
  obtain ⟨P1, m, W1, St, hT1, hval, _⟩ := mk_facts W0 hT0 hp0 rfl hdl hd
  have hK : K (Part.init k domain ()) = k.arity domain.length := rfl
  have hn0 : (Part.init k domain ()).nodes.length = 1 := rfl
  have hnew : ∀ j, j < k.arity domain.length → ∃ cn, P1.nodes[1 + j]? = some cn ∧
      cn.depth = 1 ∧ cn.children = none := by
    intro j hj
    obtain ⟨cn, c1, c2, _, _, c5, _⟩ := St.new j (by rw [hK]; exact hj)
    exact ⟨cn, c1, c2, c5⟩
  have hval' : ∀ j cn, P1.nodes[1 + j]? = some cn → Box.Valid cn.box := hval
  have hl : P1.layers[1]? = some (List.range' 1 (k.arity domain.length)) := by
    rcases St.layers with ⟨_, h2, _⟩ | ⟨h1, _⟩
    · rw [h2]; rfl
    · exact absurd h1 (Nat.lt_irrefl 0)
  have newfacts : ∀ x, x ∈ List.range' 1 (k.arity domain.length) →
      ∃ xn, P1.nodes[x]? = some xn ∧ xn.children = none ∧ 1 ≤ xn.depth ∧ Box.Valid xn.box := by
    intro x hx
    rw [List.mem_range'_1] at hx
    obtain ⟨xn, x1, x2, x5⟩ := hnew (x - 1) (by omega)
    have e : 1 + (x - 1) = x := by omega
    exact ⟨xn, e ▸ x1, x5, by omega, hval' _ xn x1⟩
  refine ⟨_, init_eq cfg k domain d ds m hl, ?_, St.kind_eq, St.dimn_eq W0 hp0, rfl, rfl, rfl,
    rfl, rfl⟩
  refine ⟨W1, ?_, hT1, ?_, ?_, ?_⟩
  · obtain ⟨r', hr', _, _, _, hb, _⟩ := St.pres hp0 hp0
    exact ⟨r', hr', hb⟩
  · intro b hb
    obtain ⟨x, hx, rfl⟩ := List.mem_map.1 hb
    obtain ⟨xn, x1, x2, x3, x4⟩ := newfacts x hx
    refine ⟨xn, ⟨x1, x2⟩, x3, ?_⟩
    show Box.Mem xn.box (newArm cfg P1 x).pt
    simp only [newArm, x1]
    exact C02.cpoint_mem _ x4
  · intro x xn ⟨l1, l2⟩
    rcases St.inv hp0 l1 with ⟨y, y1, _, _, _, _, _, _, y3⟩ | ⟨j, hj, rfl, _⟩
    · have hx0 : x = 0 := by
        have := lt_length_of_getElem? y1
        rw [hn0] at this; omega
      have := y3 hx0
      rw [l2] at this; cases this
    · rw [hK] at hj
      exact ⟨newArm cfg P1 (1 + j),
        List.mem_map.2 ⟨_, by rw [List.mem_range'_1]; omega, rfl⟩, rfl⟩
  · show (List.map (fun x : Arm α S => x.cell)
      ((List.range' 1 (k.arity domain.length)).map (newArm cfg P1))).Nodup
    rw [List.map_map]
    have e : ((fun x : Arm α S => x.cell) ∘ newArm cfg P1) = id := rfl
    rw [e, List.map_id]
    exact List.nodup_range'

/-- **Case analysis of `receive`** from a `Cover` state in which `best` points at the arm `a`
(as `pull` leaves it), with draws satisfying `RecvDrawsOK`. -/
theorem receive_cases (cfg : ZoomCfg R S) {root : Box α} {s : Zooming α S} (hC : Cover root s)
    {i : Nat} {a : Arm α S} (hb : s.best = some i) (ha : s.arms[i]? = some a) (r : R)
    {ds : List (Draw α)} (hds : RecvDrawsOK cfg s ds) :
    ∃ nd, LeafAt s.P a.cell nd ∧ 1 ≤ nd.depth ∧
      ((refineCond cfg s a nd = false ∧
          receive cfg s r ds = .ok (credited cfg s i a r, ds) ∧
          Cover root (credited cfg s i a r)) ∨
       (refineCond cfg s a nd = true ∧
          ∃ d ds' P2 l₁ c l₂ cn, ds = d :: ds' ∧
            s.P.makeChildren () a.cell (decide (nd.depth ≥ s.P.depth)) d = .ok P2 ∧
            WF P2 ∧ Step s.P P2 () a.cell nd ∧
            List.range' s.P.nodes.length (K s.P) = l₁ ++ c :: l₂ ∧
            P2.nodes[c]? = some cn ∧ Box.Mem cn.box a.pt ∧
            (∀ x ∈ l₁, ∀ xn, P2.nodes[x]? = some xn → ¬ Box.Mem xn.box a.pt) ∧
            receive cfg s r ds =
              .ok (refined cfg s i a r P2 c ((l₁ ++ l₂).map (newArm cfg P2)), ds') ∧
            Cover root (refined cfg s i a r P2 c ((l₁ ++ l₂).map (newArm cfg P2))))) := by
  obtain ⟨nd, hn, hdep, hmem⟩ := hC.arm_leaf a (List.mem_of_getElem? ha)
  refine ⟨nd, hn, hdep, ?_⟩
  cases hc : refineCond cfg s a nd with
  | false =>
    left
    exact ⟨rfl, receive_noref cfg r ds hb ha hn.1 hc,
      cover_set_same hC ha (a1 := credit cfg a r) rfl rfl rfl rfl⟩
  | true =>
    right
    refine ⟨rfl, ?_⟩
    obtain ⟨d, ds', rfl, hdl, hd⟩ := hds i a nd hb ha hn.1 hc
    obtain ⟨P2, m, W2, St, hT2, hval, hcov⟩ := mk_facts hC.wf hC.tiles hn.1 hn.2 hdl hd
    have hlenpt : a.pt.length = dimn s.P := by
      rw [Box.Mem.length_eq hmem]; exact hC.wf.boxlen _ _ hn.1
    have hvalid : ∀ x ∈ List.range' s.P.nodes.length (K s.P), ∃ xn, P2.nodes[x]? = some xn ∧
        xn.box.length = a.pt.length := by
      intro x hx
      rw [List.mem_range'_1] at hx
      obtain ⟨xn, x1, _, _, _, _, x6, _⟩ := St.new (x - s.P.nodes.length) (by omega)
      have e : s.P.nodes.length + (x - s.P.nodes.length) = x := by omega
      exact ⟨xn, e ▸ x1, x6.trans hlenpt.symm⟩
    have hin : ∀ x ∈ List.range' s.P.nodes.length (K s.P), ∀ xn, P2.nodes[x]? = some xn →
        (inCell P2 a.pt x = true ↔ Box.Mem xn.box a.pt) := by
      intro x hx xn hxn
      obtain ⟨xn', x1, x2⟩ := hvalid x hx
      obtain rfl := getElem?_inj x1 hxn
      simp only [inCell, hxn]
      exact contains_iff x2
    rcases first_split (inCell P2 a.pt) (List.range' s.P.nodes.length (K s.P)) with
      hnone | ⟨l₁, c, l₂, hsplit, hfirst, hcin⟩
    · exfalso
      obtain ⟨j, cn, hj, hcn, hcm⟩ := hcov a.pt hmem
      have hjm : s.P.nodes.length + j ∈ List.range' s.P.nodes.length (K s.P) := by
        rw [List.mem_range'_1]; omega
      have := (hin _ hjm cn hcn).2 hcm
      rw [hnone _ hjm] at this
      cases this
    · have hcm : c ∈ List.range' s.P.nodes.length (K s.P) := by rw [hsplit]; simp
      obtain ⟨cn, hcn, _⟩ := hvalid c hcm
      have hcmem : Box.Mem cn.box a.pt := (hin c hcm cn hcn).1 hcin
      have hnd : (List.range' s.P.nodes.length (K s.P)).Nodup := List.nodup_range'
      rw [hsplit, List.nodup_middle, List.nodup_cons] at hnd
      have has : assign cfg P2 a.pt (l₁ ++ c :: l₂) false none [] =
          (some c, (l₁ ++ l₂).map (newArm cfg P2)) := by
        rw [assign_false_some cfg P2 a.pt
          (fun x hx => by
            obtain ⟨xn, h, _⟩ := hvalid x (hsplit ▸ hx); exact ⟨xn, h⟩) hfirst hcin]
        simp
      refine ⟨d, ds', P2, l₁, c, l₂, cn, rfl, m, W2, St, hsplit, hcn, hcmem, ?_, ?_, ?_⟩
      · intro x hx xn hxn hxm
        have hxr : x ∈ List.range' s.P.nodes.length (K s.P) := by rw [hsplit]; simp [hx]
        have := (hin x hxr xn hxn).2 hxm
        rw [hfirst x hx] at this
        cases this
      · exact receive_ref cfg r d ds' hb ha hn.1 hc m St.atp (by rw [hsplit]) has
      · refine cover_refine cfg hC ha hn W2 St hT2 hval hcm hcn hcmem hnd.2 hnd.1 ?_ ?_
          (a2 := { credit cfg a r with cell := c }) rfl rfl rfl rfl
        · intro x hx; rw [hsplit]; simp only [List.mem_append, List.mem_cons] at hx ⊢; tauto
        · intro x hx; rw [hsplit] at hx
          simp only [List.mem_append, List.mem_cons] at hx ⊢; tauto

end ZM
end PyXAB
