/-
  The operations `makeChildren` (on a leaf, correct flag), `deepen`, and legal operation
  sequences never raise and preserve `WF`.
-/
import PyXABProofs.Lemmas.TreeCor

namespace PyXAB
namespace Tree

variable {α σ : Type} [Add α] [Sub α] [Mul α] [Div α] [OfNat α 2] [NatCast α]

/-- `make_children` on a leaf with the correct `newlayer` flag and a well-formed draw never
raises, keeps the invariant, and has the `Step` frame. -/
theorem makeChildren_WF_step {P : Part α σ} (W : WF P) (s0 : σ) {p : Nat} {nd : Node α σ}
    {d : Draw α} {newlayer : Bool}
    (hp : P.nodes[p]? = some nd) (hleaf : nd.children = none)
    (hfl : newlayer = decide (nd.depth ≥ P.depth)) (hd : DrawOKLen P.kind (dimn P) d) :
    ∃ P', P.makeChildren s0 p newlayer d = .ok P' ∧ WF P' ∧ Step P P' s0 p nd := by
  obtain ⟨P', h1, S⟩ := makeChildren_step P s0 p nd d newlayer hp (W.boxlen p nd hp)
    (W.index_pos p nd hp) hd W.layers_len (W.depth_le p nd hp) hfl
  exact ⟨P', h1, S.wf W hp hleaf (arity_pos_of_drawOK hd), S⟩

theorem makeChildrenD_cons {P P' : Part α σ} {s0 : σ} {p : Nat} {nl : Bool} {d : Draw α}
    {ds : List (Draw α)} (h : P.makeChildren s0 p nl d = .ok P') :
    P.makeChildrenD s0 p nl (d :: ds) = .ok (P', ds) := by
  simp only [Part.makeChildrenD, Part.popDraw, bind, Except.bind, h, pure, Except.pure]

omit [Add α] [Sub α] [Mul α] [Div α] [OfNat α 2] [NatCast α] in
theorem Step.layers_keep {P P' : Part α σ} {s0 : σ} {p : Nat} {nd : Node α σ}
    (S : Step P P' s0 p nd) {h : Nat} (hh : h ≤ nd.depth) (hlen : h < P.layers.length) :
    P'.layers[h]? = P.layers[h]? := by
  rcases S.layers with ⟨_, h2, _⟩ | ⟨_, h2, _⟩
  · rw [h2, List.getElem?_append_left hlen]
  · rw [h2, List.getElem?_modify]
    have : ¬ nd.depth + 1 = h := by omega
    simp [this]

/-- Loop invariant of `Partition.deepen`. -/
theorem deepenLoop_WF (s0 : σ) (k : Kind) (D depth0 : Nat) (layer : List Nat) :
    ∀ (fuel i : Nat) (Q : Part α σ) (ds : List (Draw α)),
      WF Q → Q.kind = k → dimn Q = D → Q.layers[depth0]? = some layer →
      fuel + i = layer.length →
      Q.depth = (if i = 0 then depth0 else depth0 + 1) →
      (∀ j q, i ≤ j → layer[j]? = some q →
        ∃ qn, Q.nodes[q]? = some qn ∧ qn.children = none ∧ qn.depth = depth0) →
      fuel ≤ ds.length → (∀ d ∈ ds, DrawOKLen k D d) →
      ∃ Q', Part.deepenLoop s0 depth0 fuel i Q ds = .ok (Q', ds.drop fuel) ∧ WF Q' ∧
        Q'.depth = (if i = 0 ∧ fuel = 0 then depth0 else depth0 + 1) ∧
        Q'.kind = k ∧ dimn Q' = D := by
  intro fuel
  induction fuel with
  | zero =>
    intro i Q ds W hk hD _ _ hdep _ _ _
    refine ⟨Q, by simp [Part.deepenLoop], W, ?_, hk, hD⟩
    by_cases hi : i = 0 <;> simp [hi, hdep]
  | succ fuel ih =>
    intro i Q ds W hk hD hlay hlen hdep hleaves hds hok
    have hi : i < layer.length := by omega
    obtain ⟨qn, q1, q2, q3⟩ := hleaves i layer[i] (Nat.le_refl _) (List.getElem?_eq_getElem hi)
    cases ds with
    | nil => simp at hds
    | cons d ds =>
      have hd : DrawOKLen Q.kind (dimn Q) d := by
        rw [hk, hD]; exact hok d (List.mem_cons_self ..)
      have hfl : (i == 0) = decide (qn.depth ≥ Q.depth) := by
        rw [q3, hdep]
        have : ¬ (depth0 + 1 ≤ depth0) := by omega
        by_cases h0 : i = 0 <;> simp [h0, this]
      obtain ⟨Q', m1, W', S⟩ := makeChildren_WF_step W s0 q1 q2 hfl hd
      have hlay' : Q'.layers[depth0]? = some layer := by
        rw [S.layers_keep (by omega) (lt_length_of_getElem? hlay)]; exact hlay
      have hdep' : Q'.depth = depth0 + 1 := by
        rcases S.layers with ⟨e1, _, e3⟩ | ⟨e1, _, e3⟩
        · omega
        · rw [e3]; rw [q3] at e1; split at hdep <;> omega
      have hleaves' : ∀ j q, i + 1 ≤ j → layer[j]? = some q →
          ∃ qn, Q'.nodes[q]? = some qn ∧ qn.children = none ∧ qn.depth = depth0 := by
        intro j q hj hq
        obtain ⟨qn0, a1, a2, a3⟩ := hleaves j q (by omega) hq
        have hne : q ≠ layer[i] := by
          have := pairwise_lt_getElem? (W.layers_mem _ _ hlay).1
            (List.getElem?_eq_getElem hi) hq (by omega)
          omega
        obtain ⟨qn', b1, b2, _, _, _, _, b3, _⟩ := S.pres q1 a1
        exact ⟨qn', b1, (b3 hne).trans a2, b2.trans a3⟩
      obtain ⟨Q'', r1, r2, r3, r4, r5⟩ := ih (i + 1) Q' ds W' (S.kind_eq.trans hk)
        ((S.dimn_eq W q1).trans hD) hlay' (by omega) (by simpa using hdep') hleaves'
        (by simpa using hds) (fun d hd => hok d (List.mem_cons_of_mem _ hd))
      refine ⟨Q'', ?_, r2, by simpa using r3, r4, r5⟩
      simp only [Part.deepenLoop, hlay, List.getElem?_eq_getElem hi,
        makeChildrenD_cons m1, List.drop_succ_cons]
      exact r1

/-- `deepen()` never raises under `WF` given one well-formed draw per node of the deepest
level; it keeps the invariant and increases the depth by exactly one. -/
theorem deepen_WF' {P : Part α σ} (W : WF P) (s0 : σ) (ds : List (Draw α))
    (hlen : (lastLayer P).length ≤ ds.length) (hok : ∀ d ∈ ds, DrawOKLen P.kind (dimn P) d) :
    ∃ P', P.deepen s0 ds = .ok (P', ds.drop (lastLayer P).length) ∧ WF P' ∧
      P'.depth = P.depth + 1 ∧ P'.kind = P.kind ∧ dimn P' = dimn P := by
  have hl := W.lastLayer_spec
  have hne := (W.layers_mem _ _ hl).2.1
  have hpos : 0 < (lastLayer P).length := List.length_pos_iff.2 hne
  obtain ⟨P', h1, h2, h3, h4, h5⟩ := deepenLoop_WF s0 P.kind (dimn P) P.depth (lastLayer P)
    (lastLayer P).length 0 P ds W rfl rfl hl rfl rfl
    (fun j q _ hq => by
      obtain ⟨nd, a1, a2⟩ := ((W.layers_mem _ _ hl).2.2 q).1 (List.mem_of_getElem? hq)
      exact ⟨nd, a1, W.leaf_of_deepest a1 a2, a2⟩)
    hlen hok
  refine ⟨P', ?_, h2, ?_, h4, h5⟩
  · simp only [Part.deepen, hl]; exact h1
  · rw [h3]; simp; omega

/-- Every legal operation succeeds and keeps the invariant. -/
theorem step_WF {P : Part α σ} (W : WF P) (s0 : σ) (op : POp α) (hop : LegalOp P op) :
    ∃ P', step s0 P op = .ok P' ∧ WF P' ∧ P'.kind = P.kind ∧ dimn P' = dimn P := by
  cases op with
  | mk p d =>
    obtain ⟨hleaf, hd⟩ := hop
    obtain ⟨nd, h1, h2⟩ := isLeaf_iff.1 hleaf
    obtain ⟨P', m1, W', S⟩ := makeChildren_WF_step W s0 h1 h2 rfl hd
    exact ⟨P', by simp only [step, h1, m1], W', S.kind_eq, S.dimn_eq W h1⟩
  | deepen ds =>
    obtain ⟨hlen, hok⟩ := hop
    obtain ⟨P', m1, W', _, hk, hD⟩ := deepen_WF' W s0 ds hlen hok
    exact ⟨P', by simp only [step, m1], W', hk, hD⟩

/-- Every legal operation sequence succeeds and ends in a `WF` state. -/
theorem run_WF (s0 : σ) : ∀ (ops : List (POp α)) (P : Part α σ), WF P → Legal s0 P ops →
    ∃ P', run s0 P ops = .ok P' ∧ WF P' ∧ P'.kind = P.kind ∧ dimn P' = dimn P
  | [], P, W, _ => ⟨P, rfl, W, rfl, rfl⟩
  | op :: ops, P, W, hL => by
    obtain ⟨hop, hrest⟩ := hL
    obtain ⟨P', s1, W', hk, hD⟩ := step_WF W s0 op hop
    rw [s1] at hrest
    obtain ⟨P'', r1, W'', hk', hD'⟩ := run_WF s0 ops P' W' hrest
    exact ⟨P'', by simp only [run, s1, r1], W'', hk'.trans hk, hD'.trans hD⟩

omit [Add α] [Sub α] [Mul α] [Div α] [OfNat α 2] [NatCast α] in
theorem init_WF' (k : Kind) (domain : Box α) (s0 : σ) : WF (Part.init k domain s0) where
  root := ⟨_, rfl, rfl, rfl, rfl⟩
  boxlen := by
    intro i nd h
    have : i = 0 := by
      have := lt_length_of_getElem? h; simp [Part.init] at this; exact this
    subst this
    simp [Part.init] at h; subst h; rfl
  parent := by
    intro c nd hc h
    have := lt_length_of_getElem? h; simp [Part.init] at this; omega
  children := by
    intro p pn cs h hcs
    have : p = 0 := by
      have := lt_length_of_getElem? h; simp [Part.init] at this; exact this
    subst this
    simp [Part.init] at h; subst h; simp at hcs
  index_pos := by
    intro i nd h
    have : i = 0 := by
      have := lt_length_of_getElem? h; simp [Part.init] at this; exact this
    subst this
    simp [Part.init] at h; subst h; simp
  layers_len := rfl
  layers_mem := by
    intro h l hl
    have : h = 0 := by
      have := lt_length_of_getElem? hl; simp [Part.init] at this; exact this
    subst this
    simp [Part.init] at hl; subst hl
    refine ⟨by simp, by simp, fun i => ?_⟩
    constructor
    · intro hi
      have : i = 0 := by simpa using hi
      subst this
      exact ⟨_, rfl, rfl⟩
    · rintro ⟨nd, h1, _⟩
      have := lt_length_of_getElem? h1; simp [Part.init] at this; simp [this]
  depth_le := by
    intro i nd h
    have : i = 0 := by
      have := lt_length_of_getElem? h; simp [Part.init] at this; exact this
    subst this
    simp [Part.init] at h; subst h; simp [Part.init]

end Tree
end PyXAB
