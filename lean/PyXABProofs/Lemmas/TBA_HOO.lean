/-
  T-HOO: `init`, `pull`, `receive` never raise from invariant states, keep the invariant, and
  `receive` has the extensional effect `RecvEffect`.
-/
import PyXABProofs.Lemmas.TBA_Recv

set_option linter.unusedSectionVars false

namespace PyXAB
namespace TBA
open Tree

variable {α σ R S : Type}

/-- Crediting along a duplicate-free list of ids. -/
theorem foldl_modifySt_nodup (g : σ → σ) :
    ∀ (l : List Nat) (P : Part α σ), l.Nodup →
      PRel (fun i a b => b.st = if i ∈ l then g a.st else a.st) P
        (l.foldl (fun P id => P.modifySt id g) P)
  | [], P, _ => PRel.refl (fun i nd => by simp) P
  | x :: l, P, hn => by
    rw [List.nodup_cons] at hn
    rw [List.foldl_cons]
    refine (PRel_modifySt P x g).trans' (foldl_modifySt_nodup g l _ hn.2) ?_
    intro i a b c _ _ h1 h2
    by_cases e : i = x
    · subst e
      simp only [if_true] at h1
      simp only [hn.1, if_false] at h2
      simp [h2, h1]
    · simp only [e, if_false] at h1
      rw [h2, h1]
      simp [e]

section expand
variable [Add α] [Sub α] [Mul α] [Div α] [OfNat α 2] [NatCast α]

/-- The conditional expansion of the pulled cell. -/
theorem expand_if (c : Bool) {P : Part α σ} (W : WF P) (s0 : σ) {last : Nat} {nd : Node α σ}
    (hp : P.nodes[last]? = some nd) (hleaf : c = true → nd.children = none)
    {ds : List (Draw α)} (hds : DrawsOK P.kind (dimn P) ds) :
    ∃ P3 ds', (if c = true then P.expand s0 last ds else .ok (P, ds)) = .ok (P3, ds') ∧
      Mid s0 P P3 last c ∧ WF P3 := by
  cases c with
  | false => exact ⟨P, ds, by simp, Mid.same s0 P last, W⟩
  | true =>
    obtain ⟨hlen, hok⟩ := hds
    cases ds with
    | nil => simp at hlen
    | cons d ds =>
      obtain ⟨P3, e1, W3, S⟩ := expand_ok W s0 hp (hleaf rfl) ds (hok d (List.mem_cons_self ..))
      exact ⟨P3, ds, by simp [e1], Mid.of_step W hp (hleaf rfl) S, W3⟩

end expand

end TBA

namespace TBA.HOO
open Tree TBA PyXAB.HOO
variable {α R S : Type} [Add α] [Sub α] [Mul α] [Div α] [OfNat α 2] [NatCast α]
variable [LE S] [DecidableLE S] [Max S] [Min S] [Inhabited S] [Inhabited R]

theorem good_st0 (cfg : HOOCfg R S) : Good cfg.meanOf (st0 cfg) :=
  ⟨rfl, fun h => absurd rfl h⟩

/-- `T_HOO.__init__` succeeds given one well-formed draw and establishes the invariant. -/
theorem init_ok (cfg : HOOCfg R S) (k : Kind) (domain : Box α) (d : Draw α) (ds : List (Draw α))
    (hd : DrawOKLen k domain.length d) :
    ∃ s0 : HOO α R S, init cfg k domain (d :: ds) = .ok (s0, ds) ∧ Inv cfg s0 ∧
      s0.P.kind = k ∧ dimn s0.P = domain.length ∧ s0.P.isLeaf 0 = false ∧ s0.path = none ∧
      s0.iteration = 0 ∧
      ∀ (i : Nat) (nd : Node α (TBSt R S)), s0.P.nodes[i]? = some nd →
        nd.st = st0 cfg ∧ nd.depth ≤ 1 := by
  obtain ⟨P1, e1, W1, h1, h2, h3, h4⟩ := init_expand k domain (st0 cfg) d ds hd
  refine ⟨{ P := P1, iteration := 0, path := none }, ?_, ⟨W1, fun i nd hi => ?_⟩, h1, h2, h3, rfl,
    rfl, h4⟩
  · simp only [init, e1, bind, Except.bind, pure, Except.pure]
  · rw [(h4 i nd hi).1]; exact good_st0 cfg

/-- `pull` succeeds from an invariant state: the stored path is a root-to-leaf chain. -/
theorem pull_ok (cfg : HOOCfg R S) {s : HOO α R S} (hI : Inv cfg s) :
    ∃ path v, pull s = .ok ({ s with path := some path }, v) ∧
      Ready cfg { s with path := some path } path v := by
  have W := hI.wf
  obtain ⟨tail, v, nd, e1, e2, e3, e4, e5⟩ := descend_ok W (fun _ => Except.ok true)
    (fun _ _ _ => ⟨true, rfl⟩) (s.P.nodes.length + 1) 0 [0] W.length_pos (by omega)
  have hleaf : nd.children = none := by
    rcases e5 with h | h
    · exact h
    · cases h
  have e3' : ([0] ++ tail).getLast? = some v := e3
  refine ⟨[0] ++ tail, v, ?_, hI, rfl, ⟨rfl, e2⟩, e3', ?_⟩
  · simp only [pull, e1, bind, Except.bind, e3', pure, Except.pure]
  · exact isLeaf_iff.2 ⟨nd, e4, hleaf⟩

theorem updateReward_eq (cfg : HOOCfg R S) (r : R) :
    (fun (P : Part α (TBSt R S)) id => updateReward cfg P id r) =
      (fun P id => P.modifySt id (fun st =>
        { st with count := st.count + 1, rewards := st.rewards ++ [r],
                  mean := cfg.meanOf (st.rewards ++ [r]) (st.count + 1) })) := rfl

theorem computeU_soft (cfg : HOOCfg R S) (nd : Node α (TBSt R S)) :
    Soft cfg.meanOf nd.st (computeU cfg nd) := by
  unfold computeU
  split
  · exact ⟨rfl, rfl, rfl, rfl, Or.inl rfl⟩
  · next h => exact ⟨rfl, rfl, rfl, rfl, Or.inr ⟨h, rfl⟩⟩

/-- The payload pass of `receive`: credit along the path, then recompute means/U-values. -/
theorem credit_pass (cfg : HOOCfg R S) (P : Part α (TBSt R S)) (path : List Nat)
    (hn : path.Nodup) (r : R) :
    PRel (CreditR cfg.meanOf none r (· ∈ path)) P
      (forListed (path.foldl (fun P id => updateReward cfg P id r) P) (computeU cfg)) := by
  rw [updateReward_eq]
  refine (foldl_modifySt_nodup _ path P hn).trans'
    (forListed_rel (closed_SoftR cfg.meanOf) (computeU cfg)
      (fun i nd nd' _ h => by show Soft _ _ _; rw [h]; exact computeU_soft cfg nd) _) ?_
  intro i a b c _ _ h1 h2
  refine CreditR.soft_right ?_ h2
  constructor
  · intro (hi : i ∈ path)
    simp only [hi, if_true] at h1
    rw [h1]
    exact ⟨rfl, rfl, rfl, rfl, rfl⟩
  · intro (hi : ¬ i ∈ path)
    simp only [hi, if_false] at h1
    rw [h1]
    exact Soft.rfl' _ _

/-- `receive` after a `pull` succeeds given well-formed draws, keeps the invariant and has the
effect `RecvEffect`: the cells of the path are credited, and the pulled leaf is split iff
`expandOK (depth last)`. -/
theorem receive_ok (cfg : HOOCfg R S) {s : HOO α R S} {path : List Nat} {last : Nat}
    (hR : Ready cfg s path last) (r : R) {ds : List (Draw α)}
    (hds : DrawsOK s.P.kind (dimn s.P) ds) :
    ∃ s' ds' nd, s.P.nodes[last]? = some nd ∧ receive cfg s r ds = .ok (s', ds') ∧
      Inv cfg s' ∧ s'.path = s.path ∧ s'.iteration = s.iteration + 1 ∧
      RecvEffect cfg.meanOf none r (st0 cfg) (· ∈ path) s.P s'.P last (cfg.expandOK nd.depth) := by
  have W := hR.inv.wf
  obtain ⟨nd, hnd, hleaf⟩ := isLeaf_iff.1 hR.leaf
  have h12 := credit_pass cfg s.P path (DownChain.nodup W hR.isPath.2) r
  unfold receive
  simp only [hR.stored, hR.lastEq]
  generalize forListed (path.foldl (fun P id => updateReward cfg P id r) s.P) (computeU cfg) = P2
    at h12 ⊢
  obtain ⟨nd2, n1, n2, _⟩ := h12.node last nd hnd
  have W2 := h12.wf W
  have hds2 : DrawsOK P2.kind (dimn P2) ds := by rw [h12.kind, h12.dimn_eq]; exact hds
  obtain ⟨P3, ds', x1, x2, W3⟩ := expand_if (cfg.expandOK nd2.depth) W2 (st0 cfg) n1
    (fun _ => n2.children.trans hleaf) hds2
  obtain ⟨P4, b1, b2⟩ := backward_rel cfg.negInf P3 W3.layers_len
  have E := RecvEffect.build (s0 := st0 cfg) rfl h12 x2 b2
  rw [n2.depth] at E
  refine ⟨{ s with P := P4, iteration := s.iteration + 1 }, ds', nd, hnd, ?_, ?_, hR.stored, rfl, E⟩
  · simp only [n1, x1, b1, bind, Except.bind, pure, Except.pure, hR.stored]
  · refine ⟨b2.wf W3, ?_⟩
    exact E.good (Good cfg.meanOf) (good_st0 cfg) (fun _ _ h g => h.good g)
      (fun _ _ h g => h.good g) hR.inv.good

end TBA.HOO
end PyXAB
