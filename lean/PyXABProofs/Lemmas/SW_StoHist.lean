/-
  StoSOO: the rewards stored in a cell are exactly the rewards of the rounds which handed out
  that cell (so `visited_times` counts the evaluations of the cell).
-/
import PyXABProofs.Lemmas.SW_StoRun

set_option linter.unusedSectionVars false

namespace PyXAB
namespace StoSOO
open Tree TBA SW

variable {α R S : Type} [Add α] [Sub α] [Mul α] [Div α] [OfNat α 2] [NatCast α]
variable [LinearOrder S] [Inhabited S] [Inhabited R]

/-- History invariant of StoSOO (`H` = (handed-out cell, reward) of the completed rounds). -/
structure HistOK (P : Part α (TBSt R S)) (H : List (Nat × R)) : Prop where
  valid : ∀ e ∈ H, e.1 < P.nodes.length
  rewards : ∀ (i : Nat) (nd : Node α (TBSt R S)), P.nodes[i]? = some nd →
    nd.st.rewards = (H.filter (fun e => decide (e.1 = i))).map (·.2)

theorem HistOK.init (cfg : StoCfg S R) (k : Kind) (domain : Box α) :
    HistOK (init cfg k domain).P ([] : List (Nat × R)) := by
  refine ⟨by simp, ?_⟩
  intro i nd hi
  cases i with
  | zero =>
    simp only [StoSOO.init, Part.init, List.getElem?_cons_zero, Option.some.injEq] at hi
    subst hi; rfl
  | succ i => simp [StoSOO.init, Part.init] at hi

/-- One round keeps the history invariant. -/
theorem HistOK.round (cfg : StoCfg S R) {s s' : StoSOO α R S} {x : Input α R} {v : Nat}
    {H : List (Nat × R)} (hI : Inv cfg s) (hds : ∀ d ∈ x.2.1, DrawOKLen s.P.kind (dimn s.P) d)
    (hH : HistOK s.P H) (hrun : round cfg s x = .ok (s', v)) :
    HistOK s'.P (H ++ [(v, x.2.2)]) := by
  unfold StoSOO.round at hrun
  cases hp : pull cfg s x.1 x.2.1 with
  | error e => simp [hp] at hrun
  | ok res =>
    obtain ⟨s1, ds1, v1⟩ := res
    obtain ⟨tr, hpT⟩ := (pull_ok_iff cfg s x.1 x.2.1 s1 ds1 v1).1 hp
    obtain ⟨⟨h, j, _, hpost⟩, hR, _⟩ := pullT_spec cfg hI hds hpT
    obtain ⟨s2, e2, _, hP2, _⟩ := receive_spec cfg x.2.2 hR
    simp only [hp, e2, Except.ok.injEq, Prod.mk.injEq] at hrun
    obtain ⟨rfl, rfl⟩ := hrun
    have hP2' : s2.P = s1.P.modifySt v1 (recvSt cfg x.2.2) := hP2
    have hlen : s2.P.nodes.length = s1.P.nodes.length := by
      rw [hP2']; exact (PRel_modifySt s1.P v1 _).len
    obtain ⟨_, _, _, _, _, _, _, _, _, vn, hvn, _⟩ := hR
    refine ⟨?_, ?_⟩
    · intro e he
      rw [hlen]
      rcases List.mem_append.1 he with he | he
      · exact Nat.lt_of_lt_of_le (hH.valid e he) hpost.ext.len
      · simp only [List.mem_singleton] at he
        subst he
        exact lt_length_of_getElem? hvn
    · intro i nd hi
      rw [hP2', getElem?_modifySt] at hi
      cases h1 : s1.P.nodes[i]? with
      | none => rw [h1] at hi; simp at hi
      | some x1 =>
        rw [h1] at hi
        simp only [Option.map_some, Option.some.injEq] at hi
        -- the rewards of cell `i` after the `pull`
        have hr1 : x1.st.rewards = (H.filter (fun e => decide (e.1 = i))).map (·.2) := by
          by_cases hlt : i < s.P.nodes.length
          · obtain ⟨x0, h0⟩ : ∃ x0, s.P.nodes[i]? = some x0 := ⟨_, List.getElem?_eq_getElem hlt⟩
            obtain ⟨y, b1, _, _, _, _, _, b7⟩ := hpost.ext.old i x0 h0
            obtain rfl := getElem?_inj b1 h1
            rw [b7.count_rewards.2]; exact hH.rewards i x0 h0
          · have := hpost.ext.new i x1 (by omega) h1
            rw [this.count_rewards.2]
            have hnil : H.filter (fun e => decide (e.1 = i)) = [] := by
              rw [List.filter_eq_nil_iff]
              intro e he
              have := hH.valid e he
              simp only [decide_eq_true_eq]; omega
            rw [hnil]; rfl
        rw [List.filter_append, List.map_append, ← hr1]
        by_cases hvi : v1 = i
        · subst hvi
          simp only [if_true] at hi
          subst hi
          simp [recvSt]
        · simp only [hvi, if_false] at hi
          subst hi
          simp [hvi]

/-- The history invariant over a run. -/
theorem runRounds_hist (cfg : StoCfg S R) : ∀ (inputs : List (Input α R)) (s s' : StoSOO α R S)
    (H0 H : List (Nat × R)), Inv cfg s →
    (∀ x ∈ inputs, ∀ d ∈ x.2.1, DrawOKLen s.P.kind (dimn s.P) d) → HistOK s.P H0 →
    runRounds cfg s inputs = .ok (s', H) → HistOK s'.P (H0 ++ H)
  | [], s, s', H0, H, _, _, hH, hrun => by
    simp only [runRounds, Except.ok.injEq, Prod.mk.injEq] at hrun
    obtain ⟨rfl, rfl⟩ := hrun
    simpa using hH
  | x :: rest, s, s', H0, H, hI, hds, hH, hrun => by
    unfold runRounds at hrun
    cases hr : round cfg s x with
    | error e => simp [hr] at hrun
    | ok res =>
      obtain ⟨s1, v⟩ := res
      simp only [hr] at hrun
      obtain ⟨a, b, c, _⟩ := round_inv cfg hI (hds x (List.mem_cons_self ..)) hr
      cases hrec : runRounds cfg s1 rest with
      | error e => simp [hrec] at hrun
      | ok res =>
        obtain ⟨s2, H2⟩ := res
        simp only [hrec, Except.ok.injEq, Prod.mk.injEq] at hrun
        obtain ⟨rfl, rfl⟩ := hrun
        have := runRounds_hist cfg rest s1 s2 _ H2 a
          (fun y hy dr hdr => by rw [b, c]; exact hds y (List.mem_cons_of_mem _ hy) dr hdr)
          (HistOK.round cfg hI (hds x (List.mem_cons_self ..)) hH hr) hrec
        simpa using this

end StoSOO
end PyXAB
