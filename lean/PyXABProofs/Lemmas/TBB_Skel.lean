/-
  Payload-only updates of the partition arena: `Skel P Q` (same tree skeleton), `Upd P Q F`
  (`Q` is `P` with the payload of node `j` replaced by `F j nd`), transfer of `Tree.WF`, and
  the folds of `modifySt` used by the tree bandits.
-/
import PyXABProofs.Lemmas.TreeOps
import PyXABProofs.Spec.TBIndex

namespace PyXAB
namespace TBB

open Tree

variable {α σ : Type}

/-- forget the payload of a node -/
def forget (nd : Node α σ) : Node α Unit := { nd with st := () }

/-- `Q` has the same tree skeleton as `P`: only the payloads `st` may differ. -/
structure Skel (P Q : Part α σ) : Prop where
  kind : Q.kind = P.kind
  layers : Q.layers = P.layers
  depth : Q.depth = P.depth
  node : ∀ j : Nat, (Q.nodes[j]?).map forget = (P.nodes[j]?).map forget

namespace Skel
variable {P Q T : Part α σ}

theorem refl (P : Part α σ) : Skel P P := ⟨rfl, rfl, rfl, fun _ => rfl⟩

theorem symm (h : Skel P Q) : Skel Q P :=
  ⟨h.kind.symm, h.layers.symm, h.depth.symm, fun j => (h.node j).symm⟩

theorem trans (h1 : Skel P Q) (h2 : Skel Q T) : Skel P T :=
  ⟨h2.kind.trans h1.kind, h2.layers.trans h1.layers, h2.depth.trans h1.depth,
    fun j => (h2.node j).trans (h1.node j)⟩

/-- forward reading of `Skel`: the node at the same id with the same skeleton fields. -/
theorem fwd (h : Skel P Q) {j : Nat} {nd : Node α σ} (hj : P.nodes[j]? = some nd) :
    ∃ st', Q.nodes[j]? = some { nd with st := st' } := by
  have := h.node j
  rw [hj] at this
  cases hq : Q.nodes[j]? with
  | none => simp [hq] at this
  | some nd' =>
    simp only [hq, Option.map_some, Option.some.injEq, forget, Node.mk.injEq] at this
    refine ⟨nd'.st, ?_⟩
    obtain ⟨a, b, c, d, e, _⟩ := this
    cases nd'; cases nd
    simp only [Option.some.injEq, Node.mk.injEq] at *
    exact ⟨a, b, c, d, e, trivial⟩

theorem bwd (h : Skel P Q) {j : Nat} {nd' : Node α σ} (hj : Q.nodes[j]? = some nd') :
    ∃ nd, P.nodes[j]? = some nd ∧ nd' = { nd with st := nd'.st } := by
  obtain ⟨st, hst⟩ := h.symm.fwd hj
  exact ⟨_, hst, rfl⟩

theorem len (h : Skel P Q) : Q.nodes.length = P.nodes.length := by
  have key : ∀ {P Q : Part α σ}, Skel P Q → P.nodes.length ≤ Q.nodes.length := by
    intro P Q h
    apply Nat.le_of_not_lt
    intro hlt
    have hn : P.nodes.length - 1 < P.nodes.length := by omega
    obtain ⟨st, hst⟩ := h.fwd (List.getElem?_eq_getElem hn)
    have := lt_length_of_getElem? hst
    omega
  exact Nat.le_antisymm (key h.symm) (key h)

theorem dimn_eq (h : Skel P Q) : dimn Q = dimn P := by
  unfold dimn
  cases hp : P.nodes[0]? with
  | none =>
    cases hq : Q.nodes[0]? with
    | none => rfl
    | some nd' => obtain ⟨nd, h1, _⟩ := h.bwd hq; simp [hp] at h1
  | some nd =>
    obtain ⟨st, hst⟩ := h.fwd hp
    simp only [hst]

theorem K_eq (h : Skel P Q) : K Q = K P := by
  simp only [K, h.dimn_eq, h.kind]

/-- `WF` only depends on the skeleton. -/
theorem wf (h : Skel P Q) (W : WF P) : WF Q where
  root := by
    obtain ⟨r, hr, h1, h2, h3⟩ := W.root
    obtain ⟨st, hst⟩ := h.fwd hr
    exact ⟨_, hst, h1, h2, h3⟩
  boxlen := by
    intro i nd' hi
    obtain ⟨nd, h1, h2⟩ := h.bwd hi
    rw [h2, h.dimn_eq]
    exact W.boxlen i nd h1
  parent := by
    intro c nd' hc hi
    obtain ⟨nd, h1, h2⟩ := h.bwd hi
    obtain ⟨p, pn, cs, a1, a2, a3, a4, a5, a6⟩ := W.parent c nd hc h1
    obtain ⟨st, hst⟩ := h.fwd a3
    refine ⟨p, _, cs, ?_, a2, hst, a4, a5, ?_⟩
    · rw [h2]; exact a1
    · rw [h2]; exact a6
  children := by
    intro p pn' cs hp hcs
    obtain ⟨pn, h1, h2⟩ := h.bwd hp
    rw [h2] at hcs
    obtain ⟨a1, a, a2, a3, a4, a5⟩ := W.children p pn cs h1 hcs
    rw [h.K_eq, h.len]
    refine ⟨a1, a, a2, a3, a4, fun j hj => ?_⟩
    obtain ⟨cn, c1, c2, c3⟩ := a5 j hj
    obtain ⟨st, hst⟩ := h.fwd c1
    refine ⟨_, hst, c2, ?_⟩
    rw [h2]; exact c3
  index_pos := by
    intro i nd' hi
    obtain ⟨nd, h1, h2⟩ := h.bwd hi
    rw [h2]; exact W.index_pos i nd h1
  layers_len := by rw [h.layers, h.depth]; exact W.layers_len
  layers_mem := by
    intro d l hl
    rw [h.layers] at hl
    obtain ⟨a1, a2, a3⟩ := W.layers_mem d l hl
    refine ⟨a1, a2, fun i => ?_⟩
    rw [a3]
    constructor
    · rintro ⟨nd, h1, h2⟩
      obtain ⟨st, hst⟩ := h.fwd h1
      exact ⟨_, hst, h2⟩
    · rintro ⟨nd', h1, h2⟩
      obtain ⟨nd, g1, g2⟩ := h.bwd h1
      refine ⟨nd, g1, ?_⟩
      rw [g2] at h2; exact h2
  depth_le := by
    intro i nd' hi
    obtain ⟨nd, h1, h2⟩ := h.bwd hi
    rw [h2, h.depth]; exact W.depth_le i nd h1

end Skel

/-- `Q` is `P` with the payload of every node `j` (value `nd`) replaced by `F j nd`. -/
structure Upd (P Q : Part α σ) (F : Nat → Node α σ → σ) : Prop where
  kind : Q.kind = P.kind
  layers : Q.layers = P.layers
  depth : Q.depth = P.depth
  node : ∀ j : Nat, Q.nodes[j]? = (P.nodes[j]?).map (fun nd => { nd with st := F j nd })

namespace Upd
variable {P Q T : Part α σ} {F F' : Nat → Node α σ → σ}

theorem skel (h : Upd P Q F) : Skel P Q :=
  ⟨h.kind, h.layers, h.depth, fun j => by
    rw [h.node j]; cases P.nodes[j]? <;> rfl⟩

theorem refl (P : Part α σ) : Upd P P (fun _ nd => nd.st) :=
  ⟨rfl, rfl, rfl, fun j => by cases P.nodes[j]? <;> rfl⟩

theorem get (h : Upd P Q F) {j : Nat} {nd : Node α σ} (hj : P.nodes[j]? = some nd) :
    Q.nodes[j]? = some { nd with st := F j nd } := by
  rw [h.node j, hj]; rfl

theorem get_inv (h : Upd P Q F) {j : Nat} {nd' : Node α σ} (hj : Q.nodes[j]? = some nd') :
    ∃ nd, P.nodes[j]? = some nd ∧ nd' = { nd with st := F j nd } := by
  rw [h.node j] at hj
  cases hp : P.nodes[j]? with
  | none => simp [hp] at hj
  | some nd =>
    rw [hp] at hj
    exact ⟨nd, rfl, (Option.some.inj hj).symm⟩

theorem congr (h : Upd P Q F) (hF : ∀ j nd, P.nodes[j]? = some nd → F j nd = F' j nd) :
    Upd P Q F' :=
  ⟨h.kind, h.layers, h.depth, fun j => by
    rw [h.node j]
    cases hp : P.nodes[j]? with
    | none => rfl
    | some nd => simp only [Option.map_some, hF j nd hp]⟩

theorem comp (h1 : Upd P Q F) (h2 : Upd Q T F') :
    Upd P T (fun j nd => F' j { nd with st := F j nd }) :=
  ⟨h2.kind.trans h1.kind, h2.layers.trans h1.layers, h2.depth.trans h1.depth, fun j => by
    rw [h2.node j, h1.node j]
    cases P.nodes[j]? <;> rfl⟩

theorem of_eq_nodes (P : Part α σ) (i : Nat) (f : Node α σ → σ) :
    Upd P (P.modifyNode i (fun nd => { nd with st := f nd }))
      (fun j nd => if j = i then f nd else nd.st) :=
  ⟨rfl, rfl, rfl, fun j => by
    simp only [Part.modifyNode, List.getElem?_modify]
    cases P.nodes[j]? with
    | none => rfl
    | some nd =>
      by_cases hji : j = i
      · subst hji; simp
      · have : ¬ i = j := fun e => hji e.symm
        simp [hji, this]⟩

end Upd

/-- `modifySt` as an `Upd`. -/
theorem modifySt_upd (P : Part α σ) (i : Nat) (f : σ → σ) :
    Upd P (P.modifySt i f) (fun j nd => if j = i then f nd.st else nd.st) :=
  Upd.of_eq_nodes P i (fun nd => f nd.st)

/-- the guarded one-node update used by `forListed`, `refreshTau` -/
theorem guarded_upd (P : Part α σ) (i : Nat) (g : Node α σ → σ → σ) :
    Upd P (match P.nodes[i]? with
           | none => P
           | some nd => P.modifySt i (g nd))
      (fun j nd => if j = i then g nd nd.st else nd.st) := by
  cases hi : P.nodes[i]? with
  | none =>
    refine (Upd.refl P).congr (fun j nd hj => ?_)
    have : j ≠ i := by rintro rfl; simp [hi] at hj
    simp [this]
  | some nd0 =>
    refine (modifySt_upd P i (g nd0)).congr (fun j nd hj => ?_)
    by_cases hji : j = i
    · subst hji
      obtain rfl := getElem?_inj hi hj
      simp
    · simp [hji]

/-- `guarded_upd` for an arbitrary presentation of the guarded update (independent of the
auxiliary matcher the `match` was compiled to) -/
theorem guarded_upd' {P Q : Part α σ} {i : Nat} (g : Node α σ → σ → σ)
    (hnone : P.nodes[i]? = none → Q = P)
    (hsome : ∀ nd, P.nodes[i]? = some nd → Q = P.modifySt i (g nd)) :
    Upd P Q (fun j nd => if j = i then g nd nd.st else nd.st) := by
  have h := guarded_upd P i g
  cases hi : P.nodes[i]? with
  | none => rw [hnone hi]; simpa only [hi] using h
  | some nd => rw [hsome nd hi]; simpa only [hi] using h

/-- A fold of one-node updates over a duplicate-free id list, when the new payload of a node
only depends on the node itself. -/
theorem foldl_upd (step : Part α σ → Nat → Part α σ) (G : Node α σ → σ)
    (hstep : ∀ P id, Upd P (step P id) (fun j nd => if j = id then G nd else nd.st)) :
    ∀ (l : List Nat), l.Nodup → ∀ P : Part α σ,
      Upd P (l.foldl step P) (fun j nd => if j ∈ l then G nd else nd.st)
  | [], _, P => by
    simpa using Upd.refl P
  | id :: l, hl, P => by
    rw [List.nodup_cons] at hl
    have h1 := hstep P id
    have h2 := foldl_upd step G hstep l hl.2 (step P id)
    rw [List.foldl_cons]
    refine (h1.comp h2).congr (fun j nd _ => ?_)
    by_cases hjl : j ∈ l
    · have hne : j ≠ id := by rintro rfl; exact hl.1 hjl
      simp [hjl, hne]
    · by_cases hji : j = id
      · simp [hji, hl.1]
      · simp [hjl, hji]

/-! ### Consequences of `WF` used by the bandits -/

theorem WF.listed_iff_valid {P : Part α σ} (W : WF P) (i : Nat) :
    i ∈ P.layers.flatten ↔ i < P.nodes.length := by
  rw [List.mem_flatten]
  constructor
  · rintro ⟨l, hl, hi⟩
    obtain ⟨h, hh⟩ := List.mem_iff_getElem?.1 hl
    obtain ⟨nd, h1, _⟩ := ((W.layers_mem h l hh).2.2 i).1 hi
    exact lt_length_of_getElem? h1
  · intro hi
    have hnd : P.nodes[i]? = some P.nodes[i] := List.getElem?_eq_getElem hi
    have hd := W.depth_le i _ hnd
    have hlt : P.nodes[i].depth < P.layers.length := by rw [W.layers_len]; omega
    refine ⟨P.layers[P.nodes[i].depth], List.getElem_mem hlt, ?_⟩
    exact ((W.layers_mem _ _ (List.getElem?_eq_getElem hlt)).2.2 i).2 ⟨_, hnd, rfl⟩

/-- `forListed` replaces the payload of every node by `f nd`. -/
theorem forListed_upd {P : Part α σ} (W : WF P) (f : Node α σ → σ) :
    Upd P (forListed P f) (fun _ nd => f nd) := by
  have h := foldl_upd (fun (P : Part α σ) id =>
      match P.nodes[id]? with
      | none => P
      | some nd => P.modifySt id (fun _ => f nd)) f
    (fun P id => guarded_upd P id (fun nd _ => f nd)) P.layers.flatten W.layers_nodup P
  refine h.congr (fun j nd hj => ?_)
  have : j ∈ P.layers.flatten := (WF.listed_iff_valid W j).2 (lt_length_of_getElem? hj)
  simp [this]

theorem stOf_eq {P : Part α σ} [Inhabited σ] {i : Nat} {nd : Node α σ}
    (h : P.nodes[i]? = some nd) : P.stOf i = nd.st := by
  simp [Part.stOf, h]

theorem stOf_congr {P Q : Part α σ} [Inhabited σ] {i : Nat}
    (h : Q.nodes[i]? = P.nodes[i]?) : Q.stOf i = P.stOf i := by
  simp [Part.stOf, h]

end TBB
end PyXAB
