/-
  C01 for SequOOL: `pull` splits at most one cell (the cell being opened, when it is still a
  leaf), `receive` only appends a reward; the documented loop hands out valid cells only.
-/
import PyXABProofs.Lemmas.TT_Box
import PyXABProofs.Props.C12

set_option linter.unusedSectionVars false
set_option linter.unusedVariables false

namespace PyXAB
namespace TT
namespace SQ
open _root_.PyXAB.Tree TBA PyXAB.SQ
variable {α S : Type} [Field α] [LinearOrder α] [IsStrictOrderedRing α]
variable [LinearOrder S] [Inhabited S]

/-- `pull` keeps the invariant, provided that — IF the cell being opened is still a leaf — the
first draw fits its box. -/
theorem pull_dom (negInf : S) {k : Kind} {root : Box α} {s s1 : SequOOL α S} {t : Nat}
    {ds ds1 : List (Draw α)} {v : Nat} (hD : DomInv k root s.P)
    (hS : ∀ tgt nd, SQ.targetOf negInf s = some tgt → s.P.nodes[tgt]? = some nd →
      nd.children = none → HeadFits k root nd.box ds)
    (h : SequOOL.pull negInf s t ds = .ok (s1, ds1, v)) : DomInv k root s1.P ∧ Keeps s.P s1.P := by
  unfold SequOOL.pull at h
  dsimp only at h
  split at h
  · obtain ⟨⟨tgt, num⟩, htn, h2⟩ := bind_ok h
    clear h
    rename' h2 => h
    dsimp only at h
    have htgt : SQ.targetOf negInf s = some tgt := by
      unfold SQ.targetOf
      split at htn
      · rename_i h0
        simp only [h0, if_true]
        split at htn
        · simp only [Except.ok.injEq, Prod.mk.injEq] at htn
          rename_i heq
          simp only [heq, htn.1]
        · cases htn
      · rename_i h0
        simp only [h0, if_false]
        split at htn
        · cases htn
        · rename_i layer heq
          simp only [heq]
          obtain ⟨⟨n, mo⟩, hsc, htn⟩ := bind_ok htn
          dsimp only at htn
          split at htn
          · cases htn
          · rename_i m
            simp only [Except.ok.injEq, Prod.mk.injEq] at htn
            simp only [hsc]
            rw [htn.1]
    cases hn : s.P.nodes[tgt]? with
    | none => simp [hn] at h
    | some nd =>
      simp only [hn] at h
      obtain ⟨⟨P1, ds2⟩, hm, h⟩ := bind_ok h
      dsimp only at h
      have h1 : DomInv k root P1 ∧ Keeps s.P P1 := by
        split at hm
        · rename_i hleaf
          have hleaf' : nd.children = none := by
            cases hc : nd.children with
            | none => rfl
            | some cs => simp [hc] at hleaf
          exact makeChildrenD_dom hD (fun nd' hn' => by
            rw [hn] at hn'; cases hn'; exact hS tgt nd htgt hn hleaf') hm
        · simp only [Except.ok.injEq, Prod.mk.injEq] at hm
          obtain ⟨rfl, _⟩ := hm
          exact ⟨hD, Keeps.refl _⟩
      have hgeo : Geo P1 s1.P := by
        repeat' split at h
        all_goals
          cases h
          try dsimp only
          try first | exact Geo.refl _ | exact Geo.modifySt _ _ _
      exact ⟨DomInv.of_prel hgeo h1.1, h1.2.trans (Keeps.of_prel hgeo)⟩
  · split at h
    · simp only [Except.ok.injEq, Prod.mk.injEq] at h
      obtain ⟨rfl, _, _⟩ := h
      exact ⟨hD, Keeps.refl _⟩
    · cases h

theorem receive_geo {s s' : SequOOL α S} {r : S} (h : SequOOL.receive s r = .ok s') :
    Geo s.P s'.P := by
  unfold SequOOL.receive at h
  split at h
  · cases h
  · simp only [Except.ok.injEq] at h
    subst h
    dsimp only
    exact Geo.modifySt s.P _ _

theorem round_ok {negInf : S} {s s2 : SequOOL α S} {t v : Nat} {r : S} {ds : List (Draw α)}
    (h : round negInf s t r ds = .ok (s2, v)) :
    ∃ s1 ds1, SequOOL.pull negInf s t ds = .ok (s1, ds1, v) ∧ SequOOL.receive s1 r = .ok s2 := by
  unfold round at h
  split at h
  · cases h
  · rename_i s1 ds1 v1 hp
    split at h
    · cases h
    · rename_i s2' hr
      simp only [Except.ok.injEq, Prod.mk.injEq] at h
      obtain ⟨rfl, rfl⟩ := h
      exact ⟨s1, ds1, hp, hr⟩

theorem runRounds_dom {negInf : S} (hbot : ∀ x : S, negInf ≤ x) {k : Kind} {root : Box α} :
    ∀ (inputs : List (S × List (Draw α))) (s : SequOOL α S) (t : Nat), Inv negInf s →
      DomInv k root s.P → SQ.InputsOK k root.length inputs → GoodDraws negInf k root s t inputs →
      ∃ s' H, runRounds negInf s t inputs = .ok (s', H) ∧ Inv negInf s' ∧ DomInv k root s'.P ∧
        Keeps s.P s'.P ∧ H.map (·.2) = inputs.map (·.1) ∧ s'.hmax = s.hmax ∧
        ∀ e ∈ H, PointOK root s'.P e.1
  | [], s, t, hI, hD, _, _ =>
    ⟨s, [], rfl, hI, hD, Keeps.refl _, rfl, rfl, fun _ h => by cases h⟩
  | (r, ds) :: rest, s, t, hI, hD, hin, hG => by
    have hdim : dimn s.P = root.length := dimn_of_boxInv hI.wf hD.box
    have hds : HeadOK s.P.kind (dimn s.P) ds := by
      rw [hD.kind, hdim]; exact hin (r, ds) (List.mem_cons_self ..)
    obtain ⟨s2, v, hround, hI2, hm2, _, _, hex, hsr⟩ := round_inv hbot hI t r hds
    obtain ⟨s1, ds1, hp, hr⟩ := round_ok hround
    obtain ⟨hS, hG'⟩ := hG
    obtain ⟨hD1, hK1⟩ := pull_dom negInf hD hS hp
    have g12 := receive_geo hr
    have hD2 := DomInv.of_prel g12 hD1
    obtain ⟨s', H, hrun, hI', hD', hK', hH, hm', hpts⟩ := runRounds_dom hbot rest s2 (t + 1)
      hI2 hD2 (fun y hy => hin y (List.mem_cons_of_mem _ hy)) (hG' s1 ds1 v s2 hp hr)
    have hv : v < s2.P.nodes.length := by
      by_cases he : Exhausted s
      · rw [(hex he).1]; exact hI2.wf.length_pos
      · obtain ⟨e1, e2, _⟩ := hsr he
        have hlen := hI2.len
        have : s2.chosen.length = v := by rw [e2, List.length_append, e1]; simp
        omega
    refine ⟨s', (v, r) :: H, ?_, hI', hD', ?_, ?_, hm'.trans hm2, ?_⟩
    · simp only [runRounds, hround, hrun]
    · exact (hK1.trans (Keeps.of_prel g12)).trans hK'
    · simp [hH]
    · intro e he
      rcases List.mem_cons.1 he with rfl | he
      · exact (hD2.pointOK hv).keeps hK'
      · exact hpts e he

theorem goodDraws_of_det (negInf : S) {k : Kind} (hk : Kind.Deterministic k) {root : Box α} :
    ∀ (inputs : List (S × List (Draw α))) (s : SequOOL α S) (t : Nat),
      SQ.InputsOK k root.length inputs → GoodDraws negInf k root s t inputs
  | [], _, _, _ => trivial
  | (r, ds) :: rest, s, t, hin => by
    refine ⟨fun tgt nd _ _ _ => ?_, fun s1 ds1 v s2 _ _ =>
      goodDraws_of_det negInf hk rest s2 (t + 1) (fun y hy => hin y (List.mem_cons_of_mem _ hy))⟩
    have h := hin (r, ds) (List.mem_cons_self ..)
    cases ds with
    | nil => trivial
    | cons d ds' => exact drawFits_of_det hk h

theorem lastScan_valid (P : Part α (SqSt S)) :
    ∀ (l : List Nat) (maxv : S) (maxn r : Option Nat),
      SequOOL.lastScan P l maxv maxn = .ok r → (∀ w, maxn = some w → w < P.nodes.length) →
      ∀ w, r = some w → w < P.nodes.length
  | [], _, maxn, r, h, hm, w, hw => by
    simp only [SequOOL.lastScan, Except.ok.injEq] at h
    exact hm w (h ▸ hw)
  | id :: rest, maxv, maxn, r, h, hm, w, hw => by
    unfold SequOOL.lastScan at h
    split at h
    · cases h
    · rename_i nd hn
      split at h
      · cases h
      · split at h
        · exact lastScan_valid P rest _ _ r h (fun w' hw' => by
            cases hw'; exact lt_length_of_getElem? hn) w hw
        · exact lastScan_valid P rest _ _ r h hm w hw

/-- the recommendation is a cell of the tree -/
theorem lastPoint_valid (negInf : S) {s : SequOOL α S} {v : Nat}
    (h : SequOOL.lastPoint negInf s = .ok v) : v < s.P.nodes.length := by
  unfold SequOOL.lastPoint at h
  obtain ⟨r, hs, h⟩ := bind_ok h
  split at h
  · simp only [Except.ok.injEq] at h
    subst h
    exact lastScan_valid s.P _ _ _ _ hs (fun w hw => by cases hw) _ rfl
  · cases h

end SQ
end TT
end PyXAB
