/-
  The user-level statements about one round `pull; receive` of VROOM, assembled from the
  component lemmas.
-/
import PyXABProofs.Lemmas.VR_Pull

set_option linter.unusedSectionVars false

namespace PyXAB
namespace VR
open _root_.PyXAB.Tree TBA VROOM

section geo
variable {α σ : Type} [LinearOrder α]

/-- every cell is contained in the root cell -/
theorem Geo.sub_root {P : Part α σ} (W : WF P) (G : Geo P) : ∀ (i : Nat) (nd r : Node α σ),
    P.nodes[i]? = some nd → P.nodes[0]? = some r → Box.Subset nd.box r.box := by
  intro i
  induction i using Nat.strongRecOn with
  | _ i ih =>
    intro nd r hi hr
    by_cases h0 : i = 0
    · subst h0
      obtain rfl := getElem?_inj hi hr
      exact Box.Subset.refl _
    · obtain ⟨p, pn, cs, p1, p2, p3, _⟩ := W.parent i nd (Nat.pos_of_ne_zero h0) hi
      exact (G.sub i nd p pn hi p1 p3).trans (ih p p2 pn r p3 hr)

theorem boxOf_eq {P : Part α σ} {c : Nat} {nd : Node α σ} (h : P.nodes[c]? = some nd) :
    boxOf P c = nd.box := by
  simp [boxOf, h]

end geo

section main
variable {α R S : Type} [Field α] [LinearOrder α] [IsStrictOrderedRing α] [LinearOrder S]

/-- **`pull`**: totality and the complete description of the result. -/
theorem pull_facts (cfg : VrCfg R S) (s : VROOM α R S) (time : Nat) (dr : VDraw α)
    (T : TInv cfg.sd s.P) (hOK : ProbAccepted cfg s) (hdr : PullDrawsOK cfg s dr) :
    ∃ s' last P1 h l node path, pull cfg s time dr = .ok (s', last, dr.pt) ∧
      PullFacts cfg s time dr s' last P1 h l node path := by
  obtain ⟨P1, h, l, node, P2, last, path, m, Rk, hidx, hnode, hh, hnd, T1, T2, Gr, hp, hl⟩ :=
    pull_spec cfg s time dr T hOK hdr.choice hdr.desc
  refine ⟨_, last, P1, h, l, node, path, m, Rk, hidx, hh, hnode, hnd, ?_, rfl, rfl, rfl, rfl, T1,
    T2, Gr, hp, hl⟩
  obtain ⟨_, _, node', h1, h2⟩ := weight_at (P' := P1) hidx
  obtain rfl : node' = node := by rw [hnode] at h1; exact (Option.some.inj h1).symm
  exact h2

variable {cfg : VrCfg R S} {s s' : VROOM α R S} {time : Nat} {dr : VDraw α} {last : Nat}
  {P1 : Part α (VrSt R S)} {h l node : Nat} {path : List Nat}

/-- the drawn cell, as a node of the final arena -/
theorem PullFacts.node_final (F : PullFacts cfg s time dr s' last P1 h l node path) :
    ∃ n0 nn, s.P.nodes[node]? = some n0 ∧ s'.P.nodes[node]? = some nn ∧ nn.depth = h ∧
      nn.box = n0.box ∧ nn.st.rewards = n0.st.rewards := by
  obtain ⟨n1, h1, h2⟩ := F.cell_depth
  obtain ⟨n0, a0, a1, a2, _⟩ := F.ranked.toPRel.bwd h1
  obtain ⟨nn, g0, g1, _, _, g4, g5, _⟩ := F.grow.old node n1 h1
  exact ⟨n0, nn, a0, g0, g1.trans h2, g4.trans a1.box, by rw [g5]; exact a2⟩

/-- **The path**: the update list has no repetitions and names valid cells; the returned cell
is its last element, has depth `max h hmax`, and its box is contained in the box of the drawn
cell. -/
theorem PullFacts.path_facts (F : PullFacts cfg s time dr s' last P1 h l node path) :
    s'.updateList.Nodup ∧ (∀ id ∈ s'.updateList, id < s'.P.nodes.length) ∧
    last = s'.updateList.getLast (by rw [F.updateList]; simp) ∧
    ∃ nn ln, s'.P.nodes[node]? = some nn ∧ nn.depth = h ∧ s'.P.nodes[last]? = some ln ∧
      ln.depth = max h cfg.hmax ∧ Box.Subset ln.box nn.box ∧
      (∀ c ∈ path, ∃ cn, s'.P.nodes[c]? = some cn ∧ h < cn.depth ∧
        Box.Subset cn.box nn.box) := by
  obtain ⟨_, nn, _, n1, n2, _⟩ := F.node_final
  obtain ⟨⟨ln, l1, l2, l3⟩, hall, hnd⟩ :=
    IsPath.facts F.tinv.wf F.tinv.geo path node last nn n1 F.isPath
  refine ⟨by rw [F.updateList]; exact hnd, ?_, ?_, nn, ln, n1, n2, l1,
    by rw [l2, n2, F.steps]; omega, l3, fun c hc => ?_⟩
  · intro id hid
    rw [F.updateList] at hid
    rcases List.mem_cons.1 hid with rfl | hid
    · exact lt_length_of_getElem? n1
    · obtain ⟨cn, c1, _⟩ := hall id hid
      exact lt_length_of_getElem? c1
  · simp only [F.updateList]
    exact IsPath.getLast path node last F.isPath
  · obtain ⟨cn, c1, c2, c3⟩ := hall c hc
    exact ⟨cn, c1, by omega, c3⟩

/-- **`point_in_drawn_cell`**: a point of the box of the returned cell lies in the drawn cell
(whose box is the one it had before the `pull`) and in the root cell. -/
theorem PullFacts.point (F : PullFacts cfg s time dr s' last P1 h l node path) {pt : List α}
    (hpt : Box.Mem (boxOf s'.P last) pt) :
    Box.Mem (boxOf s'.P node) pt ∧ Box.Mem (boxOf s'.P 0) pt ∧
      boxOf s'.P node = boxOf s.P node ∧ boxOf s'.P 0 = boxOf s.P 0 := by
  obtain ⟨_, _, _, nn, ln, n1, _, l1, _, hsub, _⟩ := F.path_facts
  obtain ⟨n0, nn', a0, n1', _, hb, _⟩ := F.node_final
  obtain rfl := getElem?_inj n1 n1'
  obtain ⟨r, r0, _⟩ := F.tinv.wf.root
  rw [boxOf_eq l1] at hpt
  have hm : Box.Mem nn.box pt := Box.mem_of_subset hsub hpt
  have hroot : boxOf s'.P 0 = boxOf s.P 0 := by
    obtain ⟨q, q0, _⟩ := F.tinv1.wf.root
    obtain ⟨q', g0, _, _, _, g4, _⟩ := F.grow.old 0 q q0
    obtain ⟨q00, c0, c1, _⟩ := F.ranked.toPRel.bwd q0
    rw [boxOf_eq g0, boxOf_eq c0, g4, c1.box]
  refine ⟨by rw [boxOf_eq n1]; exact hm, ?_, by rw [boxOf_eq n1, boxOf_eq a0, hb], hroot⟩
  rw [boxOf_eq r0]
  exact Box.mem_of_subset (Geo.sub_root F.tinv.wf F.tinv.geo node nn r n1 r0) hm

/-- **Frame of `pull`**: the layers `≤ search_depth` are unchanged; every cell that existed
before keeps its tree position, box, rewards and `tilde`, and stays internal if it was; the
cells created by the descent carry the empty payload and lie strictly below `search_depth`. -/
theorem PullFacts.frame (F : PullFacts cfg s time dr s' last P1 h l node path) :
    (∀ h', h' ≤ cfg.sd → s'.P.layers[h']? = s.P.layers[h']?) ∧
    s'.P.kind = s.P.kind ∧ dimn s'.P = dimn s.P ∧ K s'.P = K s.P ∧
    (∀ (i : Nat) (nd : Node α (VrSt R S)), s.P.nodes[i]? = some nd →
      ∃ nd', s'.P.nodes[i]? = some nd' ∧ nd'.depth = nd.depth ∧ nd'.index = nd.index ∧
        nd'.parent = nd.parent ∧ nd'.box = nd.box ∧ nd'.st.rewards = nd.st.rewards ∧
        nd'.st.tilde = nd.st.tilde ∧ (nd.children ≠ none → nd'.children = nd.children)) ∧
    (∀ (i : Nat) (nd' : Node α (VrSt R S)), s'.P.nodes[i]? = some nd' → s.P.nodes.length ≤ i →
      cfg.sd < nd'.depth ∧ nd'.st = st0) := by
  have hR := F.ranked.toPRel
  refine ⟨fun h' hh' => ?_, F.grow.kind.trans hR.kind, F.grow.dimn.trans hR.dimn_eq,
    F.grow.K_eq.trans hR.K_eq, fun i nd hi => ?_, fun i nd' hi hle => ?_⟩
  · rw [F.grow.layers h' hh', F.ranked.layers]
  · obtain ⟨b, b0, b1, b2, b3⟩ := hR.node i nd hi
    obtain ⟨c, c0, c1, c2, c3, c4, c5, c6⟩ := F.grow.old i b b0
    refine ⟨c, c0, c1.trans b1.depth, c2.trans b1.index, c3.trans b1.parent, c4.trans b1.box,
      by rw [c5]; exact b2, by rw [c5]; exact b3, fun hn => ?_⟩
    rw [c6 (by rw [b1.children]; exact hn), b1.children]
  · exact F.grow.new i nd' hi (by rw [F.ranked.len]; exact hle)

/-- layer sizes for arity 2 -/
theorem layers_two {sd : Nat} {P : Part α (VrSt R S)} (T : TInv sd P) (hK : K P = 2) :
    ∀ h', h' ≤ sd → (layerAt P h').length = 2 ^ h' := by
  intro h' hh'
  obtain ⟨lay, h1, h2⟩ := layersPow_of_internal T.wf T.deep T.internal h' hh'
  rw [layerAt_eq h1, h2, hK]

/-- **`pull` leaves what `receive` needs** (arity 2). -/
theorem PullFacts.post (F : PullFacts cfg s time dr s' last P1 h l node path)
    (T : TInv cfg.sd s.P) (hK : K s.P = 2) : PullPost cfg s' := by
  obtain ⟨h1, h2, _⟩ := F.path_facts
  refine ⟨h1, h2, ?_⟩
  rw [F.prob_eq]
  exact length_probList (fun h' _ hh' => layers_two T hK h' hh')

/-- **The weights of arity 2** (no field structure needed): the index list is
`[(h, l) | h = 1..sd, l < 2^h]` in lexicographic order and there are `Σ 2^h` weights. -/
theorem PullFacts.index2 (F : PullFacts cfg s time dr s' last P1 h l node path)
    (T : TInv cfg.sd s.P) (hK : K s.P = 2) :
    idxList cfg.sd s.P = indexList cfg.sd ∧ s'.prob.length = cumIdx cfg.sd ∧
      dr.choice < cumIdx cfg.sd := by
  have hL : ∀ h', 1 ≤ h' → h' ≤ cfg.sd → (layerAt s.P h').length = 2 ^ h' :=
    fun h' _ hh' => layers_two T hK h' hh'
  refine ⟨idxList_eq hL, (F.post T hK).problen, ?_⟩
  rw [← length_idxList hL]
  exact lt_length_of_getElem? F.drawn

/-- `receive` keeps the tree invariant (payload-only update). -/
theorem TInv.of_PRel {ρ : Nat → Node α (VrSt R S) → Node α (VrSt R S) → Prop} {sd : Nat}
    {P P' : Part α (VrSt R S)} (h : PRel ρ P P') (T : TInv sd P) : TInv sd P' where
  wf := h.wf T.wf
  deep := by rw [h.depth]; exact T.deep
  internal := by
    intro i nd' hi hd
    obtain ⟨nd, h1, h2, _⟩ := h.bwd hi
    rw [h2.children]
    exact T.internal i nd h1 (by rw [← h2.depth]; exact hd)
  geo := Geo.of_PRel h T.geo

/-- **`receive`**: totality and complete description. -/
theorem receive_facts (cfg : VrCfg R S) (s : VROOM α R S) (r : R) (hsd : 1 ≤ cfg.sd)
    (hp : PullPost cfg s) :
    ∃ s', receive cfg s r = .ok s' ∧ RecvFacts cfg s s' r ∧
      (TInv cfg.sd s.P → TInv cfg.sd s'.P) := by
  obtain ⟨P', m, hrel⟩ := receive_spec cfg s r (cumVal cfg s.prob cfg.sd)
    (fun d => cumProb_spec cfg s.prob hsd hp.problen d) hp.nodup hp.valid
  refine ⟨{ s with P := P' }, m, ⟨hrel.kind, hrel.layers, hrel.depth, hrel.len, rfl, rfl, rfl, rfl,
    ?_⟩, fun T => T.of_PRel hrel⟩
  intro i nd hi
  obtain ⟨nd', h0, h1, h2, h3⟩ := hrel.node i nd hi
  refine ⟨nd', h0, h1.depth, h1.index, h1.parent, h1.children, h1.box, ?_, ?_, h3⟩
  · by_cases hmem : i ∈ s.updateList
    · obtain ⟨j, hj⟩ := List.mem_iff_getElem?.1 hmem
      rw [h2 j hj]; rfl
    · rw [h3 hmem]
  · intro j hj
    rw [h2 j hj]
    exact ⟨rfl, rfl⟩

end main

/-! ### `get_last_point` -/
section lastpoint

/-- an argmax-style double loop over the layers only ever returns a listed cell -/
theorem best_mem {A : Type} (layers : List (List Nat))
    (f : A × Option (Nat × Nat) → List Nat × Nat → A × Option (Nat × Nat))
    (g : Nat → A × Option (Nat × Nat) → Nat → A × Option (Nat × Nat))
    (hf : ∀ acc layer h, f acc (layer, h) = layer.foldl (g h) acc)
    (hg : ∀ h acc id, g h acc id = acc ∨ (g h acc id).2 = some (id, h))
    (a0 : A) {node h : Nat} (hb : ((layers.zipIdx).foldl f (a0, none)).2 = some (node, h)) :
    ∃ layer, layers[h]? = some layer ∧ node ∈ layer := by
  have key := foldl_inv (fun acc : A × Option (Nat × Nat) => ∀ node h, acc.2 = some (node, h) →
      ∃ layer, layers[h]? = some layer ∧ node ∈ layer) f (layers.zipIdx) (a0, none)
    (fun _ _ h => by simp at h) (fun acc x hx hI => by
      obtain ⟨layer, h'⟩ := x
      have hl : layers[h']? = some layer := List.mem_zipIdx_iff_getElem?.1 hx
      rw [hf]
      refine foldl_inv (fun acc : A × Option (Nat × Nat) => ∀ node h, acc.2 = some (node, h) →
        ∃ layer, layers[h]? = some layer ∧ node ∈ layer) (g h') layer acc hI
        (fun acc id hid hI node h hacc => ?_)
      rcases hg h' acc id with e | e
      · rw [e] at hacc; exact hI node h hacc
      · rw [e] at hacc
        obtain ⟨rfl, rfl⟩ : id = node ∧ h' = h := by simpa using hacc
        exact ⟨layer, hl, hid⟩)
  exact key node h hb

variable {α R S : Type} [Field α] [LinearOrder α] [IsStrictOrderedRing α] [LinearOrder S]

/-- **`get_last_point`**: whenever it returns, the recommended cell is a listed cell, the
descent below it behaves as in `pull`, the tree invariant is kept, only cells of depth
`≥ search_depth` are expanded, and no other state component changes. -/
theorem lastPoint_facts (cfg : VrCfg R S) (s : VROOM α R S) (dr : VDraw α)
    (T : TInv cfg.sd s.P)
    (hdesc : ∀ h layer node, s.P.layers[h]? = some layer → node ∈ layer →
      DescOK cfg.hmax dr.steps h node s.P)
    {s' : VROOM α R S} {node last : Nat} {pt : List α}
    (hm : lastPoint cfg s dr = .ok (s', node, last, pt)) :
    pt = dr.pt ∧ s'.iteration = s.iteration ∧ s'.prob = s.prob ∧ s'.curr = s.curr ∧
    s'.updateList = s.updateList ∧ TInv cfg.sd s'.P ∧ Grow st0 cfg.sd s.P s'.P ∧
    ∃ h path, (∃ layer, s.P.layers[h]? = some layer ∧ node ∈ layer) ∧
      IsPath s'.P node path last ∧ path.length = cfg.hmax - h := by
  rw [lastPoint] at hm
  split at hm
  · cases hm
  · rename_i node' h heq
    have hmem := best_mem s.P.layers _ _ (fun _ _ _ => rfl) (fun h acc id => by
      dsimp only
      split
      · exact Or.inl rfl
      · split
        · exact Or.inr rfl
        · exact Or.inl rfl) cfg.negInf heq
    obtain ⟨layer, hl, hin⟩ := hmem
    obtain ⟨nd, n1, n2⟩ := ((T.wf.layers_mem h layer hl).2.2 node').1 hin
    obtain ⟨P2, last', path, m2, T2, Gr, hp, hlen⟩ := descentLoop_spec cfg.hmax cfg.sd dr.steps h
      node' [node'] s.P nd T n1 n2 (hdesc h layer node' hl hin)
    rw [m2] at hm
    simp only [bind, Except.bind, pure, Except.pure] at hm
    injection hm with hm
    injection hm with e1 e2
    injection e2 with e2 e3
    injection e3 with e3 e4
    subst e1 e2 e3 e4
    exact ⟨rfl, rfl, rfl, rfl, rfl, T2, Gr, h, path, ⟨layer, hl, hin⟩, hp, hlen⟩

end lastpoint

/-! ### the weights over a field (arity 2) -/
section field
variable {α R S : Type} [Field α] [LinearOrder α] [IsStrictOrderedRing α]
variable [Field S] [LinearOrder S] [IsStrictOrderedRing S]
variable {cfg : VrCfg R S} {s s' : VROOM α R S} {time : Nat} {dr : VDraw α} {last : Nat}
  {P1 : Part α (VrSt R S)} {h l node : Nat} {path : List Nat}

/-- **The weights sum to one, and the drawn cell was drawn with probability
`1/(h · rank · C)`.** -/
theorem PullFacts.weights2 (F : PullFacts cfg s time dr s' last P1 h l node path)
    (FC : FieldCfg cfg) (hsd : 1 ≤ cfg.sd) (T : TInv cfg.sd s.P) (hK : K s.P = 2) :
    s'.prob.sum = 1 ∧
    s'.prob[dr.choice]? = some (1 / ((h : S) * (lastRank P1 node : S) * normC cfg.sd)) ∧
    (0 : S) < normC cfg.sd := by
  refine ⟨?_, by rw [F.weight, FC.probOf]; rfl, normC_pos hsd⟩
  rw [F.prob_eq]
  apply probList_sum FC hsd
  intro h' h1 h2
  have := F.ranked.perm h' (by rw [List.mem_range'_1]; omega)
  rwa [layers_two T hK h' h2] at this

/-- over a field with `probOK ps ↔ ps.sum = 1`, the weights of arity 2 are accepted -/
theorem probAccepted_of_field (FC : FieldCfg cfg) (hsd : 1 ≤ cfg.sd)
    (hOK : ∀ ps : List S, ps.sum = 1 → cfg.probOK ps = true)
    (T : TInv cfg.sd s.P) (hK : K s.P = 2) : ProbAccepted cfg s := by
  intro P1 Rk
  apply hOK
  apply probList_sum FC hsd
  intro h' h1 h2
  have := Rk.perm h' (by rw [List.mem_range'_1]; omega)
  rwa [layers_two T hK h' h2] at this

/-- **Every reachable state** (arity 2, over a field) satisfies the tree invariant, has arity 2
and the domain as root box — so all per-step theorems apply along every run. -/
theorem reachable_inv (FC : FieldCfg cfg) (hsd : 1 ≤ cfg.sd)
    (hOK : ∀ ps : List S, ps.sum = 1 → cfg.probOK ps = true)
    {k : Kind} {domain : Box α} (hv : Box.Valid domain) (hk : k.arity domain.length = 2)
    {s : VROOM α R S} (hr : Reachable cfg k domain s) :
    TInv cfg.sd s.P ∧ K s.P = 2 ∧ boxOf s.P 0 = domain := by
  induction hr with
  | init hds hm =>
    obtain ⟨s0, ds0, h1, h2, _, _, h5, h6, h7, _⟩ := init_VR cfg k domain _ hv hds
    rw [hm] at h1
    injection h1 with h1
    injection h1 with e1 e2
    subst e1
    exact ⟨h2, by simp only [K, h5, h6]; exact hk, h7⟩
  | @round s0 s1 s2 time dr last pt r _ hdr hp hrc ih =>
    obtain ⟨T, hK, hB⟩ := ih
    obtain ⟨s', last', P1, h, l, node, path, m, F⟩ :=
      pull_facts cfg s0 time dr T (probAccepted_of_field FC hsd hOK T hK) hdr
    rw [hp] at m
    injection m with m
    injection m with e1 e2
    subst e1
    obtain ⟨s'', m2, RF, hT⟩ := receive_facts cfg s1 r hsd (F.post T hK)
    rw [hrc] at m2
    injection m2 with m2
    subst m2
    obtain ⟨_, hkind, hdim, hK', hold, _⟩ := F.frame
    obtain ⟨r0, h0, _⟩ := T.wf.root
    obtain ⟨r1, h1, _, _, _, hb1, _⟩ := hold 0 r0 h0
    obtain ⟨r2, h2, _, _, _, _, hb2, _⟩ := RF.node 0 r1 h1
    have hd2 : dimn s2.P = dimn s1.P := by simp [dimn, h1, h2, hb2]
    refine ⟨hT F.tinv, ?_, ?_⟩
    · have : K s2.P = K s1.P := by simp only [K, hd2, RF.kind]
      rw [this, hK', hK]
    · rw [boxOf_eq h2, hb2, hb1, ← boxOf_eq h0, hB]
  | @lastPoint s0 s' dr node last pt _ hdesc hm ih =>
    obtain ⟨T, hK, hB⟩ := ih
    obtain ⟨_, _, _, _, _, T', Gr, _⟩ := lastPoint_facts cfg s0 dr T hdesc hm
    obtain ⟨r0, h0, _⟩ := T.wf.root
    obtain ⟨r1, h1, _, _, _, hb1, _⟩ := Gr.old 0 r0 h0
    exact ⟨T', by rw [Gr.K_eq, hK], by rw [boxOf_eq h1, hb1, ← boxOf_eq h0, hB]⟩

end field

end VR
end PyXAB
