/-
  Erasure: forgetting the expansion events of the instrumented loops gives back the model
  functions `SOO.pull`, `DOO.pull`, `StoSOO.pull`.
-/
import PyXABProofs.Spec.SweepSpec

set_option linter.unusedSectionVars false

namespace PyXAB
open SW

namespace SOO
variable {α S : Type} [Add α] [Sub α] [Mul α] [Div α] [OfNat α 2] [NatCast α]
variable [LinearOrder S] [Inhabited S]

theorem sweep_eq (negInf : S) (hmax : Nat) : ∀ (fuel h : Nat) (vmax : S) (P : Part α (SwSt S))
    (ds : List (Draw α)),
    sweep negInf hmax fuel h vmax P ds =
      (sweepT negInf hmax fuel h vmax P ds).map (fun x => (x.1, x.2.1, x.2.2.1))
  | 0, _, _, _, _ => rfl
  | fuel + 1, h, vmax, P, ds => by
    unfold sweep sweepT
    split
    · cases P.layers[h]? with
      | none => rfl
      | some layer =>
        simp only
        cases scan P layer negInf none with
        | found id => rfl
        | best maxv maxn =>
          simp only
          split
          · cases maxn with
            | none => exact sweep_eq negInf hmax fuel _ _ _ _
            | some m =>
              simp only [bind, Except.bind]
              cases P.makeChildrenD (st0 negInf) m (decide (h ≥ P.depth)) ds with
              | error e => rfl
              | ok r =>
                obtain ⟨P', ds'⟩ := r
                simp only
                rw [sweep_eq negInf hmax fuel]
                cases sweepT negInf hmax fuel (h + 1) maxv P' ds' with
                | error e => rfl
                | ok r => rfl
          · exact sweep_eq negInf hmax fuel _ _ _ _
    · rfl

theorem sweeps_eq (negInf : S) (hmax : Nat) : ∀ (fuel : Nat) (P : Part α (SwSt S))
    (ds : List (Draw α)),
    sweeps negInf hmax fuel P ds =
      (sweepsT negInf hmax fuel P ds).map (fun x => (x.1, x.2.1, x.2.2.1))
  | 0, _, _ => rfl
  | fuel + 1, P, ds => by
    unfold sweeps sweepsT
    simp only [bind, Except.bind]
    rw [sweep_eq]
    cases sweepT negInf hmax (P.depth + 3) 0 negInf P ds with
    | error e => rfl
    | ok r =>
      obtain ⟨P', ds', r, tr⟩ := r
      cases r with
      | some id => rfl
      | none =>
        simp only [Except.map]
        rw [sweeps_eq negInf hmax fuel]
        cases sweepsT negInf hmax fuel P' ds' with
        | error e => rfl
        | ok r => rfl

/-- **Erasure** for SOO. -/
theorem pull_eq (negInf : S) (s : SOO α S) (time : Nat) (ds : List (Draw α)) :
    pull negInf s time ds = (pullT negInf s time ds).map (fun x => (x.1, x.2.1, x.2.2.1)) := by
  unfold pull pullT
  simp only [bind, Except.bind]
  rw [sweeps_eq]
  cases sweepsT negInf s.hmax (s.P.nodes.length + 3) s.P ds with
  | error e => rfl
  | ok r => rfl

theorem pull_ok_iff (negInf : S) (s : SOO α S) (time : Nat) (ds : List (Draw α))
    (s' : SOO α S) (ds' : List (Draw α)) (v : Nat) :
    pull negInf s time ds = .ok (s', ds', v) ↔ ∃ trs, pullT negInf s time ds = .ok (s', ds', v, trs) := by
  rw [pull_eq]
  cases pullT negInf s time ds with
  | error e => simp [Except.map]
  | ok r =>
    obtain ⟨a, b, c, d⟩ := r
    simp only [Except.map, Except.ok.injEq, Prod.mk.injEq]
    constructor
    · rintro ⟨rfl, rfl, rfl⟩; exact ⟨d, rfl, rfl, rfl, rfl⟩
    · rintro ⟨_, rfl, rfl, rfl, _⟩; exact ⟨rfl, rfl, rfl⟩

end SOO

namespace DOO
variable {α S : Type} [Add α] [Sub α] [Mul α] [Div α] [OfNat α 2] [NatCast α]
variable [LinearOrder S] [Inhabited S]

theorem loop_eq (cfg : DOOCfg α S) : ∀ (fuel h : Nat) (maxv : S) (maxn : Option Nat)
    (P : Part α (SwSt S)) (ds : List (Draw α)),
    loop cfg fuel h maxv maxn P ds =
      (loopT cfg fuel h maxv maxn P ds).map (fun x => (x.1, x.2.1, x.2.2.1))
  | 0, _, _, _, _, _ => rfl
  | fuel + 1, h, maxv, maxn, P, ds => by
    unfold loop loopT
    split
    · simp only [bind, Except.bind]
      cases cfg.delta P h with
      | error e => rfl
      | ok delta =>
        simp only
        cases P.layers[h]? with
        | none => rfl
        | some layer =>
          simp only
          cases hsc : scan cfg delta layer P maxv maxn with
          | mk P1 res =>
            cases res with
            | found id => rfl
            | best maxv' maxn' =>
              simp only
              split
              · cases maxn' with
                | none => rfl
                | some m =>
                  simp only
                  cases P1.nodes[m]? with
                  | none => rfl
                  | some nd =>
                    simp only
                    cases P1.makeChildrenD (st0 cfg) m (decide (nd.depth ≥ P1.depth)) ds with
                    | error e => rfl
                    | ok r =>
                      obtain ⟨P2, ds'⟩ := r
                      simp only
                      rw [loop_eq cfg fuel]
                      cases loopT cfg fuel 0 maxv' (some m) P2 ds' with
                      | error e => rfl
                      | ok r => rfl
              · exact loop_eq cfg fuel _ _ _ _ _
    · rfl

/-- **Erasure** for DOO. -/
theorem pull_eq (cfg : DOOCfg α S) (s : DOO α S) (time : Nat) (ds : List (Draw α)) :
    pull cfg s time ds = (pullT cfg s time ds).map (fun x => (x.1, x.2.1, x.2.2.1)) := by
  unfold pull pullT
  simp only [bind, Except.bind]
  rw [loop_eq]
  cases loopT cfg (2 * s.P.depth + 8) 0 cfg.negInf none s.P ds with
  | error e => rfl
  | ok r => rfl

theorem pull_ok_iff (cfg : DOOCfg α S) (s : DOO α S) (time : Nat) (ds : List (Draw α))
    (s' : DOO α S) (ds' : List (Draw α)) (v : Nat) :
    pull cfg s time ds = .ok (s', ds', v) ↔ ∃ tr, pullT cfg s time ds = .ok (s', ds', v, tr) := by
  rw [pull_eq]
  cases pullT cfg s time ds with
  | error e => simp [Except.map]
  | ok r =>
    obtain ⟨a, b, c, d⟩ := r
    simp only [Except.map, Except.ok.injEq, Prod.mk.injEq]
    constructor
    · rintro ⟨rfl, rfl, rfl⟩; exact ⟨d, rfl, rfl, rfl, rfl⟩
    · rintro ⟨_, rfl, rfl, rfl, _⟩; exact ⟨rfl, rfl, rfl⟩

end DOO

namespace StoSOO
variable {α R S : Type} [Add α] [Sub α] [Mul α] [Div α] [OfNat α 2] [NatCast α]
variable [LinearOrder S] [Inhabited S] [Inhabited R]

theorem loop_eq (cfg : StoCfg S R) (time : Nat) : ∀ (fuel h : Nat) (bmax : S)
    (P : Part α (TBSt R S)) (ds : List (Draw α)),
    loop cfg time fuel h bmax P ds =
      (loopT cfg time fuel h bmax P ds).map
        (fun x => (x.1, x.2.1, x.2.2.1, x.2.2.2.1, x.2.2.2.2.1, x.2.2.2.2.2.1))
  | 0, _, _, _, _ => rfl
  | fuel + 1, h, bmax, P, ds => by
    unfold loop loopT
    split
    · split
      · cases P.layers[h]? with
        | none => rfl
        | some layer =>
          simp only
          cases hsc : scan cfg layer 0 P none with
          | mk P1 res =>
            cases res with
            | none => exact loop_eq cfg time fuel _ _ _ _
            | some r =>
              obtain ⟨j, id, b⟩ := r
              simp only
              split
              · cases P1.nodes[id]? with
                | none => rfl
                | some nd =>
                  simp only
                  split
                  · rfl
                  · simp only [bind, Except.bind]
                    cases P1.makeChildrenD (st0 cfg) id (decide (h ≥ P1.depth)) ds with
                    | error e => rfl
                    | ok r =>
                      obtain ⟨P2, ds'⟩ := r
                      simp only
                      rw [loop_eq cfg time fuel]
                      cases loopT cfg time fuel (h + 1) b P2 ds' with
                      | error e => rfl
                      | ok r => rfl
              · exact loop_eq cfg time fuel _ _ _ _
      · rfl
    · rfl

/-- **Erasure** for StoSOO. -/
theorem pull_eq (cfg : StoCfg S R) (s : StoSOO α R S) (time : Nat) (ds : List (Draw α)) :
    pull cfg s time ds = (pullT cfg s time ds).map (fun x => (x.1, x.2.1, x.2.2.1)) := by
  unfold pull pullT
  simp only [bind, Except.bind]
  rw [loop_eq]
  cases loopT cfg time (s.P.depth + 4) 0 cfg.negInf s.P ds with
  | error e => rfl
  | ok r => rfl

theorem pull_ok_iff (cfg : StoCfg S R) (s : StoSOO α R S) (time : Nat) (ds : List (Draw α))
    (s' : StoSOO α R S) (ds' : List (Draw α)) (v : Nat) :
    pull cfg s time ds = .ok (s', ds', v) ↔ ∃ tr, pullT cfg s time ds = .ok (s', ds', v, tr) := by
  rw [pull_eq]
  cases pullT cfg s time ds with
  | error e => simp [Except.map]
  | ok r =>
    obtain ⟨a, b, c, d⟩ := r
    simp only [Except.map, Except.ok.injEq, Prod.mk.injEq]
    constructor
    · rintro ⟨rfl, rfl, rfl⟩; exact ⟨d, rfl, rfl, rfl, rfl⟩
    · rintro ⟨_, rfl, rfl, rfl, _⟩; exact ⟨rfl, rfl, rfl⟩

end StoSOO
end PyXAB
