/-
  C01 for the tree bandits T-HOO and HCT / VHCT: `init`, `pull`, `receive` keep `DomInv`, and
  the documented loop hands out valid cells only.
-/
import PyXABProofs.Lemmas.TT_Box
import PyXABProofs.Props.C06

set_option linter.unusedSectionVars false
set_option linter.unusedVariables false

namespace PyXAB
namespace TT
open _root_.PyXAB.Tree TBA

/-! ## T-HOO -/
namespace HOO
open PyXAB.HOO
variable {α R S : Type} [Field α] [LinearOrder α] [IsStrictOrderedRing α]
variable [LE S] [DecidableLE S] [Max S] [Min S] [Inhabited S] [Inhabited R]

theorem init_dom (cfg : HOOCfg R S) {k : Kind} {domain : Box α} {ds ds' : List (Draw α)}
    {s0 : HOO α R S} (hv : Box.Valid domain) (hd : HeadFits k domain domain ds)
    (h : init cfg k domain ds = .ok (s0, ds')) : DomInv k domain s0.P := by
  unfold init at h
  obtain ⟨⟨P1, ds1⟩, he, h⟩ := bind_ok h
  simp only [pure, Except.pure, Except.ok.injEq, Prod.mk.injEq] at h
  obtain ⟨rfl, _⟩ := h
  refine (expand_dom (DomInv.init hv _) ?_ he).1
  intro nd hn
  simp only [Part.init, List.getElem?_cons_zero, Option.some.injEq] at hn
  subst hn
  exact hd

/-- `receive_reward` keeps the invariant, provided the first draw fits the pulled cell. -/
theorem receive_dom (cfg : HOOCfg R S) {k : Kind} {root : Box α} {s s' : HOO α R S} {r : R}
    {ds ds' : List (Draw α)} (hD : DomInv k root s.P)
    (hS : ∀ path last, s.path = some path → path.getLast? = some last →
      SplitFits k root s.P last ds)
    (h : receive cfg s r ds = .ok (s', ds')) : DomInv k root s'.P ∧ Keeps s.P s'.P := by
  unfold receive at h
  cases hp : s.path with
  | none => simp [hp] at h
  | some path =>
    simp only [hp] at h
    have g12 : Geo s.P (forListed (path.foldl (fun P id => updateReward cfg P id r) s.P)
        (computeU cfg)) :=
      (Geo.foldl _ (fun Q x => Geo.modifySt Q x _) path s.P).trans (forListed_geo _ _)
    generalize forListed (path.foldl (fun P id => updateReward cfg P id r) s.P)
      (computeU cfg) = P2 at g12 h
    cases hl : path.getLast? with
    | none => simp [hl] at h
    | some last =>
      simp only [hl] at h
      cases hn : P2.nodes[last]? with
      | none => simp [hn] at h
      | some nd =>
        simp only [hn] at h
        obtain ⟨⟨P3, ds3⟩, he, h⟩ := bind_ok h
        obtain ⟨P4, hb, h⟩ := bind_ok h
        simp only [pure, Except.pure, Except.ok.injEq, Prod.mk.injEq] at h
        obtain ⟨rfl, rfl⟩ := h
        have hD2 := DomInv.of_prel g12 hD
        obtain ⟨hD3, hK3⟩ := expand_if_dom hD2 (SplitFits.of_prel g12 (hS path last hp hl)) he
        have g34 := backward_geo cfg.negInf hb
        exact ⟨DomInv.of_prel g34 hD3,
          ((Keeps.of_prel g12).trans hK3).trans (Keeps.of_prel g34)⟩

/-- The loop from an invariant state: it never raises, keeps `Inv` and `DomInv`, and every cell
handed out is a cell of the (final) tree whose representative point lies in the domain. -/
theorem runRounds_dom (cfg : HOOCfg R S) {k : Kind} {root : Box α} :
    ∀ (inputs : List (R × List (Draw α))) (s : HOO α R S), Inv cfg s → DomInv k root s.P →
      InputsOK k root.length inputs → GoodDraws cfg k root s inputs →
      ∃ s' H, runRounds cfg s inputs = .ok (s', H) ∧ Inv cfg s' ∧ DomInv k root s'.P ∧
        Keeps s.P s'.P ∧ H.map (·.2) = inputs.map (·.1) ∧ ∀ e ∈ H, PointOK root s'.P e.1
  | [], s, hI, hD, _, _ => ⟨s, [], rfl, hI, hD, Keeps.refl _, rfl, fun _ h => by cases h⟩
  | (r, ds) :: rest, s, hI, hD, hin, hG => by
    obtain ⟨s1, path, v, hp, hR, hP1, _⟩ := PyXAB.HOO.pull_total cfg hI
    obtain ⟨hS, hG'⟩ := hG s1 v hp
    have hD1 : DomInv k root s1.P := hP1 ▸ hD
    have hdim : dimn s1.P = root.length := dimn_of_boxInv hR.inv.wf hD1.box
    have hds : DrawsOK s1.P.kind (dimn s1.P) ds := by
      rw [hD1.kind, hdim]; exact hin _ (List.mem_cons_self ..)
    obtain ⟨s2, ds2, hr, hI2, _, _⟩ := PyXAB.HOO.receive_total cfg hR r hds
    obtain ⟨hD2, hK2⟩ := receive_dom cfg hD1 (fun path' last' e1 e2 => by
      rw [hR.stored] at e1
      cases e1
      rw [hR.lastEq] at e2
      cases e2
      exact hS) hr
    obtain ⟨s', H, hrun, hI', hD', hK', hH, hpts⟩ := runRounds_dom cfg rest s2 hI2 hD2
      (fun x hx => hin x (List.mem_cons_of_mem _ hx)) (hG' s2 ds2 hr)
    have hv : v < s1.P.nodes.length :=
      (TBA.path_spec hR.isPath).2.1 v (List.mem_of_getLast? hR.lastEq)
    refine ⟨s', (v, r) :: H, ?_, hI', hD', ?_, ?_, ?_⟩
    · simp only [runRounds, round, hp, hr, hrun]
    · exact (hP1 ▸ hK2).trans hK'
    · simp [hH]
    · intro e he
      rcases List.mem_cons.1 he with rfl | he
      · exact ((hD1.pointOK hv).keeps hK2).keeps hK'
      · exact hpts e he

end HOO

/-! ## HCT / VHCT -/
namespace HCT
open PyXAB.HCT
variable {α R S : Type} [Field α] [LinearOrder α] [IsStrictOrderedRing α]
variable [LE S] [DecidableLE S] [Max S] [Min S] [Inhabited S] [Inhabited R]

theorem init_dom (cfg : HCTCfg R S) {k : Kind} {domain : Box α} {ds ds' : List (Draw α)}
    {s0 : HCT α R S} (hv : Box.Valid domain) (hd : HeadFits k domain domain ds)
    (h : init cfg k domain ds = .ok (s0, ds')) : DomInv k domain s0.P := by
  unfold init at h
  obtain ⟨⟨P1, ds1⟩, he, h⟩ := bind_ok h
  simp only [pure, Except.pure, Except.ok.injEq, Prod.mk.injEq] at h
  obtain ⟨rfl, _⟩ := h
  refine (expand_dom (DomInv.init hv _) ?_ he).1
  intro nd hn
  simp only [Part.init, List.getElem?_cons_zero, Option.some.injEq] at hn
  subst hn
  exact hd

theorem receive_dom (cfg : HCTCfg R S) {k : Kind} {root : Box α} {s s' : HCT α R S} {r : R}
    {ds ds' : List (Draw α)} (hD : DomInv k root s.P)
    (hS : ∀ path last, s.path = some path → path.getLast? = some last →
      SplitFits k root s.P last ds)
    (h : receive cfg s r ds = .ok (s', ds')) : DomInv k root s'.P ∧ Keeps s.P s'.P := by
  unfold receive at h
  cases hp : s.path with
  | none => simp [hp] at h
  | some path =>
    simp only [hp] at h
    obtain ⟨P1, h1, h⟩ := bind_ok h
    have g1 : Geo s.P P1 := by
      split at h1
      · exact (forListed_geo _ _).trans (backward_geo cfg.negInf h1)
      · simp only [Except.ok.injEq] at h1
        exact h1 ▸ Geo.refl _
    cases hl : path.getLast? with
    | none => simp [hl] at h
    | some last =>
      simp only [hl] at h
      have g2 : Geo P1 (updateReward cfg P1 last r) := Geo.modifySt _ _ _
      generalize updateReward cfg P1 last r = P2 at g2 h
      obtain ⟨P4, hb, h⟩ := bind_ok h
      have g4 := backward_geo cfg.negInf hb
      have g24 : Geo P2 P4 :=
        Geo.trans (by split <;> first | exact Geo.refl _ | exact Geo.modifySt _ _ _) g4
      have g14 : Geo s.P P4 := (g1.trans g2).trans g24
      cases hn : P4.nodes[last]? with
      | none => simp [hn] at h
      | some nd =>
        simp only [hn] at h
        obtain ⟨thr, _, h⟩ := bind_ok h
        obtain ⟨⟨P5, ds5⟩, he, h⟩ := bind_ok h
        simp only [pure, Except.pure, Except.ok.injEq, Prod.mk.injEq] at h
        obtain ⟨rfl, rfl⟩ := h
        obtain ⟨hD5, hK5⟩ := expand_if_dom (DomInv.of_prel g14 hD)
          (SplitFits.of_prel g14 (hS path last hp hl)) he
        exact ⟨hD5, (Keeps.of_prel g14).trans hK5⟩

theorem runRounds_dom (cfg : HCTCfg R S) {k : Kind} {root : Box α} :
    ∀ (inputs : List (R × List (Draw α))) (s : HCT α R S), Inv cfg s → DomInv k root s.P →
      InputsOK k root.length inputs → GoodDraws cfg k root s inputs →
      ∃ s' H, runRounds cfg s inputs = .ok (s', H) ∧ Inv cfg s' ∧ DomInv k root s'.P ∧
        Keeps s.P s'.P ∧ H.map (·.2) = inputs.map (·.1) ∧ ∀ e ∈ H, PointOK root s'.P e.1
  | [], s, hI, hD, _, _ => ⟨s, [], rfl, hI, hD, Keeps.refl _, rfl, fun _ h => by cases h⟩
  | (r, ds) :: rest, s, hI, hD, hin, hG => by
    obtain ⟨s1, path, v, hp, hR, hT, _⟩ := TBA.HCT.pull_ok cfg hI
    obtain ⟨hS, hG'⟩ := hG s1 v hp
    have hD1 : DomInv k root s1.P := DomInv.of_prel hT hD
    have hdim : dimn s1.P = root.length := dimn_of_boxInv hR.inv.pinv.wf hD1.box
    have hds : DrawsOK s1.P.kind (dimn s1.P) ds := by
      rw [hD1.kind, hdim]; exact hin _ (List.mem_cons_self ..)
    obtain ⟨s2, ds2, hr, hI2, _, _⟩ := PyXAB.HCT.receive_total cfg hR r hds
    obtain ⟨hD2, hK2⟩ := receive_dom cfg hD1 (fun path' last' e1 e2 => by
      rw [hR.stored] at e1
      cases e1
      rw [hR.lastEq] at e2
      cases e2
      exact hS) hr
    obtain ⟨s', H, hrun, hI', hD', hK', hH, hpts⟩ := runRounds_dom cfg rest s2 hI2 hD2
      (fun x hx => hin x (List.mem_cons_of_mem _ hx)) (hG' s2 ds2 hr)
    have hv : v < s1.P.nodes.length :=
      (TBA.path_spec hR.isPath).2.1 v (List.mem_of_getLast? hR.lastEq)
    refine ⟨s', (v, r) :: H, ?_, hI', hD', ?_, ?_, ?_⟩
    · simp only [runRounds, round, hp, hr, hrun]
    · exact ((Keeps.of_prel hT).trans hK2).trans hK'
    · simp [hH]
    · intro e he
      rcases List.mem_cons.1 he with rfl | he
      · exact ((hD1.pointOK hv).keeps hK2).keeps hK'
      · exact hpts e he

end HCT

/-- For the deterministic partition classes well-formed draws are good draws. -/
theorem HOO.goodDraws_of_det {α R S : Type} [Field α] [LinearOrder α] [IsStrictOrderedRing α]
    [LE S] [DecidableLE S] [Max S] [Min S] [Inhabited S] [Inhabited R]
    (cfg : HOOCfg R S) {k : Kind} (hk : Kind.Deterministic k) {root : Box α} :
    ∀ (inputs : List (R × List (Draw α))) (s : PyXAB.HOO α R S),
      InputsOK k root.length inputs → HOO.GoodDraws cfg k root s inputs
  | [], _, _ => trivial
  | (r, ds) :: rest, s, hin => fun s1 v _ =>
    ⟨splitFits_of_det hk (hin _ (List.mem_cons_self ..)).2, fun s2 _ _ =>
      HOO.goodDraws_of_det cfg hk rest s2 (fun x hx => hin x (List.mem_cons_of_mem _ hx))⟩

theorem HCT.goodDraws_of_det {α R S : Type} [Field α] [LinearOrder α] [IsStrictOrderedRing α]
    [LE S] [DecidableLE S] [Max S] [Min S] [Inhabited S] [Inhabited R]
    (cfg : HCTCfg R S) {k : Kind} (hk : Kind.Deterministic k) {root : Box α} :
    ∀ (inputs : List (R × List (Draw α))) (s : PyXAB.HCT α R S),
      InputsOK k root.length inputs → HCT.GoodDraws cfg k root s inputs
  | [], _, _ => trivial
  | (r, ds) :: rest, s, hin => fun s1 v _ =>
    ⟨splitFits_of_det hk (hin _ (List.mem_cons_self ..)).2, fun s2 _ _ =>
      HCT.goodDraws_of_det cfg hk rest s2 (fun x hx => hin x (List.mem_cons_of_mem _ hx))⟩

end TT
end PyXAB
