/-
  GPO (PCT / VPCT): rounds and runs (the ghost-instrumented loop of `Spec/MetaSpec.lean`), the
  schedule, the construction parameters, and the provenance of the validated points.
  Core Lean only.
-/
import PyXABProofs.Lemmas.MT_GPOStep

namespace PyXAB.MT
open PyXAB
namespace GPO
open PyXAB.GPO
variable {L α R S Pt ρ : Type} [LT S] [DecidableLT S]

/-! ### One round -/

theorem round_ok_iff (ops : LearnerOps L α R Pt ρ) (cfg : GPOCfg R S ρ) (s s2 : GPO L S Pt)
    (x : RoundIn α R) (e : Entry R Pt) :
    round ops cfg s x = .ok (s2, e) ↔
      ∃ s1 ds1 ds2, pull ops cfg s x.time x.ds = .ok (s1, ds1, e.pt) ∧
        receive ops cfg s1 x.time x.r ds1 = .ok (s2, ds2) ∧
        e = { phase := s.phase, counter := s.counter, pt := e.pt, r := x.r, created := creates cfg s } := by
  unfold round
  cases hp : pull ops cfg s x.time x.ds with
  | error err => simp
  | ok o =>
    obtain ⟨s1, ds1, pt'⟩ := o
    cases hr : receive ops cfg s1 x.time x.r ds1 with
    | error err =>
      simp only [hr, reduceCtorEq, Except.ok.injEq, Prod.mk.injEq, false_iff, not_exists, not_and]
      rintro s1' ds1' ds2 ⟨rfl, rfl, -⟩
      simp [hr]
    | ok o2 =>
      obtain ⟨s2', ds2'⟩ := o2
      simp only [hr, Except.ok.injEq, Prod.mk.injEq]
      constructor
      · rintro ⟨rfl, rfl⟩
        exact ⟨s1, ds1, ds2', ⟨rfl, rfl, rfl⟩, by simp [hr], rfl⟩
      · rintro ⟨s1', ds1', ds2, ⟨rfl, rfl, hpt⟩, h2, he⟩
        rw [hr] at h2
        simp only [Except.ok.injEq, Prod.mk.injEq] at h2
        refine ⟨h2.1, ?_⟩
        rw [he, hpt]

/-- One round from an invariant state. -/
theorem round_spec {ops : LearnerOps L α R Pt ρ} {cfg : GPOCfg R S ρ} (hh : 1 ≤ cfg.half)
    {s s2 : GPO L S Pt} {x : RoundIn α R} {e : Entry R Pt} (hI : Inv cfg s)
    (h : round ops cfg s x = .ok (s2, e)) :
    Inv cfg s2 ∧ e.phase = s.phase ∧ e.counter = s.counter ∧ e.r = x.r ∧ e.created = creates cfg s ∧
    ∃ s1 ds1 ds2, Ready cfg s1 ∧ pull ops cfg s x.time x.ds = .ok (s1, ds1, e.pt) ∧
      receive ops cfg s1 x.time x.r ds1 = .ok (s2, ds2) ∧
      PullEffect ops cfg s x.time x.ds s1 ds1 e.pt ∧ RecvEffect ops cfg s1 x.time x.r ds1 s2 ds2 := by
  obtain ⟨s1, ds1, ds2, hp, hr, he⟩ := (round_ok_iff ..).mp h
  have hpe := pull_effect hh hp
  have hR := pull_ready hI hpe
  have hre := receive_effect hr
  have hI2 := receive_inv hh hR hre
  refine ⟨hI2, ?_, ?_, ?_, ?_, s1, ds1, ds2, hR, hp, hr, hpe, hre⟩ <;> rw [he]

theorem round_total {ops : LearnerOps L α R Pt ρ} {cfg : GPOCfg R S ρ} (hh : 1 ≤ cfg.half)
    {s : GPO L S Pt} (hI : Inv cfg s) (hops : OpsTotal ops) (x : RoundIn α R) :
    ∃ s2 e, round ops cfg s x = .ok (s2, e) := by
  obtain ⟨s1, ds1, pt, hp⟩ := pull_total hh hI hops x.time x.ds
  have hR := pull_ready hI (pull_effect hh hp)
  obtain ⟨s2, ds2, hr⟩ := receive_total hR hops x.time x.r ds1
  exact ⟨s2, { phase := s.phase, counter := s.counter, pt := pt, r := x.r, created := creates cfg s },
    (round_ok_iff ..).mpr ⟨s1, ds1, ds2, hp, hr, rfl⟩⟩

/-- The combined effect of one round on the fields of the state. -/
theorem round_fields {ops : LearnerOps L α R Pt ρ} {cfg : GPOCfg R S ρ} (hh : 1 ≤ cfg.half)
    {s s2 : GPO L S Pt} {x : RoundIn α R} {e : Entry R Pt} (hI : Inv cfg s)
    (h : round ops cfg s x = .ok (s2, e)) :
    (cfg.N < s.phase → s2 = s ∧ s.goodx = some e.pt) ∧
    (s.phase ≤ cfg.N →
      s2.created = s.created + (if s.counter = 0 then 1 else 0) ∧
      (if s.counter + 1 < 2 * cfg.half then
          s2.phase = s.phase ∧ s2.counter = s.counter + 1 ∧ s2.goodx = some e.pt
        else s2.phase = s.phase + 1 ∧ s2.counter = 0) ∧
      (s.counter < cfg.half → s2.V = s.V ∧ s2.Vx = s.Vx) ∧
      (cfg.half ≤ s.counter → s.goodx = some e.pt ∧ s2.curr = s.curr ∧
        ∃ V1 v, V1 = (if s.counter = cfg.half then s.V ++ [cfg.zero] else s.V) ∧
          s2.Vx = (if s.counter = cfg.half then s.Vx ++ [e.pt] else s.Vx) ∧
          V1[s.phase - 1]? = some v ∧
          s2.V = V1.set (s.phase - 1) (cfg.upd v (s.counter - cfg.half) x.r))) := by
  obtain ⟨-, -, -, -, -, s1, ds1, ds2, -, -, -, hpe, hre⟩ := round_spec hh hI h
  obtain ⟨hph, hcn, hpe⟩ := hpe
  unfold RecvEffect at hre
  rw [hph, hcn] at hre
  constructor
  · intro hd
    rw [if_pos hd] at hpe hre
    obtain ⟨rfl, -, hg⟩ := hpe
    exact ⟨hre.1, hg⟩
  · intro hd
    have hd' : ¬ cfg.N < s.phase := by omega
    rw [if_neg hd'] at hpe hre
    obtain ⟨hVx2, hcr2, hsched, hbr⟩ := hre
    obtain ⟨hc2, -⟩ := hI.run hd
    by_cases hlt : s.counter < cfg.half
    · rw [if_pos hlt] at hpe hbr
      obtain ⟨l, l', hif, -, -, hg1, hV1, hVx1⟩ := hpe
      obtain ⟨l2, l2', -, -, -, hV2⟩ := hbr
      have hs : s.counter + 1 < 2 * cfg.half := by omega
      rw [if_pos hs] at hsched ⊢
      obtain ⟨hph2, hcn2, hg2⟩ := hsched
      refine ⟨?_, ⟨hph2, hcn2, by rw [hg2, hg1]⟩, fun _ => ⟨by rw [hV2, hV1], by rw [hVx2, hVx1]⟩,
        fun h' => by omega⟩
      by_cases h0 : s.counter = 0
      · rw [if_pos h0] at hif ⊢; rw [hcr2, hif.2]
      · rw [if_neg h0] at hif ⊢; rw [hcr2, hif.2.2]; rfl
    · rw [if_neg hlt] at hpe hbr
      obtain ⟨hc1, -, hg, hg1, hcr1, hif⟩ := hpe
      obtain ⟨v, hv, hV2, hcurr2, -⟩ := hbr
      have h0 : ¬ s.counter = 0 := by omega
      refine ⟨by rw [if_neg h0, hcr2, hcr1]; rfl, ?_, fun h' => by omega, fun _ => ⟨hg, by rw [hcurr2, hc1], ?_⟩⟩
      · by_cases hs : s.counter + 1 < 2 * cfg.half
        · rw [if_pos hs] at hsched ⊢
          exact ⟨hsched.1, hsched.2.1, by rw [hsched.2.2, hg1, hg]⟩
        · rw [if_neg hs] at hsched ⊢
          exact ⟨hsched.1, hsched.2.1⟩
      · by_cases hch : s.counter = cfg.half
        · rw [if_pos hch] at hif ⊢
          rw [if_pos hch]
          rw [hif.2] at hv hV2
          exact ⟨_, v, rfl, by rw [hVx2, hif.1], hv, hV2⟩
        · rw [if_neg hch] at hif ⊢
          rw [if_neg hch]
          rw [hif.2] at hv hV2
          exact ⟨_, v, rfl, by rw [hVx2, hif.1], hv, hV2⟩

/-! ### Runs -/

theorem run_nil (ops : LearnerOps L α R Pt ρ) (cfg : GPOCfg R S ρ) (s : GPO L S Pt) :
    run ops cfg s [] = .ok (s, []) := rfl

theorem run_cons_ok_iff (ops : LearnerOps L α R Pt ρ) (cfg : GPOCfg R S ρ) (s s' : GPO L S Pt)
    (x : RoundIn α R) (xs : List (RoundIn α R)) (log : List (Entry R Pt)) :
    run ops cfg s (x :: xs) = .ok (s', log) ↔
      ∃ s1 e log', round ops cfg s x = .ok (s1, e) ∧ run ops cfg s1 xs = .ok (s', log') ∧
        log = e :: log' := by
  rw [run]
  cases hr : round ops cfg s x with
  | error err => simp
  | ok o =>
    obtain ⟨s1, e⟩ := o
    cases hrun : run ops cfg s1 xs with
    | error err =>
      simp only [hrun, reduceCtorEq, Except.ok.injEq, Prod.mk.injEq, false_iff, not_exists, not_and]
      rintro s1' e' log' ⟨rfl, rfl⟩
      simp [hrun]
    | ok o2 =>
      obtain ⟨s2, log2⟩ := o2
      simp only [hrun, Except.ok.injEq, Prod.mk.injEq]
      constructor
      · rintro ⟨rfl, rfl⟩
        exact ⟨s1, e, log2, ⟨rfl, rfl⟩, by simp [hrun], rfl⟩
      · rintro ⟨s1', e', log', ⟨rfl, rfl⟩, h2, rfl⟩
        rw [hrun] at h2
        simp only [Except.ok.injEq, Prod.mk.injEq] at h2
        exact ⟨h2.1, by rw [h2.2]⟩

/-- Induction principle for runs. -/
theorem run_induction {ops : LearnerOps L α R Pt ρ} {cfg : GPOCfg R S ρ}
    {J : GPO L S Pt → List (Entry R Pt) → Prop}
    (step : ∀ s log x s' e, J s log → round ops cfg s x = .ok (s', e) → J s' (log ++ [e])) :
    ∀ (xs : List (RoundIn α R)) (s : GPO L S Pt) (log0 : List (Entry R Pt)) (s' : GPO L S Pt)
      (log : List (Entry R Pt)), J s log0 → run ops cfg s xs = .ok (s', log) → J s' (log0 ++ log) := by
  intro xs
  induction xs with
  | nil =>
    intro s log0 s' log hJ h
    rw [run_nil] at h
    cases h
    simpa using hJ
  | cons x xs ih =>
    intro s log0 s' log hJ h
    obtain ⟨s1, e, log', hr, hrun, rfl⟩ := (run_cons_ok_iff ..).mp h
    have := ih s1 (log0 ++ [e]) s' log' (step s log0 x s1 e hJ hr) hrun
    simpa using this

theorem run_append_ok_iff (ops : LearnerOps L α R Pt ρ) (cfg : GPOCfg R S ρ)
    (xs ys : List (RoundIn α R)) (s s' : GPO L S Pt) (log : List (Entry R Pt)) :
    run ops cfg s (xs ++ ys) = .ok (s', log) ↔
      ∃ s1 log1 log2, run ops cfg s xs = .ok (s1, log1) ∧ run ops cfg s1 ys = .ok (s', log2) ∧
        log = log1 ++ log2 := by
  induction xs generalizing s log with
  | nil =>
    simp only [List.nil_append, run_nil, Except.ok.injEq, Prod.mk.injEq]
    constructor
    · intro h; exact ⟨s, [], log, ⟨rfl, rfl⟩, h, rfl⟩
    · rintro ⟨s1, log1, log2, ⟨rfl, rfl⟩, h, rfl⟩; exact h
  | cons x xs ih =>
    rw [List.cons_append, run_cons_ok_iff]
    constructor
    · rintro ⟨s1, e, log', hr, hrun, rfl⟩
      obtain ⟨s2, log1, log2, h1, h2, rfl⟩ := (ih ..).mp hrun
      exact ⟨s2, e :: log1, log2, (run_cons_ok_iff ..).mpr ⟨s1, e, log1, hr, h1, rfl⟩, h2, rfl⟩
    · rintro ⟨s2, log1, log2, h1, h2, rfl⟩
      obtain ⟨s1, e, log1', hr, h1', rfl⟩ := (run_cons_ok_iff ..).mp h1
      exact ⟨s1, e, log1' ++ log2, hr, (ih ..).mpr ⟨s2, log1', log2, h1', h2, rfl⟩, rfl⟩

theorem run_length {ops : LearnerOps L α R Pt ρ} {cfg : GPOCfg R S ρ} {xs : List (RoundIn α R)} :
    ∀ {s s' : GPO L S Pt} {log : List (Entry R Pt)}, run ops cfg s xs = .ok (s', log) →
      log.length = xs.length := by
  induction xs with
  | nil => intro s s' log h; rw [run_nil] at h; cases h; rfl
  | cons x xs ih =>
    intro s s' log h
    obtain ⟨s1, e, log', -, hrun, rfl⟩ := (run_cons_ok_iff ..).mp h
    simp [ih hrun]

theorem run_inv {ops : LearnerOps L α R Pt ρ} {cfg : GPOCfg R S ρ} (hh : 1 ≤ cfg.half)
    {s s' : GPO L S Pt} {xs : List (RoundIn α R)} {log : List (Entry R Pt)} (hI : Inv cfg s)
    (h : run ops cfg s xs = .ok (s', log)) : Inv cfg s' :=
  run_induction (J := fun s _ => Inv cfg s) (fun _ _ _ _ _ hJ hr => (round_spec hh hJ hr).1)
    xs s [] s' log hI h

theorem run_total {ops : LearnerOps L α R Pt ρ} {cfg : GPOCfg R S ρ} (hh : 1 ≤ cfg.half)
    (hops : OpsTotal ops) (xs : List (RoundIn α R)) :
    ∀ {s : GPO L S Pt}, Inv cfg s → ∃ s' log, run ops cfg s xs = .ok (s', log) := by
  induction xs with
  | nil => intro s _; exact ⟨s, [], rfl⟩
  | cons x xs ih =>
    intro s hI
    obtain ⟨s1, e, hr⟩ := round_total hh hI hops x
    obtain ⟨s', log, hrun⟩ := ih (round_spec hh hI hr).1
    exact ⟨s', e :: log, (run_cons_ok_iff ..).mpr ⟨s1, e, log, hr, hrun, rfl⟩⟩

/-! ### The schedule -/

theorem divmod_of {q c d k : Nat} (hc : c < d) (hk : k = q * d + c) : k / d = q ∧ k % d = c := by
  subst hk
  have hd : 0 < d := by omega
  constructor
  · rw [Nat.add_comm, Nat.add_mul_div_right _ _ hd, Nat.div_eq_of_lt hc, Nat.zero_add]
  · rw [Nat.add_comm, Nat.add_mul_mod_self_right, Nat.mod_eq_of_lt hc]

omit [LT S] [DecidableLT S] in
theorem roundNo_lt {cfg : GPOCfg R S ρ} {s : GPO L S Pt} (hp1 : 1 ≤ s.phase) (hc : s.counter < 2 * cfg.half)
    (hd : s.phase ≤ cfg.N) : roundNo cfg s < cfg.N * (2 * cfg.half) := by
  have h1 : (s.phase - 1 + 1) * (2 * cfg.half) ≤ cfg.N * (2 * cfg.half) :=
    Nat.mul_le_mul_right _ (by omega)
  rw [Nat.succ_mul (s.phase - 1) (2 * cfg.half)] at h1
  unfold roundNo
  omega

theorem round_roundNo {ops : LearnerOps L α R Pt ρ} {cfg : GPOCfg R S ρ} (hh : 1 ≤ cfg.half)
    {s s2 : GPO L S Pt} {x : RoundIn α R} {e : Entry R Pt} (hI : Inv cfg s)
    (h : round ops cfg s x = .ok (s2, e)) (hd : s.phase ≤ cfg.N) :
    roundNo cfg s2 = roundNo cfg s + 1 := by
  obtain ⟨-, hf⟩ := round_fields hh hI h
  obtain ⟨-, hsched, -⟩ := hf hd
  obtain ⟨hc2, -⟩ := hI.run hd
  have hp1 := hI.hph.1
  unfold roundNo
  by_cases hs : s.counter + 1 < 2 * cfg.half
  · rw [if_pos hs] at hsched
    rw [hsched.1, hsched.2.1]; omega
  · rw [if_neg hs] at hsched
    rw [hsched.1, hsched.2]
    have : s.phase + 1 - 1 = s.phase - 1 + 1 := by omega
    rw [this, Nat.succ_mul (s.phase - 1) (2 * cfg.half)]
    omega

/-- Along a run from the constructor: the number of rounds played determines phase and counter,
and every log entry sits at the index given by its phase and counter. -/
theorem run_schedule {ops : LearnerOps L α R Pt ρ} {cfg : GPOCfg R S ρ} (hN : 1 ≤ cfg.N) (hh : 1 ≤ cfg.half)
    {s' : GPO L S Pt} {xs : List (RoundIn α R)} {log : List (Entry R Pt)}
    (h : run ops cfg GPO.init xs = .ok (s', log)) :
    Inv cfg s' ∧ (s'.phase ≤ cfg.N → roundNo cfg s' = log.length) ∧
    (cfg.N < s'.phase → cfg.N * (2 * cfg.half) ≤ log.length) ∧
    ∀ (k : Nat) e, log[k]? = some e →
      (e.phase ≤ cfg.N → k = (e.phase - 1) * (2 * cfg.half) + e.counter ∧ e.counter < 2 * cfg.half ∧
        1 ≤ e.phase) ∧
      (cfg.N < e.phase → e.phase = cfg.N + 1 ∧ e.counter = 0 ∧ cfg.N * (2 * cfg.half) ≤ k) := by
  have := run_induction (ops := ops) (cfg := cfg)
    (J := fun s1 log1 => Inv cfg s1 ∧ (s1.phase ≤ cfg.N → roundNo cfg s1 = log1.length) ∧
      (cfg.N < s1.phase → cfg.N * (2 * cfg.half) ≤ log1.length) ∧
      ∀ (k : Nat) e, log1[k]? = some e →
        (e.phase ≤ cfg.N → k = (e.phase - 1) * (2 * cfg.half) + e.counter ∧ e.counter < 2 * cfg.half ∧
          1 ≤ e.phase) ∧
        (cfg.N < e.phase → e.phase = cfg.N + 1 ∧ e.counter = 0 ∧ cfg.N * (2 * cfg.half) ≤ k))
    (by
      intro s1 log1 x s2 e ⟨hI1, hJ1, hJ2, hJ3⟩ hr
      obtain ⟨hI2, hep, hec, -⟩ := round_spec hh hI1 hr
      have hp1 := hI1.hph
      refine ⟨hI2, ?_, ?_, ?_⟩
      · intro hd2
        by_cases hd : s1.phase ≤ cfg.N
        · rw [round_roundNo hh hI1 hr hd, hJ1 hd]; simp
        · obtain ⟨rfl, -⟩ := (round_fields hh hI1 hr).1 (by omega)
          omega
      · intro hd2
        by_cases hd : s1.phase ≤ cfg.N
        · have h1 := round_roundNo hh hI1 hr hd
          have h2 := roundNo_lt hp1.1 (hI1.run hd).1 hd
          have h3 := hJ1 hd
          have hp2 := hI2.hph
          have h4 : roundNo cfg s2 = cfg.N * (2 * cfg.half) := by
            have : s2.phase = cfg.N + 1 := by omega
            have hc0 := (hI2.done hd2).1
            unfold roundNo; rw [this, hc0]; simp
          simp only [List.length_append, List.length_singleton]
          omega
        · have := hJ2 (by omega)
          simp only [List.length_append, List.length_singleton]
          omega
      · intro k e' hk
        rw [List.getElem?_append] at hk
        split at hk
        · exact hJ3 k e' hk
        · rename_i hnl
          rw [List.getElem?_singleton] at hk
          split at hk
          · rename_i hk0
            cases hk
            have hkl : k = log1.length := by omega
            rw [hep, hec]
            constructor
            · intro hd
              have := hJ1 hd
              unfold roundNo at this
              exact ⟨by omega, (hI1.run hd).1, hp1.1⟩
            · intro hd
              exact ⟨by omega, (hI1.done hd).1, by have := hJ2 hd; omega⟩
          · cases hk)
    xs GPO.init [] s' log ⟨inv_init cfg hN hh, by intro _; simp [roundNo, GPO.init],
      by intro h; simp [GPO.init] at h; omega, by intro k e hk; simp at hk⟩ h
  simpa using this

/-- phase and counter from the number of rounds -/
theorem schedule_of_roundNo {cfg : GPOCfg R S ρ} {s : GPO L S Pt} (hh : 1 ≤ cfg.half) (hI : Inv cfg s)
    {k : Nat} (hk : roundNo cfg s = k) :
    s.phase = k / (2 * cfg.half) + 1 ∧ s.counter = k % (2 * cfg.half) ∧
    s.created = (k + 2 * cfg.half - 1) / (2 * cfg.half) ∧
    s.V.length = (k + cfg.half - 1) / (2 * cfg.half) := by
  have hp1 := hI.hph
  unfold roundNo at hk
  have hc : s.counter < 2 * cfg.half := by
    by_cases hd : s.phase ≤ cfg.N
    · exact (hI.run hd).1
    · rw [(hI.done (by omega)).1]; omega
  obtain ⟨h1, h2⟩ := divmod_of hc hk.symm
  refine ⟨by omega, h2.symm, ?_, ?_⟩
  · by_cases h0 : s.counter = 0
    · have hcr : s.created = s.phase - 1 := by
        by_cases hd : s.phase ≤ cfg.N
        · have := (hI.run hd).2.1; rw [if_pos h0] at this; omega
        · have := (hI.done (by omega)).2.1; omega
      have : k + 2 * cfg.half - 1 = (s.phase - 1) * (2 * cfg.half) + (2 * cfg.half - 1) := by omega
      rw [hcr, this]
      exact (divmod_of (by omega) rfl).1.symm
    · have hd : s.phase ≤ cfg.N := by
        by_cases hd : s.phase ≤ cfg.N
        · exact hd
        · exact absurd (hI.done (by omega)).1 h0
      have hcr := (hI.run hd).2.1
      rw [if_neg h0] at hcr
      have : k + 2 * cfg.half - 1 = (s.phase - 1 + 1) * (2 * cfg.half) + (s.counter - 1) := by
        rw [Nat.succ_mul (s.phase - 1) (2 * cfg.half)]; omega
      rw [hcr, this]
      exact (divmod_of (by omega) rfl).1.symm
  · by_cases hd : s.phase ≤ cfg.N
    · have hvl := (hI.run hd).2.2.1
      by_cases hlt : cfg.half < s.counter
      · rw [if_pos hlt] at hvl
        have : k + cfg.half - 1 = (s.phase - 1 + 1) * (2 * cfg.half) + (s.counter - cfg.half - 1) := by
          rw [Nat.succ_mul (s.phase - 1) (2 * cfg.half)]; omega
        rw [hvl, this]
        exact (divmod_of (by omega) rfl).1.symm
      · rw [if_neg hlt] at hvl
        have : k + cfg.half - 1 = (s.phase - 1) * (2 * cfg.half) + (s.counter + cfg.half - 1) := by omega
        rw [hvl, this]
        exact (divmod_of (by omega) rfl).1.symm
    · obtain ⟨hc0, -, hvl, -⟩ := hI.done (by omega)
      have : k + cfg.half - 1 = (s.phase - 1) * (2 * cfg.half) + (cfg.half - 1) := by omega
      have hpN : s.phase - 1 = cfg.N := by omega
      rw [hvl, this, hpN]
      exact (divmod_of (by omega) rfl).1.symm

/-! ### The construction parameters -/

omit [LT S] [DecidableLT S] in
theorem createdParams_snoc (log : List (Entry R Pt)) (e : Entry R Pt) :
    createdParams (log ++ [e]) = createdParams log ++ e.created.toList := by
  unfold createdParams
  rw [List.filterMap_append]
  cases h : e.created <;> simp [h]

/-- The learners are constructed with `rhoOf 1, rhoOf 2, …` in this order. -/
theorem run_created {ops : LearnerOps L α R Pt ρ} {cfg : GPOCfg R S ρ} (hN : 1 ≤ cfg.N) (hh : 1 ≤ cfg.half)
    {s' : GPO L S Pt} {xs : List (RoundIn α R)} {log : List (Entry R Pt)}
    (h : run ops cfg GPO.init xs = .ok (s', log)) :
    createdParams log = List.range' 1 s'.created := by
  have := run_induction (ops := ops) (cfg := cfg)
    (J := fun s1 log1 => Inv cfg s1 ∧ createdParams log1 = List.range' 1 s1.created)
    (by
      intro s1 log1 x s2 e ⟨hI1, hJ⟩ hr
      obtain ⟨hI2, -, -, -, hcr, -⟩ := round_spec hh hI1 hr
      obtain ⟨hf1, hf2⟩ := round_fields hh hI1 hr
      refine ⟨hI2, ?_⟩
      rw [createdParams_snoc, hcr, hJ]
      unfold creates
      by_cases hd : s1.phase ≤ cfg.N
      · obtain ⟨hc2, -⟩ := hf2 hd
        by_cases h0 : s1.counter = 0
        · rw [if_pos ⟨hd, h0⟩, hc2, if_pos h0, List.range'_concat]
          have := (hI1.run hd).2.1
          rw [if_pos h0] at this
          have hp1 := hI1.hph.1
          simp only [Option.toList_some]
          congr 2
          omega
        · rw [if_neg (fun h' => h0 h'.2), hc2, if_neg h0]
          simp
      · obtain ⟨rfl, -⟩ := hf1 (by omega)
        rw [if_neg (fun h' => hd h'.1)]
        simp)
    xs GPO.init [] s' log ⟨inv_init cfg hN hh, by simp [createdParams, GPO.init]⟩ h
  simpa using this.2

/-! ### Provenance of the validated points -/

/-- Along a run from the constructor: (a) while a phase is running, `goodx` is the point returned
in the previous round (same phase); (b) every validation round (`counter ≥ half`) of a phase
returns the point which the learner of this phase proposed in its last exploration round
(`counter = half - 1`), found `counter - half + 1` entries earlier in the log; (c) every
validated point `Vx[q]` is the last proposal of the learner of phase `q + 1`. -/
theorem run_points {ops : LearnerOps L α R Pt ρ} {cfg : GPOCfg R S ρ} (hN : 1 ≤ cfg.N) (hh : 1 ≤ cfg.half)
    {s' : GPO L S Pt} {xs : List (RoundIn α R)} {log : List (Entry R Pt)}
    (h : run ops cfg GPO.init xs = .ok (s', log)) :
    (0 < s'.counter → ∃ e, log.getLast? = some e ∧ s'.goodx = some e.pt ∧ e.phase = s'.phase ∧
      e.counter + 1 = s'.counter) ∧
    (∀ (k : Nat) e, log[k]? = some e → e.phase ≤ cfg.N → cfg.half ≤ e.counter →
      ∃ e0, e.counter - cfg.half + 1 ≤ k ∧ log[k - (e.counter - cfg.half + 1)]? = some e0 ∧
        e0.phase = e.phase ∧ e0.counter + 1 = cfg.half ∧ e0.pt = e.pt) ∧
    (∀ (q : Nat) pt, s'.Vx[q]? = some pt →
      ∃ (k : Nat) (e0 : Entry R Pt), log[k]? = some e0 ∧ e0.phase = q + 1 ∧ e0.counter + 1 = cfg.half ∧ e0.pt = pt) := by
  have := run_induction (ops := ops) (cfg := cfg)
    (J := fun s1 log1 => Inv cfg s1 ∧
      (0 < s1.counter → ∃ e, log1.getLast? = some e ∧ s1.goodx = some e.pt ∧ e.phase = s1.phase ∧
        e.counter + 1 = s1.counter) ∧
      (∀ (k : Nat) e, log1[k]? = some e → e.phase ≤ cfg.N → cfg.half ≤ e.counter →
        ∃ e0, e.counter - cfg.half + 1 ≤ k ∧ log1[k - (e.counter - cfg.half + 1)]? = some e0 ∧
          e0.phase = e.phase ∧ e0.counter + 1 = cfg.half ∧ e0.pt = e.pt) ∧
      (∀ (q : Nat) pt, s1.Vx[q]? = some pt →
        ∃ (k : Nat) (e0 : Entry R Pt), log1[k]? = some e0 ∧ e0.phase = q + 1 ∧ e0.counter + 1 = cfg.half ∧ e0.pt = pt))
    (by
      intro s1 log1 x s2 e ⟨hI1, hJa, hJb, hJc⟩ hr
      obtain ⟨hI2, hep, hec, -⟩ := round_spec hh hI1 hr
      obtain ⟨hf1, hf2⟩ := round_fields hh hI1 hr
      -- the previous entry, when validating
      have hprev : s1.phase ≤ cfg.N → cfg.half ≤ s1.counter →
          ∃ e1, 1 ≤ log1.length ∧ log1[log1.length - 1]? = some e1 ∧ e1.pt = e.pt ∧ e1.phase = s1.phase ∧
            e1.counter + 1 = s1.counter := by
        intro hd hge
        obtain ⟨e1, hl, hg, h1, h2⟩ := hJa (by omega)
        obtain ⟨-, -, -, hv⟩ := hf2 hd
        have hg' := (hv hge).1
        rw [hg] at hg'
        have hpt : e1.pt = e.pt := Option.some.inj hg'
        rw [List.getLast?_eq_getElem?] at hl
        have : 1 ≤ log1.length := by
          cases hlog : log1 with
          | nil => rw [hlog] at hl; simp at hl
          | cons a t => simp
        exact ⟨e1, this, hl, hpt, h1, h2⟩
      refine ⟨hI2, ?_, ?_, ?_⟩
      · intro hpos
        by_cases hd : s1.phase ≤ cfg.N
        · obtain ⟨-, hsched, -⟩ := hf2 hd
          by_cases hs : s1.counter + 1 < 2 * cfg.half
          · rw [if_pos hs] at hsched
            exact ⟨e, by simp, hsched.2.2, by rw [hep, hsched.1], by rw [hec, hsched.2.1]⟩
          · rw [if_neg hs] at hsched
            omega
        · obtain ⟨rfl, -⟩ := hf1 (by omega)
          have := (hI1.done (by omega)).1
          omega
      · intro k e' hk hd' hge'
        rw [List.getElem?_append] at hk
        split at hk
        · rename_i hlt
          obtain ⟨e0, hb, he0, h1, h2, h3⟩ := hJb k e' hk hd' hge'
          exact ⟨e0, hb, by rw [List.getElem?_append_left (by omega)]; exact he0, h1, h2, h3⟩
        · rename_i hnl
          rw [List.getElem?_singleton] at hk
          split at hk
          · rename_i hk0
            cases hk
            have hkl : k = log1.length := by omega
            rw [hep] at hd'
            rw [hec] at hge'
            obtain ⟨e1, hlen1, he1, hpt1, hph1, hcn1⟩ := hprev hd' hge'
            by_cases hch : s1.counter = cfg.half
            · refine ⟨e1, by omega, ?_, by rw [hph1, hep], by omega, hpt1⟩
              rw [List.getElem?_append_left (by omega)]
              have : k - (e.counter - cfg.half + 1) = log1.length - 1 := by omega
              rw [this]; exact he1
            · obtain ⟨e0, hb, he0, h1, h2, h3⟩ := hJb _ e1 he1 (by omega) (by omega)
              refine ⟨e0, by omega, ?_, by rw [h1, hph1, hep], h2, by rw [h3, hpt1]⟩
              rw [List.getElem?_append_left (by omega)]
              have : k - (e.counter - cfg.half + 1) = log1.length - 1 - (e1.counter - cfg.half + 1) := by omega
              rw [this]; exact he0
          · cases hk
      · intro q pt hq
        have hold : ∀ pt, s1.Vx[q]? = some pt →
            ∃ (k : Nat) (e0 : Entry R Pt), (log1 ++ [e])[k]? = some e0 ∧ e0.phase = q + 1 ∧ e0.counter + 1 = cfg.half ∧ e0.pt = pt := by
          intro pt hq
          obtain ⟨k, e0, hk, h1, h2, h3⟩ := hJc q pt hq
          have := (List.getElem?_eq_some_iff.mp hk).1
          exact ⟨k, e0, by rw [List.getElem?_append_left this]; exact hk, h1, h2, h3⟩
        by_cases hd : s1.phase ≤ cfg.N
        · obtain ⟨-, -, hexp, hval⟩ := hf2 hd
          by_cases hlt : s1.counter < cfg.half
          · rw [(hexp hlt).2] at hq
            exact hold pt hq
          · obtain ⟨-, -, V1, v, -, hVx2, -⟩ := hval (by omega)
            rw [hVx2] at hq
            by_cases hch : s1.counter = cfg.half
            · rw [if_pos hch, List.getElem?_append] at hq
              split at hq
              · exact hold pt hq
              · rename_i hnl
                rw [List.getElem?_singleton] at hq
                split at hq
                · rename_i hq0
                  cases hq
                  obtain ⟨e1, hlen1, he1, hpt1, hph1, hcn1⟩ := hprev hd (by omega)
                  have hvl := (hI1.run hd).2.2.1
                  rw [if_neg (by omega)] at hvl
                  have hlen := hI1.hlen
                  have hp1 := hI1.hph.1
                  exact ⟨log1.length - 1, e1, by rw [List.getElem?_append_left (by omega)]; exact he1,
                    by omega, by omega, hpt1⟩
                · cases hq
            · rw [if_neg hch] at hq
              exact hold pt hq
        · obtain ⟨rfl, -⟩ := hf1 (by omega)
          exact hold pt hq)
    xs GPO.init [] s' log ⟨inv_init cfg hN hh, by simp [GPO.init], by intro k e hk; simp at hk,
      by intro q pt hq; simp [GPO.init] at hq⟩ h
  simp only [List.nil_append] at this
  exact this.2

/-- every log entry records whether (and with which argument of `rhoOf`) a learner was constructed -/
theorem run_entry_created {ops : LearnerOps L α R Pt ρ} {cfg : GPOCfg R S ρ}
    {s s' : GPO L S Pt} {xs : List (RoundIn α R)} {log : List (Entry R Pt)}
    (h : run ops cfg s xs = .ok (s', log)) :
    ∀ e ∈ log, e.created = if e.phase ≤ cfg.N ∧ e.counter = 0 then some e.phase else none := by
  have := run_induction (ops := ops) (cfg := cfg)
    (J := fun _ log1 => ∀ e ∈ log1,
      e.created = if e.phase ≤ cfg.N ∧ e.counter = 0 then some e.phase else none)
    (by
      intro s1 log1 x s2 e hJ hr e' he'
      rw [List.mem_append, List.mem_singleton] at he'
      rcases he' with he' | rfl
      · exact hJ e' he'
      · obtain ⟨s1', ds1, ds2, -, -, he⟩ := (round_ok_iff ..).mp hr
        rw [he]
        rfl)
    xs s [] s' log (by simp) h
  simpa using this

end GPO
end PyXAB.MT
