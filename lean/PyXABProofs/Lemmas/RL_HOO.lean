/-
  Tree bandits, shared part + T-HOO:
  * C16.3: `pull` / `receive` / `init` commute with mapping the boxes of the tree;
  * C15.2: `pull` is idempotent (extra `pull`s = `get_last_point` queries change nothing);
  * C14:   boxes of existing cells (in particular the root box = the user's domain) are kept.
-/
import PyXABProofs.Lemmas.RL_Tree
import PyXABProofs.Lemmas.RL_Machine

namespace PyXAB
namespace RL
open Rel
set_option linter.unusedSectionVars false

/-! ### shared loops -/
section common
variable {α R S : Type}

theorem descend_map [LE S] [DecidableLE S] [Inhabited S] [Inhabited R] (g : Box α → Box α)
    (P : Part α (TBSt R S)) (cont cont' : Node α (TBSt R S) → Except Err Bool)
    (hc : ∀ nd, cont' (nodeMapBox g nd) = cont nd) :
    ∀ (fuel cur : Nat) (acc : List Nat),
      descend (partMapBox g P) cont' fuel cur acc = descend P cont fuel cur acc
  | 0, _, _ => rfl
  | fuel + 1, cur, acc => by
    simp only [descend, partMapBox_getElem?]
    cases P.nodes[cur]? with
    | none => rfl
    | some nd =>
      simp only [Option.map_some, hc, nodeMapBox_children, partMapBox_stOf,
        descend_map g P cont cont' hc fuel]

theorem backwardLayer_map [Max S] [Min S] [Inhabited S] [Inhabited R] (g : Box α → Box α) (negInf : S)
    (P : Part α (TBSt R S)) (layer : List Nat) :
    backwardLayer negInf (partMapBox g P) layer = partMapBox g (backwardLayer negInf P layer) := by
  unfold backwardLayer
  apply foldl_comm (partMapBox g)
  intro Q id
  simp only [partMapBox_getElem?]
  cases Q.nodes[id]? with
  | none => rfl
  | some nd =>
    simp only [Option.map_some, nodeMapBox_children]
    cases nd.children with
    | none => exact partMapBox_modifySt g Q id _
    | some cs => simp only [partMapBox_stOf, partMapBox_modifySt]

theorem backward_map [Max S] [Min S] [Inhabited S] [Inhabited R] (g : Box α → Box α) (negInf : S)
    (P : Part α (TBSt R S)) :
    backward negInf (partMapBox g P) = mapRes1 (partMapBox g) (backward negInf P) := by
  unfold backward
  rw [partMapBox_depth]
  apply foldlM_comm (partMapBox g)
  intro Q i
  simp only [partMapBox_layers]
  by_cases hc : i + 1 ≤ Q.layers.length
  · simp only [hc, if_true]
    cases Q.layers[Q.layers.length - (i + 1)]? with
    | none => rfl
    | some layer => simp only [backwardLayer_map]; rfl
  · simp only [hc, if_false]; rfl

theorem forListed_map {σ : Type} (g : Box α → Box α) (P : Part α σ) (f f' : Node α σ → σ)
    (hf : ∀ nd, f' (nodeMapBox g nd) = f nd) :
    forListed (partMapBox g P) f' = partMapBox g (forListed P f) := by
  unfold forListed
  rw [partMapBox_layers]
  apply foldl_comm (partMapBox g)
  intro Q id
  simp only [partMapBox_getElem?]
  cases Q.nodes[id]? with
  | none => rfl
  | some nd => simp only [Option.map_some, hf, partMapBox_modifySt]

/-! boxes kept -/

theorem boxesKept_backwardLayer [Max S] [Min S] [Inhabited S] [Inhabited R] (negInf : S)
    (P : Part α (TBSt R S)) (layer : List Nat) : BoxesKept P (backwardLayer negInf P layer) := by
  unfold backwardLayer
  apply boxesKept_foldl
  intro Q id
  cases Q.nodes[id]? with
  | none => exact boxesKept_refl Q
  | some nd =>
    simp only []
    cases nd.children with
    | none => exact boxesKept_modifySt Q id _
    | some cs => exact boxesKept_modifySt Q id _

theorem boxesKept_backward [Max S] [Min S] [Inhabited S] [Inhabited R] (negInf : S)
    (P P' : Part α (TBSt R S)) (h : backward negInf P = .ok P') : BoxesKept P P' := by
  unfold backward at h
  refine boxesKept_foldlM _ ?_ _ P P' h
  intro Q i Q' hq
  split at hq
  · cases h1 : Q.layers[Q.layers.length - (i + 1)]? with
    | none => simp [h1] at hq
    | some layer =>
      simp only [h1, Except.ok.injEq] at hq
      subst hq
      exact boxesKept_backwardLayer negInf Q layer
  · cases hq

theorem boxesKept_forListed {σ : Type} (P : Part α σ) (f : Node α σ → σ) :
    BoxesKept P (forListed P f) := by
  unfold forListed
  apply boxesKept_foldl
  intro Q id
  cases Q.nodes[id]? with
  | none => exact boxesKept_refl Q
  | some nd => exact boxesKept_modifySt Q id _

end common

/-! ## T-HOO -/
section hoo
variable {α R S : Type} [Add α] [Sub α] [Mul α] [Div α] [OfNat α 2] [NatCast α]
variable [LE S] [DecidableLE S] [Max S] [Min S] [Inhabited S] [Inhabited R]

/-! ### C15.2: `pull` only reads the tree and only writes `path` -/

/-- `pull` leaves the tree and the round counter alone; it stores the path it returns the end
of. -/
theorem hoo_pull_frame {s s1 : HOO α R S} {v : Nat} (h : HOO.pull s = .ok (s1, v)) :
    ∃ path, s1 = { s with path := some path } ∧ path.getLast? = some v := by
  unfold HOO.pull at h
  simp only [bind, Except.bind] at h
  cases h1 : descend s.P (fun _ => .ok true) (s.P.nodes.length + 1) 0 [0] with
  | error e => simp [h1] at h
  | ok path =>
    simp only [h1] at h
    cases h2 : path.getLast? with
    | none => simp [h2] at h
    | some w =>
      simp only [h2, pure, Except.pure, Except.ok.injEq, Prod.mk.injEq] at h
      obtain ⟨rfl, rfl⟩ := h
      exact ⟨path, rfl, h2⟩

/-- the result of `pull` depends on the tree only -/
theorem hoo_pull_congr (s s' : HOO α R S) (hP : s'.P = s.P) :
    HOO.pull s' = mapRes (fun t => { t with iteration := s'.iteration }) id
      (HOO.pull { s with iteration := s.iteration }) := by
  unfold HOO.pull
  simp only [bind, Except.bind, hP]
  cases descend s.P (fun _ => .ok true) (s.P.nodes.length + 1) 0 [0] with
  | error e => rfl
  | ok path =>
    simp only []
    cases path.getLast? with
    | none => rfl
    | some w => rfl

/-- Idempotence: a second `pull` right after a `pull` returns the same cell and leaves the
state unchanged. -/
theorem hoo_pull_idem {s s1 : HOO α R S} {v : Nat} (h : HOO.pull s = .ok (s1, v)) :
    HOO.pull s1 = .ok (s1, v) := by
  unfold HOO.pull at h ⊢
  simp only [bind, Except.bind] at h ⊢
  cases h1 : descend s.P (fun _ => .ok true) (s.P.nodes.length + 1) 0 [0] with
  | error e => simp [h1] at h
  | ok path =>
    simp only [h1] at h
    cases h2 : path.getLast? with
    | none => simp [h2] at h
    | some w =>
      simp only [h2, pure, Except.pure, Except.ok.injEq, Prod.mk.injEq] at h
      obtain ⟨rfl, rfl⟩ := h
      simp only [h1, h2]
      rfl

theorem hoo_pullN_idem {s s1 : HOO α R S} {v : Nat} (h : HOO.pull s = .ok (s1, v)) :
    ∀ q, hooPullN q s1 = .ok s1
  | 0 => rfl
  | q + 1 => by
    simp only [hooPullN, hoo_pull_idem h]
    exact hoo_pullN_idem h q

/-- `pull^q ; pull` = `pull`, on every state (also on failing ones). -/
theorem hoo_pullN_pull (s : HOO α R S) :
    ∀ q, (match hooPullN q s with
          | .error e => .error e
          | .ok s0 => HOO.pull s0) = HOO.pull s
  | 0 => rfl
  | q + 1 => by
    cases h : HOO.pull s with
    | error e => simp only [hooPullN, h]
    | ok r =>
      obtain ⟨s1, v⟩ := r
      simp only [hooPullN, h, hoo_pullN_idem h q]
      exact hoo_pull_idem h

/-! ### C16.3 -/

theorem hoo_pull_map (g : Box α → Box α) (s : HOO α R S) :
    HOO.pull (hooMapBox g s) = mapRes (hooMapBox g) id (HOO.pull s) := by
  unfold HOO.pull
  simp only [hooMapBox, bind, Except.bind, partMapBox_length,
    descend_map g s.P (fun _ => .ok true) (fun _ => .ok true) (fun _ => rfl)]
  cases descend s.P (fun _ => .ok true) (s.P.nodes.length + 1) 0 [0] with
  | error e => rfl
  | ok path =>
    simp only []
    cases path.getLast? with
    | none => rfl
    | some w => rfl

theorem hoo_updateReward_map (g : Box α → Box α) (cfg : HOOCfg R S) (P : Part α (TBSt R S))
    (id : Nat) (r : R) :
    HOO.updateReward cfg (partMapBox g P) id r = partMapBox g (HOO.updateReward cfg P id r) :=
  partMapBox_modifySt g P id _

variable {g : Box α → Box α} {gd : Draw α → Draw α}

theorem hoo_receive_map (hg : BoxEquivariant g gd) (cfg : HOOCfg R S) (s : HOO α R S) (r : R)
    (ds : List (Draw α)) :
    HOO.receive cfg (hooMapBox g s) r (ds.map gd) =
      mapRes (hooMapBox g) (List.map gd) (HOO.receive cfg s r ds) := by
  unfold HOO.receive
  simp only [hooMapBox]
  cases s.path with
  | none => rfl
  | some path =>
    simp only []
    have e1 : path.foldl (fun P id => HOO.updateReward cfg P id r) (partMapBox g s.P) =
        partMapBox g (path.foldl (fun P id => HOO.updateReward cfg P id r) s.P) :=
      foldl_comm (partMapBox g) _ _ (fun Q id => hoo_updateReward_map g cfg Q id r) path s.P
    rw [e1, forListed_map g _ (HOO.computeU cfg) (HOO.computeU cfg) (fun _ => rfl)]
    cases path.getLast? with
    | none => rfl
    | some last =>
      simp only [partMapBox_getElem?]
      cases (forListed (path.foldl (fun P id => HOO.updateReward cfg P id r) s.P)
          (HOO.computeU cfg)).nodes[last]? with
      | none => rfl
      | some nd =>
        simp only [Option.map_some, nodeMapBox_depth, bind, Except.bind]
        by_cases hx : cfg.expandOK nd.depth = true
        · simp only [hx, if_true, expand_map hg]
          cases Part.expand _ (HOO.st0 cfg) last ds with
          | error e => rfl
          | ok x =>
            obtain ⟨P3, ds'⟩ := x
            simp only [mapRes, backward_map]
            cases backward cfg.negInf P3 with
            | error e => rfl
            | ok P4 => rfl
        · simp only [hx, if_false, backward_map, Bool.false_eq_true]
          cases backward cfg.negInf (forListed (path.foldl (fun P id => HOO.updateReward cfg P id r) s.P)
              (HOO.computeU cfg)) with
          | error e => rfl
          | ok P4 => rfl

theorem hoo_init_map (hg : BoxEquivariant g gd) (cfg : HOOCfg R S) (k : Kind) (domain : Box α)
    (ds : List (Draw α)) :
    HOO.init cfg k (g domain) (ds.map gd) =
      mapRes (hooMapBox g) (List.map gd) (HOO.init cfg k domain ds) := by
  unfold HOO.init
  simp only [bind, Except.bind, ← partMapBox_init g, expand_map hg]
  cases Part.expand (Part.init k domain (HOO.st0 cfg)) (HOO.st0 cfg) 0 ds with
  | error e => rfl
  | ok x => rfl

/-! ### C14: the root box is never modified -/

theorem hoo_pull_P {s s1 : HOO α R S} {v : Nat} (h : HOO.pull s = .ok (s1, v)) : s1.P = s.P := by
  obtain ⟨path, rfl, _⟩ := hoo_pull_frame h
  rfl

theorem hoo_receive_boxesKept (cfg : HOOCfg R S) {s s1 : HOO α R S} {r : R}
    {ds ds' : List (Draw α)} (h : HOO.receive cfg s r ds = .ok (s1, ds')) : BoxesKept s.P s1.P := by
  unfold HOO.receive at h
  cases hp : s.path with
  | none => simp [hp] at h
  | some path =>
    simp only [hp] at h
    have k1 : BoxesKept s.P (path.foldl (fun P id => HOO.updateReward cfg P id r) s.P) :=
      boxesKept_foldl _ (fun Q id => boxesKept_modifySt Q id _) path s.P
    have k2 := boxesKept_trans k1 (boxesKept_forListed _ (HOO.computeU cfg))
    cases hl : path.getLast? with
    | none => simp [hl] at h
    | some last =>
      simp only [hl] at h
      cases hn : (forListed (path.foldl (fun P id => HOO.updateReward cfg P id r) s.P)
          (HOO.computeU cfg)).nodes[last]? with
      | none => simp [hn] at h
      | some nd =>
        simp only [hn, bind, Except.bind] at h
        by_cases hx : cfg.expandOK nd.depth = true
        · simp only [hx, if_true] at h
          cases he : Part.expand (forListed (path.foldl (fun P id => HOO.updateReward cfg P id r) s.P)
            (HOO.computeU cfg)) (HOO.st0 cfg) last ds with
          | error e => simp [he] at h
          | ok x =>
            obtain ⟨P3, ds3⟩ := x
            simp only [he] at h
            cases hb : backward cfg.negInf P3 with
            | error e => simp [hb] at h
            | ok P4 =>
              simp only [hb, pure, Except.pure, Except.ok.injEq, Prod.mk.injEq] at h
              obtain ⟨rfl, _⟩ := h
              exact boxesKept_trans k2 (boxesKept_trans (boxesKept_expand _ _ _ _ _ _ he)
                (boxesKept_backward _ _ _ hb))
        · simp only [hx, if_false, Bool.false_eq_true] at h
          cases hb : backward cfg.negInf (forListed (path.foldl (fun P id => HOO.updateReward cfg P id r) s.P)
            (HOO.computeU cfg)) with
          | error e => simp [hb] at h
          | ok P4 =>
            simp only [hb, pure, Except.pure, Except.ok.injEq, Prod.mk.injEq] at h
            obtain ⟨rfl, _⟩ := h
            exact boxesKept_trans k2 (boxesKept_backward _ _ _ hb)

theorem hoo_init_rootBox (cfg : HOOCfg R S) (k : Kind) (domain : Box α) {ds ds' : List (Draw α)}
    {s : HOO α R S} (h : HOO.init cfg k domain ds = .ok (s, ds')) : rootBox s.P = some domain := by
  unfold HOO.init at h
  simp only [bind, Except.bind] at h
  cases he : Part.expand (Part.init k domain (HOO.st0 cfg)) (HOO.st0 cfg) 0 ds with
  | error e => simp [he] at h
  | ok x =>
    obtain ⟨P1, ds1⟩ := x
    simp only [he, pure, Except.pure, Except.ok.injEq, Prod.mk.injEq] at h
    obtain ⟨rfl, _⟩ := h
    exact boxesKept_rootBox (boxesKept_expand _ _ _ _ _ _ he) rfl

end hoo

end RL
end PyXAB
