/-
  Generic lemmas for C08: running "last maximum" folds, `find?` over the flattened layers,
  the extension relation `Ext`.
-/
import Mathlib.Order.Defs.LinearOrder
import PyXABProofs.Spec.SweepSpec
import PyXABProofs.Lemmas.TBA_Rel

set_option linter.unusedSectionVars false

namespace PyXAB
namespace SW
open Tree TBA

variable {α σ S : Type}

/-! ### Running last maximum -/

section am
variable [LinearOrder S]

/-- one step of `if value >= max_value: max_value, max_node = value, node` -/
def amStep (f : Nat → Option S) (acc : S × Option Nat) (id : Nat) : S × Option Nat :=
  match f id with
  | none => acc
  | some x => if acc.1 ≤ x then (x, some id) else acc

def amFold (f : Nat → Option S) (l : List Nat) (acc : S × Option Nat) : S × Option Nat :=
  l.foldl (amStep f) acc

@[simp] theorem amFold_nil (f : Nat → Option S) (acc : S × Option Nat) : amFold f [] acc = acc := rfl

@[simp] theorem amFold_cons (f : Nat → Option S) (a : Nat) (l : List Nat) (acc : S × Option Nat) :
    amFold f (a :: l) acc = amFold f l (amStep f acc a) := rfl

theorem amFold_append (f : Nat → Option S) (l1 l2 : List Nat) (acc : S × Option Nat) :
    amFold f (l1 ++ l2) acc = amFold f l2 (amFold f l1 acc) := by
  simp [amFold, List.foldl_append]

theorem amFold_congr {f g : Nat → Option S} {l : List Nat} (h : ∀ w ∈ l, f w = g w)
    (acc : S × Option Nat) : amFold f l acc = amFold g l acc := by
  induction l generalizing acc with
  | nil => rfl
  | cons a l ih =>
    simp only [amFold_cons]
    have : amStep f acc a = amStep g acc a := by
      simp only [amStep, h a (List.mem_cons_self ..)]
    rw [this]
    exact ih (fun w hw => h w (List.mem_cons_of_mem _ hw)) _

theorem amStep_le (f : Nat → Option S) (acc : S × Option Nat) (a : Nat) :
    acc.1 ≤ (amStep f acc a).1 ∧ ∀ y, f a = some y → y ≤ (amStep f acc a).1 := by
  unfold amStep
  cases h : f a with
  | none => simp
  | some x =>
    by_cases hc : acc.1 ≤ x
    · simp [hc]
    · simp only [hc, if_false, le_refl, true_and]
      intro y hy
      cases hy
      exact le_of_lt (not_le.1 hc)

/-- The result of the fold: either nothing was taken (every scored element is below the
initial value), or the result is the last maximal element. -/
theorem amFold_spec (f : Nat → Option S) : ∀ (l : List Nat) (acc : S × Option Nat),
    (amFold f l acc = acc ∧ ∀ w ∈ l, ∀ y, f w = some y → y < acc.1) ∨
    (∃ m x, amFold f l acc = (x, some m) ∧ acc.1 ≤ x ∧ IsLastMax f l m x)
  | [], acc => Or.inl ⟨rfl, by simp⟩
  | a :: l, acc => by
    rw [amFold_cons]
    obtain ⟨hle1, hle2⟩ := amStep_le f acc a
    rcases amFold_spec f l (amStep f acc a) with ⟨h1, h2⟩ | ⟨m, x, h1, h2, pre, post, e, h3, h4, h5⟩
    · -- nothing taken in the tail
      cases hfa : f a with
      | none =>
        have e : amStep f acc a = acc := by simp [amStep, hfa]
        rw [e] at h1 h2 ⊢
        left
        refine ⟨h1, ?_⟩
        intro w hw y hy
        rcases List.mem_cons.1 hw with rfl | hw
        · rw [hfa] at hy; cases hy
        · exact h2 w hw y hy
      | some xa =>
        by_cases hc : acc.1 ≤ xa
        · have e : amStep f acc a = (xa, some a) := by simp [amStep, hfa, hc]
          right
          refine ⟨a, xa, by rw [h1, e], hc, [], l, rfl, hfa, by simp, ?_⟩
          intro w hw y hy
          have := h2 w hw y hy
          rwa [e] at this
        · have e : amStep f acc a = acc := by simp [amStep, hfa, hc]
          rw [e] at h1 h2 ⊢
          left
          refine ⟨h1, ?_⟩
          intro w hw y hy
          rcases List.mem_cons.1 hw with rfl | hw
          · rw [hfa] at hy; cases hy
            exact not_le.1 hc
          · exact h2 w hw y hy
    · right
      refine ⟨m, x, h1, le_trans hle1 h2, a :: pre, post, by simp [e], h3, ?_, h5⟩
      intro w hw y hy
      rcases List.mem_cons.1 hw with rfl | hw
      · exact le_trans (hle2 y hy) h2
      · exact h4 w hw y hy

/-- Started from a bottom element: nothing is scored, or the last maximum. -/
theorem amFold_bot (f : Nat → Option S) (l : List Nat) (bot : S) (hbot : ∀ x, bot ≤ x) :
    (amFold f l (bot, none) = (bot, none) ∧ ∀ w ∈ l, f w = none) ∨
    (∃ m x, amFold f l (bot, none) = (x, some m) ∧ IsLastMax f l m x) := by
  rcases amFold_spec f l (bot, none) with ⟨h1, h2⟩ | ⟨m, x, h1, _, h3⟩
  · left
    refine ⟨h1, fun w hw => ?_⟩
    cases h : f w with
    | none => rfl
    | some y => exact absurd (h2 w hw y h) (not_lt.2 (hbot y))
  · exact Or.inr ⟨m, x, h1, h3⟩

theorem IsLastMax.mem {f : Nat → Option S} {l : List Nat} {m : Nat} {x : S}
    (h : IsLastMax f l m x) : m ∈ l := by
  obtain ⟨pre, post, e, _⟩ := h
  simp [e]

theorem IsLastMax.score {f : Nat → Option S} {l : List Nat} {m : Nat} {x : S}
    (h : IsLastMax f l m x) : f m = some x := by
  obtain ⟨_, _, _, h1, _⟩ := h
  exact h1

/-- every scored element is `≤` the last maximum -/
theorem IsLastMax.le {f : Nat → Option S} {l : List Nat} {m : Nat} {x : S}
    (h : IsLastMax f l m x) {w : Nat} (hw : w ∈ l) {y : S} (hy : f w = some y) : y ≤ x := by
  obtain ⟨pre, post, e, h1, h2, h3⟩ := h
  rw [e] at hw
  rcases List.mem_append.1 hw with hw | hw
  · exact h2 w hw y hy
  · rcases List.mem_cons.1 hw with rfl | hw
    · rw [h1] at hy; cases hy; exact le_refl _
    · exact le_of_lt (h3 w hw y hy)

theorem IsLastMax.congr {f g : Nat → Option S} {l : List Nat} {m : Nat} {x : S}
    (h : IsLastMax f l m x) (hfg : ∀ w ∈ l, f w = g w) : IsLastMax g l m x := by
  obtain ⟨pre, post, e, h1, h2, h3⟩ := h
  have hm : ∀ w, w ∈ pre ∨ w = m ∨ w ∈ post → w ∈ l := by
    intro w hw; rw [e]; simp only [List.mem_append, List.mem_cons]; exact hw
  refine ⟨pre, post, e, ?_, ?_, ?_⟩
  · rw [← hfg m (hm m (Or.inr (Or.inl rfl)))]; exact h1
  · intro w hw y hy
    rw [← hfg w (hm w (Or.inl hw))] at hy; exact h2 w hw y hy
  · intro w hw y hy
    rw [← hfg w (hm w (Or.inr (Or.inr hw)))] at hy; exact h3 w hw y hy

/-- In a duplicate-free list whose last element has a score which is a top element, the last
maximum is the last element. -/
theorem IsLastMax.eq_last {f : Nat → Option S} {l : List Nat} {m : Nat} {x : S}
    (h : IsLastMax f l m x) {z : Nat} {top : S} (hz : l.getLast? = some z) (hfz : f z = some top)
    (htop : ∀ y, y ≤ top) : m = z := by
  obtain ⟨pre, post, e, h1, h2, h3⟩ := h
  cases hp : post with
  | nil =>
    subst hp
    rw [e] at hz
    simpa using hz
  | cons p ps =>
    exfalso
    have hz' : z ∈ post := by
      have : (pre ++ m :: post).getLast? = post.getLast? := by
        rw [hp, List.getLast?_append, List.getLast?_cons_cons]
        cases hq : (p :: ps).getLast? with
        | none => simp at hq
        | some q => rfl
      rw [e, this] at hz
      exact List.mem_of_getLast? hz
    exact absurd (h3 z hz' top hfz) (not_lt.2 (htop x))

end am

/-! ### The running maximum of `StoSOO.scan` (it also records the list position) -/

section amO
variable [LinearOrder S]

def amStepO (f : Nat → Option S) (best : Option (Nat × Nat × S)) (j id : Nat) :
    Option (Nat × Nat × S) :=
  match f id with
  | none => best
  | some x =>
    match best with
    | none => some (j, id, x)
    | some (bj, bid, bb) => if bb ≤ x then some (j, id, x) else some (bj, bid, bb)

def amFoldO (f : Nat → Option S) : List Nat → Nat → Option (Nat × Nat × S) →
    Option (Nat × Nat × S)
  | [], _, best => best
  | id :: rest, j, best => amFoldO f rest (j + 1) (amStepO f best j id)

theorem amFoldO_congr {f g : Nat → Option S} : ∀ {l : List Nat} (_ : ∀ w ∈ l, f w = g w)
    (j : Nat) (best : Option (Nat × Nat × S)), amFoldO f l j best = amFoldO g l j best
  | [], _, _, _ => rfl
  | a :: l, h, j, best => by
    simp only [amFoldO]
    have : amStepO f best j a = amStepO g best j a := by
      simp only [amStepO, h a (List.mem_cons_self ..)]
    rw [this]
    exact amFoldO_congr (fun w hw => h w (List.mem_cons_of_mem _ hw)) _ _

/-- Spec of the fold started with an accumulator `some`. -/
theorem amFoldO_some (f : Nat → Option S) : ∀ (l : List Nat) (j bj bid : Nat) (bb : S),
    (amFoldO f l j (some (bj, bid, bb)) = some (bj, bid, bb) ∧
      ∀ w ∈ l, ∀ y, f w = some y → y < bb) ∨
    (∃ k m x, amFoldO f l j (some (bj, bid, bb)) = some (j + k, m, x) ∧ l[k]? = some m ∧
      bb ≤ x ∧ IsLastMax f l m x)
  | [], j, bj, bid, bb => Or.inl ⟨rfl, by simp⟩
  | a :: l, j, bj, bid, bb => by
    simp only [amFoldO]
    cases hfa : f a with
    | none =>
      have e : amStepO f (some (bj, bid, bb)) j a = some (bj, bid, bb) := by simp [amStepO, hfa]
      rw [e]
      rcases amFoldO_some f l (j + 1) bj bid bb with ⟨h1, h2⟩ | ⟨k, m, x, h1, h2, h3, pre, post, e', h4, h5, h6⟩
      · left
        refine ⟨h1, ?_⟩
        intro w hw y hy
        rcases List.mem_cons.1 hw with rfl | hw
        · rw [hfa] at hy; cases hy
        · exact h2 w hw y hy
      · right
        refine ⟨k + 1, m, x, by rw [h1]; congr 2; omega, by simpa using h2, h3,
          a :: pre, post, by simp [e'], h4, ?_, h6⟩
        intro w hw y hy
        rcases List.mem_cons.1 hw with rfl | hw
        · rw [hfa] at hy; cases hy
        · exact h5 w hw y hy
    | some xa =>
      by_cases hc : bb ≤ xa
      · have e : amStepO f (some (bj, bid, bb)) j a = some (j, a, xa) := by
          simp [amStepO, hfa, hc]
        rw [e]
        right
        rcases amFoldO_some f l (j + 1) j a xa with ⟨h1, h2⟩ | ⟨k, m, x, h1, h2, h3, pre, post, e', h4, h5, h6⟩
        · exact ⟨0, a, xa, by rw [h1]; rfl, by simp, hc, [], l, rfl, hfa, by simp, h2⟩
        · refine ⟨k + 1, m, x, by rw [h1]; congr 2; omega, by simpa using h2, le_trans hc h3,
            a :: pre, post, by simp [e'], h4, ?_, h6⟩
          intro w hw y hy
          rcases List.mem_cons.1 hw with rfl | hw
          · rw [hfa] at hy; cases hy; exact h3
          · exact h5 w hw y hy
      · have e : amStepO f (some (bj, bid, bb)) j a = some (bj, bid, bb) := by
          simp [amStepO, hfa, hc]
        rw [e]
        rcases amFoldO_some f l (j + 1) bj bid bb with ⟨h1, h2⟩ | ⟨k, m, x, h1, h2, h3, pre, post, e', h4, h5, h6⟩
        · left
          refine ⟨h1, ?_⟩
          intro w hw y hy
          rcases List.mem_cons.1 hw with rfl | hw
          · rw [hfa] at hy; cases hy; exact not_le.1 hc
          · exact h2 w hw y hy
        · right
          refine ⟨k + 1, m, x, by rw [h1]; congr 2; omega, by simpa using h2, h3,
            a :: pre, post, by simp [e'], h4, ?_, h6⟩
          intro w hw y hy
          rcases List.mem_cons.1 hw with rfl | hw
          · rw [hfa] at hy; cases hy; exact le_trans (le_of_lt (not_le.1 hc)) h3
          · exact h5 w hw y hy

/-- Spec of the fold started with `none`: nothing is scored, or the last maximum together
with its list position. -/
theorem amFoldO_none (f : Nat → Option S) : ∀ (l : List Nat) (j : Nat),
    (amFoldO f l j none = none ∧ ∀ w ∈ l, f w = none) ∨
    (∃ k m x, amFoldO f l j none = some (j + k, m, x) ∧ l[k]? = some m ∧ IsLastMax f l m x)
  | [], j => Or.inl ⟨rfl, by simp⟩
  | a :: l, j => by
    simp only [amFoldO]
    cases hfa : f a with
    | none =>
      have e : amStepO f none j a = none := by simp [amStepO, hfa]
      rw [e]
      rcases amFoldO_none f l (j + 1) with ⟨h1, h2⟩ | ⟨k, m, x, h1, h2, pre, post, e', h4, h5, h6⟩
      · left
        refine ⟨h1, ?_⟩
        intro w hw
        rcases List.mem_cons.1 hw with rfl | hw
        · exact hfa
        · exact h2 w hw
      · right
        refine ⟨k + 1, m, x, by rw [h1]; congr 2; omega, by simpa using h2,
          a :: pre, post, by simp [e'], h4, ?_, h6⟩
        intro w hw y hy
        rcases List.mem_cons.1 hw with rfl | hw
        · rw [hfa] at hy; cases hy
        · exact h5 w hw y hy
    | some xa =>
      have e : amStepO f none j a = some (j, a, xa) := by simp [amStepO, hfa]
      rw [e]
      right
      rcases amFoldO_some f l (j + 1) j a xa with ⟨h1, h2⟩ | ⟨k, m, x, h1, h2, h3, pre, post, e', h4, h5, h6⟩
      · exact ⟨0, a, xa, by rw [h1]; rfl, by simp, [], l, rfl, hfa, by simp, h2⟩
      · refine ⟨k + 1, m, x, by rw [h1]; congr 2; omega, by simpa using h2,
          a :: pre, post, by simp [e'], h4, ?_, h6⟩
        intro w hw y hy
        rcases List.mem_cons.1 hw with rfl | hw
        · rw [hfa] at hy; cases hy; exact h3
        · exact h5 w hw y hy

end amO

/-! ### `find?` over the flattened layers -/

theorem find?_flatten_of_layer {p : Nat → Bool} {v : Nat} : ∀ (L : List (List Nat)) (h : Nat)
    (l : List Nat), L[h]? = some l →
    (∀ h' l' w, h' < h → L[h']? = some l' → w ∈ l' → p w = false) →
    l.find? p = some v → L.flatten.find? p = some v
  | [], h, l, hl, _, _ => by simp at hl
  | l0 :: L, 0, l, hl, _, hv => by
    simp only [List.getElem?_cons_zero, Option.some.injEq] at hl
    subst hl
    simp [List.flatten_cons, List.find?_append, hv]
  | l0 :: L, h + 1, l, hl, hlow, hv => by
    have h0 : l0.find? p = none := by
      rw [List.find?_eq_none]
      intro w hw
      simp [hlow 0 l0 w (by omega) rfl hw]
    have := find?_flatten_of_layer L h l (by simpa using hl)
      (fun h' l' w hh hl' hw => hlow (h' + 1) l' w (by omega) (by simpa using hl') hw) hv
    simp [List.flatten_cons, List.find?_append, h0, this]

theorem find?_flatten_none {p : Nat → Bool} (L : List (List Nat))
    (hlow : ∀ (h' : Nat) (l' : List Nat) (w : Nat), L[h']? = some l' → w ∈ l' → p w = false) :
    L.flatten.find? p = none := by
  rw [List.find?_eq_none]
  intro w hw
  obtain ⟨l', h1, h2⟩ := List.mem_flatten.1 hw
  obtain ⟨h', hlt, h3⟩ := List.getElem_of_mem h1
  have : L[h']? = some l' := by rw [List.getElem?_eq_getElem hlt, h3]
  simp [hlow h' l' w this h2]

/-! ### `Ext` -/

namespace Ext
variable {ρ : σ → σ → Prop} {s0 : σ} {P P' P'' : Part α σ}

theorem refl (hr : ∀ a, ρ a a) (P : Part α σ) : Ext ρ s0 P P :=
  ⟨rfl, rfl, Nat.le_refl _, Nat.le_refl _,
    fun i nd hi => ⟨nd, hi, rfl, rfl, rfl, rfl, fun _ => rfl, hr _⟩,
    fun i nd' h1 h2 => absurd (lt_length_of_getElem? h2) (by omega)⟩

theorem trans (ht : ∀ a b c, ρ a b → ρ b c → ρ a c) (h1 : Ext ρ s0 P P') (h2 : Ext ρ s0 P' P'') :
    Ext ρ s0 P P'' where
  kind := h2.kind.trans h1.kind
  dimn := h2.dimn.trans h1.dimn
  len := Nat.le_trans h1.len h2.len
  depth := Nat.le_trans h1.depth h2.depth
  old := by
    intro i nd hi
    obtain ⟨b, b1, b2, b3, b4, b5, b6, b7⟩ := h1.old i nd hi
    obtain ⟨c, c1, c2, c3, c4, c5, c6, c7⟩ := h2.old i b b1
    refine ⟨c, c1, c2.trans b2, c3.trans b3, c4.trans b4, c5.trans b5, ?_, ht _ _ _ b7 c7⟩
    intro hne
    have := b6 hne
    rw [c6 (by rw [this]; exact hne), this]
  new := by
    intro i nd'' hi hn
    by_cases hlt : i < P'.nodes.length
    · obtain ⟨b, hb⟩ : ∃ b, P'.nodes[i]? = some b := ⟨_, List.getElem?_eq_getElem hlt⟩
      obtain ⟨c, c1, _, _, _, _, _, c7⟩ := h2.old i b hb
      obtain rfl := getElem?_inj c1 hn
      exact ht _ _ _ (h1.new i b hi hb) c7
    · exact h2.new i nd'' (by omega) hn

/-- a payload-only update is an extension -/
theorem of_prel {τ : Nat → Node α σ → Node α σ → Prop} (h : PRel τ P P')
    (hτ : ∀ i a b, τ i a b → ρ a.st b.st) : Ext ρ s0 P P' where
  kind := h.kind
  dimn := h.dimn_eq
  len := by rw [h.len]; exact Nat.le_refl _
  depth := by rw [h.depth]; exact Nat.le_refl _
  old := by
    intro i nd hi
    obtain ⟨nd', a1, a2, a3⟩ := h.node i nd hi
    exact ⟨nd', a1, a2.depth, a2.index, a2.parent, a2.box, fun _ => a2.children, hτ _ _ _ a3⟩
  new := by
    intro i nd' h1 h2
    have := lt_length_of_getElem? h2
    rw [h.len] at this
    omega

/-- one legal expansion of a leaf is an extension -/
theorem of_step (hr : ∀ a, ρ a a) {p : Nat} {nd : Node α σ} (S : Step P P' s0 p nd)
    (W : WF P) (hp : P.nodes[p]? = some nd) (hleaf : nd.children = none) : Ext ρ s0 P P' where
  kind := S.kind_eq
  dimn := S.dimn_eq W hp
  len := by rw [S.len]; omega
  depth := by rcases S.layers with ⟨_, _, e⟩ | ⟨_, _, e⟩ <;> omega
  old := by
    intro i x hi
    obtain ⟨x', a1, a2, a3, a4, a5, a6, a7, _⟩ := S.pres hp hi
    refine ⟨x', a1, a2, a3, a4, a5, ?_, by rw [a6]; exact hr _⟩
    intro hne
    by_cases hip : i = p
    · subst hip
      obtain rfl := getElem?_inj hp hi
      exact absurd hleaf hne
    · exact a7 hip
  new := by
    intro i x' h1 h2
    rcases S.inv hp h2 with ⟨x, a1, _⟩ | ⟨j, _, _, _, _, _, _, _, a8⟩
    · exact absurd (lt_length_of_getElem? a1) (by omega)
    · rw [a8]; exact hr _

theorem mono {ρ' : σ → σ → Prop} (h : Ext ρ s0 P P') (hm : ∀ a b, ρ a b → ρ' a b) :
    Ext ρ' s0 P P' :=
  ⟨h.kind, h.dimn, h.len, h.depth,
    fun i nd hi => by
      obtain ⟨nd', a1, a2, a3, a4, a5, a6, a7⟩ := h.old i nd hi
      exact ⟨nd', a1, a2, a3, a4, a5, a6, hm _ _ a7⟩,
    fun i nd' h1 h2 => hm _ _ (h.new i nd' h1 h2)⟩

end Ext

/-! ### Tests and scores under payload updates -/

theorem leafTest_eq_false_iff {P : Part α σ} {p : σ → Bool} {w : Nat} :
    leafTest P p w = false ↔
      ∀ nd, P.nodes[w]? = some nd → nd.children = none → p nd.st = false := by
  unfold leafTest
  cases h : P.nodes[w]? with
  | none => simp
  | some nd =>
    cases hc : nd.children <;> simp [hc]

theorem leafTest_eq_true_iff {P : Part α σ} {p : σ → Bool} {w : Nat} :
    leafTest P p w = true ↔
      ∃ nd, P.nodes[w]? = some nd ∧ nd.children = none ∧ p nd.st = true := by
  unfold leafTest
  cases h : P.nodes[w]? with
  | none => simp
  | some nd =>
    cases hc : nd.children <;> simp [hc]

theorem unvisitedLeaf_eq_true_iff {P : Part α (SwSt S)} {w : Nat} :
    unvisitedLeaf P w = true ↔
      ∃ nd, P.nodes[w]? = some nd ∧ nd.children = none ∧ nd.st.visited = false := by
  unfold unvisitedLeaf
  rw [leafTest_eq_true_iff]
  simp

theorem unvisitedLeaf_eq_false_iff {P : Part α (SwSt S)} {w : Nat} :
    unvisitedLeaf P w = false ↔
      ∀ nd, P.nodes[w]? = some nd → nd.children = none → nd.st.visited = true := by
  unfold unvisitedLeaf
  rw [leafTest_eq_false_iff]
  simp

theorem leafScore_eq_some_iff {P : Part α σ} {sc : σ → S} {w : Nat} {x : S} :
    leafScore P sc w = some x ↔
      ∃ nd, P.nodes[w]? = some nd ∧ nd.children = none ∧ sc nd.st = x := by
  unfold leafScore
  cases h : P.nodes[w]? with
  | none => simp
  | some nd =>
    cases hc : nd.children <;> simp [hc]

theorem leafScore_eq_none_iff {P : Part α σ} {sc : σ → S} {w : Nat} :
    leafScore P sc w = none ↔ ∀ nd, P.nodes[w]? = some nd → nd.children ≠ none := by
  unfold leafScore
  cases h : P.nodes[w]? with
  | none => simp
  | some nd =>
    cases hc : nd.children <;> simp [hc]

/-! ### Where the cells of a well-formed tree are listed -/

theorem WF_layer_exists {P : Part α σ} (W : WF P) {h : Nat} (hh : h ≤ P.depth) :
    ∃ l, P.layers[h]? = some l := by
  have : h < P.layers.length := by rw [W.layers_len]; omega
  exact ⟨_, List.getElem?_eq_getElem this⟩

theorem WF_mem_layer {P : Part α σ} (W : WF P) {i : Nat} {nd : Node α σ}
    (hi : P.nodes[i]? = some nd) : ∃ l, P.layers[nd.depth]? = some l ∧ i ∈ l := by
  obtain ⟨l, hl⟩ := WF_layer_exists W (W.depth_le i nd hi)
  exact ⟨l, hl, ((W.layers_mem _ l hl).2.2 i).2 ⟨nd, hi, rfl⟩⟩

theorem WF_mem_flatten {P : Part α σ} (W : WF P) {i : Nat} {nd : Node α σ}
    (hi : P.nodes[i]? = some nd) : i ∈ P.layers.flatten := by
  obtain ⟨l, hl, hm⟩ := WF_mem_layer W hi
  exact List.mem_flatten.2 ⟨l, List.mem_of_getElem? hl, hm⟩

theorem WF_node_of_mem_layer {P : Part α σ} (W : WF P) {h : Nat} {l : List Nat}
    (hl : P.layers[h]? = some l) {i : Nat} (hi : i ∈ l) :
    ∃ nd, P.nodes[i]? = some nd ∧ nd.depth = h :=
  ((W.layers_mem h l hl).2.2 i).1 hi

/-- the deepest layer is non-empty and consists of leaves -/
theorem WF_deepest_leaf {P : Part α σ} (W : WF P) :
    ∃ l w nd, P.layers[P.depth]? = some l ∧ w ∈ l ∧ P.nodes[w]? = some nd ∧
      nd.children = none ∧ nd.depth = P.depth := by
  obtain ⟨l, hl⟩ := WF_layer_exists W (Nat.le_refl P.depth)
  obtain ⟨_, hne, hm⟩ := W.layers_mem _ l hl
  obtain ⟨w, hw⟩ := List.exists_mem_of_ne_nil l hne
  obtain ⟨nd, h1, h2⟩ := (hm w).1 hw
  exact ⟨l, w, nd, hl, hw, h1, W.leaf_of_deepest h1 h2, h2⟩

end SW
end PyXAB
