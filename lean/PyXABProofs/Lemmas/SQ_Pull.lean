/-
  `SequOOL.pull` / `receive` from an invariant state: the model code unfolded along the
  branch fixed by the invariant, and the resulting state.
-/
import PyXABProofs.Lemmas.SQ_Core

set_option linter.unusedSectionVars false
set_option linter.unusedVariables false

namespace PyXAB
namespace SQ
open Tree TBA

variable {α S : Type} [Add α] [Sub α] [Mul α] [Div α] [OfNat α 2] [NatCast α]
variable [LinearOrder S] [Inhabited S] {negInf : S}

/-! ### The model code along the successful branch -/

/-- the selection of the cell to open by `pull` (and the number of unopened cells seen) -/
def Target (negInf : S) (s : SequOOL α S) (tgt num : Nat) : Prop :=
  (s.currDepth = 0 ∧ num = 0 ∧ ∃ rest, s.P.layers[0]? = some (tgt :: rest)) ∨
  (s.currDepth ≠ 0 ∧ ∃ layer, s.P.layers[s.currDepth]? = some layer ∧
    SequOOL.scan s.P layer 0 negInf none = .ok (num, some tgt))

/-- `pull` in the search phase, given the outcome of its intermediate steps. -/
theorem pull_unfold {s : SequOOL α S} {t tgt num c : Nat} {ds ds1 : List (Draw α)}
    {nd nd1 : Node α (SqSt S)} {P1 : Part α (SqSt S)} {cs : List Nat}
    (hcd : s.currDepth ≤ s.hmax) (htg : Target negInf s tgt num)
    (hnd : s.P.nodes[tgt]? = some nd)
    (hexp : (if nd.children.isNone then
        s.P.makeChildrenD SequOOL.st0 tgt (decide (s.currDepth ≥ s.P.depth)) ds
      else .ok (s.P, ds)) = .ok (P1, ds1))
    (hnd1 : P1.nodes[tgt]? = some nd1) (hcs : nd1.children = some cs)
    (hloc : s.loc < cs.length) (hc : cs[s.loc]? = some c) :
    SequOOL.pull negInf s t ds =
      if s.loc = cs.length - 1 then
        if s.currDepth = 0 then
          .ok ({ s with iteration := t, P := P1, loc := 0, currDepth := 1,
                        budget := some (s.hmax / 1), chosen := s.chosen ++ [c],
                        curr := some c }, ds1, c)
        else
          match s.budget with
          | none => .error .noneDeref
          | some b =>
            if b - 1 = 0 ∨ num = 1 then
              .ok ({ s with iteration := t,
                            P := P1.modifySt tgt (fun st => { st with opened := true }),
                            loc := 0, chosen := s.chosen ++ [c], curr := some c,
                            currDepth := s.currDepth + 1,
                            budget := some (s.hmax / (s.currDepth + 1)) }, ds1, c)
            else
              .ok ({ s with iteration := t,
                            P := P1.modifySt tgt (fun st => { st with opened := true }),
                            loc := 0, chosen := s.chosen ++ [c], curr := some c,
                            budget := some (b - 1) }, ds1, c)
      else
        .ok ({ s with iteration := t, P := P1, loc := s.loc + 1, chosen := s.chosen ++ [c],
                      curr := some c }, ds1, c) := by
  have hlast : s.loc = cs.length - 1 → cs.getLast? = some c := by
    intro h
    rw [List.getLast?_eq_getElem?, ← h]; exact hc
  unfold SequOOL.pull
  rcases htg with ⟨h0, rfl, rest, hl⟩ | ⟨h0, layer, hl, hsc⟩
  · simp only [bind, Except.bind, h0, Nat.zero_le, if_true, hl, hnd] at hexp ⊢
    simp only [hexp, hnd1, hcs, hloc, if_true, hc]
    by_cases hlc : s.loc = cs.length - 1
    · simp only [hlc, if_true, hlast hlc]
    · simp only [hlc, if_false]
  · simp only [bind, Except.bind, hcd, h0, if_true, if_false, hl, hsc, hnd, hexp, hnd1, hcs, hloc,
      hc]
    by_cases hlc : s.loc = cs.length - 1
    · simp only [hlc, if_true, hlast hlc]
      cases s.budget with
      | none => rfl
      | some b =>
        simp only [Bool.or_eq_true, decide_eq_true_eq]
    · simp only [hlc, if_false]

theorem Mid.mk' {s1 : SequOOL α S} {op : Bool} {mr : Nat} (C : Core negInf op mr s1)
    (hop : op = decide (0 < s1.loc)) (hmr : mr + 1 = s1.chosen.length)
    (hcu : s1.curr = some (mr + 1)) : Mid negInf s1 := by
  subst hop
  have e : s1.chosen.length - 1 = mr := by omega
  exact ⟨by rw [e]; exact C, by omega, by rw [hcu, hmr]⟩

/-- the cells of the current search layer have been evaluated -/
theorem Core.layer_rew {op : Bool} {mr : Nat} {s : SequOOL α S} (C : Core negInf op mr s)
    (hmr : mr = s.chosen.length) (hcd : 1 ≤ s.currDepth) {layer : List Nat} (hl : s.P.layers[s.currDepth]? = some layer) :
    ∀ id ∈ layer, isUnopened s.P id = true → ∃ r, firstRew s.P id = some r := by
  intro id hid _
  subst hmr
  obtain ⟨h1, h2⟩ := C.layer_le hcd hl hid
  obtain ⟨nd, n1, _⟩ := (mem_layer C.wf hl id).1 hid
  have := (C.rew id nd n1).1 h1 h2
  cases hr : nd.st.rewards with
  | nil => rw [hr] at this; cases this
  | cons r rs => exact ⟨r, by simp [firstRew, n1, hr]⟩

/-- The second half of `pull`: after the selected cell `tgt` has (been) expanded, the child
number `loc` is handed out. -/
theorem pull_handout {s sE : SequOOL α S} {t tgt num : Nat} {ds ds1 : List (Draw α)}
    {nd nd1 : Node α (SqSt S)} {P1 : Part α (SqSt S)}
    (hcd : s.currDepth ≤ s.hmax) (htg : Target negInf s tgt num)
    (hnd : s.P.nodes[tgt]? = some nd)
    (hexp : (if nd.children.isNone then
        s.P.makeChildrenD SequOOL.st0 tgt (decide (s.currDepth ≥ s.P.depth)) ds
      else .ok (s.P, ds)) = .ok (P1, ds1))
    (CE : Core negInf true s.chosen.length sE)
    (eP : sE.P = P1) (eh : sE.hmax = s.hmax) (ed : sE.currDepth = s.currDepth)
    (el : sE.loc = s.loc) (eb : sE.budget = s.budget) (ec : sE.chosen = s.chosen)
    (hnd1 : P1.nodes[tgt]? = some nd1)
    (hcs : nd1.children = some (List.range' (1 + s.chosen.length - s.loc) (K P1)))
    (hscE : 1 ≤ s.currDepth → ∃ layer, P1.layers[s.currDepth]? = some layer ∧
      SequOOL.scan P1 layer 0 negInf none = .ok (num, some tgt)) :
    ∃ s1, SequOOL.pull negInf s t ds = .ok (s1, ds1, s.chosen.length + 1) ∧ Mid negInf s1 ∧
      s1.chosen = s.chosen ++ [s.chosen.length + 1] ∧ s1.curr = some (s.chosen.length + 1) ∧
      s1.hmax = s.hmax ∧
      (s.loc + 1 < K P1 →
        s1.P = P1 ∧ s1.loc = s.loc + 1 ∧ s1.currDepth = s.currDepth ∧ s1.budget = s.budget) ∧
      (s.loc + 1 = K P1 → s.currDepth = 0 →
        s1.P = P1 ∧ s1.loc = 0 ∧ s1.currDepth = 1 ∧ s1.budget = some (s.hmax / 1)) ∧
      (s.loc + 1 = K P1 → 1 ≤ s.currDepth →
        s1.P = P1.modifySt tgt (fun st => { st with opened := true }) ∧ s1.loc = 0 ∧
        ∃ b, s.budget = some b ∧
          if b - 1 = 0 ∨ num = 1 then
            s1.currDepth = s.currDepth + 1 ∧ s1.budget = some (s.hmax / (s.currDepth + 1))
          else s1.currDepth = s.currDepth ∧ s1.budget = some (b - 1)) := by
  subst eP
  obtain ⟨_, _, _, _, _, t4, _, _⟩ := CE.opening rfl
  rw [el, ec] at t4
  have hKlt := CE.loc_lt
  rw [el] at hKlt
  have hloc : s.loc < (List.range' (1 + s.chosen.length - s.loc) (K sE.P)).length := by
    simpa using hKlt
  have hc : (List.range' (1 + s.chosen.length - s.loc) (K sE.P))[s.loc]? =
      some (s.chosen.length + 1) := by
    rw [List.getElem?_range' hKlt]; simp; omega
  have hpull := pull_unfold (t := t) hcd htg hnd hexp hnd1 hcs hloc hc
  rw [List.length_range'] at hpull
  by_cases hlast : s.loc + 1 = K sE.P
  · have hl1 : s.loc = K sE.P - 1 := by omega
    rw [if_pos hl1] at hpull
    by_cases h0 : s.currDepth = 0
    · rw [if_pos h0] at hpull
      refine ⟨_, hpull, ?_, rfl, rfl, rfl, fun h => by omega, fun _ _ => ⟨rfl, rfl, rfl, rfl⟩,
        fun _ h => by omega⟩
      refine Mid.mk' (op := false) (mr := s.chosen.length) ?_ (by simp) (by simp) rfl
      exact core_last0 CE (by rw [ed]; exact h0) (by rw [el]; exact hlast) rfl eh.symm rfl rfl
        (by rw [eh]) (by rw [ec])
    · rw [if_neg h0] at hpull
      have h1 : 1 ≤ s.currDepth := by omega
      obtain ⟨b, b1, _⟩ := CE.budget (by rw [ed]; exact h1)
      rw [eb] at b1
      rw [b1] at hpull
      obtain ⟨layer, hl, hsc⟩ := hscE h1
      have hlE : sE.P.layers[sE.currDepth]? = some layer := by rw [ed]; exact hl
      obtain ⟨hnum, harg⟩ := scan_result sE.P negInf layer
        (CE.layer_rew (congrArg List.length ec).symm (by rw [ed]; exact h1) hlE) hsc
      have hstay : ¬ (b - 1 = 0 ∨ num = 1) → b - 1 ≠ 0 ∧
          ∀ layer', sE.P.layers[sE.currDepth]? = some layer' →
            ∃ id ∈ layer', id ≠ tgt ∧ isUnopened sE.P id = true := by
        intro hn
        refine ⟨fun h => hn (Or.inl h), fun layer' hl' => ?_⟩
        obtain rfl : layer = layer' := getElem?_inj hlE hl'
        have hpos : 0 < layer.countP (isUnopened sE.P) :=
          List.countP_pos_iff.2 ⟨tgt, harg.mem, harg.unopened⟩
        exact exists_ne_of_countP (layer_nodup CE.wf hlE) (by omega)
      by_cases hadv : b - 1 = 0 ∨ num = 1
      · simp only [if_pos hadv] at hpull
        refine ⟨_, hpull, ?_, rfl, rfl, rfl, fun h => by omega, fun _ h => by omega,
          fun _ _ => ⟨rfl, rfl, b, b1, by rw [if_pos hadv]; exact ⟨rfl, rfl⟩⟩⟩
        refine Mid.mk' (op := false) (mr := s.chosen.length) ?_ (by simp) (by simp) rfl
        exact core_last (adv := true) CE (by rw [ed]; exact h1) (by rw [el]; exact hlast) hnd1
          (by rw [ec, el]; exact hcs) (eb.trans b1) (fun h => by cases h) rfl eh.symm
          (by simp [ed]) rfl (by simp [eh, ed]) (by rw [ec])
      · simp only [if_neg hadv] at hpull
        refine ⟨_, hpull, ?_, rfl, rfl, rfl, fun h => by omega, fun _ h => by omega,
          fun _ _ => ⟨rfl, rfl, b, b1, by rw [if_neg hadv]; exact ⟨rfl, rfl⟩⟩⟩
        refine Mid.mk' (op := false) (mr := s.chosen.length) ?_ (by simp) (by simp) rfl
        exact core_last (adv := false) CE (by rw [ed]; exact h1) (by rw [el]; exact hlast) hnd1
          (by rw [ec, el]; exact hcs) (eb.trans b1) (fun _ => hstay hadv) rfl eh.symm
          (by simp [ed]) rfl (by simp) (by rw [ec])
  · have hl1 : ¬ s.loc = K sE.P - 1 := by omega
    rw [if_neg hl1] at hpull
    refine ⟨_, hpull, ?_, rfl, rfl, rfl, fun _ => ⟨rfl, rfl, rfl, rfl⟩, fun h => absurd h hlast,
      fun h => absurd h hlast⟩
    refine Mid.mk' (op := true) (mr := s.chosen.length) ?_ (by simp) (by simp) rfl
    exact core_next CE (by rw [el]; omega) rfl eh.symm ed.symm (by simp [el]) eb.symm (by rw [ec])

/-- an expansion does not change what `scan` sees in the layers up to the split cell -/
theorem step_scan {P P1 : Part α (SqSt S)} {t : Nat} {tn : Node α (SqSt S)}
    (St : Step P P1 SequOOL.st0 t tn) (W : WF P) (ht : P.nodes[t]? = some tn) {h : Nat}
    (hh : h ≤ tn.depth) {layer : List Nat} (hl : P.layers[h]? = some layer) (num : Nat)
    (maxv : S) (maxn : Option Nat) :
    P1.layers[h]? = some layer ∧
      SequOOL.scan P1 layer num maxv maxn = SequOOL.scan P layer num maxv maxn := by
  refine ⟨(step_layer_keep St W ht hh).trans hl, scan_congr (P := P) (P' := P1) _ _ _ _ ?_⟩
  intro id hid
  obtain ⟨nd, n1, _⟩ := (mem_layer W hl id).1 hid
  obtain ⟨nd', m1, _, _, _, _, m2, _⟩ := St.pres ht n1
  exact view_of_st_eq n1 m1 m2

/-- Selection when no opening is in progress: the selected cell exists, has the current depth,
is a leaf, and (at a search depth) is the unopened argmax of the layer. -/
theorem select_fresh (hbot : ∀ x : S, negInf ≤ x) {s : SequOOL α S}
    (C : Core negInf false s.chosen.length s) (hcd : s.currDepth ≤ s.hmax) (hl0 : s.loc = 0) :
    ∃ (tgt num : Nat) (nd : Node α (SqSt S)), Target negInf s tgt num ∧
      s.P.nodes[tgt]? = some nd ∧ nd.depth = s.currDepth ∧ nd.children = none ∧
      Selected s tgt ∧
      (1 ≤ s.currDepth → nd.st.opened = false ∧ ∃ layer,
        s.P.layers[s.currDepth]? = some layer ∧ num = layer.countP (isUnopened s.P) ∧
        SequOOL.scan s.P layer 0 negInf none = .ok (num, some tgt)) := by
  have W := C.wf
  by_cases h0 : s.currDepth = 0
  · obtain ⟨rest, hl⟩ := layer0 W
    obtain ⟨r, r1, r2, _⟩ := W.root
    refine ⟨0, 0, r, Or.inl ⟨h0, rfl, rest, hl⟩, r1, by omega, ?_, ⟨fun _ => rfl, fun h => by omega⟩,
      fun h => by omega⟩
    cases hc : r.children with
    | none => rfl
    | some cs =>
      obtain ⟨hK, a, a1, _, a3, _⟩ := W.children 0 r cs r1 hc
      have hlen := C.len
      simp only [pend, Bool.false_eq_true, if_false] at hlen
      have := C.cd0 h0
      omega
  · have h1 : 1 ≤ s.currDepth := by omega
    obtain ⟨layer, hl⟩ := layer_exists W C.cd_le_depth
    obtain ⟨layer', id, u1, u2, u3⟩ := C.unopened h1 hcd
    obtain rfl := getElem?_inj hl u1
    obtain ⟨tgt, hsc, harg⟩ := scan_top s.P negInf hbot layer (C.layer_rew rfl h1 hl)
      ⟨id, u2, u3⟩
    obtain ⟨nd, n1, n2⟩ := (mem_layer W hl tgt).1 harg.mem
    obtain ⟨nd', n1', n3⟩ := isUnopened_iff.1 harg.unopened
    obtain rfl := getElem?_inj n1 n1'
    refine ⟨tgt, _, nd, Or.inr ⟨h0, layer, hl, hsc⟩, n1, n2, ?_,
      ⟨fun h => absurd h h0, fun _ => ⟨layer, hl, harg⟩⟩, fun _ => ⟨n3, layer, hl, rfl, hsc⟩⟩
    cases hc : nd.children with
    | none => rfl
    | some cs =>
      rcases C.ch_opened tgt nd cs n1 hc (by omega) with h | ⟨h, _⟩
      · rw [n3] at h; cases h
      · cases h

/-- Selection while an opening is in progress: the scan returns the cell being opened. -/
theorem select_cont (hbot : ∀ x : S, negInf ≤ x) {s : SequOOL α S}
    (C : Core negInf true s.chosen.length s) :
    ∃ (tgt num : Nat) (nd : Node α (SqSt S)), Target negInf s tgt num ∧
      s.P.nodes[tgt]? = some nd ∧ nd.depth = s.currDepth ∧
      nd.children = some (List.range' (1 + s.chosen.length - s.loc) (K s.P)) ∧
      Selected s tgt ∧
      (1 ≤ s.currDepth → nd.st.opened = false ∧ ∃ layer,
        s.P.layers[s.currDepth]? = some layer ∧ num = layer.countP (isUnopened s.P) ∧
        SequOOL.scan s.P layer 0 negInf none = .ok (num, some tgt)) := by
  have W := C.wf
  obtain ⟨t, tn, t1, t2, t3, t4, t5, t6⟩ := C.opening rfl
  by_cases h0 : s.currDepth = 0
  · obtain ⟨rest, hl⟩ := layer0 W
    obtain rfl := eq_zero_of_depth0 W t1 (by omega)
    exact ⟨0, 0, tn, Or.inl ⟨h0, rfl, rest, hl⟩, t1, t2, t5, ⟨fun _ => rfl, fun h => by omega⟩,
      fun h => by omega⟩
  · have h1 : 1 ≤ s.currDepth := by omega
    obtain ⟨a1, layer, num, a2, a3⟩ := t6 h1
    obtain ⟨hnum, harg⟩ := scan_result s.P negInf layer (C.layer_rew rfl h1 a2) a3
    exact ⟨t, num, tn, Or.inr ⟨h0, layer, a2, a3⟩, t1, t2, t5,
      ⟨fun h => absurd h h0, fun _ => ⟨layer, a2, harg⟩⟩, fun _ => ⟨a1, layer, a2, hnum, a3⟩⟩

theorem HeadOK.cons {k : Kind} {n : Nat} {ds : List (Draw α)} (h : HeadOK k n ds) :
    ∃ d rest, ds = d :: rest ∧ DrawOKLen k n d := by
  cases ds with
  | nil => cases h
  | cons d rest => exact ⟨d, rest, rfl, h⟩

/-- assembling the documented effect from the facts of `pull_handout` -/
theorem searchPull_of {s s1 : SequOOL α S} {tgt num : Nat} {nd1 : Node α (SqSt S)}
    {P1 : Part α (SqSt S)}
    (hK1 : K P1 = K s.P) (hkind : P1.kind = s.P.kind) (hdimn : dimn P1 = dimn s.P)
    (hloc : s.loc < K s.P) (hlm : s.loc ≤ s.chosen.length)
    (hsel : Selected s tgt) (hnd1 : P1.nodes[tgt]? = some nd1) (hdep : nd1.depth = s.currDepth)
    (hcs : nd1.children = some (List.range' (1 + s.chosen.length - s.loc) (K s.P)))
    (hun : 1 ≤ s.currDepth → nd1.st.opened = false)
    (hfresh : s.loc = 0 → s.P.isLeaf tgt = true ∧ 1 + s.chosen.length = s.P.nodes.length)
    (hcont : 0 < s.loc → P1 = s.P)
    (hframe : ∀ (i : Nat) (nd : Node α (SqSt S)), s.P.nodes[i]? = some nd →
      ∃ nd', P1.nodes[i]? = some nd' ∧ nd'.st.rewards = nd.st.rewards ∧ nd'.box = nd.box ∧
        ∀ cs, nd.children = some cs → nd'.children = some cs)
    (hnum : 1 ≤ s.currDepth → ∃ layer, s.P.layers[s.currDepth]? = some layer ∧
      num = layer.countP (isUnopened s.P))
    (f1 : s1.chosen = s.chosen ++ [s.chosen.length + 1])
    (f2 : s1.curr = some (s.chosen.length + 1)) (f3 : s1.hmax = s.hmax)
    (f4 : s.loc + 1 < K s.P →
        s1.P = P1 ∧ s1.loc = s.loc + 1 ∧ s1.currDepth = s.currDepth ∧ s1.budget = s.budget)
    (f5 : s.loc + 1 = K s.P → s.currDepth = 0 →
        s1.P = P1 ∧ s1.loc = 0 ∧ s1.currDepth = 1 ∧ s1.budget = some (s.hmax / 1))
    (f6 : s.loc + 1 = K s.P → 1 ≤ s.currDepth →
        s1.P = P1.modifySt tgt (fun st => { st with opened := true }) ∧ s1.loc = 0 ∧
        ∃ b, s.budget = some b ∧
          if b - 1 = 0 ∨ num = 1 then
            s1.currDepth = s.currDepth + 1 ∧ s1.budget = some (s.hmax / (s.currDepth + 1))
          else s1.currDepth = s.currDepth ∧ s1.budget = some (b - 1)) :
    SearchPull s s1 (s.chosen.length + 1) := by
  have hc : (List.range' (1 + s.chosen.length - s.loc) (K s.P))[s.loc]? =
      some (s.chosen.length + 1) := by
    rw [List.getElem?_range' hloc]; simp; omega
  -- the two shapes of the new arena
  have hP : (s1.P = P1 ∧ ¬ (s.loc + 1 = K s.P ∧ 1 ≤ s.currDepth)) ∨
      (s1.P = P1.modifySt tgt (fun st => { st with opened := true }) ∧
        s.loc + 1 = K s.P ∧ 1 ≤ s.currDepth) := by
    by_cases h : s.loc + 1 = K s.P
    · by_cases h0 : s.currDepth = 0
      · exact Or.inl ⟨(f5 h h0).1, by omega⟩
      · exact Or.inr ⟨(f6 h (by omega)).1, h, by omega⟩
    · exact Or.inl ⟨(f4 (by omega)).1, fun h' => h h'.1⟩
  have R := PRel_modifySt P1 tgt (fun st : SqSt S => { st with opened := true })
  refine
    { v_eq := rfl
      chosen := f1
      curr := f2
      hmax := f3
      kind := by
        rcases hP with ⟨e, _⟩ | ⟨e, _⟩ <;> rw [e]
        · exact hkind
        · exact hkind
      dimn := by
        rcases hP with ⟨e, _⟩ | ⟨e, _⟩ <;> rw [e]
        · exact hdimn
        · exact R.dimn_eq.trans hdimn
      cell := ?cell
      frame := by
        intro i nd hi
        obtain ⟨nd', n1, n2, nb, n3⟩ := hframe i nd hi
        rcases hP with ⟨e, _⟩ | ⟨e, _⟩ <;> rw [e]
        · exact ⟨nd', n1, n2, nb, n3⟩
        · exact ⟨_, getElem?_modifySt_of n1, by split <;> exact n2, by split <;> exact nb,
            fun cs hc => by split <;> exact n3 cs hc⟩
      next := fun h => (f4 h).2
      last0 := fun h h0 => (f5 h h0).2
      last := ?last }
  case cell =>
    have hfr : s.loc = 0 → s.P.isLeaf tgt = true ∧
        List.range' (1 + s.chosen.length - s.loc) (K s.P) =
          List.range' s.P.nodes.length (K s.P) := by
      intro h
      obtain ⟨a1, a2⟩ := hfresh h
      exact ⟨a1, by rw [h, Nat.sub_zero, a2]⟩
    rcases hP with ⟨e, hn⟩ | ⟨e, h1, h2⟩
    · refine ⟨tgt, nd1, _, hsel, by rw [e]; exact hnd1, hdep, hcs, by simp, hc, hfr, fun h => ?_,
        fun h => ?_⟩
      · have := hcont h
        subst this
        exact ⟨by rw [e], nd1, hnd1, hcs⟩
      · rw [hun h]
        have : ¬ s.loc + 1 = K s.P := fun h' => hn ⟨h', h⟩
        simp [this]
    · refine ⟨tgt, _, _, hsel, by rw [e]; exact getElem?_modifySt_of hnd1, ?_, ?_, by simp, hc,
        hfr, fun h => ?_, fun _ => ?_⟩
      · simp; exact hdep
      · simp; exact hcs
      · have := hcont h
        subst this
        exact ⟨by rw [e, R.len], nd1, hnd1, hcs⟩
      · simp [h1]
  case last =>
    intro h h1
    obtain ⟨_, a2, b, b1, b2⟩ := f6 h h1
    obtain ⟨layer, l1, l2⟩ := hnum h1
    subst l2
    exact ⟨a2, b, layer, b1, l1, b2⟩

/-- **`pull` in the search phase** never raises from an invariant state and has the documented
effect. -/
theorem pull_search (hbot : ∀ x : S, negInf ≤ x) {s : SequOOL α S} {t : Nat}
    {ds : List (Draw α)} (I : Inv negInf s) (hcd : s.currDepth ≤ s.hmax)
    (hds : HeadOK s.P.kind (dimn s.P) ds) :
    ∃ s1 ds1, SequOOL.pull negInf s t ds = .ok (s1, ds1, s.chosen.length + 1) ∧
      Mid negInf s1 ∧ SearchPull s s1 (s.chosen.length + 1) := by
  have W := I.wf
  have hKp := I.K_pos
  by_cases hl0 : s.loc = 0
  · have C : Core negInf false s.chosen.length s := by
      unfold Inv at I; rw [hl0] at I; simpa using I
    obtain ⟨tgt, num, nd, htg, hnd, hdep, hleaf, hsel, hsc⟩ := select_fresh hbot C hcd hl0
    obtain ⟨d, rest, rfl, hd⟩ := hds.cons
    obtain ⟨P1, hmk, W1, St⟩ := makeChildren_WF_step W SequOOL.st0 hnd hleaf
      (newlayer := decide (s.currDepth ≥ s.P.depth)) (by rw [hdep]) hd
    have hexp : (if nd.children.isNone then
        s.P.makeChildrenD SequOOL.st0 tgt (decide (s.currDepth ≥ s.P.depth)) (d :: rest)
        else .ok (s.P, d :: rest)) = .ok (P1, rest) := by
      simp [hleaf, makeChildrenD_cons hmk]
    have hK1 : K P1 = K s.P := St.K_eq W hnd
    have hn : s.P.nodes.length = 1 + s.chosen.length := by
      have := C.len; simpa [pend] using this
    have CE : Core negInf true s.chosen.length { s with P := P1 } :=
      core_expand C hcd hl0 hnd hdep hleaf St W1
        (fun h => by
          obtain ⟨a1, layer, a2, _, a3⟩ := hsc h
          exact ⟨a1, layer, num, a2, a3⟩) rfl rfl rfl rfl rfl rfl
    obtain ⟨s1, hp, hmid, f1, f2, f3, f4, f5, f6⟩ := pull_handout (t := t) hcd htg hnd hexp CE
      rfl rfl rfl rfl rfl rfl St.atp (by rw [hl0, Nat.sub_zero, hK1, ← hn])
      (fun h => by
        obtain ⟨_, layer, a2, _, a3⟩ := hsc h
        obtain ⟨b1, b2⟩ := step_scan St W hnd (by omega) a2 0 negInf none
        exact ⟨layer, b1, b2.trans a3⟩)
    refine ⟨s1, rest, hp, hmid, ?_⟩
    rw [hK1] at f4 f5 f6
    exact searchPull_of (tgt := tgt) (num := num) (P1 := P1) hK1 St.kind_eq (St.dimn_eq W hnd)
      C.loc_lt (by omega) hsel St.atp hdep (by rw [hl0, Nat.sub_zero, ← hn])
      (fun h => (hsc h).1)
      (fun _ => ⟨isLeaf_iff.2 ⟨nd, hnd, hleaf⟩, hn.symm⟩) (fun h => by omega)
      (fun i x hi => by
        obtain ⟨x', x1, _, _, _, xb, x3, x2, _⟩ := St.pres hnd hi
        refine ⟨x', x1, by rw [x3], xb, fun cs hc => (x2 ?_).trans hc⟩
        rintro rfl
        obtain rfl := getElem?_inj hi hnd
        rw [hleaf] at hc; cases hc)
      (fun h => by
        obtain ⟨_, layer, a2, a3, _⟩ := hsc h
        exact ⟨layer, a2, a3⟩) f1 f2 f3 f4 f5 f6
  · have hlp : 0 < s.loc := by omega
    have C : Core negInf true s.chosen.length s := by
      unfold Inv at I; simpa [hlp] using I
    obtain ⟨tgt, num, nd, htg, hnd, hdep, hch, hsel, hsc⟩ := select_cont hbot C
    obtain ⟨_, _, _, _, _, t4, _, _⟩ := C.opening rfl
    have hexp : (if nd.children.isNone then
        s.P.makeChildrenD SequOOL.st0 tgt (decide (s.currDepth ≥ s.P.depth)) ds
        else .ok (s.P, ds)) = .ok (s.P, ds) := by
      simp [hch]
    obtain ⟨s1, hp, hmid, f1, f2, f3, f4, f5, f6⟩ := pull_handout (t := t) hcd htg hnd hexp C
      rfl rfl rfl rfl rfl rfl hnd hch
      (fun h => by
        obtain ⟨_, layer, a2, _, a3⟩ := hsc h
        exact ⟨layer, a2, a3⟩)
    refine ⟨s1, ds, hp, hmid, ?_⟩
    exact searchPull_of (tgt := tgt) (num := num) (P1 := s.P) rfl rfl rfl
      C.loc_lt t4 hsel hnd hdep hch (fun h => (hsc h).1) (fun h => by omega) (fun _ => rfl)
      (fun i x hi => ⟨x, hi, rfl, rfl, fun _ hc => hc⟩)
      (fun h => by
        obtain ⟨_, layer, a2, a3, _⟩ := hsc h
        exact ⟨layer, a2, a3⟩) f1 f2 f3 f4 f5 f6

end SQ
end PyXAB
