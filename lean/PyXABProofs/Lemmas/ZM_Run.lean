/-
  Consequences of `Cover` (non-empty arm list, the cells of the arms tile the domain), `pull`
  from a `Cover` state, and `Cover` along good runs.
-/
import PyXABProofs.Lemmas.ZM_Main
import PyXABProofs.Lemmas.ZM_Pull
import PyXABProofs.Lemmas.ZM_Inv

set_option linter.unusedSectionVars false

namespace PyXAB
namespace ZM
open Zooming _root_.PyXAB.Tree

/-! ### list lemmas -/

theorem filter_range'_map {β γ : Type} (p : β → Bool) (f : β → γ) (q : Nat → Bool)
    (g : Nat → γ) : ∀ (l : List β) (k : Nat),
      (∀ i x, l[i]? = some x → q (k + i) = p x ∧ g (k + i) = f x) →
      ((List.range' k l.length).filter q).map g = (l.filter p).map f
  | [], _, _ => rfl
  | x :: l, k, h => by
    have h0 := h 0 x rfl
    have ih := filter_range'_map p f q g l (k + 1) (fun i y hy => by
      have := h (i + 1) y (by simpa using hy)
      rwa [show k + (i + 1) = k + 1 + i by omega] at this)
    simp only [List.length_cons, List.range'_succ, List.filter_cons]
    rw [Nat.add_zero] at h0
    rw [h0.1]
    cases p x <;> simp [ih, h0.2]

theorem filter_ne_middle {l₁ l₂ : List Nat} {c : Nat} (h : (l₁ ++ c :: l₂).Nodup) :
    (l₁ ++ c :: l₂).filter (· ≠ c) = l₁ ++ l₂ := by
  rw [List.nodup_middle, List.nodup_cons] at h
  have h1 : l₁.filter (· ≠ c) = l₁ :=
    List.filter_eq_self.2 (fun x hx => by
      have : x ≠ c := fun e => h.1 (e ▸ List.mem_append_left _ hx)
      simpa using this)
  have h2 : l₂.filter (· ≠ c) = l₂ :=
    List.filter_eq_self.2 (fun x hx => by
      have : x ≠ c := fun e => h.1 (e ▸ List.mem_append_right _ hx)
      simpa using this)
  rw [List.filter_append, List.filter_cons, h1, h2]
  simp

theorem lt_mem_left {l₁ l₂ : List Nat} {c x : Nat} (h : (l₁ ++ c :: l₂).Pairwise (· < ·))
    (hx : x ∈ l₁ ++ c :: l₂) (hlt : x < c) : x ∈ l₁ := by
  rw [List.pairwise_append] at h
  obtain ⟨_, h2, _⟩ := h
  rw [List.pairwise_cons] at h2
  simp only [List.mem_append, List.mem_cons] at hx
  rcases hx with hx | rfl | hx
  · exact hx
  · omega
  · have := h2.1 x hx; omega

/-! ### consequences of `Cover` -/
section cover
variable {α S : Type} [LinearOrder α]

/-- the ids of the leaves, in creation order -/
def leafIds (P : Part α Unit) : List Nat := (List.range P.nodes.length).filter (P.isLeaf ·)

theorem leafIds_boxes (P : Part α Unit) : (leafIds P).map (cellBox P) = leafBoxes P := by
  unfold leafIds leafBoxes
  rw [List.range_eq_range']
  refine filter_range'_map isLeafNode (·.box) _ _ P.nodes 0 ?_
  intro i x hx
  simp [Part.isLeaf, cellBox, hx, isLeafNode]

theorem mem_leafIds {P : Part α Unit} {c : Nat} :
    c ∈ leafIds P ↔ ∃ nd, LeafAt P c nd := by
  unfold leafIds LeafAt
  rw [List.mem_filter, isLeaf_iff, List.mem_range]
  constructor
  · exact fun h => h.2
  · rintro ⟨nd, h1, h2⟩
    exact ⟨lt_length_of_getElem? h1, nd, h1, h2⟩

theorem Cover.cells_perm {root : Box α} {s : Zooming α S} (hC : Cover root s) :
    (s.arms.map (·.cell)).Perm (leafIds s.P) := by
  have hnd : (leafIds s.P).Nodup := List.nodup_range.filter _
  rw [List.perm_ext_iff_of_nodup hC.nodup hnd]
  intro c
  rw [mem_leafIds]
  constructor
  · intro h
    obtain ⟨a, ha, rfl⟩ := List.mem_map.1 h
    obtain ⟨nd, h1, _⟩ := hC.arm_leaf a ha
    exact ⟨nd, h1⟩
  · rintro ⟨nd, h⟩
    obtain ⟨a, ha, rfl⟩ := hC.leaf_arm c nd h
    exact List.mem_map.2 ⟨a, ha, rfl⟩

/-- **(1c)** the cells of the active arms tile the domain. -/
theorem Cover.arm_cells_tile {root : Box α} {s : Zooming α S} (hC : Cover root s) :
    Tiles (s.arms.map (fun a => cellBox s.P a.cell)) root := by
  have h1 : s.arms.map (fun a => cellBox s.P a.cell) =
      (s.arms.map (·.cell)).map (cellBox s.P) := by rw [List.map_map]; rfl
  rw [h1]
  refine Tiles.perm ?_ hC.tiles
  rw [← leafIds_boxes]
  exact (hC.cells_perm.map _).symm

theorem Cover.arms_ne_nil {root : Box α} {s : Zooming α S} (hC : Cover root s) :
    s.arms ≠ [] := by
  have W := hC.wf
  have hl := W.lastLayer_spec
  obtain ⟨_, hne, hmem⟩ := W.layers_mem _ _ hl
  obtain ⟨c, hc⟩ := List.exists_mem_of_ne_nil _ hne
  obtain ⟨nd, h1, h2⟩ := (hmem c).1 hc
  obtain ⟨a, ha, _⟩ := hC.leaf_arm c nd ⟨h1, W.leaf_of_deepest h1 h2⟩
  exact List.ne_nil_of_mem ha

theorem Cover.with_best {root : Box α} {s : Zooming α S} (hC : Cover root s) (b : Option Nat) :
    Cover root { s with best := b } :=
  ⟨hC.wf, hC.root_box, hC.tiles, hC.arm_leaf, hC.leaf_arm, hC.nodup⟩

end cover

/-! ### `pull` and good runs -/
section run
variable {α R S : Type} [Field α] [LinearOrder α] [IsStrictOrderedRing α] [LinearOrder S]

theorem receive_cover (cfg : ZoomCfg R S) {root : Box α} {s s' : Zooming α S}
    (hC : Cover root s) {i : Nat} {a : Arm α S} (hb : s.best = some i)
    (ha : s.arms[i]? = some a) {r : R} {ds ds' : List (Draw α)} (hds : RecvDrawsOK cfg s ds)
    (hr : receive cfg s r ds = .ok (s', ds')) :
    Cover root s' ∧ s'.P.kind = s.P.kind ∧ dimn s'.P = dimn s.P := by
  obtain ⟨nd, hn, _, h⟩ := receive_cases cfg hC hb ha r hds
  rcases h with ⟨_, e, hC'⟩ | ⟨_, d, ds'', P2, l₁, c, l₂, cn, _, _, _, St, _, _, _, _, e, hC'⟩
  · rw [e] at hr; cases hr; exact ⟨hC', rfl, rfl⟩
  · rw [e] at hr; cases hr; exact ⟨hC', St.kind_eq, St.dimn_eq hC.wf hn.1⟩

theorem goodRun_cover {cfg : ZoomCfg R S} {k : Kind} {domain : Box α} (hv : Box.Valid domain)
    {s : Zooming α S} {H : List (Nat × R)} (hG : GoodRun cfg k domain s H) :
    Cover domain s ∧ Run cfg k domain s H ∧ s.P.kind = k ∧ dimn s.P = domain.length := by
  induction hG with
  | @init d ds ds' s hdl hd hi =>
    obtain ⟨s0, e, hC, hk, hdim, _⟩ := init_cover cfg k domain d ds hv hdl hd
    rw [e] at hi
    cases hi
    exact ⟨hC, Run.init e, hk, hdim⟩
  | round _ _ hp hds hr ih =>
    obtain ⟨hC, hRun, hk, hdim⟩ := ih
    obtain ⟨rfl, a, ha, _⟩ := pull_inv hp
    obtain ⟨hC', hk', hdim'⟩ := receive_cover cfg (hC.with_best _) rfl ha hds hr
    exact ⟨hC', Run.round hRun hp hr, hk'.trans hk, hdim'.trans hdim⟩

omit [Field α] [IsStrictOrderedRing α] [LinearOrder S] in
/-- For `BinaryPartition` the NumPy guarantee is just "the split dimension is in range". -/
theorem recvDrawsOK_binary (cfg : ZoomCfg R S) {root : Box α} {s : Zooming α S}
    (hC : Cover root s) (hk : s.P.kind = .binary) {d : Draw α} {ds' : List (Draw α)}
    (hd : d.dim < dimn s.P) : RecvDrawsOK cfg s (d :: ds') := by
  intro i a nd _ _ hn _
  refine ⟨d, ds', rfl, ?_, ?_⟩
  · rw [hk]; exact hd
  · rw [hk]; show d.dim < nd.box.length
    rw [hC.wf.boxlen _ _ hn]; exact hd

end run
end ZM
end PyXAB
