/-
  Optimism of DOO, geometry part: the invariant `GInv` ("every cell is a valid sub-box of the
  domain, the boxes of the leaves tile the domain, every cell is a cell box of the partition of
  the domain at its own depth") is established by `Part.init`, kept by payload-only updates and
  by every `make_children` on a leaf whose draw fits, hence by the instrumented `DOO.loopT` /
  `pullT`; it also holds in the tree `ev.before` of every expansion event.
-/
import PyXABProofs.Spec.OptSpec
import PyXABProofs.Lemmas.TT_SW

set_option linter.unusedSectionVars false
set_option linter.unusedVariables false

namespace PyXAB
namespace OPT
open _root_.PyXAB.Tree TBA SW TT ZM

/-! ### Payload-only updates do not change the list of leaf boxes -/
section plain
variable {α σ : Type}

theorem leafBoxes_prel {ρ : Nat → Node α σ → Node α σ → Prop} {P P' : Part α σ}
    (h : PRel ρ P P') : leafBoxes P' = leafBoxes P := by
  have key : P'.nodes.map (fun nd => (isLeafNode nd, nd.box)) =
      P.nodes.map (fun nd => (isLeafNode nd, nd.box)) := by
    apply List.ext_getElem?
    intro i
    simp only [List.getElem?_map]
    cases hi : P.nodes[i]? with
    | none =>
      have : P'.nodes[i]? = none := by
        rw [List.getElem?_eq_none_iff] at hi ⊢; rw [h.len]; exact hi
      simp [this]
    | some nd =>
      obtain ⟨nd', a1, a2, _⟩ := h.node i nd hi
      simp [a1, isLeafNode, a2.children, a2.box]
  have e : ∀ Q : Part α σ, leafBoxes Q =
      ((Q.nodes.map (fun nd => (isLeafNode nd, nd.box))).filter (·.1)).map (·.2) := by
    intro Q
    simp only [leafBoxes, List.filter_map, List.map_map]
    rfl
  rw [e, e, key]

end plain

/-! ### The geometric invariant -/
section field
variable {α σ : Type} [Field α] [LinearOrder α] [IsStrictOrderedRing α]

/-- The geometric invariant of the tree of a run on the domain `root`. -/
structure GInv (k : Kind) (root : Box α) (P : Part α σ) : Prop where
  dom : DomInv k root P
  tiles : Tiles (leafBoxes P) root
  cells : CellsOf k root P

theorem GInv.init {k : Kind} {root : Box α} (hroot : Box.Valid root) (s0 : σ) :
    GInv k root (Part.init k root s0) := by
  refine ⟨DomInv.init hroot s0, by rw [leafBoxes_init]; exact Tiles.self hroot, ?_⟩
  intro i nd hi
  have hlt := lt_length_of_getElem? hi
  simp only [Part.init, List.length_cons, List.length_nil] at hlt
  obtain rfl : i = 0 := by omega
  simp only [Part.init, List.getElem?_cons_zero, Option.some.injEq] at hi
  subst hi
  exact CellAt.root

theorem GInv.of_prel {ρ : Nat → Node α σ → Node α σ → Prop} {k : Kind} {root : Box α}
    {P P' : Part α σ} (hG : GInv k root P) (h : PRel ρ P P') : GInv k root P' := by
  refine ⟨DomInv.of_prel h hG.dom, by rw [leafBoxes_prel h]; exact hG.tiles, ?_⟩
  intro i nd' hi
  obtain ⟨nd, a1, a2, _⟩ := h.bwd hi
  rw [a2.box, a2.depth]
  exact hG.cells i nd a1

/-- Splitting a leaf with a fitting draw keeps the invariant. -/
theorem GInv.makeChildren {k : Kind} {root : Box α} {P P' : Part α σ} {s0 : σ} {p : Nat}
    {nd : Node α σ} {nl : Bool} {d : Draw α} (hG : GInv k root P)
    (hp : P.nodes[p]? = some nd) (hleaf : nd.children = none)
    (hd : DrawFits k root nd.box d) (h : P.makeChildren s0 p nl d = .ok P') :
    GInv k root P' := by
  obtain ⟨ps, pv, pl⟩ := hG.dom.box p nd hp
  have hok : DrawOK k nd.box d := hd pv ps
  have hokP : DrawOK P.kind nd.box d := by rw [hG.dom.kind]; exact hok
  refine ⟨(makeChildren_dom hG.dom hp hd h).1, (tiles_step hG.tiles hp hleaf hokP h).1, ?_⟩
  obtain ⟨hn, _⟩ := makeChildren_nodes hp h
  intro i x hi
  rw [hn] at hi
  by_cases hlt : i < P.nodes.length
  · rw [List.getElem?_append_left (by simpa using hlt), List.getElem?_set] at hi
    by_cases e : p = i
    · subst e
      simp only [hlt, if_true, Option.some.injEq] at hi
      subst hi
      exact hG.cells p nd hp
    · simp only [e, if_false] at hi
      exact hG.cells i x hi
  · rw [List.getElem?_append_right (by simpa using Nat.le_of_not_lt hlt)] at hi
    have hb := newKids_getElem?_box hi
    have hdep : x.depth = nd.depth + 1 := by
      simp only [Part.newKids, List.getElem?_mapIdx, Option.map_eq_some_iff] at hi
      obtain ⟨a, _, rfl⟩ := hi
      rfl
    rw [hdep]
    refine CellAt.child (hG.cells p nd hp) hok ?_
    rw [← hG.dom.kind]
    exact List.mem_of_getElem? hb

end field

/-! ### The instrumented loop of DOO -/
namespace DOO
open PyXAB.DOO
variable {α S : Type} [Field α] [LinearOrder α] [IsStrictOrderedRing α]
variable [LinearOrder S] [Inhabited S]

/-- One `pull` keeps the geometric invariant, and the invariant holds in the tree of every
expansion event, provided every expanded cell is a leaf (`EvOK.node`, proved in C08) and the
draws consumed by the expansions fit. -/
theorem loopT_geo (cfg : DOOCfg α S) {k : Kind} {root : Box α} :
    ∀ (fuel h : Nat) (maxv : S) (maxn : Option Nat) (P : Part α (SwSt S)) (ds : List (Draw α))
      (P' : Part α (SwSt S)) (ds' : List (Draw α)) (id : Nat) (tr : List (Ev α (SwSt S) S)),
      loopT cfg fuel h maxv maxn P ds = .ok (P', ds', id, tr) → GInv k root P →
      (∀ ev ∈ tr, ∃ nd, ev.before.nodes[ev.id]? = some nd ∧ nd.children = none) →
      ∀ rest : List (Ev α (SwSt S) S), EvDraws k root ds (tr ++ rest) →
        GInv k root P' ∧ EvDraws k root ds' rest ∧ ∀ ev ∈ tr, GInv k root ev.before
  | 0, _, _, _, _, _, _, _, _, _, h, _, _, _, _ => by simp [loopT] at h
  | fuel + 1, h, maxv, maxn, P, ds, P', ds', id, tr, hrun, hG, hleaf, rest, hE => by
    unfold loopT at hrun
    split at hrun
    case isFalse => simp at hrun
    case isTrue hh =>
      cases hdl : cfg.delta P h with
      | error e => simp [hdl] at hrun
      | ok δ =>
        cases hlay : P.layers[h]? with
        | none => simp [hdl, hlay] at hrun
        | some l =>
          cases hsc : scan cfg δ l P maxv maxn with
          | mk P1 res =>
            have g := Geo.of_prel (scan_spec cfg δ l P maxv maxn P1 res hsc).rel
            have hG1 : GInv k root P1 := hG.of_prel g
            simp only [hdl, hlay, hsc] at hrun
            cases res with
            | found id1 =>
              simp only [Except.ok.injEq, Prod.mk.injEq] at hrun
              obtain ⟨rfl, rfl, rfl, rfl⟩ := hrun
              exact ⟨hG1.of_prel (Geo.modifySt P1 id1 _), hE, by simp⟩
            | best maxv' maxn' =>
              simp only at hrun
              split at hrun
              case isFalse =>
                exact loopT_geo cfg fuel _ _ _ _ _ _ _ _ _ hrun hG1 hleaf rest hE
              case isTrue =>
                cases maxn' with
                | none => simp at hrun
                | some m =>
                  simp only at hrun
                  cases hm : P1.nodes[m]? with
                  | none => simp [hm] at hrun
                  | some nd =>
                    simp only [hm] at hrun
                    cases hmk : P1.makeChildrenD (st0 cfg) m (decide (nd.depth ≥ P1.depth)) ds with
                    | error e => simp [hmk] at hrun
                    | ok r2 =>
                      obtain ⟨P2, ds1⟩ := r2
                      simp only [hmk] at hrun
                      cases hrec : loopT cfg fuel 0 maxv' (some m) P2 ds1 with
                      | error e => simp [hrec] at hrun
                      | ok r3 =>
                        obtain ⟨P3, ds2, id3, tr2⟩ := r3
                        simp only [hrec, Except.ok.injEq, Prod.mk.injEq] at hrun
                        obtain ⟨rfl, rfl, rfl, rfl⟩ := hrun
                        obtain ⟨d, rfl, hmc⟩ := makeChildrenD_ok hmk
                        simp only [List.cons_append, EvDraws] at hE
                        obtain ⟨hd, hE'⟩ := hE
                        obtain ⟨nd', hm', hlf⟩ := hleaf _ (List.mem_cons_self ..)
                        obtain rfl := getElem?_inj hm hm'
                        have hG2 : GInv k root P2 := hG1.makeChildren hm hlf (hd nd hm) hmc
                        obtain ⟨a, b, c⟩ := loopT_geo cfg fuel _ _ _ _ _ _ _ _ _ hrec hG2
                          (fun ev hev => hleaf ev (List.mem_cons_of_mem _ hev)) rest hE'
                        refine ⟨a, b, ?_⟩
                        intro ev hev
                        rcases List.mem_cons.1 hev with rfl | hev
                        · exact hG1
                        · exact c ev hev

theorem pullT_geo (cfg : DOOCfg α S) {k : Kind} {root : Box α} {s s' : DOO α S} {t : Nat}
    {ds ds' : List (Draw α)} {v : Nat} {tr : List (Ev α (SwSt S) S)}
    (hG : GInv k root s.P)
    (hleaf : ∀ ev ∈ tr, ∃ nd, ev.before.nodes[ev.id]? = some nd ∧ nd.children = none)
    (hE : EvDraws k root ds tr)
    (h : pullT cfg s t ds = .ok (s', ds', v, tr)) :
    GInv k root s'.P ∧ ∀ ev ∈ tr, GInv k root ev.before := by
  unfold pullT at h
  split at h
  · cases h
  · rename_i P1 ds1 id1 tr1 hs
    simp only [Except.ok.injEq, Prod.mk.injEq] at h
    obtain ⟨rfl, rfl, rfl, rfl⟩ := h
    obtain ⟨a, _, c⟩ := loopT_geo cfg _ _ _ _ _ _ _ _ _ _ hs hG hleaf [] (by simpa using hE)
    exact ⟨a, c⟩

end DOO
end OPT
end PyXAB
