/-
  StroquOOL: elementary facts — `Except` binds, `compMean`, payload updates, and the closed
  forms of the folds of `lastPoint` and `buildCandidates`.
-/
import PyXABProofs.Spec.SkSpec
import PyXABProofs.Lemmas.TBA_Rel

set_option linter.unusedSectionVars false

namespace PyXAB
namespace SK
open Tree TBA StroquOOL

variable {α R S : Type}

/-! ### `Except` -/

theorem bind_ok {ε β γ : Type} {x : Except ε β} {f : β → Except ε γ} {y : γ} :
    (x >>= f) = .ok y ↔ ∃ a, x = .ok a ∧ f a = .ok y := by
  cases x with
  | error e => simp [bind, Except.bind]
  | ok a => simp [bind, Except.bind]

theorem pure_ok {ε β : Type} {a y : β} : (pure a : Except ε β) = .ok y ↔ a = y := by
  simp [pure, Except.pure]

/-! ### Partitions: extensionality through `getElem?` -/

theorem part_ext {σ : Type} {P Q : Part α σ} (hk : P.kind = Q.kind) (hl : P.layers = Q.layers)
    (hd : P.depth = Q.depth) (hn : ∀ j : Nat, P.nodes[j]? = Q.nodes[j]?) : P = Q := by
  cases P; cases Q
  simp only [Part.mk.injEq]
  exact ⟨hk, List.ext_getElem? hn, hl, hd⟩

section model
variable [LE S] [DecidableLE S]

/-! ### `compMean` -/

theorem compMean_visited (cfg : SkCfg R S) (st : SkSt R S) :
    (compMean cfg st).visited = st.visited := by
  unfold compMean; split <;> rfl

theorem compMean_rewards (cfg : SkCfg R S) (st : SkSt R S) :
    (compMean cfg st).rewards = st.rewards := by
  unfold compMean; split <;> rfl

theorem compMean_opened (cfg : SkCfg R S) (st : SkSt R S) :
    (compMean cfg st).opened = st.opened := by
  unfold compMean; split <;> rfl

theorem compMean_mean (cfg : SkCfg R S) (st : SkSt R S) :
    (compMean cfg st).mean = if st.visited > 0 then cfg.meanOf st.rewards else st.mean := by
  unfold compMean; split <;> rfl

theorem compMean_idem (cfg : SkCfg R S) (st : SkSt R S) :
    compMean cfg (compMean cfg st) = compMean cfg st := by
  unfold compMean
  by_cases h : st.visited > 0 <;> simp [h]

/-! ### node-level views of the closed forms -/

theorem getElem?_refreshP (cfg : SkCfg R S) (P : Part α (SkSt R S)) (cands : List (Option Nat))
    (j : Nat) : (refreshP cfg P cands).nodes[j]? =
      (P.nodes[j]?).map (fun nd =>
        if some j ∈ cands then { nd with st := compMean cfg nd.st } else nd) := by
  simp only [refreshP, List.getElem?_mapIdx]

theorem getElem?_clearP (P : Part α (SkSt R S)) (cands : List (Option Nat)) (j : Nat) :
    (clearP P cands).nodes[j]? =
      (P.nodes[j]?).map (fun nd =>
        if some j ∈ cands then { nd with st := { nd.st with rewards := [] } } else nd) := by
  simp only [clearP, List.getElem?_mapIdx]

@[simp] theorem refreshP_length (cfg : SkCfg R S) (P : Part α (SkSt R S))
    (cands : List (Option Nat)) : (refreshP cfg P cands).nodes.length = P.nodes.length := by
  simp [refreshP]

@[simp] theorem clearP_length (P : Part α (SkSt R S)) (cands : List (Option Nat)) :
    (clearP P cands).nodes.length = P.nodes.length := by
  simp [clearP]

theorem refreshP_nil (cfg : SkCfg R S) (P : Part α (SkSt R S)) : refreshP cfg P [] = P := by
  refine part_ext rfl rfl rfl ?_
  intro j
  rw [getElem?_refreshP]
  cases P.nodes[j]? <;> simp

theorem clearP_nil (P : Part α (SkSt R S)) : clearP P [] = P := by
  refine part_ext rfl rfl rfl ?_
  intro j
  rw [getElem?_clearP]
  cases P.nodes[j]? <;> simp

theorem cmean_refreshP (cfg : SkCfg R S) (P : Part α (SkSt R S)) (cands : List (Option Nat))
    (c : Nat) : cmean cfg (refreshP cfg P cands) c = cmean cfg P c := by
  unfold cmean
  rw [getElem?_refreshP]
  cases P.nodes[c]? with
  | none => rfl
  | some nd =>
    by_cases h : some c ∈ cands <;> simp [h, compMean_idem]

/-- after the refresh the stored mean of a candidate is its `cmean` -/
theorem meanAt_refreshP (cfg : SkCfg R S) (P : Part α (SkSt R S)) (cands : List (Option Nat))
    {c : Nat} (hc : some c ∈ cands) :
    meanAt cfg.negInf (refreshP cfg P cands) c = cmean cfg P c := by
  unfold meanAt cmean
  rw [getElem?_refreshP]
  cases P.nodes[c]? with
  | none => rfl
  | some nd => simp [hc]

theorem refreshP_idem (cfg : SkCfg R S) (P : Part α (SkSt R S)) (cands : List (Option Nat)) :
    refreshP cfg (refreshP cfg P cands) cands = refreshP cfg P cands := by
  refine part_ext rfl rfl rfl ?_
  intro j
  rw [getElem?_refreshP, getElem?_refreshP]
  cases P.nodes[j]? with
  | none => rfl
  | some nd => by_cases h : some j ∈ cands <;> simp [h, compMean_idem]

/-- one loop step of `lastPoint` on the arena -/
theorem refreshP_cons (cfg : SkCfg R S) (P : Part α (SkSt R S)) (id : Nat)
    (nd : Node α (SkSt R S)) (hnd : P.nodes[id]? = some nd) (rest : List (Option Nat)) :
    refreshP cfg (P.modifySt id (fun _ => compMean cfg nd.st)) rest =
      refreshP cfg P (some id :: rest) := by
  refine part_ext rfl rfl rfl ?_
  intro j
  rw [getElem?_refreshP, getElem?_refreshP, getElem?_modifySt]
  cases hj : P.nodes[j]? with
  | none => rfl
  | some x =>
    by_cases hij : id = j
    · subst hij
      obtain rfl : nd = x := by simpa [hnd] using hj
      by_cases h : some id ∈ rest <;> simp [h, compMean_idem]
    · have : ¬ j = id := fun e => hij e.symm
      by_cases h : some j ∈ rest <;> simp [h, hij, this]

theorem clearP_cons (P : Part α (SkSt R S)) (id : Nat) (rest : List (Option Nat)) :
    clearP (P.modifySt id (fun st => { st with rewards := [] })) rest =
      clearP P (some id :: rest) := by
  refine part_ext rfl rfl rfl ?_
  intro j
  rw [getElem?_clearP, getElem?_clearP, getElem?_modifySt]
  cases hj : P.nodes[j]? with
  | none => rfl
  | some x =>
    by_cases hij : id = j
    · subst hij
      by_cases h : some id ∈ rest <;> simp [h]
    · have : ¬ j = id := fun e => hij e.symm
      by_cases h : some j ∈ rest <;> simp [h, hij, this]

/-! ### the fold of `buildCandidates` -/

theorem rs_fold : ∀ (cands : List (Option Nat)) (P : Part α (SkSt R S)),
    (∀ c ∈ cands, c ≠ none) → cands.foldlM rsStep P = .ok (clearP P cands)
  | [], P, _ => by rw [clearP_nil]; rfl
  | none :: _, _, h => absurd rfl (h none (List.mem_cons_self ..))
  | some id :: rest, P, h => by
    rw [List.foldlM_cons]
    simp only [rsStep, bind, Except.bind]
    rw [rs_fold rest _ (fun c hc => h c (List.mem_cons_of_mem _ hc)), clearP_cons]

theorem rs_fold_none : ∀ (cands : List (Option Nat)) (P : Part α (SkSt R S)),
    none ∈ cands → cands.foldlM rsStep P = .error .noneDeref
  | [], _, h => nomatch h
  | none :: _, _, _ => rfl
  | some id :: rest, P, h => by
    rw [List.foldlM_cons]
    simp only [rsStep, bind, Except.bind]
    exact rs_fold_none rest _ (by simpa using h)

/-! ### the fold of `lastPoint` -/

theorem pickLast_congr {f g : Nat → S} : ∀ (cands : List (Option Nat)) (acc : S × Option Nat),
    (∀ c, some c ∈ cands → f c = g c) → pickLast f cands acc = pickLast g cands acc
  | [], _, _ => rfl
  | none :: l, acc, h => by
    simp only [pickLast]
    exact pickLast_congr l acc (fun c hc => h c (List.mem_cons_of_mem _ hc))
  | some c :: l, acc, h => by
    simp only [pickLast]
    rw [h c (List.mem_cons_self ..), pickLast_congr l _ (fun c hc => h c (List.mem_cons_of_mem _ hc)),
      pickLast_congr l acc (fun c hc => h c (List.mem_cons_of_mem _ hc))]

/-- closed form of the loop of `lastPoint` when every candidate is a valid `some id` -/
theorem lp_fold (cfg : SkCfg R S) : ∀ (cands : List (Option Nat)) (P : Part α (SkSt R S))
    (best : S) (mx : Option Nat),
    (∀ c ∈ cands, ∃ id, c = some id ∧ id < P.nodes.length) →
    cands.foldlM (lpStep cfg) (P, best, mx) =
      .ok (refreshP cfg P cands, pickLast (cmean cfg P) cands (best, mx))
  | [], P, best, mx, _ => by rw [refreshP_nil]; rfl
  | c :: rest, P, best, mx, h => by
    obtain ⟨id, rfl, hid⟩ := h c (List.mem_cons_self ..)
    have hrest : ∀ c ∈ rest, ∃ id, c = some id ∧ id < P.nodes.length :=
      fun c hc => h c (List.mem_cons_of_mem _ hc)
    have hnd : P.nodes[id]? = some P.nodes[id] := List.getElem?_eq_getElem hid
    have hcm : cmean cfg P id = (compMean cfg P.nodes[id].st).mean := by simp [cmean, hnd]
    have hlen : (P.modifySt id (fun _ => compMean cfg P.nodes[id].st)).nodes.length =
        P.nodes.length := by simp [Part.modifySt, Part.modifyNode]
    have hcongr : ∀ acc, pickLast (cmean cfg
        (P.modifySt id (fun _ => compMean cfg P.nodes[id].st))) rest acc =
        pickLast (cmean cfg P) rest acc := by
      intro acc
      apply pickLast_congr
      intro c _
      have := cmean_refreshP cfg P [some id] c
      rw [← refreshP_cons cfg P id _ hnd, refreshP_nil] at this
      exact this
    rw [List.foldlM_cons]
    simp only [lpStep, hnd, bind, Except.bind]
    by_cases hb : best ≤ (compMean cfg P.nodes[id].st).mean
    · simp only [hb, if_true]
      rw [lp_fold cfg rest _ _ _ (by rw [hlen]; exact hrest), refreshP_cons cfg P id _ hnd, hcongr]
      simp only [pickLast, hcm, hb, if_true]
    · simp only [hb, if_false]
      rw [lp_fold cfg rest _ _ _ (by rw [hlen]; exact hrest), refreshP_cons cfg P id _ hnd, hcongr]
      simp only [pickLast, hcm, hb, if_false]

/-- the loop of `lastPoint` fails on a `none` entry or a dangling id -/
theorem lp_fold_err (cfg : SkCfg R S) : ∀ (cands : List (Option Nat)) (P : Part α (SkSt R S))
    (best : S) (mx : Option Nat),
    ¬ (∀ c ∈ cands, ∃ id, c = some id ∧ id < P.nodes.length) →
    ∃ e, cands.foldlM (lpStep cfg) (P, best, mx) = .error e
  | [], _, _, _, h => absurd (fun _ hc => nomatch hc) h
  | none :: rest, P, best, mx, _ => ⟨.noneDeref, rfl⟩
  | some id :: rest, P, best, mx, h => by
    rw [List.foldlM_cons]
    cases hnd : P.nodes[id]? with
    | none => exact ⟨.badId, by simp [lpStep, hnd, bind, Except.bind]⟩
    | some nd =>
      have hid : id < P.nodes.length := lt_length_of_getElem? hnd
      have hlen : ∀ st', (P.modifySt id (fun _ => st')).nodes.length = P.nodes.length := by
        intro st'; simp [Part.modifySt, Part.modifyNode]
      have hrest : ¬ (∀ c ∈ rest, ∃ id, c = some id ∧ id < P.nodes.length) := by
        intro hr
        apply h
        intro c hc
        rcases List.mem_cons.1 hc with rfl | hc
        · exact ⟨id, rfl, hid⟩
        · exact hr c hc
      simp only [lpStep, hnd, bind, Except.bind]
      by_cases hb : best ≤ (compMean cfg nd.st).mean
      · simp only [hb, if_true]
        exact lp_fold_err cfg rest _ _ _ (by rw [hlen]; exact hrest)
      · simp only [hb, if_false]
        exact lp_fold_err cfg rest _ _ _ (by rw [hlen]; exact hrest)

/-- with valid ids, a `none` entry makes the loop raise `noneDeref` -/
theorem lp_fold_none (cfg : SkCfg R S) : ∀ (cands : List (Option Nat)) (P : Part α (SkSt R S))
    (best : S) (mx : Option Nat),
    (∀ c, some c ∈ cands → c < P.nodes.length) → none ∈ cands →
    cands.foldlM (lpStep cfg) (P, best, mx) = .error .noneDeref
  | [], _, _, _, _, h => nomatch h
  | none :: rest, P, best, mx, _, _ => rfl
  | some id :: rest, P, best, mx, hv, h => by
    rw [List.foldlM_cons]
    have hid : id < P.nodes.length := hv id (List.mem_cons_self ..)
    have hnd : P.nodes[id]? = some P.nodes[id] := List.getElem?_eq_getElem hid
    have hlen : ∀ st', (P.modifySt id (fun _ => st')).nodes.length = P.nodes.length := by
      intro st'; simp [Part.modifySt, Part.modifyNode]
    have hv' : ∀ c, some c ∈ rest → c < P.nodes.length :=
      fun c hc => hv c (List.mem_cons_of_mem _ hc)
    have h' : none ∈ rest := by simpa using h
    simp only [lpStep, hnd, bind, Except.bind]
    by_cases hb : best ≤ (compMean cfg P.nodes[id].st).mean
    · simp only [hb, if_true]
      exact lp_fold_none cfg rest _ _ _ (by rw [hlen]; exact hv') h'
    · simp only [hb, if_false]
      exact lp_fold_none cfg rest _ _ _ (by rw [hlen]; exact hv') h'

end model

end SK
end PyXAB
