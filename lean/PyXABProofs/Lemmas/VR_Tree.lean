/-
  Tree-level facts for VROOM: growth relation, layer sizes from "all shallow cells are
  internal", geometry of one expansion, `deepen`, and the construction `VROOM.init`.
-/
import PyXABProofs.Spec.VroomSpec
import PyXABProofs.Lemmas.TBA_Rel
import PyXABProofs.Lemmas.ZM_Tree
import Mathlib.Data.List.Nodup

set_option linter.unusedSectionVars false

namespace PyXAB
namespace VR
open _root_.PyXAB.Tree TBA

/-! ### `Grow` -/
section grow
variable {α σ : Type} {s0 : σ} {d : Nat} {P P' P'' : Part α σ}

theorem Grow.refl (s0 : σ) (d : Nat) (P : Part α σ) : Grow s0 d P P where
  kind := rfl
  dimn := rfl
  len := Nat.le_refl _
  old := fun i nd h => ⟨nd, h, rfl, rfl, rfl, rfl, rfl, fun _ => rfl⟩
  new := fun i nd' h hi => by
    have := lt_length_of_getElem? h; omega
  layers := fun _ _ => rfl
  depth := Nat.le_refl _

theorem Grow.trans (h1 : Grow s0 d P P') (h2 : Grow s0 d P' P'') : Grow s0 d P P'' where
  kind := h2.kind.trans h1.kind
  dimn := h2.dimn.trans h1.dimn
  len := Nat.le_trans h1.len h2.len
  old := by
    intro i nd hi
    obtain ⟨b, b0, b1, b2, b3, b4, b5, b6⟩ := h1.old i nd hi
    obtain ⟨c, c0, c1, c2, c3, c4, c5, c6⟩ := h2.old i b b0
    refine ⟨c, c0, c1.trans b1, c2.trans b2, c3.trans b3, c4.trans b4, c5.trans b5, fun hn => ?_⟩
    have := b6 hn
    rw [c6 (by rw [this]; exact hn), this]
  new := by
    intro i nd'' hi hle
    by_cases hlt : i < P'.nodes.length
    · obtain ⟨c, c0, c1, _, _, _, c5, _⟩ := h2.old i _ (List.getElem?_eq_getElem hlt)
      obtain rfl := getElem?_inj c0 hi
      obtain ⟨e1, e2⟩ := h1.new i _ (List.getElem?_eq_getElem hlt) hle
      exact ⟨by omega, c5.trans e2⟩
    · exact h2.new i nd'' hi (by omega)
  layers := fun h hh => (h2.layers h hh).trans (h1.layers h hh)
  depth := Nat.le_trans h1.depth h2.depth

theorem Grow.mono {d' : Nat} (h : Grow s0 d P P') (hd : d' ≤ d) : Grow s0 d' P P' where
  kind := h.kind
  dimn := h.dimn
  len := h.len
  old := h.old
  new := fun i nd' hi hle => by
    obtain ⟨e1, e2⟩ := h.new i nd' hi hle
    exact ⟨by omega, e2⟩
  layers := fun k hk => h.layers k (by omega)
  depth := h.depth

theorem Grow.K_eq (h : Grow s0 d P P') : K P' = K P := by
  simp only [K, h.dimn, h.kind]

/-- one legal expansion of a cell of depth `≥ d` -/
theorem Grow.of_step {p : Nat} {nd : Node α σ} (W : WF P) (S : Step P P' s0 p nd)
    (hp : P.nodes[p]? = some nd) (hleaf : nd.children = none) (hd : d ≤ nd.depth) :
    Grow s0 d P P' where
  kind := S.kind_eq
  dimn := S.dimn_eq W hp
  len := by rw [S.len]; omega
  old := by
    intro i x hx
    obtain ⟨x', g0, g1, g2, g3, g4, g5, g6, g7⟩ := S.pres hp hx
    refine ⟨x', g0, g1, g2, g3, g4, g5, fun hn => ?_⟩
    by_cases hip : i = p
    · subst hip
      obtain rfl := getElem?_inj hp hx
      exact absurd hleaf hn
    · exact g6 hip
  new := by
    intro i x' hx hle
    rcases S.inv hp hx with ⟨x, h0, _⟩ | ⟨j, _, _, hdep, _, _, _, _, hst⟩
    · have := lt_length_of_getElem? h0; omega
    · exact ⟨by omega, hst⟩
  layers := fun h hh => S.layers_keep (by omega) (by
    have := W.layers_len; have := W.depth_le p nd hp; omega)
  depth := by rcases S.layers with ⟨_, _, e⟩ | ⟨_, _, e⟩ <;> omega

end grow

/-! ### Layer sizes -/
section count
variable {α σ : Type} {P : Part α σ}

/-- the child list of `p` (empty for a leaf or a dangling id) -/
def kids (P : Part α σ) (p : Nat) : List Nat := ((P.nodes[p]?).bind (·.children)).getD []

theorem kids_eq {p : Nat} {pn : Node α σ} {cs : List Nat} (hp : P.nodes[p]? = some pn)
    (hcs : pn.children = some cs) : kids P p = cs := by
  simp [kids, hp, hcs]

theorem length_flatMap_const {β γ : Type} (f : β → List γ) (n : Nat) :
    ∀ l : List β, (∀ x ∈ l, (f x).length = n) → (l.flatMap f).length = n * l.length
  | [], _ => by simp
  | x :: l, h => by
    rw [List.flatMap_cons, List.length_append, h x (List.mem_cons_self ..),
      length_flatMap_const f n l (fun y hy => h y (List.mem_cons_of_mem _ hy)), List.length_cons,
      Nat.mul_succ, Nat.add_comm]

/-- Under `WF`, layer `h + 1` is a permutation of the concatenated child lists of layer `h`. -/
theorem layer_succ_perm (W : WF P) {h : Nat} {l l' : List Nat} (hl : P.layers[h]? = some l)
    (hl' : P.layers[h + 1]? = some l') : l'.Perm (l.flatMap (kids P)) := by
  obtain ⟨w1, _, w3⟩ := W.layers_mem h l hl
  obtain ⟨w1', _, w3'⟩ := W.layers_mem (h + 1) l' hl'
  have hkids : ∀ p, p ∈ l → ∀ c, c ∈ kids P p → ∃ pn cs, P.nodes[p]? = some pn ∧ pn.depth = h ∧
      pn.children = some cs ∧ c ∈ cs := by
    intro p hp c hc
    obtain ⟨pn, p1, p2⟩ := (w3 p).1 hp
    cases hcs : pn.children with
    | none => simp [kids, p1, hcs] at hc
    | some cs =>
      rw [kids_eq p1 hcs] at hc
      exact ⟨pn, cs, p1, p2, hcs, hc⟩
  rw [List.perm_ext_iff_of_nodup (w1'.imp (fun h => Nat.ne_of_lt h))]
  · intro c
    rw [w3', List.mem_flatMap]
    constructor
    · rintro ⟨cn, c1, c2⟩
      have hc0 : 0 < c := by
        apply Nat.pos_of_ne_zero
        rintro rfl
        obtain ⟨r, r1, r2, _⟩ := W.root
        obtain rfl := getElem?_inj r1 c1
        omega
      obtain ⟨p, pn, cs, _, _, p3, p4, p5, p6⟩ := W.parent c cn hc0 c1
      exact ⟨p, (w3 p).2 ⟨pn, p3, by omega⟩, by rw [kids_eq p3 p4]; exact p5⟩
    · rintro ⟨p, hp, hc⟩
      obtain ⟨pn, cs, p1, p2, p3, p4⟩ := hkids p hp c hc
      obtain ⟨_, cn, _, _, _, _, g1, _, _, g4⟩ := W.child_facts p1 p3 p4
      exact ⟨cn, g1, by omega⟩
  · rw [List.nodup_flatMap]
    constructor
    · intro p hp
      obtain ⟨pn, p1, _⟩ := (w3 p).1 hp
      cases hcs : pn.children with
      | none => simp [kids, p1, hcs]
      | some cs =>
        rw [kids_eq p1 hcs]
        obtain ⟨_, a, _, rfl, _⟩ := W.children p pn cs p1 hcs
        exact List.nodup_range'
    · refine (w1.imp (fun h => Nat.ne_of_lt h)).imp_of_mem ?_
      intro p q hp hq hpq
      show List.Disjoint (kids P p) (kids P q)
      intro c hc hc'
      obtain ⟨pn, cs, p1, _, p3, p4⟩ := hkids p hp c hc
      obtain ⟨qn, cs', q1, _, q3, q4⟩ := hkids q hq c hc'
      exact W.children_disjoint p1 q1 p3 q3 hpq c p4 q4

/-- If every cell of layer `h` is internal, layer `h + 1` has `K` times as many cells. -/
theorem layer_succ_length (W : WF P) {h : Nat} {l l' : List Nat} (hl : P.layers[h]? = some l)
    (hl' : P.layers[h + 1]? = some l')
    (hint : ∀ p pn, p ∈ l → P.nodes[p]? = some pn → pn.children ≠ none) :
    l'.length = K P * l.length := by
  rw [(layer_succ_perm W hl hl').length_eq]
  apply length_flatMap_const
  intro p hp
  obtain ⟨pn, p1, _⟩ := ((W.layers_mem h l hl).2.2 p).1 hp
  cases hcs : pn.children with
  | none => exact absurd hcs (hint p pn hp p1)
  | some cs =>
    rw [kids_eq p1 hcs]
    exact (W.children_indices p1 hcs).1

theorem layer_zero (W : WF P) : P.layers[0]? = some [0] := by
  have hlt : 0 < P.layers.length := by rw [W.layers_len]; omega
  obtain ⟨w1, _, w3⟩ := W.layers_mem 0 _ (List.getElem?_eq_getElem hlt)
  rw [List.getElem?_eq_getElem hlt]
  congr 1
  refine eq_of_pairwise_lt_of_mem_iff _ _ w1 (by simp) (fun i => ?_)
  rw [w3]
  constructor
  · rintro ⟨nd, h1, h2⟩
    by_cases hi : i = 0
    · simp [hi]
    · have := W.depth_pos_of_pos (Nat.pos_of_ne_zero hi) h1; omega
  · intro hi
    obtain rfl : i = 0 := by simpa using hi
    obtain ⟨r, r1, r2, _⟩ := W.root
    exact ⟨r, r1, r2⟩

/-- **Layer sizes**: in a tree deepened to `sd` in which every cell above depth `sd` is
internal, layer `h ≤ sd` has exactly `K^h` cells. -/
theorem layersPow_of_internal (W : WF P) {sd : Nat} (hdeep : sd ≤ P.depth)
    (hint : Internal sd P) : LayersPow sd P := by
  intro h
  induction h with
  | zero => intro _; exact ⟨[0], layer_zero W, by simp⟩
  | succ h ih =>
    intro hh
    obtain ⟨l, hl, hlen⟩ := ih (by omega)
    have hlt : h + 1 < P.layers.length := by rw [W.layers_len]; omega
    refine ⟨_, List.getElem?_eq_getElem hlt, ?_⟩
    rw [layer_succ_length W hl (List.getElem?_eq_getElem hlt), hlen, Nat.pow_succ, Nat.mul_comm]
    intro p pn hp p1
    obtain ⟨pn', p1', p2⟩ := ((W.layers_mem h l hl).2.2 p).1 hp
    obtain rfl := getElem?_inj p1 p1'
    exact hint p pn p1 (by omega)

end count


/-! ### Geometry of one expansion -/
section geo
variable {α σ : Type} [Field α] [LinearOrder α] [IsStrictOrderedRing α]

/-- the boxes of the new nodes are the child boxes of the split cell -/
theorem new_box_mem {P P' : Part α σ} {s0 : σ} {p : Nat} {nd : Node α σ} {nl : Bool}
    {d : Draw α} (hp : P.nodes[p]? = some nd) (hm : P.makeChildren s0 p nl d = .ok P')
    {j : Nat} {cn : Node α σ} (hj : P'.nodes[P.nodes.length + j]? = some cn) :
    cn.box ∈ childBoxes P.kind nd.box d := by
  obtain ⟨hn, _⟩ := ZM.makeChildren_nodes hp hm
  rw [hn, List.getElem?_append_right (by simp)] at hj
  simp only [List.length_set, Nat.add_sub_cancel_left] at hj
  exact List.mem_of_getElem? (ZM.newKids_getElem?_box hj)

theorem Geo.step {P P' : Part α σ} {s0 : σ} {p : Nat} {nd : Node α σ} {nl : Bool}
    {d : Draw α} (W : WF P) (G : Geo P) (hp : P.nodes[p]? = some nd)
    (S : Step P P' s0 p nd) (hd : DrawOK P.kind nd.box d)
    (hm : P.makeChildren s0 p nl d = .ok P') : Geo P' := by
  have hT := (C02.childBoxes_tiles P.kind nd.box d (G.valid p nd hp) hd).1.1
  constructor
  · intro i x' hx
    rcases S.inv hp hx with ⟨x, h0, _, _, _, hb, _⟩ | ⟨j, _, rfl, _⟩
    · rw [hb]; exact G.valid i x h0
    · exact (hT _ (new_box_mem hp hm hx)).2
  · intro c cn p0 pn0 hc hpar hp0
    rcases S.inv hp hc with ⟨x, h0, _, _, hpar', hb, _⟩ | ⟨j, _, rfl, _, _, hpar', _⟩
    · have hc0 : 0 < c := by
        apply Nat.pos_of_ne_zero
        rintro rfl
        obtain ⟨r, r1, _, _, r4⟩ := W.root
        obtain rfl := getElem?_inj r1 h0
        rw [hpar', r4] at hpar; cases hpar
      obtain ⟨q, qn, cs, q1, _, q3, _⟩ := W.parent c x hc0 h0
      obtain rfl : q = p0 := by
        rw [hpar', q1] at hpar; exact Option.some.inj hpar
      obtain ⟨qn', g0, _, _, _, gb, _⟩ := S.pres hp q3
      obtain rfl := getElem?_inj g0 hp0
      rw [hb, gb]
      exact G.sub c x q qn h0 q1 q3
    · obtain rfl : p = p0 := by rw [hpar'] at hpar; exact Option.some.inj hpar
      obtain rfl := getElem?_inj S.atp hp0
      exact (hT _ (new_box_mem hp hm hc)).1

omit [Field α] [IsStrictOrderedRing α] in
theorem Geo.init (k : Kind) (domain : Box α) (s0 : σ) (hv : Box.Valid domain) :
    Geo (Part.init k domain s0) := by
  constructor
  · intro i nd h
    have : i = 0 := by
      have := lt_length_of_getElem? h; simp [Part.init] at this; exact this
    subst this
    simp [Part.init] at h; subst h; exact hv
  · intro c cn p pn hc hpar _
    have : c = 0 := by
      have := lt_length_of_getElem? hc; simp [Part.init] at this; exact this
    subst this
    simp [Part.init] at hc; subst hc; simp at hpar

omit [Field α] [IsStrictOrderedRing α] in
/-- payload-only updates keep the geometry -/
theorem Geo.of_PRel {ρ : Nat → Node α σ → Node α σ → Prop} {P P' : Part α σ}
    (h : PRel ρ P P') (G : Geo P) : Geo P' := by
  constructor
  · intro i nd' hi
    obtain ⟨nd, h1, h2, _⟩ := h.bwd hi
    rw [h2.box]; exact G.valid i nd h1
  · intro c cn' p pn' hc hpar hp
    obtain ⟨cn, c1, c2, _⟩ := h.bwd hc
    obtain ⟨pn, p1, p2, _⟩ := h.bwd hp
    rw [c2.box, p2.box]
    exact G.sub c cn p pn c1 (c2.parent.symm.trans hpar) p1

/-! ### `deepen` -/

theorem deepenLoop_VR (s0 : σ) (k : Kind) (D depth0 : Nat) (layer : List Nat) :
    ∀ (fuel i : Nat) (Q : Part α σ) (ds : List (Draw α)),
      WF Q → Geo Q → Q.kind = k → dimn Q = D → Q.layers[depth0]? = some layer →
      fuel + i = layer.length →
      Q.depth = (if i = 0 then depth0 else depth0 + 1) →
      (∀ j q, i ≤ j → layer[j]? = some q →
        ∃ qn, Q.nodes[q]? = some qn ∧ qn.children = none ∧ qn.depth = depth0) →
      fuel ≤ ds.length →
      (∀ (j q : Nat) (qn : Node α σ) (d : Draw α), j < fuel → layer[i + j]? = some q →
        Q.nodes[q]? = some qn → ds[j]? = some d → DrawOKLen k D d ∧ DrawOK k qn.box d) →
      ∃ Q', Part.deepenLoop s0 depth0 fuel i Q ds = .ok (Q', ds.drop fuel) ∧ WF Q' ∧ Geo Q' ∧
        Q'.depth = (if i = 0 ∧ fuel = 0 then depth0 else depth0 + 1) ∧
        Grow s0 depth0 Q Q' ∧
        (∀ j q, i ≤ j → layer[j]? = some q →
          ∃ qn, Q'.nodes[q]? = some qn ∧ qn.children ≠ none) := by
  intro fuel
  induction fuel with
  | zero =>
    intro i Q ds W G hk hD _ hlen hdep _ _ _
    refine ⟨Q, by simp [Part.deepenLoop], W, G, ?_, Grow.refl _ _ _, ?_⟩
    · by_cases hi : i = 0 <;> simp [hi, hdep]
    · intro j q hij hq
      have := lt_length_of_getElem? hq; omega
  | succ fuel ih =>
    intro i Q ds W G hk hD hlay hlen hdep hleaves hds hdraw
    have hi : i < layer.length := by omega
    obtain ⟨qn, q1, q2, q3⟩ := hleaves i layer[i] (Nat.le_refl _) (List.getElem?_eq_getElem hi)
    cases ds with
    | nil => simp at hds
    | cons d ds =>
      obtain ⟨hdl, hdk⟩ := hdraw 0 layer[i] qn d (by omega) (List.getElem?_eq_getElem hi) q1 rfl
      have hd : DrawOKLen Q.kind (dimn Q) d := by rw [hk, hD]; exact hdl
      have hfl : (i == 0) = decide (qn.depth ≥ Q.depth) := by
        rw [q3, hdep]
        have : ¬ (depth0 + 1 ≤ depth0) := by omega
        by_cases h0 : i = 0 <;> simp [h0, this]
      obtain ⟨Q', m1, W', S⟩ := makeChildren_WF_step W s0 q1 q2 hfl hd
      have G' : Geo Q' := Geo.step W G q1 S (by rw [hk]; exact hdk) m1
      have Gr : Grow s0 depth0 Q Q' := Grow.of_step W S q1 q2 (by omega)
      have hlay' : Q'.layers[depth0]? = some layer := by
        rw [S.layers_keep (by omega) (lt_length_of_getElem? hlay)]; exact hlay
      have hdep' : Q'.depth = depth0 + 1 := by
        rcases S.layers with ⟨e1, _, e3⟩ | ⟨e1, _, e3⟩
        · omega
        · rw [e3]; rw [q3] at e1; split at hdep <;> omega
      have hne : ∀ j q, i + 1 ≤ j → layer[j]? = some q → q ≠ layer[i] := by
        intro j q hj hq
        have := pairwise_lt_getElem? (W.layers_mem _ _ hlay).1
          (List.getElem?_eq_getElem hi) hq (by omega)
        omega
      have hleaves' : ∀ j q, i + 1 ≤ j → layer[j]? = some q →
          ∃ qn, Q'.nodes[q]? = some qn ∧ qn.children = none ∧ qn.depth = depth0 := by
        intro j q hj hq
        obtain ⟨qn0, a1, a2, a3⟩ := hleaves j q (by omega) hq
        obtain ⟨qn', b1, b2, _, _, _, _, b3, _⟩ := S.pres q1 a1
        exact ⟨qn', b1, (b3 (hne j q hj hq)).trans a2, b2.trans a3⟩
      have hdraw' : ∀ (j q : Nat) (qn : Node α σ) (d : Draw α), j < fuel →
          layer[i + 1 + j]? = some q → Q'.nodes[q]? = some qn → ds[j]? = some d →
          DrawOKLen k D d ∧ DrawOK k qn.box d := by
        intro j q qn' d' hj hq hq' hd'
        obtain ⟨qn0, a1, _⟩ := hleaves (i + 1 + j) q (by omega) hq
        obtain ⟨qn'', b1, _, _, _, b4, _⟩ := S.pres q1 a1
        obtain rfl := getElem?_inj b1 hq'
        rw [b4]
        exact hdraw (j + 1) q qn0 d' (by omega) (by rw [← hq]; congr 1; omega) a1
          (by simpa using hd')
      obtain ⟨Q'', r1, W'', G'', r3, Gr', r5⟩ := ih (i + 1) Q' ds W' G' (S.kind_eq.trans hk)
        ((S.dimn_eq W q1).trans hD) hlay' (by omega) (by simpa using hdep') hleaves'
        (by simpa using hds) hdraw'
      refine ⟨Q'', ?_, W'', G'', by simpa using r3, Gr.trans Gr', ?_⟩
      · simp only [Part.deepenLoop, hlay, List.getElem?_eq_getElem hi,
          makeChildrenD_cons m1, List.drop_succ_cons]
        exact r1
      · intro j q hij hq
        by_cases hji : j = i
        · subst hji
          obtain rfl : layer[j] = q := by
            rw [List.getElem?_eq_getElem hi] at hq; exact Option.some.inj hq
          obtain ⟨x', x0, _, _, _, _, _, x6⟩ := Gr'.old _ _ S.atp
          exact ⟨x', x0, by rw [x6 (by simp)]; simp⟩
        · exact r5 j q (by omega) hq

/-- `deepen()` under the invariants, with geometric draws. -/
theorem deepen_VR {P : Part α σ} (W : WF P) (G : Geo P) (s0 : σ) (ds : List (Draw α))
    (hds : DeepenDrawsOK P ds) :
    ∃ P', P.deepen s0 ds = .ok (P', ds.drop (lastLayer P).length) ∧ WF P' ∧ Geo P' ∧
      P'.depth = P.depth + 1 ∧ Grow s0 P.depth P P' ∧
      (∀ q, q ∈ lastLayer P → ∃ qn, P'.nodes[q]? = some qn ∧ qn.children ≠ none) := by
  have hl := W.lastLayer_spec
  have hne := (W.layers_mem _ _ hl).2.1
  have hpos : 0 < (lastLayer P).length := List.length_pos_iff.2 hne
  obtain ⟨P', h1, h2, h3, h4, h5, h6⟩ := deepenLoop_VR s0 P.kind (dimn P) P.depth (lastLayer P)
    (lastLayer P).length 0 P ds W G rfl rfl hl rfl rfl
    (fun j q _ hq => by
      obtain ⟨nd, a1, a2⟩ := ((W.layers_mem _ _ hl).2.2 q).1 (List.mem_of_getElem? hq)
      exact ⟨nd, a1, W.leaf_of_deepest a1 a2, a2⟩)
    hds.1
    (fun j q qn d _ hq hqn hd => hds.2 j q qn d (by simpa using hq) hqn hd)
  refine ⟨P', ?_, h2, h3, ?_, h5, fun q hq => ?_⟩
  · simp only [Part.deepen, hl]; exact h1
  · rw [h4]; simp; omega
  · obtain ⟨j, hj⟩ := List.mem_iff_getElem?.1 hq
    exact h6 j q (Nat.zero_le _) hj

theorem Internal.deepen {P P' : Part α σ} {s0 : σ} (W : WF P) (hI : Internal P.depth P)
    (Gr : Grow s0 P.depth P P')
    (hlast : ∀ q, q ∈ lastLayer P → ∃ qn, P'.nodes[q]? = some qn ∧ qn.children ≠ none) :
    Internal (P.depth + 1) P' := by
  intro i x' hx hdep
  by_cases hi : i < P.nodes.length
  · obtain ⟨y, y0, y1, _, _, _, _, y6⟩ := Gr.old i _ (List.getElem?_eq_getElem hi)
    obtain rfl := getElem?_inj y0 hx
    by_cases hlt : P.nodes[i].depth < P.depth
    · have hn := hI i _ (List.getElem?_eq_getElem hi) hlt
      rw [y6 hn]; exact hn
    · have hmem : i ∈ lastLayer P :=
        ((W.layers_mem _ _ W.lastLayer_spec).2.2 i).2 ⟨_, List.getElem?_eq_getElem hi, by omega⟩
      obtain ⟨qn, q0, q1⟩ := hlast i hmem
      obtain rfl := getElem?_inj q0 hx
      exact q1
  · have := (Gr.new i x' hx (by omega)).1
    omega

end geo


/-! ### `VROOM.init` -/
section init
variable {α R S : Type} [Field α] [LinearOrder α] [IsStrictOrderedRing α]

theorem deepenTo_VR (sd : Nat) : ∀ (fuel : Nat) (P : Part α (VrSt R S)) (ds : List (Draw α)),
    WF P → Geo P → Internal P.depth P → AllSt0 P → sd - P.depth ≤ fuel →
    InitDrawsOK (VROOM.st0 (R := R) (S := S)) sd fuel P ds →
    ∃ P' ds', VROOM.deepenTo sd fuel P ds = .ok (P', ds') ∧ WF P' ∧ Geo P' ∧
      Internal P'.depth P' ∧ AllSt0 P' ∧ P'.depth = max P.depth sd ∧ P'.kind = P.kind ∧
      dimn P' = dimn P ∧ boxOf P' 0 = boxOf P 0 := by
  intro fuel
  induction fuel with
  | zero =>
    intro P ds W G hI hA hf _
    have : ¬ P.depth < sd := by omega
    exact ⟨P, ds, by simp [VROOM.deepenTo, this], W, G, hI, hA, by omega, rfl, rfl, rfl⟩
  | succ fuel ih =>
    intro P ds W G hI hA hf hds
    by_cases hlt : P.depth < sd
    · obtain ⟨hd1, hd2⟩ := hds hlt
      obtain ⟨P1, m1, W1, G1, hdep, Gr, hlast⟩ := deepen_VR W G VROOM.st0 ds hd1
      have hI1 : Internal P1.depth P1 := by
        rw [hdep]; exact Internal.deepen W hI Gr hlast
      have hA1 : AllSt0 P1 := by
        intro i x' hx
        by_cases hi : i < P.nodes.length
        · obtain ⟨y, y0, _, _, _, _, y5, _⟩ := Gr.old i _ (List.getElem?_eq_getElem hi)
          obtain rfl := getElem?_inj y0 hx
          rw [y5]; exact hA i _ (List.getElem?_eq_getElem hi)
        · exact (Gr.new i x' hx (by omega)).2
      obtain ⟨P2, ds2, m2, W2, G2, hI2, hA2, hdep2, hk2, hD2, hB2⟩ :=
        ih P1 _ W1 G1 hI1 hA1 (by omega) (hd2 _ _ m1)
      have hB1 : boxOf P1 0 = boxOf P 0 := by
        obtain ⟨r, r0, _⟩ := W.root
        obtain ⟨r', g0, _, _, _, g4, _⟩ := Gr.old 0 r r0
        simp [boxOf, r0, g0, g4]
      refine ⟨P2, ds2, ?_, W2, G2, hI2, hA2, by omega, hk2.trans Gr.kind, hD2.trans Gr.dimn,
        hB2.trans hB1⟩
      simp only [VROOM.deepenTo, hlt, if_true, m1, bind, Except.bind]
      exact m2
    · exact ⟨P, ds, by simp [VROOM.deepenTo, hlt], W, G, hI, hA, by omega, rfl, rfl, rfl⟩

/-- **Construction**: with a valid domain and draws satisfying the NumPy guarantees,
`VROOM.__init__` succeeds and establishes the tree invariant; the tree has depth exactly `sd`
and every payload is empty. -/
theorem init_VR (cfg : VrCfg R S) (k : Kind) (domain : Box α) (ds : List (Draw α))
    (hv : Box.Valid domain)
    (hds : InitDrawsOK (VROOM.st0 (R := R) (S := S)) cfg.sd (cfg.sd + 1)
      (Part.init k domain VROOM.st0) ds) :
    ∃ s ds', VROOM.init cfg k domain ds = .ok (s, ds') ∧ TInv cfg.sd s.P ∧ AllSt0 s.P ∧
      s.P.depth = cfg.sd ∧ s.P.kind = k ∧ dimn s.P = domain.length ∧ boxOf s.P 0 = domain ∧
      s.prob = [] ∧ s.curr = none ∧ s.updateList = [] := by
  obtain ⟨P', ds', m, W, G, hI, hA, hdep, hk, hD, hB⟩ := deepenTo_VR cfg.sd (cfg.sd + 1)
    (Part.init k domain (VROOM.st0 (R := R) (S := S))) ds (init_WF' k domain _)
    (Geo.init k domain _ hv) (fun i nd _ h => by simp [Part.init] at h)
    (fun i nd h => by
      have : i = 0 := by
        have := lt_length_of_getElem? h; simp [Part.init] at this; exact this
      subst this
      simp [Part.init] at h; subst h; rfl)
    (by simp [Part.init]) hds
  have hdep' : P'.depth = cfg.sd := by rw [hdep]; simp [Part.init]
  refine ⟨{ P := P', iteration := 0, prob := [], curr := none, updateList := [] }, ds', ?_,
    ⟨W, Nat.le_of_eq hdep'.symm, hdep' ▸ hI, G⟩, hA, hdep', hk, hD, hB, rfl, rfl, rfl⟩
  simp only [VROOM.init, m, bind, Except.bind, pure, Except.pure]

end init

end VR
end PyXAB
