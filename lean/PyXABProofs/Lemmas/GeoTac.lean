/-
  Tactics that discharge the obligations emitted by harness/translate_geometry.py.
  They are *semantic* (normalise in an ordered field / linear arithmetic over ℕ), so a traced
  expression that differs from the model only by a harmless rewrite still closes, while a
  change of meaning does not.
-/
import PyXABModel.Model.Box
import Mathlib.Algebra.Order.Field.Basic
import Mathlib.Tactic.Ring
import Mathlib.Tactic.FieldSimp
import Mathlib.Tactic.Linarith
namespace PyXAB

/-- unfold the model's child-box computation on a literal box -/
macro "geo_unfold" : tactic => `(tactic|
  simp only [childBoxes, splitChain, splitAll, linspacePts, chainIvs, Iv.mid, Iv.lower, Iv.upper,
    PyXAB.mid, Box.cpoint, List.getElem?_cons_zero, List.getElem?_cons_succ, List.set_cons_zero,
    List.set_cons_succ, List.map_cons, List.map_nil, List.cons_append, List.nil_append,
    List.append_nil, List.range'_succ, List.range'_zero, List.flatMap_cons, List.flatMap_nil,
    List.take_succ_cons, List.take_zero, List.take_nil, List.length_cons, List.length_nil,
    Nat.reduceAdd, Nat.reduceSub, Nat.reduceMul, Nat.reducePow])

/-- children boxes: unfold, split the list/interval equalities, close each bound by `ring` -/
macro "geo_boxes" : tactic => `(tactic|
  (geo_unfold
   <;> (try simp only [List.cons.injEq, Iv.mk.injEq, and_true, true_and])
   <;> (try (repeat' constructor))
   <;> (try (push_cast; ring))))

macro "geo_cpoints" : tactic => `(tactic|
  (simp only [Box.cpoint, Iv.mid, PyXAB.mid, List.map_cons, List.map_nil]
   <;> (try simp only [List.cons.injEq, and_true, true_and])
   <;> (try (repeat' constructor))
   <;> (try ring)))

macro "geo_index" : tactic => `(tactic|
  (simp [childIndex, List.range, List.range.loop] <;> (try (repeat' constructor)) <;> omega))

end PyXAB
