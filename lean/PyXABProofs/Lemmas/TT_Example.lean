/-
  Concrete data for the non-vacuity examples of `Props/C01.lean`: a box over `ℚ`, draws of the
  deterministic classes and of `RandomBinaryPartition`, inputs of short runs, and the kernel
  evaluations which identify the cell handed out by the first `pull` of a T-HOO run on a
  `RandomBinaryPartition`.
-/
import PyXABProofs.Lemmas.TT_TB
import PyXABProofs.Lemmas.TBB_Example
import PyXABProofs.Props.C08
import Mathlib.Algebra.Order.Field.Rat
import Mathlib.Tactic.NormNum.Basic

namespace PyXAB
namespace TT
namespace Ex01
open _root_.PyXAB.Tree TBA TBB.Ex

/-- the box `[0,1] × [-1,3]` -/
def domQ : Box ℚ := [⟨0, 1⟩, ⟨-1, 3⟩]
/-- a draw of a deterministic class: only the split dimension -/
def dq (dim : Nat) : Draw ℚ := ⟨dim, []⟩
/-- a draw of `RandomBinaryPartition`: split dimension and split point -/
def dr (dim : Nat) (p : ℚ) : Draw ℚ := ⟨dim, [p]⟩

theorem domQ_valid : Box.Valid domQ := by
  intro iv hiv
  simp only [domQ, List.mem_cons, List.not_mem_nil, or_false] at hiv
  rcases hiv with rfl | rfl
  · show (0 : ℚ) ≤ 1; norm_num
  · show (-1 : ℚ) ≤ 3; norm_num

/-- inputs of a T-HOO / HCT run: (reward, draws offered to `receive`) -/
def inH : List (Nat × List (Draw ℚ)) := [(3, [dq 0]), (5, [dq 1]), (2, [dq 0]), (7, [dq 1])]

instance : Inhabited (HOO ℚ Nat (Fin 16)) := ⟨⟨default, 0, none⟩⟩

/-- T-HOO on a `RandomBinaryPartition`: the root is split at `x₀ = 1/3` -/
def rS0 : HOO ℚ Nat (Fin 16) := (getOk (HOO.init cfgH .randBinary domQ [dr 0 (1 / 3)])).1
def rP0 : HOO ℚ Nat (Fin 16) × Nat := getOk (HOO.pull rS0)

theorem rS0_eq : HOO.init cfgH .randBinary domQ [dr 0 (1 / 3)] =
    .ok (rS0, (getOk (HOO.init cfgH .randBinary domQ [dr 0 (1 / 3)])).2) :=
  getOk_spec2 (by decide +kernel)
theorem rP0_eq : HOO.pull rS0 = .ok (rP0.1, rP0.2) := getOk_spec2 (by decide +kernel)

/-- the first `pull` hands out cell `2 = [1/3,1] × [-1,3]` -/
theorem rP0_box : rP0.2 = 2 ∧ (rP0.1.P.nodes[rP0.2]?).map (·.box) = some [⟨1 / 3, 1⟩, ⟨-1, 3⟩] := by
  decide +kernel

/-- A split point inside `[1/3, 1]` is a good draw for that round: `GoodDraws` holds. -/
theorem rGood : TT.HOO.GoodDraws cfgH .randBinary domQ rS0 [(3, [dr 0 (1 / 2)])] := by
  intro s1 v hp
  rw [rP0_eq] at hp
  cases hp
  refine ⟨fun nd hn _ _ => ?_, fun _ _ _ => trivial⟩
  have hb : nd.box = [⟨1 / 3, 1⟩, ⟨-1, 3⟩] := by
    have := rP0_box.2
    rw [hn] at this
    simpa using this
  rw [hb]
  refine ⟨by decide, 1 / 2, rfl, ?_, ?_⟩
  · show (1 / 3 : ℚ) ≤ 1 / 2; norm_num
  · show (1 / 2 : ℚ) ≤ 1; norm_num

/-- the root draw `x₀ = 1/3 ∈ [0,1]` fits the domain -/
theorem rHead : HeadFits .randBinary domQ domQ [dr 0 (1 / 3)] := by
  intro _ _
  refine ⟨by decide, 1 / 3, rfl, ?_, ?_⟩
  · show (0 : ℚ) ≤ 1 / 3; norm_num
  · show (1 / 3 : ℚ) ≤ 1; norm_num

/-- inputs of SOO runs (scores `WithBot ℤ` as in `Props/C08.lean`) -/
def inS : List (SW.Input ℚ Ex08.Sc) :=
  [(1, [dq 0], Ex08.sc 5), (2, [dq 1], Ex08.sc (-3)), (3, [dq 0], Ex08.sc 7),
   (4, [dq 1], Ex08.sc 2)]

/-- inputs of a SequOOL run -/
def inQ : List (Ex08.Sc × List (Draw ℚ)) :=
  [(Ex08.sc 5, [dq 0]), (Ex08.sc (-3), [dq 1]), (Ex08.sc 7, [dq 0])]

/-- inputs of a StoSOO run (configuration `Ex08.cfgSto`) -/
def inSto : List (SW.Input ℚ Nat) :=
  [(1, [dq 0], 5), (2, [dq 1], 7), (3, [dq 0], 3), (4, [dq 1], 4)]

end Ex01
end TT
end PyXAB
