/-
  The descent loop `descend` never raises on a well-formed tree (ids strictly increase along
  child links, so `nodes.length + 1` units of fuel suffice) and returns a downward chain;
  chains and the ancestor relation.
-/
import PyXABProofs.Lemmas.TBA_Ops

namespace PyXAB
namespace TBA
open Tree

variable {α σ R S : Type}

/-! ### `pickChild` -/

theorem foldl_pick_mem {β : Type} (p : β → β → Prop) [DecidableRel p] :
    ∀ (cs : List β) (c : β), cs.foldl (fun m c' => if p m c' then c' else m) c ∈ c :: cs
  | [], c => by simp
  | d :: cs, c => by
    rw [List.foldl_cons]
    have ih := foldl_pick_mem p cs (if p c d then d else c)
    rcases List.mem_cons.1 ih with e | e
    · rw [e]; split <;> simp
    · exact List.mem_cons_of_mem _ (List.mem_cons_of_mem _ e)

theorem pickChild_mem [LE S] [DecidableLE S] (bOf : Nat → S) (c : Nat) (cs : List Nat) :
    ∃ m, pickChild bOf (c :: cs) = some m ∧ m ∈ c :: cs :=
  ⟨_, rfl, foldl_pick_mem (fun m c' => bOf m ≤ bOf c') cs c⟩

/-! ### Chains -/

theorem Child.facts {P : Part α σ} (W : WF P) {a b : Nat} (h : Child P a b) :
    a < b ∧ ∃ cn, P.nodes[b]? = some cn ∧ cn.parent = some a := by
  obtain ⟨nd, cs, h1, h2, h3⟩ := h
  obtain ⟨_, cn, _, _, _, c1, c2, c3, _⟩ := W.child_facts h1 h2 h3
  exact ⟨c1, cn, c2, c3⟩

theorem DownChain.tail_cons {P : Part α σ} {a b : Nat} {rest : List Nat}
    (h : DownChain P (a :: b :: rest)) : DownChain P (b :: rest) := h.2

theorem DownChain.all_valid {P : Part α σ} :
    ∀ {l : List Nat}, DownChain P l → ∀ v ∈ l, v < P.nodes.length
  | [], h, _, _ => h.elim
  | [a], h, v, hv => by
    have : v = a := by simpa using hv
    subst this; exact h
  | a :: b :: rest, h, v, hv => by
    rcases List.mem_cons.1 hv with e | e
    · subst e
      obtain ⟨nd, _, h1, _⟩ := h.1
      exact lt_length_of_getElem? h1
    · exact DownChain.all_valid h.2 v e

theorem DownChain.head_lt {P : Part α σ} (W : WF P) :
    ∀ {tail : List Nat} {a : Nat}, DownChain P (a :: tail) → ∀ v ∈ tail, a < v
  | [], _, _, _, hv => by cases hv
  | b :: rest, a, h, v, hv => by
    have hab := (Child.facts W h.1).1
    rcases List.mem_cons.1 hv with e | e
    · subst e; exact hab
    · exact Nat.lt_trans hab (DownChain.head_lt W h.2 v e)

theorem DownChain.nodup {P : Part α σ} (W : WF P) :
    ∀ {l : List Nat}, DownChain P l → l.Nodup
  | [], h => h.elim
  | [a], _ => by simp
  | a :: b :: rest, h => by
    rw [List.nodup_cons]
    refine ⟨fun hm => ?_, DownChain.nodup W h.2⟩
    exact Nat.lt_irrefl _ (DownChain.head_lt W h a hm)

theorem DownChain.getLast_valid {P : Part α σ} {l : List Nat} (h : DownChain P l) {v : Nat}
    (hv : l.getLast? = some v) : v < P.nodes.length :=
  h.all_valid v (List.mem_of_getLast? hv)

/-- A chain survives if child lists, once set, are kept. -/
theorem DownChain.mono {P P' : Part α σ} (hlen : P.nodes.length ≤ P'.nodes.length)
    (hch : ∀ a b, Child P a b → Child P' a b) :
    ∀ {l : List Nat}, DownChain P l → DownChain P' l
  | [], h => h.elim
  | [_], h => Nat.lt_of_lt_of_le h hlen
  | _ :: _ :: _, h => ⟨hch _ _ h.1, DownChain.mono hlen hch h.2⟩

theorem Child.of_prel {ρ : Nat → Node α σ → Node α σ → Prop} {P P' : Part α σ}
    (h : PRel ρ P P') {a b : Nat} (hc : Child P a b) : Child P' a b := by
  obtain ⟨nd, cs, h1, h2, h3⟩ := hc
  obtain ⟨nd', g1, g2, _⟩ := h.node a nd h1
  exact ⟨nd', cs, g1, g2.children.trans h2, h3⟩

theorem IsPath.of_prel {ρ : Nat → Node α σ → Node α σ → Prop} {P P' : Part α σ}
    (h : PRel ρ P P') {l : List Nat} (hp : IsPath P l) : IsPath P' l :=
  ⟨hp.1, DownChain.mono (Nat.le_of_eq h.len.symm) (fun _ _ => Child.of_prel h) hp.2⟩

/-! ### `descend` -/

section descend
variable [LE S] [DecidableLE S] [Inhabited S] [Inhabited R]

/-- On a well-formed tree, with a loop test that never raises, the descent from a valid id
succeeds when `fuel + cur ≥ nodes.length`, appends a downward chain below `cur` to `acc`, and
stops at a leaf or at a node where the loop test fails. -/
theorem descend_ok {P : Part α (TBSt R S)} (W : WF P)
    (cont : Node α (TBSt R S) → Except Err Bool)
    (hcont : ∀ (i : Nat) (nd : Node α (TBSt R S)), P.nodes[i]? = some nd → ∃ b, cont nd = .ok b) :
    ∀ (fuel cur : Nat) (acc : List Nat), cur < P.nodes.length → P.nodes.length ≤ fuel + cur →
      ∃ tail v nd, descend P cont fuel cur acc = .ok (acc ++ tail) ∧
        DownChain P (cur :: tail) ∧ (cur :: tail).getLast? = some v ∧
        P.nodes[v]? = some nd ∧ (nd.children = none ∨ cont nd = .ok false) := by
  intro fuel
  induction fuel with
  | zero => intro cur acc h1 h2; omega
  | succ fuel ih =>
    intro cur acc hcur hfuel
    obtain ⟨nd, hnd⟩ : ∃ nd, P.nodes[cur]? = some nd := ⟨_, List.getElem?_eq_getElem hcur⟩
    obtain ⟨go, hgo⟩ := hcont cur nd hnd
    have stop : (nd.children = none ∨ cont nd = .ok false) →
        descend P cont (fuel + 1) cur acc = .ok acc →
        ∃ tail v nd, descend P cont (fuel + 1) cur acc = .ok (acc ++ tail) ∧
          DownChain P (cur :: tail) ∧ (cur :: tail).getLast? = some v ∧
          P.nodes[v]? = some nd ∧ (nd.children = none ∨ cont nd = .ok false) := by
      intro hs he
      exact ⟨[], cur, nd, by simpa using he, hcur, rfl, hnd, hs⟩
    cases go with
    | false =>
      refine stop (Or.inr hgo) ?_
      simp only [descend, hnd, hgo, bind, Except.bind]
    | true =>
      cases hc : nd.children with
      | none =>
        refine stop (Or.inl hc) ?_
        simp only [descend, hnd, hgo, bind, Except.bind, hc]
      | some cs =>
        obtain ⟨hK, a, ha, hcs, _, _⟩ := W.children cur nd cs hnd hc
        obtain ⟨c, cs', hcs'⟩ : ∃ c cs', cs = c :: cs' := by
          cases cs with
          | nil =>
            have : (List.range' a (K P)).length = 0 := by rw [← hcs]; rfl
            simp at this; omega
          | cons c cs' => exact ⟨c, cs', rfl⟩
        obtain ⟨m, hm1, hm2⟩ := pickChild_mem (fun i => (P.stOf i).b) c cs'
        rw [← hcs'] at hm1 hm2
        have hchild : Child P cur m := ⟨nd, cs, hnd, hc, hm2⟩
        obtain ⟨hlt, cn, hcn, _⟩ := Child.facts W hchild
        obtain ⟨tail, v, vn, e1, e2, e3, e4, e5⟩ := ih m (acc ++ [m])
          (lt_length_of_getElem? hcn) (by omega)
        refine ⟨m :: tail, v, vn, ?_, ⟨hchild, e2⟩, ?_, e4, e5⟩
        · simp only [descend, hnd, hgo, bind, Except.bind, hc, hm1]
          rw [e1]; simp
        · rw [List.getLast?_cons_cons]; exact e3

end descend

/-! ### Ancestors -/

theorem Anc.trans {P : Part α σ} {i j k : Nat} (h1 : Anc P i j) (h2 : Anc P j k) : Anc P i k := by
  induction h2 with
  | refl => exact h1
  | up a b _ ih => exact Anc.up a b ih

theorem parent_lt {P : Part α σ} (W : WF P) {j p : Nat} {nd : Node α σ}
    (hj : P.nodes[j]? = some nd) (hp : nd.parent = some p) : p < j := by
  by_cases h0 : j = 0
  · subst h0
    obtain ⟨r, r0, _, _, r3⟩ := W.root
    obtain rfl := getElem?_inj r0 hj
    rw [r3] at hp; cases hp
  · obtain ⟨q, _, _, q1, q2, _⟩ := W.parent j nd (by omega) hj
    rw [hp] at q1; cases q1; exact q2

theorem Anc.le {P : Part α σ} (W : WF P) {i j : Nat} (h : Anc P i j) : i ≤ j := by
  induction h with
  | refl => exact Nat.le_refl _
  | up a b _ ih => exact Nat.le_trans ih (Nat.le_of_lt (parent_lt W a b))

theorem Anc.of_child {P : Part α σ} (W : WF P) {a b : Nat} (h : Child P a b) : Anc P a b := by
  obtain ⟨_, cn, h1, h2⟩ := Child.facts W h
  exact Anc.up h1 h2 (Anc.refl a)

/-- Inversion at a node whose parent pointer is known. -/
theorem Anc.inv_parent {P : Part α σ} {i b a : Nat} {cn : Node α σ}
    (hb : P.nodes[b]? = some cn) (hp : cn.parent = some a) :
    Anc P i b ↔ i = b ∨ Anc P i a := by
  constructor
  · intro h
    cases h with
    | refl => exact Or.inl rfl
    | up h1 h2 h3 =>
      obtain rfl := getElem?_inj h1 hb
      rw [hp] at h2; cases h2
      exact Or.inr h3
  · rintro (rfl | h)
    · exact Anc.refl _
    · exact Anc.up hb hp h

theorem Anc.root_iff {P : Part α σ} (W : WF P) {i : Nat} : Anc P i 0 ↔ i = 0 :=
  ⟨fun h => Nat.le_zero.1 (h.le W), fun h => h ▸ Anc.refl _⟩

theorem anc_chain_iff {P : Part α σ} (W : WF P) :
    ∀ {tail : List Nat} {a v : Nat}, DownChain P (a :: tail) → (a :: tail).getLast? = some v →
      ∀ i, Anc P i v ↔ i ∈ tail ∨ Anc P i a
  | [], a, v, _, hv, i => by
    have : a = v := by simpa using hv
    subst this; simp
  | b :: rest, a, v, h, hv, i => by
    rw [List.getLast?_cons_cons] at hv
    obtain ⟨_, cn, c1, c2⟩ := Child.facts W h.1
    rw [anc_chain_iff W h.2 hv i, Anc.inv_parent c1 c2, List.mem_cons]
    constructor
    · rintro (h | h | h)
      · exact Or.inl (Or.inr h)
      · exact Or.inl (Or.inl h)
      · exact Or.inr h
    · rintro ((h | h) | h)
      · exact Or.inr (Or.inl h)
      · exact Or.inl h
      · exact Or.inr (Or.inr h)

/-- The elements of a root-to-cell path are exactly the ancestors-or-self of its end. -/
theorem IsPath.mem_iff_anc {P : Part α σ} (W : WF P) {path : List Nat} {v : Nat}
    (hp : IsPath P path) (hv : path.getLast? = some v) (i : Nat) : i ∈ path ↔ Anc P i v := by
  obtain ⟨h0, hc⟩ := hp
  cases path with
  | nil => exact hc.elim
  | cons a tail =>
    have : a = 0 := by simpa using h0
    subst this
    rw [anc_chain_iff W hc hv i, Anc.root_iff W, List.mem_cons]
    constructor
    · rintro (h | h)
      · exact Or.inr h
      · exact Or.inl h
    · rintro (h | h)
      · exact Or.inr h
      · exact Or.inl h

theorem anc_root_of_valid {P : Part α σ} (W : WF P) : ∀ j, j < P.nodes.length → Anc P 0 j := by
  intro j
  induction j using Nat.strongRecOn with
  | _ j ih =>
    intro hj
    by_cases h0 : j = 0
    · subst h0; exact Anc.refl 0
    · obtain ⟨nd, hnd⟩ : ∃ nd, P.nodes[j]? = some nd := ⟨_, List.getElem?_eq_getElem hj⟩
      obtain ⟨p, pn, _, h1, h2, h3, _⟩ := W.parent j nd (by omega) hnd
      exact Anc.up hnd h1 (ih p h2 (lt_length_of_getElem? h3))

theorem isAncF_sound {P : Part α σ} {i : Nat} :
    ∀ (fuel j : Nat), isAncF P i fuel j = true → Anc P i j
  | 0, j, h => by
    have : i = j := by simpa [isAncF] using h
    subst this; exact Anc.refl _
  | fuel + 1, j, h => by
    simp only [isAncF, Bool.or_eq_true, beq_iff_eq] at h
    rcases h with rfl | h
    · exact Anc.refl _
    · cases hj : P.nodes[j]? with
      | none => simp [hj] at h
      | some nd =>
        cases hp : nd.parent with
        | none => simp [hj, hp] at h
        | some p =>
          simp only [hj, hp] at h
          exact Anc.up hj hp (isAncF_sound fuel p h)

theorem isAncF_complete {P : Part α σ} (W : WF P) {i j : Nat} (h : Anc P i j) :
    ∀ fuel, j ≤ fuel → isAncF P i fuel j = true := by
  induction h with
  | refl => intro fuel _; cases fuel <;> simp [isAncF]
  | @up j p nd a b _ ih =>
    intro fuel hf
    have hlt := parent_lt W a b
    cases fuel with
    | zero => omega
    | succ fuel =>
      simp only [isAncF, a, b, Bool.or_eq_true, beq_iff_eq]
      exact Or.inr (ih fuel (by omega))

/-- The executable ancestor test agrees with the relation on well-formed trees. -/
theorem isAnc_iff {P : Part α σ} (W : WF P) (i j : Nat) : isAnc P i j = true ↔ Anc P i j :=
  ⟨isAncF_sound j j, fun h => isAncF_complete W h j (Nat.le_refl _)⟩

/-- Ancestors of an old node are the same in an extension which keeps the parent pointers. -/
theorem anc_ext {P P' : Part α σ} (W : WF P)
    (hpar : ∀ (j : Nat) (nd : Node α σ), P.nodes[j]? = some nd →
      ∃ nd', P'.nodes[j]? = some nd' ∧ nd'.parent = nd.parent)
    {i j : Nat} (hj : j < P.nodes.length) : Anc P' i j ↔ Anc P i j := by
  constructor
  · intro h
    induction h with
    | refl => exact Anc.refl _
    | @up j p nd' a b _ ih =>
      obtain ⟨nd, hnd⟩ : ∃ nd, P.nodes[j]? = some nd := ⟨_, List.getElem?_eq_getElem hj⟩
      obtain ⟨nd'', g1, g2⟩ := hpar j nd hnd
      obtain rfl := getElem?_inj g1 a
      rw [b] at g2
      have hlt := parent_lt W hnd g2.symm
      exact Anc.up hnd g2.symm (ih (by omega))
  · intro h
    induction h with
    | refl => exact Anc.refl _
    | @up j p nd a b _ ih =>
      obtain ⟨nd', g1, g2⟩ := hpar j nd a
      have hlt := parent_lt W a b
      exact Anc.up g1 (g2.trans b) (ih (by omega))

end TBA
end PyXAB
