/-
  Consequences of the invariant `WF`: the clauses of property C03.
-/
import PyXABProofs.Lemmas.TreeInv

namespace PyXAB
namespace Tree

variable {α σ : Type} {P : Part α σ}

theorem getElem?_inj {β : Type} {l : List β} {i : Nat} {x y : β} (hx : l[i]? = some x)
    (hy : l[i]? = some y) : x = y := by
  rw [hx] at hy; exact Option.some.inj hy

theorem pairwise_lt_getElem? {l : List Nat} (hl : l.Pairwise (· < ·)) {i j a b : Nat}
    (ha : l[i]? = some a) (hb : l[j]? = some b) (hij : i < j) : a < b := by
  obtain ⟨hi, rfl⟩ := List.getElem?_eq_some_iff.1 ha
  obtain ⟨hj, rfl⟩ := List.getElem?_eq_some_iff.1 hb
  exact List.pairwise_iff_getElem.1 hl i j hi hj hij

/-- `K x + u` determines `x` and `u < K`. -/
theorem mul_add_inj {K x y u v : Nat} (hu : u < K) (hv : v < K) (h : K * x + u = K * y + v) :
    x = y ∧ u = v := by
  have key : ∀ {x y u v : Nat}, u < K → v < K → K * x + u = K * y + v → ¬ x < y := by
    intro x y u v hu hv h hxy
    have := Nat.mul_le_mul_left K (Nat.succ_le_of_lt hxy)
    rw [Nat.mul_succ] at this
    omega
  have h1 := key hu hv h
  have h2 := key hv hu h.symm
  have : x = y := by omega
  subst this
  exact ⟨rfl, by omega⟩

/-- Two strictly increasing lists with the same elements are equal. -/
theorem eq_of_pairwise_lt_of_mem_iff : ∀ (l1 l2 : List Nat), l1.Pairwise (· < ·) →
    l2.Pairwise (· < ·) → (∀ i, i ∈ l1 ↔ i ∈ l2) → l1 = l2
  | [], [], _, _, _ => rfl
  | [], b :: l2, _, _, h => by simpa using h b
  | a :: l1, [], _, _, h => by simpa using h a
  | a :: l1, b :: l2, h1, h2, h => by
    rw [List.pairwise_cons] at h1 h2
    have ha := (h a).1 (List.mem_cons_self ..)
    have hb := (h b).2 (List.mem_cons_self ..)
    rw [List.mem_cons] at ha hb
    have hab : a = b := by
      rcases ha with ha | ha
      · exact ha
      · rcases hb with hb | hb
        · exact hb.symm
        · have := h1.1 b hb; have := h2.1 a ha; omega
    subst hab
    congr 1
    refine eq_of_pairwise_lt_of_mem_iff l1 l2 h1.2 h2.2 (fun i => ?_)
    constructor
    · intro hi
      have := h1.1 i hi
      rcases List.mem_cons.1 ((h i).1 (List.mem_cons_of_mem _ hi)) with e | e
      · omega
      · exact e
    · intro hi
      have := h2.1 i hi
      rcases List.mem_cons.1 ((h i).2 (List.mem_cons_of_mem _ hi)) with e | e
      · omega
      · exact e

/-- A non-root id that occurs in no child list is unreachable. -/
theorem not_reach_of_not_child {c : Nat} (hc0 : c ≠ 0)
    (h : ∀ nd ∈ P.nodes, c ∉ nd.children.getD []) : ¬ Reach P c := by
  intro hr
  cases hr with
  | root => exact hc0 rfl
  | step _ hp hcs hc =>
    have := h _ (List.mem_of_getElem? hp)
    rw [hcs] at this
    exact this hc

namespace WF

theorem length_pos (W : WF P) : 0 < P.nodes.length := by
  obtain ⟨r, hr, _⟩ := W.root
  exact lt_length_of_getElem? hr

/-- Elements of a child list: position, validity, parent pointer, index label. -/
theorem child_facts (W : WF P) {p : Nat} {pn : Node α σ} {cs : List Nat}
    (hp : P.nodes[p]? = some pn) (hcs : pn.children = some cs) {c : Nat} (hc : c ∈ cs) :
    ∃ j cn, cs[j]? = some c ∧ j < K P ∧ cs.length = K P ∧ p < c ∧ P.nodes[c]? = some cn ∧
      cn.parent = some p ∧ cn.index = K P * (pn.index - 1) + j + 1 ∧
      cn.depth = pn.depth + 1 := by
  obtain ⟨_, a, a1, rfl, a3, a4⟩ := W.children p pn cs hp hcs
  rw [List.mem_range'_1] at hc
  obtain ⟨cn, c1, c2, c3⟩ := a4 (c - a) (by omega)
  have e : a + (c - a) = c := by omega
  rw [e] at c1
  obtain ⟨q, qn, cs', q1, _, q3, _, _, q6⟩ := W.parent c cn (by omega) c1
  obtain rfl : q = p := by rw [c2] at q1; exact (Option.some.inj q1).symm
  obtain rfl := getElem?_inj q3 hp
  refine ⟨c - a, cn, ?_, by omega, by simp, by omega, c1, c2, c3, q6⟩
  rw [List.getElem?_range' (by omega)]; simp [e]

/-- Clause (a), part 2: every valid id is reachable from the root. -/
theorem reach_of_valid (W : WF P) : ∀ i, i < P.nodes.length → Reach P i := by
  intro i
  induction i using Nat.strongRecOn with
  | _ i ih =>
    intro hi
    by_cases h0 : i = 0
    · subst h0; exact Reach.root
    · obtain ⟨nd, hnd⟩ : ∃ nd, P.nodes[i]? = some nd := ⟨_, List.getElem?_eq_getElem hi⟩
      obtain ⟨p, pn, cs, _, h2, h3, h4, h5, _⟩ := W.parent i nd (by omega) hnd
      exact Reach.step (ih p h2 (lt_length_of_getElem? h3)) h3 h4 h5

/-- Reachable ids are valid. -/
theorem valid_of_reach (W : WF P) {i : Nat} (h : Reach P i) : i < P.nodes.length := by
  induction h with
  | root => exact W.length_pos
  | step _ hp hcs hc _ =>
    obtain ⟨_, _, _, _, _, _, h, _⟩ := W.child_facts hp hcs hc
    exact lt_length_of_getElem? h

theorem reach_iff_valid (W : WF P) (i : Nat) : Reach P i ↔ i < P.nodes.length :=
  ⟨W.valid_of_reach, W.reach_of_valid i⟩

/-- Clause (a), part 1: layer `h` lists exactly the reachable cells of depth `h`. -/
theorem listed_iff_reachable (W : WF P) {h : Nat} {l : List Nat} (hl : P.layers[h]? = some l)
    (i : Nat) : i ∈ l ↔ Reach P i ∧ ∃ nd, P.nodes[i]? = some nd ∧ nd.depth = h := by
  rw [(W.layers_mem h l hl).2.2 i]
  constructor
  · rintro ⟨nd, h1, h2⟩
    exact ⟨W.reach_of_valid i (lt_length_of_getElem? h1), nd, h1, h2⟩
  · exact fun h => h.2

/-- Clause (a), part 3: each cell is listed once over all the per-depth lists. -/
theorem layers_nodup (W : WF P) : P.layers.flatten.Nodup := by
  unfold List.Nodup
  rw [List.pairwise_flatten]
  constructor
  · intro l hl
    obtain ⟨h, hh⟩ := List.mem_iff_getElem?.1 hl
    exact (W.layers_mem h l hh).1.imp (fun h => Nat.ne_of_lt h)
  · rw [List.pairwise_iff_getElem]
    intro i j hi hj hij x hx y hy hxy
    subst hxy
    obtain ⟨n1, a1, a2⟩ := ((W.layers_mem i _ (List.getElem?_eq_getElem hi)).2.2 x).1 hx
    obtain ⟨n2, b1, b2⟩ := ((W.layers_mem j _ (List.getElem?_eq_getElem hj)).2.2 x).1 hy
    obtain rfl := getElem?_inj a1 b1
    omega

/-- Clause (b): `c` is in the child list of `p` iff the parent pointer of `c` is `p`. -/
theorem child_iff_parent (W : WF P) {p c : Nat} {pn cn : Node α σ}
    (hp : P.nodes[p]? = some pn) (hc : P.nodes[c]? = some cn) :
    (∃ cs, pn.children = some cs ∧ c ∈ cs) ↔ cn.parent = some p := by
  constructor
  · rintro ⟨cs, h1, h2⟩
    obtain ⟨_, cn', _, _, _, _, g1, g2, _⟩ := W.child_facts hp h1 h2
    obtain rfl := getElem?_inj g1 hc
    exact g2
  · intro h
    have hc0 : 0 < c := by
      apply Nat.pos_of_ne_zero
      rintro rfl
      obtain ⟨r, r1, _, _, r4⟩ := W.root
      obtain rfl := getElem?_inj r1 hc
      rw [r4] at h; cases h
    obtain ⟨q, qn, cs, q1, _, q3, q4, q5, _⟩ := W.parent c cn hc0 hc
    obtain rfl : q = p := by rw [h] at q1; exact (Option.some.inj q1).symm
    obtain rfl := getElem?_inj q3 hp
    exact ⟨cs, q4, q5⟩

/-- Clause (b'): no cell's child list contains a cell created by splitting another cell. -/
theorem children_disjoint (W : WF P) {p q : Nat} {pn qn : Node α σ} {cs cs' : List Nat}
    (hp : P.nodes[p]? = some pn) (hq : P.nodes[q]? = some qn)
    (hcs : pn.children = some cs) (hcs' : qn.children = some cs') (hpq : p ≠ q) :
    ∀ c, c ∈ cs → c ∉ cs' := by
  intro c h1 h2
  obtain ⟨_, cn, _, _, _, _, g1, g2, _⟩ := W.child_facts hp hcs h1
  obtain ⟨_, cn', _, _, _, _, g1', g2', _⟩ := W.child_facts hq hcs' h2
  obtain rfl := getElem?_inj g1 g1'
  rw [g2] at g2'
  exact hpq (Option.some.inj g2')

/-- Clause (c): the reported depth is the deepest non-empty level. -/
theorem depth_is_deepest (W : WF P) :
    P.layers.length = P.depth + 1 ∧ ∀ l ∈ P.layers, l ≠ [] := by
  refine ⟨W.layers_len, fun l hl => ?_⟩
  obtain ⟨h, hh⟩ := List.mem_iff_getElem?.1 hl
  exact (W.layers_mem h l hh).2.1

/-- Clause (e): the children of the cell with index `i` carry `K(i-1)+1 .. Ki` in child-list
order, `K = cs.length` (and `K` is the documented arity). -/
theorem children_indices (W : WF P) {p : Nat} {pn : Node α σ} {cs : List Nat}
    (hp : P.nodes[p]? = some pn) (hcs : pn.children = some cs) :
    cs.length = K P ∧ 1 ≤ cs.length ∧ 1 ≤ pn.index ∧
    ∀ j c, cs[j]? = some c → ∃ cn, P.nodes[c]? = some cn ∧
      cn.index = cs.length * (pn.index - 1) + j + 1 := by
  obtain ⟨hK, a, a1, rfl, a3, a4⟩ := W.children p pn _ hp hcs
  refine ⟨by simp, by simpa using hK, W.index_pos p pn hp, fun j c hj => ?_⟩
  have hjK : j < K P := by simpa using lt_length_of_getElem? hj
  rw [List.getElem?_range' hjK] at hj
  obtain ⟨cn, c1, _, c3⟩ := a4 j hjK
  obtain rfl : a + j = c := by simpa using hj
  exact ⟨cn, c1, by simpa using c3⟩

theorem depth_pos_of_pos (W : WF P) {c : Nat} {cn : Node α σ} (hc0 : 0 < c)
    (hc : P.nodes[c]? = some cn) : 0 < cn.depth := by
  obtain ⟨_, _, _, _, _, _, _, _, h⟩ := W.parent c cn hc0 hc
  omega

/-- Clause (d): within a depth the `(depth, index)` labels are unique. -/
theorem label_injective (W : WF P) : ∀ (i j : Nat) (ni nj : Node α σ),
    P.nodes[i]? = some ni → P.nodes[j]? = some nj →
    ni.depth = nj.depth → ni.index = nj.index → i = j := by
  intro i
  induction i using Nat.strongRecOn with
  | _ i ih =>
    intro j ni nj hi hj hd hx
    obtain ⟨r, r1, r2, _⟩ := W.root
    by_cases hi0 : i = 0
    · subst hi0
      obtain rfl := getElem?_inj r1 hi
      by_cases hj0 : j = 0
      · exact hj0.symm
      · have := W.depth_pos_of_pos (Nat.pos_of_ne_zero hj0) hj; omega
    · have hj0 : j ≠ 0 := by
        rintro rfl
        obtain rfl := getElem?_inj r1 hj
        have := W.depth_pos_of_pos (Nat.pos_of_ne_zero hi0) hi; omega
      obtain ⟨p, pn, cs, _, p2, p3, p4, p5, p6⟩ := W.parent i ni (Nat.pos_of_ne_zero hi0) hi
      obtain ⟨q, qn, cs', _, _, q3, q4, q5, q6⟩ := W.parent j nj (Nat.pos_of_ne_zero hj0) hj
      obtain ⟨u, ni', u1, u2, _, _, u5, _, u7, _⟩ := W.child_facts p3 p4 p5
      obtain ⟨v, nj', v1, v2, _, _, v5, _, v7, _⟩ := W.child_facts q3 q4 q5
      obtain rfl := getElem?_inj u5 hi
      obtain rfl := getElem?_inj v5 hj
      have hpi := W.index_pos p pn p3
      have hqi := W.index_pos q qn q3
      obtain ⟨e1, e2⟩ := mul_add_inj u2 v2 (show K P * (pn.index - 1) + u = K P * (qn.index - 1) + v by omega)
      obtain rfl : p = q := ih p p2 q pn qn p3 q3 (by omega) (by omega)
      obtain rfl := getElem?_inj p3 q3
      obtain rfl : cs = cs' := by rw [p4] at q4; exact Option.some.inj q4
      subst e2
      exact Option.some.inj (u1.symm.trans v1)

/-- Under `WF`, every node of the deepest level is a leaf. -/
theorem leaf_of_deepest (W : WF P) {i : Nat} {nd : Node α σ} (hi : P.nodes[i]? = some nd)
    (hd : nd.depth = P.depth) : nd.children = none := by
  cases hc : nd.children with
  | none => rfl
  | some cs =>
    obtain ⟨hK, a, _, rfl, _, _⟩ := W.children i nd cs hi hc
    have hm : a ∈ List.range' a (K P) := by rw [List.mem_range'_1]; omega
    obtain ⟨_, cn, _, _, _, _, g1, _, _, g4⟩ := W.child_facts hi hc hm
    have := W.depth_le a cn g1
    omega

theorem lastLayer_spec (W : WF P) : P.layers[P.depth]? = some (lastLayer P) := by
  have : P.depth < P.layers.length := by rw [W.layers_len]; omega
  simp [lastLayer, List.getElem?_eq_getElem this]

theorem isLeaf_of_mem_lastLayer (W : WF P) {i : Nat} (hi : i ∈ lastLayer P) :
    P.isLeaf i = true := by
  obtain ⟨nd, h1, h2⟩ := ((W.layers_mem _ _ W.lastLayer_spec).2.2 i).1 hi
  simp [Part.isLeaf, h1, W.leaf_of_deepest h1 h2]

/-- W4 in closed form: layer `h` is the list of ids of depth `h` in creation order. -/
theorem layers_eq_filter (W : WF P) {h : Nat} {l : List Nat} (hl : P.layers[h]? = some l) :
    l = (List.range P.nodes.length).filter
      (fun i => (P.nodes[i]?.map (·.depth)) == some h) := by
  obtain ⟨w1, _, w3⟩ := W.layers_mem h l hl
  refine eq_of_pairwise_lt_of_mem_iff _ _ w1 (List.pairwise_lt_range.filter _) (fun i => ?_)
  rw [w3, List.mem_filter, List.mem_range]
  constructor
  · rintro ⟨nd, h1, h2⟩
    exact ⟨lt_length_of_getElem? h1, by simp [h1, h2]⟩
  · rintro ⟨h1, h2⟩
    refine ⟨_, List.getElem?_eq_getElem h1, ?_⟩
    simpa [List.getElem?_eq_getElem h1] using h2

end WF

theorem isLeaf_iff {P : Part α σ} {i : Nat} :
    P.isLeaf i = true ↔ ∃ nd, P.nodes[i]? = some nd ∧ nd.children = none := by
  unfold Part.isLeaf
  cases h : P.nodes[i]? with
  | none => simp
  | some nd => simp

end Tree
end PyXAB
