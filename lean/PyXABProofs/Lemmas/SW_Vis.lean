/-
  Lemmas shared by SOO and DOO (payload `SwSt`): the invariant `PInv` under payload updates and
  expansions, `LowVisited`, expansion of a leaf with a draw from the list.
-/
import PyXABProofs.Lemmas.SW_Basic

set_option linter.unusedSectionVars false

namespace PyXAB
namespace SW
open Tree TBA

variable {α σ S : Type}

/-! ### One expansion with a draw from the list -/

section mk
variable [Add α] [Sub α] [Mul α] [Div α] [OfNat α 2] [NatCast α]

/-- A successful `makeChildrenD` on a leaf with the right flag consumed exactly one draw and
performed a legal `Step`. -/
theorem expand_ok {P P' : Part α σ} (W : WF P) {s0 : σ} {m : Nat} {nd : Node α σ} {fl : Bool}
    {ds ds' : List (Draw α)} (hm : P.nodes[m]? = some nd) (hleaf : nd.children = none)
    (hfl : fl = decide (nd.depth ≥ P.depth))
    (hds : ∀ d ∈ ds, DrawOKLen P.kind (dimn P) d)
    (hrun : P.makeChildrenD s0 m fl ds = .ok (P', ds')) :
    (∃ d, ds = d :: ds') ∧ Step P P' s0 m nd ∧ WF P' ∧ 1 ≤ K P := by
  cases ds with
  | nil => simp [Part.makeChildrenD, Part.popDraw, bind, Except.bind] at hrun
  | cons d ds0 =>
    have hd := hds d (List.mem_cons_self ..)
    obtain ⟨P'', e, W', St⟩ := makeChildren_WF_step W s0 hm hleaf hfl hd
    rw [makeChildrenD_cons e] at hrun
    simp only [Except.ok.injEq, Prod.mk.injEq] at hrun
    obtain ⟨rfl, rfl⟩ := hrun
    exact ⟨⟨d, rfl⟩, St, W', arity_pos_of_drawOK hd⟩

/-- `makeChildrenD` on a leaf with the right flag and a non-empty list of well-formed draws
succeeds. -/
theorem expand_total {P : Part α σ} (W : WF P) (s0 : σ) {m : Nat} {nd : Node α σ} {fl : Bool}
    {d : Draw α} (ds : List (Draw α)) (hm : P.nodes[m]? = some nd) (hleaf : nd.children = none)
    (hfl : fl = decide (nd.depth ≥ P.depth)) (hd : DrawOKLen P.kind (dimn P) d) :
    ∃ P', P.makeChildrenD s0 m fl (d :: ds) = .ok (P', ds) ∧ Step P P' s0 m nd ∧ WF P' ∧
      1 ≤ K P := by
  obtain ⟨P', e, W', St⟩ := makeChildren_WF_step W s0 hm hleaf hfl hd
  exact ⟨P', makeChildrenD_cons e, St, W', arity_pos_of_drawOK hd⟩

end mk

/-- After a `Step` at a cell of depth `h`: the layers `≤ h` are unchanged. -/
theorem Step_layers_le {P P' : Part α σ} {s0 : σ} {p : Nat} {nd : Node α σ}
    (St : Step P P' s0 p nd) (W : WF P) (hp : P.nodes[p]? = some nd) {h' : Nat}
    (hh : h' ≤ nd.depth) : P'.layers[h']? = P.layers[h']? := by
  apply St.layers_keep hh
  rw [W.layers_len]
  have := W.depth_le p nd hp
  omega

/-- After a `Step` at a cell of depth `h`, layer `h + 1` exists, ends with the last new cell,
and the new cells are fresh leaves. -/
theorem Step_new_layer {P P' : Part α σ} {s0 : σ} {p : Nat} {nd : Node α σ}
    (St : Step P P' s0 p nd) (W : WF P) (hK : 1 ≤ K P) :
    ∃ l, P'.layers[nd.depth + 1]? = some l ∧ P.nodes.length ∈ l ∧
      l.getLast? = some (P.nodes.length + K P - 1) := by
  have hr : (List.range' P.nodes.length (K P)).getLast? = some (P.nodes.length + K P - 1) := by
    have hne : List.range' P.nodes.length (K P) ≠ [] := by
      intro h
      have := congrArg List.length h
      simp at this; omega
    rw [List.getLast?_eq_some_getLast hne]
    congr 1
    rw [List.getLast_eq_getElem]
    simp
    omega
  have hmem : P.nodes.length ∈ List.range' P.nodes.length (K P) := by
    rw [List.mem_range'_1]; omega
  have hne : List.range' P.nodes.length (K P) ≠ [] := List.ne_nil_of_mem hmem
  rcases St.layers with ⟨e1, e2, e3⟩ | ⟨e1, e2, e3⟩
  · refine ⟨_, ?_, hmem, hr⟩
    rw [e2, e1, List.getElem?_append_right (by rw [W.layers_len]; omega)]
    simp [W.layers_len]
  · obtain ⟨l0, hl0⟩ := WF_layer_exists W (h := nd.depth + 1) (by omega)
    refine ⟨l0 ++ List.range' P.nodes.length (K P), ?_, List.mem_append_right _ hmem, ?_⟩
    · rw [e2, List.getElem?_modify, hl0]; simp
    · rw [List.getLast?_append, hr]; rfl

/-! ### `PInv` -/

theorem _root_.PyXAB.TBA.PRel.with_src {P P' : Part α σ} {τ : Nat → Node α σ → Node α σ → Prop}
    (h : PRel τ P P') : PRel (fun i a b => τ i a b ∧ P.nodes[i]? = some a) P P' :=
  ⟨h.kind, h.layers, h.depth, h.len, fun i nd hi => by
    obtain ⟨nd', a1, a2, a3⟩ := h.node i nd hi
    exact ⟨nd', a1, a2, a3, hi⟩⟩

theorem PInv.of_prel {r0 : S} {P P' : Part α (SwSt S)}
    {τ : Nat → Node α (SwSt S) → Node α (SwSt S) → Prop} (h : PInv r0 P) (hr : PRel τ P P')
    (hτ : ∀ i a b, τ i a b → (a.st.visited = true → b.st.visited = true) ∧
      (b.st.visited = false → b.st.reward = a.st.reward)) : PInv r0 P' where
  wf := hr.wf h.wf
  internal := by
    intro i nd' hi hne
    obtain ⟨nd, a1, a2, a3⟩ := hr.bwd hi
    exact (hτ _ _ _ a3).1 (h.internal i nd a1 (by rw [← a2.children]; exact hne))
  fresh := by
    intro i nd' hi hv
    obtain ⟨nd, a1, a2, a3⟩ := hr.bwd hi
    obtain ⟨b1, b2⟩ := hτ _ _ _ a3
    rw [b2 hv]
    apply h.fresh i nd a1
    cases hq : nd.st.visited with
    | false => rfl
    | true => rw [b1 hq] at hv; cases hv

theorem PInv.mark {r0 : S} {P : Part α (SwSt S)} (h : PInv r0 P) (v : Nat) :
    PInv r0 (mark P v) := by
  refine h.of_prel (PRel_modifySt P v _) ?_
  intro i a b hb
  by_cases hi : i = v
  · simp only [hi, if_true] at hb
    simp [hb]
  · simp only [hi, if_false] at hb
    simp [hb]

/-- `receive_reward` on an evaluated cell keeps the invariant. -/
theorem PInv.setReward {r0 : S} {P : Part α (SwSt S)} (h : PInv r0 P) {c : Nat}
    {nd : Node α (SwSt S)} (hc : P.nodes[c]? = some nd) (hv : nd.st.visited = true) (r : S) :
    PInv r0 (P.modifySt c (fun st => { st with reward := r })) := by
  refine h.of_prel (PRel_modifySt P c _).with_src ?_
  intro i a b ⟨hb, ha⟩
  by_cases hi : i = c
  · subst hi
    obtain rfl := getElem?_inj hc ha
    simp only [if_true] at hb
    simp [hb, hv]
  · simp only [hi, if_false] at hb
    simp [hb]

theorem PInv.step {r0 : S} {P P' : Part α (SwSt S)} {s0 : SwSt S} {p : Nat}
    {nd : Node α (SwSt S)} (h : PInv r0 P) (St : Step P P' s0 p nd)
    (hp : P.nodes[p]? = some nd) (hleaf : nd.children = none) (hv : nd.st.visited = true)
    (h0 : s0.visited = false → s0.reward = r0) (hK : 1 ≤ K P) : PInv r0 P' where
  wf := St.wf h.wf hp hleaf hK
  internal := by
    intro i x' hi hne
    rcases St.inv hp hi with ⟨x, a1, _, _, _, _, a6, a7, _⟩ | ⟨j, _, _, _, _, _, a6, _⟩
    · rw [a6]
      by_cases hip : i = p
      · subst hip
        obtain rfl := getElem?_inj hp a1
        exact hv
      · exact h.internal i x a1 (by rw [← a7 hip]; exact hne)
    · exact absurd a6 hne
  fresh := by
    intro i x' hi hvis
    rcases St.inv hp hi with ⟨x, a1, _, _, _, _, a6, _⟩ | ⟨j, _, _, _, _, _, _, _, a8⟩
    · rw [a6] at hvis ⊢
      exact h.fresh i x a1 hvis
    · rw [a8] at hvis ⊢
      exact h0 hvis

/-! ### `LowVisited` -/

theorem LowVisited.mono {P : Part α (SwSt S)} {h h' : Nat} (hl : LowVisited P h) (hh : h' ≤ h) :
    LowVisited P h' :=
  fun a l w ha => hl a l w (by omega)

theorem LowVisited.zero (P : Part α (SwSt S)) : LowVisited P 0 :=
  fun a l w ha => absurd ha (by omega)

theorem LowVisited.succ {P : Part α (SwSt S)} {h : Nat} {l : List Nat} (hl : LowVisited P h)
    (hlay : P.layers[h]? = some l) (hall : ∀ w ∈ l, unvisitedLeaf P w = false) :
    LowVisited P (h + 1) := by
  intro a l' w ha hl' hw
  by_cases hah : a = h
  · subst hah
    rw [hlay] at hl'
    cases hl'
    exact hall w hw
  · exact hl a l' w (by omega) hl' hw

/-- the test `unvisitedLeaf` only reads `children` and `visited` -/
theorem unvisitedLeaf_prel {P P' : Part α (SwSt S)}
    {τ : Nat → Node α (SwSt S) → Node α (SwSt S) → Prop} (hr : PRel τ P P')
    (hτ : ∀ i a b, τ i a b → b.st.visited = a.st.visited) (w : Nat) :
    unvisitedLeaf P' w = unvisitedLeaf P w := by
  unfold unvisitedLeaf leafTest
  cases h0 : P.nodes[w]? with
  | none =>
    have : P'.nodes[w]? = none := by
      rw [List.getElem?_eq_none_iff] at h0 ⊢; rw [hr.len]; exact h0
    simp [this]
  | some nd =>
    obtain ⟨nd', h1, h2, h3⟩ := hr.node w nd h0
    simp [h1, h2.children, hτ _ _ _ h3]

theorem LowVisited.prel {P P' : Part α (SwSt S)}
    {τ : Nat → Node α (SwSt S) → Node α (SwSt S) → Prop} {h : Nat} (hl : LowVisited P h)
    (hr : PRel τ P P') (hτ : ∀ i a b, τ i a b → b.st.visited = a.st.visited) :
    LowVisited P' h := by
  intro a l w ha hl' hw
  rw [unvisitedLeaf_prel hr hτ]
  rw [hr.layers] at hl'
  exact hl a l w ha hl' hw

/-- Expanding a cell of depth `h` keeps "all leaves of the layers `≤ h` are evaluated". -/
theorem LowVisited.step {P P' : Part α (SwSt S)} {s0 : SwSt S} {p : Nat}
    {nd : Node α (SwSt S)} (hl : LowVisited P (nd.depth + 1)) (St : Step P P' s0 p nd)
    (W : WF P) (hp : P.nodes[p]? = some nd) : LowVisited P' (nd.depth + 1) := by
  intro a l w ha hl' hw
  rw [Step_layers_le St W hp (by omega)] at hl'
  have h0 := hl a l w ha hl' hw
  obtain ⟨x, hx, _⟩ := WF_node_of_mem_layer W hl' hw
  obtain ⟨x', a1, _, _, _, _, a6, a7, a8⟩ := St.pres hp hx
  rw [unvisitedLeaf_eq_false_iff] at h0 ⊢
  intro y hy hyc
  obtain rfl := getElem?_inj a1 hy
  rw [a6]
  by_cases hip : w = p
  · rw [a8 hip] at hyc; cases hyc
  · exact h0 x hx (by rw [← a7 hip]; exact hyc)

/-- If all leaves of the layers `< h` are evaluated and `v` is the first unevaluated leaf of
layer `h`, then `v` is the first unevaluated leaf of the tree in top-down order. -/
theorem firstUnvisited_of_layer {P : Part α (SwSt S)} {h : Nat} {l : List Nat} {v : Nat}
    (hl : LowVisited P h) (hlay : P.layers[h]? = some l)
    (hv : l.find? (unvisitedLeaf P) = some v) : firstUnvisited P = some v :=
  find?_flatten_of_layer P.layers h l hlay hl hv

theorem firstUnvisited_none {P : Part α (SwSt S)} (W : WF P)
    (hl : LowVisited P (P.depth + 1)) : firstUnvisited P = none := by
  apply find?_flatten_none
  intro h' l' w h1 h2
  have : h' < P.layers.length := lt_length_of_getElem? h1
  rw [W.layers_len] at this
  exact hl h' l' w this h1 h2

end SW
end PyXAB
