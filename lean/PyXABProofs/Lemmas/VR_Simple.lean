/-
  Simple sufficient conditions for the draw hypotheses `InitDrawsOK` / `PullDrawsOK`, for the
  partition classes whose NumPy guarantees do not depend on the box being split
  (`.binary`, `.kary K`, `.dimBinary`).
-/
import PyXABProofs.Lemmas.VR_Main

set_option linter.unusedSectionVars false

namespace PyXAB
namespace VR
open _root_.PyXAB.Tree TBA VROOM

section simple
variable {α R S : Type} [Field α] [LinearOrder α] [IsStrictOrderedRing α]

theorem geomSum_pos (K : Nat) {n : Nat} (h : 0 < n) : 1 ≤ geomSum K n := by
  cases n with
  | zero => omega
  | succ n => rw [geomSum]; omega

/-- after `deepen()` the new deepest layer has `K` times as many cells -/
theorem lastLayer_deepen {σ : Type} {s0 : σ} {P P' : Part α σ} (W : WF P) (W' : WF P')
    (hdep : P'.depth = P.depth + 1) (Gr : Grow s0 P.depth P P')
    (hlast : ∀ q, q ∈ lastLayer P → ∃ qn, P'.nodes[q]? = some qn ∧ qn.children ≠ none) :
    (lastLayer P').length = K P * (lastLayer P).length := by
  have hl : P'.layers[P.depth]? = some (lastLayer P) := by
    rw [Gr.layers P.depth (Nat.le_refl _)]; exact W.lastLayer_spec
  have hl' : P'.layers[P.depth + 1]? = some (lastLayer P') := by
    rw [← hdep]; exact W'.lastLayer_spec
  rw [layer_succ_length W' hl hl', Gr.K_eq]
  intro p pn hp hpn
  obtain ⟨qn, q0, q1⟩ := hlast p hp
  obtain rfl := getElem?_inj q0 hpn
  exact q1

theorem initDrawsOK_of_simple (sd : Nat) : ∀ (fuel : Nat) (P : Part α (VrSt R S))
    (ds : List (Draw α)), WF P → Geo P → (∀ d ∈ ds, SimpleDraw P d) →
    (lastLayer P).length * geomSum (K P) (sd - P.depth) ≤ ds.length →
    InitDrawsOK (VROOM.st0 (R := R) (S := S)) sd fuel P ds
  | 0, _, _, _, _, _, _ => trivial
  | fuel + 1, P, ds, W, G, hs, hlen => by
    intro hlt
    have hg := geomSum_pos (K P) (show 0 < sd - P.depth by omega)
    have hlen1 : (lastLayer P).length ≤ ds.length :=
      Nat.le_trans (Nat.le_mul_of_pos_right _ hg) hlen
    have hD : DeepenDrawsOK P ds := by
      refine ⟨hlen1, fun j q nd d _ hq hd => ?_⟩
      obtain ⟨h1, h2⟩ := hs d (List.mem_of_getElem? hd)
      exact ⟨h1, h2 _ (W.boxlen q nd hq)⟩
    refine ⟨hD, fun P' ds' m => ?_⟩
    obtain ⟨P1, m1, W1, G1, hdep, Gr, hlast⟩ := deepen_VR W G VROOM.st0 ds hD
    rw [m] at m1
    injection m1 with m1
    injection m1 with e1 e2
    subst e1 e2
    apply initDrawsOK_of_simple sd fuel P' _ W1 G1
    · intro d hd
      have := hs d (List.mem_of_mem_drop hd)
      unfold SimpleDraw at this ⊢
      rw [Gr.kind, Gr.dimn]; exact this
    · rw [lastLayer_deepen W W1 hdep Gr hlast, Gr.K_eq, hdep, List.length_drop]
      have e : sd - P.depth = (sd - (P.depth + 1)) + 1 := by omega
      rw [e, geomSum] at hlen
      generalize geomSum (K P) (sd - (P.depth + 1)) = g at hlen ⊢
      generalize (lastLayer P).length = n at hlen hlen1 ⊢
      have : n * (1 + K P * g) = n + K P * n * g := by
        rw [Nat.mul_add, Nat.mul_one, Nat.mul_comm (K P) n, Nat.mul_assoc]
      omega

variable [LinearOrder S]

/-- simple sufficient condition for `PullDrawsOK` -/
theorem pullDrawsOK_of_simple (cfg : VrCfg R S) (s : VROOM α R S) (dr : VDraw α)
    (T : TInv cfg.sd s.P) (hch : dr.choice < (idxList cfg.sd s.P).length)
    (hlen : ∀ h l, (idxList cfg.sd s.P)[dr.choice]? = some (h, l) →
      cfg.hmax - h ≤ dr.steps.length)
    (hsteps : ∀ x ∈ dr.steps, x.2 < K s.P ∧ ∃ d, x.1 = some d ∧ SimpleDraw s.P d) :
    PullDrawsOK cfg s dr := by
  refine ⟨hch, fun P1 h l node Rk hidx hnode => ?_⟩
  have T1 := Rk.tinv T
  have hlay : P1.layers[h]? = some (layerAt s.P h) := by
    rw [Rk.layers]
    have hlt : h < s.P.layers.length := by
      by_contra hn
      have : layerAt s.P h = [] := by
        simp [layerAt, List.getElem?_eq_none_iff.2 (Nat.le_of_not_lt hn)]
      rw [this] at hnode; simp at hnode
    simp [layerAt, List.getElem?_eq_getElem hlt]
  obtain ⟨nd, n1, n2⟩ := ((T1.wf.layers_mem h _ hlay).2.2 node).1 (List.mem_of_getElem? hnode)
  refine descOK_of_simple cfg.hmax dr.steps h node P1 nd T1.wf n1 n2 (hlen h l hidx) ?_
  intro x hx
  obtain ⟨a, d, b, c⟩ := hsteps x hx
  have hR := Rk.toPRel
  unfold SimpleDraw at c
  rw [hR.K_eq, hR.kind, hR.dimn_eq]
  exact ⟨a, d, b, c⟩

end simple
end VR
end PyXAB
