/-
  DOO: the layer scan (which refreshes the stored `b_value`s), the passes of one `pull`.
-/
import PyXABProofs.Lemmas.SW_Hist
import PyXABProofs.Lemmas.SW_Erase

set_option linter.unusedSectionVars false

namespace PyXAB
namespace DOO
open Tree TBA SW

variable {α S : Type} [Add α] [Sub α] [Mul α] [Div α] [OfNat α 2] [NatCast α]
variable [LinearOrder S] [Inhabited S]

/-! ### `b`-only updates -/

/-- What the scan of the list `l` with `delta` does to the cell `i`: `visited` and `reward` are
kept; the payload is unchanged, or `i ∈ l` is an evaluated leaf whose `b` is refreshed. -/
def BRef (cfg : DOOCfg α S) (delta : S) (l : List Nat) (i : Nat) (nd nd' : Node α (SwSt S)) :
    Prop :=
  nd'.st.visited = nd.st.visited ∧ nd'.st.reward = nd.st.reward ∧
    (nd'.st = nd.st ∨ (i ∈ l ∧ nd.children = none ∧ nd.st.visited = true ∧
      nd'.st.b = cfg.bOf nd.st.reward delta))

theorem BOnly.of_prel {P P' : Part α (SwSt S)}
    {τ : Nat → Node α (SwSt S) → Node α (SwSt S) → Prop} (hr : PRel τ P P')
    (hτ : ∀ i a b, τ i a b → b.st.visited = a.st.visited ∧ b.st.reward = a.st.reward) :
    BOnly P P' :=
  ⟨hr.kind, hr.layers, hr.depth, hr.len, fun i nd hi => by
    obtain ⟨nd', a1, a2, a3⟩ := hr.node i nd hi
    exact ⟨nd', a1, a2.depth, a2.index, a2.parent, a2.children, a2.box, hτ _ _ _ a3⟩⟩

theorem BOnly.refl (P : Part α (SwSt S)) : BOnly P P :=
  ⟨rfl, rfl, rfl, rfl, fun _ nd hi => ⟨nd, hi, rfl, rfl, rfl, rfl, rfl, rfl, rfl⟩⟩

theorem BOnly.trans {P P' P'' : Part α (SwSt S)} (h1 : BOnly P P') (h2 : BOnly P' P'') :
    BOnly P P'' := by
  obtain ⟨a1, a2, a3, a4, a5⟩ := h1
  obtain ⟨b1, b2, b3, b4, b5⟩ := h2
  refine ⟨b1.trans a1, b2.trans a2, b3.trans a3, b4.trans a4, fun i nd hi => ?_⟩
  obtain ⟨x, c1, c2, c3, c4, c5, c6, c7, c8⟩ := a5 i nd hi
  obtain ⟨y, d1, d2, d3, d4, d5, d6, d7, d8⟩ := b5 i x c1
  exact ⟨y, d1, d2.trans c2, d3.trans c3, d4.trans c4, d5.trans c5, d6.trans c6, d7.trans c7,
    d8.trans c8⟩

theorem leafScore_prel {P P' : Part α (SwSt S)}
    {τ : Nat → Node α (SwSt S) → Node α (SwSt S) → Prop} (hr : PRel τ P P') {sc : SwSt S → S}
    {w : Nat} (hτ : ∀ a b, τ w a b → sc b.st = sc a.st) :
    leafScore P' sc w = leafScore P sc w := by
  unfold leafScore
  cases h0 : P.nodes[w]? with
  | none =>
    have : P'.nodes[w]? = none := by
      rw [List.getElem?_eq_none_iff] at h0 ⊢; rw [hr.len]; exact h0
    simp [this]
  | some nd =>
    obtain ⟨nd', h1, h2, h3⟩ := hr.node w nd h0
    simp [h1, h2.children, hτ _ _ h3]

/-! ### The scan of one layer -/

/-- What `DOO.scan` returns. -/
structure ScanPost (cfg : DOOCfg α S) (delta : S) (l : List Nat) (P : Part α (SwSt S))
    (maxv : S) (maxn : Option Nat) (P1 : Part α (SwSt S)) (res : Scan S) : Prop where
  rel : PRel (BRef cfg delta l) P P1
  found : ∀ id, l.find? (unvisitedLeaf P) = some id → res = .found id
  best : l.find? (unvisitedLeaf P) = none →
    res = .best (amFold (leafScore P (fun st => cfg.bOf st.reward delta)) l (maxv, maxn)).1
      (amFold (leafScore P (fun st => cfg.bOf st.reward delta)) l (maxv, maxn)).2 ∧
    ∀ w ∈ l, ∀ nd, P.nodes[w]? = some nd → nd.children = none →
      ∃ nd1, P1.nodes[w]? = some nd1 ∧ nd1.st.b = cfg.bOf nd.st.reward delta

theorem BRef.rfl' (cfg : DOOCfg α S) (delta : S) (l : List Nat) (i : Nat)
    (nd : Node α (SwSt S)) : BRef cfg delta l i nd nd := ⟨rfl, rfl, Or.inl rfl⟩

theorem BRef.mono {cfg : DOOCfg α S} {delta : S} {l l' : List Nat} (hl : ∀ w ∈ l, w ∈ l')
    {i : Nat} {a b : Node α (SwSt S)} (h : BRef cfg delta l i a b) : BRef cfg delta l' i a b := by
  obtain ⟨h1, h2, h3 | ⟨h3, h4⟩⟩ := h
  · exact ⟨h1, h2, Or.inl h3⟩
  · exact ⟨h1, h2, Or.inr ⟨hl _ h3, h4⟩⟩

theorem scan_spec (cfg : DOOCfg α S) (delta : S) : ∀ (l : List Nat) (P : Part α (SwSt S))
    (maxv : S) (maxn : Option Nat) (P1 : Part α (SwSt S)) (res : Scan S),
    scan cfg delta l P maxv maxn = (P1, res) → ScanPost cfg delta l P maxv maxn P1 res
  | [], P, maxv, maxn, P1, res, hrun => by
    simp only [scan, Prod.mk.injEq] at hrun
    obtain ⟨rfl, rfl⟩ := hrun
    exact ⟨PRel.refl (BRef.rfl' cfg delta []) P, by simp, fun _ => ⟨rfl, by simp⟩⟩
  | id :: rest, P, maxv, maxn, P1, res, hrun => by
    unfold scan at hrun
    -- skipping `id`
    have hskip : unvisitedLeaf P id = false →
        leafScore P (fun st => cfg.bOf st.reward delta) id = none →
        scan cfg delta rest P maxv maxn = (P1, res) →
        ScanPost cfg delta (id :: rest) P maxv maxn P1 res := by
      intro h1 h2 hrun'
      have ih := scan_spec cfg delta rest P maxv maxn P1 res hrun'
      refine ⟨ih.rel.mono (fun i a b _ h => h.mono (fun w hw => List.mem_cons_of_mem _ hw)), ?_, ?_⟩
      · intro v hv
        simp only [List.find?_cons, h1] at hv
        exact ih.found v hv
      · intro hv
        simp only [List.find?_cons, h1] at hv
        obtain ⟨a, b⟩ := ih.best hv
        refine ⟨by simpa [amFold_cons, amStep, h2] using a, ?_⟩
        intro w hw nd hnd hleaf
        rcases List.mem_cons.1 hw with rfl | hw
        · have := leafScore_eq_none_iff.1 h2 nd hnd
          exact absurd hleaf this
        · exact b w hw nd hnd hleaf
    cases hn : P.nodes[id]? with
    | none =>
      simp only [hn] at hrun
      exact hskip (by simp [unvisitedLeaf, leafTest, hn]) (by simp [leafScore, hn]) hrun
    | some nd =>
      simp only [hn] at hrun
      by_cases hl : nd.children.isNone = true
      · by_cases hv : nd.st.visited = true
        · simp only [hl, hv, if_true] at hrun
          have hleaf : nd.children = none := by simpa using hl
          have h1 : unvisitedLeaf P id = false := by simp [unvisitedLeaf, leafTest, hn, hv]
          have h2 : leafScore P (fun st => cfg.bOf st.reward delta) id =
              some (cfg.bOf nd.st.reward delta) := by simp [leafScore, hn, hl]
          -- the refreshed tree
          have hR0 := (PRel_modifySt P id
            (fun s => { s with b := cfg.bOf nd.st.reward delta })).with_src
          have hR : PRel (BRef cfg delta [id]) P
              (P.modifySt id (fun s => { s with b := cfg.bOf nd.st.reward delta })) := by
            refine hR0.mono ?_
            intro i a b _ ⟨hb, ha⟩
            by_cases hi : i = id
            · subst hi
              obtain rfl := getElem?_inj hn ha
              simp only [if_true] at hb
              exact ⟨by rw [hb], by rw [hb], Or.inr ⟨by simp, hleaf, hv, by rw [hb]⟩⟩
            · simp only [hi, if_false] at hb
              exact ⟨by rw [hb], by rw [hb], Or.inl hb⟩
          have hfin : ∀ mv mn, scan cfg delta rest
              (P.modifySt id (fun s => { s with b := cfg.bOf nd.st.reward delta })) mv mn =
                (P1, res) →
              amStep (leafScore P (fun st => cfg.bOf st.reward delta)) (maxv, maxn) id = (mv, mn) →
              ScanPost cfg delta (id :: rest) P maxv maxn P1 res := by
            intro mv mn hrun' hstep
            have ih := scan_spec cfg delta rest _ mv mn P1 res hrun'
            have hun : ∀ w, unvisitedLeaf (P.modifySt id
                (fun s => { s with b := cfg.bOf nd.st.reward delta })) w = unvisitedLeaf P w :=
              fun w => unvisitedLeaf_prel hR (fun _ _ _ h => h.1) w
            have hsc : ∀ w, leafScore (P.modifySt id
                (fun s => { s with b := cfg.bOf nd.st.reward delta }))
                (fun st => cfg.bOf st.reward delta) w =
                  leafScore P (fun st => cfg.bOf st.reward delta) w :=
              fun w => leafScore_prel hR (fun a b h => by simp only [h.2.1])
            have hfind : rest.find? (unvisitedLeaf (P.modifySt id
                (fun s => { s with b := cfg.bOf nd.st.reward delta }))) =
                  rest.find? (unvisitedLeaf P) := by
              congr 1; funext w; exact hun w
            refine ⟨?_, ?_, ?_⟩
            · refine hR.trans' ih.rel ?_
              intro i a b c s1 _ ⟨a1, a2, a3⟩ ⟨b1, b2, b3⟩
              refine ⟨b1.trans a1, b2.trans a2, ?_⟩
              rcases b3 with b3 | ⟨b3, b4, b5, b6⟩
              · rcases a3 with a3 | ⟨a3, a4, a5, a6⟩
                · exact Or.inl (b3.trans a3)
                · exact Or.inr ⟨List.mem_cons.2 (Or.inl (by simpa using a3)), a4, a5,
                    by rw [b3]; exact a6⟩
              · exact Or.inr ⟨List.mem_cons_of_mem _ b3, by rw [← s1.children]; exact b4,
                  by rw [← a1]; exact b5, by rw [b6, a2]⟩
            · intro v hv'
              simp only [List.find?_cons, h1] at hv'
              exact ih.found v (by rw [hfind]; exact hv')
            · intro hv'
              simp only [List.find?_cons, h1] at hv'
              obtain ⟨a, b⟩ := ih.best (by rw [hfind]; exact hv')
              refine ⟨?_, ?_⟩
              · rw [amFold_cons, hstep, a]
                rw [amFold_congr (fun w _ => hsc w)]
              · intro w hw x hx hxl
                obtain ⟨x', c1, c2, c3⟩ := hR.node w x hx
                rcases List.mem_cons.1 hw with rfl | hw
                · obtain rfl := getElem?_inj hn hx
                  obtain ⟨y, d1, _, ⟨_, d3, d4⟩⟩ := ih.rel.node w x' c1
                  refine ⟨y, d1, ?_⟩
                  have hb' : x'.st.b = cfg.bOf nd.st.reward delta := by
                    rcases c3.2.2 with e | ⟨_, _, _, e⟩
                    · have := getElem?_modifySt P w
                        (fun s => { s with b := cfg.bOf nd.st.reward delta }) w
                      rw [c1, hn] at this
                      simp only [Option.map_some, if_true, Option.some.injEq] at this
                      rw [this]
                    · exact e
                  rcases d4 with e | ⟨_, _, _, e⟩
                  · rw [e, hb']
                  · rw [e, c3.2.1]
                · obtain ⟨y, d1, d2⟩ := b w hw x' c1 (by rw [c2.children]; exact hxl)
                  exact ⟨y, d1, by rw [d2, c3.2.1]⟩
          by_cases hc : maxv ≤ cfg.bOf nd.st.reward delta
          · simp only [hc, if_true] at hrun
            exact hfin _ _ hrun (by simp [amStep, h2, hc])
          · simp only [hc, if_false] at hrun
            exact hfin _ _ hrun (by simp [amStep, h2, hc])
        · have hv' : nd.st.visited = false := by simpa using hv
          simp only [hl, hv', if_true, Bool.false_eq_true, if_false, Prod.mk.injEq] at hrun
          obtain ⟨rfl, rfl⟩ := hrun
          have h1 : unvisitedLeaf P id = true := by simp [unvisitedLeaf, leafTest, hn, hl, hv']
          refine ⟨PRel.refl (BRef.rfl' cfg delta _) P, ?_, ?_⟩
          · intro v hv2
            simp only [List.find?_cons, h1, Option.some.injEq] at hv2
            rw [hv2]
          · intro hv2
            simp [h1] at hv2
      · simp only [hl] at hrun
        exact hskip (by simp [unvisitedLeaf, leafTest, hn, hl]) (by simp [leafScore, hn, hl]) hrun

end DOO
end PyXAB
