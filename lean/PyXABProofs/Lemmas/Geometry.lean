/-
  Box-level helper lemmas for property group C02 (geometry of the partitions):
  `Box.Mem` / `Box.Subset` / `Tiles` algebra, `splitChain`, `splitAll`, `Box.cpoint`,
  and the unfolding of `childBoxes` for each partition class.
-/
import PyXABProofs.Lemmas.Chain

namespace PyXAB
open List ListAux

/-! ### intervals -/
section iv
variable {α : Type} [Field α] [LinearOrder α] [IsStrictOrderedRing α]

theorem mid_bounds {a b : α} (h : a ≤ b) : a ≤ mid a b ∧ mid a b ≤ b := by
  unfold mid; constructor <;> linarith

theorem mid_strict_bounds {a b : α} (h : a < b) : a < mid a b ∧ mid a b < b := by
  unfold mid; constructor <;> linarith

omit [LinearOrder α] [IsStrictOrderedRing α] in
theorem Iv.mid_eq (i : Iv α) : i.mid = (i.lo + i.hi) / 2 := rfl

theorem Iv.lower_width (i : Iv α) : i.lower.hi - i.lower.lo = (i.hi - i.lo) / 2 := by
  show (i.lo + i.hi) / 2 - i.lo = (i.hi - i.lo) / 2
  linarith

theorem Iv.upper_width (i : Iv α) : i.upper.hi - i.upper.lo = (i.hi - i.lo) / 2 := by
  show i.hi - (i.lo + i.hi) / 2 = (i.hi - i.lo) / 2
  linarith

end iv

/-! ### `Box.Mem`, `Box.IntMem`, `Box.Subset` -/
section boxorder
variable {α : Type} [LinearOrder α]

theorem Box.Mem.length_eq {b : Box α} {x : List α} (h : Box.Mem b x) : x.length = b.length :=
  (Forall₂.length_eq h).symm

theorem Box.Subset.length_eq {c b : Box α} (h : Box.Subset c b) : c.length = b.length :=
  Forall₂.length_eq h

theorem Box.Subset.refl (b : Box α) : Box.Subset b b :=
  forall₂_same.2 fun _ _ => ⟨le_rfl, le_rfl⟩

theorem Box.Subset.trans {a b c : Box α} (h1 : Box.Subset a b) (h2 : Box.Subset b c) :
    Box.Subset a c := by
  replace h1 : Forall₂ Iv.Subset a b := h1
  induction h1 generalizing c with
  | nil => exact h2
  | cons hab _ ih =>
    obtain ⟨c0, cs, h0, hs, rfl⟩ := forall₂_cons_left_iff.1 h2
    exact Forall₂.cons ⟨h0.1.trans hab.1, hab.2.trans h0.2⟩ (ih hs)

/-- a point of a sub-cell is a point of the cell -/
theorem Box.mem_of_subset {c b : Box α} {x : List α} (h : Box.Subset c b) (hx : Box.Mem c x) :
    Box.Mem b x := by
  replace h : Forall₂ Iv.Subset c b := h
  induction h generalizing x with
  | nil => exact hx
  | cons hab _ ih =>
    obtain ⟨x0, xs, h0, hs, rfl⟩ := forall₂_cons_left_iff.1 hx
    exact Forall₂.cons ⟨hab.1.trans h0.1, h0.2.trans hab.2⟩ (ih hs)

/-- an interior point of a sub-cell is an interior point of the cell -/
theorem Box.intMem_of_subset {c b : Box α} {x : List α} (h : Box.Subset c b)
    (hx : Box.IntMem c x) : Box.IntMem b x := by
  replace h : Forall₂ Iv.Subset c b := h
  induction h generalizing x with
  | nil => exact hx
  | cons hab _ ih =>
    obtain ⟨x0, xs, h0, hs, rfl⟩ := forall₂_cons_left_iff.1 hx
    exact Forall₂.cons ⟨lt_of_le_of_lt hab.1 h0.1, lt_of_lt_of_le h0.2 hab.2⟩ (ih hs)

/-- interior points are points -/
theorem Box.mem_of_intMem {b : Box α} {x : List α} (hx : Box.IntMem b x) : Box.Mem b x :=
  Forall₂.imp (fun _ _ h => ⟨h.1.le, h.2.le⟩) hx

/-- index form of `Box.Mem` -/
theorem Box.mem_iff_getElem {b : Box α} {x : List α} :
    Box.Mem b x ↔ b.length = x.length ∧
      ∀ j (h₁ : j < b.length) (h₂ : j < x.length), b[j].lo ≤ x[j] ∧ x[j] ≤ b[j].hi :=
  forall₂_iff_getElem

/-- index form of `Box.IntMem` -/
theorem Box.intMem_iff_getElem {b : Box α} {x : List α} :
    Box.IntMem b x ↔ b.length = x.length ∧
      ∀ j (h₁ : j < b.length) (h₂ : j < x.length), b[j].lo < x[j] ∧ x[j] < b[j].hi :=
  forall₂_iff_getElem

/-- index form of `Box.Subset` -/
theorem Box.subset_iff_getElem {c b : Box α} :
    Box.Subset c b ↔ c.length = b.length ∧
      ∀ j (h₁ : j < c.length) (h₂ : j < b.length), b[j].lo ≤ c[j].lo ∧ c[j].hi ≤ b[j].hi :=
  forall₂_iff_getElem

/-! ### `Tiles` algebra -/

/-- the `←` half of the covering clause follows from the sub-cell clause -/
theorem Tiles.of_cover {kids : List (Box α)} {b : Box α}
    (h1 : ∀ c ∈ kids, Box.Subset c b ∧ Box.Valid c)
    (h2 : ∀ x, Box.Mem b x → ∃ c ∈ kids, Box.Mem c x)
    (h3 : kids.Pairwise (fun c c' => ¬ ∃ x, Box.IntMem c x ∧ Box.IntMem c' x)) :
    Tiles kids b :=
  ⟨h1, fun x => ⟨h2 x, fun ⟨c, hc, hx⟩ => Box.mem_of_subset (h1 c hc).1 hx⟩, h3⟩

theorem Tiles.self {b : Box α} (hb : Box.Valid b) : Tiles [b] b := by
  refine Tiles.of_cover ?_ (fun x hx => ⟨b, mem_singleton.2 rfl, hx⟩) (pairwise_singleton _ _)
  intro c hc
  rw [mem_singleton] at hc
  subst hc
  exact ⟨Box.Subset.refl _, hb⟩

/-- `Tiles` does not depend on the order of the cells -/
theorem Tiles.perm {kids kids' : List (Box α)} {b : Box α} (hp : kids.Perm kids')
    (h : Tiles kids b) : Tiles kids' b := by
  obtain ⟨h1, h2, h3⟩ := h
  refine ⟨fun c hc => h1 c (hp.mem_iff.2 hc), fun x => ?_, ?_⟩
  · rw [h2 x]
    constructor
    · rintro ⟨c, hc, hx⟩; exact ⟨c, hp.mem_iff.1 hc, hx⟩
    · rintro ⟨c, hc, hx⟩; exact ⟨c, hp.mem_iff.2 hc, hx⟩
  · refine (hp.pairwise_iff ?_).1 h3
    rintro c c' h ⟨x, hx, hx'⟩
    exact h ⟨x, hx', hx⟩

/-- replacing the head cell of a tiling by a tiling of that cell -/
theorem tiles_refine_cons {c b : Box α} {l kids : List (Box α)} (h : Tiles (c :: l) b)
    (hk : Tiles kids c) : Tiles (kids ++ l) b := by
  obtain ⟨hs, hc, hp⟩ := h
  obtain ⟨ks, kc, kp⟩ := hk
  refine ⟨?_, ?_, ?_⟩
  · intro c' hc'
    rcases mem_append.1 hc' with h | h
    · exact ⟨(ks c' h).1.trans (hs c mem_cons_self).1, (ks c' h).2⟩
    · exact hs c' (mem_cons_of_mem _ h)
  · intro x
    rw [hc x]
    constructor
    · rintro ⟨c', hc', hx⟩
      rcases mem_cons.1 hc' with h | h
      · subst h
        obtain ⟨k, hk, hkx⟩ := (kc x).1 hx
        exact ⟨k, mem_append_left _ hk, hkx⟩
      · exact ⟨c', mem_append_right _ h, hx⟩
    · rintro ⟨c', hc', hx⟩
      rcases mem_append.1 hc' with h | h
      · exact ⟨c, mem_cons_self, (kc x).2 ⟨c', h, hx⟩⟩
      · exact ⟨c', mem_cons_of_mem _ h, hx⟩
  · rw [pairwise_append]
    obtain ⟨hcl, hl⟩ := pairwise_cons.1 hp
    refine ⟨kp, hl, ?_⟩
    rintro k hk c' hc' ⟨x, hkx, hc'x⟩
    exact hcl c' hc' ⟨x, Box.intMem_of_subset (ks k hk).1 hkx, hc'x⟩

end boxorder

/-! ### `splitChain` -/
section splitChain
variable {α : Type}

theorem splitChain_eq (b : Box α) {dim : Nat} (pts : List α) (hd : dim < b.length) :
    splitChain b dim pts =
      (chainIvs (b[dim].lo :: (pts ++ [b[dim].hi]))).map (fun i => b.set dim i) := by
  simp only [splitChain, getElem?_eq_getElem hd]

theorem splitChain_length (b : Box α) {dim : Nat} (pts : List α) (hd : dim < b.length) :
    (splitChain b dim pts).length = pts.length + 1 := by
  rw [splitChain_eq b pts hd, length_map, length_chainIvs_snoc]

/-- child `j` is the parent with interval `dim` replaced by boundaries `j`, `j+1` -/
theorem splitChain_getElem? (b : Box α) {dim : Nat} (pts : List α) (hd : dim < b.length)
    {j : Nat} {x y : α}
    (hx : (b[dim].lo :: (pts ++ [b[dim].hi]))[j]? = some x)
    (hy : (b[dim].lo :: (pts ++ [b[dim].hi]))[j + 1]? = some y) :
    (splitChain b dim pts)[j]? = some (b.set dim ⟨x, y⟩) := by
  rw [splitChain_eq b pts hd, getElem?_map, getElem?_chainIvs _ j x y hx hy]
  rfl

theorem splitChain_getElem?_inv (b : Box α) {dim : Nat} (pts : List α) (hd : dim < b.length)
    {j : Nat} {c : Box α} (hc : (splitChain b dim pts)[j]? = some c) :
    ∃ iv : Iv α, c = b.set dim iv ∧
      (b[dim].lo :: (pts ++ [b[dim].hi]))[j]? = some iv.lo ∧
      (b[dim].lo :: (pts ++ [b[dim].hi]))[j + 1]? = some iv.hi := by
  rw [splitChain_eq b pts hd, getElem?_map, Option.map_eq_some_iff] at hc
  obtain ⟨iv, hiv, rfl⟩ := hc
  exact ⟨iv, rfl, getElem?_chainIvs_inv _ j iv hiv⟩

theorem splitChain_mem (b : Box α) {dim : Nat} (pts : List α) (hd : dim < b.length)
    {c : Box α} (hc : c ∈ splitChain b dim pts) :
    ∃ iv ∈ chainIvs (b[dim].lo :: (pts ++ [b[dim].hi])), c = b.set dim iv := by
  rw [splitChain_eq b pts hd, mem_map] at hc
  obtain ⟨iv, hiv, rfl⟩ := hc
  exact ⟨iv, hiv, rfl⟩

end splitChain

section splitChainOrder
variable {α : Type} [LinearOrder α]

theorem set_subset_valid {b : Box α} (hb : Box.Valid b) {dim : Nat} (hd : dim < b.length)
    {i : Iv α} (h1 : b[dim].lo ≤ i.lo) (h2 : i.lo ≤ i.hi) (h3 : i.hi ≤ b[dim].hi) :
    Box.Subset (b.set dim i) b ∧ Box.Valid (b.set dim i) := by
  refine ⟨forall₂_set_self hd i (fun _ _ => ⟨le_rfl, le_rfl⟩) ⟨h1, h3⟩, fun y hy => ?_⟩
  rcases mem_set_imp hy with rfl | hy
  · exact h2
  · exact hb y hy

theorem splitChain_tiles_aux {b : Box α} {dim : Nat} {pts : List α} (hb : Box.Valid b)
    (hd : dim < b.length) (hm : Mono (b[dim].lo :: (pts ++ [b[dim].hi]))) :
    Tiles (splitChain b dim pts) b := by
  rw [splitChain_eq b pts hd]
  refine Tiles.of_cover ?_ ?_ ?_
  · intro c hc
    obtain ⟨iv, hiv, rfl⟩ := mem_map.1 hc
    obtain ⟨h1, h2, h3⟩ := chain_bounds hm iv hiv
    exact set_subset_valid hb hd h1 h2 h3
  · intro x hx
    rw [Box.Mem, forall₂_split_at hd] at hx
    obtain ⟨hrest, hdx, hm1, hm2⟩ := hx
    obtain ⟨iv, hiv, hlo, hhi⟩ := chain_cover hm hm1 hm2
    refine ⟨b.set dim iv, mem_map_of_mem hiv, ?_⟩
    rw [Box.Mem, forall₂_set_left hd]
    exact ⟨hrest, hdx, hlo, hhi⟩
  · rw [pairwise_map]
    refine (chain_pairwise hm).imp ?_
    rintro i i' h ⟨x, h1, h2⟩
    rw [Box.IntMem, forall₂_set_left hd] at h1 h2
    obtain ⟨_, _, _, h1hi⟩ := h1
    obtain ⟨_, _, h2lo, _⟩ := h2
    exact lt_irrefl _ ((h1hi.trans_le h).trans h2lo)

end splitChainOrder

/-! ### `splitAll` -/
section splitAll
variable {α : Type} [Field α] [LinearOrder α] [IsStrictOrderedRing α]

omit [LinearOrder α] [IsStrictOrderedRing α] in
theorem splitAll_cons (iv : Iv α) (rest : Box α) :
    splitAll (iv :: rest) = (splitAll rest).flatMap (fun r => [iv.lower :: r, iv.upper :: r]) :=
  rfl

omit [LinearOrder α] [IsStrictOrderedRing α] in
theorem splitAll_length (b : Box α) : (splitAll b).length = 2 ^ b.length := by
  induction b with
  | nil => rfl
  | cons iv rest ih =>
    rw [splitAll_cons, length_flatMap_pair, ih, length_cons, Nat.pow_succ]
    omega

omit [LinearOrder α] [IsStrictOrderedRing α] in
/-- child `i` of `DimensionBinaryPartition`: upper half in dimension `j` iff bit `j` of `i` -/
theorem splitAll_getElem? (b : Box α) (i : Nat) (hi : i < 2 ^ b.length) :
    (splitAll b)[i]? =
      some (b.mapIdx (fun j iv => if Nat.testBit i j then iv.upper else iv.lower)) := by
  induction b generalizing i with
  | nil =>
    have : i = 0 := by simpa using hi
    subst this
    rfl
  | cons iv rest ih =>
    have hi2 : i / 2 < 2 ^ rest.length := by
      rw [length_cons, Nat.pow_succ] at hi
      omega
    rw [splitAll_cons, getElem?_flatMap_pair, ih (i / 2) hi2, Option.map_some, mapIdx_cons]
    simp only [Nat.testBit_succ, Nat.testBit_zero]
    rcases Nat.mod_two_eq_zero_or_one i with h | h <;> simp [h]

omit [LinearOrder α] [IsStrictOrderedRing α] in
/-- every child of `splitAll` is, coordinatewise, the lower or the upper half of the parent -/
theorem splitAll_halves (b : Box α) :
    ∀ c ∈ splitAll b, Forall₂ (fun ci bi => ci = bi.lower ∨ ci = bi.upper) c b := by
  induction b with
  | nil =>
    intro c hc
    have : c = [] := by simpa [splitAll] using hc
    subst this
    exact Forall₂.nil
  | cons iv rest ih =>
    intro c hc
    rw [splitAll_cons] at hc
    obtain ⟨r, hr, hcr⟩ := mem_flatMap.1 hc
    simp only [mem_cons, not_mem_nil, or_false] at hcr
    rcases hcr with rfl | rfl
    · exact Forall₂.cons (Or.inl rfl) (ih r hr)
    · exact Forall₂.cons (Or.inr rfl) (ih r hr)

theorem splitAll_tiles_aux {b : Box α} (hb : Box.Valid b) : Tiles (splitAll b) b := by
  induction b with
  | nil => exact Tiles.self hb
  | cons iv rest ih =>
    have hiv : iv.lo ≤ iv.hi := hb iv mem_cons_self
    have hrest : Box.Valid rest := fun y hy => hb y (mem_cons_of_mem _ hy)
    obtain ⟨hs, hc, hp⟩ := ih hrest
    obtain ⟨hm1, hm2⟩ := mid_bounds hiv
    rw [splitAll_cons]
    refine Tiles.of_cover ?_ ?_ ?_
    · intro c hc'
      obtain ⟨r, hr, hcr⟩ := mem_flatMap.1 hc'
      obtain ⟨hrs, hrv⟩ := hs r hr
      simp only [mem_cons, not_mem_nil, or_false] at hcr
      rcases hcr with rfl | rfl
      · refine ⟨Forall₂.cons ⟨le_rfl, hm2⟩ hrs, fun y hy => ?_⟩
        rcases mem_cons.1 hy with rfl | hy
        · exact hm1
        · exact hrv y hy
      · refine ⟨Forall₂.cons ⟨hm1, le_rfl⟩ hrs, fun y hy => ?_⟩
        rcases mem_cons.1 hy with rfl | hy
        · exact hm2
        · exact hrv y hy
    · intro x hx
      obtain ⟨x0, xs, h0, hxs, rfl⟩ := forall₂_cons_left_iff.1 hx
      obtain ⟨r, hr, hrx⟩ := (hc xs).1 hxs
      rcases le_total x0 iv.mid with h | h
      · exact ⟨iv.lower :: r, mem_flatMap.2 ⟨r, hr, by simp⟩, Forall₂.cons ⟨h0.1, h⟩ hrx⟩
      · exact ⟨iv.upper :: r, mem_flatMap.2 ⟨r, hr, by simp⟩, Forall₂.cons ⟨h, h0.2⟩ hrx⟩
    · rw [pairwise_flatMap]
      refine ⟨fun r _ => ?_, hp.imp ?_⟩
      · rw [pairwise_pair]
        rintro ⟨x, h1, h2⟩
        obtain ⟨x0, xs, h10, _, rfl⟩ := forall₂_cons_left_iff.1 h1
        obtain ⟨x0', xs', h20, _, heq⟩ := forall₂_cons_left_iff.1 h2
        rw [cons.injEq] at heq
        obtain ⟨rfl, _⟩ := heq
        exact lt_irrefl _ (h10.2.trans h20.1)
      · intro r r' hrr' c hc c' hc' ⟨x, h1, h2⟩
        simp only [mem_cons, not_mem_nil, or_false] at hc hc'
        have t1 : ∃ x0 xs, x = x0 :: xs ∧ Box.IntMem r xs := by
          rcases hc with rfl | rfl <;>
          · obtain ⟨x0, xs, _, h, rfl⟩ := forall₂_cons_left_iff.1 h1
            exact ⟨x0, xs, rfl, h⟩
        have t2 : ∃ x0 xs, x = x0 :: xs ∧ Box.IntMem r' xs := by
          rcases hc' with rfl | rfl <;>
          · obtain ⟨x0, xs, _, h, rfl⟩ := forall₂_cons_left_iff.1 h2
            exact ⟨x0, xs, rfl, h⟩
        obtain ⟨x0, xs, rfl, hr⟩ := t1
        obtain ⟨x0', xs', heq, hr'⟩ := t2
        rw [cons.injEq] at heq
        obtain ⟨_, rfl⟩ := heq
        exact hrr' ⟨xs, hr, hr'⟩

end splitAll

/-! ### `Box.cpoint` -/
section cpoint
variable {α : Type} [Field α] [LinearOrder α] [IsStrictOrderedRing α]

omit [LinearOrder α] [IsStrictOrderedRing α] in
theorem cpoint_length (b : Box α) : (Box.cpoint b).length = b.length := by
  simp [Box.cpoint]

omit [LinearOrder α] [IsStrictOrderedRing α] in
theorem cpoint_getElem (b : Box α) (j : Nat) (hj : j < b.length) :
    (Box.cpoint b)[j]'(by rw [cpoint_length]; exact hj) = (b[j].lo + b[j].hi) / 2 := by
  simp [Box.cpoint, Iv.mid, mid]

theorem cpoint_mem_aux {b : Box α} (hb : Box.Valid b) : Box.Mem b (Box.cpoint b) := by
  unfold Box.Mem Box.cpoint
  rw [forall₂_map_right_iff, forall₂_same]
  exact fun iv hiv => mid_bounds (hb iv hiv)

theorem cpoint_intMem_aux {b : Box α} (hb : ∀ iv ∈ b, iv.lo < iv.hi) :
    Box.IntMem b (Box.cpoint b) := by
  unfold Box.IntMem Box.cpoint
  rw [forall₂_map_right_iff, forall₂_same]
  exact fun iv hiv => mid_strict_bounds (hb iv hiv)

end cpoint

/-! ### unfolding `childBoxes` -/
section kinds
variable {α : Type} [Field α] [LinearOrder α] [IsStrictOrderedRing α]

omit [LinearOrder α] [IsStrictOrderedRing α] in
theorem childBoxes_binary (b : Box α) (d : Draw α) (hd : d.dim < b.length) :
    childBoxes .binary b d = splitChain b d.dim [b[d.dim].mid] := by
  simp only [childBoxes, getElem?_eq_getElem hd]

omit [LinearOrder α] [IsStrictOrderedRing α] in
theorem childBoxes_binary_explicit (b : Box α) (d : Draw α) (hd : d.dim < b.length) :
    childBoxes .binary b d = [b.set d.dim b[d.dim].lower, b.set d.dim b[d.dim].upper] := by
  rw [childBoxes_binary b d hd, splitChain_eq b _ hd]
  rfl

omit [LinearOrder α] [IsStrictOrderedRing α] in
theorem childBoxes_kary (K : Nat) (b : Box α) (d : Draw α) (hd : d.dim < b.length) :
    childBoxes (.kary K) b d =
      splitChain b d.dim (linspacePts b[d.dim].lo b[d.dim].hi K) := by
  simp only [childBoxes, getElem?_eq_getElem hd]

omit [LinearOrder α] [IsStrictOrderedRing α] in
theorem childBoxes_randBinary (b : Box α) (d : Draw α) {s : α} (hs : d.pts.head? = some s) :
    childBoxes .randBinary b d = splitChain b d.dim [s] := by
  obtain ⟨rest, hrest⟩ : ∃ rest, d.pts = s :: rest := by
    cases hp : d.pts with
    | nil => rw [hp] at hs; simp at hs
    | cons a t => rw [hp] at hs; simp at hs; exact ⟨t, by rw [hs]⟩
  simp only [childBoxes, hrest, take_succ_cons, take_zero]

omit [LinearOrder α] [IsStrictOrderedRing α] in
theorem childBoxes_randKary (K : Nat) (b : Box α) (d : Draw α) (hl : d.pts.length = K - 1) :
    childBoxes (.randKary K) b d = splitChain b d.dim d.pts := by
  simp only [childBoxes, take_of_length_le (le_of_eq hl)]

/-- child `j` of `KaryPartition` explicitly: `[lo + j w, lo + (j+1) w]` with `w = (hi-lo)/K`
on the split dimension (as elements of the field; the model stores the outer end points as the
literal `lo`, `hi`). -/
theorem kary_child_getElem? {K : Nat} (hK : 1 ≤ K) (b : Box α) (d : Draw α)
    (hd : d.dim < b.length) {j : Nat} (hj : j < K) :
    (childBoxes (.kary K) b d)[j]? =
      some (b.set d.dim
        ⟨(j : α) * ((b[d.dim].hi - b[d.dim].lo) / (K : α)) + b[d.dim].lo,
         ((j : α) + 1) * ((b[d.dim].hi - b[d.dim].lo) / (K : α)) + b[d.dim].lo⟩) := by
  rw [childBoxes_kary K b d hd]
  refine splitChain_getElem? b _ hd ?_ ?_
  · exact linspace_bd_getElem? _ _ hK (le_of_lt hj)
  · rw [linspace_bd_getElem? _ _ hK (Nat.succ_le_of_lt hj), Nat.cast_succ]

/-- Every class except `DimensionBinaryPartition` is a `splitChain` along the drawn dimension
with a weakly increasing boundary list having `arity - 1` interior points. -/
theorem childBoxes_eq_splitChain {k : Kind} (hk : k ≠ .dimBinary) {b : Box α} {d : Draw α}
    (hb : Box.Valid b) (hd : DrawOK k b d) :
    ∃ (h : d.dim < b.length) (pts : List α), childBoxes k b d = splitChain b d.dim pts ∧
      Mono (b[d.dim].lo :: (pts ++ [b[d.dim].hi])) ∧ pts.length + 1 = k.arity b.length := by
  cases k with
  | binary =>
    have h : d.dim < b.length := hd
    refine ⟨h, [b[d.dim].mid], childBoxes_binary b d h, ?_, rfl⟩
    obtain ⟨h1, h2⟩ := mid_bounds (hb _ (getElem_mem h))
    show Mono [_, _, _]
    exact ⟨h1, h2, trivial⟩
  | randBinary =>
    obtain ⟨h, s, hs, h1, h2⟩ := hd
    refine ⟨h, [s], childBoxes_randBinary b d hs, ?_, rfl⟩
    show Mono [_, _, _]
    exact ⟨h1, h2, trivial⟩
  | dimBinary => exact absurd rfl hk
  | kary K =>
    obtain ⟨hK, h⟩ := hd
    refine ⟨h, _, childBoxes_kary K b d h, linspace_mono' (hb _ (getElem_mem h)) hK, ?_⟩
    rw [length_linspacePts]
    show K - 1 + 1 = K
    omega
  | randKary K =>
    obtain ⟨hK, h, hl, hm⟩ := hd
    refine ⟨h, d.pts, childBoxes_randKary K b d hl, hm, ?_⟩
    rw [hl]
    show K - 1 + 1 = K
    omega

end kinds
end PyXAB
