/-
  Consequences of the invariant of SequOOL (schedule, depth bounds, the `opened` flags, the
  initial state) and the run of one complete opening.
-/
import PyXABProofs.Lemmas.SQ_Run

set_option linter.unusedSectionVars false
set_option linter.unusedVariables false

namespace PyXAB
namespace SQ
open Tree TBA

variable {α S : Type} [Add α] [Sub α] [Mul α] [Div α] [OfNat α 2] [NatCast α]
variable [LinearOrder S] [Inhabited S] {negInf : S}

/-! ### The initial state -/

theorem init_inv (k : Kind) (domain : Box α) (hmax : Nat) (hK : 1 ≤ k.arity domain.length) :
    Inv negInf (SequOOL.init k domain hmax : SequOOL α S) := by
  have hKe : K (SequOOL.init k domain hmax : SequOOL α S).P = k.arity domain.length := rfl
  have hnode : ∀ (i : Nat) (nd : Node α (SqSt S)),
      (SequOOL.init k domain hmax : SequOOL α S).P.nodes[i]? = some nd →
      i = 0 ∧ nd.children = none ∧ nd.st = SequOOL.st0 := by
    intro i nd hi
    have hlt := lt_length_of_getElem? hi
    have : i = 0 := by simpa [SequOOL.init, Part.init] using hlt
    subst this
    simp [SequOOL.init, Part.init] at hi
    subst hi
    exact ⟨rfl, rfl, rfl⟩
  unfold Inv
  refine
    { wf := init_WF' k domain _
      K_pos := by rw [hKe]; exact hK
      cd_le := Nat.zero_le _
      cd_le_depth := Nat.zero_le _
      pdepth_le := Nat.zero_le _
      loc_lt := by rw [hKe]; exact hK
      chosen_eq := rfl
      mr_le := Nat.le_refl _
      len := rfl
      cd0 := fun _ => rfl
      rew := ?_
      opened_ch := ?_
      ch_depth := ?_
      ch_opened := ?_
      opening := fun h => by simp [SequOOL.init] at h
      unopened := fun h => by simp [SequOOL.init] at h
      budget := fun h => by simp [SequOOL.init] at h
      sched := fun h h1 h2 => by simp [SequOOL.init] at h2 }
  · intro i nd hi
    obtain ⟨rfl, _, _⟩ := hnode i nd hi
    exact ⟨fun h => by omega, fun h => by simp [SequOOL.init] at h⟩
  · intro i nd hi ho
    obtain ⟨_, _, h⟩ := hnode i nd hi
    rw [h] at ho; cases ho
  · intro i nd cs hi hc
    obtain ⟨_, h, _⟩ := hnode i nd hi
    rw [h] at hc; cases hc
  · intro i nd cs hi hc
    obtain ⟨_, h, _⟩ := hnode i nd hi
    rw [h] at hc; cases hc

/-! ### Schedule and depth bounds -/

/-- **Schedule**: at every depth `h ≥ 1` at most `hmax / h` cells have been expanded. -/
theorem Inv.schedule {s : SequOOL α S} (I : Inv negInf s) {h : Nat} (h1 : 1 ≤ h) :
    expCount s.P h ≤ s.hmax / h := by
  by_cases hlt : h < s.currDepth
  · exact I.sched h h1 hlt
  · by_cases heq : h = s.currDepth ∧ s.currDepth ≤ s.hmax
    · obtain ⟨rfl, hle⟩ := heq
      obtain ⟨b, _, hb⟩ := I.budget h1
      obtain ⟨b1, _, b3⟩ := hb hle
      split at b3 <;> omega
    · rw [expCount_eq_zero I.wf h]
      · exact Nat.zero_le _
      · intro i nd cs hi hc
        have := I.ch_depth i nd cs hi hc
        omega

/-- no cell deeper than `hmax` is ever expanded, no cell deeper than `hmax + 1` created -/
theorem Inv.depth_bounds {s : SequOOL α S} (I : Inv negInf s) {i : Nat} {nd : Node α (SqSt S)}
    (hi : s.P.nodes[i]? = some nd) :
    nd.depth ≤ s.hmax + 1 ∧ (nd.children ≠ none → nd.depth ≤ s.hmax) := by
  refine ⟨Nat.le_trans (I.wf.depth_le i nd hi) I.pdepth_le, fun h => ?_⟩
  cases hc : nd.children with
  | none => exact absurd hc h
  | some cs => exact (I.ch_depth i nd cs hi hc).1

/-- after the first round the root has been expanded: its children are the cells `1 … K` -/
theorem Inv.root_children {s : SequOOL α S} (I : Inv negInf s) (hne : s.chosen ≠ []) :
    ∃ r, s.P.nodes[0]? = some r ∧ r.children = some (List.range' 1 (K s.P)) := by
  have W := I.wf
  have hm : 1 ≤ s.chosen.length := by
    cases hc : s.chosen with
    | nil => exact absurd hc hne
    | cons _ _ => simp
  have hlt : 1 < s.P.nodes.length := by rw [I.len]; omega
  obtain ⟨nd, hnd⟩ : ∃ nd, s.P.nodes[1]? = some nd := ⟨_, List.getElem?_eq_getElem hlt⟩
  obtain ⟨p, pn, cs, _, p2, p3, p4, p5, _⟩ := W.parent 1 nd (by omega) hnd
  obtain rfl : p = 0 := by omega
  obtain ⟨_, a, a1, rfl, _, _⟩ := W.children 0 pn cs p3 p4
  rw [List.mem_range'_1] at p5
  obtain rfl : a = 1 := by omega
  exact ⟨pn, p3, p4⟩

theorem Inv.mem_chosen {s : SequOOL α S} (I : Inv negInf s) {c : Nat} :
    c ∈ s.chosen ↔ 1 ≤ c ∧ c ≤ s.chosen.length := by
  constructor
  · intro h
    rw [I.chosen_eq, List.mem_range'_1] at h
    omega
  · intro h
    rw [I.chosen_eq, List.mem_range'_1]
    omega

/-- **The `opened` flag** of a search cell is set exactly when all of its children have been
handed out. -/
theorem Inv.opened_iff {s : SequOOL α S} (I : Inv negInf s) {i : Nat} {nd : Node α (SqSt S)}
    (hi : s.P.nodes[i]? = some nd) (hd : 1 ≤ nd.depth) :
    nd.st.opened = true ↔ ∃ cs, nd.children = some cs ∧ ∀ c ∈ cs, c ∈ s.chosen := by
  constructor
  · intro ho
    obtain ⟨_, cs, a2, a3⟩ := I.opened_ch i nd hi ho
    refine ⟨cs, a2, fun c hc => ?_⟩
    obtain ⟨_, _, _, _, _, hlt, _⟩ := I.wf.child_facts hi a2 hc
    rw [I.mem_chosen]
    have := a3 c hc
    omega
  · rintro ⟨cs, h1, h2⟩
    rcases I.ch_opened i nd cs hi h1 hd with h | ⟨hop, rfl⟩
    · exact h
    · exfalso
      obtain ⟨_, _, _, _, _, t4, _, _⟩ := I.opening hop
      have hK := I.loc_lt
      have hmem : s.chosen.length + (K s.P - s.loc) ∈
          List.range' (1 + s.chosen.length - s.loc) (K s.P) := by
        rw [List.mem_range'_1]; omega
      have := I.mem_chosen.1 (h2 _ hmem)
      omega

/-- the root is never flagged, and never listed in `chosen` -/
theorem Inv.root_not_chosen {s : SequOOL α S} (I : Inv negInf s) : 0 ∉ s.chosen := by
  rw [I.chosen_eq, List.mem_range'_1]; omega

theorem Inv.chosen_nodup {s : SequOOL α S} (I : Inv negInf s) : s.chosen.Nodup := by
  rw [I.chosen_eq]; exact List.nodup_range'

theorem K_eq_of {P P' : Part α (SqSt S)} (hk : P'.kind = P.kind) (hd : dimn P' = dimn P) :
    K P' = K P := by
  simp only [K, hk, hd]

/-! ### Rewards and the history -/

/-- One round: the reward lists of the cells handed out before are kept, and (search phase) the
handed-out cell gets exactly the reward of this round. -/
theorem round_rewards (hbot : ∀ x : S, negInf ≤ x) {s s2 : SequOOL α S} (I : Inv negInf s)
    {t v : Nat} {r : S} {ds : List (Draw α)} (hds : HeadOK s.P.kind (dimn s.P) ds)
    (h : round negInf s t r ds = .ok (s2, v)) :
    (∀ i ∈ s.chosen, ∀ nd, s.P.nodes[i]? = some nd →
      ∃ nd', s2.P.nodes[i]? = some nd' ∧ nd'.st.rewards = nd.st.rewards) ∧
    (¬ Exhausted s → ∃ nd, s2.P.nodes[v]? = some nd ∧ nd.st.rewards = [r]) := by
  by_cases hex : Exhausted s
  · rw [(round_exhausted I hex t r ds).1] at h
    simp only [Except.ok.injEq, Prod.mk.injEq] at h
    obtain ⟨rfl, rfl⟩ := h
    refine ⟨fun i hi nd hnd => ?_, fun h => absurd hex h⟩
    have hne : ¬ 0 = i := fun e => I.root_not_chosen (e ▸ hi)
    refine ⟨nd, ?_, rfl⟩
    show (s.P.modifySt 0 _).nodes[i]? = some nd
    rw [getElem?_modifySt_of hnd]; simp [hne]
  · have hcd : s.currDepth ≤ s.hmax := Nat.le_of_not_lt hex
    obtain ⟨s1, h1, SP, M, _⟩ := round_search hbot I hcd t r hds
    rw [h1] at h
    simp only [Except.ok.injEq, Prod.mk.injEq] at h
    obtain ⟨rfl, rfl⟩ := h
    have hlen : s1.chosen.length = s.chosen.length + 1 := by rw [SP.chosen]; simp
    refine ⟨fun i hi nd hnd => ?_, fun _ => ?_⟩
    · obtain ⟨nd', n1, n2, _, _⟩ := SP.frame i nd hnd
      have hne : ¬ s.chosen.length + 1 = i := by
        have := (I.mem_chosen.1 hi).2; omega
      refine ⟨nd', ?_, n2⟩
      show (s1.P.modifySt _ _).nodes[i]? = some nd'
      rw [getElem?_modifySt_of n1]; simp [hne]
    · have C := M.core
      have hlt : s.chosen.length + 1 < s1.P.nodes.length := by rw [C.len, hlen]; omega
      obtain ⟨nd, hnd⟩ : ∃ nd, s1.P.nodes[s.chosen.length + 1]? = some nd :=
        ⟨_, List.getElem?_eq_getElem hlt⟩
      have hr := (C.rew _ nd hnd).2 (by omega)
      have := getElem?_modifySt_of (i := s.chosen.length + 1)
        (f := fun st : SqSt S => { st with rewards := st.rewards ++ [r] }) hnd
      exact ⟨_, this, by simp [hr]⟩

/-- Over a run: the reward list of a handed-out cell never changes afterwards, and every search
cell of the history carries exactly the reward received in its round. -/
theorem run_rewards (hbot : ∀ x : S, negInf ≤ x) :
    ∀ (inputs : List (S × List (Draw α))) (s : SequOOL α S) (t : Nat), Inv negInf s →
      InputsOK s.P.kind (dimn s.P) inputs → ∀ s' H, runRounds negInf s t inputs = .ok (s', H) →
      (∀ i ∈ s.chosen, ∀ nd, s.P.nodes[i]? = some nd →
        ∃ nd', s'.P.nodes[i]? = some nd' ∧ nd'.st.rewards = nd.st.rewards) ∧
      (∀ e ∈ H, e.1 ≠ 0 → ∃ nd, s'.P.nodes[e.1]? = some nd ∧ nd.st.rewards = [e.2])
  | [], s, t, I, _, s', H, h => by
    simp only [runRounds, Except.ok.injEq, Prod.mk.injEq] at h
    obtain ⟨rfl, rfl⟩ := h
    exact ⟨fun i _ nd hnd => ⟨nd, hnd, rfl⟩, fun e he => nomatch he⟩
  | (r, ds) :: rest, s, t, I, hin, s', H, h => by
    have hds : HeadOK s.P.kind (dimn s.P) ds := hin (r, ds) (List.mem_cons_self ..)
    obtain ⟨s2, v, h1, I2, e1, e2, e3, hexh, hsrch⟩ := round_inv hbot I t r hds
    have hin2 : InputsOK s2.P.kind (dimn s2.P) rest := by
      rw [e2, e3]; exact fun x hx => hin x (List.mem_cons_of_mem _ hx)
    obtain ⟨q1, q2⟩ := round_rewards hbot I hds h1
    simp only [runRounds, h1] at h
    cases hrr : runRounds negInf s2 (t + 1) rest with
    | error e => simp [hrr] at h
    | ok res =>
      obtain ⟨s3, H3⟩ := res
      simp only [hrr, Except.ok.injEq, Prod.mk.injEq] at h
      obtain ⟨rfl, rfl⟩ := h
      obtain ⟨p1, p2⟩ := run_rewards hbot rest s2 (t + 1) I2 hin2 s3 H3 hrr
      have hsub : ∀ i ∈ s.chosen, i ∈ s2.chosen := by
        intro i hi
        by_cases hex : Exhausted s
        · rw [(hexh hex).2.1]; exact hi
        · rw [(hsrch hex).2.1]; exact List.mem_append_left _ hi
      refine ⟨fun i hi nd hnd => ?_, fun e he hne => ?_⟩
      · obtain ⟨nd', a1, a2⟩ := q1 i hi nd hnd
        obtain ⟨nd'', b1, b2⟩ := p1 i (hsub i hi) nd' a1
        exact ⟨nd'', b1, b2.trans a2⟩
      · rcases List.mem_cons.1 he with rfl | he
        · have hex : ¬ Exhausted s := fun hex => hne (hexh hex).1
          obtain ⟨nd, a1, a2⟩ := q2 hex
          have hv : v ∈ s2.chosen := by rw [(hsrch hex).2.1]; simp
          obtain ⟨nd', b1, b2⟩ := p1 v hv nd a1
          exact ⟨nd', b1, b2.trans a2⟩
        · exact p2 e he hne

/-! ### One complete opening -/

theorem frame_credit (s : SequOOL α S) (c : Nat) (r : S) (i : Nat) (nd : Node α (SqSt S))
    (cs : List Nat) (hi : s.P.nodes[i]? = some nd) (hc : nd.children = some cs) :
    ∃ nd', (credit s c r).P.nodes[i]? = some nd' ∧ nd'.children = some cs :=
  ⟨_, getElem?_modifySt_of hi, by split <;> exact hc⟩

/-- The rounds which complete the opening in progress (or a whole opening if `loc = 0`):
`K - loc` rounds hand out the next `K - loc` cells in creation order and end with `loc = 0`;
child lists are kept. -/
theorem opening_rest (hbot : ∀ x : S, negInf ≤ x) :
    ∀ (n : Nat) (s : SequOOL α S) (t : Nat) (inputs : List (S × List (Draw α))),
      Inv negInf s → s.currDepth ≤ s.hmax → s.loc + n + 1 = K s.P → inputs.length = n + 1 →
      InputsOK s.P.kind (dimn s.P) inputs →
      ∃ s' H, runRounds negInf s t inputs = .ok (s', H) ∧ Inv negInf s' ∧ s'.loc = 0 ∧
        H.map (·.1) = List.range' (s.chosen.length + 1) (n + 1) ∧
        s'.chosen = s.chosen ++ List.range' (s.chosen.length + 1) (n + 1) ∧
        (∀ (i : Nat) (nd : Node α (SqSt S)) (cs : List Nat), s.P.nodes[i]? = some nd →
          nd.children = some cs → ∃ nd', s'.P.nodes[i]? = some nd' ∧ nd'.children = some cs) ∧
        (s.currDepth = 0 → s'.currDepth = 1 ∧ s'.budget = some (s.hmax / 1)) := by
  intro n
  induction n with
  | zero =>
    intro s t inputs I hcd hK hlen hin
    match inputs, hlen with
    | [(r, ds)], _ =>
      have hds : HeadOK s.P.kind (dimn s.P) ds := hin (r, ds) (List.mem_cons_self ..)
      obtain ⟨s1, h1, SP, M, I2⟩ := round_search hbot I hcd t r hds
      have hl : s1.loc = 0 := by
        by_cases h0 : s.currDepth = 0
        · exact (SP.last0 (by omega) h0).1
        · exact (SP.last (by omega) (by omega)).1
      refine ⟨_, [(s.chosen.length + 1, r)], by simp only [runRounds, h1], I2, hl, rfl, ?_, ?_,
        fun h0 => (SP.last0 (by omega) h0).2⟩
      · show s1.chosen = _
        rw [SP.chosen]; rfl
      · intro i nd cs hi hc
        obtain ⟨nd', a1, _, _, a2⟩ := SP.frame i nd hi
        exact frame_credit s1 _ r i nd' cs a1 (a2 cs hc)
  | succ n ih =>
    intro s t inputs I hcd hK hlen hin
    match inputs, hlen with
    | (r, ds) :: rest, hlen =>
      have hds : HeadOK s.P.kind (dimn s.P) ds := hin (r, ds) (List.mem_cons_self ..)
      obtain ⟨s1, h1, SP, M, I2⟩ := round_search hbot I hcd t r hds
      obtain ⟨n1, n2, _⟩ := SP.next (by omega)
      have hKe : K (credit s1 (s.chosen.length + 1) r).P = K s.P :=
        K_eq_of SP.kind ((dimn_credit _ _ _).trans SP.dimn)
      have hc2 : (credit s1 (s.chosen.length + 1) r).chosen.length = s.chosen.length + 1 := by
        show s1.chosen.length = _
        rw [SP.chosen]; simp
      obtain ⟨s', H, g1, I', g2, g3, g4, g5, g6⟩ := ih (credit s1 (s.chosen.length + 1) r) (t + 1) rest
        I2 (by show s1.currDepth ≤ s1.hmax; rw [n2, SP.hmax]; exact hcd)
        (by rw [hKe]; show s1.loc + n + 1 = _; omega) (by simpa using hlen)
        (by
          have e1 : (credit s1 (s.chosen.length + 1) r).P.kind = s.P.kind := SP.kind
          have e2 : dimn (credit s1 (s.chosen.length + 1) r).P = dimn s.P :=
            (dimn_credit _ _ _).trans SP.dimn
          rw [e1, e2]; exact fun x hx => hin x (List.mem_cons_of_mem _ hx))
      refine ⟨s', (s.chosen.length + 1, r) :: H, by simp only [runRounds, h1, g1], I', g2, ?_, ?_,
        ?_, fun h0 => ?_⟩
      rotate_right
      · have := g6 (by show s1.currDepth = 0; rw [n2]; exact h0)
        have e : (credit s1 (s.chosen.length + 1) r).hmax = s.hmax := SP.hmax
        rw [e] at this
        exact this
      · rw [List.map_cons, g3, hc2, List.range'_succ (s := s.chosen.length + 1) (n := n + 1)]
      · rw [g4, hc2]
        show s1.chosen ++ _ = _
        rw [SP.chosen, List.append_assoc, List.range'_succ (s := s.chosen.length + 1) (n := n + 1)]; rfl
      · intro i nd cs hi hc
        obtain ⟨nd', a1, _, _, a2⟩ := SP.frame i nd hi
        obtain ⟨nd'', b1, b2⟩ := frame_credit s1 (s.chosen.length + 1) r i nd' cs a1 (a2 cs hc)
        exact g5 i nd'' cs b1 b2

/-- **One complete opening**: from a state with no opening in progress, `K` rounds open the
selected cell `tgt` (a leaf): they hand out its children `cs[0], …, cs[K-1]` in this order, one
per round, and end with the cell flagged `opened` (at a search depth) and `loc = 0`. -/
theorem opening_complete (hbot : ∀ x : S, negInf ≤ x) {s : SequOOL α S} (I : Inv negInf s)
    (hl0 : s.loc = 0) (hcd : s.currDepth ≤ s.hmax) (t : Nat)
    {inputs : List (S × List (Draw α))} (hlen : inputs.length = K s.P)
    (hin : InputsOK s.P.kind (dimn s.P) inputs) :
    ∃ s' H tgt tn cs, runRounds negInf s t inputs = .ok (s', H) ∧ Inv negInf s' ∧ s'.loc = 0 ∧
      Selected s tgt ∧ s.P.isLeaf tgt = true ∧ s'.P.nodes[tgt]? = some tn ∧
      tn.children = some cs ∧ cs = List.range' s.P.nodes.length (K s.P) ∧ H.map (·.1) = cs ∧
      s'.chosen = s.chosen ++ cs ∧ (1 ≤ s.currDepth → tn.st.opened = true) ∧
      (s.currDepth = 0 → s'.currDepth = 1 ∧ s'.budget = some (s.hmax / 1)) := by
  have hKp := I.K_pos
  obtain ⟨s', H, g1, I', g2, g3, g4, g5, g6⟩ := opening_rest hbot (K s.P - 1) s t inputs I hcd
    (by omega) (by omega) hin
  have hn : s.P.nodes.length = s.chosen.length + 1 := by
    have := I.len
    simp only [pend, hl0, Nat.lt_irrefl, decide_false, Bool.false_eq_true, if_false] at this
    omega
  have hKK : K s.P - 1 + 1 = K s.P := by omega
  rw [hKK] at g3 g4
  -- the first round, again, for the identity of the opened cell
  match inputs, hlen with
  | [], hlen => simp at hlen; omega
  | (r, ds) :: rest, hlen =>
    have hds : HeadOK s.P.kind (dimn s.P) ds := hin (r, ds) (List.mem_cons_self ..)
    obtain ⟨s1, h1, SP, M, I2⟩ := round_search hbot I hcd t r hds
    obtain ⟨tgt, tn, cs, c1, c2, c3, c4, c5, c6, c7, _, _⟩ := SP.cell
    obtain ⟨c7a, rfl⟩ := c7 hl0
    -- `tgt` keeps its child list until the end of the run
    have hfr : ∃ tn', s'.P.nodes[tgt]? = some tn' ∧
        tn'.children = some (List.range' s.P.nodes.length (K s.P)) := by
      obtain ⟨x, x1, x2⟩ := frame_credit s1 (s.chosen.length + 1) r tgt tn _ c2 c4
      simp only [runRounds, h1] at g1
      cases hrr : runRounds negInf (credit s1 (s.chosen.length + 1) r) (t + 1) rest with
      | error e => simp [hrr] at g1
      | ok res =>
        obtain ⟨s'', H''⟩ := res
        simp only [hrr, Except.ok.injEq, Prod.mk.injEq] at g1
        obtain ⟨rfl, _⟩ := g1
        by_cases hK1 : K s.P = 1
        · have : rest = [] := by
            cases rest with
            | nil => rfl
            | cons _ _ => simp at hlen; omega
          subst this
          simp only [runRounds, Except.ok.injEq, Prod.mk.injEq] at hrr
          obtain ⟨rfl, _⟩ := hrr
          exact ⟨x, x1, x2⟩
        · obtain ⟨n1, n2, _⟩ := SP.next (by omega)
          have hKe : K (credit s1 (s.chosen.length + 1) r).P = K s.P :=
            K_eq_of SP.kind ((dimn_credit _ _ _).trans SP.dimn)
          obtain ⟨s3, H3, k1, _, _, _, _, k5, _⟩ := opening_rest hbot (K s.P - 2)
            (credit s1 (s.chosen.length + 1) r) (t + 1) rest I2
            (by show s1.currDepth ≤ s1.hmax; rw [n2, SP.hmax]; exact hcd)
            (by rw [hKe]; show s1.loc + _ + 1 = _; omega) (by simp at hlen; omega)
            (by
              have e1 : (credit s1 (s.chosen.length + 1) r).P.kind = s.P.kind := SP.kind
              have e2 : dimn (credit s1 (s.chosen.length + 1) r).P = dimn s.P :=
                (dimn_credit _ _ _).trans SP.dimn
              rw [e1, e2]; exact fun x hx => hin x (List.mem_cons_of_mem _ hx))
          rw [hrr] at k1
          simp only [Except.ok.injEq, Prod.mk.injEq] at k1
          obtain ⟨rfl, _⟩ := k1
          exact k5 tgt x _ x1 x2
    obtain ⟨tn', f1, f2⟩ := hfr
    refine ⟨s', H, tgt, tn', _, g1, I', g2, c1, c7a, f1, f2, rfl, by rw [g3, hn], by rw [g4, hn],
      fun hd => ?_, g6⟩
    -- all children handed out, hence flagged
    obtain ⟨layer, l1, l2⟩ := c1.2 hd
    have htd : 0 < tgt := by
      apply Nat.pos_of_ne_zero
      rintro rfl
      obtain ⟨nd0, n1, n2⟩ := (mem_layer I.wf l1 0).1 l2.mem
      obtain ⟨r0, r1, r2, _⟩ := I.wf.root
      obtain rfl := getElem?_inj r1 n1
      omega
    have hdep := I'.wf.depth_pos_of_pos htd f1
    rw [I'.opened_iff f1 hdep]
    refine ⟨_, f2, fun c hc => ?_⟩
    rw [g4]
    rw [hn] at hc
    exact List.mem_append_right _ hc

/-! ### The exhausted phase over a run; the root cell -/

/-- Once the schedule is exhausted, any further rounds (no draws are consumed) hand out the root
and change neither `chosen`, the depth nor the recommendation. -/
theorem exhausted_run : ∀ (inputs : List (S × List (Draw α))) (s : SequOOL α S) (t : Nat),
    Inv negInf s → Exhausted s →
    ∃ s', runRounds negInf s t inputs = .ok (s', inputs.map (fun x => (0, x.1))) ∧
      Inv negInf s' ∧ Exhausted s' ∧ s'.chosen = s.chosen ∧ s'.currDepth = s.currDepth ∧
      s'.hmax = s.hmax ∧ SequOOL.lastPoint negInf s' = SequOOL.lastPoint negInf s
  | [], s, t, I, hex => ⟨s, rfl, I, hex, rfl, rfl, rfl, rfl⟩
  | (r, ds) :: rest, s, t, I, hex => by
    obtain ⟨h1, I2⟩ := round_exhausted I hex t r ds
    have hex2 : Exhausted (credit { s with iteration := t, curr := some 0 } 0 r) := hex
    obtain ⟨s', g1, I', g2, g3, g4, g5, g6⟩ := exhausted_run rest _ (t + 1) I2 hex2
    refine ⟨s', by simp only [runRounds, h1, g1, List.map_cons], I', g2, g3, g4, g5, ?_⟩
    rw [g6]
    exact lastPoint_credit r I.root_not_chosen rfl rfl

/-- one round keeps the box of every cell -/
theorem round_box (hbot : ∀ x : S, negInf ≤ x) {s s2 : SequOOL α S} (I : Inv negInf s)
    {t v : Nat} {r : S} {ds : List (Draw α)} (hds : HeadOK s.P.kind (dimn s.P) ds)
    (h : round negInf s t r ds = .ok (s2, v)) (i : Nat) (nd : Node α (SqSt S))
    (hi : s.P.nodes[i]? = some nd) : ∃ nd', s2.P.nodes[i]? = some nd' ∧ nd'.box = nd.box := by
  by_cases hex : Exhausted s
  · rw [(round_exhausted I hex t r ds).1] at h
    simp only [Except.ok.injEq, Prod.mk.injEq] at h
    obtain ⟨rfl, rfl⟩ := h
    exact ⟨_, getElem?_modifySt_of hi, by split <;> rfl⟩
  · obtain ⟨s1, h1, SP, _, _⟩ := round_search hbot I (Nat.le_of_not_lt hex) t r hds
    rw [h1] at h
    simp only [Except.ok.injEq, Prod.mk.injEq] at h
    obtain ⟨rfl, rfl⟩ := h
    obtain ⟨nd', n1, _, n2, _⟩ := SP.frame i nd hi
    exact ⟨_, getElem?_modifySt_of n1, by split <;> exact n2⟩

/-- the boxes of existing cells never change over a run -/
theorem run_box (hbot : ∀ x : S, negInf ≤ x) :
    ∀ (inputs : List (S × List (Draw α))) (s : SequOOL α S) (t : Nat), Inv negInf s →
      InputsOK s.P.kind (dimn s.P) inputs → ∀ s' H, runRounds negInf s t inputs = .ok (s', H) →
      ∀ (i : Nat) (nd : Node α (SqSt S)), s.P.nodes[i]? = some nd →
        ∃ nd', s'.P.nodes[i]? = some nd' ∧ nd'.box = nd.box
  | [], s, t, I, _, s', H, h, i, nd, hi => by
    simp only [runRounds, Except.ok.injEq, Prod.mk.injEq] at h
    obtain ⟨rfl, rfl⟩ := h
    exact ⟨nd, hi, rfl⟩
  | (r, ds) :: rest, s, t, I, hin, s', H, h, i, nd, hi => by
    have hds : HeadOK s.P.kind (dimn s.P) ds := hin (r, ds) (List.mem_cons_self ..)
    obtain ⟨s2, v, h1, I2, e1, e2, e3, _, _⟩ := round_inv hbot I t r hds
    have hin2 : InputsOK s2.P.kind (dimn s2.P) rest := by
      rw [e2, e3]; exact fun x hx => hin x (List.mem_cons_of_mem _ hx)
    obtain ⟨nd2, a1, a2⟩ := round_box hbot I hds h1 i nd hi
    simp only [runRounds, h1] at h
    cases hrr : runRounds negInf s2 (t + 1) rest with
    | error e => simp [hrr] at h
    | ok res =>
      obtain ⟨s3, H3⟩ := res
      simp only [hrr, Except.ok.injEq, Prod.mk.injEq] at h
      obtain ⟨rfl, rfl⟩ := h
      obtain ⟨nd3, b1, b2⟩ := run_box hbot rest s2 (t + 1) I2 hin2 s3 H3 hrr i nd2 a1
      exact ⟨nd3, b1, b2.trans a2⟩

theorem IsArgmaxLast.max {P : Part α (SqSt S)} {l : List Nat} {t : Nat}
    (h : IsArgmaxLast P l t) :
    ∃ rt, firstRew P t = some rt ∧
      ∀ id ∈ l, isUnopened P id = true → ∀ r, firstRew P id = some r → r ≤ rt := by
  obtain ⟨l1, l2, rt, rfl, h1, h2, h3, h4⟩ := h
  refine ⟨rt, h2, fun id hid hu r hr => ?_⟩
  rcases List.mem_append.1 hid with h | h
  · exact h3 id h hu r hr
  · rcases List.mem_cons.1 h with rfl | h
    · rw [h2] at hr; cases hr; exact le_refl _
    · exact le_of_lt (h4 id h hu r hr)

theorem IsMaxLast.max {P : Part α (SqSt S)} {l : List Nat} {v : Nat} (h : IsMaxLast P l v) :
    v ∈ l ∧ ∃ rv, firstRew P v = some rv ∧ ∀ id ∈ l, ∀ r, firstRew P id = some r → r ≤ rv := by
  obtain ⟨l1, l2, rv, rfl, h2, h3, h4⟩ := h
  refine ⟨by simp, rv, h2, fun id hid r hr => ?_⟩
  rcases List.mem_append.1 hid with h | h
  · exact h3 id h r hr
  · rcases List.mem_cons.1 h with rfl | h
    · rw [h2] at hr; cases hr; exact le_refl _
    · exact le_of_lt (h4 id h r hr)

end SQ
end PyXAB
