/-
  The weights of VROOM over an ordered field: they sum to one; index arithmetic of the weight
  list; the weight of the drawn cell.
-/
import PyXABProofs.Lemmas.VR_RankAll
import Mathlib.Algebra.BigOperators.Group.List.Basic
import Mathlib.Algebra.BigOperators.Ring.List
import Mathlib.Algebra.Order.Field.Basic

set_option linter.unusedSectionVars false

namespace PyXAB
namespace VR
open _root_.PyXAB.Tree TBA VROOM

/-! ### generic list facts -/
section lists

theorem sum_flatMap' {A M : Type} [AddMonoid M] (f : A → List M) :
    ∀ l : List A, (l.flatMap f).sum = (l.map (fun a => (f a).sum)).sum
  | [] => by simp
  | a :: l => by
    rw [List.flatMap_cons, List.sum_append, List.map_cons, List.sum_cons, sum_flatMap' f l]

theorem length_flatMap' {A B : Type} (f : A → List B) :
    ∀ l : List A, (l.flatMap f).length = (l.map (fun a => (f a).length)).sum
  | [] => by simp
  | a :: l => by
    rw [List.flatMap_cons, List.length_append, List.map_cons, List.sum_cons, length_flatMap' f l]

theorem flatMap_congr' {A B : Type} {f g : A → List B} :
    ∀ {l : List A}, (∀ a ∈ l, f a = g a) → l.flatMap f = l.flatMap g
  | [], _ => rfl
  | a :: l, h => by
    rw [List.flatMap_cons, List.flatMap_cons, h a (List.mem_cons_self ..),
      flatMap_congr' (fun b hb => h b (List.mem_cons_of_mem _ hb))]

/-- Two `flatMap`s over the same list with blocks of equal lengths are indexed in parallel. -/
theorem flatMap_parallel {A B C : Type} {f : A → List B} {g : A → List C} :
    ∀ {l : List A}, (∀ a ∈ l, (f a).length = (g a).length) → ∀ (c : Nat) (x : B),
      (l.flatMap f)[c]? = some x →
      ∃ a ∈ l, ∃ j : Nat, (f a)[j]? = some x ∧ (l.flatMap g)[c]? = (g a)[j]?
  | [], _, c, x, h => by simp at h
  | a :: l, hlen, c, x, h => by
    rw [List.flatMap_cons] at h ⊢
    by_cases hc : c < (f a).length
    · rw [List.getElem?_append_left hc] at h
      refine ⟨a, List.mem_cons_self .., c, h, ?_⟩
      rw [List.getElem?_append_left (by rw [← hlen a (List.mem_cons_self ..)]; exact hc)]
    · rw [List.getElem?_append_right (by omega)] at h
      obtain ⟨b, hb, j, h1, h2⟩ := flatMap_parallel
        (fun b hb => hlen b (List.mem_cons_of_mem _ hb)) _ x h
      refine ⟨b, List.mem_cons_of_mem _ hb, j, h1, ?_⟩
      rw [List.getElem?_append_right (by rw [← hlen a (List.mem_cons_self ..)]; omega),
        ← hlen a (List.mem_cons_self ..)]
      exact h2

theorem sum_pos_of_pos {M : Type} [Field M] [LinearOrder M] [IsStrictOrderedRing M] :
    ∀ l : List M, l ≠ [] → (∀ x ∈ l, 0 < x) → 0 < l.sum
  | [], h, _ => absurd rfl h
  | [x], _, h => by simpa using h x (by simp)
  | x :: y :: l, _, h => by
    rw [List.sum_cons]
    exact add_pos (h x (List.mem_cons_self ..))
      (sum_pos_of_pos (y :: l) (by simp) (fun z hz => h z (List.mem_cons_of_mem _ hz)))

end lists

/-! ### index arithmetic -/

theorem cumIdx_eq_sum (sd : Nat) : cumIdx sd = ((List.range' 1 sd).map (fun h => 2 ^ h)).sum := by
  induction sd with
  | zero => rfl
  | succ n ih =>
    rw [cumIdx, List.range'_concat, List.map_append, List.sum_append, ← ih]
    simp [Nat.add_comm]

theorem cumIdx_closed (sd : Nat) : cumIdx sd + 2 = 2 ^ (sd + 1) := by
  induction sd with
  | zero => rfl
  | succ n ih => rw [cumIdx, Nat.pow_succ 2 (n + 1)]; omega

theorem cumIdx_mono {a b : Nat} (h : a ≤ b) : cumIdx a ≤ cumIdx b := by
  induction h with
  | refl => exact Nat.le_refl _
  | step _ ih => exact Nat.le_trans ih (by rw [cumIdx]; exact Nat.le_add_right _ _)

theorem cumIdx_lt {a b : Nat} (h : a < b) : cumIdx a < cumIdx b := by
  have h1 : cumIdx (a + 1) ≤ cumIdx b := cumIdx_mono h
  have : 0 < 2 ^ (a + 1) := Nat.pow_pos (by omega)
  rw [cumIdx] at h1; omega

/-! ### the normalising constant -/
section field
variable {S : Type} [Field S] [LinearOrder S] [IsStrictOrderedRing S]

theorem normC_pos {sd : Nat} (hsd : 1 ≤ sd) : 0 < (normC sd : S) := by
  unfold normC
  apply sum_pos_of_pos
  · intro e
    have := congrArg List.length e
    simp at this; omega
  · intro x hx
    rw [List.mem_map] at hx
    obtain ⟨h, hh, rfl⟩ := hx
    rw [List.mem_range'_1] at hh
    apply sum_pos_of_pos
    · intro e
      have := congrArg List.length e
      simp at this
    · intro y hy
      rw [List.mem_map] at hy
      obtain ⟨l, hl, rfl⟩ := hy
      rw [List.mem_range'_1] at hl
      have h1 : (0 : S) < (h : S) := by exact_mod_cast (show 0 < h by omega)
      have h2 : (0 : S) < (l : S) := by exact_mod_cast (show 0 < l by omega)
      exact one_div_pos.2 (mul_pos h1 h2)

theorem normC_ne_zero {sd : Nat} (hsd : 1 ≤ sd) : (normC sd : S) ≠ 0 := ne_of_gt (normC_pos hsd)

omit [LinearOrder S] [IsStrictOrderedRing S] in
theorem weight_eq (sd h r : Nat) :
    (weight sd h r : S) = 1 / ((h : S) * (r : S)) * (normC sd)⁻¹ := by
  rw [weight, one_div, mul_inv, one_div]

/-- the weights `1/(h·l·C)`, `h = 1..sd`, `l = 1..2^h`, sum to one -/
theorem weights_sum_one {sd : Nat} (hsd : 1 ≤ sd) :
    ((List.range' 1 sd).map (fun h =>
      ((List.range' 1 (2 ^ h)).map (fun l => (weight sd h l : S))).sum)).sum = 1 := by
  have e : ∀ h : Nat, ((List.range' 1 (2 ^ h)).map (fun l => (weight sd h l : S))).sum =
      ((List.range' 1 (2 ^ h)).map (fun (l : Nat) => 1 / ((h : S) * (l : S)))).sum *
        (normC sd)⁻¹ := by
    intro h
    rw [← List.sum_map_mul_right]
    congr 1
    apply List.map_congr_left
    intro l _
    exact weight_eq sd h l
  simp only [e]
  rw [List.sum_map_mul_right]
  exact mul_inv_cancel₀ (normC_ne_zero hsd)

end field

/-! ### the weight list produced by the ranking stage -/
section probs
variable {α R S : Type}

theorem idxList_eq {sd : Nat} {P : Part α (VrSt R S)}
    (hL : ∀ h, 1 ≤ h → h ≤ sd → (layerAt P h).length = 2 ^ h) : idxList sd P = indexList sd := by
  unfold idxList indexList
  apply flatMap_congr'
  intro h hh
  rw [List.mem_range'_1] at hh
  rw [hL h hh.1 (by omega)]; rfl

theorem length_idxList {sd : Nat} {P : Part α (VrSt R S)}
    (hL : ∀ h, 1 ≤ h → h ≤ sd → (layerAt P h).length = 2 ^ h) :
    (idxList sd P).length = cumIdx sd := by
  rw [idxList, length_flatMap', cumIdx_eq_sum]
  congr 1
  apply List.map_congr_left
  intro h hh
  rw [List.mem_range'_1] at hh
  simp [layerIndex, hL h hh.1 (by omega)]

theorem length_probList {cfg : VrCfg R S} {P P' : Part α (VrSt R S)}
    (hL : ∀ h, 1 ≤ h → h ≤ cfg.sd → (layerAt P h).length = 2 ^ h) :
    (probList cfg P P').length = cumIdx cfg.sd := by
  rw [probList, length_flatMap', cumIdx_eq_sum]
  congr 1
  apply List.map_congr_left
  intro h hh
  rw [List.mem_range'_1] at hh
  simp [layerProbs, hL h hh.1 (by omega)]

/-- **`weight_formula`** (any arity): the entry of the index list at position `c` is `(h, l)`
iff the entry of the weight list at position `c` is the weight of the `l`-th cell of layer
`h`, computed from that cell's new rank. -/
theorem weight_at {cfg : VrCfg R S} {P P' : Part α (VrSt R S)} {c h l : Nat}
    (hc : (idxList cfg.sd P)[c]? = some (h, l)) :
    1 ≤ h ∧ h ≤ cfg.sd ∧ ∃ node, (layerAt P h)[l]? = some node ∧
      (probList cfg P P')[c]? = some (cfg.probOf h (lastRank P' node)) := by
  obtain ⟨a, ha, j, h1, h2⟩ := flatMap_parallel
    (g := fun h => layerProbs cfg P' h (layerAt P h))
    (fun a _ => by simp [layerIndex, layerProbs]) c (h, l) hc
  rw [List.mem_range'_1] at ha
  simp only [layerIndex, List.getElem?_map] at h1
  have hj : j < (layerAt P a).length := by
    by_contra hn
    rw [List.getElem?_eq_none_iff.2 (by simpa using hn)] at h1
    simp at h1
  rw [List.getElem?_eq_getElem (by simpa using hj)] at h1
  simp only [List.getElem_range, Option.map_some, Option.some.injEq, Prod.mk.injEq] at h1
  obtain ⟨rfl, rfl⟩ := h1
  refine ⟨ha.1, by omega, (layerAt P a)[j], List.getElem?_eq_getElem hj, ?_⟩
  rw [probList, h2]
  simp [layerProbs, List.getElem?_eq_getElem hj]

variable [Field S] [LinearOrder S] [IsStrictOrderedRing S]

/-- **The weights sum to one** (arity 2: layer `h` has `2^h` cells). -/
theorem probList_sum {cfg : VrCfg R S} (FC : FieldCfg cfg) (hsd : 1 ≤ cfg.sd)
    {P P' : Part α (VrSt R S)}
    (hperm : ∀ h, 1 ≤ h → h ≤ cfg.sd →
      ((layerAt P h).map (lastRank P')).Perm (List.range' 1 (2 ^ h))) :
    (probList cfg P P').sum = 1 := by
  rw [probList, sum_flatMap', ← weights_sum_one (S := S) hsd]
  congr 1
  apply List.map_congr_left
  intro h hh
  rw [List.mem_range'_1] at hh
  have e : layerProbs cfg P' h (layerAt P h) =
      ((layerAt P h).map (lastRank P')).map (fun l => (weight cfg.sd h l : S)) := by
    rw [layerProbs, List.map_map]
    apply List.map_congr_left
    intro id _
    exact FC.probOf h _
  rw [e]
  exact ((hperm h hh.1 (by omega)).map _).sum_eq

end probs

end VR
end PyXAB
