/-
  The whole ranking stage of one `pull` (`rankAll`): result, index list and weight list.
-/
import PyXABProofs.Lemmas.VR_Rank
import PyXABProofs.Lemmas.VR_Tree

set_option linter.unusedSectionVars false

namespace PyXAB
namespace VR
open _root_.PyXAB.Tree TBA VROOM

variable {α R S : Type} [LinearOrder S]

/-- the body of the loop of `rankAll` -/
def rankStep (cfg : VrCfg R S) (acc : Part α (VrSt R S) × List (Nat × Nat) × List S) (h : Nat) :
    Except Err (Part α (VrSt R S) × List (Nat × Nat) × List S) :=
  let (P, index, prob) := acc
  match P.layers[h]? with
  | none => .error .indexError
  | some layer =>
    let P' := rankLayer cfg P layer
    let entries := layer.zipIdx.map (fun (id, l) =>
      ((h, l), cfg.probOf h ((P'.stOf id).ranks.getLast?.getD 0)))
    .ok (P', index ++ entries.map (·.1), prob ++ entries.map (·.2))

theorem rankAll_eq (cfg : VrCfg R S) (P : Part α (VrSt R S)) :
    rankAll cfg P = (List.range' 1 cfg.sd).foldlM (rankStep cfg) (P, [], []) := rfl

theorem entries_fst (h : Nat) (f : Nat → S) (layer : List Nat) :
    (layer.zipIdx.map (fun (x : Nat × Nat) => ((h, x.2), f x.1))).map (·.1) =
      layerIndex h layer.length := by
  apply List.ext_getElem?
  intro i
  simp only [layerIndex, List.getElem?_map, List.getElem?_zipIdx]
  by_cases hi : i < layer.length
  · simp [hi]
  · simp [hi]

theorem entries_snd (h : Nat) (f : Nat → S) (layer : List Nat) :
    (layer.zipIdx.map (fun (x : Nat × Nat) => ((h, x.2), f x.1))).map (·.2) = layer.map f := by
  rw [List.map_map]
  conv => rhs; rw [← List.zipIdx_map_fst 0 layer, List.map_map]
  rfl

theorem rankStep_ok (cfg : VrCfg R S) (P : Part α (VrSt R S)) (idx : List (Nat × Nat))
    (pr : List S) {h : Nat} {layer : List Nat} (hl : P.layers[h]? = some layer) :
    rankStep cfg (P, idx, pr) h = .ok (rankLayer cfg P layer, idx ++ layerIndex h layer.length,
      pr ++ layerProbs cfg (rankLayer cfg P layer) h layer) := by
  simp only [rankStep, hl]
  congr 3
  · congr 1
    exact entries_fst h (fun id => cfg.probOf h (lastRank (rankLayer cfg P layer) id)) layer
  · congr 1
    exact entries_snd h (fun id => cfg.probOf h (lastRank (rankLayer cfg P layer) id)) layer

theorem lastRank_eq_of_st {P P' : Part α (VrSt R S)} {j : Nat} {a c : Node α (VrSt R S)}
    (ha : P.nodes[j]? = some a) (hc : P'.nodes[j]? = some c) (h : c.st = a.st) :
    lastRank P' j = lastRank P j := by
  simp [lastRank, stOf_eq ha, stOf_eq hc, h]

theorem lastRank_of_ranks {P' : Part α (VrSt R S)} {j r : Nat} {c : Node α (VrSt R S)}
    {l : List Nat} (hc : P'.nodes[j]? = some c) (h : c.st.ranks = l ++ [r]) :
    lastRank P' j = r := by
  simp [lastRank, stOf_eq hc, h]

/-- the key only depends on the rewards -/
theorem key_eq_of_rewards (cfg : VrCfg R S) {P P' : Part α (VrSt R S)}
    (hlen : P'.nodes.length = P.nodes.length)
    (h : ∀ (i : Nat) (nd : Node α (VrSt R S)), P.nodes[i]? = some nd →
      ∃ nd', P'.nodes[i]? = some nd' ∧ nd'.st.rewards = nd.st.rewards) (id : Nat) : key cfg P' id = key cfg P id := by
  unfold key
  cases h0 : P.nodes[id]? with
  | none =>
    have : P'.nodes[id]? = none := by
      rw [List.getElem?_eq_none_iff] at h0 ⊢; omega
    simp [Part.stOf, h0, this]
  | some nd =>
    obtain ⟨nd', h1, h2⟩ := h id nd h0
    rw [stOf_eq h0, stOf_eq h1, h2]

theorem layerAt_eq {σ : Type} {P : Part α σ} {h : Nat} {l : List Nat}
    (hl : P.layers[h]? = some l) : layerAt P h = l := by
  simp [layerAt, hl]

theorem Ranked.nil (cfg : VrCfg R S) (P : Part α (VrSt R S)) : Ranked cfg [] P P where
  kind := rfl
  layers := rfl
  depth := rfl
  len := rfl
  node := fun i nd h => ⟨nd, h, rfl, rfl, rfl, rfl, rfl, rfl, rfl, fun _ => rfl,
    fun h => by simp at h⟩
  perm := fun h hh => by simp at hh
  mono := fun h hh => by simp at hh
  stable := fun h hh => by simp at hh

/-- `Ranked` is a payload-only update. -/
theorem Ranked.toPRel {cfg : VrCfg R S} {hs : List Nat} {P P' : Part α (VrSt R S)}
    (h : Ranked cfg hs P P') :
    PRel (fun _ nd nd' => nd'.st.rewards = nd.st.rewards ∧ nd'.st.tilde = nd.st.tilde) P P' where
  kind := h.kind
  layers := h.layers
  depth := h.depth
  len := h.len
  node := fun i nd hi => by
    obtain ⟨nd', h0, h1, h2, h3, h4, h5, h6, h7, _⟩ := h.node i nd hi
    exact ⟨nd', h0, ⟨h1, h2, h3, h4, h5⟩, h6, h7⟩

theorem rankFold_spec (cfg : VrCfg R S) : ∀ (hs : List Nat) (P : Part α (VrSt R S))
    (idx : List (Nat × Nat)) (pr : List S), WF P → hs.Nodup → (∀ h ∈ hs, h < P.layers.length) →
    ∃ P', hs.foldlM (rankStep cfg) (P, idx, pr) =
        .ok (P', idx ++ hs.flatMap (fun h => layerIndex h (layerAt P h).length),
          pr ++ hs.flatMap (fun h => layerProbs cfg P' h (layerAt P h))) ∧
      Ranked cfg hs P P'
  | [], P, idx, pr, _, _, _ => ⟨P, by simp [pure, Except.pure], Ranked.nil cfg P⟩
  | h :: rest, P, idx, pr, W, hnd, hlt => by
    rw [List.nodup_cons] at hnd
    have hh : h < P.layers.length := hlt h (List.mem_cons_self ..)
    have hl : P.layers[h]? = some (layerAt P h) := by
      simp [layerAt, List.getElem?_eq_getElem hh]
    obtain ⟨w1, _, w3⟩ := W.layers_mem h _ hl
    have hvalid : ∀ id ∈ layerAt P h, id < P.nodes.length := fun id hid => by
      obtain ⟨nd, h1, _⟩ := (w3 id).1 hid
      exact lt_length_of_getElem? h1
    have RL := rankLayer_rel cfg P (layerAt P h) (w1.imp (fun h => Nat.ne_of_lt h)) hvalid
    have W1 : WF (rankLayer cfg P (layerAt P h)) := RL.rel.wf W
    have hlay1 : (rankLayer cfg P (layerAt P h)).layers = P.layers := RL.rel.layers
    have hLA : ∀ h', layerAt (rankLayer cfg P (layerAt P h)) h' = layerAt P h' := fun h' =>
      congrArg (fun L : List (List Nat) => (L[h']?).getD []) hlay1
    obtain ⟨P', m, R2⟩ := rankFold_spec cfg rest (rankLayer cfg P (layerAt P h))
      (idx ++ layerIndex h (layerAt P h).length)
      (pr ++ layerProbs cfg (rankLayer cfg P (layerAt P h)) h (layerAt P h)) W1 hnd.2
      (fun h' hh' => by rw [hlay1]; exact hlt h' (List.mem_cons_of_mem _ hh'))
    -- ranks of layer `h` are not touched by the later layers
    have hkeep : ∀ id, id ∈ layerAt P h →
        lastRank P' id = lastRank (rankLayer cfg P (layerAt P h)) id := by
      intro id hid
      obtain ⟨nd, n1, n2⟩ := (w3 id).1 hid
      obtain ⟨b, b1, b2, _⟩ := RL.rel.node id nd n1
      obtain ⟨c, c1, _, _, _, _, _, _, _, c8, _⟩ := R2.node id b b1
      exact lastRank_eq_of_st b1 c1 (c8 (by rw [b2.depth, n2]; exact hnd.1))
    have hkey : ∀ id, key cfg (rankLayer cfg P (layerAt P h)) id = key cfg P id :=
      key_eq_of_rewards cfg RL.rel.len (fun i nd hi => by
        obtain ⟨b, b1, _, b3, _⟩ := RL.rel.node i nd hi
        exact ⟨b, b1, b3⟩)
    refine ⟨P', ?_, ?_⟩
    · rw [List.foldlM_cons, rankStep_ok cfg P idx pr hl]
      simp only [bind, Except.bind]
      rw [m]
      simp only [hLA, List.flatMap_cons, List.append_assoc]
      congr 4
      unfold layerProbs
      congr 1
      apply List.map_congr_left
      intro id hid
      rw [hkeep id hid]
    · refine ⟨R2.kind.trans RL.rel.kind, R2.layers.trans hlay1, R2.depth.trans RL.rel.depth,
        R2.len.trans RL.rel.len, ?_, ?_, ?_, ?_⟩
      · intro j nd hj
        obtain ⟨b, b1, b2, b3, b4, b5, b6⟩ := RL.rel.node j nd hj
        obtain ⟨c, c1, c2, c3, c4, c5, c6, c7, c8, c9, c10⟩ := R2.node j b b1
        refine ⟨c, c1, c2.trans b2.depth, c3.trans b2.index, c4.trans b2.parent,
          c5.trans b2.children, c6.trans b2.box, c7.trans b3, c8.trans b4, ?_, ?_⟩
        · intro hn
          rw [List.mem_cons, not_or] at hn
          have hjl : j ∉ layerAt P h := fun hjl => by
            obtain ⟨nd', n1, n2⟩ := (w3 j).1 hjl
            obtain rfl := getElem?_inj n1 hj
            exact hn.1 n2
          rw [c9 (by rw [b2.depth]; exact hn.2), b5 hjl]
        · intro hm
          rcases List.mem_cons.1 hm with e | hm
          · have hjl : j ∈ layerAt P h := (w3 j).2 ⟨nd, hj, e⟩
            have e1 := c9 (by rw [b2.depth, e]; exact hnd.1)
            rw [e1, b6 hjl, hkeep j hjl]
          · rw [c10 (by rw [b2.depth]; exact hm)]
            have hne : nd.depth ≠ h := fun e => hnd.1 (e ▸ hm)
            have hjl : j ∉ layerAt P h := fun hjl => by
              obtain ⟨nd', n1, n2⟩ := (w3 j).1 hjl
              obtain rfl := getElem?_inj n1 hj
              exact hne n2
            rw [b5 hjl]
      · intro h' hh'
        rcases List.mem_cons.1 hh' with rfl | hh'
        · have e : (layerAt P h').map (lastRank P') =
              (layerAt P h').map (lastRank (rankLayer cfg P (layerAt P h'))) :=
            List.map_congr_left hkeep
          rw [e]; exact RL.perm
        · have := R2.perm h' hh'
          rwa [hLA] at this
      · intro h' hh' a b ha hb hlt'
        rcases List.mem_cons.1 hh' with rfl | hh'
        · rw [hkeep a ha, hkeep b hb] at hlt'
          exact RL.mono a b ha hb hlt'
        · have := R2.mono h' hh' a b (by rw [hLA]; exact ha) (by rw [hLA]; exact hb) hlt'
          rwa [hkey, hkey] at this
      · intro h' hh' a b hab hk
        rcases List.mem_cons.1 hh' with rfl | hh'
        · have ha : a ∈ layerAt P h' := hab.subset (by simp)
          have hb : b ∈ layerAt P h' := hab.subset (by simp)
          rw [hkeep a ha, hkeep b hb]
          exact RL.stable a b hab hk
        · exact R2.stable h' hh' a b (by rw [hLA]; exact hab) (by rw [hkey, hkey]; exact hk)

/-- **The ranking stage** of a `pull` in a tree deepened to `sd`: it succeeds, realises
`Ranked`, and produces the index list and the weights layer by layer. -/
theorem rankAll_spec (cfg : VrCfg R S) (P : Part α (VrSt R S)) (W : WF P)
    (hdeep : cfg.sd ≤ P.depth) :
    ∃ P', rankAll cfg P =
        .ok (P', (List.range' 1 cfg.sd).flatMap (fun h => layerIndex h (layerAt P h).length),
          (List.range' 1 cfg.sd).flatMap (fun h => layerProbs cfg P' h (layerAt P h))) ∧
      Ranked cfg (List.range' 1 cfg.sd) P P' := by
  obtain ⟨P', m, R⟩ := rankFold_spec cfg (List.range' 1 cfg.sd) P [] [] W List.nodup_range'
    (fun h hh => by
      rw [List.mem_range'_1] at hh
      rw [W.layers_len]; omega)
  exact ⟨P', by rw [rankAll_eq, m]; simp, R⟩

end VR
end PyXAB
