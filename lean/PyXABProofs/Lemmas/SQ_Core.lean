/-
  Preservation of the invariant `Core` by the elementary steps of a round of SequOOL:
  the expansion of the selected cell, handing out the next child, completing an opening
  (at the root / at a search depth, with or without advancing the depth), and `receive`.
-/
import PyXABProofs.Lemmas.SQ_Tree

set_option linter.unusedSectionVars false
set_option linter.unusedVariables false

namespace PyXAB
namespace SQ
open Tree TBA

variable {α S : Type} [Add α] [Sub α] [Mul α] [Div α] [OfNat α 2] [NatCast α]
variable [LinearOrder S] [Inhabited S] {negInf : S}

/-! ### Consequences of `Core` -/

namespace Core
variable {op : Bool} {mr : Nat} {s : SequOOL α S}

/-- the cells beyond the handed-out ones are the pending children of the cell being opened -/
theorem pending_child (C : Core negInf op mr s) {i : Nat} (h1 : s.chosen.length < i)
    (h2 : i < s.P.nodes.length) :
    op = true ∧ i ∈ List.range' (1 + s.chosen.length - s.loc) (K s.P) := by
  have hlen := C.len
  cases op with
  | false => simp only [pend] at hlen; simp at hlen; omega
  | true =>
    obtain ⟨_, _, _, _, _, h, _⟩ := C.opening rfl
    simp only [pend, if_true] at hlen
    refine ⟨rfl, ?_⟩
    rw [List.mem_range'_1]
    have := C.loc_lt
    omega

/-- the cells of the current search layer have all been handed out -/
theorem layer_le (C : Core negInf op mr s) (hcd : 1 ≤ s.currDepth) {layer : List Nat}
    (hl : s.P.layers[s.currDepth]? = some layer) {i : Nat} (hi : i ∈ layer) :
    1 ≤ i ∧ i ≤ s.chosen.length := by
  obtain ⟨nd, n1, n2⟩ := (mem_layer C.wf hl i).1 hi
  constructor
  · apply Nat.pos_of_ne_zero
    rintro rfl
    obtain ⟨r, r1, r2, _⟩ := C.wf.root
    obtain rfl := getElem?_inj r1 n1
    omega
  · apply Nat.le_of_not_lt
    intro hlt
    obtain ⟨hop, hmem⟩ := C.pending_child hlt (lt_length_of_getElem? n1)
    obtain ⟨t, tn, t1, t2, _, _, t5, _⟩ := C.opening hop
    obtain ⟨_, cn, _, _, _, _, c1, _, _, c2⟩ := C.wf.child_facts t1 t5 hmem
    obtain rfl := getElem?_inj c1 n1
    omega

end Core

theorem view_of_st_eq {P P' : Part α (SqSt S)} {i : Nat} {nd nd' : Node α (SqSt S)}
    (h : P.nodes[i]? = some nd) (h' : P'.nodes[i]? = some nd') (e : nd'.st = nd.st) :
    view P i = view P' i := by
  simp only [view, h, h', Option.map_some, e]

theorem isUnopened_of_st_eq {P P' : Part α (SqSt S)} {i : Nat} {nd nd' : Node α (SqSt S)}
    (h : P.nodes[i]? = some nd) (h' : P'.nodes[i]? = some nd') (e : nd'.st.opened = nd.st.opened) :
    isUnopened P' i = isUnopened P i := by
  simp only [isUnopened, h, h', e]

theorem isUnopened_iff {P : Part α (SqSt S)} {i : Nat} :
    isUnopened P i = true ↔ ∃ nd, P.nodes[i]? = some nd ∧ nd.st.opened = false := by
  unfold isUnopened
  cases h : P.nodes[i]? with
  | none => simp
  | some nd => simp

/-! ### A: the selected leaf is expanded -/

theorem core_expand {s s' : SequOOL α S} {mr t : Nat} {tn : Node α (SqSt S)}
    {P1 : Part α (SqSt S)}
    (C : Core negInf false mr s) (hcd : s.currDepth ≤ s.hmax) (hloc : s.loc = 0)
    (ht : s.P.nodes[t]? = some tn) (hdep : tn.depth = s.currDepth) (hleaf : tn.children = none)
    (St : Step s.P P1 SequOOL.st0 t tn) (W1 : WF P1)
    (hsc : 1 ≤ s.currDepth → tn.st.opened = false ∧ ∃ layer num,
      s.P.layers[s.currDepth]? = some layer ∧
      SequOOL.scan s.P layer 0 negInf none = .ok (num, some t))
    (eP : s'.P = P1) (eh : s'.hmax = s.hmax) (ed : s'.currDepth = s.currDepth)
    (el : s'.loc = s.loc) (eb : s'.budget = s.budget) (ec : s'.chosen = s.chosen) :
    Core negInf true mr s' := by
  have W := C.wf
  have hK : K P1 = K s.P := St.K_eq W ht
  have hlen := C.len
  simp only [pend] at hlen
  have hn : s.P.nodes.length = 1 + s.chosen.length := by simpa using hlen
  have hlayer : ∀ h, h ≤ s.currDepth → P1.layers[h]? = s.P.layers[h]? := fun h hh =>
    step_layer_keep St W ht (by omega)
  have hdepth : s.P.depth ≤ P1.depth ∧ P1.depth ≤ s.hmax + 1 := by
    have := C.pdepth_le
    rcases St.layers with ⟨e1, _, e3⟩ | ⟨e1, _, e3⟩ <;> omega
  refine
    { wf := by rw [eP]; exact W1
      K_pos := by rw [eP, hK]; exact C.K_pos
      cd_le := by rw [ed, eh]; exact C.cd_le
      cd_le_depth := by rw [ed, eP]; have := C.cd_le_depth; omega
      pdepth_le := by rw [eP, eh]; exact hdepth.2
      loc_lt := by rw [el, eP, hK]; exact C.loc_lt
      chosen_eq := by rw [ec]; exact C.chosen_eq
      mr_le := by rw [ec]; exact C.mr_le
      len := by
        simp only [pend, eP, ec, el, hK, if_true]
        rw [St.len, hn, hloc]; omega
      cd0 := by rw [ed, ec, el]; exact C.cd0
      rew := ?rew
      opened_ch := ?opened_ch
      ch_depth := ?ch_depth
      ch_opened := ?ch_opened
      opening := ?opening
      unopened := ?unopened
      budget := ?budget
      sched := ?sched }
  case rew =>
    rw [eP]
    intro i nd' hi
    rcases St.inv ht hi with ⟨x, h0, _, _, _, _, hst, _⟩ | ⟨j, _, rfl, _, _, _, _, _, hst⟩
    · rw [hst]; exact C.rew i x h0
    · have := C.mr_le
      rw [hst]
      exact ⟨fun _ _ => by omega, fun _ => rfl⟩
  case opened_ch =>
    rw [eP, ec]
    intro i nd' hi ho
    rcases St.inv ht hi with ⟨x, h0, hd, _, _, _, hst, hne, heq⟩ | ⟨j, _, rfl, _, _, _, _, _, hst⟩
    · rw [hst] at ho
      obtain ⟨a1, cs, a2, a3⟩ := C.opened_ch i x h0 ho
      by_cases hit : i = t
      · subst hit
        obtain rfl := getElem?_inj h0 ht
        rw [hleaf] at a2; cases a2
      · exact ⟨by omega, cs, (hne hit).trans a2, a3⟩
    · rw [hst] at ho; cases ho
  case ch_depth =>
    rw [eP, eh, ed]
    intro i nd' cs hi hc
    rcases St.inv ht hi with ⟨x, h0, hd, _, _, _, _, hne, _⟩ | ⟨j, _, _, _, _, _, hch, _⟩
    · by_cases hit : i = t
      · subst hit
        obtain rfl := getElem?_inj h0 ht
        omega
      · rw [hd]; exact C.ch_depth i x cs h0 ((hne hit).symm.trans hc)
    · rw [hch] at hc; cases hc
  case ch_opened =>
    rw [eP, ec, el, hK]
    intro i nd' cs hi hc hd1
    rcases St.inv ht hi with ⟨x, h0, hd, _, _, _, hst, hne, heq⟩ | ⟨j, _, _, _, _, _, hch, _⟩
    · by_cases hit : i = t
      · subst hit
        right
        refine ⟨rfl, ?_⟩
        have := (heq rfl).symm.trans hc
        rw [hloc, Nat.sub_zero, ← hn]
        exact (Option.some.inj this).symm
      · rcases C.ch_opened i x cs h0 ((hne hit).symm.trans hc) (by omega) with h | ⟨h, _⟩
        · left; rw [hst]; exact h
        · cases h
    · rw [hch] at hc; cases hc
  case opening =>
    rw [eP, ec, el, hK, ed, eh]
    intro _
    refine ⟨t, _, St.atp, hdep, hcd, by omega, by rw [hloc, Nat.sub_zero, ← hn], fun h1 => ?_⟩
    obtain ⟨a1, layer, num, a2, a3⟩ := hsc h1
    refine ⟨a1, layer, num, (hlayer _ (Nat.le_refl _)).trans a2, ?_⟩
    rw [scan_congr (P := s.P) (P' := P1)]
    · exact a3
    · intro id hid
      obtain ⟨nd, n1, _⟩ := (mem_layer W a2 id).1 hid
      obtain ⟨nd', m1, _, _, _, _, m2, _⟩ := St.pres ht n1
      exact view_of_st_eq n1 m1 m2
  case unopened =>
    rw [eP, ed, eh]
    intro h1 h2
    obtain ⟨layer, id, a1, a2, a3⟩ := C.unopened h1 h2
    refine ⟨layer, id, (hlayer _ (Nat.le_refl _)).trans a1, a2, ?_⟩
    obtain ⟨nd, n1, _⟩ := (mem_layer W a1 id).1 a2
    obtain ⟨nd', m1, _, _, _, _, m2, _⟩ := St.pres ht n1
    rw [isUnopened_of_st_eq n1 m1 (by rw [m2])]; exact a3
  case budget =>
    rw [eP, ed, eh, eb]
    intro h1
    obtain ⟨b, b1, b2⟩ := C.budget h1
    refine ⟨b, b1, fun h2 => ?_⟩
    obtain ⟨c1, c2, c3⟩ := b2 h2
    refine ⟨c1, c2, ?_⟩
    have := expCount_step_eq St W ht hleaf
    rw [hdep] at this
    rw [this]
    simp only [Bool.false_eq_true, if_false] at c3
    simp only [if_true]; omega
  case sched =>
    rw [eP, ed, eh]
    intro h h1 h2
    rw [expCount_step_lt St W ht (by omega)]
    exact C.sched h h1 h2

/-! ### B: the next child is handed out, the opening continues -/

theorem core_next {s s' : SequOOL α S} {mr : Nat}
    (C : Core negInf true mr s) (hlt : s.loc + 1 < K s.P)
    (eP : s'.P = s.P) (eh : s'.hmax = s.hmax) (ed : s'.currDepth = s.currDepth)
    (el : s'.loc = s.loc + 1) (eb : s'.budget = s.budget)
    (ec : s'.chosen = s.chosen ++ [s.chosen.length + 1]) :
    Core negInf true mr s' := by
  obtain ⟨t, tn, t1, t2, t3, t4, t5, t6⟩ := C.opening rfl
  have ecl : s'.chosen.length = s.chosen.length + 1 := by rw [ec]; simp
  have esub : 1 + (s.chosen.length + 1) - (s.loc + 1) = 1 + s.chosen.length - s.loc := by omega
  refine
    { wf := by rw [eP]; exact C.wf
      K_pos := by rw [eP]; exact C.K_pos
      cd_le := by rw [ed, eh]; exact C.cd_le
      cd_le_depth := by rw [ed, eP]; exact C.cd_le_depth
      pdepth_le := by rw [eP, eh]; exact C.pdepth_le
      loc_lt := by rw [el, eP]; exact hlt
      chosen_eq := by
        rw [ecl, ec]; exact chosen_snoc C.chosen_eq
      mr_le := by rw [ecl]; have := C.mr_le; omega
      len := by
        have := C.len
        simp only [pend, if_true] at this ⊢
        rw [eP, ecl, el, this]; omega
      cd0 := by rw [ed, ecl, el]; intro h; rw [C.cd0 h]
      rew := by rw [eP]; exact C.rew
      opened_ch := by
        rw [eP, ecl]
        intro i nd hi ho
        obtain ⟨a1, cs, a2, a3⟩ := C.opened_ch i nd hi ho
        exact ⟨a1, cs, a2, fun c hc => Nat.le_succ_of_le (a3 c hc)⟩
      ch_depth := by rw [eP, eh, ed]; exact C.ch_depth
      ch_opened := by rw [eP, ecl, el, esub]; exact C.ch_opened
      opening := by
        rw [eP, ecl, el, esub, ed, eh]
        intro _
        exact ⟨t, tn, t1, t2, t3, by omega, t5, t6⟩
      unopened := by rw [eP, ed, eh]; exact C.unopened
      budget := by rw [eP, ed, eh, eb]; exact C.budget
      sched := by rw [eP, ed, eh]; exact C.sched }

/-! ### C: the last child of the root is handed out -/

theorem core_last0 {s s' : SequOOL α S} {mr : Nat}
    (C : Core negInf true mr s) (hcd : s.currDepth = 0) (hlast : s.loc + 1 = K s.P)
    (eP : s'.P = s.P) (eh : s'.hmax = s.hmax) (ed : s'.currDepth = 1)
    (el : s'.loc = 0) (eb : s'.budget = some (s.hmax / 1))
    (ec : s'.chosen = s.chosen ++ [s.chosen.length + 1]) :
    Core negInf false mr s' := by
  obtain ⟨t, tn, t1, t2, t3, t4, t5, _⟩ := C.opening rfl
  have W := C.wf
  have ecl : s'.chosen.length = s.chosen.length + 1 := by rw [ec]; simp
  have hKp := C.K_pos
  -- the first child of the root
  have hmem : 1 + s.chosen.length - s.loc ∈ List.range' (1 + s.chosen.length - s.loc) (K s.P) := by
    rw [List.mem_range'_1]; omega
  obtain ⟨_, cn, _, _, _, _, c1, _, _, c2⟩ := W.child_facts t1 t5 hmem
  have hno : ∀ (i : Nat) (nd : Node α (SqSt S)) (cs : List Nat), s.P.nodes[i]? = some nd →
      nd.children = some cs → nd.depth ≠ 1 := by
    intro i nd cs hi hc
    have := (C.ch_depth i nd cs hi hc).2
    omega
  refine
    { wf := by rw [eP]; exact W
      K_pos := by rw [eP]; exact hKp
      cd_le := by rw [ed, eh]; omega
      cd_le_depth := by
        rw [ed, eP]
        have := W.depth_le _ cn c1
        omega
      pdepth_le := by rw [eP, eh]; exact C.pdepth_le
      loc_lt := by rw [el, eP]; omega
      chosen_eq := by
        rw [ecl, ec]; exact chosen_snoc C.chosen_eq
      mr_le := by rw [ecl]; have := C.mr_le; omega
      len := by
        have := C.len
        simp only [pend, if_true] at this
        simp only [pend, Bool.false_eq_true, if_false]
        rw [eP, ecl, this]; omega
      cd0 := by rw [ed]; intro h; cases h
      rew := by rw [eP]; exact C.rew
      opened_ch := by
        rw [eP, ecl]
        intro i nd hi ho
        obtain ⟨a1, cs, a2, a3⟩ := C.opened_ch i nd hi ho
        exact ⟨a1, cs, a2, fun c hc => Nat.le_succ_of_le (a3 c hc)⟩
      ch_depth := by
        rw [eP, eh, ed]
        intro i nd cs hi hc
        have := C.ch_depth i nd cs hi hc
        omega
      ch_opened := by
        rw [eP]
        intro i nd cs hi hc hd
        have := (C.ch_depth i nd cs hi hc).2
        omega
      opening := by intro h; cases h
      unopened := by
        rw [eP, ed, eh]
        intro _ _
        have hd1 : cn.depth = 1 := by omega
        obtain ⟨l, l1, l2⟩ := layer_of_node W c1
        rw [hd1] at l1
        refine ⟨l, _, l1, l2, ?_⟩
        rw [isUnopened_iff]
        refine ⟨cn, c1, ?_⟩
        cases ho : cn.st.opened with
        | false => rfl
        | true =>
          obtain ⟨_, cs, a2, _⟩ := C.opened_ch _ cn c1 ho
          exact absurd hd1 (hno _ cn cs c1 a2)
      budget := by
        rw [eP, ed, eh, eb]
        intro _
        refine ⟨_, rfl, fun h => ?_⟩
        rw [expCount_eq_zero W 1 hno, Nat.div_one]
        simp; omega
      sched := by rw [ed]; intro h h1 h2; omega }

/-! ### D: the last child of a search cell is handed out -/

theorem getElem?_modifySt_some {P : Part α (SqSt S)} {i j : Nat} {f : SqSt S → SqSt S}
    {nd' : Node α (SqSt S)} (h : (P.modifySt i f).nodes[j]? = some nd') :
    ∃ nd, P.nodes[j]? = some nd ∧ nd'.depth = nd.depth ∧ nd'.children = nd.children ∧
      (j = i → nd'.st = f nd.st) ∧ (j ≠ i → nd' = nd) := by
  rw [getElem?_modifySt] at h
  cases h0 : P.nodes[j]? with
  | none => simp [h0] at h
  | some nd =>
    simp only [h0, Option.map_some, Option.some.injEq] at h
    subst h
    refine ⟨nd, rfl, ?_, ?_, ?_, ?_⟩
    · split <;> rfl
    · split <;> rfl
    · intro e; simp [e]
    · intro e; have : ¬ i = j := fun e' => e e'.symm
      simp [this]

theorem getElem?_modifySt_of {P : Part α (SqSt S)} {i j : Nat} {f : SqSt S → SqSt S}
    {nd : Node α (SqSt S)} (h : P.nodes[j]? = some nd) :
    (P.modifySt i f).nodes[j]? = some (if i = j then { nd with st := f nd.st } else nd) := by
  rw [getElem?_modifySt, h]; rfl

/-- Completing the opening of the search cell `t`.  `adv`: the depth advances (budget spent or
`t` was the last unopened cell of its depth); otherwise the layer has another unopened cell. -/
theorem core_last {s s' : SequOOL α S} {mr t b : Nat} {tn : Node α (SqSt S)} {adv : Bool}
    (C : Core negInf true mr s) (hcd : 1 ≤ s.currDepth) (hlast : s.loc + 1 = K s.P)
    (ht : s.P.nodes[t]? = some tn)
    (hch : tn.children = some (List.range' (1 + s.chosen.length - s.loc) (K s.P)))
    (hb : s.budget = some b)
    (hstay : adv = false → b - 1 ≠ 0 ∧ ∀ layer, s.P.layers[s.currDepth]? = some layer →
      ∃ id ∈ layer, id ≠ t ∧ isUnopened s.P id = true)
    (eP : s'.P = s.P.modifySt t (fun st => { st with opened := true }))
    (eh : s'.hmax = s.hmax)
    (ed : s'.currDepth = if adv then s.currDepth + 1 else s.currDepth)
    (el : s'.loc = 0)
    (eb : s'.budget = if adv then some (s.hmax / (s.currDepth + 1)) else some (b - 1))
    (ec : s'.chosen = s.chosen ++ [s.chosen.length + 1]) :
    Core negInf false mr s' := by
  obtain ⟨t', tn', t1, t2, t3, t4, t5, _⟩ := C.opening rfl
  have W := C.wf
  have hKp := C.K_pos
  -- `t` is the cell being opened
  obtain rfl : t' = t := by
    apply Classical.byContradiction
    intro hne
    have hmem : 1 + s.chosen.length - s.loc ∈
        List.range' (1 + s.chosen.length - s.loc) (K s.P) := by
      rw [List.mem_range'_1]; omega
    exact W.children_disjoint t1 ht t5 hch hne _ hmem hmem
  obtain rfl := getElem?_inj t1 ht
  have R := PRel_modifySt s.P t' (fun st : SqSt S => { st with opened := true })
  have hKe : K (s.P.modifySt t' (fun st => { st with opened := true })) = K s.P := R.K_eq
  have ecl : s'.chosen.length = s.chosen.length + 1 := by rw [ec]; simp
  have hmem : 1 + s.chosen.length - s.loc ∈ List.range' (1 + s.chosen.length - s.loc) (K s.P) := by
    rw [List.mem_range'_1]; omega
  obtain ⟨_, cn, _, _, _, htc, c1, _, _, c2⟩ := W.child_facts ht hch hmem
  obtain ⟨b0, b1, b2⟩ := C.budget hcd
  obtain rfl : b0 = b := by rw [hb] at b1; exact (Option.some.inj b1).symm
  obtain ⟨b3, b4, b5⟩ := b2 t3
  simp only [if_true] at b5
  have hcd' : s.currDepth ≤ s'.currDepth := by rw [ed]; split <;> omega
  have hexp : ∀ h, expCount s'.P h = expCount s.P h := fun h => by rw [eP]; exact expCount_prel R h
  have hno : ∀ (i : Nat) (nd : Node α (SqSt S)) (cs : List Nat), s.P.nodes[i]? = some nd →
      nd.children = some cs → nd.depth ≠ s.currDepth + 1 := by
    intro i nd cs hi hc
    have := (C.ch_depth i nd cs hi hc).2
    omega
  have hcn_unop : cn.st.opened = false := by
    cases ho : cn.st.opened with
    | false => rfl
    | true =>
      obtain ⟨_, cs, a2, _⟩ := C.opened_ch _ cn c1 ho
      exact absurd (by omega) (hno _ cn cs c1 a2)
  refine
    { wf := by rw [eP]; exact R.wf W
      K_pos := by rw [eP, hKe]; exact hKp
      cd_le := by rw [ed, eh]; have := C.cd_le; split <;> omega
      cd_le_depth := by
        rw [ed, eP, R.depth]
        have := W.depth_le _ cn c1
        have := C.cd_le_depth
        split <;> omega
      pdepth_le := by rw [eP, eh, R.depth]; exact C.pdepth_le
      loc_lt := by rw [el, eP, hKe]; omega
      chosen_eq := by
        rw [ecl, ec]; exact chosen_snoc C.chosen_eq
      mr_le := by rw [ecl]; have := C.mr_le; omega
      len := by
        have := C.len
        simp only [pend, if_true] at this
        simp only [pend, Bool.false_eq_true, if_false]
        rw [eP, ecl, R.len, this]; omega
      cd0 := by intro h; omega
      rew := ?rew
      opened_ch := ?opened_ch
      ch_depth := ?ch_depth
      ch_opened := ?ch_opened
      opening := by intro h; cases h
      unopened := ?unopened
      budget := ?budget
      sched := ?sched }
  case rew =>
    rw [eP]
    intro i nd' hi
    obtain ⟨nd, n1, _, _, n4, n5⟩ := getElem?_modifySt_some hi
    have := C.rew i nd n1
    by_cases hit : i = t'
    · rw [n4 hit]; exact this
    · rw [n5 hit]; exact this
  case opened_ch =>
    rw [eP, ecl]
    intro i nd' hi ho
    obtain ⟨nd, n1, n2, n3, n4, n5⟩ := getElem?_modifySt_some hi
    by_cases hit : i = t'
    · subst hit
      obtain rfl := getElem?_inj n1 ht
      rw [n2, n3]
      refine ⟨by omega, _, hch, fun c hc => ?_⟩
      rw [List.mem_range'_1] at hc; omega
    · rw [n5 hit] at ho ⊢
      obtain ⟨a1, cs, a2, a3⟩ := C.opened_ch i nd n1 ho
      exact ⟨a1, cs, a2, fun c hc => Nat.le_succ_of_le (a3 c hc)⟩
  case ch_depth =>
    rw [eP, eh]
    intro i nd' cs hi hc
    obtain ⟨nd, n1, n2, n3, _, _⟩ := getElem?_modifySt_some hi
    have := C.ch_depth i nd cs n1 (n3.symm.trans hc)
    omega
  case ch_opened =>
    rw [eP]
    intro i nd' cs hi hc hd
    obtain ⟨nd, n1, n2, n3, n4, n5⟩ := getElem?_modifySt_some hi
    left
    by_cases hit : i = t'
    · rw [n4 hit]
    · rw [n5 hit]
      rcases C.ch_opened i nd cs n1 (n3.symm.trans hc) (by omega) with h | ⟨_, h⟩
      · exact h
      · exfalso
        subst h
        exact W.children_disjoint n1 ht (n3.symm.trans hc) hch hit _ hmem hmem
  case unopened =>
    rw [eP, ed, eh]
    cases adv with
    | true =>
      simp only [if_true]
      intro _ _
      obtain ⟨l, l1, l2⟩ := layer_of_node W c1
      rw [c2, t2] at l1
      refine ⟨l, _, by rw [R.layers]; exact l1, l2, ?_⟩
      rw [isUnopened_iff]
      refine ⟨cn, ?_, hcn_unop⟩
      rw [getElem?_modifySt_of c1]
      have : ¬ t' = 1 + s.chosen.length - s.loc := by omega
      simp [this]
    | false =>
      simp only [Bool.false_eq_true, if_false]
      intro _ _
      obtain ⟨l, hl⟩ := layer_exists W C.cd_le_depth
      obtain ⟨id, i1, i2, i3⟩ := (hstay rfl).2 l hl
      refine ⟨l, id, by rw [R.layers]; exact hl, i1, ?_⟩
      obtain ⟨nd, n1, n2⟩ := isUnopened_iff.1 i3
      rw [isUnopened_iff]
      refine ⟨nd, ?_, n2⟩
      rw [getElem?_modifySt_of n1]
      have : ¬ t' = id := fun e => i2 e.symm
      simp [this]
  case budget =>
    rw [hexp, ed, eh, eb]
    cases adv with
    | true =>
      simp only [if_true]
      intro _
      refine ⟨_, rfl, fun h => ⟨?_, Nat.le_refl _, ?_⟩⟩
      · exact Nat.div_pos h (by omega)
      · rw [expCount_eq_zero W _ hno]; simp
    | false =>
      simp only [Bool.false_eq_true, if_false]
      intro _
      have := (hstay rfl).1
      refine ⟨_, rfl, fun h => ⟨by omega, by omega, by omega⟩⟩
  case sched =>
    rw [ed, eh]
    intro h h1 h2
    rw [hexp]
    cases adv with
    | true =>
      simp only [if_true] at h2
      by_cases hh : h < s.currDepth
      · exact C.sched h h1 hh
      · obtain rfl : h = s.currDepth := by omega
        omega
    | false =>
      simp only [Bool.false_eq_true, if_false] at h2
      exact C.sched h h1 h2

/-! ### E: `receive` -/

/-- A payload update of one cell which keeps the `opened` flags and the observed first rewards
of the current layer keeps the invariant (for a possibly different reward counter). -/
theorem core_payload {s s' : SequOOL α S} {op : Bool} {mr mr' c : Nat} {f : SqSt S → SqSt S}
    (C : Core negInf op mr s) (hf : ∀ st, (f st).opened = st.opened)
    (hmr : mr' ≤ s.chosen.length)
    (hrew : ∀ (i : Nat) (nd : Node α (SqSt S)), s.P.nodes[i]? = some nd →
      (1 ≤ i → i ≤ mr' → (if i = c then f nd.st else nd.st).rewards.length = 1) ∧
      (mr' < i → (if i = c then f nd.st else nd.st).rewards = []))
    (hc : op = true → 1 ≤ s.currDepth → ∀ nd, s.P.nodes[c]? = some nd → nd.depth ≠ s.currDepth)
    (eP : s'.P = s.P.modifySt c f) (eh : s'.hmax = s.hmax) (ed : s'.currDepth = s.currDepth)
    (el : s'.loc = s.loc) (eb : s'.budget = s.budget) (ec : s'.chosen = s.chosen) :
    Core negInf op mr' s' := by
  have W := C.wf
  have R := PRel_modifySt s.P c f
  have hKe : K (s.P.modifySt c f) = K s.P := R.K_eq
  have hexp : ∀ h, expCount s'.P h = expCount s.P h := fun h => by rw [eP]; exact expCount_prel R h
  have hun : ∀ id, isUnopened (s.P.modifySt c f) id = isUnopened s.P id := by
    intro id
    unfold isUnopened
    rw [getElem?_modifySt]
    cases h0 : s.P.nodes[id]? with
    | none => rfl
    | some nd =>
      simp only [Option.map_some]
      split <;> simp [hf]
  refine
    { wf := by rw [eP]; exact R.wf W
      K_pos := by rw [eP, hKe]; exact C.K_pos
      cd_le := by rw [ed, eh]; exact C.cd_le
      cd_le_depth := by rw [ed, eP, R.depth]; exact C.cd_le_depth
      pdepth_le := by rw [eP, eh, R.depth]; exact C.pdepth_le
      loc_lt := by rw [el, eP, hKe]; exact C.loc_lt
      chosen_eq := by rw [ec]; exact C.chosen_eq
      mr_le := by rw [ec]; exact hmr
      len := by
        have := C.len
        simp only [pend] at this ⊢
        rw [eP, ec, el, hKe, R.len, this]
      cd0 := by rw [ed, ec, el]; exact C.cd0
      rew := ?rew
      opened_ch := ?opened_ch
      ch_depth := ?ch_depth
      ch_opened := ?ch_opened
      opening := ?opening
      unopened := ?unopened
      budget := by rw [hexp, ed, eh, eb]; exact C.budget
      sched := by rw [ed, eh]; intro h h1 h2; rw [hexp]; exact C.sched h h1 h2 }
  case rew =>
    rw [eP]
    intro i nd' hi
    obtain ⟨nd, n1, _, _, n4, n5⟩ := getElem?_modifySt_some hi
    have := hrew i nd n1
    by_cases hic : i = c
    · rw [n4 hic]; simpa [hic] using this
    · rw [n5 hic]; simpa [hic] using this
  case opened_ch =>
    rw [eP, ec]
    intro i nd' hi ho
    obtain ⟨nd, n1, n2, n3, n4, n5⟩ := getElem?_modifySt_some hi
    rw [n2, n3]
    apply C.opened_ch i nd n1
    by_cases hic : i = c
    · rw [n4 hic, hf] at ho; exact ho
    · rw [n5 hic] at ho; exact ho
  case ch_depth =>
    rw [eP, eh, ed]
    intro i nd' cs hi hcs
    obtain ⟨nd, n1, n2, n3, _, _⟩ := getElem?_modifySt_some hi
    rw [n2]
    exact C.ch_depth i nd cs n1 (n3.symm.trans hcs)
  case ch_opened =>
    rw [eP, ec, el, hKe]
    intro i nd' cs hi hcs hd
    obtain ⟨nd, n1, n2, n3, n4, n5⟩ := getElem?_modifySt_some hi
    have := C.ch_opened i nd cs n1 (n3.symm.trans hcs) (by omega)
    by_cases hic : i = c
    · rw [n4 hic, hf]; exact this
    · rw [n5 hic]; exact this
  case opening =>
    rw [eP, ec, el, hKe, ed, eh]
    intro hop
    obtain ⟨t, tn, t1, t2, t3, t4, t5, t6⟩ := C.opening hop
    refine ⟨t, _, getElem?_modifySt_of t1, ?_, t3, t4, ?_, fun h1 => ?_⟩
    · split <;> exact t2
    · split <;> exact t5
    · obtain ⟨a1, layer, num, a2, a3⟩ := t6 h1
      refine ⟨?_, layer, num, a2, ?_⟩
      · split
        · simp only [hf]; exact a1
        · exact a1
      · rw [scan_congr (P := s.P)]
        · exact a3
        · intro id hid
          obtain ⟨nd, n1, n2⟩ := (mem_layer W a2 id).1 hid
          have hne : ¬ c = id := by
            rintro rfl
            exact hc hop h1 nd n1 n2
          simp only [view, getElem?_modifySt, n1, Option.map_some, hne, if_false]
  case unopened =>
    rw [eP, ed, eh]
    intro h1 h2
    obtain ⟨layer, id, a1, a2, a3⟩ := C.unopened h1 h2
    exact ⟨layer, id, a1, a2, by rw [hun]; exact a3⟩

end SQ
end PyXAB
