/-
  `Part.expand` as used by the bandits, the "growth" frame `Grow` common to "expanded" and
  "not expanded", and the basic consequences of a stored greedy path.
-/
import PyXABProofs.Lemmas.TBB_Backward
import PyXABProofs.Lemmas.TBB_Descend

set_option linter.unusedSectionVars false

namespace PyXAB
namespace TBB

open Tree

section general
variable {α σ : Type} [Add α] [Sub α] [Mul α] [Div α] [OfNat α 2] [NatCast α]

/-- `expand` of a leaf with a well-formed first draw. -/
theorem expand_ok {P : Part α σ} (W : WF P) (s0 : σ) {p : Nat} {nd : Node α σ}
    (hp : P.nodes[p]? = some nd) (hleaf : nd.children = none) {d : Draw α} (ds : List (Draw α))
    (hd : DrawOKLen P.kind (dimn P) d) :
    ∃ P', P.expand s0 p (d :: ds) = .ok (P', ds) ∧ WF P' ∧ Step P P' s0 p nd := by
  obtain ⟨P', m1, W', S⟩ := makeChildren_WF_step W s0 hp hleaf rfl hd
  exact ⟨P', by simp only [Part.expand, hp, makeChildrenD_cons m1], W', S⟩

omit [Add α] [Sub α] [Mul α] [Div α] [OfNat α 2] [NatCast α] in
/-- dimension of the initial arena -/
theorem dimn_init (k : Kind) (domain : Box α) (s0 : σ) :
    dimn (Part.init k domain s0) = domain.length := rfl

/-- `P'` is `P`, possibly after splitting the leaf `p` into new leaves with payload `s0`. -/
structure Grow (P P' : Part α σ) (s0 : σ) (p : Nat) : Prop where
  kind : P'.kind = P.kind
  dimn : dimn P' = dimn P
  old : ∀ (i : Nat) (x : Node α σ), P.nodes[i]? = some x →
    ∃ x', P'.nodes[i]? = some x' ∧ x'.depth = x.depth ∧ x'.st = x.st ∧
      (i ≠ p ∨ x.children ≠ none → x'.children = x.children)
  new : ∀ (i : Nat) (x' : Node α σ), P'.nodes[i]? = some x' → P.nodes[i]? = none →
    x'.st = s0 ∧ x'.children = none ∧ 0 < i

omit [Add α] [Sub α] [Mul α] [Div α] [OfNat α 2] [NatCast α] in
theorem Grow.refl (P : Part α σ) (s0 : σ) (p : Nat) : Grow P P s0 p :=
  ⟨rfl, rfl, fun _ x h => ⟨x, h, rfl, rfl, fun _ => rfl⟩, fun i x' h h' => by simp [h] at h'⟩

omit [Add α] [Sub α] [Mul α] [Div α] [OfNat α 2] [NatCast α] in
theorem Step.grow {P P' : Part α σ} {s0 : σ} {p : Nat} {nd : Node α σ} (S : Step P P' s0 p nd)
    (W : WF P) (hp : P.nodes[p]? = some nd) (hleaf : nd.children = none) : Grow P P' s0 p where
  kind := S.kind_eq
  dimn := S.dimn_eq W hp
  old := by
    intro i x hx
    obtain ⟨x', h1, h2, _, _, _, h3, h4, _⟩ := S.pres hp hx
    refine ⟨x', h1, h2, h3, fun hor => ?_⟩
    rcases hor with hne | hne
    · exact h4 hne
    · by_cases hip : i = p
      · subst hip
        obtain rfl := getElem?_inj hp hx
        exact absurd hleaf hne
      · exact h4 hip
  new := by
    intro i x' hx' hnone
    rcases S.inv hp hx' with ⟨x, h0, _⟩ | ⟨j, _, hi, _, _, _, h1, _, h2⟩
    · simp [hnone] at h0
    · refine ⟨h2, h1, ?_⟩
      have := W.length_pos
      omega

omit [Add α] [Sub α] [Mul α] [Div α] [OfNat α 2] [NatCast α] in
/-- every node of the grown arena is an old node or a fresh leaf -/
theorem Grow.cases {P P' : Part α σ} {s0 : σ} {p : Nat} (G : Grow P P' s0 p) {i : Nat}
    {x' : Node α σ} (hx' : P'.nodes[i]? = some x') :
    (∃ x, P.nodes[i]? = some x ∧ x'.depth = x.depth ∧ x'.st = x.st ∧
      (i ≠ p ∨ x.children ≠ none → x'.children = x.children)) ∨
    (P.nodes[i]? = none ∧ x'.st = s0 ∧ x'.children = none ∧ 0 < i) := by
  cases hp : P.nodes[i]? with
  | none => exact Or.inr ⟨rfl, G.new i x' hx' hp⟩
  | some x =>
    obtain ⟨x'', h1, h2⟩ := G.old i x hp
    obtain rfl := getElem?_inj h1 hx'
    exact Or.inl ⟨x, rfl, h2⟩

end general

section paths
variable {α R S : Type} [LinearOrder S] [Inhabited S] [Inhabited R]

/-- Basic facts about a stored greedy path in a well-formed tree. -/
theorem GreedyPath.facts {P : Part α (TBSt R S)} (W : WF P) {stop : Node α (TBSt R S) → Prop}
    {path : List Nat} {v : Nat} (h : GreedyPath P stop path v) :
    path.Pairwise (· < ·) ∧ 0 ∈ path ∧ v ∈ path ∧
      ∀ p ∈ path, ∃ nd, P.nodes[p]? = some nd := by
  refine ⟨pairwise_of_consecutive path (fun i p c h1 h2 => ?_), List.mem_of_head? h.head,
    List.mem_of_getLast? h.last, fun p hp => ?_⟩
  · obtain ⟨nd, cs, a1, a2, a3⟩ := h.step i p c h1 h2
    obtain ⟨_, _, _, _, _, lt, _⟩ := W.child_facts a1 a2 a3.mem
    exact lt
  · obtain ⟨i, hi⟩ := List.mem_iff_getElem?.1 hp
    by_cases hlt : i + 1 < path.length
    · obtain ⟨nd, h1, _⟩ := h.go i p hi hlt
      exact ⟨nd, h1⟩
    · have hil := lt_length_of_getElem? hi
      have : i = path.length - 1 := by omega
      have hl := h.last
      rw [List.getLast?_eq_getElem?, ← this, hi] at hl
      obtain rfl : p = v := Option.some.inj hl
      obtain ⟨nd, h1, _⟩ := h.stop
      exact ⟨nd, h1⟩

/-- From the index form of a greedy run to the spec-level `GreedyPath`. -/
theorem GreedyIdx.toPath {P : Part α (TBSt R S)} {cont : Node α (TBSt R S) → Except Err Bool}
    {stop : Node α (TBSt R S) → Prop} {rest : List Nat} {v : Nat}
    (h : GreedyIdx P cont (0 :: rest)) (hv : (0 :: rest).getLast? = some v)
    (hgo : ∀ nd, cont nd = .ok true → nd.children ≠ none → ¬ stop nd)
    (hstop : ∀ nd go, cont nd = .ok go → (go = false ∨ nd.children = none) → stop nd) :
    GreedyPath P stop (0 :: rest) v where
  head := rfl
  last := hv
  step := h.step
  go := by
    intro i p hi hlt
    obtain ⟨nd, h1, h2, h3⟩ := h.go i p hi hlt
    exact ⟨nd, h1, hgo nd h2 h3⟩
  stop := by
    obtain ⟨nd, go, h1, h2, h3⟩ := h.stop v hv
    exact ⟨nd, h1, hstop nd go h2 h3⟩

/-- A greedy path only depends on the skeleton, the B-values and the stop predicate. -/
theorem GreedyPath.transfer {P Q : Part α (TBSt R S)} {stop stop' : Node α (TBSt R S) → Prop}
    {path : List Nat} {v : Nat} (h : GreedyPath P stop path v)
    (hnode : ∀ (i : Nat) (nd : Node α (TBSt R S)), P.nodes[i]? = some nd →
      ∃ nd', Q.nodes[i]? = some nd' ∧ nd'.children = nd.children ∧ nd'.st.b = nd.st.b ∧
        (stop' nd' ↔ stop nd))
    (hlen : Q.nodes.length = P.nodes.length) :
    GreedyPath Q stop' path v where
  head := h.head
  last := h.last
  step := by
    intro i p c h1 h2
    obtain ⟨nd, cs, a1, a2, a3⟩ := h.step i p c h1 h2
    obtain ⟨nd', b1, b2, _⟩ := hnode p nd a1
    have hb : (fun j => (Q.stOf j).b) = (fun j => (P.stOf j).b) := by
      funext j
      cases hj : P.nodes[j]? with
      | none =>
        have : Q.nodes[j]? = none := by
          rw [List.getElem?_eq_none_iff] at hj ⊢; omega
        simp [Part.stOf, hj, this]
      | some x =>
        obtain ⟨x', c1, _, c3, _⟩ := hnode j x hj
        simp [Part.stOf, hj, c1, c3]
    exact ⟨nd', cs, b1, b2.trans a2, by rw [hb]; exact a3⟩
  go := by
    intro i p hi hlt
    obtain ⟨nd, h1, h2⟩ := h.go i p hi hlt
    obtain ⟨nd', b1, _, _, b4⟩ := hnode p nd h1
    exact ⟨nd', b1, fun hs => h2 (b4.1 hs)⟩
  stop := by
    obtain ⟨nd, h1, h2⟩ := h.stop
    obtain ⟨nd', b1, _, _, b4⟩ := hnode v nd h1
    exact ⟨nd', b1, b4.2 h2⟩

end paths

end TBB
end PyXAB
