/-
  POO over a field: with `upd v k r = (v·k + r)/(k+1)` and `zero = 0`, every score is the
  arithmetic mean of the rewards delivered to its learner.
-/
import Mathlib.Algebra.CharZero.Defs
import Mathlib.Algebra.Field.Basic
import Mathlib.Algebra.Order.Ring.Defs
import PyXABProofs.Lemmas.MT_POORun

namespace PyXAB.MT
open PyXAB POO
variable {L α R S Pt ρ : Type}

theorem sum_snoc {β : Type} [AddMonoid β] (l : List β) (x : β) : (l ++ [x]).sum = l.sum + x := by
  induction l with
  | nil => simp
  | cons a t ih => simp only [List.cons_append, List.sum_cons, ih, add_assoc]

theorem recvRewards_snoc (log : List (Entry R)) (e : Entry R) (j : Nat) :
    recvRewards (log ++ [e]) j = recvRewards log j ++ (if j = e.received then [e.r] else []) := by
  unfold recvRewards
  rw [List.filter_append, List.map_append]
  by_cases h : j = e.received
  · simp [h]
  · have : ¬ e.received = j := fun h' => h h'.symm
    simp [h, this]

theorem recvRewards_length (log : List (Entry R)) (j : Nat) :
    (recvRewards log j).length = recvCount log j := by
  unfold recvRewards recvCount
  rw [List.length_map, List.countP_eq_length_filter]

/-- the running-mean identity `(μ_k·k + r)/(k+1)·(k+1) = μ_k·k + r` -/
theorem mean_step [Field α] [CharZero α] (v r : α) (k : Nat) :
    (v * (k : α) + r) / ((k : α) + 1) * ((k + 1 : Nat) : α) = v * (k : α) + r := by
  rw [Nat.cast_succ]
  exact div_mul_cancel₀ _ (Nat.cast_add_one_ne_zero k)

/-- `score · count` grows by the sum of the rewards delivered. -/
theorem run_scores [Field α] [CharZero α] {ops : LearnerOps L α α Pt ρ} {cfg : POOCfg α α ρ}
    (hupd : ∀ v k r, cfg.upd v k r = (v * (k : α) + r) / ((k : α) + 1)) (hz : cfg.zero = 0)
    {s s' : POO L α} {xs : List (RoundIn α α)} {log : List (Entry α)} (hI : Inv cfg s)
    (h : run ops cfg s xs = .ok (s', log)) :
    ∀ j, (s'.V[j]?).getD 0 * (((s'.times[j]?).getD 0 : Nat) : α) =
      (s.V[j]?).getD 0 * (((s.times[j]?).getD 0 : Nat) : α) + (recvRewards log j).sum := by
  have := run_induction (ops := ops) (cfg := cfg)
    (J := fun s1 log1 => Inv cfg s1 ∧
      ∀ j, (s1.V[j]?).getD 0 * (((s1.times[j]?).getD 0 : Nat) : α) =
        (s.V[j]?).getD 0 * (((s.times[j]?).getD 0 : Nat) : α) + (recvRewards log1 j).sum)
    (by
      intro s1 log1 x s2 e pt ⟨hI1, hJ⟩ hr
      obtain ⟨hI2, hsame, her, -⟩ := round_spec hI1 hr
      obtain ⟨ht, hv1, hv2, -⟩ := round_lists hI1 hr
      rw [hz] at hv1 hv2
      refine ⟨hI2, fun j => ?_⟩
      rw [recvRewards_snoc, hsame]
      by_cases hj : j = e.served
      · subst hj
        rw [ht, hv2, if_pos rfl, if_pos rfl, sum_snoc, ← add_assoc, ← hJ, her]
        simp only [Option.getD_some]
        rw [hupd, mean_step]
      · rw [ht, hv1 j hj, if_neg hj, if_neg hj, List.append_nil, Nat.add_zero]
        exact hJ j)
    xs s [] s' log ⟨hI, fun j => by simp [recvRewards]⟩ h
  simpa using this.2

end PyXAB.MT
