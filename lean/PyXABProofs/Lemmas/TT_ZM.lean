/-
  C01 for Zooming: along a `ZM.GoodRun` the invariant `ZM.Cover` (C11) holds, hence every arm's
  point lies in its (leaf) cell, which is a sub-box of the domain; the arena satisfies `DomInv`.
-/
import PyXABProofs.Lemmas.TT_Box
import PyXABProofs.Props.C11

set_option linter.unusedSectionVars false
set_option linter.unusedVariables false

namespace PyXAB
namespace TT
namespace ZM
open _root_.PyXAB.Tree TBA PyXAB.ZM Zooming
variable {α R S : Type} [Field α] [LinearOrder α] [IsStrictOrderedRing α]

/-- In a `Cover` state every active arm's stored point is a `d`-vector inside the domain. -/
theorem arm_in_domain {root : Box α} {s : Zooming α S} (hC : Cover root s) {a : Arm α S}
    (ha : a ∈ s.arms) : Box.Mem root a.pt ∧ a.pt.length = root.length := by
  obtain ⟨nd, hn, hleaf, _, hmem, _, hlen, _⟩ := C11.cover_arm_in_cell hC ha
  refine ⟨?_, hlen⟩
  have hb : nd.box ∈ leafBoxes s.P := by
    unfold leafBoxes
    refine List.mem_map.2 ⟨nd, List.mem_filter.2 ⟨List.mem_of_getElem? hn, ?_⟩, rfl⟩
    simp [isLeafNode, hleaf]
  exact Box.mem_of_subset (hC.tiles.1 nd.box hb).1 hmem

/-- `Partition.deepen()` of the fresh partition = one `make_children(root)`. -/
theorem deepen_init_dom {σ : Type} {k : Kind} {domain : Box α} (s0 : σ) {ds ds' : List (Draw α)}
    {P1 : Part α σ} (hv : Box.Valid domain) (hd : HeadFits k domain domain ds)
    (h : (Part.init k domain s0).deepen s0 ds = .ok (P1, ds')) : DomInv k domain P1 := by
  simp only [Part.deepen, Part.init, List.getElem?_cons_zero, List.length_cons, List.length_nil,
    Part.deepenLoop] at h
  obtain ⟨⟨P2, ds2⟩, hm, h⟩ := bind_ok h
  simp only [Except.ok.injEq, Prod.mk.injEq] at h
  obtain ⟨rfl, _⟩ := h
  refine (makeChildrenD_dom (DomInv.init hv s0) ?_ hm).1
  intro nd hn
  simp only [Part.init, List.getElem?_cons_zero, Option.some.injEq] at hn
  subst hn
  exact hd

variable [LinearOrder S]

/-- The arena of every state of a good run satisfies `DomInv`. -/
theorem goodRun_dom {cfg : ZoomCfg R S} {k : Kind} {domain : Box α} (hv : Box.Valid domain)
    {s : Zooming α S} {H : List (Nat × R)} (hG : GoodRun cfg k domain s H) :
    DomInv k domain s.P := by
  induction hG with
  | @init d ds ds' s hdl hd hi =>
    unfold Zooming.init at hi
    obtain ⟨⟨P1, ds1⟩, hdeep, hi⟩ := bind_ok hi
    dsimp only at hi
    split at hi
    · cases hi
    · simp only [pure, Except.pure, Except.ok.injEq, Prod.mk.injEq] at hi
      obtain ⟨rfl, _⟩ := hi
      have hf : HeadFits k domain domain (d :: ds) := fun _ _ => hd
      exact deepen_init_dom () hv hf hdeep
  | @round s s1 s2 H i pt r ds ds' hG' hneg hp hds hr ih =>
    obtain ⟨hC, _, hk, _⟩ := goodRun_cover hv hG'
    obtain ⟨rfl, a, ha, _⟩ := pull_inv hp
    obtain ⟨nd, hn, _, hcase⟩ := receive_cases cfg (hC.with_best (some i)) rfl ha r hds
    rcases hcase with ⟨_, e, _⟩ | ⟨hc, d, ds'', P2, _, c, _, _, rfl, hm, _, _, _, _, _, _, e, _⟩
    · rw [e] at hr
      cases hr
      exact ih
    · rw [e] at hr
      cases hr
      obtain ⟨_, _, e1, _, hdok⟩ := hds i a nd rfl ha hn.1 hc
      cases e1
      exact (makeChildren_dom (P := s.P) ih hn.1 (fun _ _ => by rw [← ih.kind]; exact hdok) hm).1

end ZM
end TT
end PyXAB
