/-
  Order-type tie, core facts: dense ranks are an order embedding on the members of the list, the dense rank list
  of a non-empty list is one of the enumerated `allDense` lists, and a table that agrees with a rule and is
  complete returns the rule's answer on every enumerated list.
-/
import PyXABProofs.Spec.OrderType
import Mathlib.Data.Finset.Card
import Mathlib.Data.Finset.Max
import Mathlib.Data.Finset.Image

namespace PyXAB.OT

section rank
variable {S : Type} [LinearOrder S]

theorem denseRank_eq_card (vs : List S) (x : S) :
    denseRank vs x = (vs.toFinset.filter (fun v => v < x)).card := by
  unfold denseRank
  rw [← List.card_toFinset, List.toFinset_filter]
  simp

theorem denseRank_mono (vs : List S) {x y : S} (h : x ≤ y) : denseRank vs x ≤ denseRank vs y := by
  rw [denseRank_eq_card, denseRank_eq_card]
  apply Finset.card_le_card
  intro v
  simp only [Finset.mem_filter]
  exact fun ⟨a, b⟩ => ⟨a, lt_of_lt_of_le b h⟩

theorem denseRank_strictMono (vs : List S) {x y : S} (hx : x ∈ vs) (h : x < y) :
    denseRank vs x < denseRank vs y := by
  rw [denseRank_eq_card, denseRank_eq_card]
  apply Finset.card_lt_card
  refine ⟨?_, ?_⟩
  · intro v
    simp only [Finset.mem_filter]
    exact fun ⟨a, b⟩ => ⟨a, lt_trans b h⟩
  · intro hsub
    have : x ∈ vs.toFinset.filter (fun v => v < x) := hsub (by simp [hx, h])
    simp at this

theorem denseRank_le_iff (vs : List S) {x y : S} (hy : y ∈ vs) :
    denseRank vs x ≤ denseRank vs y ↔ x ≤ y := by
  constructor
  · intro h
    by_contra hc
    have := denseRank_strictMono vs hy (not_le.mp hc)
    omega
  · exact denseRank_mono vs

theorem denseRank_lt_iff (vs : List S) {x y : S} (hx : x ∈ vs) :
    denseRank vs x < denseRank vs y ↔ x < y := by
  rw [← not_le, ← not_le, denseRank_le_iff vs hx]

theorem denseRank_eq_iff (vs : List S) {x y : S} (hx : x ∈ vs) (hy : y ∈ vs) :
    denseRank vs x = denseRank vs y ↔ x = y := by
  constructor
  · intro h
    exact le_antisymm ((denseRank_le_iff vs hy).mp (by omega)) ((denseRank_le_iff vs hx).mp (by omega))
  · intro h; rw [h]

theorem denseRank_lt_length (vs : List S) {x : S} (hx : x ∈ vs) : denseRank vs x < vs.length := by
  unfold denseRank
  refine lt_of_le_of_lt (List.dedup_sublist _).length_le ?_
  apply List.length_filter_lt_length_iff_exists.mpr
  exact ⟨x, hx, by simp⟩

theorem denseRank_eq_zero (vs : List S) {b : S} (hb : ∀ x ∈ vs, b ≤ x) : denseRank vs b = 0 := by
  unfold denseRank
  have : vs.filter (fun v => decide (v < b)) = [] := by
    rw [List.filter_eq_nil_iff]
    intro a ha
    simpa using hb a ha
  rw [this]; rfl

/-- the element just below a member of positive rank has the preceding rank -/
theorem denseRank_pred (vs : List S) {x : S} {r : Nat} (h : denseRank vs x = r + 1) :
    ∃ y ∈ vs, denseRank vs y = r := by
  rw [denseRank_eq_card] at h
  have hne : (vs.toFinset.filter (fun v => v < x)).Nonempty := by
    rw [← Finset.card_pos]; omega
  refine ⟨(vs.toFinset.filter (fun v => v < x)).max' hne, ?_, ?_⟩
  · have := Finset.max'_mem _ hne
    simp only [Finset.mem_filter, List.mem_toFinset] at this
    exact this.1
  · have hmem := Finset.max'_mem _ hne
    have hmax : ∀ v ∈ vs.toFinset.filter (fun v => v < x),
        v ≤ (vs.toFinset.filter (fun v => v < x)).max' hne := fun v hv => Finset.le_max' _ v hv
    generalize (vs.toFinset.filter (fun v => v < x)).max' hne = y at hmem hmax
    have hy := (Finset.mem_filter.mp hmem).2
    have : vs.toFinset.filter (fun v => v < y) = (vs.toFinset.filter (fun v => v < x)).erase y := by
      ext v
      simp only [Finset.mem_filter, Finset.mem_erase]
      constructor
      · exact fun ⟨a, b⟩ => ⟨ne_of_lt b, a, lt_trans b hy⟩
      · exact fun ⟨a, b, c⟩ => ⟨b, lt_of_le_of_ne (hmax v (Finset.mem_filter.mpr ⟨b, c⟩)) a⟩
    rw [denseRank_eq_card, this, Finset.card_erase_of_mem hmem, h]
    rfl

theorem denseRank_below (vs : List S) : ∀ (r : Nat) (x : S), x ∈ vs → denseRank vs x = r →
    ∀ r' ≤ r, ∃ y ∈ vs, denseRank vs y = r'
  | 0, x, hx, h, r', hr => ⟨x, hx, by omega⟩
  | r + 1, x, hx, h, r', hr => by
    by_cases he : r' = r + 1
    · exact ⟨x, hx, by omega⟩
    · obtain ⟨y, hy, hyr⟩ := denseRank_pred vs h
      exact denseRank_below vs r y hy hyr r' (by omega)

/-- a map that preserves and reflects `≤` on the members of `vs` leaves the dense ranks unchanged -/
theorem denseRank_map {T : Type} [LinearOrder T] (vs : List S) (f : S → T)
    (hf : ∀ x ∈ vs, ∀ y ∈ vs, (f x ≤ f y ↔ x ≤ y)) {x : S} (hx : x ∈ vs) :
    denseRank (vs.map f) (f x) = denseRank vs x := by
  have hlt : ∀ v ∈ vs, (f v < f x ↔ v < x) := fun v hv => by
    rw [← not_le, ← not_le, hf x hx v hv]
  have himg : (vs.map f).toFinset = vs.toFinset.image f := by ext a; simp
  rw [denseRank_eq_card, denseRank_eq_card, himg, Finset.filter_image]
  rw [Finset.card_image_of_injOn]
  · congr 1
    apply Finset.filter_congr
    intro v hv
    exact hlt v (List.mem_toFinset.mp hv)
  · intro a ha b hb hab
    have ha' : a ∈ vs := List.mem_toFinset.mp (Finset.mem_filter.mp ha).1
    have hb' : b ∈ vs := List.mem_toFinset.mp (Finset.mem_filter.mp hb).1
    exact le_antisymm ((hf a ha' b hb').mp (le_of_eq hab)) ((hf b hb' a ha').mp (le_of_eq hab.symm))

theorem denseRank_emb (vs : List S) : ∀ x ∈ vs, ∀ y ∈ vs, (denseRank vs x ≤ denseRank vs y ↔ x ≤ y) :=
  fun _ _ _ hy => denseRank_le_iff vs hy

theorem length_denseRanks (vs : List S) : (denseRanks vs).length = vs.length := by
  simp [denseRanks]

theorem denseRanks_head_bot (vs : List S) (hbot : ∀ b, vs.head? = some b → ∀ x ∈ vs, b ≤ x)
    (hpos : 1 ≤ vs.length) : botFirst (denseRanks vs) = true := by
  cases vs with
  | nil => simp at hpos
  | cons b xs =>
    have := denseRank_eq_zero (b :: xs) (hbot b rfl)
    simp [botFirst, denseRanks, this]

end rank

/-! ## the enumeration -/

theorem mem_seqs : ∀ (k n : Nat) (l : List Nat), l ∈ seqs k n ↔ l.length = k ∧ ∀ x ∈ l, x < n
  | 0, n, l => by
    simp only [seqs, List.mem_singleton]
    constructor
    · rintro rfl; simp
    · intro h; exact List.eq_nil_of_length_eq_zero h.1
  | k + 1, n, l => by
    simp only [seqs, List.mem_flatMap, List.mem_range, List.mem_map]
    constructor
    · rintro ⟨v, hv, l', hl', rfl⟩
      have := (mem_seqs k n l').mp hl'
      refine ⟨by simp [this.1], ?_⟩
      intro x hx
      rcases List.mem_cons.mp hx with rfl | hx
      · exact hv
      · exact this.2 x hx
    · rintro ⟨hlen, hall⟩
      cases l with
      | nil => simp at hlen
      | cons v l' =>
        refine ⟨v, hall v (by simp), l', (mem_seqs k n l').mpr ⟨by simpa using hlen, ?_⟩, rfl⟩
        intro x hx
        exact hall x (by simp [hx])

theorem le_foldl_max (rs : List Nat) : ∀ (a v : Nat), v ≤ rs.foldl max a → v ≤ a ∨ ∃ r ∈ rs, v ≤ r := by
  induction rs with
  | nil => intro a v h; exact Or.inl h
  | cons r rs ih =>
    intro a v h
    rw [List.foldl_cons] at h
    rcases ih _ _ h with h | ⟨r', hr', h⟩
    · rcases le_max_iff.mp h with h | h
      · exact Or.inl h
      · exact Or.inr ⟨r, by simp, h⟩
    · exact Or.inr ⟨r', by simp [hr'], h⟩

theorem denseRanks_mem_allDense {S : Type} [LinearOrder S] (vs : List S) (hpos : 1 ≤ vs.length) :
    denseRanks vs ∈ allDense vs.length := by
  unfold allDense
  rw [List.mem_filter]
  constructor
  · rw [mem_seqs]
    refine ⟨length_denseRanks vs, ?_⟩
    intro r hr
    obtain ⟨x, hx, rfl⟩ := List.mem_map.mp hr
    exact denseRank_lt_length vs hx
  · unfold isDense
    rw [List.all_eq_true]
    intro v hv
    rw [List.mem_range] at hv
    have hv' : v ≤ (denseRanks vs).foldl max 0 := by omega
    rw [List.contains_iff_mem]
    have key : ∃ r ∈ denseRanks vs, v ≤ r := by
      rcases le_foldl_max _ _ _ hv' with h | h
      · cases vs with
        | nil => simp at hpos
        | cons b xs => exact ⟨denseRank (b :: xs) b, by simp [denseRanks], by omega⟩
      · exact h
    obtain ⟨r, hr, hvr⟩ := key
    obtain ⟨x, hx, rfl⟩ := List.mem_map.mp hr
    obtain ⟨y, hy, hyv⟩ := denseRank_below vs _ x hx rfl v hvr
    exact List.mem_map.mpr ⟨y, hy, hyv⟩

/-! ## tables -/

theorem lookup_of_agrees_complete (m : List Nat → List Nat) (t : Table) (ks : List Nat) (ok : List Nat → Bool)
    (h1 : agrees m t = true) (h2 : complete t ks ok = true) {k : Nat} (hk : k ∈ ks) {rs : List Nat}
    (hrs : rs ∈ allDense k) (hok : ok rs = true) : lookup t rs = some (m rs) := by
  unfold complete at h2
  rw [List.all_eq_true] at h2
  have h3 := h2 k hk
  rw [List.all_eq_true] at h3
  have h4 := h3 rs hrs
  simp only [hok, Bool.not_true, Bool.false_or] at h4
  unfold lookup
  cases hf : t.find? (fun e => e.1 == rs) with
  | none =>
    rw [List.find?_eq_none] at hf
    rw [List.any_eq_true] at h4
    obtain ⟨e, he, he'⟩ := h4
    exact absurd he' (hf e he)
  | some e =>
    have hmem := List.mem_of_find?_eq_some hf
    have hp := List.find?_some hf
    unfold agrees at h1
    rw [List.all_eq_true] at h1
    have h5 := h1 e hmem
    simp only [beq_iff_eq] at hp h5
    simp only [Option.map_some, ← hp, h5]

end PyXAB.OT
