/-
  HCT / VHCT: `init`, `pull`, `receive` never raise from invariant states, keep the invariant,
  `pull` only rewrites thresholds, and `receive` has the extensional effect `RecvEffect`.
-/
import PyXABProofs.Lemmas.TBA_HOO

set_option linter.unusedSectionVars false

namespace PyXAB
namespace TBA.HCT
open Tree TBA PyXAB.HCT
variable {α R S : Type} [Add α] [Sub α] [Mul α] [Div α] [OfNat α 2] [NatCast α]
variable [LE S] [DecidableLE S] [Max S] [Min S] [Inhabited S] [Inhabited R]

theorem good_st0 (cfg : HCTCfg R S) : Good cfg.meanOf (st0 cfg) :=
  ⟨rfl, fun h => absurd rfl h⟩

theorem goodVar_st0 (cfg : HCTCfg R S) : GoodVar cfg.varOf (st0 cfg) :=
  fun h => absurd rfl h

theorem init_ok (cfg : HCTCfg R S) (k : Kind) (domain : Box α) (d : Draw α) (ds : List (Draw α))
    (hd : DrawOKLen k domain.length d) :
    ∃ s0 : HCT α R S, init cfg k domain (d :: ds) = .ok (s0, ds) ∧ Inv cfg s0 ∧
      s0.P.kind = k ∧ dimn s0.P = domain.length ∧ s0.P.isLeaf 0 = false ∧ s0.path = none ∧
      s0.iteration = 1 ∧
      ∀ (i : Nat) (nd : Node α (TBSt R S)), s0.P.nodes[i]? = some nd →
        nd.st = st0 cfg ∧ nd.depth ≤ 1 := by
  obtain ⟨P1, e1, W1, h1, h2, h3, h4⟩ := init_expand k domain (st0 cfg) d ds hd
  refine ⟨{ P := P1, iteration := 1, tauH := [cfg.zero], path := none }, ?_,
    ⟨⟨W1, fun i nd hi => ?_⟩, fun _ i nd hi => ?_⟩, h1, h2, h3, rfl, rfl, h4⟩
  · simp only [init, e1, bind, Except.bind, pure, Except.pure]
  · rw [(h4 i nd hi).1]; exact good_st0 cfg
  · rw [(h4 i nd hi).1]; exact goodVar_st0 cfg

/-! ### `pull` -/

theorem refreshTau_rel (cfg : HCTCfg R S) (dt : S) (P : Part α (TBSt R S))
    (hl : P.layers.length = P.depth + 1) :
    ∃ P', refreshTau cfg dt P = .ok P' ∧ PRel TauR P P' := by
  unfold refreshTau
  refine foldlM_inv (fun Q => PRel TauR P Q) _ _ P (PRel.refl' closed_TauR P) ?_
  intro Q h hh hQ
  rw [List.mem_range'_1] at hh
  have hlt : h < Q.layers.length := by rw [hQ.layers, hl]; omega
  simp only [List.getElem?_eq_getElem hlt]
  refine ⟨_, rfl, PRel.comp closed_TauR hQ ?_⟩
  refine PRel_foldl closed_TauR _ (fun Q' id => ?_) _ Q
  cases hq : Q'.nodes[id]? with
  | none => exact PRel.refl' closed_TauR Q'
  | some nd =>
    simp only
    refine PRel_modifySt_closed closed_TauR Q' id _ (fun a a' _ _ hst => ?_)
    show TauOnly a.st a'.st
    rw [hst]
    exact ⟨rfl, rfl, rfl, rfl, rfl, rfl⟩

theorem TauOnly.good {mo : List R → Nat → S} {a b : TBSt R S} (h : TauOnly a b) (g : Good mo a) :
    Good mo b := by
  obtain ⟨a1, a2, a3, _, _, _⟩ := h
  unfold Good
  rw [a1, a2, a3]; exact g

theorem TauOnly.goodVar {vo : List R → S} {a b : TBSt R S} (h : TauOnly a b)
    (g : GoodVar vo a) : GoodVar vo b := by
  obtain ⟨a1, a2, _, _, _, a6⟩ := h
  unfold GoodVar
  rw [a1, a2, a6]; exact g

theorem Inv.of_tau {cfg : HCTCfg R S} {s s1 : HCT α R S} (hI : Inv cfg s)
    (h : PRel TauR s.P s1.P) : Inv cfg s1 := by
  refine ⟨⟨h.wf hI.pinv.wf, fun i nd' hi => ?_⟩, fun hv i nd' hi => ?_⟩
  · obtain ⟨nd, n1, _, n3⟩ := h.bwd hi
    exact TauOnly.good n3 (hI.pinv.good i nd n1)
  · obtain ⟨nd, n1, _, n3⟩ := h.bwd hi
    exact TauOnly.goodVar n3 (hI.var hv i nd n1)

/-- `pull` succeeds from an invariant state; the tree skeleton and every
`count/rewards/mean/u/b/var` are kept (only `tau_h` / node `tau`s are rewritten). -/
theorem pull_ok (cfg : HCTCfg R S) {s : HCT α R S} (hI : Inv cfg s) :
    ∃ s1 path v, pull cfg s = .ok (s1, v) ∧ Ready cfg s1 path v ∧ PRel TauR s.P s1.P ∧
      s1.iteration = s.iteration ∧ (cfg.variance = false → s1.P = s.P) ∧
      (cfg.variance = true → s1.tauH = s.tauH) := by
  have W := hI.pinv.wf
  cases hv : cfg.variance with
  | false =>
    have hlen : (cfg.zero :: (List.range' 1 s.P.depth).map
        (cfg.tauH (cfg.dtHalf (tPlus s.iteration)))).length = s.P.depth + 1 := by simp
    obtain ⟨tail, v, nd, e1, e2, e3, e4, _⟩ := descend_ok W
      (fun nd => match (cfg.zero :: (List.range' 1 s.P.depth).map
          (cfg.tauH (cfg.dtHalf (tPlus s.iteration))))[nd.depth]? with
        | none => Except.error Err.indexError
        | some t => Except.ok (cfg.countGE nd.st.count t))
      (fun i nd hi => by
        have hd := W.depth_le i nd hi
        have hlt : nd.depth < (cfg.zero :: (List.range' 1 s.P.depth).map
          (cfg.tauH (cfg.dtHalf (tPlus s.iteration)))).length := by rw [hlen]; omega
        rw [List.getElem?_eq_getElem hlt]
        exact ⟨_, rfl⟩)
      (s.P.nodes.length + 1) 0 [0] W.length_pos (by omega)
    have e3' : ([0] ++ tail).getLast? = some v := e3
    refine ⟨{ s with tauH := _, path := some ([0] ++ tail) }, [0] ++ tail, v, ?_,
      ⟨⟨hI.pinv, hI.var⟩, rfl, ⟨rfl, e2⟩, e3', fun _ => hlen⟩, PRel.refl' closed_TauR _, rfl,
      fun _ => rfl, nofun⟩
    simp only [pull, hv, Bool.false_eq_true, if_false, pure, Except.pure, bind, Except.bind]
    erw [e1]
    simp only [e3']
  | true =>
    obtain ⟨P1, r1, r2⟩ := refreshTau_rel cfg (cfg.dtHalf (tPlus s.iteration)) s.P W.layers_len
    have W1 := r2.wf W
    obtain ⟨tail, v, nd, e1, e2, e3, e4, _⟩ := descend_ok W1
      (fun nd => Except.ok (cfg.countGE nd.st.count nd.st.tau))
      (fun _ _ _ => ⟨_, rfl⟩)
      (P1.nodes.length + 1) 0 [0] W1.length_pos (by omega)
    have e3' : ([0] ++ tail).getLast? = some v := e3
    have hI1 : Inv cfg { s with P := P1, path := some ([0] ++ tail) } := Inv.of_tau hI r2
    refine ⟨{ s with P := P1, path := some ([0] ++ tail) }, [0] ++ tail, v, ?_,
      ⟨hI1, rfl, ⟨rfl, e2⟩, e3', (fun h => by rw [hv] at h; cases h)⟩, r2, rfl,
      nofun, fun _ => rfl⟩
    simp only [pull, hv, if_true, pure, Except.pure, bind, Except.bind, r1, e1, e3']

/-! ### `receive` -/

theorem computeU_soft (cfg : HCTCfg R S) (dt : S) (nd : Node α (TBSt R S)) :
    Soft cfg.meanOf nd.st (computeU cfg dt nd) := by
  unfold computeU
  split
  · exact ⟨rfl, rfl, rfl, rfl, Or.inl rfl⟩
  · next h => exact ⟨rfl, rfl, rfl, rfl, Or.inr ⟨h, rfl⟩⟩

/-- The optional refresh at the start of `receive` (every time `t = t⁺`). -/
theorem refresh_pass (cfg : HCTCfg R S) (dt : S) (c : Prop) [Decidable c]
    (P : Part α (TBSt R S)) (hl : P.layers.length = P.depth + 1) :
    ∃ P1, (if c then backward cfg.negInf (forListed P (computeU cfg dt)) else .ok P) = .ok P1 ∧
      PRel (SoftR cfg.meanOf) P P1 := by
  by_cases hc : c
  · have h1 : PRel (SoftR cfg.meanOf) P (forListed P (computeU cfg dt)) :=
      forListed_rel (closed_SoftR cfg.meanOf) _
        (fun i nd nd' _ h => by show Soft _ _ _; rw [h]; exact computeU_soft cfg dt nd) P
    obtain ⟨P1, b1, b2⟩ := backward_rel cfg.negInf (forListed P (computeU cfg dt))
      (by rw [h1.layers, h1.depth]; exact hl)
    exact ⟨P1, by simp only [hc, if_true, b1],
      PRel.comp (closed_SoftR _) h1 (b2.soft_of_bonly cfg.meanOf)⟩
  · exact ⟨P, by simp only [hc, if_false], PRel.refl' (closed_SoftR _) P⟩

theorem updateReward_hit (cfg : HCTCfg R S) (P : Part α (TBSt R S)) (last : Nat) (r : R) :
    PRel (CreditR cfg.meanOf (voOf cfg) r (· = last)) P (updateReward cfg P last r) := by
  unfold updateReward
  refine (PRel_modifySt P last _).mono (fun i a b _ h => ?_)
  constructor
  · intro (hi : i = last)
    simp only [hi, if_true] at h
    rw [h]
    unfold voOf
    cases cfg.variance
    · exact ⟨rfl, rfl, rfl, rfl, rfl⟩
    · exact ⟨rfl, rfl, rfl, rfl, rfl⟩
  · intro (hi : ¬ i = last)
    simp only [hi, if_false] at h
    rw [h]; exact Soft.rfl' _ _

/-- `receive` after a `pull` succeeds given well-formed draws, keeps the invariant and has the
effect `RecvEffect`: the pulled cell is credited, and it is split iff it is a leaf whose new
count reaches the threshold `thr`. -/
theorem receive_ok (cfg : HCTCfg R S) {s : HCT α R S} {path : List Nat} {last : Nat}
    (hR : Ready cfg s path last) (r : R) {ds : List (Draw α)}
    (hds : DrawsOK s.P.kind (dimn s.P) ds) :
    ∃ s' ds' nd thr, s.P.nodes[last]? = some nd ∧
      (cfg.variance = true → thr = nd.st.tau) ∧
      (cfg.variance = false → s.tauH[nd.depth]? = some thr) ∧
      receive cfg s r ds = .ok (s', ds') ∧
      Inv cfg s' ∧ s'.path = s.path ∧ s'.iteration = s.iteration + 1 ∧ s'.tauH = s.tauH ∧
      RecvEffect cfg.meanOf (voOf cfg) r (st0 cfg) (· = last) s.P s'.P last
        (nd.children.isNone && cfg.countGE (nd.st.count + 1) thr) := by
  have W := hR.inv.pinv.wf
  have hvalid := hR.isPath.2.getLast_valid hR.lastEq
  obtain ⟨nd, hnd⟩ : ∃ nd, s.P.nodes[last]? = some nd := ⟨_, List.getElem?_eq_getElem hvalid⟩
  obtain ⟨P1, p1, q1⟩ := refresh_pass cfg (cfg.dtOne (tPlus s.iteration))
    (s.iteration = tPlus s.iteration) s.P W.layers_len
  have q2 := updateReward_hit cfg P1 last r
  have q12 : PRel (CreditR cfg.meanOf (voOf cfg) r (· = last)) s.P (updateReward cfg P1 last r) :=
    q1.trans' q2 (fun _ _ _ _ _ _ h1 h2 => CreditR.soft_left h1 h2)
  obtain ⟨nd2, n1, _, _⟩ := q12.node last nd hnd
  have q3 : PRel (SoftR cfg.meanOf) (updateReward cfg P1 last r)
      ((updateReward cfg P1 last r).modifySt last
        (fun _ => computeU cfg (cfg.dtOne (tPlus s.iteration)) nd2)) :=
    PRel_modifySt_closed (closed_SoftR _) _ _ _ (fun a a' ha _ hst => by
      obtain rfl := getElem?_inj n1 ha
      show Soft _ _ _
      rw [hst]; exact computeU_soft cfg _ _)
  have q13 := q12.trans' q3 (fun _ _ _ _ _ _ h1 h2 => CreditR.soft_right h1 h2)
  obtain ⟨P4, b1, b2⟩ := backward_rel cfg.negInf _
    (by rw [q13.layers, q13.depth]; exact W.layers_len)
  have q14 := q13.trans' (b2.soft_of_bonly cfg.meanOf)
    (fun _ _ _ _ _ _ h1 h2 => CreditR.soft_right h1 h2)
  obtain ⟨nd4, m1, m2, m3⟩ := q14.node last nd hnd
  have hhit := m3.1 rfl
  have W4 := q14.wf W
  have hds4 : DrawsOK P4.kind (dimn P4) ds := by rw [q14.kind, q14.dimn_eq]; exact hds
  -- the threshold
  obtain ⟨thr, t1, t2⟩ : ∃ thr, (cfg.variance = true → thr = nd.st.tau) ∧
      (cfg.variance = false → s.tauH[nd.depth]? = some thr) := by
    cases hv : cfg.variance with
    | true => exact ⟨nd.st.tau, fun _ => rfl, nofun⟩
    | false =>
      have hlt : nd.depth < s.tauH.length := by
        rw [hR.tauLen hv]; have := W.depth_le last nd hnd; omega
      exact ⟨s.tauH[nd.depth], nofun, fun _ => List.getElem?_eq_getElem hlt⟩
  obtain ⟨P5, ds', x1, x2, W5⟩ := expand_if
    (nd4.children.isNone && cfg.countGE nd4.st.count thr) W4 (st0 cfg) m1
    (fun h => by
      rw [Bool.and_eq_true] at h
      exact Option.isNone_iff_eq_none.1 h.1) hds4
  have E := RecvEffect.build (s0 := st0 cfg) rfl q14 x2 (PRel.refl' closed_BOnlyR P5)
  rw [m2.children, hhit.1] at E
  refine ⟨{ s with P := P5, iteration := s.iteration + 1 }, ds', nd, thr, hnd, t1, t2, ?_, ?_,
    hR.stored.symm ▸ rfl, rfl, rfl, E⟩
  · unfold receive
    simp only [hR.stored, hR.lastEq, p1, bind, Except.bind, n1, b1, m1, pure, Except.pure]
    cases hv : cfg.variance with
    | true =>
      have e : nd4.st.tau = thr := by rw [t1 hv]; exact hhit.2.2.1
      simp only [if_true, e, x1]
    | false =>
      have e : s.tauH[nd4.depth]? = some thr := by rw [m2.depth]; exact t2 hv
      simp only [Bool.false_eq_true, if_false, e, x1]
  · refine ⟨⟨W5, ?_⟩, fun hv => ?_⟩
    · exact E.good (Good cfg.meanOf) (good_st0 cfg) (fun _ _ h g => h.good g)
        (fun _ _ h g => h.good g) hR.inv.pinv.good
    · have hvo : voOf cfg = some cfg.varOf := by simp [voOf, hv]
      rw [hvo] at E
      exact E.good (GoodVar cfg.varOf) (goodVar_st0 cfg) (fun _ _ h _ => h.goodVar)
        (fun _ _ h g => h.goodVar g) (hR.inv.var hv)

end TBA.HCT
end PyXAB
