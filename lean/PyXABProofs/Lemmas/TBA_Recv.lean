/-
  The shape shared by the three `receive_reward`s: a payload pass which credits the reward to
  the cells `hit`, at most one expansion of the pulled leaf, a B-value pass.  `RecvEffect` is
  the extensional description used by the property files.
-/
import PyXABProofs.Lemmas.TBA_Descend

namespace PyXAB
namespace TBA
open Tree

variable {α σ R S : Type}

/-! ### Crediting one reward -/

/-- Node relation of one `receive`: the cells `hit` are credited, the others only refreshed. -/
def CreditR (mo : List R → Nat → S) (vo : Option (List R → S)) (r : R) (hit : Nat → Prop) :
    Nat → Node α (TBSt R S) → Node α (TBSt R S) → Prop :=
  fun i a b => (hit i → Hit mo vo r a.st b.st) ∧ (¬ hit i → Soft mo a.st b.st)

theorem Hit.soft_right {mo : List R → Nat → S} {vo : Option (List R → S)} {r : R}
    {a b c : TBSt R S} (h1 : Hit mo vo r a b) (h2 : Soft mo b c) : Hit mo vo r a c := by
  obtain ⟨a1, a2, a3, a4, a5⟩ := h1
  obtain ⟨b1, b2, b3, b4, b5⟩ := h2
  refine ⟨b1.trans a1, b2.trans a2, b4.trans a3, ?_, b3.trans a5⟩
  rcases b5 with e | ⟨_, e⟩
  · rw [e]; exact a4
  · rw [e, a1, a2]

theorem Hit.soft_left {mo : List R → Nat → S} {vo : Option (List R → S)} {r : R}
    {a b c : TBSt R S} (h1 : Soft mo a b) (h2 : Hit mo vo r b c) : Hit mo vo r a c := by
  obtain ⟨a1, a2, a3, a4, _⟩ := h1
  obtain ⟨b1, b2, b3, b4, b5⟩ := h2
  rw [a1, a2] at *
  exact ⟨b1, b2, b3.trans a4, b4, by rw [b5, a3]⟩

theorem Hit.good {mo : List R → Nat → S} {vo : Option (List R → S)} {r : R} {a b : TBSt R S}
    (h : Hit mo vo r a b) (g : Good mo a) : Good mo b := by
  obtain ⟨a1, a2, _, a4, _⟩ := h
  refine ⟨by rw [a1, a2, g.1]; simp, fun _ => ?_⟩
  rw [a4, a1, a2]

theorem Hit.goodVar {mo : List R → Nat → S} {f : List R → S} {r : R} {a b : TBSt R S}
    (h : Hit mo (some f) r a b) : GoodVar f b := by
  obtain ⟨_, a2, _, _, a5⟩ := h
  intro _
  rw [a5, a2]

theorem CreditR.soft_right {mo : List R → Nat → S} {vo : Option (List R → S)} {r : R}
    {hit : Nat → Prop} {i : Nat} {a b c : Node α (TBSt R S)}
    (h1 : CreditR mo vo r hit i a b) (h2 : Soft mo b.st c.st) : CreditR mo vo r hit i a c :=
  ⟨fun h => (h1.1 h).soft_right h2, fun h => (h1.2 h).trans h2⟩

theorem CreditR.soft_left {mo : List R → Nat → S} {vo : Option (List R → S)} {r : R}
    {hit : Nat → Prop} {i : Nat} {a b c : Node α (TBSt R S)}
    (h1 : Soft mo a.st b.st) (h2 : CreditR mo vo r hit i b c) : CreditR mo vo r hit i a c :=
  ⟨fun h => Hit.soft_left h1 (h2.1 h), fun h => h1.trans (h2.2 h)⟩

/-! ### At most one expansion -/

/-- `P3` is `Pm`, or (iff `grew`) `Pm` after splitting the leaf `last`. -/
structure Mid (s0 : σ) (Pm P3 : Part α σ) (last : Nat) (grew : Bool) : Prop where
  kind : P3.kind = Pm.kind
  dimn : dimn P3 = dimn Pm
  len : P3.nodes.length = Pm.nodes.length + (if grew then K Pm else 0)
  old : ∀ (i : Nat) (x : Node α σ), Pm.nodes[i]? = some x → ∃ x', P3.nodes[i]? = some x' ∧
    x'.depth = x.depth ∧ x'.index = x.index ∧ x'.parent = x.parent ∧ x'.box = x.box ∧
    x'.st = x.st ∧ (¬ (i = last ∧ grew = true) → x'.children = x.children) ∧
    (i = last → grew = true → x.children = none ∧
      x'.children = some (List.range' Pm.nodes.length (K Pm)))
  new : grew = true → ∃ ln, Pm.nodes[last]? = some ln ∧ ∀ j, j < K Pm →
    ∃ cn, P3.nodes[Pm.nodes.length + j]? = some cn ∧ cn.depth = ln.depth + 1 ∧
      cn.parent = some last ∧ cn.children = none ∧ cn.st = s0

theorem Mid.same (s0 : σ) (P : Part α σ) (last : Nat) : Mid s0 P P last false where
  kind := rfl
  dimn := rfl
  len := by simp
  old := fun i x hx => ⟨x, hx, rfl, rfl, rfl, rfl, rfl, fun _ => rfl, fun _ h => by cases h⟩
  new := fun h => by cases h

theorem Mid.of_step {s0 : σ} {P P' : Part α σ} {last : Nat} {nd : Node α σ} (W : WF P)
    (hp : P.nodes[last]? = some nd) (hleaf : nd.children = none) (S : Step P P' s0 last nd) :
    Mid s0 P P' last true where
  kind := S.kind_eq
  dimn := S.dimn_eq W hp
  len := by simp [S.len]
  old := by
    intro i x hx
    obtain ⟨x', h1, h2, h3, h4, h5, h6, h7, h8⟩ := S.pres hp hx
    refine ⟨x', h1, h2, h3, h4, h5, h6, fun hn => h7 (fun e => hn ⟨e, rfl⟩), fun e _ => ?_⟩
    subst e
    obtain rfl := getElem?_inj hp hx
    exact ⟨hleaf, h8 rfl⟩
  new := by
    intro _
    refine ⟨nd, hp, fun j hj => ?_⟩
    obtain ⟨cn, c1, c2, _, c4, c5, _, c7⟩ := S.new j hj
    exact ⟨cn, c1, c2, c4, c5, c7⟩

/-! ### The effect of one `receive` -/

theorem BOnly.eq_of_leaf {a b : Node α (TBSt R S)} (h : BOnly a b) (hl : a.children = none)
    (hu : a.st.b = a.st.u) : b.st = a.st := by
  obtain ⟨h1, h2, h3, h4, h5, h6, h7⟩ := h
  have h8 : b.st.b = a.st.b := by
    rcases h7 hl with e | e
    · exact e
    · rw [e, hu]
  cases hb : b.st; cases ha : a.st
  simp only [hb, ha] at h1 h2 h3 h4 h5 h6 h8
  subst h1 h2 h3 h4 h5 h6 h8
  rfl

theorem RecvEffect.build {mo : List R → Nat → S} {vo : Option (List R → S)} {r : R}
    {s0 : TBSt R S} {hit : Nat → Prop} {P Pm P3 P' : Part α (TBSt R S)} {last : Nat}
    {grew : Bool} (hs0 : s0.b = s0.u)
    (h1 : PRel (CreditR mo vo r hit) P Pm) (h2 : Mid s0 Pm P3 last grew)
    (h3 : PRel BOnlyR P3 P') : RecvEffect mo vo r s0 hit P P' last grew where
  kind := h3.kind.trans (h2.kind.trans h1.kind)
  dimn := h3.dimn_eq.trans (h2.dimn.trans h1.dimn_eq)
  len := by rw [h3.len, h2.len, h1.len, h1.K_eq]
  old := by
    intro i nd hi
    obtain ⟨m, m1, m2, m3⟩ := h1.node i nd hi
    obtain ⟨x, x1, x2, x3, x4, x5, x6, x7, x8⟩ := h2.old i m m1
    obtain ⟨y, y1, y2, y3⟩ := h3.node i x x1
    have hsoft : Soft mo m.st y.st := by rw [← x6]; exact BOnly.soft mo y3
    have hc := CreditR.soft_right m3 hsoft
    refine ⟨y, y1, y2.depth.trans (x2.trans m2.depth), y2.index.trans (x3.trans m2.index),
      y2.parent.trans (x4.trans m2.parent), y2.box.trans (x5.trans m2.box),
      fun hn => y2.children.trans ((x7 hn).trans m2.children), fun e g => ?_, hc.1, hc.2⟩
    obtain ⟨z1, z2⟩ := x8 e g
    refine ⟨m2.children.symm.trans z1, ?_⟩
    rw [y2.children, z2, h1.len, h1.K_eq]
  new := by
    intro g
    obtain ⟨ln, l1, l2⟩ := h2.new g
    obtain ⟨ln0, k1, k2, _⟩ := h1.bwd l1
    refine ⟨ln0, k1, fun j hj => ?_⟩
    rw [← h1.K_eq] at hj
    obtain ⟨cn, c1, c2, c3, c4, c5⟩ := l2 j hj
    obtain ⟨y, y1, y2, y3⟩ := h3.node _ cn c1
    rw [h1.len] at y1
    refine ⟨y, y1, by rw [y2.depth, c2, k2.depth], y2.parent.trans c3, y2.children.trans c4, ?_⟩
    rw [BOnly.eq_of_leaf y3 c4 (by rw [c5]; exact hs0), c5]

/-- The bookkeeping part of the invariant survives one `receive`. -/
theorem RecvEffect.good {mo : List R → Nat → S} {vo : Option (List R → S)} {r : R}
    {s0 : TBSt R S} {hit : Nat → Prop} {P P' : Part α (TBSt R S)} {last : Nat} {grew : Bool}
    (E : RecvEffect mo vo r s0 hit P P' last grew) (Q : TBSt R S → Prop)
    (hq0 : Q s0) (hHit : ∀ a b, Hit mo vo r a b → Q a → Q b)
    (hSoft : ∀ a b, Soft mo a b → Q a → Q b)
    (hP : ∀ (i : Nat) (nd : Node α (TBSt R S)), P.nodes[i]? = some nd → Q nd.st)
    (i : Nat) (nd' : Node α (TBSt R S)) (hi : P'.nodes[i]? = some nd') : Q nd'.st := by
  classical
  by_cases hlt : i < P.nodes.length
  · obtain ⟨nd, hnd⟩ : ∃ nd, P.nodes[i]? = some nd := ⟨_, List.getElem?_eq_getElem hlt⟩
    obtain ⟨x, x1, _, _, _, _, _, _, x8, x9⟩ := E.old i nd hnd
    obtain rfl := getElem?_inj x1 hi
    by_cases hh : hit i
    · exact hHit _ _ (x8 hh) (hP i nd hnd)
    · exact hSoft _ _ (x9 hh) (hP i nd hnd)
  · have hl := lt_length_of_getElem? hi
    rw [E.len] at hl
    cases grew with
    | false => simp at hl; omega
    | true =>
      simp only [if_true] at hl
      obtain ⟨_, _, h2⟩ := E.new rfl
      obtain ⟨cn, c1, _, _, _, c5⟩ := h2 (i - P.nodes.length) (by omega)
      have e : P.nodes.length + (i - P.nodes.length) = i := by omega
      rw [e] at c1
      obtain rfl := getElem?_inj c1 hi
      rw [c5]; exact hq0

/-! ### Construction: `Partition.__init__` + split of the root -/

section init
variable [Add α] [Sub α] [Mul α] [Div α] [OfNat α 2] [NatCast α]

theorem init_expand (k : Kind) (domain : Box α) (s0 : σ) (d : Draw α) (ds : List (Draw α))
    (hd : DrawOKLen k domain.length d) :
    ∃ P1, (Part.init k domain s0).expand s0 0 (d :: ds) = .ok (P1, ds) ∧ WF P1 ∧ P1.kind = k ∧
      dimn P1 = domain.length ∧ P1.isLeaf 0 = false ∧
      (∀ (i : Nat) (nd : Node α σ), P1.nodes[i]? = some nd → nd.st = s0 ∧ nd.depth ≤ 1) := by
  have W0 := init_WF' k domain s0
  have h0 : (Part.init k domain s0).nodes[0]? = some
      { depth := 0, index := 1, parent := none, children := none, box := domain, st := s0 } := rfl
  have hdim : dimn (Part.init k domain s0) = domain.length := rfl
  obtain ⟨P1, e1, W1, S⟩ := expand_ok W0 s0 h0 rfl ds (by rw [hdim]; exact hd)
  refine ⟨P1, e1, W1, S.kind_eq, (S.dimn_eq W0 h0).trans hdim, ?_, ?_⟩
  · simp [Part.isLeaf, S.atp]
  · intro i nd hi
    rcases S.inv h0 hi with ⟨x, x1, x2, _, _, _, x6, _⟩ | ⟨j, _, _, j3, _, _, _, _, j8⟩
    · have : i = 0 := by
        have := lt_length_of_getElem? x1; simp [Part.init] at this; exact this
      subst this
      obtain rfl := getElem?_inj h0 x1
      exact ⟨x6, by rw [x2]; exact Nat.zero_le 1⟩
    · exact ⟨j8, by rw [j3]; exact Nat.le_refl 1⟩

end init

end TBA
end PyXAB
