/-
  GPO (PCT / VPCT): what one `pull` / one `receive` does (as an `iff` on the successful
  outcome), and the preservation of the invariants `GPO.Inv` / `GPO.Ready`.  Core Lean only.
-/
import PyXABProofs.Spec.MetaSpec
import PyXABProofs.Lemmas.MT_ArgmaxCore

namespace PyXAB.MT
open PyXAB
namespace GPO
open PyXAB.GPO
variable {L α R S Pt ρ : Type}

/-! ### The successful outcomes of `pull` -/

theorem pull_ok_iff (ops : LearnerOps L α R Pt ρ) (cfg : GPOCfg R S ρ) (hh : 1 ≤ cfg.half)
    (s s1 : GPO L S Pt) (time : Nat) (ds ds1 : List (Draw α)) (pt : Pt) :
    pull ops cfg s time ds = .ok (s1, ds1, pt) ↔
      (cfg.N < s.phase ∧ s.goodx = some pt ∧ s1 = s ∧ ds1 = ds) ∨
      (s.phase ≤ cfg.N ∧ s.counter = 0 ∧ ∃ l l', ops.create (cfg.rhoOf s.phase) ds = .ok (l, ds1) ∧
        ops.pull l time = .ok (l', pt) ∧
        s1 = { s with curr := some l', goodx := some pt, created := s.created + 1 }) ∨
      (s.phase ≤ cfg.N ∧ s.counter ≠ 0 ∧ s.counter < cfg.half ∧ ∃ l l', s.curr = some l ∧
        ops.pull l time = .ok (l', pt) ∧ ds1 = ds ∧ s1 = { s with curr := some l', goodx := some pt }) ∨
      (s.phase ≤ cfg.N ∧ s.counter ≠ 0 ∧ cfg.half ≤ s.counter ∧ s.goodx = some pt ∧ ds1 = ds ∧
        s1 = if s.counter = cfg.half then { s with Vx := s.Vx ++ [pt], V := s.V ++ [cfg.zero] } else s) := by
  unfold pull
  simp only [bind, Except.bind, pure, Except.pure]
  by_cases hph : s.phase > cfg.N
  · have hph' : ¬ s.phase ≤ cfg.N := by omega
    simp only [hph, if_true, hph', false_and, or_false]
    cases hg : s.goodx with
    | none => simp
    | some p => simp; grind
  · have hph' : s.phase ≤ cfg.N := by omega
    have hph'' : ¬ cfg.N < s.phase := by omega
    simp only [hph, if_false, hph', true_and, false_and, false_or]
    by_cases h0 : s.counter = 0
    · have hlt : s.counter < cfg.half := by omega
      simp only [h0, if_true]
      cases hcr : ops.create (cfg.rhoOf s.phase) ds with
      | error e => simp
      | ok v =>
        obtain ⟨l, dsc⟩ := v
        have : 0 < cfg.half := by omega
        simp only [this, if_true]
        cases hp : ops.pull l time with
        | error e => simp [hp]
        | ok w =>
          obtain ⟨l', pt'⟩ := w
          simp
          grind
    · simp only [h0, if_false]
      by_cases hlt : s.counter < cfg.half
      · have hge : ¬ cfg.half ≤ s.counter := by omega
        simp only [hlt, if_true, hge]
        cases hc : s.curr with
        | none => simp
        | some l =>
          cases hp : ops.pull l time with
          | error e => simp [hp]
          | ok w =>
            obtain ⟨l', pt'⟩ := w
            simp [hp]
            grind
      · have hge : cfg.half ≤ s.counter := by omega
        simp only [hlt, if_false, hge]
        cases hg : s.goodx with
        | none => simp
        | some p =>
          by_cases hch : s.counter = cfg.half
          · simp [hch]; grind
          · simp [hch]; grind

/-! ### The successful outcomes of `receive` -/

section
variable [LT S] [DecidableLT S]

/-- the tail of `receive`: advance the counter, the phase, and pick the best point at the end -/
def finish (cfg : GPOCfg R S ρ) (s1 : GPO L S Pt) : Except Err (GPO L S Pt) :=
  let s2 := { s1 with counter := s1.counter + 1 }
  if s2.counter ≥ 2 * cfg.half then
    let s3 := { s2 with phase := s2.phase + 1, counter := 0 }
    if s3.phase > cfg.N then
      match argmaxFirst s3.V with
      | none => .error .valueError
      | some i =>
        match s3.Vx[i]? with
        | none => .error .indexError
        | some p => .ok { s3 with goodx := some p }
    else .ok s3
  else .ok s2

theorem finish_ok_iff (cfg : GPOCfg R S ρ) (sA s2 : GPO L S Pt) :
    finish cfg sA = .ok s2 ↔
      (sA.counter + 1 < 2 * cfg.half ∧ s2 = { sA with counter := sA.counter + 1 }) ∨
      (2 * cfg.half ≤ sA.counter + 1 ∧ sA.phase + 1 ≤ cfg.N ∧
        s2 = { sA with phase := sA.phase + 1, counter := 0 }) ∨
      (2 * cfg.half ≤ sA.counter + 1 ∧ cfg.N < sA.phase + 1 ∧ ∃ i p, argmaxFirst sA.V = some i ∧
        sA.Vx[i]? = some p ∧ s2 = { sA with phase := sA.phase + 1, counter := 0, goodx := some p }) := by
  unfold finish
  dsimp only
  by_cases h1 : sA.counter + 1 ≥ 2 * cfg.half
  · have h1' : ¬ sA.counter + 1 < 2 * cfg.half := by omega
    have h1'' : 2 * cfg.half ≤ sA.counter + 1 := by omega
    simp only [h1, if_true, h1', false_and, false_or, true_and]
    by_cases h2 : sA.phase + 1 > cfg.N
    · have h2' : ¬ sA.phase + 1 ≤ cfg.N := by omega
      have h2'' : cfg.N < sA.phase + 1 := by omega
      simp only [h2, if_true, h2', false_and, false_or, true_and]
      cases ha : argmaxFirst sA.V with
      | none => simp
      | some i =>
        cases hx : sA.Vx[i]? with
        | none => simp [hx]
        | some p => simp [hx]; grind
    · have h2' : sA.phase + 1 ≤ cfg.N := by omega
      have h2'' : ¬ cfg.N < sA.phase + 1 := by omega
      simp only [h2, if_false, h2', true_and, false_and, or_false]
      grind
  · have h1' : sA.counter + 1 < 2 * cfg.half := by omega
    have h1'' : ¬ 2 * cfg.half ≤ sA.counter + 1 := by omega
    simp only [h1, if_false, h1', true_and, false_and, or_false]
    grind

theorem receive_ok_iff (ops : LearnerOps L α R Pt ρ) (cfg : GPOCfg R S ρ) (s s2 : GPO L S Pt)
    (time : Nat) (r : R) (ds ds2 : List (Draw α)) :
    receive ops cfg s time r ds = .ok (s2, ds2) ↔
      (cfg.N < s.phase ∧ s2 = s ∧ ds2 = ds) ∨
      (s.phase ≤ cfg.N ∧ s.counter < cfg.half ∧ ∃ l l', s.curr = some l ∧
        ops.receive l time r ds = .ok (l', ds2) ∧ finish cfg { s with curr := some l' } = .ok s2) ∨
      (s.phase ≤ cfg.N ∧ cfg.half ≤ s.counter ∧ ∃ v, s.V[s.phase - 1]? = some v ∧ ds2 = ds ∧
        finish cfg { s with V := s.V.set (s.phase - 1) (cfg.upd v (s.counter - cfg.half) r) } = .ok s2) := by
  unfold receive
  simp only [bind, Except.bind, pure, Except.pure]
  by_cases hph : s.phase > cfg.N
  · have hph' : ¬ s.phase ≤ cfg.N := by omega
    simp only [hph, if_true, hph', false_and, or_false]
    simp
    grind
  · have hph' : s.phase ≤ cfg.N := by omega
    have hph'' : ¬ cfg.N < s.phase := by omega
    simp only [hph, if_false, hph', true_and, false_and, false_or]
    by_cases hlt : s.counter < cfg.half
    · have hge : ¬ cfg.half ≤ s.counter := by omega
      simp only [hlt, if_true, hge, false_and, or_false, true_and]
      cases hc : s.curr with
      | none => simp
      | some l =>
        cases hp : ops.receive l time r ds with
        | error e => simp [hp]
        | ok w =>
          obtain ⟨l', ds'⟩ := w
          simp only [hp, finish_ok_iff]
          by_cases h1 : s.counter + 1 ≥ 2 * cfg.half
          · by_cases h2 : s.phase + 1 > cfg.N
            · simp only [h1, h2, if_true]
              cases ha : argmaxFirst s.V with
              | none => simp; omega
              | some i =>
                cases hx : s.Vx[i]? with
                | none => simp [hx]; omega
                | some p => simp [hx]; grind
            · simp [h1, h2]; grind
          · simp [h1]; grind
    · have hge : cfg.half ≤ s.counter := by omega
      simp only [hlt, if_false, hge, false_and, false_or, true_and]
      cases hv : s.V[s.phase - 1]? with
      | none => simp
      | some v =>
        simp only [finish_ok_iff]
        by_cases h1 : s.counter + 1 ≥ 2 * cfg.half
        · by_cases h2 : s.phase + 1 > cfg.N
          · simp only [h1, h2, if_true]
            cases ha : argmaxFirst (s.V.set (s.phase - 1) (cfg.upd v (s.counter - cfg.half) r)) with
            | none => simp [ha]; omega
            | some i =>
              cases hx : s.Vx[i]? with
              | none => simp [ha, hx]; omega
              | some p => simp [ha, hx]; grind
          · simp [h1, h2]; grind
        · simp [h1]; grind

end

/-! ### Effects (no invariant needed) -/

theorem pull_effect {ops : LearnerOps L α R Pt ρ} {cfg : GPOCfg R S ρ} (hh : 1 ≤ cfg.half)
    {s s1 : GPO L S Pt} {time : Nat} {ds ds1 : List (Draw α)} {pt : Pt}
    (h : pull ops cfg s time ds = .ok (s1, ds1, pt)) : PullEffect ops cfg s time ds s1 ds1 pt := by
  rw [pull_ok_iff ops cfg hh] at h
  unfold PullEffect
  rcases h with ⟨hph, hg, rfl, rfl⟩ | ⟨hph, h0, l, l', hcr, hp, rfl⟩ | ⟨hph, h0, hlt, l, l', hc, hp, rfl, rfl⟩ |
    ⟨hph, h0, hge, hg, rfl, rfl⟩
  · rw [if_pos hph]; exact ⟨rfl, rfl, rfl, rfl, hg⟩
  · have h1 : ¬ cfg.N < s.phase := by omega
    have h2 : s.counter < cfg.half := by omega
    rw [if_neg h1, if_pos h2]
    refine ⟨rfl, rfl, l, l', ?_, hp, rfl, rfl, rfl, rfl⟩
    rw [if_pos h0]
    exact ⟨hcr, rfl⟩
  · have h1 : ¬ cfg.N < s.phase := by omega
    rw [if_neg h1, if_pos hlt]
    refine ⟨rfl, rfl, l, l', ?_, hp, rfl, rfl, rfl, rfl⟩
    rw [if_neg h0]
    exact ⟨hc, rfl, rfl⟩
  · have h1 : ¬ cfg.N < s.phase := by omega
    have h2 : ¬ s.counter < cfg.half := by omega
    rw [if_neg h1, if_neg h2]
    by_cases hch : s.counter = cfg.half
    · rw [if_pos hch, if_pos hch]
      exact ⟨rfl, rfl, rfl, rfl, hg, rfl, rfl, rfl, rfl⟩
    · rw [if_neg hch, if_neg hch]
      exact ⟨rfl, rfl, rfl, rfl, hg, rfl, rfl, rfl, rfl⟩

section
variable [LT S] [DecidableLT S]

theorem receive_effect {ops : LearnerOps L α R Pt ρ} {cfg : GPOCfg R S ρ}
    {s s2 : GPO L S Pt} {time : Nat} {r : R} {ds ds2 : List (Draw α)}
    (h : receive ops cfg s time r ds = .ok (s2, ds2)) : RecvEffect ops cfg s time r ds s2 ds2 := by
  rw [receive_ok_iff] at h
  unfold RecvEffect
  rcases h with ⟨hph, rfl, rfl⟩ | ⟨hph, hlt, l, l', hc, hp, hf⟩ | ⟨hph, hge, v, hv, rfl, hf⟩
  · rw [if_pos hph]; exact ⟨rfl, rfl⟩
  · have h1 : ¬ cfg.N < s.phase := by omega
    rw [if_neg h1, if_pos hlt]
    rw [finish_ok_iff] at hf
    rcases hf with ⟨hc1, rfl⟩ | ⟨hc1, -⟩ | ⟨hc1, -⟩
    · dsimp only at hc1
      rw [if_pos hc1]
      exact ⟨rfl, rfl, ⟨rfl, rfl, rfl⟩, l, l', hc, hp, rfl, rfl⟩
    · dsimp only at hc1; omega
    · dsimp only at hc1; omega
  · have h1 : ¬ cfg.N < s.phase := by omega
    have h2 : ¬ s.counter < cfg.half := by omega
    rw [if_neg h1, if_neg h2]
    rw [finish_ok_iff] at hf
    rcases hf with ⟨hc1, rfl⟩ | ⟨hc1, hp1, rfl⟩ | ⟨hc1, hp1, i, p, ha, hx, rfl⟩
    · dsimp only at hc1
      rw [if_pos hc1]
      exact ⟨rfl, rfl, ⟨rfl, rfl, rfl⟩, v, hv, rfl, rfl, rfl⟩
    · dsimp only at hc1 hp1
      have : ¬ s.counter + 1 < 2 * cfg.half := by omega
      rw [if_neg this, if_pos hp1]
      exact ⟨rfl, rfl, ⟨rfl, rfl, rfl⟩, v, hv, rfl, rfl, rfl⟩
    · dsimp only at hc1 hp1 ha hx
      have : ¬ s.counter + 1 < 2 * cfg.half := by omega
      have hp2 : ¬ s.phase + 1 ≤ cfg.N := by omega
      rw [if_neg this, if_neg hp2]
      exact ⟨rfl, rfl, ⟨rfl, rfl, i, p, ha, hx, rfl⟩, v, hv, rfl, rfl, rfl⟩

/-! ### Invariants -/

theorem inv_init (cfg : GPOCfg R S ρ) (hN : 1 ≤ cfg.N) (hh : 1 ≤ cfg.half) :
    Inv cfg (GPO.init : GPO L S Pt) := by
  refine { hph := by simp [GPO.init], hlen := rfl, run := ?_, done := ?_ }
  · intro _; simp [GPO.init]; omega
  · intro h; simp [GPO.init] at h; omega

theorem pull_ready {ops : LearnerOps L α R Pt ρ} {cfg : GPOCfg R S ρ}
    {s s1 : GPO L S Pt} {time : Nat} {ds ds1 : List (Draw α)} {pt : Pt} (hI : Inv cfg s)
    (h : PullEffect ops cfg s time ds s1 ds1 pt) : Ready cfg s1 := by
  obtain ⟨hph, hcn, h⟩ := h
  by_cases hd : cfg.N < s.phase
  · simp only [hd, if_true] at h
    obtain ⟨rfl, -, -⟩ := h
    exact { hph := hI.hph, hlen := hI.hlen, run := fun h' => by omega, done := hI.done }
  · simp only [hd, if_false] at h
    obtain ⟨hc2, hcr, hvl, hpos⟩ := hI.run (by omega)
    have hlen := hI.hlen
    have hp1 := hI.hph
    by_cases hlt : s.counter < cfg.half
    · simp only [hlt, if_true] at h
      obtain ⟨l, l', hif, -, hc', hg', hV, hVx⟩ := h
      refine { hph := by rw [hph]; exact hI.hph, hlen := by rw [hV, hVx]; exact hlen, run := ?_,
               done := fun h' => by omega }
      intro _
      rw [hph, hcn, hV, hVx, hc', hg']
      have hnl : ¬ cfg.half < s.counter := by omega
      have hnle : ¬ cfg.half ≤ s.counter := by omega
      simp only [hnl, if_false] at hvl
      refine ⟨hc2, ?_, by simp only [hnle, if_false]; exact hvl, ⟨l', rfl⟩, pt, rfl, fun h' => by omega⟩
      by_cases h0 : s.counter = 0
      · simp only [h0, if_true] at hif hcr
        rw [hif.2, hcr]; omega
      · simp only [h0, if_false] at hif hcr
        rw [hif.2.2, hcr]; omega
    · simp only [hlt, if_false] at h
      obtain ⟨hc', -, hg, hg', hcr', hif⟩ := h
      have hcpos : 0 < s.counter := by omega
      have h0 : ¬ s.counter = 0 := by omega
      simp only [h0, if_false] at hcr
      obtain ⟨hcurr, p, hgp, hvx⟩ := hpos hcpos
      rw [hg] at hgp
      cases hgp
      by_cases hch : s.counter = cfg.half
      · simp only [hch, if_true] at hif
        obtain ⟨hVx, hV⟩ := hif
        have hnl : ¬ cfg.half < s.counter := by omega
        simp only [hnl, if_false] at hvl
        refine { hph := by rw [hph]; exact hI.hph, hlen := by rw [hV, hVx]; simp [hlen], run := ?_,
                 done := fun h' => by omega }
        intro _
        rw [hph, hcn, hV, hVx, hc', hg', hcr']
        refine ⟨hc2, by omega, ?_, hcurr, pt, hg, fun _ => ?_⟩
        · simp [hch, hvl]
        · rw [List.getElem?_append_right (by omega)]
          simp [hlen, hvl]
      · simp only [hch, if_false] at hif
        obtain ⟨hVx, hV⟩ := hif
        have hl : cfg.half < s.counter := by omega
        simp only [hl, if_true] at hvl
        refine { hph := by rw [hph]; exact hI.hph, hlen := by rw [hV, hVx]; exact hlen, run := ?_,
                 done := fun h' => by omega }
        intro _
        rw [hph, hcn, hV, hVx, hc', hg', hcr']
        have hle : cfg.half ≤ s.counter := by omega
        refine ⟨hc2, by omega, by simp only [hle, if_true]; exact hvl, hcurr, pt, hg, fun _ => hvx hl⟩

theorem receive_inv {ops : LearnerOps L α R Pt ρ} {cfg : GPOCfg R S ρ} (hh : 1 ≤ cfg.half)
    {s s2 : GPO L S Pt} {time : Nat} {r : R} {ds ds2 : List (Draw α)} (hR : Ready cfg s)
    (h : RecvEffect ops cfg s time r ds s2 ds2) : Inv cfg s2 := by
  unfold RecvEffect at h
  by_cases hd : cfg.N < s.phase
  · simp only [hd, if_true] at h
    obtain ⟨rfl, -⟩ := h
    exact { hph := hR.hph, hlen := hR.hlen, run := fun h' => by omega, done := hR.done }
  · simp only [hd, if_false] at h
    obtain ⟨hVx, hcr2, hsched, hbr⟩ := h
    obtain ⟨hc2, hcr, hvl, ⟨lc, hcurr⟩, p, hgp, hvx⟩ := hR.run (by omega)
    have hlen := hR.hlen
    have hp1 := hR.hph
    by_cases hlt : s.counter < cfg.half
    · simp only [hlt, if_true] at hbr
      obtain ⟨l, l', -, -, hc', hV⟩ := hbr
      have hs : s.counter + 1 < 2 * cfg.half := by omega
      simp only [hs, if_true] at hsched
      obtain ⟨hph, hcn, hg⟩ := hsched
      have hnle : ¬ cfg.half ≤ s.counter := by omega
      simp only [hnle, if_false] at hvl
      refine { hph := by rw [hph]; exact hp1, hlen := by rw [hV, hVx]; exact hlen, run := ?_,
               done := fun h' => by omega }
      intro _
      rw [hph, hcn, hV, hVx, hc', hg, hcr2, hcr]
      have : ¬ cfg.half < s.counter + 1 := by omega
      refine ⟨hs, by simp; omega, by simp only [this, if_false]; exact hvl, fun _ => ⟨⟨l', rfl⟩, p, hgp, fun h' => by omega⟩⟩
    · simp only [hlt, if_false] at hbr
      obtain ⟨v, hv, hV, hc', -⟩ := hbr
      have hle : cfg.half ≤ s.counter := by omega
      simp only [hle, if_true] at hvl
      have hVlen : s2.V.length = s.V.length := by rw [hV]; simp
      by_cases hs : s.counter + 1 < 2 * cfg.half
      · simp only [hs, if_true] at hsched
        obtain ⟨hph, hcn, hg⟩ := hsched
        refine { hph := by rw [hph]; exact hp1, hlen := by rw [hVlen, hVx]; exact hlen, run := ?_,
                 done := fun h' => by omega }
        intro _
        rw [hph, hcn, hVlen, hVx, hc', hg, hcr2, hcr]
        have : cfg.half < s.counter + 1 := by omega
        refine ⟨hs, by simp; omega, by simp only [this, if_true]; exact hvl,
          fun _ => ⟨⟨lc, hcurr⟩, p, hgp, fun _ => hvx hle⟩⟩
      · simp only [hs, if_false] at hsched
        obtain ⟨hph, hcn, hg⟩ := hsched
        by_cases hnext : s.phase + 1 ≤ cfg.N
        · simp only [hnext, if_true] at hg
          refine { hph := by rw [hph]; omega, hlen := by rw [hVlen, hVx]; exact hlen, run := ?_,
                   done := fun h' => by omega }
          intro _
          rw [hph, hcn, hVlen, hcr2, hcr]
          refine ⟨by omega, by simp, by simp; omega, fun h' => by omega⟩
        · simp only [hnext, if_false] at hg
          refine { hph := by rw [hph]; omega, hlen := by rw [hVlen, hVx]; exact hlen,
                   run := fun h' => by omega, done := ?_ }
          intro _
          rw [hVlen, hcr2, hcr]
          exact ⟨hcn, by omega, by omega, hg⟩

/-! ### Totality -/

theorem pull_total {ops : LearnerOps L α R Pt ρ} {cfg : GPOCfg R S ρ} (hh : 1 ≤ cfg.half)
    {s : GPO L S Pt} (hI : Inv cfg s) (hops : OpsTotal ops) (time : Nat) (ds : List (Draw α)) :
    ∃ s1 ds1 pt, pull ops cfg s time ds = .ok (s1, ds1, pt) := by
  obtain ⟨hcr, hpl, _⟩ := hops
  by_cases hd : cfg.N < s.phase
  · obtain ⟨-, -, -, i, p, -, -, hg⟩ := hI.done hd
    exact ⟨s, ds, p, (pull_ok_iff ops cfg hh ..).mpr (Or.inl ⟨hd, hg, rfl, rfl⟩)⟩
  · obtain ⟨hc2, -, -, hpos⟩ := hI.run (by omega)
    by_cases h0 : s.counter = 0
    · obtain ⟨⟨l, ds1⟩, e1⟩ := hcr (cfg.rhoOf s.phase) ds
      obtain ⟨⟨l', pt⟩, e2⟩ := hpl l time
      exact ⟨_, ds1, pt, (pull_ok_iff ops cfg hh ..).mpr (Or.inr (Or.inl ⟨by omega, h0, l, l', e1, e2, rfl⟩))⟩
    · obtain ⟨⟨l, hl⟩, p, hg, -⟩ := hpos (by omega)
      by_cases hlt : s.counter < cfg.half
      · obtain ⟨⟨l', pt⟩, e2⟩ := hpl l time
        exact ⟨_, ds, pt, (pull_ok_iff ops cfg hh ..).mpr
          (Or.inr (Or.inr (Or.inl ⟨by omega, h0, hlt, l, l', hl, e2, rfl, rfl⟩)))⟩
      · exact ⟨_, ds, p, (pull_ok_iff ops cfg hh ..).mpr
          (Or.inr (Or.inr (Or.inr ⟨by omega, h0, by omega, hg, rfl, rfl⟩)))⟩

theorem receive_total {ops : LearnerOps L α R Pt ρ} {cfg : GPOCfg R S ρ}
    {s : GPO L S Pt} (hR : Ready cfg s) (hops : OpsTotal ops) (time : Nat) (r : R)
    (ds : List (Draw α)) : ∃ s2 ds2, receive ops cfg s time r ds = .ok (s2, ds2) := by
  obtain ⟨_, _, hrc⟩ := hops
  by_cases hd : cfg.N < s.phase
  · exact ⟨s, ds, (receive_ok_iff ..).mpr (Or.inl ⟨hd, rfl, rfl⟩)⟩
  · obtain ⟨hc2, -, hvl, ⟨l, hl⟩, -⟩ := hR.run (by omega)
    have hlen := hR.hlen
    have hp1 := hR.hph
    by_cases hlt : s.counter < cfg.half
    · obtain ⟨⟨l', ds2⟩, e⟩ := hrc l time r ds
      refine ⟨_, ds2, (receive_ok_iff ..).mpr (Or.inr (Or.inl ⟨by omega, hlt, l, l', hl, e,
        (finish_ok_iff ..).mpr (Or.inl ⟨by dsimp only; omega, rfl⟩)⟩))⟩
    · have hle : cfg.half ≤ s.counter := by omega
      simp only [hle, if_true] at hvl
      have hidx : s.phase - 1 < s.V.length := by omega
      suffices hfin : ∃ s2, finish cfg
          { s with V := s.V.set (s.phase - 1) (cfg.upd s.V[s.phase - 1] (s.counter - cfg.half) r) } = .ok s2 by
        obtain ⟨s2, hf⟩ := hfin
        exact ⟨s2, ds, (receive_ok_iff ..).mpr (Or.inr (Or.inr ⟨by omega, hle, _,
          List.getElem?_eq_getElem hidx, rfl, hf⟩))⟩
      by_cases hs : s.counter + 1 < 2 * cfg.half
      · exact ⟨_, (finish_ok_iff ..).mpr (Or.inl ⟨hs, rfl⟩)⟩
      · by_cases hnext : s.phase + 1 ≤ cfg.N
        · exact ⟨_, (finish_ok_iff ..).mpr (Or.inr (Or.inl ⟨by dsimp only; omega, hnext, rfl⟩))⟩
        · have hne : s.V.set (s.phase - 1) (cfg.upd s.V[s.phase - 1] (s.counter - cfg.half) r) ≠ [] := by
            intro h
            have := congrArg List.length h
            rw [List.length_set, List.length_nil] at this
            omega
          obtain ⟨i, hi⟩ := argmaxFirst_isSome hne
          have hil := argmaxFirst_lt_length hi
          rw [List.length_set, ← hlen] at hil
          exact ⟨_, (finish_ok_iff ..).mpr (Or.inr (Or.inr ⟨by dsimp only; omega, by dsimp only; omega,
            i, s.Vx[i], hi, List.getElem?_eq_getElem hil, rfl⟩))⟩

end
end GPO
end PyXAB.MT
