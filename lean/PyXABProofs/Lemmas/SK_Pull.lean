/-
  StroquOOL: the blocks of `pull` — what each does to the fields, and (under the invariant
  `Inv` and well-formed draws) that it keeps `Inv` and only extends the arena (`Ext`).
-/
import PyXABProofs.Lemmas.SK_Ext

set_option linter.unusedSectionVars false

namespace PyXAB
namespace SK
open Tree TBA StroquOOL

variable {α R S : Type}

/-! ### transporting the invariant -/

theorem chosen_mono {n n' c : Nat} (h : n ≤ n') (hc : c ∈ List.range' 1 (n - 1)) :
    c ∈ List.range' 1 (n' - 1) := by
  rw [mem_range'_chosen] at hc ⊢; omega

/-- payload-only updates keep the invariant -/
theorem Inv.prel {s s' : StroquOOL α R S} (hI : Inv s)
    {ρ : Nat → Node α (SkSt R S) → Node α (SkSt R S) → Prop} (hq : PRel ρ s.P s'.P)
    (hm : s'.maxNode = s.maxNode) (hc : s'.chosen = s.chosen)
    (hcd : ∀ c, some c ∈ s'.candidate → c ∈ s.chosen)
    (hcur : s'.curr < s.P.nodes.length) : Inv s' where
  wf := hq.wf hI.wf
  ar := hq.K_eq.trans hI.ar
  mx := fun m h => prel_expd hq (hI.mx m (hm ▸ h))
  ch := by rw [hc, hI.ch, hq.len]
  cd := fun c h => hc ▸ hcd c h
  cur := by rw [hq.len]; exact hcur

theorem Inv.same {s s' : StroquOOL α R S} (hI : Inv s) (hP : s'.P = s.P)
    (hm : s'.maxNode = s.maxNode) (hc : s'.chosen = s.chosen)
    (hcd : s'.candidate = s.candidate) (hcur : s'.curr < s.P.nodes.length) : Inv s' :=
  hI.prel (ρ := fun _ _ _ => True) (by rw [hP]; exact PRel.refl (fun _ _ => trivial) s.P) hm hc
    (fun c h => hI.cd c (hcd ▸ h)) hcur

theorem Inv.mem_chosen {s : StroquOOL α R S} (hI : Inv s) {c : Nat} :
    c ∈ s.chosen ↔ 1 ≤ c ∧ c < s.P.nodes.length := by
  rw [hI.ch, mem_range'_chosen]

section model
variable [LE S] [DecidableLE S]

theorem pickLast_mem (f : Nat → S) : ∀ (cands : List (Option Nat)) (acc : S × Option Nat) (v : Nat),
    (pickLast f cands acc).2 = some v → acc.2 = some v ∨ some v ∈ cands
  | [], _, _, h => Or.inl h
  | none :: l, acc, v, h => by
    rcases pickLast_mem f l acc v (by simpa [pickLast] using h) with h | h
    · exact Or.inl h
    · exact Or.inr (List.mem_cons_of_mem _ h)
  | some c :: l, acc, v, h => by
    by_cases hb : acc.1 ≤ f c
    · simp only [pickLast, hb, if_true] at h
      rcases pickLast_mem f l _ v h with h | h
      · exact Or.inr (by simp at h; simp [h])
      · exact Or.inr (List.mem_cons_of_mem _ h)
    · simp only [pickLast, hb, if_false] at h
      rcases pickLast_mem f l _ v h with h | h
      · exact Or.inl h
      · exact Or.inr (List.mem_cons_of_mem _ h)

theorem lastPoint_mem (cfg : SkCfg R S) {s s' : StroquOOL α R S} {v : Nat}
    (h : lastPoint cfg s = .ok (s', v)) : some v ∈ s.candidate := by
  obtain ⟨_, hp, _⟩ := (lastPoint_ok_iff cfg s s' v).1 h
  rcases pickLast_mem _ _ _ _ hp with h | h
  · simp at h
  · exact h

end model

section blocks
variable [Add α] [Sub α] [Mul α] [Div α] [OfNat α 2] [NatCast α]
variable [LE S] [DecidableLE S] [Inhabited S] [Inhabited R]

/-- A block of `pull` under the invariant: keeps `Inv` and well-formed draws, only extends the
arena, does not touch `candidate` / `ended`. -/
structure Blk (s s1 : StroquOOL α R S) (ds1 : List (Draw α)) : Prop where
  inv : Inv s1
  dok : DrawsOK s1.P ds1
  ext : Ext s.P s1.P
  cand : s1.candidate = s.candidate
  ended : s1.ended = s.ended

theorem Blk.trans {s s1 s2 : StroquOOL α R S} {ds1 ds2 : List (Draw α)}
    (h1 : Blk s s1 ds1) (h2 : Blk s1 s2 ds2) : Blk s s2 ds2 :=
  ⟨h2.inv, h2.dok, h1.ext.trans h2.ext, h2.cand.trans h1.cand, h2.ended.trans h1.ended⟩

/-! ### `finish` -/

theorem finish_ok_iff (cfg : SkCfg R S) (s s' : StroquOOL α R S) (ds ds' : List (Draw α))
    (v : Nat) : finish cfg s ds = .ok (s', ds', v) ↔
      ds' = ds ∧ lastPoint cfg { s with ended := true } = .ok (s', v) := by
  unfold finish
  cases h : lastPoint cfg { s with ended := true } with
  | error e => simp [bind, Except.bind]
  | ok x =>
    obtain ⟨a, b⟩ := x
    simp only [bind, Except.bind, pure, Except.pure, Except.ok.injEq, Prod.mk.injEq]
    constructor
    · rintro ⟨rfl, rfl, rfl⟩; exact ⟨rfl, rfl, rfl⟩
    · rintro ⟨rfl, rfl, rfl⟩; exact ⟨rfl, rfl, rfl⟩

/-- the output of `finish`: the run is marked ended, only candidates' means are refreshed, and
the returned id is (idempotently) the recommendation of the new state -/
structure Fin (cfg : SkCfg R S) (s s' : StroquOOL α R S) (v : Nat) : Prop where
  eq : s' = { s with ended := true, P := refreshP cfg s.P s.candidate }
  reco : lastPoint cfg s' = .ok (s', v)
  mem : some v ∈ s'.candidate

theorem finish_spec (cfg : SkCfg R S) {s s' : StroquOOL α R S} {ds ds' : List (Draw α)} {v : Nat}
    (h : finish cfg s ds = .ok (s', ds', v)) : ds' = ds ∧ Fin cfg s s' v := by
  obtain ⟨rfl, h2⟩ := (finish_ok_iff cfg s s' ds ds' v).1 h
  obtain ⟨_, _, e⟩ := (lastPoint_ok_iff cfg _ s' v).1 h2
  have hm := lastPoint_mem cfg h2
  exact ⟨rfl, e, lastPoint_idem cfg h2, by rw [e]; exact hm⟩

theorem Fin.ended {cfg : SkCfg R S} {s s' : StroquOOL α R S} {v : Nat} (h : Fin cfg s s' v) :
    s'.ended = true := by rw [h.eq]

theorem Fin.cand {cfg : SkCfg R S} {s s' : StroquOOL α R S} {v : Nat} (h : Fin cfg s s' v) :
    s'.candidate = s.candidate := by rw [h.eq]

theorem Fin.quiet {cfg : SkCfg R S} {s s' : StroquOOL α R S} {v : Nat} (h : Fin cfg s s' v) :
    Quiet s.P s'.P := by rw [h.eq]; exact quiet_refreshP cfg s.P s.candidate

theorem Fin.inv {cfg : SkCfg R S} {s s' : StroquOOL α R S} {v : Nat} (h : Fin cfg s s' v)
    (hI : Inv s) : Inv s' :=
  hI.prel h.quiet (by rw [h.eq]) (by rw [h.eq]) (fun c hc => hI.cd c (by rw [h.eq] at hc; exact hc))
    (by rw [h.eq]; exact hI.cur)

/-- What a `pull` returns: either a cell to evaluate, which becomes `curr` (and `ended` is
untouched), or — the run has just been / is marked ended — the recommendation. -/
inductive Out (cfg : SkCfg R S) (s s' : StroquOOL α R S) (v : Nat) : Prop
  | eval : s'.ended = s.ended → s'.curr = v → Out cfg s s' v
  | fin (s1 : StroquOOL α R S) : s1.ended = s.ended → Fin cfg s1 s' v → Out cfg s s' v

end blocks

end SK
end PyXAB
