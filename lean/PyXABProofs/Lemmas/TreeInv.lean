/-
  Preservation of the invariant `WF` by one `Step` (= one legal `make_children`).
-/
import PyXABProofs.Lemmas.TreeStep

set_option linter.unusedSectionVars false

namespace PyXAB
namespace Tree

variable {α σ : Type}

theorem arity_pos_of_drawOK {k : Kind} {n : Nat} {d : Draw α} (h : DrawOKLen k n d) :
    1 ≤ k.arity n := by
  cases k <;> simp only [DrawOKLen, Kind.arity] at * <;> first | omega | exact Nat.pow_pos (by omega)

theorem lt_length_of_getElem? {β : Type} {l : List β} {i : Nat} {x : β} (h : l[i]? = some x) :
    i < l.length := (List.getElem?_eq_some_iff.1 h).1

namespace Step
variable {P P' : Part α σ} {s0 : σ} {p : Nat} {nd : Node α σ}

/-- Old nodes survive with every field intact, except the child list of `p`. -/
theorem pres (S : Step P P' s0 p nd) (hp : P.nodes[p]? = some nd) {i : Nat} {x : Node α σ}
    (hx : P.nodes[i]? = some x) :
    ∃ x', P'.nodes[i]? = some x' ∧ x'.depth = x.depth ∧ x'.index = x.index ∧
      x'.parent = x.parent ∧ x'.box = x.box ∧ x'.st = x.st ∧
      (i ≠ p → x'.children = x.children) ∧
      (i = p → x'.children = some (List.range' P.nodes.length (K P))) := by
  by_cases hip : i = p
  · subst hip
    obtain rfl : nd = x := by simpa [hp] using hx
    exact ⟨_, S.atp, rfl, rfl, rfl, rfl, rfl, fun h => absurd rfl h, fun _ => rfl⟩
  · refine ⟨x, ?_, rfl, rfl, rfl, rfl, rfl, fun _ => rfl, fun h => absurd h hip⟩
    rw [S.old i hip (lt_length_of_getElem? hx)]; exact hx

/-- Every node of the new state is an old node (same fields up to the child list of `p`)
or one of the `K` new leaves. -/
theorem inv (S : Step P P' s0 p nd) (hp : P.nodes[p]? = some nd) {i : Nat} {x' : Node α σ}
    (hx : P'.nodes[i]? = some x') :
    (∃ x, P.nodes[i]? = some x ∧ x'.depth = x.depth ∧ x'.index = x.index ∧
      x'.parent = x.parent ∧ x'.box = x.box ∧ x'.st = x.st ∧
      (i ≠ p → x'.children = x.children) ∧
      (i = p → x'.children = some (List.range' P.nodes.length (K P)))) ∨
    (∃ j, j < K P ∧ i = P.nodes.length + j ∧ x'.depth = nd.depth + 1 ∧
      x'.index = K P * (nd.index - 1) + j + 1 ∧ x'.parent = some p ∧ x'.children = none ∧
      x'.box.length = dimn P ∧ x'.st = s0) := by
  by_cases hi : i < P.nodes.length
  · left
    obtain ⟨x, hx0⟩ : ∃ x, P.nodes[i]? = some x := ⟨_, List.getElem?_eq_getElem hi⟩
    obtain ⟨x'', h1, h2⟩ := S.pres hp hx0
    obtain rfl : x'' = x' := by simpa [h1] using hx
    exact ⟨x, hx0, h2⟩
  · right
    have hlt := lt_length_of_getElem? hx
    rw [S.len] at hlt
    refine ⟨i - P.nodes.length, by omega, by omega, ?_⟩
    obtain ⟨cn, h1, h2⟩ := S.new (i - P.nodes.length) (by omega)
    have : P.nodes.length + (i - P.nodes.length) = i := by omega
    rw [this] at h1
    obtain rfl : cn = x' := by simpa [h1] using hx
    exact h2

theorem dimn_eq (S : Step P P' s0 p nd) (W : WF P) (hp : P.nodes[p]? = some nd) :
    dimn P' = dimn P := by
  obtain ⟨r, hr, _⟩ := W.root
  obtain ⟨r', hr', _, _, _, hb, _⟩ := S.pres hp hr
  simp only [dimn, hr, hr', hb]

theorem K_eq (S : Step P P' s0 p nd) (W : WF P) (hp : P.nodes[p]? = some nd) :
    K P' = K P := by
  simp only [K, S.dimn_eq W hp, S.kind_eq]

section wf
variable (S : Step P P' s0 p nd) (W : WF P) (hp : P.nodes[p]? = some nd)
include S W hp

theorem wf_root : ∃ r, P'.nodes[0]? = some r ∧ r.depth = 0 ∧ r.index = 1 ∧ r.parent = none := by
  obtain ⟨r, hr, h1, h2, h3⟩ := W.root
  obtain ⟨r', hr', e1, e2, e3, _⟩ := S.pres hp hr
  exact ⟨r', hr', e1.trans h1, e2.trans h2, e3.trans h3⟩

theorem wf_boxlen (i : Nat) (x' : Node α σ) (hx : P'.nodes[i]? = some x') :
    x'.box.length = dimn P' := by
  rw [S.dimn_eq W hp]
  rcases S.inv hp hx with ⟨x, h0, _, _, _, hb, _⟩ | ⟨j, _, _, _, _, _, _, hb, _⟩
  · rw [hb]; exact W.boxlen i x h0
  · exact hb

theorem wf_index_pos (i : Nat) (x' : Node α σ) (hx : P'.nodes[i]? = some x') : 1 ≤ x'.index := by
  rcases S.inv hp hx with ⟨x, h0, _, hi, _⟩ | ⟨j, _, _, _, hi, _⟩
  · rw [hi]; exact W.index_pos i x h0
  · omega

theorem wf_parent (hleaf : nd.children = none) (c : Nat) (x' : Node α σ) (hc : 0 < c)
    (hx : P'.nodes[c]? = some x') :
    ∃ q qn cs, x'.parent = some q ∧ q < c ∧ P'.nodes[q]? = some qn ∧ qn.children = some cs ∧
      c ∈ cs ∧ x'.depth = qn.depth + 1 := by
  rcases S.inv hp hx with ⟨x, h0, hd, _, hpar, _⟩ | ⟨j, hj, rfl, hd, _, hpar, _⟩
  · obtain ⟨q, qn, cs, h1, h2, h3, h4, h5, h6⟩ := W.parent c x hc h0
    have hqp : q ≠ p := by
      rintro rfl
      obtain rfl : nd = qn := by simpa [hp] using h3
      simp [hleaf] at h4
    obtain ⟨qn', g1, g2, _, _, _, _, g3, _⟩ := S.pres hp h3
    exact ⟨q, qn', cs, hpar.trans h1, h2, g1, (g3 hqp).trans h4, h5, by omega⟩
  · have := lt_length_of_getElem? hp
    refine ⟨p, _, _, hpar, by omega, S.atp, rfl, ?_, hd⟩
    rw [List.mem_range'_1]; omega

theorem wf_children (hK : 1 ≤ K P) (q : Nat) (x' : Node α σ) (cs : List Nat)
    (hx : P'.nodes[q]? = some x') (hcs : x'.children = some cs) :
    1 ≤ K P' ∧ ∃ a, q < a ∧ cs = List.range' a (K P') ∧ a + K P' ≤ P'.nodes.length ∧
      ∀ j, j < K P' → ∃ cn, P'.nodes[a + j]? = some cn ∧ cn.parent = some q ∧
        cn.index = K P' * (x'.index - 1) + j + 1 := by
  rw [S.K_eq W hp, S.len]
  refine ⟨hK, ?_⟩
  rcases S.inv hp hx with ⟨x, h0, _, hi, _, _, _, hne, heq⟩ | ⟨j, _, _, _, _, _, hch, _⟩
  · by_cases hqp : q = p
    · subst hqp
      obtain rfl : nd = x := by simpa [hp] using h0
      have hc := heq rfl
      rw [hcs] at hc
      refine ⟨P.nodes.length, lt_length_of_getElem? hp, by simpa using hc, Nat.le_refl _, ?_⟩
      intro j hj
      obtain ⟨cn, c1, _, c2, c3, _⟩ := S.new j hj
      exact ⟨cn, c1, c3, by rw [c2, hi]⟩
    · have hc := hne hqp
      rw [hcs] at hc
      obtain ⟨_, a, a1, a2, a3, a4⟩ := W.children q x cs h0 hc.symm
      refine ⟨a, a1, a2, by omega, ?_⟩
      intro j hj
      obtain ⟨cn, c1, c2, c3⟩ := a4 j hj
      obtain ⟨cn', g1, _, g2, g3, _⟩ := S.pres hp c1
      exact ⟨cn', g1, g3.trans c2, by rw [g2, c3, hi]⟩
  · simp [hch] at hcs

theorem wf_layers_len : P'.layers.length = P'.depth + 1 := by
  have := W.layers_len
  rcases S.layers with ⟨_, h2, h3⟩ | ⟨_, h2, h3⟩
  · rw [h2, h3]; simp [this]
  · rw [h2, h3]; simp [this]

theorem wf_depth_le (i : Nat) (x' : Node α σ) (hx : P'.nodes[i]? = some x') :
    x'.depth ≤ P'.depth := by
  have hnd := W.depth_le p nd hp
  have : P.depth ≤ P'.depth ∧ nd.depth + 1 ≤ P'.depth := by
    rcases S.layers with ⟨h1, _, h3⟩ | ⟨h1, _, h3⟩ <;> omega
  rcases S.inv hp hx with ⟨x, h0, hd, _⟩ | ⟨j, _, _, hd, _⟩
  · have := W.depth_le i x h0; omega
  · omega

/-- membership in the new arena by depth, in terms of the old arena -/
theorem depth_iff (i h : Nat) :
    (∃ x' : Node α σ, P'.nodes[i]? = some x' ∧ x'.depth = h) ↔
      (∃ x : Node α σ, P.nodes[i]? = some x ∧ x.depth = h) ∨
      (i ∈ List.range' P.nodes.length (K P) ∧ h = nd.depth + 1) := by
  constructor
  · rintro ⟨x', hx, rfl⟩
    rcases S.inv hp hx with ⟨x, h0, hd, _⟩ | ⟨j, hj, rfl, hd, _⟩
    · exact Or.inl ⟨x, h0, hd.symm⟩
    · refine Or.inr ⟨?_, hd⟩
      rw [List.mem_range'_1]; omega
  · rintro (⟨x, h0, rfl⟩ | ⟨hi, rfl⟩)
    · obtain ⟨x', g1, g2, _⟩ := S.pres hp h0
      exact ⟨x', g1, g2⟩
    · rw [List.mem_range'_1] at hi
      obtain ⟨cn, c1, c2, _⟩ := S.new (i - P.nodes.length) (by omega)
      have : P.nodes.length + (i - P.nodes.length) = i := by omega
      rw [this] at c1
      exact ⟨cn, c1, c2⟩

theorem wf_layers_mem (hK : 1 ≤ K P) (h : Nat) (l : List Nat) (hl : P'.layers[h]? = some l) :
    l.Pairwise (· < ·) ∧ l ≠ [] ∧
      ∀ i, i ∈ l ↔ ∃ x' : Node α σ, P'.nodes[i]? = some x' ∧ x'.depth = h := by
  have hlen := W.layers_len
  have hnd := W.depth_le p nd hp
  have hnew : (List.range' P.nodes.length (K P)).Pairwise (· < ·) := List.pairwise_lt_range'
  have hnew_ne : List.range' P.nodes.length (K P) ≠ [] := by
    intro e
    have := congrArg List.length e
    simp at this; omega
  -- an old layer that receives no new ids
  have keep : ∀ l0, P.layers[h]? = some l0 → h ≠ nd.depth + 1 →
      l0.Pairwise (· < ·) ∧ l0 ≠ [] ∧
      ∀ i, i ∈ l0 ↔ ∃ x' : Node α σ, P'.nodes[i]? = some x' ∧ x'.depth = h := by
    intro l0 h0 hne
    obtain ⟨w1, w2, w3⟩ := W.layers_mem h l0 h0
    refine ⟨w1, w2, fun i => ?_⟩
    rw [S.depth_iff W hp, w3]
    constructor
    · exact Or.inl
    · rintro (hh | ⟨_, hh⟩)
      · exact hh
      · exact absurd hh hne
  rcases S.layers with ⟨h1, h2, h3⟩ | ⟨h1, h2, h3⟩
  · rw [h2, List.getElem?_append] at hl
    split at hl
    · exact keep l hl (by omega)
    · rename_i hge
      have hh : h = P.depth + 1 := by
        have := lt_length_of_getElem? hl
        simp at this; omega
      have : h - P.layers.length = 0 := by omega
      rw [this] at hl
      obtain rfl : List.range' P.nodes.length (K P) = l := by simpa using hl
      refine ⟨hnew, hnew_ne, fun i => ?_⟩
      rw [S.depth_iff W hp]
      constructor
      · intro hi; exact Or.inr ⟨hi, by omega⟩
      · rintro (⟨x, h0, hx⟩ | ⟨hi, _⟩)
        · have := W.depth_le i x h0; omega
        · exact hi
  · rw [h2, List.getElem?_modify] at hl
    by_cases hh : nd.depth + 1 = h
    · cases h0 : P.layers[h]? with
      | none => simp [h0] at hl
      | some l0 =>
        simp only [h0, hh, if_true, Option.map_eq_map, Option.map_some, Option.some.injEq] at hl
        subst hl
        obtain ⟨w1, w2, w3⟩ := W.layers_mem h l0 h0
        refine ⟨?_, by simp [w2], fun i => ?_⟩
        · rw [List.pairwise_append]
          refine ⟨w1, hnew, fun a ha b hb => ?_⟩
          obtain ⟨x, hx, _⟩ := (w3 a).1 ha
          have := lt_length_of_getElem? hx
          rw [List.mem_range'_1] at hb; omega
        · rw [S.depth_iff W hp, List.mem_append, w3]
          constructor
          · rintro (hi | hi)
            · exact Or.inl hi
            · exact Or.inr ⟨hi, hh.symm⟩
          · rintro (hi | ⟨hi, _⟩)
            · exact Or.inl hi
            · exact Or.inr hi
    · cases h0 : P.layers[h]? with
      | none => simp [h0] at hl
      | some l0 =>
        simp only [h0, hh, if_false, Option.map_eq_map, Option.map_some, Option.some.injEq] at hl
        subst hl
        exact keep l0 h0 (Ne.symm hh)

/-- **Preservation**: one legal expansion keeps the invariant. -/
theorem wf (hleaf : nd.children = none) (hK : 1 ≤ K P) : WF P' where
  root := S.wf_root W hp
  boxlen := S.wf_boxlen W hp
  parent := S.wf_parent W hp hleaf
  children := S.wf_children W hp hK
  index_pos := S.wf_index_pos W hp
  layers_len := S.wf_layers_len W hp
  layers_mem := S.wf_layers_mem W hp hK
  depth_le := S.wf_depth_le W hp

end wf
end Step
end Tree
end PyXAB
