/-
  C15.2 for POO: `get_last_point` queries between rounds are harmless, for every base learner
  whose extra pulls are harmless (`QueryHarmless`).
-/
import PyXABProofs.Lemmas.RL_Machine

namespace PyXAB
namespace RL
open Rel
set_option linter.unusedSectionVars false

/-! ### `Forall₂` plumbing -/
section forall2
variable {A B : Type} {Rr : A → B → Prop}

theorem forall₂_set : ∀ {l : List A} {l' : List B}, List.Forall₂ Rr l l' → ∀ (i : Nat) {a : A} {b : B},
    Rr a b → List.Forall₂ Rr (l.set i a) (l'.set i b)
  | _, _, .nil, _, _, _, _ => List.Forall₂.nil
  | _, _, .cons _ t, 0, _, _, hab => List.Forall₂.cons hab t
  | _, _, .cons h t, i + 1, _, _, hab => List.Forall₂.cons h (forall₂_set t i hab)

theorem forall₂_concat {l : List A} {l' : List B} (h : List.Forall₂ Rr l l') {a : A} {b : B}
    (hab : Rr a b) : List.Forall₂ Rr (l ++ [a]) (l' ++ [b]) := by
  induction h with
  | nil => exact List.Forall₂.cons hab List.Forall₂.nil
  | cons h _ ih => exact List.Forall₂.cons h ih

theorem forall₂_getElem? : ∀ {l : List A} {l' : List B}, List.Forall₂ Rr l l' → ∀ i : Nat,
    (l[i]? = none ∧ l'[i]? = none) ∨ ∃ a b, l[i]? = some a ∧ l'[i]? = some b ∧ Rr a b
  | _, _, .nil, _ => Or.inl ⟨rfl, rfl⟩
  | _, _, .cons h _, 0 => Or.inr ⟨_, _, rfl, rfl, h⟩
  | _, _, .cons _ t, i + 1 => by
    simp only [List.getElem?_cons_succ]
    exact forall₂_getElem? t i

theorem forall₂_getLast? {l : List A} {l' : List B} (h : List.Forall₂ Rr l l') :
    (l.getLast? = none ∧ l'.getLast? = none) ∨
      ∃ a b, l.getLast? = some a ∧ l'.getLast? = some b ∧ Rr a b := by
  rw [List.getLast?_eq_getElem?, List.getLast?_eq_getElem?, ← h.length_eq]
  exact forall₂_getElem? h _

theorem forall₂_refl_of {E : A → A → Prop} (hr : ∀ a, E a a) : ∀ l : List A, List.Forall₂ E l l
  | [] => List.Forall₂.nil
  | a :: l => List.Forall₂.cons (hr a) (forall₂_refl_of hr l)

theorem forall₂_symm_of {E : A → A → Prop} (hs : ∀ a b, E a b → E b a) {l l' : List A}
    (h : List.Forall₂ E l l') : List.Forall₂ E l' l := by
  induction h with
  | nil => exact List.Forall₂.nil
  | cons h _ ih => exact List.Forall₂.cons (hs _ _ h) ih

theorem forall₂_trans_of {E : A → A → Prop} (ht : ∀ a b c, E a b → E b c → E a c) :
    ∀ {l l' l'' : List A}, List.Forall₂ E l l' → List.Forall₂ E l' l'' → List.Forall₂ E l l''
  | _, _, _, .nil, .nil => List.Forall₂.nil
  | _, _, _, .cons h t, .cons h' t' => List.Forall₂.cons (ht _ _ _ h h') (forall₂_trans_of ht t t')

end forall2

section poo
variable {L α R S Pt ρ : Type} {ops : LearnerOps L α R Pt ρ} {E : L → L → Prop}

theorem pooEquiv_refl (hq : QueryHarmless ops E) (s : POO L S) : POOEquiv E s s :=
  ⟨rfl, rfl, rfl, rfl, rfl, forall₂_refl_of hq.refl _, rfl, rfl⟩

theorem pooEquiv_symm (hq : QueryHarmless ops E) {s s' : POO L S} (h : POOEquiv E s s') :
    POOEquiv E s' s :=
  ⟨h.N.symm, h.n.symm, h.phase.symm, h.counter.symm, h.algoCounter.symm,
    forall₂_symm_of hq.symm h.learners, h.V.symm, h.times.symm⟩

theorem pooEquiv_trans (hq : QueryHarmless ops E) {s s' s'' : POO L S} (h : POOEquiv E s s')
    (h' : POOEquiv E s' s'') : POOEquiv E s s'' :=
  ⟨h'.N.trans h.N, h'.n.trans h.n, h'.phase.trans h.phase, h'.counter.trans h.counter,
    h'.algoCounter.trans h.algoCounter, forall₂_trans_of hq.trans h.learners h'.learners,
    h'.V.trans h.V, h'.times.trans h.times⟩

/-- a query leaves the state in its class -/
theorem poo_lastPoint_equiv [LT S] [DecidableLT S] (hq : QueryHarmless ops E) {s s1 : POO L S}
    {v : Nat × Pt} (h : POO.lastPoint ops s = .ok (s1, v)) : POOEquiv E s s1 := by
  unfold POO.lastPoint at h
  cases ha : argmaxFirst s.V with
  | none => simp [ha] at h
  | some i =>
    simp only [ha] at h
    cases hl : s.learners[i]? with
    | none => simp [hl] at h
    | some l =>
      simp only [hl, bind, Except.bind] at h
      cases hp : ops.pull l 0 with
      | error e => simp [hp] at h
      | ok x =>
        obtain ⟨l', pt⟩ := x
        simp only [hp, pure, Except.pure, Except.ok.injEq, Prod.mk.injEq] at h
        obtain ⟨rfl, _⟩ := h
        refine ⟨rfl, rfl, rfl, rfl, rfl, ?_, rfl, rfl⟩
        have hlt : i < s.learners.length := (List.getElem?_eq_some_iff.1 hl).1
        have e : s.learners = s.learners.set i l := by
          rw [← (List.getElem?_eq_some_iff.1 hl).2, List.set_getElem_self]
        have := forall₂_set (forall₂_refl_of hq.refl s.learners) i
          (hq.symm _ _ (hq.pull_stay l 0 l' pt hp))
        rw [← e] at this
        exact this

theorem poo_queryN_equiv [LT S] [DecidableLT S] (hq : QueryHarmless ops E) :
    ∀ (q : Nat) {s s0 : POO L S}, pooQueryN ops q s = .ok s0 → POOEquiv E s s0
  | 0, s, s0, h => by
    obtain rfl := Except.ok.inj h
    exact pooEquiv_refl hq _
  | q + 1, s, s0, h => by
    simp only [pooQueryN] at h
    cases h1 : POO.lastPoint ops s with
    | error e => simp [h1] at h
    | ok x =>
      obtain ⟨s1, v⟩ := x
      simp only [h1] at h
      exact pooEquiv_trans hq (poo_lastPoint_equiv hq h1) (poo_queryN_equiv hq q h)

/-- related base results -/
theorem relRes_cases {σ ο : Type} {Rs : σ → σ → Prop} {x y : Except Err (σ × ο)}
    (h : RelRes Rs Eq x y) :
    (∃ e, x = .error e ∧ y = .error e) ∨
      ∃ a b o, x = .ok (a, o) ∧ y = .ok (b, o) ∧ Rs a b := by
  cases x with
  | error e => exact Or.inl ⟨e, rfl, RelRes.error_left h⟩
  | ok v =>
    obtain ⟨a, o⟩ := v
    obtain ⟨b, o', rfl, h1, rfl⟩ := RelRes.ok_left h
    exact Or.inr ⟨a, b, o, rfl, rfl, h1⟩

/-- `pull` respects the equivalence: same exception, or the same (index, point), the same
remaining draws, and equivalent states. -/
theorem poo_pull_resp (hq : QueryHarmless ops E) (cfg : POOCfg R S ρ) {s s' : POO L S}
    (h : POOEquiv E s s') (t : Nat) (ds : List (Draw α)) :
    RelRes (POOEquiv E) Eq (POO.pull ops cfg s t ds) (POO.pull ops cfg s' t ds) := by
  obtain ⟨N, n, phase, counter, ac, Ls, V, times⟩ := s
  obtain ⟨N', n', phase', counter', ac', Ls', V', times'⟩ := s'
  obtain ⟨h1, h2, h3, h4, h5, hL, h6, h7⟩ := h
  simp only at h1 h2 h3 h4 h5 hL h6 h7
  subst h1 h2 h3 h4 h5 h6 h7
  have hlen := hL.length_eq
  unfold POO.pull
  simp only [bind, Except.bind, pure, Except.pure]
  by_cases hc : cfg.cond N' n' = true
  · simp only [hc, if_true]
    by_cases h0 : counter' = 0
    · simp only [h0, if_true]
      cases ops.create (cfg.rhoOf N' phase') ds with
      | error e => exact rfl
      | ok x =>
        obtain ⟨l, ds'⟩ := x
        simp only [List.getLast?_concat, List.length_append, List.length_cons, List.length_nil,
          Nat.add_sub_cancel, Nat.zero_add]
        cases ops.pull l t with
        | error e => exact rfl
        | ok y =>
          obtain ⟨l', pt⟩ := y
          refine ⟨⟨rfl, rfl, rfl, rfl, rfl, ?_, rfl, rfl⟩, by rw [hlen]⟩
          simp only [hlen]
          exact forall₂_set (forall₂_concat hL (hq.refl l)) _ (hq.refl l')
    · simp only [h0, if_false]
      rcases forall₂_getLast? hL with ⟨e1, e2⟩ | ⟨a, b, e1, e2, hab⟩
      · simp only [e1, e2]; exact rfl
      · simp only [e1, e2]
        rcases relRes_cases (hq.pull_resp a b t hab) with ⟨e, r1, r2⟩ | ⟨a', b', pt, r1, r2, hab'⟩
        · simp only [r1, r2]; exact rfl
        · simp only [r1, r2]
          refine ⟨⟨rfl, rfl, rfl, rfl, rfl, ?_, rfl, rfl⟩, by rw [hlen]⟩
          simp only [hlen]
          exact forall₂_set hL _ hab'
  · simp only [hc, if_false, Bool.false_eq_true]
    cases ac' with
    | none => exact rfl
    | some ac =>
      simp only []
      rcases forall₂_getElem? hL ac with ⟨e1, e2⟩ | ⟨a, b, e1, e2, hab⟩
      · simp only [e1, e2]; exact rfl
      · simp only [e1, e2]
        rcases relRes_cases (hq.pull_resp a b t hab) with ⟨e, r1, r2⟩ | ⟨a', b', pt, r1, r2, hab'⟩
        · simp only [r1, r2]; exact rfl
        · simp only [r1, r2]
          exact ⟨⟨rfl, rfl, rfl, rfl, rfl, forall₂_set hL _ hab', rfl, rfl⟩, rfl⟩

/-- `receive` respects the equivalence. -/
theorem poo_receive_resp (hq : QueryHarmless ops E) (cfg : POOCfg R S ρ) {s s' : POO L S}
    (h : POOEquiv E s s') (t : Nat) (r : R) (ds : List (Draw α)) :
    RelRes (POOEquiv E) Eq (POO.receive ops cfg s t r ds) (POO.receive ops cfg s' t r ds) := by
  obtain ⟨N, n, phase, counter, ac, Ls, V, times⟩ := s
  obtain ⟨N', n', phase', counter', ac', Ls', V', times'⟩ := s'
  obtain ⟨h1, h2, h3, h4, h5, hL, h6, h7⟩ := h
  simp only at h1 h2 h3 h4 h5 hL h6 h7
  subst h1 h2 h3 h4 h5 h6 h7
  have hlen := hL.length_eq
  unfold POO.receive
  simp only [bind, Except.bind, pure, Except.pure]
  by_cases hc : cfg.cond N' n' = true
  · simp only [hc, if_true]
    rcases forall₂_getLast? hL with ⟨e1, e2⟩ | ⟨a, b, e1, e2, hab⟩
    · simp only [e1, e2]; exact rfl
    · simp only [e1, e2]
      cases V'.getLast? with
      | none => exact rfl
      | some v =>
        cases times'.getLast? with
        | none => exact rfl
        | some tm =>
          simp only []
          rcases relRes_cases (hq.recv_resp a b t r ds hab) with ⟨e, r1, r2⟩ | ⟨a', b', ds', r1, r2, hab'⟩
          · simp only [r1, r2]; exact rfl
          · simp only [r1, r2, hlen]
            have hL' := forall₂_set hL (Ls'.length - 1) hab'
            split_both
            all_goals exact ⟨⟨rfl, rfl, rfl, rfl, rfl, hL', rfl, rfl⟩, rfl⟩
  · simp only [hc, if_false, Bool.false_eq_true]
    cases ac' with
    | none => exact rfl
    | some ac =>
      simp only []
      rcases forall₂_getElem? hL ac with ⟨e1, e2⟩ | ⟨a, b, e1, e2, hab⟩
      · simp only [e1, e2]; exact rfl
      · simp only [e1, e2]
        cases V'[ac]? with
        | none => exact rfl
        | some v =>
          cases times'[ac]? with
          | none => exact rfl
          | some tm =>
            simp only []
            rcases relRes_cases (hq.recv_resp a b t r ds hab) with ⟨e, r1, r2⟩ | ⟨a', b', ds', r1, r2, hab'⟩
            · simp only [r1, r2]; exact rfl
            · simp only [r1, r2, List.length_set, hlen]
              have hL' := forall₂_set hL ac hab'
              split_both
              all_goals exact ⟨⟨rfl, rfl, rfl, rfl, rfl, hL', rfl, rfl⟩, rfl⟩

/-- One round with queries on the left, without queries on the right: if the left round
succeeds, so does the right one, with the same (index, point) and equivalent states. -/
theorem poo_roundQ_sim [LT S] [DecidableLT S] (hq : QueryHarmless ops E) (cfg : POOCfg R S ρ)
    {s s' : POO L S} (h : POOEquiv E s s') (x : PIn α R) {s2 : POO L S} {v : Nat × Pt}
    (hr : pooRoundQ ops cfg s x = .ok (s2, v)) :
    ∃ s2', pooRoundQ ops cfg s' { x with queries := 0 } = .ok (s2', v) ∧ POOEquiv E s2 s2' := by
  unfold pooRoundQ at hr ⊢
  cases h0 : pooQueryN ops x.queries s with
  | error e => simp [h0] at hr
  | ok s0 =>
    simp only [h0] at hr
    have hs0 : POOEquiv E s0 s' := pooEquiv_trans hq (pooEquiv_symm hq (poo_queryN_equiv hq _ h0)) h
    have hp := poo_pull_resp hq cfg hs0 x.time x.pullDraws
    cases h1 : POO.pull ops cfg s0 x.time x.pullDraws with
    | error e => simp [h1] at hr
    | ok y =>
      obtain ⟨s1, ds1, w⟩ := y
      simp only [h1] at hr
      rw [h1] at hp
      obtain ⟨s1', o', hp1, hp2, hp3⟩ := RelRes.ok_left hp
      subst hp3
      have hv := poo_receive_resp hq cfg hp2 x.time x.reward x.recvDraws
      cases h2 : POO.receive ops cfg s1 x.time x.reward x.recvDraws with
      | error e => simp [h2] at hr
      | ok z =>
        obtain ⟨s3, ds3⟩ := z
        simp only [h2, Except.ok.injEq, Prod.mk.injEq] at hr
        obtain ⟨rfl, rfl⟩ := hr
        rw [h2] at hv
        obtain ⟨s3', o'', hv1, hv2, _⟩ := RelRes.ok_left hv
        refine ⟨s3', ?_, hv2⟩
        simp only [pooQueryN, hp1, hv1]

/-- Whole runs: inserting any number of `get_last_point` queries before the rounds of a
successful run does not change the sequence of (index, point) and leads to an equivalent state. -/
theorem poo_runQ_sim [LT S] [DecidableLT S] (hq : QueryHarmless ops E) (cfg : POOCfg R S ρ) :
    ∀ (inputs : List (PIn α R)) {s s' : POO L S}, POOEquiv E s s' →
      ∀ {sf : POO L S} {os : List (Nat × Pt)}, runM (pooRoundQ ops cfg) s inputs = .ok (sf, os) →
        ∃ sf', runM (pooRoundQ ops cfg) s' (inputs.map (fun x => { x with queries := 0 })) = .ok (sf', os) ∧
          POOEquiv E sf sf'
  | [], s, s', h, sf, os, hr => by
    simp only [runM, Except.ok.injEq, Prod.mk.injEq] at hr
    obtain ⟨rfl, rfl⟩ := hr
    exact ⟨s', rfl, h⟩
  | x :: rest, s, s', h, sf, os, hr => by
    cases h1 : pooRoundQ ops cfg s x with
    | error e => simp [runM, h1] at hr
    | ok y =>
      obtain ⟨s2, v⟩ := y
      rw [runM_cons_ok h1] at hr
      cases h2 : runM (pooRoundQ ops cfg) s2 rest with
      | error e => simp [h2] at hr
      | ok z =>
        obtain ⟨s3, os'⟩ := z
        simp only [h2, Except.ok.injEq, Prod.mk.injEq] at hr
        obtain ⟨rfl, rfl⟩ := hr
        obtain ⟨s2', a1, a2⟩ := poo_roundQ_sim hq cfg h x h1
        obtain ⟨s3', b1, b2⟩ := poo_runQ_sim hq cfg rest a2 h2
        refine ⟨s3', ?_, b2⟩
        rw [List.map_cons, runM_cons_ok a1, b1]

end poo

end RL
end PyXAB
