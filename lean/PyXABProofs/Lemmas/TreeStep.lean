/-
  `Part.makeChildren` on a valid id with a well-formed draw and the correct `newlayer` flag
  never raises and realises the extensional `Step` relation.
-/
import PyXABProofs.Lemmas.TreeBox

namespace PyXAB
namespace Tree

variable {α σ : Type} [Add α] [Sub α] [Mul α] [Div α] [OfNat α 2] [NatCast α]

theorem length_newKids (k : Kind) (p : Nat) (nd : Node α σ) (s0 : σ) (d : Draw α)
    (h : DrawOKLen k nd.box.length d) :
    (Part.newKids k p nd s0 d).length = k.arity nd.box.length := by
  simp only [Part.newKids, List.length_mapIdx, length_childBoxes k _ d h]

theorem getElem?_newKids (k : Kind) (p : Nat) (nd : Node α σ) (s0 : σ) (d : Draw α)
    (h : DrawOKLen k nd.box.length d) (hi : 1 ≤ nd.index) (j : Nat)
    (hj : j < k.arity nd.box.length) :
    ∃ cn, (Part.newKids k p nd s0 d)[j]? = some cn ∧
      cn.depth = nd.depth + 1 ∧ cn.index = k.arity nd.box.length * (nd.index - 1) + j + 1 ∧
      cn.parent = some p ∧ cn.children = none ∧ cn.box.length = nd.box.length ∧ cn.st = s0 := by
  have hlen := length_childBoxes k nd.box d h
  have hj' : j < (childBoxes k nd.box d).length := by omega
  have e : (Part.newKids k p nd s0 d)[j]? = some
      { depth := nd.depth + 1, index := childIndex k nd.box.length nd.index j, parent := some p,
        children := none, box := (childBoxes k nd.box d)[j], st := s0 } := by
    simp only [Part.newKids, List.getElem?_mapIdx, List.getElem?_eq_getElem hj', Option.map_some]
  refine ⟨_, e, rfl, childIndex_eq k _ _ _ hi hj, rfl, rfl, ?_, rfl⟩
  exact length_of_mem_childBoxes k nd.box d _ (List.getElem_mem hj')

/-- The state produced by `makeChildren` (both branches), as a term. -/
def mkResult (P : Part α σ) (s0 : σ) (p : Nat) (nd : Node α σ) (d : Draw α) (nl : Bool) :
    Part α σ :=
  let kids := Part.newKids P.kind p nd s0 d
  let ids := List.range' P.nodes.length kids.length
  let nodes' := P.nodes.set p { nd with children := some ids } ++ kids
  if nl then { P with nodes := nodes', layers := P.layers ++ [ids], depth := P.depth + 1 }
  else { P with nodes := nodes', layers := P.layers.modify (nd.depth + 1) (· ++ ids) }

theorem makeChildren_step (P : Part α σ) (s0 : σ) (p : Nat) (nd : Node α σ) (d : Draw α)
    (newlayer : Bool)
    (hp : P.nodes[p]? = some nd) (hbox : nd.box.length = dimn P) (hidx : 1 ≤ nd.index)
    (hd : DrawOKLen P.kind (dimn P) d) (hlen : P.layers.length = P.depth + 1)
    (hle : nd.depth ≤ P.depth) (hfl : newlayer = decide (nd.depth ≥ P.depth)) :
    ∃ P', P.makeChildren s0 p newlayer d = .ok P' ∧ Step P P' s0 p nd := by
  have hd' : DrawOKLen P.kind nd.box.length d := by rw [hbox]; exact hd
  have hk : (Part.newKids P.kind p nd s0 d).length = K P := by
    rw [length_newKids _ _ _ _ _ hd', hbox]; rfl
  have hpl : p < P.nodes.length := (List.getElem?_eq_some_iff.1 hp).1
  refine ⟨mkResult P s0 p nd d newlayer, ?_, ?_⟩
  · unfold Part.makeChildren mkResult
    simp only [hp]
    by_cases hn : nd.depth ≥ P.depth
    · simp [hfl, hn]
    · have : nd.depth + 1 < P.layers.length := by omega
      simp [hfl, hn, this]
  · have hnodes : (mkResult P s0 p nd d newlayer).nodes =
        P.nodes.set p { nd with children := some (List.range' P.nodes.length (K P)) } ++
          Part.newKids P.kind p nd s0 d := by
      unfold mkResult; simp only [hk]; split <;> rfl
    refine ⟨?_, ?_, ?_, ?_, ?_, ?_⟩
    · unfold mkResult; split <;> rfl
    · rw [hnodes]; simp [hk]
    · intro i hip hi
      rw [hnodes, List.getElem?_append_left (by simpa using hi), List.getElem?_set_ne (Ne.symm hip)]
    · rw [hnodes, List.getElem?_append_left (by simpa using hpl), List.getElem?_set_self hpl]
    · intro j hj
      have hj' : j < P.kind.arity nd.box.length := by rw [hbox]; exact hj
      obtain ⟨cn, h1, h2, h3, h4, h5, h6, h7⟩ := getElem?_newKids P.kind p nd s0 d hd' hidx j hj'
      refine ⟨cn, ?_, h2, ?_, h4, h5, ?_, h7⟩
      · rw [hnodes, List.getElem?_append_right (by simp)]
        simpa using h1
      · rw [h3, hbox]; rfl
      · rw [h6, hbox]
    · by_cases hn : nd.depth ≥ P.depth
      · left
        refine ⟨by omega, ?_, ?_⟩ <;> (unfold mkResult; simp [hfl, hn, hk])
      · right
        refine ⟨by omega, ?_, ?_⟩ <;> (unfold mkResult; simp [hfl, hn, hk])

end Tree
end PyXAB
