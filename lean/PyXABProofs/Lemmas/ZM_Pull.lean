/-
  `Zooming.pull`: the fold `argmaxArm` returns the LAST position of maximal index.
-/
import PyXABProofs.Spec.ZoomSpec
import Mathlib.Order.Defs.LinearOrder

set_option linter.unusedSectionVars false

namespace PyXAB
namespace ZM
open Zooming

variable {α R S : Type} [LinearOrder S]

/-- one step of the fold of `argmaxArm` -/
def amStep (cfg : ZoomCfg R S) (ph : Nat) (acc : Nat × S × Option Nat) (a : Arm α S) :
    Nat × S × Option Nat :=
  if acc.2.1 ≤ idx cfg ph a then (acc.1 + 1, idx cfg ph a, some acc.1)
  else (acc.1 + 1, acc.2.1, acc.2.2)

theorem argmaxArm_eq (cfg : ZoomCfg R S) (ph : Nat) (l : List (Arm α S)) :
    argmaxArm cfg ph l = (l.foldl (amStep cfg ph) (0, cfg.negInf, none)).2.2 := rfl

theorem fold_spec (cfg : ZoomCfg R S) (ph : Nat) : ∀ (l : List (Arm α S)) (n : Nat) (mx : S)
    (bi : Option Nat), ∃ mx' bi',
      l.foldl (amStep cfg ph) (n, mx, bi) = (n + l.length, mx', bi') ∧ mx ≤ mx' ∧
      (∀ b ∈ l, idx cfg ph b ≤ mx') ∧
      ((bi' = bi ∧ mx' = mx ∧ ∀ b ∈ l, idx cfg ph b < mx) ∨
       (∃ k a, l[k]? = some a ∧ bi' = some (n + k) ∧ mx' = idx cfg ph a ∧
          ∀ j b, k < j → l[j]? = some b → idx cfg ph b < mx'))
  | [], n, mx, bi => ⟨mx, bi, rfl, le_refl _, by simp, Or.inl ⟨rfl, rfl, by simp⟩⟩
  | a :: t, n, mx, bi => by
    by_cases h : mx ≤ idx cfg ph a
    · obtain ⟨mx', bi', e, h1, h2, h3⟩ := fold_spec cfg ph t (n + 1) (idx cfg ph a) (some n)
      refine ⟨mx', bi', ?_, le_trans h h1, ?_, Or.inr ?_⟩
      · rw [List.foldl_cons]
        simp only [amStep, h, if_true, e, List.length_cons]
        congr 1; omega
      · intro b hb
        rcases List.mem_cons.1 hb with rfl | hb
        · exact h1
        · exact h2 b hb
      · rcases h3 with ⟨e1, e2, e3⟩ | ⟨k, a', e1, e2, e3, e4⟩
        · refine ⟨0, a, rfl, by simpa using e1, e2, ?_⟩
          intro j b hj hb
          obtain ⟨j, rfl⟩ : ∃ j', j = j' + 1 := ⟨j - 1, by omega⟩
          rw [List.getElem?_cons_succ] at hb
          rw [e2]
          exact e3 b (List.mem_of_getElem? hb)
        · refine ⟨k + 1, a', by simpa using e1, by rw [e2]; congr 1; omega, e3, ?_⟩
          intro j b hj hb
          obtain ⟨j, rfl⟩ : ∃ j', j = j' + 1 := ⟨j - 1, by omega⟩
          rw [List.getElem?_cons_succ] at hb
          exact e4 j b (by omega) hb
    · obtain ⟨mx', bi', e, h1, h2, h3⟩ := fold_spec cfg ph t (n + 1) mx bi
      have hlt : idx cfg ph a < mx := lt_of_not_ge h
      refine ⟨mx', bi', ?_, h1, ?_, ?_⟩
      · rw [List.foldl_cons]
        simp only [amStep, h, if_false, e, List.length_cons]
        congr 1; omega
      · intro b hb
        rcases List.mem_cons.1 hb with rfl | hb
        · exact le_trans (le_of_lt hlt) h1
        · exact h2 b hb
      · rcases h3 with ⟨e1, e2, e3⟩ | ⟨k, a', e1, e2, e3, e4⟩
        · left
          refine ⟨e1, e2, ?_⟩
          intro b hb
          rcases List.mem_cons.1 hb with rfl | hb
          · exact hlt
          · exact e3 b hb
        · right
          refine ⟨k + 1, a', by simpa using e1, by rw [e2]; congr 1; omega, e3, ?_⟩
          intro j b hj hb
          obtain ⟨j, rfl⟩ : ∃ j', j = j' + 1 := ⟨j - 1, by omega⟩
          rw [List.getElem?_cons_succ] at hb
          exact e4 j b (by omega) hb

/-- `pull` from a state with at least one arm and `negInf` below every index: never raises,
changes only `best`, and returns the last position of maximal index. -/
theorem pull_spec (cfg : ZoomCfg R S) (s : Zooming α S) (hne : s.arms ≠ [])
    (hbot : NegInfLe cfg s) :
    ∃ i a, s.arms[i]? = some a ∧ pull cfg s = .ok ({ s with best := some i }, i, a.pt) ∧
      (∀ b ∈ s.arms, idx cfg s.phase b ≤ idx cfg s.phase a) ∧
      ∀ j b, i < j → s.arms[j]? = some b → idx cfg s.phase b < idx cfg s.phase a := by
  obtain ⟨mx', bi', e, _, h2, h3⟩ := fold_spec cfg s.phase s.arms 0 cfg.negInf none
  rcases h3 with ⟨_, _, e3⟩ | ⟨k, a, e1, e2, e3, e4⟩
  · exfalso
    obtain ⟨b, hb⟩ := List.exists_mem_of_ne_nil _ hne
    exact absurd (hbot b hb) (not_le_of_gt (e3 b hb))
  · refine ⟨k, a, e1, ?_, fun b hb => e3 ▸ h2 b hb, fun j b hj hb => e3 ▸ e4 j b hj hb⟩
    have : argmaxArm cfg s.phase s.arms = some k := by
      rw [argmaxArm_eq, e, e2]; simp
    simp only [pull, this, e1]

end ZM
end PyXAB
