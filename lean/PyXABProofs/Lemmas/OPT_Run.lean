/-
  Optimism of DOO, run part:

  * `FInv f P`: the reward stored in every evaluated cell is `f` of the cell's point;
  * `event_optimism`: in a tree satisfying `GInv` and `FInv` the score of an expansion event
    (facts `EvOK` of C08) is at least `f xstar`;
  * `OInv`: the invariant of a noiseless run between rounds, kept by every round;
  * `runRoundsT_optimism`: every expansion event of a noiseless run is optimistic;
  * erasure of the instrumented run, and existence of noiseless runs for every schedule.
-/
import PyXABProofs.Lemmas.OPT_Geo

set_option linter.unusedSectionVars false
set_option linter.unusedVariables false

namespace PyXAB
namespace OPT
open _root_.PyXAB.Tree TBA SW TT ZM

/-! ### Stored rewards are values of `f` -/
section finv
variable {α S : Type} [Add α] [Div α] [OfNat α 2]

/-- The reward stored in every evaluated cell is `f` of the point of that cell. -/
def FInv (f : List α → S) (P : Part α (SwSt S)) : Prop :=
  ∀ (i : Nat) (nd : Node α (SwSt S)), P.nodes[i]? = some nd → nd.st.visited = true →
    nd.st.reward = f (Box.cpoint nd.box)

theorem FInv.init (f : List α → S) (k : Kind) (root : Box α) {s0 : SwSt S}
    (h0 : s0.visited = false) : FInv f (Part.init k root s0) := by
  intro i nd hi hv
  have hlt := lt_length_of_getElem? hi
  simp only [Part.init, List.length_cons, List.length_nil] at hlt
  obtain rfl : i = 0 := by omega
  simp only [Part.init, List.getElem?_cons_zero, Option.some.injEq] at hi
  subst hi
  rw [h0] at hv; cases hv

/-- growth of the tree which keeps flags and rewards of old cells, new cells unevaluated -/
theorem FInv.ext {f : List α → S} {P P' : Part α (SwSt S)} {s0 : SwSt S} (hF : FInv f P)
    (hext : Ext SameVR s0 P P') (h0 : s0.visited = false) : FInv f P' := by
  intro i nd' hi hv
  by_cases hlt : i < P.nodes.length
  · have hget : P.nodes[i]? = some P.nodes[i] := List.getElem?_eq_getElem hlt
    obtain ⟨nd'', b1, _, _, _, b5, _, b7⟩ := hext.old i _ hget
    obtain rfl := getElem?_inj b1 hi
    rw [b7.2, b5]
    exact hF i _ hget (by rw [← b7.1]; exact hv)
  · have := hext.new i nd' (Nat.le_of_not_lt hlt) hi
    rw [this.1, h0] at hv; cases hv

/-- one round: the handed-out cell `v` receives `f` of its point -/
theorem FInv.round {f : List α → S} {Pb : Part α (SwSt S)} {v : Nat} {nd : Node α (SwSt S)}
    {r : S} (hF : FInv f Pb) (hv : Pb.nodes[v]? = some nd) (hr : r = f (Box.cpoint nd.box)) :
    FInv f (setReward (mark Pb v) v r) := by
  intro i x hi hvis
  rw [getElem?_round] at hi
  cases h0 : Pb.nodes[i]? with
  | none => simp [h0] at hi
  | some y =>
    simp only [h0, Option.map_some, Option.some.injEq] at hi
    by_cases e : v = i
    · subst e
      obtain rfl := getElem?_inj hv h0
      simp only [if_true] at hi
      subst hi
      exact hr
    · simp only [e, if_false] at hi
      subst hi
      exact hF i _ h0 hvis

end finv

/-! ### A leaf box comes from a leaf -/
section leaf
variable {α σ : Type}

theorem mem_leafBoxes {P : Part α σ} {c : Box α} (h : c ∈ leafBoxes P) :
    ∃ (w : Nat) (nd : Node α σ), P.nodes[w]? = some nd ∧ nd.children = none ∧ nd.box = c := by
  unfold leafBoxes at h
  obtain ⟨nd, hnd, rfl⟩ := List.mem_map.1 h
  obtain ⟨hmem, hl⟩ := List.mem_filter.1 hnd
  obtain ⟨w, hw⟩ := List.mem_iff_getElem?.1 hmem
  refine ⟨w, nd, hw, ?_, rfl⟩
  simpa [isLeafNode] using hl

end leaf

namespace DOO
open PyXAB.DOO
variable {α S : Type} [Field α] [LinearOrder α] [IsStrictOrderedRing α]
variable [LinearOrder S] [Inhabited S]

/-! ### One expansion event -/

/-- **Optimism of one expansion**: in a tree whose leaves tile the domain and whose evaluated
cells store `f` of their point, the expanded cell — the maximiser of `b = bOf reward delta(depth)`
over all leaves, all of them evaluated — has a score at least `f xstar`, as soon as `delta` is
valid for `f` along `xstar ∈ root`. -/
theorem event_optimism (cfg : DOOCfg α S) (hst : DeltaStable cfg) {k : Kind} {root : Box α}
    {f : List α → S} {xstar : List α} (hx : Box.Mem root xstar)
    (hδ : DeltaValid cfg k root f xstar) {ev : Ev α (SwSt S) S} (hev : EvOK cfg ev)
    (hG : GInv k root ev.before) (hF : FInv f ev.before) : f xstar ≤ ev.score := by
  -- the leaf whose box contains `xstar`
  obtain ⟨c, hc, hmem⟩ := (hG.tiles.2.1 xstar).1 hx
  obtain ⟨w, nd, hw, hleaf, rfl⟩ := mem_leafBoxes hc
  have W := hev.pinv.wf
  -- it has been evaluated
  have hvis : nd.st.visited = true := by
    obtain ⟨lm, q1, q2⟩ := WF_mem_layer W hw
    have := hev.low nd.depth lm w (by have := W.depth_le w nd hw; omega) q1 q2
    exact unvisitedLeaf_eq_false_iff.1 this nd hw hleaf
  -- its stored `b` is `bOf (f centre) delta(depth)`
  obtain ⟨δ, hd, hb⟩ := expansion_scores cfg hst hev w nd hw hleaf
  have h1 : f xstar ≤ nd.st.b := by
    rw [hb, hF w nd hw hvis]
    exact hδ ev.before w nd δ W hG.cells hw hleaf hmem hd
  -- the expanded cell maximises `b` over all leaves
  have h2 : nd.st.b ≤ ev.score :=
    hev.best.le (WF_mem_flatten W hw) (leafScore_eq_some_iff.2 ⟨nd, hw, hleaf, rfl⟩)
  exact le_trans h1 h2

/-! ### The invariant of a noiseless run -/

/-- Invariant of a noiseless run of DOO on `root`, between rounds. -/
structure OInv (cfg : DOOCfg α S) (k : Kind) (root : Box α) (f : List α → S) (s : DOO α S) :
    Prop where
  inv : Inv cfg s
  geo : GInv k root s.P
  rew : FInv f s.P

theorem OInv.init (cfg : DOOCfg α S) (k : Kind) {root : Box α} (hroot : Box.Valid root)
    (f : List α → S) : OInv cfg k root f (init cfg k root) :=
  ⟨(init_inv cfg k root).1, GInv.init hroot _, FInv.init f k root rfl⟩

theorem OInv.draws {cfg : DOOCfg α S} {k : Kind} {root : Box α} {f : List α → S} {s : DOO α S}
    (hO : OInv cfg k root f s) {ds : List (Draw α)} (h : ∀ d ∈ ds, DrawOKLen k root.length d) :
    ∀ d ∈ ds, DrawOKLen s.P.kind (dimn s.P) d := by
  rw [hO.geo.dom.kind, dimn_of_boxInv hO.inv.pinv.wf hO.geo.dom.box]
  exact h

/-- **Every expansion of a `pull` from an invariant state is optimistic.** -/
theorem pullT_optimism (cfg : DOOCfg α S) (hbot : ∀ x, cfg.negInf ≤ x) (hst : DeltaStable cfg)
    {k : Kind} {root : Box α} {f : List α → S} {xstar : List α} (hx : Box.Mem root xstar)
    (hδ : DeltaValid cfg k root f xstar) {s s' : DOO α S} {t : Nat} {ds ds' : List (Draw α)}
    {v : Nat} {tr : List (Ev α (SwSt S) S)} (hO : OInv cfg k root f s)
    (hds : ∀ d ∈ ds, DrawOKLen k root.length d) (hE : EvDraws k root ds tr)
    (h : pullT cfg s t ds = .ok (s', ds', v, tr)) :
    GInv k root s'.P ∧ ∀ ev ∈ tr, f xstar ≤ ev.score := by
  obtain ⟨_, _, _, hevs⟩ := pull_expansions cfg hbot hO.inv (hO.draws hds) h
  have hleaf : ∀ ev ∈ tr, ∃ nd, ev.before.nodes[ev.id]? = some nd ∧ nd.children = none := by
    intro ev hev
    obtain ⟨nd, n1, n2, _⟩ := (hevs ev hev).1.node
    exact ⟨nd, n1, n2⟩
  obtain ⟨g1, g2⟩ := pullT_geo cfg hO.geo hleaf hE h
  refine ⟨g1, fun ev hev => ?_⟩
  obtain ⟨e1, _, e3⟩ := hevs ev hev
  exact event_optimism cfg hst hx hδ e1 (g2 ev hev) (hO.rew.ext e3 rfl)

/-- One noiseless round keeps the invariant. -/
theorem round_OInv (cfg : DOOCfg α S) {k : Kind} {root : Box α} {f : List α → S}
    {s s1 s2 : DOO α S} {x : Input α S} {v : Nat} {ds' : List (Draw α)}
    {tr : List (Ev α (SwSt S) S)} {Pb : Part α (SwSt S)} (hO : OInv cfg k root f s)
    (hG1 : GInv k root s1.P) (hp : RoundPost cfg s x s2 v s1 ds' tr Pb)
    (hr : x.2.2 = f (ptOf s1.P v)) : OInv cfg k root f s2 := by
  obtain ⟨nd, n1, _, _⟩ := hp.post.node
  refine ⟨hp.inv2, ?_, ?_⟩
  · rw [hp.eq2]
    show GInv k root (s1.P.modifySt v (fun st => { st with reward := x.2.2 }))
    exact hG1.of_prel (Geo.modifySt s1.P v _)
  · rw [hp.P2]
    refine (hO.rew.ext hp.post.ext rfl).round n1 ?_
    rw [hr]
    have : s1.P.nodes[v]? = some { nd with st := { nd.st with visited := true } } := by
      rw [hp.post.marked]; exact mark_node_self n1
    simp only [ptOf, boxOf, this]

/-- the `round` underlying a successful `roundT` -/
theorem round_of_roundT (cfg : DOOCfg α S) {s s2 : DOO α S} {x : Input α S} {v : Nat}
    {tr : List (Ev α (SwSt S) S)} (h : roundT cfg s x = .ok (s2, v, tr)) :
    ∃ s1 ds1, pullT cfg s x.1 x.2.1 = .ok (s1, ds1, v, tr) ∧
      pull cfg s x.1 x.2.1 = .ok (s1, ds1, v) ∧ receive s1 x.2.2 = .ok s2 ∧
      round cfg s x = .ok (s2, v) := by
  unfold roundT at h
  cases hp : pullT cfg s x.1 x.2.1 with
  | error e => simp [hp] at h
  | ok res =>
    obtain ⟨s1, ds1, v1, tr1⟩ := res
    simp only [hp] at h
    cases hr : receive s1 x.2.2 with
    | error e => simp [hr] at h
    | ok s2' =>
      simp only [hr, Except.ok.injEq, Prod.mk.injEq] at h
      obtain ⟨rfl, rfl, rfl⟩ := h
      have hpull := (pull_ok_iff cfg s x.1 x.2.1 s1 ds1 v1).2 ⟨tr1, hp⟩
      refine ⟨s1, ds1, rfl, hpull, hr, ?_⟩
      unfold round
      simp only [hpull, hr]

/-- **Every expansion event of a noiseless run is optimistic** (from any invariant state). -/
theorem runRoundsT_optimism (cfg : DOOCfg α S) (hbot : ∀ x, cfg.negInf ≤ x)
    (hst : DeltaStable cfg) {k : Kind} {root : Box α} {f : List α → S} {xstar : List α}
    (hx : Box.Mem root xstar) (hδ : DeltaValid cfg k root f xstar) :
    ∀ (inputs : List (Input α S)) (s s' : DOO α S) (H : List (Nat × S))
      (evs : List (Ev α (SwSt S) S)), OInv cfg k root f s →
      (∀ x ∈ inputs, ∀ d ∈ x.2.1, DrawOKLen k root.length d) →
      TT.DOO.GoodDraws cfg k root s inputs → Noiseless cfg f s inputs →
      runRoundsT cfg s inputs = .ok (s', H, evs) →
      OInv cfg k root f s' ∧ ∀ ev ∈ evs, f xstar ≤ ev.score
  | [], s, s', H, evs, hO, _, _, _, hrun => by
    simp only [runRoundsT, Except.ok.injEq, Prod.mk.injEq] at hrun
    obtain ⟨rfl, rfl, rfl⟩ := hrun
    exact ⟨hO, by simp⟩
  | x :: rest, s, s', H, evs, hO, hds, hG, hN, hrun => by
    unfold runRoundsT at hrun
    cases hr : roundT cfg s x with
    | error e => simp [hr] at hrun
    | ok res =>
      obtain ⟨s2, v, tr⟩ := res
      simp only [hr] at hrun
      cases hrec : runRoundsT cfg s2 rest with
      | error e => simp [hrec] at hrun
      | ok res =>
        obtain ⟨s3, H3, evs3⟩ := res
        simp only [hrec, Except.ok.injEq, Prod.mk.injEq] at hrun
        obtain ⟨rfl, rfl, rfl⟩ := hrun
        obtain ⟨s1, ds1, hpT, hpull, hrecv, hround⟩ := round_of_roundT cfg hr
        have hdsx := hds x (List.mem_cons_self ..)
        obtain ⟨hE, hG'⟩ := hG s1 ds1 v tr hpT
        obtain ⟨hN1, hN'⟩ := hN s1 ds1 v hpull
        obtain ⟨hG1, hopt⟩ := pullT_optimism cfg hbot hst hx hδ hO hdsx hE hpT
        obtain ⟨s1', ds', tr', Pb, hp⟩ := round_spec cfg hbot hO.inv (hO.draws hdsx) hround
        have heq := hp.pullT
        rw [hpT] at heq
        simp only [Except.ok.injEq, Prod.mk.injEq] at heq
        obtain ⟨rfl, rfl, _, rfl⟩ := heq
        have hO2 : OInv cfg k root f s2 := round_OInv cfg hO hG1 hp hN1
        obtain ⟨a, b⟩ := runRoundsT_optimism cfg hbot hst hx hδ rest s2 s3 H3 evs3 hO2
          (fun y hy => hds y (List.mem_cons_of_mem _ hy)) (hG' s2 hrecv) (hN' s2 hrecv) hrec
        refine ⟨a, fun ev hev => ?_⟩
        rcases List.mem_append.1 hev with hev | hev
        · exact hopt ev hev
        · exact b ev hev

end DOO

/-! ### Erasure of the instrumented run; noiseless runs exist -/
namespace DOO
open PyXAB.DOO
variable {α S : Type} [Add α] [Sub α] [Mul α] [Div α] [OfNat α 2] [NatCast α]
variable [LinearOrder S] [Inhabited S]

theorem round_eq (cfg : DOOCfg α S) (s : DOO α S) (x : Input α S) :
    round cfg s x = (roundT cfg s x).map (fun y => (y.1, y.2.1)) := by
  unfold round roundT
  rw [pull_eq]
  cases pullT cfg s x.1 x.2.1 with
  | error e => rfl
  | ok r =>
    obtain ⟨s1, ds1, v, tr⟩ := r
    simp only [Except.map]
    cases receive s1 x.2.2 <;> rfl

/-- **Erasure**: forgetting the events of `runRoundsT` gives the documented loop `runRounds`. -/
theorem runRounds_eq (cfg : DOOCfg α S) :
    ∀ (inputs : List (Input α S)) (s : DOO α S),
      runRounds cfg s inputs = (runRoundsT cfg s inputs).map (fun y => (y.1, y.2.1))
  | [], s => rfl
  | x :: rest, s => by
    unfold runRounds runRoundsT
    rw [round_eq]
    cases roundT cfg s x with
    | error e => rfl
    | ok r =>
      obtain ⟨s1, v, tr⟩ := r
      simp only [Except.map]
      rw [runRounds_eq cfg rest s1]
      cases runRoundsT cfg s1 rest with
      | error e => rfl
      | ok r2 => rfl

theorem runRounds_ok_iff (cfg : DOOCfg α S) (inputs : List (Input α S)) (s s' : DOO α S)
    (H : List (Nat × S)) :
    runRounds cfg s inputs = .ok (s', H) ↔ ∃ evs, runRoundsT cfg s inputs = .ok (s', H, evs) := by
  rw [runRounds_eq]
  cases runRoundsT cfg s inputs with
  | error e => simp [Except.map]
  | ok r =>
    obtain ⟨a, b, c⟩ := r
    simp only [Except.map, Except.ok.injEq, Prod.mk.injEq]
    constructor
    · rintro ⟨rfl, rfl⟩; exact ⟨c, rfl, rfl, rfl⟩
    · rintro ⟨_, rfl, rfl, _⟩; exact ⟨rfl, rfl⟩

/-- **Noiseless runs exist**: for every schedule `xs` of (time, offered draws) — at least one
well-formed draw per round — feeding back `f` of the handed-out point gives a successful
noiseless run of that schedule (given that `delta` never raises). -/
theorem exists_noiseless (cfg : DOOCfg α S) (hbot : ∀ x, cfg.negInf ≤ x) (hδ : DeltaOK cfg)
    (f : List α → S) :
    ∀ (xs : List (Nat × List (Draw α))) (s : DOO α S), Inv cfg s →
      (∀ x ∈ xs, 1 ≤ x.2.length ∧ ∀ d ∈ x.2, DrawOKLen s.P.kind (dimn s.P) d) →
      ∃ inputs : List (Input α S), inputs.map (fun x => (x.1, x.2.1)) = xs ∧
        Noiseless cfg f s inputs ∧ ∃ s' H, runRounds cfg s inputs = .ok (s', H)
  | [], s, _, _ => ⟨[], rfl, trivial, s, [], rfl⟩
  | x :: rest, s, hI, hxs => by
    obtain ⟨hl, hds⟩ := hxs x (List.mem_cons_self ..)
    obtain ⟨s1, ds1, v, hpull, _, _⟩ := pull_total cfg hbot hδ x.1 hI hl hds
    obtain ⟨hI1, hc1, _, hk1, hd1⟩ := pull_Inv cfg hbot hI hds hpull
    obtain ⟨s2, hrecv, hI2⟩ := receive_total cfg hI1 hc1 (f (ptOf s1.P v))
    obtain ⟨c, _, hP2, _⟩ := receive_frame hrecv
    have hk2 : s2.P.kind = s.P.kind := by rw [hP2]; exact hk1
    have hd2 : dimn s2.P = dimn s.P := by
      rw [hP2]; exact (PRel_modifySt s1.P c _).dimn_eq.trans hd1
    obtain ⟨inputs, hmap, hN, s', H, hrun⟩ := exists_noiseless cfg hbot hδ f rest s2 hI2
      (fun y hy => by rw [hk2, hd2]; exact hxs y (List.mem_cons_of_mem _ hy))
    refine ⟨(x.1, x.2, f (ptOf s1.P v)) :: inputs, by simp [hmap], ?_, s',
      (v, f (ptOf s1.P v)) :: H, ?_⟩
    · intro s1' ds1' v' hp'
      rw [hpull] at hp'
      simp only [Except.ok.injEq, Prod.mk.injEq] at hp'
      obtain ⟨rfl, rfl, rfl⟩ := hp'
      refine ⟨rfl, fun s2' h2 => ?_⟩
      rw [hrecv] at h2
      simp only [Except.ok.injEq] at h2
      subst h2
      exact hN
    · unfold runRounds round
      simp only [hpull, hrecv, hrun]

/-- An executable check of `Noiseless` (for concrete runs). -/
def noiselessCheck (cfg : DOOCfg α S) (f : List α → S) : DOO α S → List (Input α S) → Bool
  | _, [] => true
  | s, x :: rest =>
    match pull cfg s x.1 x.2.1 with
    | .error _ => true
    | .ok (s1, _, v) =>
      decide (x.2.2 = f (ptOf s1.P v)) &&
        match receive s1 x.2.2 with
        | .error _ => true
        | .ok s2 => noiselessCheck cfg f s2 rest

theorem noiseless_of_check (cfg : DOOCfg α S) (f : List α → S) :
    ∀ (inputs : List (Input α S)) (s : DOO α S),
      noiselessCheck cfg f s inputs = true → Noiseless cfg f s inputs
  | [], _, _ => trivial
  | x :: rest, s, h => by
    intro s1 ds1 v hp
    unfold noiselessCheck at h
    simp only [hp, Bool.and_eq_true, decide_eq_true_eq] at h
    refine ⟨h.1, fun s2 h2 => ?_⟩
    have h3 := h.2
    simp only [h2] at h3
    exact noiseless_of_check cfg f rest s2 h3

end DOO
end OPT
end PyXAB
