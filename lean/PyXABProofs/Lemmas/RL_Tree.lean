/-
  C16.2: the partition operations commute with mapping the boxes of all nodes, when the map
  commutes with the child-box computation.  Also the generic plumbing (`modifySt`, folds)
  used by the algorithm-level simulations.
-/
import PyXABProofs.Lemmas.RL_Geom

namespace PyXAB
namespace RL
open Rel

variable {α σ : Type}

/-- `g` (on boxes) and `gd` (on draws) commute with the child-box computation of every
partition class, and `g` keeps the dimension. -/
structure BoxEquivariant [Add α] [Sub α] [Mul α] [Div α] [OfNat α 2] [NatCast α]
    (g : Box α → Box α) (gd : Draw α → Draw α) : Prop where
  len : ∀ b, (g b).length = b.length
  kids : ∀ k b d, childBoxes k (g b) (gd d) = (childBoxes k b d).map g

theorem aff_boxEquivariant {α : Type} [Field α] [LinearOrder α] [IsStrictOrderedRing α]
    (φ : Aff α) : BoxEquivariant φ.box φ.draw :=
  ⟨aff_box_length φ, aff_childBoxes φ⟩

/-! ### list plumbing -/

/-- normal form of `decide (a ≥ b)` which does not mention the `Decidable` instance (used to
align the two sides of a simulation after unfolding) -/
theorem decide_ge_eq_ble (a b : Nat) [inst : Decidable (a ≥ b)] : decide (a ≥ b) = Nat.ble b a := by
  by_cases h : a ≥ b
  · simp only [h, decide_true]; exact (Nat.ble_eq_true_of_le h).symm
  · simp only [h, decide_false]
    cases hb : Nat.ble b a with
    | false => rfl
    | true => exact absurd (Nat.le_of_ble_eq_true hb) h

theorem map_modify' {β γ : Type} (f : β → γ) (F : β → β) (F' : γ → γ)
    (h : ∀ x, F' (f x) = f (F x)) (l : List β) (i : Nat) :
    (l.map f).modify i F' = (l.modify i F).map f := by
  apply List.ext_getElem?
  intro j
  simp only [List.getElem?_modify, List.getElem?_map]
  cases l[j]? with
  | none => rfl
  | some x =>
    simp only [Option.map_some]
    split <;> simp [h]

theorem foldl_comm {β γ δ : Type} (m : β → γ) (step : β → δ → β) (step' : γ → δ → γ)
    (h : ∀ b x, step' (m b) x = m (step b x)) (l : List δ) (b : β) :
    l.foldl step' (m b) = m (l.foldl step b) := by
  induction l generalizing b with
  | nil => rfl
  | cons x l ih => simp only [List.foldl_cons, h, ih]

theorem foldlM_comm {β γ δ ε : Type} (m : β → γ) (step : β → δ → Except ε β)
    (step' : γ → δ → Except ε γ)
    (h : ∀ b x, step' (m b) x = mapRes1 m (step b x)) (l : List δ) (b : β) :
    l.foldlM step' (m b) = mapRes1 m (l.foldlM step b) := by
  induction l generalizing b with
  | nil => rfl
  | cons x l ih =>
    simp only [List.foldlM_cons, h]
    cases step b x with
    | error e => rfl
    | ok b' => exact ih b'

/-! ### `partMapBox` basics -/

@[simp] theorem partMapBox_kind (g : Box α → Box α) (P : Part α σ) : (partMapBox g P).kind = P.kind := rfl
@[simp] theorem partMapBox_layers (g : Box α → Box α) (P : Part α σ) :
    (partMapBox g P).layers = P.layers := rfl
@[simp] theorem partMapBox_depth (g : Box α → Box α) (P : Part α σ) :
    (partMapBox g P).depth = P.depth := rfl
@[simp] theorem partMapBox_length (g : Box α → Box α) (P : Part α σ) :
    (partMapBox g P).nodes.length = P.nodes.length := by
  simp only [partMapBox, List.length_map]

/-- `partMapBox_depth` with a proof which is not `rfl`: `simp` then rewrites with it through
congruence and re-synthesizes the `Decidable` instances of tests which mention the depth (a
`rfl`-lemma is applied by `dsimp`, which leaves stale instances behind). -/
theorem partMapBox_depth' (g : Box α → Box α) (P : Part α σ) :
    (partMapBox g P).depth = P.depth := by
  cases P; rfl

theorem partMapBox_getElem? (g : Box α → Box α) (P : Part α σ) (i : Nat) :
    (partMapBox g P).nodes[i]? = (P.nodes[i]?).map (nodeMapBox g) := by
  simp only [partMapBox, List.getElem?_map]

@[simp] theorem nodeMapBox_depth (g : Box α → Box α) (nd : Node α σ) : (nodeMapBox g nd).depth = nd.depth := rfl
@[simp] theorem nodeMapBox_index (g : Box α → Box α) (nd : Node α σ) : (nodeMapBox g nd).index = nd.index := rfl
@[simp] theorem nodeMapBox_parent (g : Box α → Box α) (nd : Node α σ) :
    (nodeMapBox g nd).parent = nd.parent := rfl
@[simp] theorem nodeMapBox_children (g : Box α → Box α) (nd : Node α σ) :
    (nodeMapBox g nd).children = nd.children := rfl
@[simp] theorem nodeMapBox_st (g : Box α → Box α) (nd : Node α σ) : (nodeMapBox g nd).st = nd.st := rfl
@[simp] theorem nodeMapBox_box (g : Box α → Box α) (nd : Node α σ) : (nodeMapBox g nd).box = g nd.box := rfl

/-- non-`rfl` versions (see `partMapBox_depth'`) -/
theorem nodeMapBox_children' (g : Box α → Box α) (nd : Node α σ) :
    (nodeMapBox g nd).children = nd.children := by cases nd; rfl
theorem nodeMapBox_depth' (g : Box α → Box α) (nd : Node α σ) :
    (nodeMapBox g nd).depth = nd.depth := by cases nd; rfl
theorem nodeMapBox_st' (g : Box α → Box α) (nd : Node α σ) :
    (nodeMapBox g nd).st = nd.st := by cases nd; rfl

theorem partMapBox_stOf [Inhabited σ] (g : Box α → Box α) (P : Part α σ) (i : Nat) :
    (partMapBox g P).stOf i = P.stOf i := by
  unfold Part.stOf
  rw [partMapBox_getElem?]
  cases P.nodes[i]? with
  | none => rfl
  | some nd => rfl

theorem partMapBox_isLeaf (g : Box α → Box α) (P : Part α σ) (i : Nat) :
    (partMapBox g P).isLeaf i = P.isLeaf i := by
  unfold Part.isLeaf
  rw [partMapBox_getElem?]
  cases P.nodes[i]? with
  | none => rfl
  | some nd => rfl

/-- node-wise updates which do not look at the box commute with `partMapBox` -/
theorem partMapBox_modifyNode (g : Box α → Box α) (P : Part α σ) (i : Nat)
    (F : Node α σ → Node α σ) (h : ∀ nd, F (nodeMapBox g nd) = nodeMapBox g (F nd)) :
    (partMapBox g P).modifyNode i F = partMapBox g (P.modifyNode i F) := by
  simp only [Part.modifyNode, partMapBox]
  rw [map_modify' (nodeMapBox g) F F h]

theorem partMapBox_modifySt (g : Box α → Box α) (P : Part α σ) (i : Nat) (f : σ → σ) :
    (partMapBox g P).modifySt i f = partMapBox g (P.modifySt i f) :=
  partMapBox_modifyNode g P i _ (fun _ => rfl)

theorem partMapBox_init (g : Box α → Box α) (k : Kind) (domain : Box α) (s0 : σ) :
    partMapBox g (Part.init k domain s0) = Part.init k (g domain) s0 := rfl

/-! ### C16.2: `make_children`, `expand`, `deepen` -/
section mk
variable [Add α] [Sub α] [Mul α] [Div α] [OfNat α 2] [NatCast α]
variable {g : Box α → Box α} {gd : Draw α → Draw α}

theorem newKids_map (hg : BoxEquivariant g gd) (k : Kind) (p : Nat) (nd : Node α σ) (s0 : σ)
    (d : Draw α) :
    Part.newKids k p (nodeMapBox g nd) s0 (gd d) = (Part.newKids k p nd s0 d).map (nodeMapBox g) := by
  unfold Part.newKids
  apply List.ext_getElem?
  intro j
  simp only [nodeMapBox_box, hg.kids, hg.len, nodeMapBox_depth, nodeMapBox_index,
    List.getElem?_mapIdx, List.getElem?_map, Option.map_map]
  cases (childBoxes k nd.box d)[j]? with
  | none => rfl
  | some b => rfl

theorem makeChildren_map (hg : BoxEquivariant g gd) (P : Part α σ) (s0 : σ) (p : Nat) (nl : Bool)
    (d : Draw α) :
    (partMapBox g P).makeChildren s0 p nl (gd d) = mapRes1 (partMapBox g) (P.makeChildren s0 p nl d) := by
  unfold Part.makeChildren
  rw [partMapBox_getElem?]
  cases h : P.nodes[p]? with
  | none => rfl
  | some nd =>
    simp only [Option.map_some, partMapBox_kind, partMapBox_length, partMapBox_layers,
      partMapBox_depth, nodeMapBox_depth, newKids_map hg, List.length_map]
    cases nl with
    | true =>
      simp only [if_true, mapRes1, partMapBox, List.map_append, List.map_set]
      rfl
    | false =>
      simp only [Bool.false_eq_true, if_false]
      split
      · simp only [mapRes1, partMapBox, List.map_append, List.map_set]
        rfl
      · rfl

omit [Add α] [Sub α] [Mul α] [Div α] [OfNat α 2] [NatCast α] in
theorem popDraw_map (gd : Draw α → Draw α) (ds : List (Draw α)) :
    Part.popDraw (ds.map gd) = mapRes gd (List.map gd) (Part.popDraw ds) := by
  cases ds with
  | nil => rfl
  | cons d ds => rfl

theorem makeChildrenD_map (hg : BoxEquivariant g gd) (P : Part α σ) (s0 : σ) (p : Nat) (nl : Bool)
    (ds : List (Draw α)) :
    (partMapBox g P).makeChildrenD s0 p nl (ds.map gd) =
      mapRes (partMapBox g) (List.map gd) (P.makeChildrenD s0 p nl ds) := by
  unfold Part.makeChildrenD
  cases ds with
  | nil => rfl
  | cons d ds =>
    simp only [List.map_cons, Part.popDraw, bind, Except.bind, makeChildren_map hg]
    cases P.makeChildren s0 p nl d with
    | error e => rfl
    | ok P' => rfl

theorem expand_map (hg : BoxEquivariant g gd) (P : Part α σ) (s0 : σ) (p : Nat)
    (ds : List (Draw α)) :
    (partMapBox g P).expand s0 p (ds.map gd) =
      mapRes (partMapBox g) (List.map gd) (P.expand s0 p ds) := by
  unfold Part.expand
  rw [partMapBox_getElem?]
  cases P.nodes[p]? with
  | none => rfl
  | some nd => exact makeChildrenD_map hg P s0 p _ ds

theorem deepenLoop_map (hg : BoxEquivariant g gd) (s0 : σ) (depth0 : Nat) :
    ∀ (fuel i : Nat) (P : Part α σ) (ds : List (Draw α)),
      Part.deepenLoop s0 depth0 fuel i (partMapBox g P) (ds.map gd) =
        mapRes (partMapBox g) (List.map gd) (Part.deepenLoop s0 depth0 fuel i P ds)
  | 0, _, _, _ => rfl
  | fuel + 1, i, P, ds => by
    simp only [Part.deepenLoop, partMapBox_layers]
    cases P.layers[depth0]? with
    | none => rfl
    | some layer =>
      simp only []
      cases layer[i]? with
      | none => rfl
      | some p =>
        simp only [bind, Except.bind, makeChildrenD_map hg]
        cases P.makeChildrenD s0 p (i == 0) ds with
        | error e => rfl
        | ok r =>
          obtain ⟨P', ds'⟩ := r
          exact deepenLoop_map hg s0 depth0 fuel (i + 1) P' ds'

theorem deepen_map (hg : BoxEquivariant g gd) (P : Part α σ) (s0 : σ) (ds : List (Draw α)) :
    (partMapBox g P).deepen s0 (ds.map gd) =
      mapRes (partMapBox g) (List.map gd) (P.deepen s0 ds) := by
  unfold Part.deepen
  simp only [partMapBox_layers, partMapBox_depth]
  cases P.layers[P.depth]? with
  | none => rfl
  | some layer => exact deepenLoop_map hg s0 P.depth layer.length 0 P ds

end mk

/-! ### C14: boxes of existing cells are never modified -/

theorem boxesKept_refl (P : Part α σ) : BoxesKept P P := fun _ nd h => ⟨nd, h, rfl⟩

theorem boxesKept_trans {P P' P'' : Part α σ} (h1 : BoxesKept P P') (h2 : BoxesKept P' P'') :
    BoxesKept P P'' := by
  intro i nd h
  obtain ⟨nd', a, b⟩ := h1 i nd h
  obtain ⟨nd'', c, d⟩ := h2 i nd' a
  exact ⟨nd'', c, d.trans b⟩

theorem boxesKept_rootBox {P P' : Part α σ} (h : BoxesKept P P') {b : Box α}
    (hb : rootBox P = some b) : rootBox P' = some b := by
  unfold Rel.rootBox at hb ⊢
  cases h0 : P.nodes[0]? with
  | none => simp [h0] at hb
  | some nd =>
    obtain ⟨nd', a, c⟩ := h 0 nd h0
    simp only [h0, Option.map_some, Option.some.injEq] at hb
    simp only [a, Option.map_some, c, hb]

theorem boxesKept_modifyNode (P : Part α σ) (i : Nat) (F : Node α σ → Node α σ)
    (hF : ∀ nd, (F nd).box = nd.box) : BoxesKept P (P.modifyNode i F) := by
  intro j nd h
  simp only [Part.modifyNode, List.getElem?_modify, h]
  split
  · exact ⟨_, rfl, hF nd⟩
  · exact ⟨_, rfl, rfl⟩

theorem boxesKept_modifySt (P : Part α σ) (i : Nat) (f : σ → σ) : BoxesKept P (P.modifySt i f) :=
  boxesKept_modifyNode P i _ (fun _ => rfl)

theorem boxesKept_foldl {δ : Type} (step : Part α σ → δ → Part α σ)
    (h : ∀ P x, BoxesKept P (step P x)) (l : List δ) (P : Part α σ) : BoxesKept P (l.foldl step P) := by
  induction l generalizing P with
  | nil => exact boxesKept_refl P
  | cons x l ih => exact boxesKept_trans (h P x) (ih _)

theorem boxesKept_foldlM {δ : Type} (step : Part α σ → δ → Except Err (Part α σ))
    (h : ∀ P x P', step P x = .ok P' → BoxesKept P P') :
    ∀ (l : List δ) (P P' : Part α σ), l.foldlM step P = .ok P' → BoxesKept P P'
  | [], P, P', hr => by
    obtain rfl := Except.ok.inj hr
    exact boxesKept_refl _
  | x :: l, P, P', hr => by
    rw [List.foldlM_cons] at hr
    cases h1 : step P x with
    | error e => simp [h1, bind, Except.bind] at hr
    | ok P1 =>
      simp only [h1, bind, Except.bind] at hr
      exact boxesKept_trans (h P x P1 h1) (boxesKept_foldlM step h l P1 P' hr)

section mk2
variable [Add α] [Sub α] [Mul α] [Div α] [OfNat α 2] [NatCast α]

theorem boxesKept_makeChildren (P P' : Part α σ) (s0 : σ) (p : Nat) (nl : Bool) (d : Draw α)
    (h : P.makeChildren s0 p nl d = .ok P') : BoxesKept P P' := by
  unfold Part.makeChildren at h
  cases hp : P.nodes[p]? with
  | none => simp [hp] at h
  | some nd =>
    simp only [hp] at h
    have key : ∀ kids : List (Node α σ), ∀ ids : List Nat, ∀ (i : Nat) (x : Node α σ),
        P.nodes[i]? = some x →
        ∃ x', (P.nodes.set p { nd with children := some ids } ++ kids)[i]? = some x' ∧ x'.box = x.box := by
      intro kids ids i x hi
      have hlt : i < P.nodes.length := (List.getElem?_eq_some_iff.1 hi).1
      rw [List.getElem?_append_left (by rw [List.length_set]; exact hlt), List.getElem?_set]
      split
      · next e =>
        subst e
        rw [hp] at hi
        obtain rfl := Option.some.inj hi
        simp only [hlt, if_true]
        exact ⟨_, rfl, rfl⟩
      · exact ⟨x, hi, rfl⟩
    cases nl with
    | true =>
      simp only [if_true, Except.ok.injEq] at h
      subst h
      exact key _ _
    | false =>
      simp only [Bool.false_eq_true, if_false] at h
      split at h
      · simp only [Except.ok.injEq] at h
        subst h
        exact key _ _
      · cases h

theorem boxesKept_makeChildrenD (P P' : Part α σ) (s0 : σ) (p : Nat) (nl : Bool)
    (ds ds' : List (Draw α)) (h : P.makeChildrenD s0 p nl ds = .ok (P', ds')) : BoxesKept P P' := by
  unfold Part.makeChildrenD at h
  cases ds with
  | nil => cases h
  | cons d ds =>
    simp only [Part.popDraw, bind, Except.bind] at h
    cases h1 : P.makeChildren s0 p nl d with
    | error e => simp [h1] at h
    | ok P1 =>
      simp only [h1, pure, Except.pure, Except.ok.injEq, Prod.mk.injEq] at h
      obtain ⟨rfl, _⟩ := h
      exact boxesKept_makeChildren P P1 s0 p nl d h1

theorem boxesKept_expand (P P' : Part α σ) (s0 : σ) (p : Nat) (ds ds' : List (Draw α))
    (h : P.expand s0 p ds = .ok (P', ds')) : BoxesKept P P' := by
  unfold Part.expand at h
  cases hp : P.nodes[p]? with
  | none => simp [hp] at h
  | some nd =>
    simp only [hp] at h
    exact boxesKept_makeChildrenD P P' s0 p _ ds ds' h

theorem boxesKept_deepenLoop (s0 : σ) (depth0 : Nat) :
    ∀ (fuel i : Nat) (P P' : Part α σ) (ds ds' : List (Draw α)),
      Part.deepenLoop s0 depth0 fuel i P ds = .ok (P', ds') → BoxesKept P P'
  | 0, _, P, P', ds, ds', h => by
    simp only [Part.deepenLoop, Except.ok.injEq, Prod.mk.injEq] at h
    obtain ⟨rfl, _⟩ := h
    exact boxesKept_refl _
  | fuel + 1, i, P, P', ds, ds', h => by
    simp only [Part.deepenLoop] at h
    cases h1 : P.layers[depth0]? with
    | none => simp [h1] at h
    | some layer =>
      simp only [h1] at h
      cases h2 : layer[i]? with
      | none => simp [h2] at h
      | some p =>
        simp only [h2, bind, Except.bind] at h
        cases h3 : P.makeChildrenD s0 p (i == 0) ds with
        | error e => simp [h3] at h
        | ok r =>
          obtain ⟨P1, ds1⟩ := r
          simp only [h3] at h
          exact boxesKept_trans (boxesKept_makeChildrenD P P1 s0 p _ ds ds1 h3)
            (boxesKept_deepenLoop s0 depth0 fuel (i + 1) P1 P' ds1 ds' h)

theorem boxesKept_deepen (P P' : Part α σ) (s0 : σ) (ds ds' : List (Draw α))
    (h : P.deepen s0 ds = .ok (P', ds')) : BoxesKept P P' := by
  unfold Part.deepen at h
  cases h1 : P.layers[P.depth]? with
  | none => simp [h1] at h
  | some layer =>
    simp only [h1] at h
    exact boxesKept_deepenLoop s0 P.depth _ 0 P P' ds ds' h

end mk2

end RL
end PyXAB
