/-
  The random descent below the drawn cell (`descentLoop`): totality under `DescOK`, the path,
  preservation of the tree invariant, and the geometric consequence "the last cell is contained
  in the drawn cell".
-/
import PyXABProofs.Lemmas.VR_Tree

set_option linter.unusedSectionVars false

namespace PyXAB
namespace VR
open _root_.PyXAB.Tree TBA VROOM

/-! ### unfolding `descentLoop` -/
section unfold
variable {α R S : Type} [Add α] [Sub α] [Mul α] [Div α] [OfNat α 2] [NatCast α]

theorem descentLoop_stop {hmax h : Nat} (hh : ¬ h < hmax) (steps : List (Option (Draw α) × Nat))
    (node : Nat) (ul : List Nat) (P : Part α (VrSt R S)) :
    descentLoop hmax steps h node ul P = .ok (P, node, ul) := by
  rw [descentLoop.eq_def]; simp only [hh, if_false]

theorem descentLoop_internal {hmax h : Nat} (hh : h < hmax) {od : Option (Draw α)} {sign : Nat}
    {rest : List (Option (Draw α) × Nat)} {node : Nat} {ul : List Nat} {P : Part α (VrSt R S)}
    {nd : Node α (VrSt R S)} {cs : List Nat} {c : Nat}
    (hnd : P.nodes[node]? = some nd) (hcs : nd.children = some cs) (hc : cs[sign]? = some c) :
    descentLoop hmax ((od, sign) :: rest) h node ul P =
      descentLoop hmax rest (h + 1) c (ul ++ [c]) P := by
  rw [descentLoop.eq_def]
  simp only [hh, if_true, hnd, hcs, bind, Except.bind, hc]

theorem descentLoop_leaf {hmax h : Nat} (hh : h < hmax) {d : Draw α} {sign : Nat}
    {rest : List (Option (Draw α) × Nat)} {node : Nat} {ul : List Nat} {P P1 : Part α (VrSt R S)}
    {nd nd1 : Node α (VrSt R S)} {cs : List Nat} {c : Nat}
    (hnd : P.nodes[node]? = some nd) (hleaf : nd.children = none)
    (hm : P.makeChildren st0 node (decide (h ≥ P.depth)) d = .ok P1)
    (hnd1 : P1.nodes[node]? = some nd1) (hcs : nd1.children = some cs)
    (hc : cs[sign]? = some c) :
    descentLoop hmax ((some d, sign) :: rest) h node ul P =
      descentLoop hmax rest (h + 1) c (ul ++ [c]) P1 := by
  rw [descentLoop.eq_def]
  simp only [hh, if_true, hnd, hleaf, hm, bind, Except.bind, hnd1, hcs, hc]

end unfold

/-! ### paths -/
section path
variable {α σ : Type} {P P' : Part α σ}

theorem IsPath.grow {s0 : σ} {d : Nat} (Gr : Grow s0 d P P') :
    ∀ (path : List Nat) (node last : Nat), IsPath P node path last → IsPath P' node path last
  | [], _, _, h => h
  | c :: rest, node, last, ⟨⟨nd, cs, h1, h2, h3⟩, h4⟩ => by
    obtain ⟨nd', g0, _, _, _, _, _, g6⟩ := Gr.old node nd h1
    exact ⟨⟨nd', cs, g0, by rw [g6 (by simp [h2]), h2], h3⟩, IsPath.grow Gr rest c last h4⟩

theorem IsPath.getLast : ∀ (path : List Nat) (node last : Nat), IsPath P node path last →
    last = (node :: path).getLast (by simp)
  | [], _, _, h => h
  | c :: rest, node, last, ⟨_, h4⟩ => by
    rw [List.getLast_cons (by simp)]
    exact IsPath.getLast rest c last h4

variable [LinearOrder α]

/-- Along a path depths increase by one per step and the boxes shrink. -/
theorem IsPath.facts (W : WF P) (G : Geo P) : ∀ (path : List Nat) (node last : Nat)
    (nd : Node α σ), P.nodes[node]? = some nd → IsPath P node path last →
    (∃ ln, P.nodes[last]? = some ln ∧ ln.depth = nd.depth + path.length ∧
      Box.Subset ln.box nd.box) ∧
    (∀ c ∈ path, ∃ cn, P.nodes[c]? = some cn ∧ nd.depth < cn.depth ∧
      Box.Subset cn.box nd.box) ∧
    (node :: path).Nodup
  | [], node, last, nd, hn, h => by
    obtain rfl : last = node := h
    exact ⟨⟨nd, hn, rfl, Box.Subset.refl _⟩, by simp, by simp⟩
  | c :: rest, node, last, nd, hn, ⟨⟨nd', cs, h1, h2, h3⟩, h4⟩ => by
    obtain rfl := getElem?_inj hn h1
    obtain ⟨_, cn, _, _, _, _, g1, g2, _, g4⟩ := W.child_facts h1 h2 h3
    have hsub : Box.Subset cn.box nd.box := G.sub c cn node nd g1 g2 h1
    obtain ⟨⟨ln, l1, l2, l3⟩, hall, hnd⟩ := IsPath.facts W G rest c last cn g1 h4
    refine ⟨⟨ln, l1, by rw [l2, g4, List.length_cons]; omega, l3.trans hsub⟩, ?_, ?_⟩
    · intro x hx
      rcases List.mem_cons.1 hx with rfl | hx
      · exact ⟨cn, g1, by omega, hsub⟩
      · obtain ⟨xn, x1, x2, x3⟩ := hall x hx
        exact ⟨xn, x1, by omega, x3.trans hsub⟩
    · rw [List.nodup_cons]
      refine ⟨fun hmem => ?_, hnd⟩
      rcases List.mem_cons.1 hmem with rfl | hmem
      · obtain rfl := getElem?_inj g1 h1
        omega
      · obtain ⟨xn, x1, x2, _⟩ := hall node hmem
        obtain rfl := getElem?_inj x1 h1
        omega

end path

/-! ### the descent -/
section descent
variable {α R S : Type} [Field α] [LinearOrder α] [IsStrictOrderedRing α]

theorem Internal.grow {σ : Type} {s0 : σ} {sd : Nat} {P P' : Part α σ} (hI : Internal sd P)
    (Gr : Grow s0 sd P P') : Internal sd P' := by
  intro i x' hx hdep
  by_cases hi : i < P.nodes.length
  · obtain ⟨y, y0, y1, _, _, _, _, y6⟩ := Gr.old i _ (List.getElem?_eq_getElem hi)
    obtain rfl := getElem?_inj y0 hx
    have hn := hI i _ (List.getElem?_eq_getElem hi) (by omega)
    rw [y6 hn]; exact hn
  · have := (Gr.new i x' hx (by omega)).1
    omega

/-- one expansion of a leaf keeps the VROOM tree invariant -/
theorem TInv.step {sd : Nat} {P : Part α (VrSt R S)} (T : TInv sd P) {node : Nat}
    {nd : Node α (VrSt R S)} {d : Draw α} {nl : Bool}
    (hnd : P.nodes[node]? = some nd) (hleaf : nd.children = none)
    (hfl : nl = decide (nd.depth ≥ P.depth)) (hd : DrawOKLen P.kind (dimn P) d)
    (hdk : DrawOK P.kind nd.box d) :
    ∃ P1, P.makeChildren st0 node nl d = .ok P1 ∧ TInv sd P1 ∧ Grow st0 sd P P1 ∧
      Step P P1 st0 node nd := by
  obtain ⟨P1, m1, W1, S⟩ := makeChildren_WF_step T.wf st0 hnd hleaf hfl hd
  have hsd : sd ≤ nd.depth := by
    by_contra hn
    exact T.internal node nd hnd (by omega) hleaf
  have Gr : Grow st0 sd P P1 := Grow.of_step T.wf S hnd hleaf hsd
  exact ⟨P1, m1, ⟨W1, Nat.le_trans T.deep Gr.depth, T.internal.grow Gr,
    Geo.step T.wf T.geo hnd S hdk m1⟩, Gr, S⟩

/-- **The descent**: under `DescOK` it never raises, keeps the tree invariant, only expands
cells of depth `≥ sd`, and returns the update list extended by the path below the start cell,
which has exactly `hmax - h` steps. -/
theorem descentLoop_spec (hmax sd : Nat) : ∀ (steps : List (Option (Draw α) × Nat))
    (h node : Nat) (ul : List Nat) (P : Part α (VrSt R S)) (nd : Node α (VrSt R S)),
    TInv sd P → P.nodes[node]? = some nd → nd.depth = h → DescOK hmax steps h node P →
    ∃ P' last path, descentLoop hmax steps h node ul P = .ok (P', last, ul ++ path) ∧
      TInv sd P' ∧ Grow st0 sd P P' ∧ IsPath P' node path last ∧ path.length = hmax - h
  | [], h, node, ul, P, nd, T, _, _, hok => by
    have hh : ¬ h < hmax := hok
    exact ⟨P, node, [], by rw [descentLoop_stop hh]; simp, T, Grow.refl _ _ _, rfl,
      by simp; omega⟩
  | (od, sign) :: rest, h, node, ul, P, nd, T, hnd, hdep, hok => by
    by_cases hh : h < hmax
    · obtain ⟨hsign, hcont⟩ := hok hh
      have hcont := hcont nd hnd
      cases hcs : nd.children with
      | some cs =>
        rw [hcs] at hcont
        have hlen : cs.length = K P := (T.wf.children_indices hnd hcs).1
        have hc : cs[sign]? = some cs[sign] := List.getElem?_eq_getElem (by omega)
        obtain ⟨_, cn, _, _, _, _, g1, _, _, g4⟩ :=
          T.wf.child_facts hnd hcs (List.getElem_mem (by omega : sign < cs.length))
        obtain ⟨P', last, path, m, T', Gr, hp, hl⟩ := descentLoop_spec hmax sd rest (h + 1)
          cs[sign] (ul ++ [cs[sign]]) P cn T g1 (by omega) (hcont _ hc)
        refine ⟨P', last, cs[sign] :: path, ?_, T', Gr, ⟨?_, hp⟩, by simp [hl]; omega⟩
        · rw [descentLoop_internal hh hnd hcs hc, m]; simp
        · obtain ⟨nd', g0, _, _, _, _, _, g6⟩ := Gr.old node nd hnd
          exact ⟨nd', cs, g0, by rw [g6 (by simp [hcs]), hcs], List.getElem_mem _⟩
      | none =>
        rw [hcs] at hcont
        obtain ⟨d, rfl, hdl, hdk, hcont⟩ := hcont
        obtain ⟨P1, m1, T1, Gr1, St⟩ := T.step hnd hcs (by rw [hdep]) hdl hdk
        have hc : (List.range' P.nodes.length (K P))[sign]? = some (P.nodes.length + sign) := by
          rw [List.getElem?_range' hsign]; simp
        obtain ⟨cn, c1, c2, _⟩ := St.new sign hsign
        have hD := hcont P1 (P.nodes.length + sign) m1 (by simp [St.atp, hc])
        obtain ⟨P', last, path, m, T', Gr, hp, hl⟩ := descentLoop_spec hmax sd rest (h + 1)
          (P.nodes.length + sign) (ul ++ [P.nodes.length + sign]) P1 cn T1 c1 (by omega) hD
        refine ⟨P', last, (P.nodes.length + sign) :: path, ?_, T', Gr1.trans Gr, ⟨?_, hp⟩,
          by simp [hl]; omega⟩
        · rw [descentLoop_leaf hh hnd hcs m1 St.atp rfl hc, m]; simp
        · obtain ⟨nd', g0, _, _, _, _, _, g6⟩ := Gr.old node _ St.atp
          exact ⟨nd', _, g0, by rw [g6 (by simp)], List.mem_of_getElem? hc⟩
    · exact ⟨P, node, [], by rw [descentLoop_stop hh]; simp, T, Grow.refl _ _ _, rfl,
        by simp; omega⟩

end descent

end VR
end PyXAB
