/-
  GPO over a field: with `upd v k r = (v·k + r)/(k+1)` (and any `zero`), the score of a validated
  point is the arithmetic mean of exactly the rewards of the validation rounds of its phase.
-/
import PyXABProofs.Lemmas.MT_POOScore
import PyXABProofs.Lemmas.MT_GPORun

namespace PyXAB.MT
open PyXAB
namespace GPO
open PyXAB.GPO
variable {L α R S Pt ρ : Type}

theorem valRewards_snoc (cfg : GPOCfg R S ρ) (log : List (Entry R Pt)) (e : Entry R Pt) (p : Nat) :
    valRewards cfg (log ++ [e]) p =
      valRewards cfg log p ++ (if e.phase = p ∧ cfg.half ≤ e.counter then [e.r] else []) := by
  unfold valRewards
  rw [List.filter_append, List.map_append]
  by_cases h : e.phase = p ∧ cfg.half ≤ e.counter
  · simp [h]
  · rw [if_neg h]
    have : (e.phase == p && decide (cfg.half ≤ e.counter)) = false := by
      simp only [Bool.and_eq_false_iff, beq_eq_false_iff_ne, decide_eq_false_iff_not]
      by_cases h1 : e.phase = p
      · exact Or.inr (fun h2 => h ⟨h1, h2⟩)
      · exact Or.inl h1
    simp [this]

/-- Along a run from the constructor: the number of validation rewards recorded for each phase,
and `score · count = sum` for every validated point. -/
theorem run_validation [Field α] [CharZero α] [LT α] [DecidableLT α] {ops : LearnerOps L α α Pt ρ}
    {cfg : GPOCfg α α ρ} (hN : 1 ≤ cfg.N) (hh : 1 ≤ cfg.half)
    (hupd : ∀ v k r, cfg.upd v k r = (v * (k : α) + r) / ((k : α) + 1))
    {s' : GPO L α Pt} {xs : List (RoundIn α α)} {log : List (Entry α Pt)}
    (h : run ops cfg GPO.init xs = .ok (s', log)) :
    (∀ p, (valRewards cfg log p).length =
      if p < s'.phase then (if 1 ≤ p then cfg.half else 0)
      else if p = s'.phase then s'.counter - cfg.half else 0) ∧
    (∀ (q : Nat) v, s'.V[q]? = some v →
      v * (((valRewards cfg log (q + 1)).length : Nat) : α) = (valRewards cfg log (q + 1)).sum) := by
  have := run_induction (ops := ops) (cfg := cfg)
    (J := fun s1 log1 => Inv cfg s1 ∧
      (∀ p, (valRewards cfg log1 p).length =
        if p < s1.phase then (if 1 ≤ p then cfg.half else 0)
        else if p = s1.phase then s1.counter - cfg.half else 0) ∧
      (∀ (q : Nat) v, s1.V[q]? = some v →
        v * (((valRewards cfg log1 (q + 1)).length : Nat) : α) = (valRewards cfg log1 (q + 1)).sum))
    (by
      intro s1 log1 x s2 e ⟨hI1, hJc, hJs⟩ hr
      obtain ⟨hI2, hep, hec, her, -⟩ := round_spec hh hI1 hr
      obtain ⟨hf1, hf2⟩ := round_fields hh hI1 hr
      have hp1 := hI1.hph
      by_cases hd : s1.phase ≤ cfg.N
      · obtain ⟨-, hsched, hexp, hval⟩ := hf2 hd
        obtain ⟨hc2, -, hvl, -⟩ := hI1.run hd
        by_cases hlt : s1.counter < cfg.half
        · -- exploring: nothing recorded
          have hnone : ∀ p, valRewards cfg (log1 ++ [e]) p = valRewards cfg log1 p := by
            intro p
            rw [valRewards_snoc, if_neg (by rw [hec]; omega), List.append_nil]
          have hs : s1.counter + 1 < 2 * cfg.half := by omega
          rw [if_pos hs] at hsched
          refine ⟨hI2, fun p => ?_, fun q v hq => ?_⟩
          · rw [hnone, hJc p, hsched.1, hsched.2.1]
            have : s1.counter + 1 - cfg.half = s1.counter - cfg.half := by omega
            rw [this]
          · rw [hnone]
            rw [(hexp hlt).1] at hq
            exact hJs q v hq
        · -- validating: the reward is recorded for this phase
          have hge : cfg.half ≤ s1.counter := by omega
          obtain ⟨-, -, V1, v, hV1, -, hv, hV2⟩ := hval hge
          have hsn : ∀ p, valRewards cfg (log1 ++ [e]) p =
              valRewards cfg log1 p ++ (if s1.phase = p then [x.r] else []) := by
            intro p
            rw [valRewards_snoc, hep, hec, her]
            by_cases hp : s1.phase = p
            · rw [if_pos ⟨hp, hge⟩, if_pos hp]
            · rw [if_neg (fun h' => hp h'.1), if_neg hp]
          have hcnt := hJc s1.phase
          rw [if_neg (Nat.lt_irrefl _), if_pos rfl] at hcnt
          refine ⟨hI2, fun p => ?_, fun q w hq => ?_⟩
          · rw [hsn, List.length_append, hJc p]
            have hlen_if : (if s1.phase = p then [x.r] else []).length = if s1.phase = p then 1 else 0 := by
              split <;> rfl
            rw [hlen_if]
            by_cases hs : s1.counter + 1 < 2 * cfg.half
            · rw [if_pos hs] at hsched
              rw [hsched.1, hsched.2.1]
              split_ifs <;> omega
            · rw [if_neg hs] at hsched
              rw [hsched.1, hsched.2]
              split_ifs <;> omega
          · rw [hsn]
            rw [hV2] at hq
            have hvold : v * (((valRewards cfg log1 s1.phase).length : Nat) : α) =
                (valRewards cfg log1 s1.phase).sum := by
              have hpq : s1.phase - 1 + 1 = s1.phase := by omega
              by_cases hch : s1.counter = cfg.half
              · rw [if_pos hch] at hV1
                have hl0 : (valRewards cfg log1 s1.phase).length = 0 := by rw [hcnt]; omega
                have hnil : valRewards cfg log1 s1.phase = [] := List.eq_nil_of_length_eq_zero hl0
                rw [hnil]; simp
              · rw [if_neg hch] at hV1
                rw [hV1] at hv
                have := hJs (s1.phase - 1) v hv
                rwa [hpq] at this
            by_cases hq1 : q = s1.phase - 1
            · subst hq1
              have hpq : s1.phase - 1 + 1 = s1.phase := by omega
              have hlen1 : s1.phase - 1 < V1.length := (List.getElem?_eq_some_iff.mp hv).1
              rw [List.getElem?_set_self hlen1] at hq
              cases hq
              rw [hpq, if_pos rfl, List.length_append, List.length_singleton, sum_snoc, ← hvold, hupd,
                hcnt, ← hcnt]
              exact mean_step v x.r _
            · have hne : ¬ s1.phase = q + 1 := by omega
              rw [if_neg hne, List.append_nil]
              rw [List.getElem?_set_ne (fun h' => hq1 h'.symm)] at hq
              by_cases hch : s1.counter = cfg.half
              · rw [if_pos hch] at hV1
                rw [hV1, List.getElem?_append] at hq
                split at hq
                · exact hJs q w hq
                · rw [if_neg (by omega)] at hvl
                  rw [List.getElem?_singleton] at hq
                  split at hq
                  · omega
                  · cases hq
              · rw [if_neg hch] at hV1
                rw [hV1] at hq
                exact hJs q w hq
      · -- all phases over: nothing changes
        obtain ⟨rfl, -⟩ := hf1 (by omega)
        have hc0 := (hI1.done (by omega)).1
        have hnone : ∀ p, valRewards cfg (log1 ++ [e]) p = valRewards cfg log1 p := by
          intro p
          rw [valRewards_snoc, if_neg (by rw [hec]; omega), List.append_nil]
        refine ⟨hI2, fun p => by rw [hnone]; exact hJc p, fun q v hq => by rw [hnone]; exact hJs q v hq⟩)
    xs GPO.init [] s' log ⟨inv_init cfg hN hh, by intro p; simp [valRewards, GPO.init]; omega,
      by intro q v hq; simp [GPO.init] at hq⟩ h
  simp only [List.nil_append] at this
  exact this.2

end GPO
end PyXAB.MT
