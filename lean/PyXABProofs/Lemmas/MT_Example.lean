/-
  Concrete instances used by the non-vacuity examples of C10 / C09: the recording learner
  `recOps` (state = list of rewards received; `pull` proposes this list as its point), natural
  rewards, and small configurations.  Core Lean only; everything is evaluated by `decide`.
-/
import PyXABProofs.Spec.MetaSpec

namespace PyXAB.MT.Ex
open PyXAB

/-- round `k` (1-based) has time `k`, reward `k`, no draws -/
def inputs (n : Nat) : List (RoundIn Unit Nat) :=
  (List.range n).map (fun k => { time := k + 1, r := k + 1, ds := [] })

/-! POO: the oracle accepts `(2,2)` and `(4,8)` only; the score is the SUM of the rewards;
`rhoOf` returns the grid pair itself. -/

def pooCfg : POOCfg Nat Nat (Nat × Nat) where
  cond := fun N n => (N == 2 && n == 2) || (N == 4 && n == 8)
  rhoOf := fun N i => (N, i)
  upd := fun v _ r => v + r
  zero := 0

/-- an oracle which refuses to start -/
def pooCfgBad : POOCfg Nat Nat (Nat × Nat) := { pooCfg with cond := fun _ _ => false }

def pooRun (n : Nat) : Except Err (POO (List Nat) Nat × List (POO.Entry Nat)) :=
  POO.run (recOps Unit Nat (Nat × Nat)) pooCfg POO.init (inputs n)

/-- `(N, n, phase, counter, algo_counter)` after `n` rounds -/
def pooState (n : Nat) :=
  (pooRun n).toOption.map (fun (s, _) => (s.N, s.n, s.phase, s.counter, s.algoCounter))

/-- `(learners, V, times)` after `n` rounds -/
def pooLists (n : Nat) :=
  (pooRun n).toOption.map (fun (s, _) => (s.learners, s.V, s.times))

/-- the log `(served, received, r)` -/
def pooLog (n : Nat) :=
  (pooRun n).toOption.map (fun (_, log) => log.map (fun (e : POO.Entry Nat) => (e.served, e.received, e.r)))

/-- the grid pairs of the learners constructed -/
def pooPairs (n : Nat) :=
  (pooRun n).toOption.map (fun (_, log) => POO.createdPairs log)

/-- `get_last_point` after `n` rounds: `(index, point)`, or the error -/
def pooLast (n : Nat) : Option (Err ⊕ (Nat × List Nat)) :=
  (pooRun n).toOption.map (fun (s, _) =>
    match POO.lastPoint (recOps Unit Nat (Nat × Nat)) s with
    | .error e => .inl e
    | .ok (_, i, pt) => .inr (i, pt))

/-- the error raised by `n` rounds under the refusing oracle (if any) -/
def pooBad (n : Nat) : Option Err :=
  match POO.run (recOps Unit Nat (Nat × Nat)) pooCfgBad POO.init (inputs n) with
  | .error e => some e
  | .ok _ => none

/-! GPO: `N = 2` phases, `half = 2`; the score is the SUM of the validation rewards. -/

def gpoCfg : GPOCfg Nat Nat Nat where
  N := 2
  half := 2
  rhoOf := fun p => p
  upd := fun v _ r => v + r
  zero := 0

def gpoRun (n : Nat) : Except Err (GPO (List Nat) Nat (List Nat) × List (GPO.Entry Nat (List Nat))) :=
  GPO.run (recOps Unit Nat Nat) gpoCfg GPO.init (inputs n)

/-- `(phase, counter, created)` after `n` rounds -/
def gpoState (n : Nat) :=
  (gpoRun n).toOption.map (fun (s, _) => (s.phase, s.counter, s.created))

/-- `(curr, goodx, Vx, V)` after `n` rounds -/
def gpoLists (n : Nat) :=
  (gpoRun n).toOption.map (fun (s, _) => (s.curr, s.goodx, s.Vx, s.V))

/-- the log `(phase, counter, point, r)` -/
def gpoLog (n : Nat) :=
  (gpoRun n).toOption.map (fun (_, log) =>
    log.map (fun (e : GPO.Entry Nat (List Nat)) => (e.phase, e.counter, e.pt, e.r)))

/-- the arguments of `rhoOf` of the learners constructed -/
def gpoParams (n : Nat) :=
  (gpoRun n).toOption.map (fun (_, log) => GPO.createdParams log)

/-- `get_last_point` after `n` rounds -/
def gpoLast (n : Nat) : Option (Err ⊕ List Nat) :=
  (gpoRun n).toOption.map (fun (s, _) =>
    match GPO.lastPoint s with
    | .error e => .inl e
    | .ok pt => .inr pt)

end PyXAB.MT.Ex
