/-
  C01 for the wrappers POO and GPO (PCT / VPCT), generic in the base learner: if every point
  proposed by the base learner satisfies `InDom` (under the learner's own invariant `LI`), so does
  every point returned by `pull` / `get_last_point` of the wrapper.
-/
import PyXABProofs.Lemmas.TT_Box

set_option linter.unusedSectionVars false
set_option linter.unusedVariables false

namespace PyXAB
namespace TT
variable {L α R S Pt ρ : Type}

theorem mem_set_cases {β : Type} {l : List β} {i : Nat} {x a : β} (h : a ∈ l.set i x) :
    a ∈ l ∨ a = x := by
  rcases List.mem_or_eq_of_mem_set h with h | h
  · exact Or.inl h
  · exact Or.inr h

theorem POOInv.set {LI : L → Prop} {s : POO L S} (hI : POOInv LI s) {i : Nat} {l' : L}
    (hl : LI l') {s' : POO L S} (e : s'.learners = s.learners.set i l') : POOInv LI s' := by
  intro l hl'
  rw [e] at hl'
  rcases mem_set_cases hl' with h | h
  · exact hI l h
  · exact h ▸ hl

namespace POO
open PyXAB.POO

theorem init_inv (LI : L → Prop) : POOInv LI (PyXAB.POO.init : POO L S) := by
  intro l hl
  simp [PyXAB.POO.init] at hl

theorem pull_inDom {ops : LearnerOps L α R Pt ρ} {LI : L → Prop} {InDom : Pt → Prop}
    (hops : OpsInDom ops LI InDom) (cfg : POOCfg R S ρ) {s s1 : POO L S} {time i : Nat}
    {ds ds1 : List (Draw α)} {pt : Pt} (hI : POOInv LI s)
    (h : pull ops cfg s time ds = .ok (s1, ds1, i, pt)) : POOInv LI s1 ∧ InDom pt := by
  unfold pull at h
  split at h
  · obtain ⟨⟨sa, dsa⟩, ha, h⟩ := bind_ok h
    have hIa : POOInv LI sa := by
      split at ha
      · obtain ⟨⟨l, ds'⟩, hc, ha⟩ := bind_ok ha
        simp only [pure, Except.pure, Except.ok.injEq, Prod.mk.injEq] at ha
        obtain ⟨rfl, _⟩ := ha
        intro l' hl'
        simp only [List.mem_append, List.mem_singleton] at hl'
        rcases hl' with h' | rfl
        · exact hI l' h'
        · exact hops.create _ _ _ _ hc
      · simp only [pure, Except.pure, Except.ok.injEq, Prod.mk.injEq] at ha
        obtain ⟨rfl, _⟩ := ha
        exact hI
    dsimp only at h
    split at h
    · cases h
    · rename_i l hl
      obtain ⟨⟨l', pt'⟩, hp, h⟩ := bind_ok h
      simp only [pure, Except.pure, Except.ok.injEq, Prod.mk.injEq] at h
      obtain ⟨rfl, _, _, rfl⟩ := h
      obtain ⟨h1, h2⟩ := hops.pull _ _ _ _ (hIa l (List.mem_of_getLast? hl)) hp
      exact ⟨hIa.set h1 rfl, h2⟩
  · split at h
    · cases h
    · split at h
      · cases h
      · rename_i ac _ l hl
        obtain ⟨⟨l', pt'⟩, hp, h⟩ := bind_ok h
        simp only [pure, Except.pure, Except.ok.injEq, Prod.mk.injEq] at h
        obtain ⟨rfl, _, _, rfl⟩ := h
        obtain ⟨h1, h2⟩ := hops.pull _ _ _ _ (hI l (List.mem_of_getElem? hl)) hp
        exact ⟨hI.set h1 rfl, h2⟩

theorem receive_inv {ops : LearnerOps L α R Pt ρ} {LI : L → Prop} {InDom : Pt → Prop}
    (hops : OpsInDom ops LI InDom) (cfg : POOCfg R S ρ) {s s2 : POO L S} {time : Nat} {r : R}
    {ds ds2 : List (Draw α)} (hI : POOInv LI s)
    (h : receive ops cfg s time r ds = .ok (s2, ds2)) : POOInv LI s2 := by
  unfold receive at h
  split at h
  · split at h
    · rename_i l v t hl _ _
      obtain ⟨⟨l', ds'⟩, hr, h⟩ := bind_ok h
      simp only [pure, Except.pure, Except.ok.injEq, Prod.mk.injEq] at h
      obtain ⟨rfl, _⟩ := h
      have h1 := hops.receive _ _ _ _ _ _ (hI l (List.mem_of_getLast? hl)) hr
      refine hI.set h1 (i := s.learners.length - 1) ?_
      split <;> split <;> rfl
    · cases h
  · split at h
    · cases h
    · split at h
      · rename_i ac _ _ _ _ l v t hl _ _
        obtain ⟨⟨l', ds'⟩, hr, h⟩ := bind_ok h
        simp only [pure, Except.pure, Except.ok.injEq, Prod.mk.injEq] at h
        obtain ⟨rfl, _⟩ := h
        have h1 := hops.receive _ _ _ _ _ _ (hI l (List.mem_of_getElem? hl)) hr
        refine hI.set h1 (i := ac) ?_
        split <;> rfl
      · cases h

theorem lastPoint_inDom [LT S] [DecidableLT S] {ops : LearnerOps L α R Pt ρ} {LI : L → Prop}
    {InDom : Pt → Prop} (hops : OpsInDom ops LI InDom) {s s' : POO L S} {i : Nat} {pt : Pt}
    (hI : POOInv LI s) (h : lastPoint ops s = .ok (s', i, pt)) : POOInv LI s' ∧ InDom pt := by
  unfold lastPoint at h
  split at h
  · cases h
  · split at h
    · cases h
    · rename_i j _ _ l hl
      obtain ⟨⟨l', pt'⟩, hp, h⟩ := bind_ok h
      simp only [pure, Except.pure, Except.ok.injEq, Prod.mk.injEq] at h
      obtain ⟨rfl, _, rfl⟩ := h
      obtain ⟨h1, h2⟩ := hops.pull _ _ _ _ (hI l (List.mem_of_getElem? hl)) hp
      exact ⟨hI.set h1 rfl, h2⟩

theorem round_inDom {ops : LearnerOps L α R Pt ρ} {LI : L → Prop} {InDom : Pt → Prop}
    (hops : OpsInDom ops LI InDom) (cfg : POOCfg R S ρ) {s s2 : POO L S} {x : RoundIn α R}
    {e : Entry R} {pt : Pt} (hI : POOInv LI s) (h : round ops cfg s x = .ok (s2, e, pt)) :
    POOInv LI s2 ∧ InDom pt := by
  unfold round at h
  split at h
  · cases h
  · rename_i s1 ds1 i pt1 hp
    split at h
    · cases h
    · rename_i s2' _ hr
      simp only [Except.ok.injEq, Prod.mk.injEq] at h
      obtain ⟨rfl, _, rfl⟩ := h
      obtain ⟨h1, h2⟩ := pull_inDom hops cfg hI hp
      exact ⟨receive_inv hops cfg h1 hr, h2⟩

theorem run_inv {ops : LearnerOps L α R Pt ρ} {LI : L → Prop} {InDom : Pt → Prop}
    (hops : OpsInDom ops LI InDom) (cfg : POOCfg R S ρ) :
    ∀ (xs : List (RoundIn α R)) (s s' : POO L S) (log : List (Entry R)), POOInv LI s →
      run ops cfg s xs = .ok (s', log) → POOInv LI s'
  | [], s, s', log, hI, h => by
    simp only [run, Except.ok.injEq, Prod.mk.injEq] at h
    exact h.1 ▸ hI
  | x :: xs, s, s', log, hI, h => by
    unfold run at h
    split at h
    · cases h
    · rename_i s1 e pt hr
      split at h
      · cases h
      · rename_i s2 log2 hrun
        simp only [Except.ok.injEq, Prod.mk.injEq] at h
        obtain ⟨rfl, _⟩ := h
        exact run_inv hops cfg xs s1 _ log2 (round_inDom hops cfg hI hr).1 hrun

end POO

namespace GPO
open PyXAB.GPO

theorem init_inv (LI : L → Prop) (InDom : Pt → Prop) :
    GPOInv LI InDom (PyXAB.GPO.init : GPO L S Pt) :=
  ⟨fun _ h => (by cases h), fun _ h => (by cases h), fun _ h => (by simp [PyXAB.GPO.init] at h)⟩

theorem pull_inDom {ops : LearnerOps L α R Pt ρ} {LI : L → Prop} {InDom : Pt → Prop}
    (hops : OpsInDom ops LI InDom) (cfg : GPOCfg R S ρ) {s s1 : GPO L S Pt} {time : Nat}
    {ds ds1 : List (Draw α)} {pt : Pt} (hI : GPOInv LI InDom s)
    (h : pull ops cfg s time ds = .ok (s1, ds1, pt)) : GPOInv LI InDom s1 ∧ InDom pt := by
  unfold pull at h
  split at h
  · split at h
    · rename_i p hp
      simp only [pure, Except.pure, Except.ok.injEq, Prod.mk.injEq] at h
      obtain ⟨rfl, _, rfl⟩ := h
      exact ⟨hI, hI.goodx p hp⟩
    · cases h
  · obtain ⟨⟨sa, dsa⟩, ha, h⟩ := bind_ok h
    have hIa : GPOInv LI InDom sa := by
      split at ha
      · obtain ⟨⟨l, ds'⟩, hc, ha⟩ := bind_ok ha
        simp only [pure, Except.pure, Except.ok.injEq, Prod.mk.injEq] at ha
        obtain ⟨rfl, _⟩ := ha
        refine ⟨fun l' hl' => ?_, hI.goodx, hI.vx⟩
        simp only [Option.some.injEq] at hl'
        exact hl' ▸ hops.create _ _ _ _ hc
      · simp only [pure, Except.pure, Except.ok.injEq, Prod.mk.injEq] at ha
        obtain ⟨rfl, _⟩ := ha
        exact hI
    dsimp only at h
    split at h
    · split at h
      · cases h
      · rename_i l hl
        obtain ⟨⟨l', pt'⟩, hp, h⟩ := bind_ok h
        simp only [pure, Except.pure, Except.ok.injEq, Prod.mk.injEq] at h
        obtain ⟨rfl, _, rfl⟩ := h
        obtain ⟨h1, h2⟩ := hops.pull _ _ _ _ (hIa.curr l hl) hp
        refine ⟨⟨fun l'' e => ?_, fun p e => ?_, hIa.vx⟩, h2⟩
        · simp only [Option.some.injEq] at e
          exact e ▸ h1
        · simp only [Option.some.injEq] at e
          exact e ▸ h2
    · split at h
      · cases h
      · rename_i p hp
        have hpd := hIa.goodx p hp
        split at h
        · simp only [pure, Except.pure, Except.ok.injEq, Prod.mk.injEq] at h
          obtain ⟨rfl, _, rfl⟩ := h
          refine ⟨⟨hIa.curr, hIa.goodx, fun q hq => ?_⟩, hpd⟩
          simp only [List.mem_append, List.mem_singleton] at hq
          rcases hq with hq | rfl
          · exact hIa.vx q hq
          · exact hpd
        · simp only [pure, Except.pure, Except.ok.injEq, Prod.mk.injEq] at h
          obtain ⟨rfl, _, rfl⟩ := h
          exact ⟨hIa, hpd⟩

theorem receive_inv [LT S] [DecidableLT S] {ops : LearnerOps L α R Pt ρ} {LI : L → Prop}
    {InDom : Pt → Prop} (hops : OpsInDom ops LI InDom) (cfg : GPOCfg R S ρ) {s s2 : GPO L S Pt}
    {time : Nat} {r : R} {ds ds2 : List (Draw α)} (hI : GPOInv LI InDom s)
    (h : receive ops cfg s time r ds = .ok (s2, ds2)) : GPOInv LI InDom s2 := by
  unfold receive at h
  split at h
  · simp only [pure, Except.pure, Except.ok.injEq, Prod.mk.injEq] at h
    exact h.1 ▸ hI
  · obtain ⟨⟨sa, dsa⟩, ha, h⟩ := bind_ok h
    have hIa : GPOInv LI InDom sa := by
      split at ha
      · split at ha
        · cases ha
        · rename_i l hl
          obtain ⟨⟨l', ds'⟩, hr, ha⟩ := bind_ok ha
          simp only [pure, Except.pure, Except.ok.injEq, Prod.mk.injEq] at ha
          obtain ⟨rfl, _⟩ := ha
          refine ⟨fun l'' e => ?_, hI.goodx, hI.vx⟩
          simp only [Option.some.injEq] at e
          exact e ▸ hops.receive _ _ _ _ _ _ (hI.curr l hl) hr
      · split at ha
        · cases ha
        · simp only [pure, Except.pure, Except.ok.injEq, Prod.mk.injEq] at ha
          obtain ⟨rfl, _⟩ := ha
          exact ⟨hI.curr, hI.goodx, hI.vx⟩
    dsimp only at h
    split at h
    · split at h
      · split at h
        · cases h
        · split at h
          · cases h
          · rename_i i _ p hp
            simp only [pure, Except.pure, Except.ok.injEq, Prod.mk.injEq] at h
            obtain ⟨rfl, _⟩ := h
            have hpd : InDom p := hIa.vx p (List.mem_of_getElem? hp)
            refine ⟨hIa.curr, fun q e => ?_, hIa.vx⟩
            simp only [Option.some.injEq] at e
            exact e ▸ hpd
      · simp only [pure, Except.pure, Except.ok.injEq, Prod.mk.injEq] at h
        obtain ⟨rfl, _⟩ := h
        exact ⟨hIa.curr, hIa.goodx, hIa.vx⟩
    · simp only [pure, Except.pure, Except.ok.injEq, Prod.mk.injEq] at h
      obtain ⟨rfl, _⟩ := h
      exact ⟨hIa.curr, hIa.goodx, hIa.vx⟩

theorem lastPoint_inDom [LT S] [DecidableLT S] {LI : L → Prop} {InDom : Pt → Prop}
    {s : GPO L S Pt} {p : Pt} (hI : GPOInv LI InDom s) (h : lastPoint s = .ok p) : InDom p := by
  unfold lastPoint at h
  split at h
  · cases h
  · split at h
    · cases h
    · rename_i hp
      simp only [Except.ok.injEq] at h
      subst h
      exact hI.vx _ (List.mem_of_getElem? hp)

theorem round_inDom [LT S] [DecidableLT S] {ops : LearnerOps L α R Pt ρ} {LI : L → Prop}
    {InDom : Pt → Prop} (hops : OpsInDom ops LI InDom) (cfg : GPOCfg R S ρ) {s s2 : GPO L S Pt}
    {x : RoundIn α R} {e : Entry R Pt} (hI : GPOInv LI InDom s)
    (h : round ops cfg s x = .ok (s2, e)) : GPOInv LI InDom s2 ∧ InDom e.pt := by
  unfold round at h
  split at h
  · cases h
  · rename_i s1 ds1 pt1 hp
    split at h
    · cases h
    · rename_i s2' _ hr
      simp only [Except.ok.injEq, Prod.mk.injEq] at h
      obtain ⟨rfl, rfl⟩ := h
      obtain ⟨h1, h2⟩ := pull_inDom hops cfg hI hp
      exact ⟨receive_inv hops cfg h1 hr, h2⟩

theorem run_inDom [LT S] [DecidableLT S] {ops : LearnerOps L α R Pt ρ} {LI : L → Prop}
    {InDom : Pt → Prop} (hops : OpsInDom ops LI InDom) (cfg : GPOCfg R S ρ) :
    ∀ (xs : List (RoundIn α R)) (s s' : GPO L S Pt) (log : List (Entry R Pt)),
      GPOInv LI InDom s → run ops cfg s xs = .ok (s', log) →
      GPOInv LI InDom s' ∧ ∀ e ∈ log, InDom e.pt
  | [], s, s', log, hI, h => by
    simp only [run, Except.ok.injEq, Prod.mk.injEq] at h
    obtain ⟨rfl, rfl⟩ := h
    exact ⟨hI, fun _ h => by cases h⟩
  | x :: xs, s, s', log, hI, h => by
    unfold run at h
    split at h
    · cases h
    · rename_i s1 e hr
      split at h
      · cases h
      · rename_i s2 log2 hrun
        simp only [Except.ok.injEq, Prod.mk.injEq] at h
        obtain ⟨rfl, rfl⟩ := h
        obtain ⟨h1, h2⟩ := round_inDom hops cfg hI hr
        obtain ⟨h3, h4⟩ := run_inDom hops cfg xs s1 _ log2 h1 hrun
        refine ⟨h3, fun e' he' => ?_⟩
        rcases List.mem_cons.1 he' with rfl | he'
        · exact h2
        · exact h4 e' he'

end GPO
end TT
end PyXAB
