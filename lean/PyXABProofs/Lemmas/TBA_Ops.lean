/-
  The payload-only passes of the tree bandits (`backward`, `forListed`, `refreshTau`,
  `updateReward`, `computeU`) as `PRel` facts, and `expand` on a leaf.
-/
import PyXABProofs.Lemmas.TBA_Rel

namespace PyXAB
namespace TBA
open Tree

variable {α σ R S : Type}

/-! ### Closed (reflexive, transitive) node relations and folds of payload updates -/

structure Closed (τ : Nat → Node α σ → Node α σ → Prop) : Prop where
  refl : ∀ i a, τ i a a
  trans : ∀ i a b c, Skel a b → Skel b c → τ i a b → τ i b c → τ i a c

theorem PRel.refl' {τ : Nat → Node α σ → Node α σ → Prop} (C : Closed τ) (P : Part α σ) :
    PRel τ P P := PRel.refl C.refl P

theorem PRel.comp {τ : Nat → Node α σ → Node α σ → Prop} (C : Closed τ) {P P' P'' : Part α σ}
    (h1 : PRel τ P P') (h2 : PRel τ P' P'') : PRel τ P P'' :=
  h1.trans' h2 C.trans

/-- A single `modifySt` is in a closed relation as soon as the modified node is. -/
theorem PRel_modifySt_closed {τ : Nat → Node α σ → Node α σ → Prop} (C : Closed τ)
    (P : Part α σ) (i : Nat) (g : σ → σ)
    (h : ∀ nd nd', P.nodes[i]? = some nd → Skel nd nd' → nd'.st = g nd.st → τ i nd nd') :
    PRel τ P (P.modifySt i g) where
  kind := (PRel_modifySt P i g).kind
  layers := (PRel_modifySt P i g).layers
  depth := (PRel_modifySt P i g).depth
  len := (PRel_modifySt P i g).len
  node := by
    intro j nd hj
    obtain ⟨nd', h1, h2, h3⟩ := (PRel_modifySt P i g).node j nd hj
    refine ⟨nd', h1, h2, ?_⟩
    by_cases e : j = i
    · subst e
      simp only [if_true] at h3
      exact h nd nd' hj h2 h3
    · simp only [e, if_false] at h3
      have : nd' = nd := by
        cases nd; cases nd'
        obtain ⟨a1, a2, a3, a4, a5⟩ := h2
        simp only at a1 a2 a3 a4 a5 h3
        subst a1 a2 a3 a4 a5 h3
        rfl
      rw [this]; exact C.refl j nd

theorem PRel_foldl {γ : Type} {τ : Nat → Node α σ → Node α σ → Prop} (C : Closed τ)
    (step : Part α σ → γ → Part α σ) (hstep : ∀ Q x, PRel τ Q (step Q x))
    (l : List γ) (P : Part α σ) : PRel τ P (l.foldl step P) :=
  foldl_inv (fun Q => PRel τ P Q) step l P (PRel.refl' C P)
    (fun Q x _ hQ => PRel.comp C hQ (hstep Q x))

/-! ### The payload relations -/

def SoftR (mo : List R → Nat → S) : Nat → Node α (TBSt R S) → Node α (TBSt R S) → Prop :=
  fun _ a b => Soft mo a.st b.st

/-- Only the B-value changes; at a leaf it is kept or replaced by the U-value. -/
def BOnly (a b : Node α (TBSt R S)) : Prop :=
  b.st.count = a.st.count ∧ b.st.rewards = a.st.rewards ∧ b.st.mean = a.st.mean ∧
    b.st.u = a.st.u ∧ b.st.var = a.st.var ∧ b.st.tau = a.st.tau ∧
    (a.children = none → b.st.b = a.st.b ∨ b.st.b = a.st.u)

def BOnlyR : Nat → Node α (TBSt R S) → Node α (TBSt R S) → Prop := fun _ a b => BOnly a b

/-- Only `tau` changes. -/
def TauOnly (a b : TBSt R S) : Prop :=
  b.count = a.count ∧ b.rewards = a.rewards ∧ b.mean = a.mean ∧ b.u = a.u ∧ b.b = a.b ∧
    b.var = a.var

def TauR : Nat → Node α (TBSt R S) → Node α (TBSt R S) → Prop :=
  fun _ a b => TauOnly a.st b.st

theorem Soft.rfl' (mo : List R → Nat → S) (a : TBSt R S) : Soft mo a a :=
  ⟨rfl, rfl, rfl, rfl, Or.inl rfl⟩

theorem Soft.trans {mo : List R → Nat → S} {a b c : TBSt R S} (h1 : Soft mo a b)
    (h2 : Soft mo b c) : Soft mo a c := by
  obtain ⟨a1, a2, a3, a4, a5⟩ := h1
  obtain ⟨b1, b2, b3, b4, b5⟩ := h2
  refine ⟨b1.trans a1, b2.trans a2, b3.trans a3, b4.trans a4, ?_⟩
  rcases b5 with e | ⟨e1, e2⟩
  · rw [e]; exact a5
  · right; rw [a1] at e1; rw [a1, a2] at e2; exact ⟨e1, e2⟩

theorem closed_SoftR (mo : List R → Nat → S) : Closed (SoftR (α := α) mo) :=
  ⟨fun _ a => Soft.rfl' mo a.st, fun _ _ _ _ _ _ h1 h2 => h1.trans h2⟩

theorem closed_BOnlyR : Closed (BOnlyR (α := α) (R := R) (S := S)) where
  refl := fun _ a => ⟨rfl, rfl, rfl, rfl, rfl, rfl, fun _ => Or.inl rfl⟩
  trans := by
    intro _ a b c s1 _ h1 h2
    obtain ⟨a1, a2, a3, a4, a5, a6, a7⟩ := h1
    obtain ⟨b1, b2, b3, b4, b5, b6, b7⟩ := h2
    refine ⟨b1.trans a1, b2.trans a2, b3.trans a3, b4.trans a4, b5.trans a5, b6.trans a6, ?_⟩
    intro hc
    rcases b7 (s1.children.trans hc) with e | e
    · rw [e]; exact a7 hc
    · right; rw [e, a4]

theorem closed_TauR : Closed (TauR (α := α) (R := R) (S := S)) where
  refl := fun _ _ => ⟨rfl, rfl, rfl, rfl, rfl, rfl⟩
  trans := by
    intro _ a b c _ _ h1 h2
    obtain ⟨a1, a2, a3, a4, a5, a6⟩ := h1
    obtain ⟨b1, b2, b3, b4, b5, b6⟩ := h2
    exact ⟨b1.trans a1, b2.trans a2, b3.trans a3, b4.trans a4, b5.trans a5, b6.trans a6⟩

theorem BOnly.soft (mo : List R → Nat → S) {a b : Node α (TBSt R S)} (h : BOnly a b) :
    Soft mo a.st b.st :=
  ⟨h.1, h.2.1, h.2.2.2.2.1, h.2.2.2.2.2.1, Or.inl h.2.2.1⟩

theorem PRel.soft_of_bonly (mo : List R → Nat → S) {P P' : Part α (TBSt R S)}
    (h : PRel BOnlyR P P') : PRel (SoftR mo) P P' :=
  h.mono (fun _ _ _ _ hb => BOnly.soft mo hb)

/-- `Soft` updates keep the bookkeeping predicates. -/
theorem Soft.good {mo : List R → Nat → S} {a b : TBSt R S} (h : Soft mo a b) (g : Good mo a) :
    Good mo b := by
  obtain ⟨a1, a2, _, _, a5⟩ := h
  obtain ⟨g1, g2⟩ := g
  refine ⟨by rw [a1, a2]; exact g1, fun hc => ?_⟩
  rw [a1] at hc
  rw [a1, a2]
  rcases a5 with e | ⟨_, e⟩
  · rw [e]; exact g2 hc
  · exact e

theorem Soft.goodVar {mo : List R → Nat → S} {vo : List R → S} {a b : TBSt R S}
    (h : Soft mo a b) (g : GoodVar vo a) : GoodVar vo b := by
  obtain ⟨a1, a2, a3, _, _⟩ := h
  intro hc
  rw [a1] at hc
  rw [a2, a3]; exact g hc

/-! ### `backward` -/

section backward
variable [Max S] [Min S] [Inhabited S] [Inhabited R]

theorem backwardLayer_rel (negInf : S) (P : Part α (TBSt R S)) (layer : List Nat) :
    PRel BOnlyR P (backwardLayer negInf P layer) := by
  unfold backwardLayer
  refine PRel_foldl closed_BOnlyR _ (fun Q id => ?_) layer P
  cases hq : Q.nodes[id]? with
  | none => exact PRel.refl' closed_BOnlyR Q
  | some nd =>
    cases hc : nd.children with
    | none =>
      simp only [hc]
      refine PRel_modifySt_closed closed_BOnlyR Q id _ (fun a a' ha _ hst => ?_)
      show BOnly a a'
      unfold BOnly
      rw [hst]
      exact ⟨rfl, rfl, rfl, rfl, rfl, rfl, fun _ => Or.inr rfl⟩
    | some cs =>
      simp only [hc]
      refine PRel_modifySt_closed closed_BOnlyR Q id _ (fun a a' ha _ hst => ?_)
      show BOnly a a'
      unfold BOnly
      rw [hst]
      obtain rfl : nd = a := getElem?_inj hq ha
      exact ⟨rfl, rfl, rfl, rfl, rfl, rfl, fun h => by rw [hc] at h; cases h⟩

/-- `updateBackwardTree` never raises on a tree with `depth + 1` layers; only B-values change. -/
theorem backward_rel (negInf : S) (P : Part α (TBSt R S)) (hl : P.layers.length = P.depth + 1) :
    ∃ P', backward negInf P = .ok P' ∧ PRel BOnlyR P P' := by
  unfold backward
  refine foldlM_inv (fun Q => PRel BOnlyR P Q) _ _ P (PRel.refl' closed_BOnlyR P) ?_
  intro Q i hi hQ
  have hi' : i < P.depth := List.mem_range.1 hi
  have hlen : Q.layers.length = P.depth + 1 := by rw [hQ.layers]; exact hl
  have h1 : i + 1 ≤ Q.layers.length := by omega
  have h2 : Q.layers.length - (i + 1) < Q.layers.length := by omega
  simp only [h1, if_true, List.getElem?_eq_getElem h2]
  exact ⟨_, rfl, PRel.comp closed_BOnlyR hQ (backwardLayer_rel negInf Q _)⟩

end backward

/-! ### `forListed` -/

theorem forListed_rel {τ : Nat → Node α σ → Node α σ → Prop} (C : Closed τ)
    (f : Node α σ → σ) (hf : ∀ i nd nd', Skel nd nd' → nd'.st = f nd → τ i nd nd')
    (P : Part α σ) : PRel τ P (forListed P f) := by
  unfold forListed
  refine PRel_foldl C _ (fun Q id => ?_) _ P
  cases hq : Q.nodes[id]? with
  | none => exact PRel.refl' C Q
  | some nd =>
    simp only
    refine PRel_modifySt_closed C Q id _ (fun a a' ha hs hst => ?_)
    obtain rfl : nd = a := getElem?_inj hq ha
    exact hf id nd a' hs hst

/-! ### `expand` on a leaf -/

section expand
variable [Add α] [Sub α] [Mul α] [Div α] [OfNat α 2] [NatCast α]

theorem expand_ok {P : Part α σ} (W : WF P) (s0 : σ) {p : Nat} {nd : Node α σ}
    (hp : P.nodes[p]? = some nd) (hleaf : nd.children = none) {d : Draw α} (ds : List (Draw α))
    (hd : DrawOKLen P.kind (dimn P) d) :
    ∃ P', P.expand s0 p (d :: ds) = .ok (P', ds) ∧ WF P' ∧ Step P P' s0 p nd := by
  obtain ⟨P', m1, W', S⟩ := makeChildren_WF_step W s0 hp hleaf rfl hd
  refine ⟨P', ?_, W', S⟩
  simp only [Part.expand, hp]
  exact makeChildrenD_cons m1

end expand

end TBA
end PyXAB
