/-
  Order-type tie, comparison-parametricity of the rules: a map `f` that preserves and reflects `≤` on the members
  of `vs` does not change what a rule chooses (`rule (vs.map f) = rule vs`).
-/
import PyXABProofs.Lemmas.OT_Core

namespace PyXAB.OT
open PyXAB

section
variable {S T : Type} [LinearOrder S] [LinearOrder T]

/-- `f` preserves and reflects `≤` on the members of `vs` -/
def Emb (vs : List S) (f : S → T) : Prop := ∀ x ∈ vs, ∀ y ∈ vs, (f x ≤ f y ↔ x ≤ y)

theorem Emb.le {vs : List S} {f : S → T} (hf : Emb vs f) {x y : S} (hx : x ∈ vs) (hy : y ∈ vs) :
    f x ≤ f y ↔ x ≤ y := hf x hx y hy

theorem Emb.lt {vs : List S} {f : S → T} (hf : Emb vs f) {x y : S} (hx : x ∈ vs) (hy : y ∈ vs) :
    f x < f y ↔ x < y := by
  rw [← not_le, ← not_le, hf y hy x hx]

theorem Emb.max {vs : List S} {f : S → T} (hf : Emb vs f) {x y : S} (hx : x ∈ vs) (hy : y ∈ vs) :
    max (f x) (f y) = f (max x y) ∧ max x y ∈ vs := by
  rw [max_def, max_def]
  by_cases h : x ≤ y
  · rw [if_pos h, if_pos ((hf.le hx hy).mpr h)]; exact ⟨rfl, hy⟩
  · rw [if_neg h, if_neg (fun h' => h ((hf.le hx hy).mp h'))]; exact ⟨rfl, hx⟩

theorem Emb.min {vs : List S} {f : S → T} (hf : Emb vs f) {x y : S} (hx : x ∈ vs) (hy : y ∈ vs) :
    min (f x) (f y) = f (min x y) ∧ min x y ∈ vs := by
  rw [min_def, min_def]
  by_cases h : x ≤ y
  · rw [if_pos h, if_pos ((hf.le hx hy).mpr h)]; exact ⟨rfl, hx⟩
  · rw [if_neg h, if_neg (fun h' => h ((hf.le hx hy).mp h'))]; exact ⟨rfl, hy⟩

theorem denseRank_isEmb (vs : List S) : Emb vs (denseRank vs) := denseRank_emb vs

theorem getElem!_map_of_lt {A B : Type} [Inhabited A] [Inhabited B] (vs : List A) (f : A → B) {i : Nat}
    (h : i < vs.length) : (vs.map f)[i]! = f vs[i]! := by
  simp [h]

theorem getElem!_mem_of_lt {A : Type} [Inhabited A] (vs : List A) {i : Nat} (h : i < vs.length) :
    vs[i]! ∈ vs := by
  simp [h]

/-! ### rules on keyed index lists -/

theorem pickChild_congr (b : Nat → S) (b' : Nat → T) (l : List Nat)
    (h : ∀ i ∈ l, ∀ j ∈ l, (b' i ≤ b' j ↔ b i ≤ b j)) : pickChild b' l = pickChild b l := by
  cases l with
  | nil => rfl
  | cons c cs =>
    simp only [pickChild]
    have key := List.foldl_rel (l := cs)
      (f := fun m c' => if b' m ≤ b' c' then c' else m) (g := fun m c' => if b m ≤ b c' then c' else m)
      (a := c) (b := c) (r := fun m m' => m = m' ∧ m ∈ c :: cs) ⟨rfl, by simp⟩
      (by
        rintro a ha m m' ⟨rfl, hm⟩
        have ha' : a ∈ c :: cs := by simp [ha]
        simp only [h m hm a ha']
        refine ⟨trivial, ?_⟩
        split
        · exact ha'
        · exact hm)
    rw [key.1]

theorem insertDesc_congr (key : Nat → S) (key' : Nat → T) (L : List Nat)
    (h : ∀ i ∈ L, ∀ j ∈ L, (key' i ≤ key' j ↔ key i ≤ key j)) (x : Nat) (hx : x ∈ L) :
    ∀ acc : List Nat, (∀ y ∈ acc, y ∈ L) →
      VROOM.insertDesc key' x acc = VROOM.insertDesc key x acc ∧ ∀ y ∈ VROOM.insertDesc key x acc, y ∈ L := by
  intro acc
  induction acc with
  | nil =>
    intro _
    simp only [VROOM.insertDesc, List.mem_singleton]
    exact ⟨trivial, fun y hy => hy ▸ hx⟩
  | cons y ys ih =>
    intro hacc
    have hy : y ∈ L := hacc y (by simp)
    have ih' := ih (fun z hz => hacc z (by simp [hz]))
    simp only [VROOM.insertDesc, h x hx y hy]
    split
    · refine ⟨by rw [ih'.1], ?_⟩
      intro z hz
      rcases List.mem_cons.mp hz with rfl | hz
      · exact hy
      · exact ih'.2 z hz
    · refine ⟨rfl, ?_⟩
      intro z hz
      rcases List.mem_cons.mp hz with rfl | hz
      · exact hx
      · exact hacc z hz

theorem sortDesc_congr (key : Nat → S) (key' : Nat → T) (l : List Nat)
    (h : ∀ i ∈ l, ∀ j ∈ l, (key' i ≤ key' j ↔ key i ≤ key j)) :
    VROOM.sortDesc key' l = VROOM.sortDesc key l := by
  unfold VROOM.sortDesc
  have := List.foldl_rel (l := l)
    (f := fun acc x => VROOM.insertDesc key' x acc) (g := fun acc x => VROOM.insertDesc key x acc)
    (a := []) (b := []) (r := fun a a' => a = a' ∧ ∀ y ∈ a', y ∈ l) ⟨rfl, by simp⟩
    (by
      rintro x hx a a' ⟨rfl, ha⟩
      have := insertDesc_congr key key' l h x hx a ha
      exact ⟨this.1, this.2⟩)
  exact this.1

end

section
variable {S T : Type} [LinearOrder S] [LinearOrder T] [Inhabited S] [Inhabited T]

theorem key_congr (vs : List S) (f : S → T) (hf : Emb vs f) :
    ∀ i ∈ List.range vs.length, ∀ j ∈ List.range vs.length,
      ((vs.map f)[i]! ≤ (vs.map f)[j]! ↔ vs[i]! ≤ vs[j]!) := by
  intro i hi j hj
  rw [List.mem_range] at hi hj
  rw [getElem!_map_of_lt vs f hi, getElem!_map_of_lt vs f hj]
  exact hf.le (getElem!_mem_of_lt vs hi) (getElem!_mem_of_lt vs hj)

theorem pick_map (vs : List S) (f : S → T) (hf : Emb vs f) : pick (vs.map f) = pick vs := by
  unfold pick
  rw [List.length_map]
  rw [pickChild_congr (fun i => vs[i]!) (fun i => (vs.map f)[i]!) _ (key_congr vs f hf)]

theorem sortD_map (vs : List S) (f : S → T) (hf : Emb vs f) : sortD (vs.map f) = sortD vs := by
  unfold sortD
  rw [List.length_map]
  exact sortDesc_congr (fun i => vs[i]!) (fun i => (vs.map f)[i]!) _ (key_congr vs f hf)

end

section
variable {S T : Type} [LinearOrder S] [LinearOrder T]

theorem amaxFirst_map (vs : List S) (f : S → T) (hf : Emb vs f) : amaxFirst (vs.map f) = amaxFirst vs := by
  unfold amaxFirst
  cases vs with
  | nil => rfl
  | cons x xs =>
    simp only [List.map_cons, argmaxFirst, List.foldl_map]
    have key := List.foldl_rel (l := xs)
      (f := fun (acc : Nat × Nat × T) y =>
        if acc.2.2 < f y then (acc.1 + 1, acc.1 + 1, f y) else (acc.1 + 1, acc.2.1, acc.2.2))
      (g := fun (acc : Nat × Nat × S) y =>
        if acc.2.2 < y then (acc.1 + 1, acc.1 + 1, y) else (acc.1 + 1, acc.2.1, acc.2.2))
      (a := (0, 0, f x)) (b := (0, 0, x))
      (r := fun a a' => a.1 = a'.1 ∧ a.2.1 = a'.2.1 ∧ a.2.2 = f a'.2.2 ∧ a'.2.2 ∈ x :: xs)
      ⟨rfl, rfl, rfl, by simp⟩
      (by
        rintro y hy ⟨i, bi, bv⟩ ⟨i', bi', bv'⟩ ⟨h1, h2, h3, h4⟩
        simp only at h1 h2 h3 h4
        subst h1 h2 h3
        have hy' : y ∈ x :: xs := by simp [hy]
        simp only [hf.lt h4 hy']
        split
        · exact ⟨rfl, rfl, rfl, hy'⟩
        · exact ⟨rfl, rfl, rfl, h4⟩)
    exact congrArg (fun o => (some o).toList) key.2.1

theorem amaxArm_map (vs : List S) (f : S → T) (hf : Emb vs f) : amaxArm (vs.map f) = amaxArm vs := by
  unfold amaxArm
  cases vs with
  | nil => rfl
  | cons bot xs =>
    simp only [List.map_cons, Zooming.argmaxArm, List.foldl_map, List.map_map]
    have key := List.foldl_rel (l := xs)
      (f := fun (acc : Nat × T × Option Nat) y =>
        if acc.2.1 ≤ f y then (acc.1 + 1, f y, some acc.1) else (acc.1 + 1, acc.2.1, acc.2.2))
      (g := fun (acc : Nat × S × Option Nat) y =>
        if acc.2.1 ≤ y then (acc.1 + 1, y, some acc.1) else (acc.1 + 1, acc.2.1, acc.2.2))
      (a := (0, f bot, none)) (b := (0, bot, none))
      (r := fun a a' => a.1 = a'.1 ∧ a.2.1 = f a'.2.1 ∧ a.2.2 = a'.2.2 ∧ a'.2.1 ∈ bot :: xs)
      ⟨rfl, rfl, rfl, by simp⟩
      (by
        rintro y hy ⟨i, mx, bi⟩ ⟨i', mx', bi'⟩ ⟨h1, h2, h3, h4⟩
        simp only at h1 h2 h3 h4
        subst h1 h2 h3
        have hy' : y ∈ bot :: xs := by simp [hy]
        simp only [hf.le h4 hy']
        split
        · exact ⟨rfl, rfl, rfl, hy'⟩
        · exact ⟨rfl, rfl, rfl, h4⟩)
    exact congrArg (fun o => Option.toList o) key.2.2.1

theorem foldl_max_map (vs : List S) (f : S → T) (hf : Emb vs f) (bs : List S) (hbs : ∀ y ∈ bs, y ∈ vs)
    (a : S) (ha : a ∈ vs) : (bs.map f).foldl max (f a) = f (bs.foldl max a) ∧ bs.foldl max a ∈ vs := by
  rw [List.foldl_map]
  exact List.foldl_rel (l := bs) (f := fun (m : T) y => max m (f y)) (g := fun (m : S) y => max m y)
    (a := f a) (b := a) (r := fun m m' => m = f m' ∧ m' ∈ vs) ⟨rfl, ha⟩
    (by
      rintro y hy m m' ⟨rfl, hm⟩
      exact hf.max hm (hbs y hy))

theorem backB_map (vs : List S) (f : S → T) (hf : Emb vs f) : backB (vs.map f) = backB vs := by
  match vs, hf with
  | [], _ => rfl
  | [_], _ => rfl
  | bot :: u :: bs, hf =>
    simp only [List.map_cons, backB]
    have h1 := foldl_max_map (bot :: u :: bs) f hf bs (fun y hy => by simp [hy]) bot (by simp)
    have h2 := hf.min (x := u) (y := bs.foldl max bot) (by simp) h1.2
    rw [h1.1, h2.1]
    have := denseRank_map (bot :: u :: bs) f hf h2.2
    simp only [List.map_cons] at this
    rw [this]

end

end PyXAB.OT
