/-
  `cumProb` (the cumulative weight of the layers above and including a cell's depth) and
  `receive` (crediting the reward along the update list).
-/
import PyXABProofs.Lemmas.VR_Prob

set_option linter.unusedSectionVars false

namespace PyXAB
namespace VR
open _root_.PyXAB.Tree TBA VROOM

/-! ### `cumProb` -/
section cum
variable {R S : Type}

/-- the inner `for l in range(2**h)` loop -/
theorem cumFold_spec (cfg : VrCfg R S) (probs : List S) (f : S × Nat → Nat → Except Err (S × Nat))
    (hf : ∀ acc x, f acc x = match probs[acc.2]? with
      | none => Except.error Err.indexError
      | some q => .ok (cfg.padd acc.1 q, acc.2 + 1)) :
    ∀ (l : List Nat) (p : S) (idx : Nat), idx + l.length ≤ probs.length →
    l.foldlM f (p, idx) =
      .ok (((probs.drop idx).take l.length).foldl cfg.padd p, idx + l.length)
  | [], p, idx, _ => by simp [pure, Except.pure]
  | x :: l, p, idx, h => by
    have hidx : idx < probs.length := by simp at h; omega
    have e : (probs.drop idx).take (x :: l).length =
        probs[idx] :: (probs.drop (idx + 1)).take l.length := by
      rw [List.drop_eq_getElem_cons hidx, List.length_cons, List.take_succ_cons]
    rw [List.foldlM_cons, hf]
    simp only [List.getElem?_eq_getElem hidx, bind, Except.bind]
    rw [cumFold_spec cfg probs f hf l _ (idx + 1) (by simp at h; omega), e, List.foldl_cons]
    simp [Nat.add_assoc, Nat.add_comm 1]

theorem cumGo_spec (cfg : VrCfg R S) (probs : List S) (depth sd : Nat)
    (hlen : probs.length = cumIdx sd) : ∀ (fuel j : Nat) (p : S), j + 1 ≤ sd → fuel + j = depth →
    cumProb.go cfg probs depth fuel (j + 1) (cumIdx j) p =
      .ok (if depth < sd then
        ((probs.drop (cumIdx j)).take (cumIdx depth - cumIdx j)).foldl cfg.padd p
      else cfg.pone) := by
  intro fuel
  induction fuel with
  | zero =>
    intro j p hj hf
    obtain rfl : depth = j := by omega
    have : depth < sd := by omega
    simp [cumProb.go, this]
  | succ fuel ih =>
    intro j p hj hf
    have hle : j + 1 ≤ depth := by omega
    have h1 : cumIdx (j + 1) ≤ cumIdx sd := cumIdx_mono hj
    have h2 : cumIdx (j + 1) ≤ cumIdx depth := cumIdx_mono hle
    have hc : cumIdx (j + 1) = cumIdx j + 2 ^ (j + 1) := rfl
    rw [cumProb.go]
    simp only [hle, if_true]
    have key := fun f hf => cumFold_spec cfg probs f hf (List.range (2 ^ (j + 1))) p (cumIdx j)
      (by rw [List.length_range, hlen]; omega)
    rw [key]
    case hf => intro _ _; rfl
    simp only [List.length_range, ← hc]
    by_cases hsd : j + 1 = sd
    · subst hsd
      have : ¬ depth < j + 1 := by omega
      simp [hlen, this]
    · have hlt : cumIdx (j + 1) < cumIdx sd := cumIdx_lt (by omega)
      have : ¬ cumIdx (j + 1) ≥ probs.length := by omega
      simp only [this, if_false]
      rw [ih (j + 1) _ (by omega) (by omega)]
      by_cases hd : depth < sd
      · simp only [hd, if_true]
        congr 1
        have e : cumIdx depth - cumIdx j = 2 ^ (j + 1) + (cumIdx depth - cumIdx (j + 1)) := by
          have hc' := hc
          generalize 2 ^ (j + 1) = w at hc' ⊢
          omega
        rw [e, List.take_add, List.foldl_append, List.drop_drop, ← hc]
      · simp [hd]

/-- **`cumProb_spec`** (general form): for a weight list of length `Σ_{h=1..sd} 2^h`, `sd ≥ 1`,
`cumProb` never raises; for a cell of depth `d < sd` it is the accumulated weight of the
layers `1..d` (the first `Σ_{h≤d} 2^h` entries), for `d ≥ sd` it is `pone`. -/
theorem cumProb_spec (cfg : VrCfg R S) (probs : List S) {sd : Nat} (hsd : 1 ≤ sd)
    (hlen : probs.length = cumIdx sd) (d : Nat) :
    cumProb cfg probs d =
      .ok (if d < sd then (probs.take (cumIdx d)).foldl cfg.padd cfg.pzero else cfg.pone) := by
  rw [cumProb]
  have := cumGo_spec cfg probs d sd hlen d 0 cfg.pzero (by omega) (by omega)
  simpa [cumIdx] using this

end cum

section cumField
variable {R S : Type} [Field S]

theorem foldl_add_eq (l : List S) : ∀ p : S, l.foldl (· + ·) p = p + l.sum := by
  induction l with
  | nil => intro p; simp
  | cons x l ih => intro p; rw [List.foldl_cons, ih, List.sum_cons, add_assoc]

/-- over a field (`padd = (+)`, `pzero = 0`) the accumulated weight is the sum of the first
`Σ_{h≤d} 2^h` weights -/
theorem cumVal_field {cfg : VrCfg R S} (FC : FieldCfg cfg) (probs : List S) (sd d : Nat)
    (hd : d < sd) : cumVal cfg probs sd d = (probs.take (cumIdx d)).sum := by
  have e : cfg.padd = (· + ·) := by
    funext a b; exact FC.padd a b
  simp only [cumVal, hd, if_true, e, FC.pzero, foldl_add_eq, zero_add]

end cumField

section takeProb
variable {α R S : Type}

/-- the first `Σ_{h≤d} 2^h` weights are the weights of the layers `1..d` -/
theorem probList_take {cfg : VrCfg R S} {P P' : Part α (VrSt R S)}
    (hL : ∀ h, 1 ≤ h → h ≤ cfg.sd → (layerAt P h).length = 2 ^ h) {d : Nat} (hd : d ≤ cfg.sd) :
    (probList cfg P P').take (cumIdx d) =
      (List.range' 1 d).flatMap (fun h => layerProbs cfg P' h (layerAt P h)) := by
  have hsplit : List.range' 1 cfg.sd = List.range' 1 d ++ List.range' (1 + d) (cfg.sd - d) := by
    rw [List.range'_append_1]; congr 1; omega
  have hlen : ((List.range' 1 d).flatMap
      (fun h => layerProbs cfg P' h (layerAt P h))).length = cumIdx d := by
    rw [length_flatMap', cumIdx_eq_sum]
    congr 1
    apply List.map_congr_left
    intro h hh
    rw [List.mem_range'_1] at hh
    simp [layerProbs, hL h hh.1 (by omega)]
  rw [probList, hsplit, List.flatMap_append, ← hlen, List.take_left]

end takeProb

/-! ### `receive` -/
section recv
variable {α R S : Type}

/-- the body of the loop of `receive` -/
def recvStep (cfg : VrCfg R S) (prob : List S) (r : R) (P : Part α (VrSt R S)) (x : Nat × Nat) :
    Except Err (Part α (VrSt R S)) :=
  match P.nodes[x.1]? with
  | none => .error .badId
  | some nd => do
    let p ← cumProb cfg prob nd.depth
    pure (P.modifySt x.1 (fun st =>
      { st with rewards := st.rewards ++ [r], tilde := st.tilde ++ [cfg.tildeOf r p x.2] }))

theorem receive_eq (cfg : VrCfg R S) (s : VROOM α R S) (r : R) :
    receive cfg s r = (do
      let P ← (s.updateList.zipIdx).foldlM (recvStep cfg s.prob r) s.P
      return { s with P := P }) := rfl

theorem recvFold_spec (cfg : VrCfg R S) (prob : List S) (r : R) (cp : Nat → S)
    (hcp : ∀ d, cumProb cfg prob d = .ok (cp d)) :
    ∀ (l : List (Nat × Nat)) (P : Part α (VrSt R S)), (l.map (·.1)).Nodup →
      (∀ x ∈ l, x.1 < P.nodes.length) →
      ∃ P', l.foldlM (recvStep cfg prob r) P = .ok P' ∧
        PRel (fun j nd nd' => (∀ i, (j, i) ∈ l → nd'.st = credit cfg r (cp nd.depth) i nd.st) ∧
          (j ∉ l.map (·.1) → nd'.st = nd.st)) P P'
  | [], P, _, _ => ⟨P, rfl, PRel.refl (fun _ _ => ⟨fun _ h => by simp at h, fun _ => rfl⟩) P⟩
  | (id, i) :: rest, P, hnd, hv => by
    rw [List.map_cons, List.nodup_cons] at hnd
    have hid : id < P.nodes.length := hv (id, i) (List.mem_cons_self ..)
    have h1 := PRel_modifySt P id (credit cfg r (cp P.nodes[id].depth) i)
    obtain ⟨P', m, h2⟩ := recvFold_spec cfg prob r cp hcp rest
      (P.modifySt id (credit cfg r (cp P.nodes[id].depth) i)) hnd.2
      (fun x hx => by rw [h1.len]; exact hv x (List.mem_cons_of_mem _ hx))
    refine ⟨P', ?_, ?_⟩
    · rw [List.foldlM_cons]
      simp only [recvStep, List.getElem?_eq_getElem hid, hcp, bind, Except.bind, pure,
        Except.pure]
      exact m
    · refine ⟨h2.kind.trans h1.kind, h2.layers.trans h1.layers, h2.depth.trans h1.depth,
        h2.len.trans h1.len, ?_⟩
      intro j a hj
      obtain ⟨b, b1, b2, b3⟩ := h1.node j a hj
      obtain ⟨c, c1, c2, c3⟩ := h2.node j b b1
      refine ⟨c, c1, b2.trans c2, ?_, ?_⟩
      · intro i' hmem
        rcases List.mem_cons.1 hmem with e | hmem
        · obtain ⟨rfl, rfl⟩ : j = id ∧ i' = i := by simpa using e
          obtain rfl : P.nodes[j] = a := by
            rw [List.getElem?_eq_getElem hid] at hj; exact Option.some.inj hj
          rw [c3.2 hnd.1, b3]; simp
        · have hjr : j ∈ rest.map (·.1) := List.mem_map.2 ⟨_, hmem, rfl⟩
          have hne : j ≠ id := fun e => hnd.1 (e ▸ hjr)
          rw [c3.1 i' hmem, b3, b2.depth]; simp [hne]
      · intro hj'
        rw [List.map_cons, List.mem_cons, not_or] at hj'
        rw [c3.2 hj'.2, b3]; simp [hj'.1]

/-- **`receive`**: given that the update list has no repetitions and names valid cells, and
that `cumProb` is total on the stored weights, `receive r` never raises; it appends `r` to the
rewards and one `tilde` entry to exactly the cells of the update list, and leaves everything
else (tree skeleton, ranks, other cells, the other state components) unchanged. -/
theorem receive_spec (cfg : VrCfg R S) (s : VROOM α R S) (r : R) (cp : Nat → S)
    (hcp : ∀ d, cumProb cfg s.prob d = .ok (cp d)) (hnd : s.updateList.Nodup)
    (hv : ∀ id ∈ s.updateList, id < s.P.nodes.length) :
    ∃ P', receive cfg s r = .ok { s with P := P' } ∧
      PRel (fun j nd nd' =>
        (∀ i, s.updateList[i]? = some j → nd'.st = credit cfg r (cp nd.depth) i nd.st) ∧
        (j ∉ s.updateList → nd'.st = nd.st)) s.P P' := by
  obtain ⟨P', m, h⟩ := recvFold_spec cfg s.prob r cp hcp s.updateList.zipIdx s.P
    (by rw [List.zipIdx_map_fst]; exact hnd)
    (fun x hx => hv x.1 (List.mem_of_getElem? (List.mem_zipIdx_iff_getElem?.1 hx)))
  refine ⟨P', by rw [receive_eq, m]; rfl, h.mono ?_⟩
  intro j a b _ ⟨h1, h2⟩
  exact ⟨fun i hi => h1 i (List.mem_zipIdx_iff_getElem?.2 hi),
    fun hj => h2 (by rw [List.zipIdx_map_fst]; exact hj)⟩

end recv

end VR
end PyXAB
