/-
  Inversion of `init`, `pull`, `receive` (no invariant assumed): what any successful call did to
  the bookkeeping fields (`arms` up to cells, `time`, `phase`, `nextEnd`).
-/
import PyXABProofs.Spec.ZoomSpec

set_option linter.unusedSectionVars false

namespace PyXAB
namespace ZM
open Zooming

variable {α R S : Type} [Add α] [Sub α] [Mul α] [Div α] [OfNat α 2] [NatCast α]
variable [LE α] [DecidableLE α]

/-- what the first state looks like -/
def InitRel (cfg : ZoomCfg R S) (s : Zooming α S) : Prop :=
  s.phase = 1 ∧ s.nextEnd = 2 ∧ s.time = 0 ∧ s.best = none ∧
    ∀ a ∈ s.arms, a.pulls = 0 ∧ a.avg = cfg.zero

/-- what one round `pull` (returning position `i`); `receive r` does to the bookkeeping -/
def RoundRel (cfg : ZoomCfg R S) (s : Zooming α S) (i : Nat) (r : R) (s' : Zooming α S) : Prop :=
  ∃ a c fresh, s.arms[i]? = some a ∧ s'.time = s.time + 1 ∧ s'.phase = phaseAfter s ∧
    s'.nextEnd = nextEndAfter s ∧
    s'.arms = s.arms.set i { credit cfg a r with cell := c } ++ fresh ∧
    ∀ f ∈ fresh, f.pulls = 0 ∧ f.avg = cfg.zero

theorem assign_fresh (cfg : ZoomCfg R S) (P : Part α Unit) (pt : List α) :
    ∀ (cs : List Nat) (asg : Bool) (cell : Option Nat) (fresh : List (Arm α S)),
      (∀ f ∈ fresh, f.pulls = 0 ∧ f.avg = cfg.zero) →
      ∀ f ∈ (assign cfg P pt cs asg cell fresh).2, f.pulls = 0 ∧ f.avg = cfg.zero
  | [], _, _, _, h => h
  | c :: cs, asg, cell, fresh, h => by
    rw [assign]
    split
    · exact assign_fresh cfg P pt cs asg cell fresh h
    · split
      · exact assign_fresh cfg P pt cs true (some c) fresh h
      · refine assign_fresh cfg P pt cs asg cell _ ?_
        intro f hf
        rcases List.mem_append.1 hf with hf | hf
        · exact h f hf
        · rw [List.mem_singleton] at hf; subst hf; exact ⟨rfl, rfl⟩

theorem init_inv {cfg : ZoomCfg R S} {k : Kind} {domain : Box α} {ds ds' : List (Draw α)}
    {s : Zooming α S} (h : Zooming.init cfg k domain ds = .ok (s, ds')) : InitRel cfg s := by
  unfold Zooming.init at h
  cases hd : (Part.init k domain ()).deepen () ds with
  | error e => simp [hd, bind, Except.bind] at h
  | ok x =>
    obtain ⟨P1, ds1⟩ := x
    simp only [hd, bind, Except.bind] at h
    cases hl : P1.layers[1]? with
    | none => simp [hl] at h
    | some layer =>
      simp only [hl, pure, Except.pure, Except.ok.injEq, Prod.mk.injEq] at h
      obtain ⟨rfl, _⟩ := h
      refine ⟨rfl, rfl, rfl, rfl, ?_⟩
      intro a ha
      obtain ⟨c, _, rfl⟩ := List.mem_map.1 ha
      exact ⟨rfl, rfl⟩

theorem pull_inv [LE S] [DecidableLE S] {cfg : ZoomCfg R S} {s s1 : Zooming α S} {i : Nat}
    {pt : List α} (h : pull cfg s = .ok (s1, i, pt)) :
    s1 = { s with best := some i } ∧ ∃ a, s.arms[i]? = some a ∧ pt = a.pt := by
  unfold pull at h
  split at h
  · cases h
  · split at h
    · cases h
    · rename_i j _ a ha
      simp only [Except.ok.injEq, Prod.mk.injEq] at h
      obtain ⟨rfl, rfl, rfl⟩ := h
      exact ⟨rfl, a, ha, rfl⟩

theorem receive_inv {cfg : ZoomCfg R S} {s s' : Zooming α S} {r : R} {ds ds' : List (Draw α)}
    (h : receive cfg s r ds = .ok (s', ds')) :
    ∃ i, s.best = some i ∧ s'.best = some i ∧ RoundRel cfg s i r s' := by
  unfold receive at h
  have hpair : (if s.time + 1 ≥ s.nextEnd then (s.phase + 1, s.nextEnd + 2 ^ (s.phase + 1))
      else (s.phase, s.nextEnd)) = (phaseAfter s, nextEndAfter s) := by
    unfold phaseAfter nextEndAfter; split <;> rfl
  cases hb : s.best with
  | none => simp [hb] at h
  | some i =>
    cases ha : s.arms[i]? with
    | none => simp [hb, ha] at h
    | some a =>
      simp only [hb, ha, hpair] at h
      refine ⟨i, rfl, ?_⟩
      cases hn : s.P.nodes[a.cell]? with
      | none => simp [hn] at h
      | some nd =>
        simp only [hn] at h
        cases hc : cfg.refine (phaseAfter s) (a.pulls + 1) nd.depth with
        | false =>
          simp only [hc, Bool.false_eq_true, if_false, pure, Except.pure, Except.ok.injEq,
            Prod.mk.injEq] at h
          obtain ⟨rfl, _⟩ := h
          exact ⟨rfl, a, a.cell, [], ha, rfl, rfl, rfl, by simp [credit], by simp⟩
        | true =>
          simp only [hc, if_true, bind, Except.bind] at h
          cases hm : s.P.makeChildrenD () a.cell (decide (nd.depth ≥ s.P.depth)) ds with
          | error e => simp [hm] at h
          | ok x =>
            obtain ⟨P2, ds2⟩ := x
            simp only [hm] at h
            cases hn2 : P2.nodes[a.cell]? with
            | none => simp [hn2] at h
            | some nd2 =>
              simp only [hn2] at h
              cases hcs : nd2.children with
              | none => simp [hcs] at h
              | some cs =>
                simp only [hcs] at h
                have hf := assign_fresh cfg P2 a.pt cs false none [] (by simp)
                cases has : assign cfg P2 a.pt cs false none [] with
                | mk cell fresh =>
                  rw [has] at hf
                  simp only [has, pure, Except.pure, Except.ok.injEq, Prod.mk.injEq] at h
                  obtain ⟨rfl, _⟩ := h
                  cases cell with
                  | none =>
                    exact ⟨rfl, a, a.cell, fresh, ha, rfl, rfl, rfl, by simp [credit], hf⟩
                  | some c =>
                    exact ⟨rfl, a, c, fresh, ha, rfl, rfl, rfl, by simp [credit], hf⟩

end ZM
end PyXAB
