/-
  HCT / VHCT: `init` establishes `HCTInv`; `pull` never raises, changes only thresholds and the
  stored path (`HCTPulled`) and leaves a state ready for `receive` (`HCTReady`).
-/
import PyXABProofs.Lemmas.TBB_HOO

set_option linter.unusedSectionVars false

namespace PyXAB
namespace TBB

open Tree

variable {α R S : Type} [Add α] [Sub α] [Mul α] [Div α] [OfNat α 2] [NatCast α]
variable [LinearOrder S] [Inhabited S] [Inhabited R]

/-! ### `init` -/

theorem HCT_init_inv {cfg : HCTCfg R S} {k : Kind} {domain : Box α} {ds ds' : List (Draw α)}
    {s : HCT α R S} (hds : ∀ d ∈ ds, DrawOKLen k domain.length d)
    (h : HCT.init cfg k domain ds = .ok (s, ds')) :
    HCTInv cfg s ∧ s.iteration = 1 ∧ s.path = none ∧ ∀ ts, HCTU cfg s.P ts := by
  unfold HCT.init at h
  simp only [bind, Except.bind, pure, Except.pure] at h
  split at h
  · cases h
  · next x hx =>
    obtain ⟨P1, ds1⟩ := x
    simp only [Except.ok.injEq, Prod.mk.injEq] at h
    obtain ⟨rfl, rfl⟩ := h
    obtain ⟨W, hroot, hall⟩ := init_expand hds hx
    refine ⟨⟨W, hroot, Nat.le_refl 1, ?_, ?_, ?_, ?_⟩, rfl, rfl, ?_⟩
    · intro v nd hnd _
      rw [(hall v nd hnd).1]; rfl
    · intro v nd hnd hc
      rw [(hall v nd hnd).1] at hc; simp [HCT.st0] at hc
    · intro v nd hnd
      rw [(hall v nd hnd).1]; simp [HCT.st0]
    · intro v hv nd hnd
      obtain ⟨h1, h2⟩ := hall v nd hnd
      refine ⟨fun _ => by rw [h1]; rfl, fun cs hcs => ?_⟩
      rw [h2 hv] at hcs; cases hcs
    · intro ts v nd hnd hc
      rw [(hall v nd hnd).1] at hc; simp [HCT.st0] at hc

theorem HCT_init_ok (cfg : HCTCfg R S) (k : Kind) (domain : Box α) (d : Draw α)
    (ds : List (Draw α)) (hd : DrawOKLen k domain.length d) :
    ∃ s, HCT.init cfg k domain (d :: ds) = .ok (s, ds) := by
  have W0 := init_WF' k domain (HCT.st0 cfg)
  have hp : (Part.init k domain (HCT.st0 cfg)).nodes[0]? = some
      { depth := 0, index := 1, parent := none, children := none, box := domain,
        st := HCT.st0 cfg } := rfl
  obtain ⟨P', e1, _, _⟩ := expand_ok W0 (HCT.st0 cfg) hp rfl ds
    (show DrawOKLen (Part.init k domain (HCT.st0 cfg)).kind
      (dimn (Part.init k domain (HCT.st0 cfg))) d from hd)
  exact ⟨_, by simp only [HCT.init, e1, bind, Except.bind, pure, Except.pure]; rfl⟩

/-! ### `SameButTau` -/

namespace SameButTau
variable {P Q : Part α (TBSt R S)}

theorem skel (h : SameButTau P Q) : Skel P Q :=
  ⟨h.kind, h.layers, h.depth, fun j => by
    cases hp : P.nodes[j]? with
    | none =>
      have : Q.nodes[j]? = none := by
        rw [List.getElem?_eq_none_iff] at hp ⊢
        rw [h.len]; exact hp
      rw [this]
    | some nd =>
      obtain ⟨t, ht⟩ := h.node j nd hp
      rw [ht]; rfl⟩

theorem inv (h : SameButTau P Q) {j : Nat} {nd' : Node α (TBSt R S)}
    (hj : Q.nodes[j]? = some nd') :
    ∃ nd, P.nodes[j]? = some nd ∧ nd' = { nd with st := { nd.st with tau := nd'.st.tau } } := by
  have hlt : j < P.nodes.length := by rw [← h.len]; exact lt_length_of_getElem? hj
  obtain ⟨t, ht⟩ := h.node j _ (List.getElem?_eq_getElem hlt)
  obtain rfl := getElem?_inj ht hj
  exact ⟨_, List.getElem?_eq_getElem hlt, rfl⟩

theorem refl (P : Part α (TBSt R S)) : SameButTau P P :=
  ⟨rfl, rfl, rfl, rfl, fun _ nd h => ⟨nd.st.tau, h⟩⟩

theorem of_upd {F : Nat → Node α (TBSt R S) → TBSt R S} (h : Upd P Q F)
    (hF : ∀ j nd, P.nodes[j]? = some nd → ∃ t, F j nd = { nd.st with tau := t }) :
    SameButTau P Q :=
  ⟨h.kind, h.layers, h.depth, h.skel.len, fun j nd hj => by
    obtain ⟨t, ht⟩ := hF j nd hj
    exact ⟨t, by rw [h.get hj, ht]⟩⟩

theorem stOf_b (h : SameButTau P Q) (c : Nat) : (Q.stOf c).b = (P.stOf c).b := by
  cases hp : P.nodes[c]? with
  | none =>
    have : Q.nodes[c]? = none := by
      rw [List.getElem?_eq_none_iff] at hp ⊢
      rw [h.len]; exact hp
    simp [Part.stOf, hp, this]
  | some nd =>
    obtain ⟨t, ht⟩ := h.node c nd hp
    simp [Part.stOf, hp, ht]

theorem brec (h : SameButTau P Q) {v : Nat} (hb : BRec P v) : BRec Q v := by
  intro nd' hnd'
  obtain ⟨nd, h1, h2⟩ := h.inv hnd'
  obtain ⟨b1, b2⟩ := hb nd h1
  rw [h2]
  refine ⟨b1, fun cs hcs => ?_⟩
  obtain ⟨M, m1, m2, c, m3, m4⟩ := b2 cs hcs
  exact ⟨M, m1, fun c hc => by rw [h.stOf_b]; exact m2 c hc, c, m3, by rw [h.stOf_b]; exact m4⟩

end SameButTau

/-- `HCTInv` does not depend on thresholds, the stored path or `tau_h`. -/
theorem HCTInv.transfer {cfg : HCTCfg R S} {s s' : HCT α R S} (I : HCTInv cfg s)
    (h : SameButTau s.P s'.P) (hit : s'.iteration = s.iteration) : HCTInv cfg s' where
  wf := h.skel.wf I.wf
  root_split := by
    obtain ⟨r, cs, h1, h2⟩ := I.root_split
    obtain ⟨t, ht⟩ := h.node 0 r h1
    exact ⟨_, cs, ht, h2⟩
  iter_pos := by rw [hit]; exact I.iter_pos
  unvisited := by
    intro v nd' hnd' hc
    obtain ⟨nd, h1, h2⟩ := h.inv hnd'
    rw [h2] at hc ⊢
    exact I.unvisited v nd h1 hc
  mean_ok := by
    intro v nd' hnd' hc
    obtain ⟨nd, h1, h2⟩ := h.inv hnd'
    rw [h2] at hc ⊢
    exact I.mean_ok v nd h1 hc
  var_ok := by
    intro v nd' hnd'
    obtain ⟨nd, h1, h2⟩ := h.inv hnd'
    rw [h2]
    exact I.var_ok v nd h1
  brec := fun v hv => h.brec (I.brec v hv)

theorem HCTU.transfer {cfg : HCTCfg R S} {P Q : Part α (TBSt R S)} {ts : Nat → Nat}
    (hU : HCTU cfg P ts) (h : SameButTau P Q) : HCTU cfg Q ts := by
  intro v nd' hnd' hc
  obtain ⟨nd, h1, h2⟩ := h.inv hnd'
  rw [h2] at hc ⊢
  exact hU v nd h1 hc

/-! ### `refreshTau` -/

/-- new payload of a node whose threshold is recomputed -/
def tauG (cfg : HCTCfg R S) (dt : S) (nd : Node α (TBSt R S)) : TBSt R S :=
  { nd.st with tau := cfg.tauNode dt nd.depth nd.st.var }

/-- one layer of `refreshTau` -/
def tauLayer (cfg : HCTCfg R S) (dt : S) (P : Part α (TBSt R S)) (layer : List Nat) :
    Part α (TBSt R S) :=
  layer.foldl (fun P id =>
    match P.nodes[id]? with
    | none => P
    | some nd => P.modifySt id (fun st => { st with tau := cfg.tauNode dt nd.depth st.var })) P

/-- one iteration of `refreshTau` -/
def tauStep (cfg : HCTCfg R S) (dt : S) (P : Part α (TBSt R S)) (h : Nat) :
    Except Err (Part α (TBSt R S)) :=
  match P.layers[h]? with
  | none => .error .indexError
  | some layer => .ok (tauLayer cfg dt P layer)

theorem refreshTau_eq (cfg : HCTCfg R S) (dt : S) (P : Part α (TBSt R S)) :
    HCT.refreshTau cfg dt P = (List.range' 1 P.depth).foldlM (tauStep cfg dt) P := rfl

theorem tauLayer_upd (cfg : HCTCfg R S) (dt : S) (P : Part α (TBSt R S)) {layer : List Nat}
    (hnd : layer.Nodup) :
    Upd P (tauLayer cfg dt P layer) (fun j nd => if j ∈ layer then tauG cfg dt nd else nd.st) := by
  unfold tauLayer
  exact foldl_upd _ (tauG cfg dt)
    (fun P id => guarded_upd'
      (fun (nd : Node α (TBSt R S)) (st : TBSt R S) =>
        { st with tau := cfg.tauNode dt nd.depth st.var })
      (fun h => by simp only [h]) (fun nd h => by simp only [h])) layer hnd P

theorem refreshTau_loop (cfg : HCTCfg R S) (dt : S) {P : Part α (TBSt R S)} (W : WF P) :
    ∀ n, n ≤ P.depth → ∃ Q, (List.range' 1 n).foldlM (tauStep cfg dt) P = .ok Q ∧
      Upd P Q (fun _ nd => if 1 ≤ nd.depth ∧ nd.depth ≤ n then tauG cfg dt nd else nd.st)
  | 0, _ => ⟨P, rfl, (Upd.refl P).congr (fun j nd _ => by
      have : ¬ (1 ≤ nd.depth ∧ nd.depth ≤ 0) := by omega
      simp only [this, if_false])⟩
  | n + 1, hn => by
    obtain ⟨Q, h1, U⟩ := refreshTau_loop cfg dt W n (by omega)
    have W' : WF Q := U.skel.wf W
    have hlt : n + 1 < Q.layers.length := by
      rw [U.skel.layers, W.layers_len]; omega
    obtain ⟨l, hl⟩ : ∃ l, Q.layers[n + 1]? = some l := ⟨_, List.getElem?_eq_getElem hlt⟩
    obtain ⟨l1, _, l3⟩ := W'.layers_mem _ l hl
    have hnodup : l.Nodup := l1.imp (fun h => Nat.ne_of_lt h)
    have U2 := tauLayer_upd cfg dt Q hnodup
    refine ⟨tauLayer cfg dt Q l, ?_, ?_⟩
    · rw [List.range'_1_concat, List.foldlM_append, h1]
      simp only [List.foldlM_cons, List.foldlM_nil, bind, Except.bind, tauStep,
        Nat.add_comm 1 n, hl]
      rfl
    · refine (U.comp U2).congr (fun j nd hj => ?_)
      have hq := U.get hj
      by_cases hjl : j ∈ l
      · obtain ⟨x, x1, x2⟩ := (l3 j).1 hjl
        obtain rfl := getElem?_inj hq x1
        have hd : nd.depth = n + 1 := x2
        have h1 : ¬ nd.depth ≤ n := by omega
        have h2 : 1 ≤ nd.depth := by omega
        have h3 : nd.depth ≤ n + 1 := by omega
        simp [hjl, h1, h2, h3, tauG]
      · have hd : nd.depth ≠ n + 1 := fun e => hjl ((l3 j).2 ⟨_, hq, e⟩)
        have hiff : (1 ≤ nd.depth ∧ nd.depth ≤ n + 1) ↔ (1 ≤ nd.depth ∧ nd.depth ≤ n) := by omega
        simp only [hjl, if_false, hiff]

/-- `refreshTau` never raises on a well-formed tree; it sets the threshold of every non-root
node and nothing else. -/
theorem refreshTau_spec (cfg : HCTCfg R S) (dt : S) {P : Part α (TBSt R S)} (W : WF P) :
    ∃ Q, HCT.refreshTau cfg dt P = .ok Q ∧
      Upd P Q (fun _ nd => if 1 ≤ nd.depth then tauG cfg dt nd else nd.st) := by
  obtain ⟨Q, h1, U⟩ := refreshTau_loop cfg dt W P.depth (Nat.le_refl _)
  refine ⟨Q, by rw [refreshTau_eq]; exact h1, U.congr (fun j nd hj => ?_)⟩
  have := W.depth_le j nd hj
  have hiff : (1 ≤ nd.depth ∧ nd.depth ≤ P.depth) ↔ 1 ≤ nd.depth := by omega
  simp only [hiff]

/-! ### `pull` -/

/-- the loop test of the descent of HCT / VHCT -/
def hctCont (cfg : HCTCfg R S) (tauH : List S) (nd : Node α (TBSt R S)) : Except Err Bool :=
  if cfg.variance then .ok (cfg.countGE nd.st.count nd.st.tau)
  else match tauH[nd.depth]? with
    | none => .error .indexError
    | some t => .ok (cfg.countGE nd.st.count t)

theorem HCT_pull_eq_var {cfg : HCTCfg R S} {s : HCT α R S} {P1 : Part α (TBSt R S)}
    {path : List Nat} {v : Nat} (hv : cfg.variance = true)
    (hP1 : HCT.refreshTau cfg (cfg.dtHalf (tPlus s.iteration)) s.P = .ok P1)
    (hdesc : descend P1 (hctCont cfg s.tauH) (P1.nodes.length + 1) 0 [0] = .ok path)
    (hlast : path.getLast? = some v) :
    HCT.pull cfg s = .ok ({ s with P := P1, path := some path }, v) := by
  unfold HCT.pull
  unfold hctCont at hdesc
  simp only [hv, if_true] at hdesc
  simp only [bind, Except.bind, pure, Except.pure, hv, if_true, hP1, hdesc, hlast]

theorem HCT_pull_eq_novar {cfg : HCTCfg R S} {s : HCT α R S}
    {path : List Nat} {v : Nat} (hv : cfg.variance = false)
    (hdesc : descend s.P (hctCont cfg (cfg.zero :: (List.range' 1 s.P.depth).map
        (cfg.tauH (cfg.dtHalf (tPlus s.iteration))))) (s.P.nodes.length + 1) 0 [0] = .ok path)
    (hlast : path.getLast? = some v) :
    HCT.pull cfg s = .ok ({ s with tauH := (cfg.zero :: (List.range' 1 s.P.depth).map
        (cfg.tauH (cfg.dtHalf (tPlus s.iteration)))), path := some path }, v) := by
  unfold HCT.pull
  unfold hctCont at hdesc
  simp only [hv, Bool.false_eq_true, if_false] at hdesc
  simp only [bind, Except.bind, pure, Except.pure, hv, Bool.false_eq_true, if_false]
  erw [hdesc]
  simp only [hlast]

/-- what the loop test returned, in terms of the threshold `thr` of the new state -/
theorem hctCont_eq {cfg : HCTCfg R S} {s' : HCT α R S} {nd : Node α (TBSt R S)} {go : Bool}
    (h : hctCont cfg s'.tauH nd = .ok go) : go = cfg.countGE nd.st.count (thr cfg s' nd) := by
  unfold hctCont at h
  unfold thr
  cases hv : cfg.variance with
  | true =>
    simp only [hv, if_true, Except.ok.injEq] at h ⊢
    exact h.symm
  | false =>
    simp only [hv, Bool.false_eq_true, if_false] at h ⊢
    cases ht : s'.tauH[nd.depth]? with
    | none => simp [ht] at h
    | some t =>
      simp only [ht, Except.ok.injEq] at h
      simp only [Option.getD_some]
      exact h.symm

/-- a greedy run with the loop test of HCT is a greedy path for the stop condition `stopHCT` -/
theorem hct_toPath {cfg : HCTCfg R S} {s' : HCT α R S} {rest : List Nat} {v : Nat}
    (h : GreedyIdx s'.P (hctCont cfg s'.tauH) (0 :: rest)) (hv : (0 :: rest).getLast? = some v) :
    GreedyPath s'.P (stopHCT cfg s') (0 :: rest) v := by
  refine h.toPath hv (fun nd hc hch hs => ?_) (fun nd go hc hor => ?_)
  · have := hctCont_eq hc
    rcases hs with hs | hs
    · exact hch hs
    · rw [hs] at this; cases this
  · have := hctCont_eq hc
    rcases hor with rfl | hch
    · exact Or.inr this.symm
    · exact Or.inl hch

/-- `descend` with the loop test of HCT never raises when `tau_h` is long enough -/
theorem hct_descend_ok {cfg : HCTCfg R S} {P : Part α (TBSt R S)} (W : WF P) {tauH : List S}
    (hlen : cfg.variance = false → tauH.length = P.depth + 1) :
    ∃ path v, descend P (hctCont cfg tauH) (P.nodes.length + 1) 0 [0] = .ok path ∧
      path.getLast? = some v := by
  have hcont : ∀ (i : Nat) (nd : Node α (TBSt R S)), P.nodes[i]? = some nd →
      ∃ go, hctCont cfg tauH nd = .ok go := by
    intro i nd hnd
    unfold hctCont
    by_cases hv : cfg.variance = true
    · exact ⟨cfg.countGE nd.st.count nd.st.tau, by simp only [hv, if_true]⟩
    · have hd := W.depth_le i nd hnd
      have hv' : cfg.variance = false := by simpa using hv
      have hl := hlen hv'
      have hlt : nd.depth < tauH.length := by omega
      exact ⟨cfg.countGE nd.st.count tauH[nd.depth],
        by simp only [hv', Bool.false_eq_true, if_false, List.getElem?_eq_getElem hlt]⟩
  obtain ⟨path, hpath⟩ := descend_ok W _ hcont (P.nodes.length + 1) 0 [0] W.length_pos (by omega)
  obtain ⟨rest, h1, _⟩ := descend_spec _ _ _ _ _ _ hpath
  refine ⟨path, ?_⟩
  cases hr : path.getLast? with
  | none => rw [h1] at hr; simp at hr
  | some v => exact ⟨v, hpath, rfl⟩

/-- **`pull`** (HCT / VHCT): never raises from an invariant state; the new state differs by
thresholds and path only, and is ready for `receive`. -/
theorem HCT_pull_full {cfg : HCTCfg R S} {s : HCT α R S} (I : HCTInv cfg s) :
    ∃ s' v, HCT.pull cfg s = .ok (s', v) ∧ HCTPulled cfg s s' v ∧ HCTReady cfg s' v := by
  have W := I.wf
  by_cases hv : cfg.variance = true
  · -- VHCT
    obtain ⟨P1, hP1, U⟩ := refreshTau_spec cfg (cfg.dtHalf (tPlus s.iteration)) W
    have hsame : SameButTau s.P P1 := SameButTau.of_upd U (fun j nd _ => by
      by_cases h1 : 1 ≤ nd.depth
      · exact ⟨cfg.tauNode (cfg.dtHalf (tPlus s.iteration)) nd.depth nd.st.var,
          by simp only [h1, if_true, tauG]⟩
      · exact ⟨nd.st.tau, by simp only [h1, if_false]⟩)
    have W1 : WF P1 := U.skel.wf W
    obtain ⟨path, v, hdesc, hlast⟩ := hct_descend_ok (cfg := cfg) W1 (tauH := s.tauH)
      (fun h => by rw [hv] at h; cases h)
    obtain ⟨rest, h1, h2⟩ := descend_spec _ _ _ _ _ _ hdesc
    subst h1
    have hpath : GreedyPath P1 (stopHCT cfg { s with P := P1, path := some ([0] ++ rest) })
        ([0] ++ rest) v :=
      hct_toPath (s' := { s with P := P1, path := some ([0] ++ rest) }) h2.idx hlast
    refine ⟨_, v, HCT_pull_eq_var hv hP1 hdesc hlast, ?_, ?_⟩
    · refine ⟨hsame, rfl, fun h => (by rw [hv] at h; cases h), fun _ => ⟨rfl, ?_⟩,
        ⟨_, rfl, hpath⟩⟩
      intro j nd' hnd' hd
      obtain ⟨nd, g1, g2⟩ := U.get_inv hnd'
      have hd' : 1 ≤ nd.depth := by rw [g2] at hd; exact hd
      rw [g2]
      simp only [hd', if_true, tauG]
    · exact ⟨I.transfer hsame rfl, ⟨_, rfl, hpath⟩, fun h => (by rw [hv] at h; cases h)⟩
  · -- HCT
    have hv' : cfg.variance = false := by simpa using hv
    have hlen : (cfg.zero :: (List.range' 1 s.P.depth).map
        (cfg.tauH (cfg.dtHalf (tPlus s.iteration)))).length = s.P.depth + 1 := by simp
    obtain ⟨path, v, hdesc, hlast⟩ := hct_descend_ok (cfg := cfg) W (fun _ => hlen)
    obtain ⟨rest, h1, h2⟩ := descend_spec _ _ _ _ _ _ hdesc
    subst h1
    have hpath := hct_toPath
      (s' := { s with
                tauH := (cfg.zero :: (List.range' 1 s.P.depth).map
                  (cfg.tauH (cfg.dtHalf (tPlus s.iteration))))
                path := some ([0] ++ rest) }) h2.idx hlast
    refine ⟨_, v, HCT_pull_eq_novar hv' hdesc hlast, ?_, ?_⟩
    · exact ⟨SameButTau.refl _, rfl, fun _ => ⟨rfl, rfl⟩, fun h => (by rw [hv'] at h; cases h),
        ⟨_, rfl, hpath⟩⟩
    · exact ⟨I.transfer (SameButTau.refl _) rfl, ⟨_, rfl, hpath⟩, fun _ => hlen⟩

end TBB
end PyXAB
