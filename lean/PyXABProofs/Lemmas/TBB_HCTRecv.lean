/-
  HCT / VHCT: `receive` after `pull` never raises, re-establishes `HCTInv`, and maintains the
  U-formula with the ghost time stamps `tsStep`.
-/
import PyXABProofs.Lemmas.TBB_HCTPull

set_option linter.unusedSectionVars false

namespace PyXAB
namespace TBB

open Tree

variable {α R S : Type} [Add α] [Sub α] [Mul α] [Div α] [OfNat α 2] [NatCast α]
variable [LinearOrder S] [Inhabited S] [Inhabited R]

/-! ### Payload functions -/

/-- the payload update of `updateReward` -/
def hctUpd (cfg : HCTCfg R S) (r : R) (st : TBSt R S) : TBSt R S :=
  let rs := st.rewards ++ [r]
  let st' := { st with count := st.count + 1, rewards := rs,
                       mean := cfg.meanOf rs (st.count + 1) }
  if cfg.variance then { st' with var := cfg.varOf rs } else st'

theorem updateReward_eq (cfg : HCTCfg R S) (P : Part α (TBSt R S)) (id : Nat) (r : R) :
    HCT.updateReward cfg P id r = P.modifySt id (hctUpd cfg r) := rfl

/-- the arena after the reward has been recorded at `last` and its U-value recomputed -/
def hctP3 (cfg : HCTCfg R S) (dt : S) (P1 : Part α (TBSt R S)) (last : Nat) (r : R) :
    Part α (TBSt R S) :=
  match (HCT.updateReward cfg P1 last r).nodes[last]? with
  | none => HCT.updateReward cfg P1 last r
  | some nd => (HCT.updateReward cfg P1 last r).modifySt last (fun _ => HCT.computeU cfg dt nd)

theorem hctP3_upd (cfg : HCTCfg R S) (dt : S) (P1 : Part α (TBSt R S)) (v : Nat) (r : R) :
    Upd P1 (hctP3 cfg dt P1 v r)
      (fun j nd => if j = v then HCT.computeU cfg dt { nd with st := hctUpd cfg r nd.st }
                   else nd.st) := by
  have U2 := modifySt_upd P1 v (hctUpd cfg r)
  have U3 : Upd (HCT.updateReward cfg P1 v r) (hctP3 cfg dt P1 v r)
      (fun j nd => if j = v then HCT.computeU cfg dt nd else nd.st) :=
    guarded_upd' (fun nd _ => HCT.computeU cfg dt nd)
      (fun h => by unfold hctP3; simp only [h]) (fun nd h => by unfold hctP3; simp only [h])
  rw [updateReward_eq] at U3
  refine (U2.comp U3).congr (fun j nd _ => ?_)
  by_cases hjv : j = v <;> simp [hjv]

/-- payload (up to the B-value) of node `j` of the pre-state after `receive` at counter `it`
with pulled node `v` -/
def hctF (cfg : HCTCfg R S) (r : R) (it v j : Nat) (nd : Node α (TBSt R S)) : TBSt R S :=
  if j = v then
    HCT.computeU cfg (cfg.dtOne (tPlus it))
      { nd with st := (hctUpd cfg r
          (if it = tPlus it then HCT.computeU cfg (cfg.dtOne (tPlus it)) nd else nd.st)) }
  else (if it = tPlus it then HCT.computeU cfg (cfg.dtOne (tPlus it)) nd else nd.st)

theorem computeU_b (cfg : HCTCfg R S) (dt : S) (nd : Node α (TBSt R S)) (st : TBSt R S) (b : S) :
    HCT.computeU cfg dt { nd with st := { st with b := b } } =
      { HCT.computeU cfg dt { nd with st := st } with b := b } := by
  unfold HCT.computeU
  by_cases h : st.count = 0 <;> simp [h]

theorem hctUpd_b (cfg : HCTCfg R S) (r : R) (st : TBSt R S) (b : S) :
    hctUpd cfg r { st with b := b } = { hctUpd cfg r st with b := b } := by
  unfold hctUpd
  cases cfg.variance <;> simp

/-! ### Node-level invariants -/

/-- the part of `HCTInv` that speaks about one payload -/
def HCTNodeInv (cfg : HCTCfg R S) (st : TBSt R S) : Prop :=
  (st.count = 0 → st.u = cfg.inf) ∧
  (0 < st.count → st.mean = cfg.meanOf st.rewards st.count) ∧
  st.var = if cfg.variance = true ∧ 0 < st.count then cfg.varOf st.rewards else cfg.var0

/-- the U-formula for one payload, last refreshed at counter `t` -/
def HCTNodeU (cfg : HCTCfg R S) (t depth : Nat) (st : TBSt R S) : Prop :=
  0 < st.count → st.u = cfg.uOf (cfg.dtOne (tPlus t)) depth
    (cfg.meanOf st.rewards st.count) st.count st.var

theorem computeU_count (cfg : HCTCfg R S) (dt : S) (nd : Node α (TBSt R S)) :
    (HCT.computeU cfg dt nd).count = nd.st.count := by
  unfold HCT.computeU; split <;> rfl

theorem computeU_inv (cfg : HCTCfg R S) (dt : S) (nd : Node α (TBSt R S))
    (h : HCTNodeInv cfg nd.st) : HCTNodeInv cfg (HCT.computeU cfg dt nd) := by
  obtain ⟨h1, h2, h3⟩ := h
  unfold HCT.computeU
  by_cases h0 : nd.st.count = 0
  · rw [if_pos h0]
    refine ⟨fun _ => rfl, fun hc => ?_, h3⟩
    have hc' : 0 < nd.st.count := hc
    omega
  · rw [if_neg h0]
    exact ⟨fun hc => absurd hc h0, fun _ => rfl, h3⟩

theorem computeU_U (cfg : HCTCfg R S) (t : Nat) (nd : Node α (TBSt R S)) :
    HCTNodeU cfg t nd.depth (HCT.computeU cfg (cfg.dtOne (tPlus t)) nd) := by
  unfold HCT.computeU HCTNodeU
  by_cases h0 : nd.st.count = 0
  · rw [if_pos h0]
    intro hc
    have hc' : 0 < nd.st.count := hc
    omega
  · rw [if_neg h0]
    intro _; rfl

theorem hctUpd_inv (cfg : HCTCfg R S) (r : R) (st : TBSt R S) (h : HCTNodeInv cfg st) :
    HCTNodeInv cfg (hctUpd cfg r st) := by
  obtain ⟨_, _, h3⟩ := h
  unfold hctUpd HCTNodeInv
  cases hv : cfg.variance with
  | true => simp
  | false =>
    rw [hv] at h3
    simp only [Bool.false_eq_true, false_and, if_false] at h3 ⊢
    refine ⟨fun hc => ?_, ?_, h3⟩
    · omega
    · intro _; trivial

theorem hctF_inv (cfg : HCTCfg R S) (r : R) (it v j : Nat) (nd : Node α (TBSt R S))
    (h : HCTNodeInv cfg nd.st) : HCTNodeInv cfg (hctF cfg r it v j nd) := by
  have h1 : HCTNodeInv cfg
      (if it = tPlus it then HCT.computeU cfg (cfg.dtOne (tPlus it)) nd else nd.st) := by
    split
    · exact computeU_inv cfg _ nd h
    · exact h
  unfold hctF
  split
  · exact computeU_inv cfg _ _ (hctUpd_inv cfg r _ h1)
  · exact h1

theorem hctF_U (cfg : HCTCfg R S) (r : R) (it v j t : Nat) (nd : Node α (TBSt R S))
    (hu : HCTNodeU cfg t nd.depth nd.st) :
    HCTNodeU cfg (if j = v then it else if it = tPlus it ∧ 0 < nd.st.count then it else t)
      nd.depth (hctF cfg r it v j nd) := by
  unfold hctF
  by_cases hjv : j = v
  · simp only [hjv, if_true]
    exact computeU_U cfg it _
  · simp only [hjv, if_false]
    by_cases hit : it = tPlus it
    · rw [if_pos hit]
      by_cases hc : 0 < nd.st.count
      · rw [if_pos ⟨hit, hc⟩]
        exact computeU_U cfg it nd
      · intro hc'
        rw [computeU_count] at hc'
        exact absurd hc' hc
    · rw [if_neg hit, if_neg (fun h => hit h.1)]
      exact hu

theorem st0_inv (cfg : HCTCfg R S) : HCTNodeInv cfg (HCT.st0 cfg) :=
  ⟨fun _ => rfl, fun h => by simp [HCT.st0] at h, by simp [HCT.st0]⟩

/-! ### First phase: the global refresh -/

theorem HCT_phaseA {cfg : HCTCfg R S} (hbot : ∀ x, cfg.negInf ≤ x) {P : Part α (TBSt R S)}
    (W : WF P) (it : Nat) :
    ∃ P1, (if it = tPlus it then
        backward cfg.negInf (forListed P (HCT.computeU cfg (cfg.dtOne (tPlus it))))
      else .ok P) = .ok P1 ∧ Skel P P1 ∧
      ∀ (j : Nat) (nd : Node α (TBSt R S)), P.nodes[j]? = some nd →
        ∃ b, P1.nodes[j]? = some { nd with st :=
          { (if it = tPlus it then HCT.computeU cfg (cfg.dtOne (tPlus it)) nd else nd.st) with
            b := b } } := by
  by_cases h : it = tPlus it
  · have U := forListed_upd W (HCT.computeU cfg (cfg.dtOne (tPlus it)))
    obtain ⟨Q, hQ, OB, _, _⟩ := backward_spec hbot (U.skel.wf W)
    refine ⟨Q, by rw [if_pos h]; exact hQ, U.skel.trans OB.skel, fun j nd hj => ?_⟩
    obtain ⟨b, hb⟩ := OB.node j _ (U.get hj)
    exact ⟨b, by rw [hb, if_pos h]⟩
  · exact ⟨P, by rw [if_neg h], Skel.refl P, fun j nd hj => ⟨nd.st.b, by rw [hj, if_neg h]⟩⟩

/-! ### Expansion after `backward` keeps the B-recursion -/

omit [Add α] [Sub α] [Mul α] [Div α] [OfNat α 2] [NatCast α] in
theorem BRec_step {P P' : Part α (TBSt R S)} {s0 : TBSt R S} {p : Nat}
    {nd : Node α (TBSt R S)} (St : Step P P' s0 p nd) (W : WF P) (W' : WF P')
    (hp : P.nodes[p]? = some nd) (hleaf : nd.children = none)
    (hs0 : s0.b = s0.u) (htop : ∀ x, x ≤ s0.b) (hp0 : 0 < p)
    (hall : ∀ j, 0 < j → BRec P j) : ∀ j, 0 < j → BRec P' j := by
  intro j hj nd' hnd'
  have hK : 1 ≤ K P := by
    have := (W'.children p _ _ St.atp rfl).1
    rwa [St.K_eq W hp] at this
  rcases St.inv hp hnd' with ⟨x, h0, _, _, _, _, hst, hne, heq⟩ | ⟨i, hi, rfl, _, _, _, hch, _, hst⟩
  · by_cases hjp : j = p
    · subst hjp
      obtain rfl := getElem?_inj hp h0
      have hc := heq rfl
      refine ⟨fun h => (by rw [hc] at h; cases h), fun cs hcs => ?_⟩
      rw [hc] at hcs
      obtain rfl := Option.some.inj hcs
      have hnew : ∀ c ∈ List.range' P.nodes.length (K P), P'.stOf c = s0 := by
        intro c hc
        rw [List.mem_range'_1] at hc
        obtain ⟨cn, c1, _, _, _, _, _, c2⟩ := St.new (c - P.nodes.length) (by omega)
        have e : P.nodes.length + (c - P.nodes.length) = c := by omega
        rw [e] at c1
        rw [stOf_eq c1, c2]
      refine ⟨s0.b, ?_, fun c hc => by rw [hnew c hc], P.nodes.length, ?_, ?_⟩
      · rw [hst, ((hall j hp0) nd hp).1 hleaf]
        exact (min_eq_left (htop _)).symm
      · rw [List.mem_range'_1]; omega
      · rw [hnew]
        rw [List.mem_range'_1]; omega
    · obtain ⟨l1, l2⟩ := hall j hj x h0
      rw [hst, hne hjp]
      refine ⟨l1, fun cs hcs => ?_⟩
      obtain ⟨M, m1, m2, c, m3, m4⟩ := l2 cs hcs
      have hsame : ∀ c ∈ cs, P'.stOf c = P.stOf c := by
        intro c hc
        obtain ⟨_, cn, _, _, _, _, c1, _⟩ := W.child_facts h0 hcs hc
        obtain ⟨cn', d1, _, _, _, _, d2, _⟩ := St.pres hp c1
        rw [stOf_eq d1, stOf_eq c1, d2]
      exact ⟨M, m1, fun c hc => by rw [hsame c hc]; exact m2 c hc, c, m3, by rw [hsame c m3]; exact m4⟩
  · refine ⟨fun _ => by rw [hst]; exact hs0, fun cs hcs => ?_⟩
    rw [hch] at hcs; cases hcs

/-! ### `receive` -/

theorem HCT_receive_eq {cfg : HCTCfg R S} {s : HCT α R S} {r : R} {ds ds' : List (Draw α)}
    {path : List Nat} {last : Nat} {nd : Node α (TBSt R S)} {P1 P4 P5 : Part α (TBSt R S)} {t : S}
    (hpath : s.path = some path) (hlast : path.getLast? = some last)
    (hP1 : (if s.iteration = tPlus s.iteration then
        backward cfg.negInf (forListed s.P (HCT.computeU cfg (cfg.dtOne (tPlus s.iteration))))
      else .ok s.P) = .ok P1)
    (hback : backward cfg.negInf (hctP3 cfg (cfg.dtOne (tPlus s.iteration)) P1 last r) = .ok P4)
    (hnd : P4.nodes[last]? = some nd)
    (hthr : (if cfg.variance then (.ok nd.st.tau : Except Err S)
             else match s.tauH[nd.depth]? with
               | none => .error .indexError
               | some t => .ok t) = .ok t)
    (hexp : (if nd.children.isNone && cfg.countGE nd.st.count t
             then P4.expand (HCT.st0 cfg) last ds else .ok (P4, ds)) = .ok (P5, ds')) :
    HCT.receive cfg s r ds = .ok ({ s with P := P5, iteration := s.iteration + 1 }, ds') := by
  unfold hctP3 at hback
  unfold HCT.receive
  simp only [hpath, hlast, hP1, bind, Except.bind, pure, Except.pure]
  erw [hback]
  simp only [hnd]
  erw [hthr]
  simp only [hexp]

/-- **`receive` after `pull`** (HCT / VHCT): never raises (given a well-formed draw),
re-establishes the invariant, increments the round counter and maintains the U-formula for
the ghost time stamps. -/
theorem HCT_receive_inv {cfg : HCTCfg R S} (hbot : ∀ x, cfg.negInf ≤ x) (htop : ∀ x, x ≤ cfg.inf)
    {s : HCT α R S} {v : Nat} (Rd : HCTReady cfg s v) (r : R) (d : Draw α) (ds : List (Draw α))
    (hd : DrawOKLen s.P.kind (dimn s.P) d) :
    ∃ s' ds', HCT.receive cfg s r (d :: ds) = .ok (s', ds') ∧ HCTInv cfg s' ∧
      s'.iteration = s.iteration + 1 ∧
      ∀ ts, HCTU cfg s.P ts → HCTU cfg s'.P (tsStep s.iteration s.P v ts) := by
  obtain ⟨I, ⟨path, hpath, G⟩, hlen⟩ := Rd
  have W := I.wf
  obtain ⟨ndv, hv1, _⟩ := G.stop
  -- phase A: global refresh (when the counter is a power of two)
  obtain ⟨P1, hP1, SK1, hA⟩ := HCT_phaseA hbot W s.iteration
  -- phase B: record the reward at `v`, recompute its U
  have U3 := hctP3_upd cfg (cfg.dtOne (tPlus s.iteration)) P1 v r
  have SK3 : Skel s.P (hctP3 cfg (cfg.dtOne (tPlus s.iteration)) P1 v r) := SK1.trans U3.skel
  -- phase C: backward
  obtain ⟨P4, hback, OB, _, hbrec4⟩ := backward_spec hbot (SK3.wf W)
  have SK4 : Skel s.P P4 := SK3.trans OB.skel
  have W4 : WF P4 := SK4.wf W
  have hdesc4 : ∀ (j : Nat) (nd : Node α (TBSt R S)), s.P.nodes[j]? = some nd →
      ∃ b, P4.nodes[j]? = some { nd with st := { hctF cfg r s.iteration v j nd with b := b } } := by
    intro j nd hj
    obtain ⟨b1, h1⟩ := hA j nd hj
    obtain ⟨b4, h4⟩ := OB.node j _ (U3.get h1)
    refine ⟨b4, ?_⟩
    rw [h4]
    by_cases hjv : j = v
    · simp only [hjv, if_true, hctF, hctUpd_b, computeU_b]
    · simp only [hjv, if_false, hctF]
  have hinv4 : ∀ (j : Nat) (x4 : Node α (TBSt R S)), P4.nodes[j]? = some x4 →
      ∃ nd b, s.P.nodes[j]? = some nd ∧
        x4 = { nd with st := { hctF cfg r s.iteration v j nd with b := b } } := by
    intro j x4 h4
    have hlt : j < s.P.nodes.length := by rw [← SK4.len]; exact lt_length_of_getElem? h4
    obtain ⟨b, hb⟩ := hdesc4 j _ (List.getElem?_eq_getElem hlt)
    exact ⟨_, b, List.getElem?_eq_getElem hlt, getElem?_inj h4 hb⟩
  -- phase D: the threshold of the pulled node
  obtain ⟨bv, hnd4⟩ := hdesc4 v ndv hv1
  obtain ⟨t, hthr⟩ : ∃ t, (if cfg.variance then
        (.ok ({ hctF cfg r s.iteration v v ndv with b := bv } : TBSt R S).tau : Except Err S)
      else match s.tauH[ndv.depth]? with
        | none => .error .indexError
        | some t => .ok t) = .ok t := by
    cases hvar : cfg.variance with
    | true => exact ⟨(hctF cfg r s.iteration v v ndv).tau, by simp only [if_true]⟩
    | false =>
      have hl := hlen hvar
      have := W.depth_le v ndv hv1
      have hlt : ndv.depth < s.tauH.length := by omega
      exact ⟨s.tauH[ndv.depth], by
        simp only [Bool.false_eq_true, if_false, List.getElem?_eq_getElem hlt]⟩
  -- phase E: expansion (or not)
  obtain ⟨P5, ds', hexp, W5, Gr, hbrec5⟩ : ∃ P5 ds',
      (if ndv.children.isNone && cfg.countGE
            ({ hctF cfg r s.iteration v v ndv with b := bv } : TBSt R S).count t
        then P4.expand (HCT.st0 cfg) v (d :: ds) else .ok (P4, d :: ds)) = .ok (P5, ds') ∧
      WF P5 ∧ Grow P4 P5 (HCT.st0 cfg) v ∧ ∀ j, 0 < j → BRec P5 j := by
    by_cases hex : (ndv.children.isNone && cfg.countGE
        ({ hctF cfg r s.iteration v v ndv with b := bv } : TBSt R S).count t) = true
    · have hleaf : ndv.children = none := by
        rw [Bool.and_eq_true] at hex
        exact Option.isNone_iff_eq_none.1 hex.1
      have hd' : DrawOKLen P4.kind (dimn P4) d := by rw [SK4.kind, SK4.dimn_eq]; exact hd
      obtain ⟨P5, e1, W5, St⟩ := expand_ok W4 (HCT.st0 cfg) hnd4 hleaf ds hd'
      have hv0 : 0 < v := by
        apply Nat.pos_of_ne_zero
        rintro rfl
        obtain ⟨r0, cs, q1, q2⟩ := I.root_split
        obtain rfl := getElem?_inj q1 hv1
        rw [hleaf] at q2; cases q2
      exact ⟨P5, ds, by rw [if_pos hex]; exact e1, W5, Step.grow St W4 hnd4 hleaf,
        BRec_step St W4 W5 hnd4 hleaf rfl htop hv0 hbrec4⟩
    · exact ⟨P4, d :: ds, by rw [if_neg hex], W4, Grow.refl _ _ _, hbrec4⟩
  refine ⟨_, ds', HCT_receive_eq hpath G.last hP1 hback hnd4 hthr hexp, ?_, rfl, ?_⟩
  · -- the invariant
    have hnode : ∀ (j : Nat) (nd5 : Node α (TBSt R S)), P5.nodes[j]? = some nd5 →
        HCTNodeInv cfg nd5.st := by
      intro j nd5 h5
      rcases Gr.cases h5 with ⟨x4, g1, _, g3, _⟩ | ⟨_, g2, _⟩
      · obtain ⟨nd, b, n1, n2⟩ := hinv4 j x4 g1
        rw [g3, n2]
        exact hctF_inv cfg r s.iteration v j nd
          ⟨I.unvisited j nd n1, I.mean_ok j nd n1, I.var_ok j nd n1⟩
      · rw [g2]; exact st0_inv cfg
    refine ⟨W5, ?_, Nat.le_add_left 1 _, fun j nd h c => (hnode j nd h).1 c,
      fun j nd h c => (hnode j nd h).2.1 c, fun j nd h => (hnode j nd h).2.2, hbrec5⟩
    obtain ⟨r0, cs, q1, q2⟩ := I.root_split
    obtain ⟨b, hb⟩ := hdesc4 0 r0 q1
    obtain ⟨x', g1, _, _, g4⟩ := Gr.old 0 _ hb
    exact ⟨x', cs, g1, by rw [g4 (Or.inr (by simp [q2]))]; exact q2⟩
  · -- the U-formula
    intro ts hU j nd5 h5 hc
    rcases Gr.cases h5 with ⟨x4, g1, g2, g3, _⟩ | ⟨_, g2, _⟩
    · obtain ⟨nd, b, n1, n2⟩ := hinv4 j x4 g1
      have key := hctF_U cfg r s.iteration v j (ts j) nd (hU j nd n1)
      have hts : tsStep s.iteration s.P v ts j =
          (if j = v then s.iteration
           else if s.iteration = tPlus s.iteration ∧ 0 < nd.st.count then s.iteration
           else ts j) := by
        simp only [tsStep, stOf_eq n1]
      rw [hts, g2, g3, n2]
      rw [g3, n2] at hc
      exact key hc
    · rw [g2] at hc; simp [HCT.st0] at hc

end TBB
end PyXAB
