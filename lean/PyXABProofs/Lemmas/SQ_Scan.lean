/-
  The two list scans of SequOOL: `scan` (argmax over the unopened cells of a layer, with the
  count of unopened cells) and `lastScan` (argmax over the handed-out cells).
-/
import PyXABProofs.Spec.SeqSpec
import PyXABProofs.Lemmas.TBA_Rel

set_option linter.unusedSectionVars false

namespace PyXAB
namespace SQ
open Tree

variable {α S : Type} [LinearOrder S] [Inhabited S]

/-! ### What the scans read -/

/-- the part of a cell read by the scans -/
def view (P : Part α (SqSt S)) (id : Nat) : Option (Bool × Option S) :=
  (P.nodes[id]?).map (fun nd => (nd.st.opened, nd.st.rewards.head?))

theorem isUnopened_of_view {P P' : Part α (SqSt S)} {id : Nat} (h : view P id = view P' id) :
    isUnopened P' id = isUnopened P id := by
  unfold view at h
  unfold isUnopened
  cases h1 : P.nodes[id]? <;> cases h2 : P'.nodes[id]? <;> simp_all

theorem firstRew_of_view {P P' : Part α (SqSt S)} {id : Nat} (h : view P id = view P' id) :
    firstRew P' id = firstRew P id := by
  unfold view at h
  unfold firstRew
  cases h1 : P.nodes[id]? <;> cases h2 : P'.nodes[id]? <;> simp_all

theorem head?_eq_cons {l : List S} {r : S} {rest : List S} (h : l = r :: rest) :
    l.head? = some r := by subst h; rfl

/-- `scan` only depends on the `opened` flags and first rewards of the listed cells. -/
theorem scan_congr {P P' : Part α (SqSt S)} : ∀ (l : List Nat) (num : Nat) (maxv : S)
    (maxn : Option Nat), (∀ id ∈ l, view P id = view P' id) →
    SequOOL.scan P' l num maxv maxn = SequOOL.scan P l num maxv maxn
  | [], _, _, _, _ => rfl
  | id :: rest, num, maxv, maxn, h => by
    have hv := h id (List.mem_cons_self ..)
    have ih := fun num maxv maxn =>
      scan_congr (P := P) (P' := P') rest num maxv maxn (fun x hx => h x (List.mem_cons_of_mem _ hx))
    unfold view at hv
    unfold SequOOL.scan
    cases h1 : P.nodes[id]? with
    | none =>
      cases h2 : P'.nodes[id]? with
      | none => exact ih _ _ _
      | some nd' => simp [h1, h2] at hv
    | some nd =>
      cases h2 : P'.nodes[id]? with
      | none => simp [h1, h2] at hv
      | some nd' =>
        simp only [h1, h2, Option.map_some, Option.some.injEq, Prod.mk.injEq] at hv
        obtain ⟨e1, e2⟩ := hv
        simp only [e1]
        cases ho : nd'.st.opened with
        | true => simpa using ih _ _ _
        | false =>
          simp only [Bool.not_false, if_true]
          cases hr : nd.st.rewards with
          | nil =>
            cases hr' : nd'.st.rewards with
            | nil => rfl
            | cons r' rs' => simp [hr, hr'] at e2
          | cons r rs =>
            cases hr' : nd'.st.rewards with
            | nil => simp [hr, hr'] at e2
            | cons r' rs' =>
              obtain rfl : r = r' := by simpa [hr, hr'] using e2
              simp only [ih]

/-- General specification of `scan` (arbitrary accumulators). -/
theorem scan_spec (P : Part α (SqSt S)) : ∀ (l : List Nat) (num : Nat) (maxv : S)
    (maxn : Option Nat),
    (∀ id ∈ l, isUnopened P id = true → ∃ r, firstRew P id = some r) →
    ∃ res, SequOOL.scan P l num maxv maxn = .ok (num + l.countP (isUnopened P), res) ∧
      ((res = maxn ∧ ∀ id ∈ l, isUnopened P id = true → ∀ r, firstRew P id = some r → r < maxv) ∨
       (∃ l1 t l2 rt, l = l1 ++ t :: l2 ∧ res = some t ∧ isUnopened P t = true ∧
          firstRew P t = some rt ∧ maxv ≤ rt ∧
          (∀ id ∈ l1, isUnopened P id = true → ∀ r, firstRew P id = some r → r ≤ rt) ∧
          (∀ id ∈ l2, isUnopened P id = true → ∀ r, firstRew P id = some r → r < rt)))
  | [], num, maxv, maxn, _ => ⟨maxn, rfl, Or.inl ⟨rfl, fun _ h => nomatch h⟩⟩
  | id :: rest, num, maxv, maxn, h => by
    have hrest : ∀ x ∈ rest, isUnopened P x = true → ∃ r, firstRew P x = some r :=
      fun x hx => h x (List.mem_cons_of_mem _ hx)
    -- the skipped cell: not unopened
    have skip : isUnopened P id = false →
        SequOOL.scan P (id :: rest) num maxv maxn = SequOOL.scan P rest num maxv maxn →
        ∃ res, SequOOL.scan P (id :: rest) num maxv maxn =
            .ok (num + (id :: rest).countP (isUnopened P), res) ∧
          ((res = maxn ∧ ∀ x ∈ id :: rest, isUnopened P x = true →
              ∀ r, firstRew P x = some r → r < maxv) ∨
           (∃ l1 t l2 rt, id :: rest = l1 ++ t :: l2 ∧ res = some t ∧ isUnopened P t = true ∧
              firstRew P t = some rt ∧ maxv ≤ rt ∧
              (∀ x ∈ l1, isUnopened P x = true → ∀ r, firstRew P x = some r → r ≤ rt) ∧
              (∀ x ∈ l2, isUnopened P x = true → ∀ r, firstRew P x = some r → r < rt))) := by
      intro hu he
      obtain ⟨res, r1, r2⟩ := scan_spec P rest num maxv maxn hrest
      refine ⟨res, ?_, ?_⟩
      · rw [he, r1, List.countP_cons_of_neg (by simp [hu])]
      · rcases r2 with ⟨a1, a2⟩ | ⟨l1, t, l2, rt, a1, a2, a3, a4, a5, a6, a7⟩
        · refine Or.inl ⟨a1, fun x hx hux => ?_⟩
          rcases List.mem_cons.1 hx with rfl | hx
          · rw [hu] at hux; cases hux
          · exact a2 x hx hux
        · refine Or.inr ⟨id :: l1, t, l2, rt, by rw [a1]; rfl, a2, a3, a4, a5, fun x hx hux => ?_, a7⟩
          rcases List.mem_cons.1 hx with rfl | hx
          · rw [hu] at hux; cases hux
          · exact a6 x hx hux
    cases h1 : P.nodes[id]? with
    | none =>
      exact skip (by simp [isUnopened, h1]) (by rw [SequOOL.scan]; simp only [h1])
    | some nd =>
      cases ho : nd.st.opened with
      | true =>
        exact skip (by simp [isUnopened, h1, ho]) (by rw [SequOOL.scan]; simp [h1, ho])
      | false =>
        have hu : isUnopened P id = true := by simp [isUnopened, h1, ho]
        obtain ⟨r0, hr0⟩ := h id (List.mem_cons_self ..) hu
        have hfr : ∀ r, firstRew P id = some r → r = r0 := by
          intro r hr; rw [hr0] at hr; exact (Option.some.inj hr).symm
        cases hrw : nd.st.rewards with
        | nil => simp [firstRew, h1, hrw] at hr0
        | cons r rs =>
          obtain rfl : r = r0 := by simpa [firstRew, h1, hrw] using hr0
          by_cases hle : maxv ≤ r
          · have he : SequOOL.scan P (id :: rest) num maxv maxn =
                SequOOL.scan P rest (num + 1) r (some id) := by
              rw [SequOOL.scan]; simp [h1, ho, hrw, hle]
            obtain ⟨res, r1, r2⟩ := scan_spec P rest (num + 1) r (some id) hrest
            refine ⟨res, ?_, Or.inr ?_⟩
            · rw [he, r1, List.countP_cons_of_pos (by simp [hu])]
              congr 2; omega
            · rcases r2 with ⟨a1, a2⟩ | ⟨l1, t, l2, rt, a1, a2, a3, a4, a5, a6, a7⟩
              · exact ⟨[], id, rest, r, rfl, a1, hu, hr0, hle, by simp, a2⟩
              · refine ⟨id :: l1, t, l2, rt, by rw [a1]; rfl, a2, a3, a4, le_trans hle a5,
                  fun x hx hux => ?_, a7⟩
                rcases List.mem_cons.1 hx with rfl | hx
                · intro r' hr'; rw [hfr r' hr']; exact a5
                · exact a6 x hx hux
          · have hlt : r < maxv := not_le.1 hle
            have he : SequOOL.scan P (id :: rest) num maxv maxn =
                SequOOL.scan P rest (num + 1) maxv maxn := by
              rw [SequOOL.scan]; simp [h1, ho, hrw, hle]
            obtain ⟨res, r1, r2⟩ := scan_spec P rest (num + 1) maxv maxn hrest
            refine ⟨res, ?_, ?_⟩
            · rw [he, r1, List.countP_cons_of_pos (by simp [hu])]
              congr 2; omega
            · rcases r2 with ⟨a1, a2⟩ | ⟨l1, t, l2, rt, a1, a2, a3, a4, a5, a6, a7⟩
              · refine Or.inl ⟨a1, fun x hx hux => ?_⟩
                rcases List.mem_cons.1 hx with rfl | hx
                · intro r' hr'; rw [hfr r' hr']; exact hlt
                · exact a2 x hx hux
              · refine Or.inr ⟨id :: l1, t, l2, rt, by rw [a1]; rfl, a2, a3, a4, a5,
                  fun x hx hux => ?_, a7⟩
                rcases List.mem_cons.1 hx with rfl | hx
                · intro r' hr'; rw [hfr r' hr']; exact le_trans (le_of_lt hlt) a5
                · exact a6 x hx hux

/-- The scan of a layer as `pull` calls it: with `negInf` a bottom element, every unopened cell
evaluated and at least one unopened cell, it returns the number of unopened cells and the last
unopened cell with maximal first reward. -/
theorem scan_top (P : Part α (SqSt S)) (negInf : S) (hbot : ∀ x : S, negInf ≤ x) (l : List Nat)
    (hrew : ∀ id ∈ l, isUnopened P id = true → ∃ r, firstRew P id = some r)
    (hex : ∃ id ∈ l, isUnopened P id = true) :
    ∃ t, SequOOL.scan P l 0 negInf none = .ok (l.countP (isUnopened P), some t) ∧
      IsArgmaxLast P l t := by
  obtain ⟨res, r1, r2⟩ := scan_spec P l 0 negInf none hrew
  rcases r2 with ⟨_, a2⟩ | ⟨l1, t, l2, rt, a1, a2, a3, a4, _, a6, a7⟩
  · obtain ⟨id, h1, h2⟩ := hex
    obtain ⟨r, hr⟩ := hrew id h1 h2
    exact absurd (a2 id h1 h2 r hr) (not_lt.2 (hbot r))
  · subst a2
    exact ⟨t, by simpa using r1, l1, l2, rt, a1, a3, a4, a6, a7⟩

/-- Whatever `scan` returns from the initial accumulators, under the hypotheses of
`scan_top` it is the argmax. -/
theorem scan_result (P : Part α (SqSt S)) (negInf : S)
    (l : List Nat) (hrew : ∀ id ∈ l, isUnopened P id = true → ∃ r, firstRew P id = some r)
    {num t : Nat} (h : SequOOL.scan P l 0 negInf none = .ok (num, some t)) :
    num = l.countP (isUnopened P) ∧ IsArgmaxLast P l t := by
  obtain ⟨res, r1, r2⟩ := scan_spec P l 0 negInf none hrew
  rw [h] at r1
  simp only [Except.ok.injEq, Prod.mk.injEq, Nat.zero_add] at r1
  obtain ⟨e1, e2⟩ := r1
  subst e2
  refine ⟨e1, ?_⟩
  rcases r2 with ⟨a1, _⟩ | ⟨l1, t', l2, rt, a1, a2, a3, a4, _, a6, a7⟩
  · cases a1
  · obtain rfl : t = t' := Option.some.inj a2
    exact ⟨l1, l2, rt, a1, a3, a4, a6, a7⟩

theorem IsArgmaxLast.mem {P : Part α (SqSt S)} {l : List Nat} {t : Nat}
    (h : IsArgmaxLast P l t) : t ∈ l := by
  obtain ⟨l1, l2, _, rfl, _⟩ := h
  simp

theorem IsArgmaxLast.unopened {P : Part α (SqSt S)} {l : List Nat} {t : Nat}
    (h : IsArgmaxLast P l t) : isUnopened P t = true := by
  obtain ⟨_, _, _, _, h, _⟩ := h
  exact h

/-! ### `lastScan` -/

/-- `lastScan` only depends on the first rewards of the listed cells. -/
theorem lastScan_congr {P P' : Part α (SqSt S)} : ∀ (l : List Nat) (maxv : S)
    (maxn : Option Nat), (∀ id ∈ l, view P id = view P' id) →
    SequOOL.lastScan P' l maxv maxn = SequOOL.lastScan P l maxv maxn
  | [], _, _, _ => rfl
  | id :: rest, maxv, maxn, h => by
    have hv := h id (List.mem_cons_self ..)
    have ih := fun maxv maxn =>
      lastScan_congr (P := P) (P' := P') rest maxv maxn (fun x hx => h x (List.mem_cons_of_mem _ hx))
    unfold view at hv
    unfold SequOOL.lastScan
    cases h1 : P.nodes[id]? with
    | none =>
      cases h2 : P'.nodes[id]? with
      | none => rfl
      | some nd' => simp [h1, h2] at hv
    | some nd =>
      cases h2 : P'.nodes[id]? with
      | none => simp [h1, h2] at hv
      | some nd' =>
        simp only [h1, h2, Option.map_some, Option.some.injEq, Prod.mk.injEq] at hv
        obtain ⟨_, e2⟩ := hv
        cases hr : nd.st.rewards with
        | nil =>
          cases hr' : nd'.st.rewards with
          | nil => simp only [hr, hr']
          | cons r' rs' => simp [hr, hr'] at e2
        | cons r rs =>
          cases hr' : nd'.st.rewards with
          | nil => simp [hr, hr'] at e2
          | cons r' rs' =>
            obtain rfl : r = r' := by simpa [hr, hr'] using e2
            simp only [hr, hr', ih]

theorem lastScan_spec (P : Part α (SqSt S)) : ∀ (l : List Nat) (maxv : S) (maxn : Option Nat),
    (∀ id ∈ l, ∃ r, firstRew P id = some r) →
    ∃ res, SequOOL.lastScan P l maxv maxn = .ok res ∧
      ((res = maxn ∧ ∀ id ∈ l, ∀ r, firstRew P id = some r → r < maxv) ∨
       (∃ l1 t l2 rt, l = l1 ++ t :: l2 ∧ res = some t ∧ firstRew P t = some rt ∧ maxv ≤ rt ∧
          (∀ id ∈ l1, ∀ r, firstRew P id = some r → r ≤ rt) ∧
          (∀ id ∈ l2, ∀ r, firstRew P id = some r → r < rt)))
  | [], maxv, maxn, _ => ⟨maxn, rfl, Or.inl ⟨rfl, fun _ h => nomatch h⟩⟩
  | id :: rest, maxv, maxn, h => by
    have hrest : ∀ x ∈ rest, ∃ r, firstRew P x = some r :=
      fun x hx => h x (List.mem_cons_of_mem _ hx)
    obtain ⟨r0, hr0⟩ := h id (List.mem_cons_self ..)
    have hfr : ∀ r, firstRew P id = some r → r = r0 := by
      intro r hr; rw [hr0] at hr; exact (Option.some.inj hr).symm
    cases h1 : P.nodes[id]? with
    | none => simp [firstRew, h1] at hr0
    | some nd =>
      cases hrw : nd.st.rewards with
      | nil => simp [firstRew, h1, hrw] at hr0
      | cons r rs =>
        obtain rfl : r = r0 := by simpa [firstRew, h1, hrw] using hr0
        by_cases hle : maxv ≤ r
        · have he : SequOOL.lastScan P (id :: rest) maxv maxn =
              SequOOL.lastScan P rest r (some id) := by
            rw [SequOOL.lastScan]; simp [h1, hrw, hle]
          obtain ⟨res, r1, r2⟩ := lastScan_spec P rest r (some id) hrest
          refine ⟨res, by rw [he, r1], Or.inr ?_⟩
          rcases r2 with ⟨a1, a2⟩ | ⟨l1, t, l2, rt, a1, a2, a4, a5, a6, a7⟩
          · exact ⟨[], id, rest, r, rfl, a1, hr0, hle, by simp, a2⟩
          · refine ⟨id :: l1, t, l2, rt, by rw [a1]; rfl, a2, a4, le_trans hle a5,
              fun x hx => ?_, a7⟩
            rcases List.mem_cons.1 hx with rfl | hx
            · intro r' hr'; rw [hfr r' hr']; exact a5
            · exact a6 x hx
        · have hlt : r < maxv := not_le.1 hle
          have he : SequOOL.lastScan P (id :: rest) maxv maxn =
              SequOOL.lastScan P rest maxv maxn := by
            rw [SequOOL.lastScan]; simp [h1, hrw, hle]
          obtain ⟨res, r1, r2⟩ := lastScan_spec P rest maxv maxn hrest
          refine ⟨res, by rw [he, r1], ?_⟩
          rcases r2 with ⟨a1, a2⟩ | ⟨l1, t, l2, rt, a1, a2, a4, a5, a6, a7⟩
          · refine Or.inl ⟨a1, fun x hx => ?_⟩
            rcases List.mem_cons.1 hx with rfl | hx
            · intro r' hr'; rw [hfr r' hr']; exact hlt
            · exact a2 x hx
          · refine Or.inr ⟨id :: l1, t, l2, rt, by rw [a1]; rfl, a2, a4, a5,
              fun x hx => ?_, a7⟩
            rcases List.mem_cons.1 hx with rfl | hx
            · intro r' hr'; rw [hfr r' hr']; exact le_trans (le_of_lt hlt) a5
            · exact a6 x hx

/-- `lastPoint` on a non-empty list of evaluated cells returns the last cell with maximal
first reward. -/
theorem lastScan_top (P : Part α (SqSt S)) (negInf : S) (hbot : ∀ x : S, negInf ≤ x)
    (l : List Nat) (hrew : ∀ id ∈ l, ∃ r, firstRew P id = some r) (hne : l ≠ []) :
    ∃ v, SequOOL.lastScan P l negInf none = .ok (some v) ∧ IsMaxLast P l v := by
  obtain ⟨res, r1, r2⟩ := lastScan_spec P l negInf none hrew
  rcases r2 with ⟨_, a2⟩ | ⟨l1, t, l2, rt, a1, a2, a4, _, a6, a7⟩
  · obtain ⟨id, hid⟩ := List.exists_mem_of_ne_nil l hne
    obtain ⟨r, hr⟩ := hrew id hid
    exact absurd (a2 id hid r hr) (not_lt.2 (hbot r))
  · subst a2
    exact ⟨t, r1, l1, l2, rt, a1, a4, a6, a7⟩

end SQ
end PyXAB
