/-
  Concrete data for the non-vacuity example and the arity-3 counterexample of C13:
  a configuration over `ℚ`, the interval `[0,1]`.
-/
import PyXABProofs.Lemmas.VR_Simple
import Mathlib.Algebra.Order.Field.Rat

namespace PyXAB
namespace VR
open VROOM _root_.PyXAB.Tree

/-- A configuration over `ℚ`: the weights and their accumulation exactly as in the code,
`probOK` checks that the weights sum to one; the lower confidence key uses a rational
surrogate for the square root (`mean − 1/(2·evals)`, `−1000` for an unevaluated cell). -/
def exCfg (sd hmax : Nat) : VrCfg ℚ ℚ :=
  { negInf := -1000, sd := sd, hmax := hmax
    lcb := fun rs => if rs = [] then -1000 else rs.sum / (rs.length : ℚ) - 1 / (2 * (rs.length : ℚ))
    probOf := fun h r => weight sd h r
    pzero := 0, pone := 1, padd := fun a b => a + b
    tildeOf := fun r p i => r / (p / 2 ^ i)
    value := fun rs _ rk => rs.sum - (rk.sum : ℚ)
    probOK := fun ps => decide (ps.sum = 1) }

theorem exCfg_field (sd hmax : Nat) : FieldCfg (exCfg sd hmax) :=
  ⟨fun _ _ => rfl, fun _ _ => rfl, rfl⟩

theorem exCfg_probOK (sd hmax : Nat) (ps : List ℚ) (h : ps.sum = 1) :
    (exCfg sd hmax).probOK ps = true := by
  simp [exCfg, h]

/-- the interval `[0,1]` -/
def dom01 : Box ℚ := [⟨0, 1⟩]
def d0 : Draw ℚ := ⟨0, []⟩

theorem dom01_valid : Box.Valid dom01 := by
  intro iv hiv
  simp only [dom01, List.mem_cons, List.not_mem_nil, or_false] at hiv
  subst hiv
  show (0 : ℚ) ≤ 1
  decide +kernel

instance : Inhabited (VROOM ℚ ℚ ℚ) := ⟨⟨default, 0, [], none, []⟩⟩

theorem eq_ok_getOk {β : Type} [Inhabited β] (x : Except Err β)
    (h : x.isOk = true) : x = .ok (getOk x) := by
  cases x with
  | ok v => rfl
  | error e => cases h

/-! ### binary partition, `sd = 2`, `hmax = 3` -/

def cfgB : VrCfg ℚ ℚ := exCfg 2 3

/-- the state after `__init__`: 7 cells, layers `[[0],[1,2],[3,4,5,6]]` -/
def sB0 : VROOM ℚ ℚ ℚ := (getOk (VROOM.init cfgB .binary dom01 [d0, d0, d0])).1

/-- `np.random.choice` returns position 3 of the weight list = `(2, 1)` = cell 4 = `[1/4,1/2]`;
one descent step (to `hmax = 3`) expanding cell 4 and taking child 1 = cell 8 = `[3/8,1/2]`;
the sampled point is `7/16`. -/
def drB : VDraw ℚ := { choice := 3, steps := [(some d0, 1)], pt := [7 / 16] }

def pB : VROOM ℚ ℚ ℚ × Nat × List ℚ := getOk (pull cfgB sB0 1 drB)
def sB1 : VROOM ℚ ℚ ℚ := pB.1
def sB2 : VROOM ℚ ℚ ℚ := getOk (receive cfgB sB1 (3 / 4))

theorem sB0_eq : VROOM.init cfgB .binary dom01 [d0, d0, d0] =
    .ok (sB0, (getOk (VROOM.init cfgB .binary dom01 [d0, d0, d0])).2) :=
  eq_ok_getOk _ (by decide +kernel)

theorem pB_eq : pull cfgB sB0 1 drB = .ok (sB1, pB.2.1, pB.2.2) :=
  eq_ok_getOk _ (by decide +kernel)

theorem pB_val : pB.2 = (8, [7 / 16]) := by decide +kernel

theorem sB2_eq : receive cfgB sB1 (3 / 4) = .ok sB2 := eq_ok_getOk _ (by decide +kernel)

/-! ### ternary partition, `sd = 1` -/

def cfgT : VrCfg ℚ ℚ := exCfg 1 2
def sT0 : VROOM ℚ ℚ ℚ := (getOk (VROOM.init cfgT (.kary 3) dom01 [d0])).1

theorem sT0_eq : VROOM.init cfgT (.kary 3) dom01 [d0] =
    .ok (sT0, (getOk (VROOM.init cfgT (.kary 3) dom01 [d0])).2) :=
  eq_ok_getOk _ (by decide +kernel)

end VR
end PyXAB
